import Tw.Model.HuffmanFreq

/-! `fromFrequencies` on the all-zero frequency vector panics (defect D16): every merge has
frequency 0, the stable sort keeps the freshly created parent last, so the tree degenerates into a
chain of depth 256 and the 25th push onto the 24-entry stack fails. -/
namespace Tw.Huffman

theorem insertDesc_zero (x : Freq) (hx : x.frequency = 0) (acc : List Freq) :
    insertDesc x acc = acc ++ [x] := by
  induction acc with
  | nil => rfl
  | cons y ys ih => simp [insertDesc, hx, ih]

theorem foldl_insert_zeros (zs : List Freq) (hz : ∀ z ∈ zs, z.frequency = 0) :
    ∀ acc, zs.foldl (fun acc x => insertDesc x acc) acc = acc ++ zs := by
  induction zs with
  | nil => intro acc; simp
  | cons z zs ih =>
    intro acc
    simp only [List.foldl_cons]
    rw [insertDesc_zero z (hz z (by simp)), ih (fun z' hz' => hz z' (by simp [hz']))]
    simp

theorem sortDesc_head_zeros (e : Freq) (zs : List Freq) (hz : ∀ z ∈ zs, z.frequency = 0) :
    sortDesc (e :: zs) = e :: zs := by
  simp only [sortDesc, List.foldl_cons, insertDesc]
  rw [foldl_insert_zeros zs hz]
  rfl

theorem sortDesc_zeros_last (e : Freq) (he : e.frequency = 1) (zs : List Freq)
    (hz : ∀ z ∈ zs, z.frequency = 0) : sortDesc (zs ++ [e]) = e :: zs := by
  simp only [sortDesc, List.foldl_append, List.foldl_cons, List.foldl_nil]
  rw [foldl_insert_zeros zs hz]
  cases zs with
  | nil => rfl
  | cons z zs' =>
    have := hz z (by simp)
    simp [insertDesc, this, he]

/-- every inner node from 258 on has its predecessor as first child -/
def Chain (nodes : Table) : Prop :=
  ∀ i, 258 ≤ i → i < nodes.size → (node nodes i).1 = i - 1

theorem node_push (nodes : Table) (x : Nat × Nat) (i : Nat) :
    node (nodes.push x) i = if i = nodes.size then x else node nodes i := by
  simp only [node, Array.getD_eq_getD_getElem?, Array.getElem?_push]
  by_cases h : i = nodes.size
  · simp [h]
  · simp [h]

theorem chain_push (nodes : Table) (h : Chain nodes) (_hs : 258 ≤ nodes.size) (b : Nat) :
    Chain (nodes.push (nodes.size - 1, b)) := by
  intro i h1 h2
  rw [node_push]
  simp only [Array.size_push] at h2
  by_cases hi : i = nodes.size
  · simp [hi]
  · simp only [hi, if_false]
    exact h i h1 (by omega)

theorem buildTree_step (f : Nat) (fs : List Freq) (nodes : Table) (f1 f2 : Freq)
    (restRev : List Freq) (hlen : ¬ fs.length ≤ 1)
    (hrev : (sortDesc fs).reverse = f1 :: f2 :: restRev) :
    buildTree (f + 1) fs nodes =
      buildTree f (restRev.reverse ++
        [⟨if f1.frequency + f2.frequency > U32_MAX then U32_MAX else f1.frequency + f2.frequency,
          nodes.size⟩]) (nodes.push (f1.nodeIdx, f2.nodeIdx)) := by
  rw [buildTree]
  simp only [hlen, if_false, hrev]

theorem buildTree_single (f : Nat) (x : Freq) (nodes : Table) : buildTree f [x] nodes = nodes := by
  cases f with
  | zero => rfl
  | succ f' => rw [buildTree]; simp

theorem buildTree_chain (fuel : Nat) :
    ∀ (zs : List Freq) (e : Freq) (nodes : Table), e.frequency = 1 → (∀ z ∈ zs, z.frequency = 0) →
      258 ≤ nodes.size → Chain nodes → zs.length + 2 ≤ fuel →
      Chain (buildTree fuel (e :: (zs ++ [⟨0, nodes.size - 1⟩])) nodes)
        ∧ (buildTree fuel (e :: (zs ++ [⟨0, nodes.size - 1⟩])) nodes).size = nodes.size + zs.length + 1 := by
  induction fuel with
  | zero => intro zs e nodes _ _ _ _ hf; omega
  | succ f ih =>
    intro zs e nodes he hz hs hc hf
    have hz' : ∀ z ∈ zs ++ [(⟨0, nodes.size - 1⟩ : Freq)], z.frequency = 0 := by
      intro z hm
      simp only [List.mem_append, List.mem_singleton] at hm
      rcases hm with hm | rfl
      · exact hz z hm
      · rfl
    have hlen : ¬ (e :: (zs ++ [(⟨0, nodes.size - 1⟩ : Freq)])).length ≤ 1 := by simp
    have hsort := sortDesc_head_zeros e _ hz'
    rcases List.eq_nil_or_concat zs with rfl | ⟨zs', z, rfl⟩
    · -- the last merge: parent and EOF
      have hrev : (sortDesc (e :: ([] ++ [(⟨0, nodes.size - 1⟩ : Freq)]))).reverse
          = ⟨0, nodes.size - 1⟩ :: e :: [] := by rw [hsort]; rfl
      rw [buildTree_step f _ nodes _ _ _ hlen hrev]
      simp only [List.reverse_nil, List.nil_append]
      rw [buildTree_single]
      exact ⟨chain_push nodes hc hs _, by simp⟩
    · have hzz : z.frequency = 0 := hz z (by simp)
      have hrev : (sortDesc (e :: (zs'.concat z ++ [(⟨0, nodes.size - 1⟩ : Freq)]))).reverse
          = ⟨0, nodes.size - 1⟩ :: z :: (zs'.reverse ++ [e]) := by
        rw [hsort]; simp
      rw [buildTree_step f _ nodes _ _ _ hlen hrev]
      have hu : ¬ (0 > U32_MAX) := by decide
      simp only [hzz, Nat.add_zero, hu, if_false, List.reverse_append, List.reverse_cons,
        List.reverse_nil, List.nil_append, List.reverse_reverse, List.cons_append]
      have hsz : (nodes.push (nodes.size - 1, z.nodeIdx)).size - 1 = nodes.size := by simp
      have := ih zs' e (nodes.push (nodes.size - 1, z.nodeIdx)) he
        (fun z' hz'' => hz z' (by simp [hz''])) (by simp; omega) (chain_push nodes hc hs _)
        (by simp at hf ⊢; omega)
      rw [hsz] at this
      refine ⟨this.1, ?_⟩
      rw [this.2]
      simp
      omega

/-- the stack overflow: 24 pushes along the chain, the 25th panics -/
theorem descend_chain (nodes : Table) (hc : Chain nodes) (hsz : nodes.size = 513) (n : Nat) :
    ∀ (fuel : Nat) (stack : List Nat) (top : Nat), stack.length + n = 24 → 258 + n ≤ top →
      top < 513 → n < fuel →
      descend nodes fuel stack top
        = .panic "stack.push: ArrayVec capacity (code longer than 24 bits)" := by
  induction n with
  | zero =>
    intro fuel stack top hst h1 h2 hf
    cases fuel with
    | zero => omega
    | succ f =>
      have e1 : top ≥ NUM_SYMBOLS := by simp only [NUM_SYMBOLS]; omega
      have e2 : stack.length ≥ 24 := by omega
      simp only [descend, e1, e2, if_true]
  | succ n ih =>
    intro fuel stack top hst h1 h2 hf
    cases fuel with
    | zero => omega
    | succ f =>
      have e1 : top ≥ NUM_SYMBOLS := by simp only [NUM_SYMBOLS]; omega
      have e2 : ¬ stack.length ≥ 24 := by omega
      have e3 : ¬ top ≥ nodes.size := by omega
      simp only [descend, e1, e2, e3, if_true, if_false]
      rw [hc top (by omega) (by omega)]
      exact ih f (top :: stack) (top - 1) (by simp only [List.length_cons]; omega) (by omega)
        (by omega) (by omega)

theorem dfs_first_panic (nodes : Table) (f : Nat) (msg : String)
    (h : descend nodes 32 [] ROOT_IDX = .panic msg) : dfs nodes (f + 1) [] 0 true = .panic msg := by
  rw [dfs]
  simp only [if_true, h]

theorem zeros_eq : ((List.replicate 256 0).zipIdx.map fun ((x, i) : Nat × Nat) => (⟨x, i⟩ : Freq))
    = (List.range 256).map fun i => (⟨0, i⟩ : Freq) := by decide +kernel

theorem fromFrequencies_zero_panics :
    fromFrequencies (List.replicate 256 0)
      = .panic "stack.push: ArrayVec capacity (code longer than 24 bits)" := by
  have hlen : ¬ (List.replicate 256 0).length ≠ 256 := by
    rw [List.length_replicate]; exact fun h => h rfl
  simp only [fromFrequencies, hlen, if_false, zeros_eq]
  -- round 1: the zeros in index order, EOF first after the sort
  have hr : List.range 256 = List.range 254 ++ [254, 255] := by
    show List.range (254 + 1 + 1) = _
    rw [List.range_succ, List.range_succ]; simp
  let zs : List Freq := (List.range 254).map fun i => (⟨0, i⟩ : Freq)
  have hzs : ∀ z ∈ zs, z.frequency = 0 := by
    intro z hz
    simp only [zs, List.mem_map] at hz
    obtain ⟨i, _, rfl⟩ := hz
    rfl
  have hfs : ((List.range 256).map fun i => (⟨0, i⟩ : Freq)) = zs ++ [⟨0, 254⟩, ⟨0, 255⟩] := by
    rw [hr, List.map_append]; rfl
  have hzall : ∀ z ∈ zs ++ [(⟨0, 254⟩ : Freq), ⟨0, 255⟩], z.frequency = 0 := by
    intro z hz
    simp only [List.mem_append, List.mem_cons, List.not_mem_nil, or_false] at hz
    rcases hz with hz | rfl | rfl
    · exact hzs z hz
    · rfl
    · rfl
  rw [hfs]
  have hl : (zs ++ [(⟨0, 254⟩ : Freq), ⟨0, 255⟩] ++ [(⟨1, EOF⟩ : Freq)]).length = 256 + 1 := by
    simp [zs]
  rw [hl]
  have hrev : (sortDesc (zs ++ [(⟨0, 254⟩ : Freq), ⟨0, 255⟩] ++ [(⟨1, EOF⟩ : Freq)])).reverse
      = ⟨0, 255⟩ :: ⟨0, 254⟩ :: (zs.reverse ++ [⟨1, EOF⟩]) := by
    rw [sortDesc_zeros_last _ rfl _ hzall]; simp
  rw [buildTree_step 256 _ _ _ _ _ (by rw [hl]; decide) hrev]
  have hsz0 : (Array.replicate NUM_SYMBOLS ((65535, 65535) : Nat × Nat)).size = 257 := by
    simp [NUM_SYMBOLS]
  simp only [List.reverse_append, List.reverse_cons, List.reverse_nil, List.nil_append,
    List.reverse_reverse, List.cons_append, hsz0]
  have hu : ¬ (0 + 0 > U32_MAX) := by decide
  simp only [hu, if_false]
  -- the remaining rounds keep the chain
  have hsz1 : ((Array.replicate NUM_SYMBOLS ((65535, 65535) : Nat × Nat)).push (255, 254)).size = 258 := by
    simp [NUM_SYMBOLS]
  have hchain0 : Chain ((Array.replicate NUM_SYMBOLS ((65535, 65535) : Nat × Nat)).push (255, 254)) := by
    intro i h1 h2; rw [hsz1] at h2; omega
  have hb := buildTree_chain 256 zs ⟨1, EOF⟩
    ((Array.replicate NUM_SYMBOLS ((65535, 65535) : Nat × Nat)).push (255, 254)) rfl hzs
    (by rw [hsz1]; decide) hchain0 (by simp [zs])
  rw [hsz1] at hb
  have e257 : (258 : Nat) - 1 = 257 := rfl
  rw [e257] at hb
  simp only [Nat.add_zero]
  generalize buildTree 256 ((⟨1, EOF⟩ : Freq) :: (zs ++ [⟨0, 257⟩]))
    ((Array.replicate NUM_SYMBOLS ((65535, 65535) : Nat × Nat)).push (255, 254)) = T at hb ⊢
  obtain ⟨hc, hsz⟩ := hb
  have hsz' : T.size = 513 := by rw [hsz]; simp [zs]
  have hd := descend_chain T hc hsz' 24 32 [] ROOT_IDX rfl (by decide) (by decide) (by decide)
  have hdfs := dfs_first_panic T 4095 _ hd
  have e4096 : (4095 : Nat) + 1 = 4096 := rfl
  rw [e4096] at hdfs
  rw [hdfs]

end Tw.Huffman
