import Tw.Proofs.ConnFairH
import Tw.Proofs.ConnTimed7

/-!
# C02 (c), 0.7: the generalised interface (acceptor online or pending) and the handshake rounds
-/
namespace Tw.NetSim.P7
open Tw.Conn Tw.Conn7 Tw.Time Tw.NetSim

def kindOf (k : Nat) : Control := if k = 1 then .accept else .keepAlive

def pktH (their : Nat) : DgH → Packet
  | .chunk f => ofFlushed their f
  | .ctl k a => .control a their (kindOf k)

/-- online with core `o`, or pending (then the core is the fresh one); `t = (own, their)` -/
def Sh (t : Nat × Nat) (o : Online) (c : Conn) : Prop :=
  (∃ s, c = ⟨.online t.1 t.2 o, s⟩) ∨ (o = .new ∧ ∃ s, c = ⟨.pending t.1 t.2, s⟩)

/-- the shape with a flag: `(t, true)` means "online" -/
def ShF (t : (Nat × Nat) × Bool) (o : Online) (c : Conn) : Prop :=
  Sh t.1 o c ∧ (t.2 = true → ∃ s, c = ⟨.online t.1.1 t.1.2 o, s⟩)

def conv : Dg → DgH
  | .chunk f => .chunk f
  | .ka a => .ctl 0 a

theorem conv_pkt (t : Nat × Nat) (d : Dg) : iface7.pkt t d = pktH t.2 (conv d) := by
  cases d <;> rfl

theorem conv_fl (d : Dg) : (conv d).fl = d.fl := by cases d <;> rfl

theorem emit_ctl (a t k : Nat) : emit [.control a t (kindOf k)] = .ok [.control a t (kindOf k)] :=
  Tw.Conn7.emit_ok (by
    intro p hp; simp at hp; subst hp
    exact Tw.Conn7.control_valid a t _ (by intro r hr; unfold kindOf at hr; split at hr <;> cases hr)
      (by intro r hr; unfold kindOf at hr; split at hr <;> cases hr)
      (by intro r hr; unfold kindOf at hr; split at hr <;> cases hr))

theorem feedBody_ctl_online (env : Env) (own their : Nat) (o : Online) (s : Timeout) (t' a k : Nat) :
    feedBody env ⟨.online own their o, s⟩ (.control a t' (kindOf k)) = .ok (⟨.online own their o, s⟩, {}) := by
  unfold kindOf; split <;> simp [feedBody]

theorem feedBody_ctl_pending (env : Env) (own their : Nat) (s : Timeout) (t' a k : Nat) :
    feedBody env ⟨.pending own their, s⟩ (.control a t' (kindOf k)) = .ok (⟨.pending own their, s⟩, {}) := by
  unfold kindOf; split <;> simp [feedBody]

theorem tick_pending (now : Nat) (own their : Nat) (s : Timeout) (h : s.triggered now = true) :
    P7.call now [] ⟨.pending own their, s⟩ .tick =
      .ok { conn := ⟨.pending own their, Timeout.after now sendUs⟩, sent := [.control 0 their .accept] } := by
  have hem : emit [.control 0 their .accept] = .ok [.control 0 their .accept] := emit_ctl 0 their 1
  simp [P7.call, Conn7.tick, h, tickAction, sendControl, sendControlWith, State.theirToken?, hem]

theorem new_feedAck {a : Nat} (h : a < seqMod) : Online.new.feedAck a = .ok .new := by
  simp [Online.feedAck, Nat.not_le.mpr h, Online.ackChunks, Online.new]

set_option maxRecDepth 4000 in
def gface7 : GIface proto7 core Conn7.cfg Timed where
  Tok := (Nat × Nat) × Bool
  Sh := ShF
  pkt := fun t => pktH t.1.2
  peer := fun tx ty => tx.1.2 = ty.1.1
  core_sh := by
    intro t o c h
    rcases h.1 with ⟨s, rfl⟩ | ⟨rfl, s, rfl⟩ <;> rfl
  view_pkt := by intro t d; cases d <;> rfl
  online_sh := by
    intro t o c h
    rcases h.1 with ⟨s, rfl⟩ | ⟨rfl, s, rfl⟩
    · exact Or.inl rfl
    · exact Or.inr ⟨rfl, rfl⟩
  tickPhase := by
    intro now0 t o c h hinv hack hS
    obtain ⟨⟨own, their⟩, flg⟩ := t
    obtain ⟨h, hflg⟩ := h
    dsimp only at h hflg
    rcases h with ⟨s, rfl⟩ | ⟨rfl, s, rfl⟩
    · obtain ⟨c1, o2, s2, d1, d2, e1, e2, hps, hne⟩ :=
        iface7.tickPhase Conn7.cfg_ok (now0 := now0) (t := (own, their)) (s := s) hinv hack hS.1 hS.2
      have hmap : ∀ ds : List Dg, (ds.map conv).map (pktH their) = ds.map (iface7.pkt (own, their)) := by
        intro ds; rw [List.map_map]; exact List.map_congr_left (fun d _ => (conv_pkt (own, their) d).symm)
      refine ⟨c1, _, o2, d1.map conv, d2.map conv, ?_, ?_, ⟨Or.inl ⟨s2, rfl⟩, fun _ => ⟨s2, rfl⟩⟩, ?_,
        by simpa using hne⟩
      · exact e1.trans (congrArg (fun l => Except.ok ({ conn := c1, sent := l } : Ret Conn Packet)) (hmap d1).symm)
      · exact e2.trans (congrArg (fun l => Except.ok ({ conn := ⟨.online own their o2, s2⟩, sent := l } : Ret Conn Packet))
          (hmap d2).symm)
      · simpa [List.map_map, Function.comp_def, conv_fl] using hps
    · have hs : SendDue now0 s := hS
      have t1 : s.triggered (now0 + resendUs) = true := by
        apply hs.triggered; rw [sendUs_val, resendUs_val]; omega
      generalize now0 + resendUs = T1 at t1 ⊢
      have t2 : (Timeout.after T1 sendUs).triggered (T1 + sendUs) = true := by
        simp [Timeout.after, Timeout.triggered]
      generalize T1 + sendUs = T2 at t2 ⊢
      refine ⟨⟨.pending own their, Timeout.after T1 sendUs⟩,
        ⟨.pending own their, Timeout.after T2 sendUs⟩, .new, [.ctl 1 0], [.ctl 1 0], ?_, ?_,
        ⟨Or.inr ⟨rfl, _, rfl⟩, fun hf => by obtain ⟨_, h'⟩ := hflg hf; cases h'⟩, ?_, by simp⟩
      · exact tick_pending T1 own their s t1
      · exact tick_pending T2 own their (Timeout.after T1 sendUs) t2
      · have := PhaseSpec.of_flush_kas (Online.new_inv Conn7.cfg) (o := .new) rfl
          [⟨0, false, 0, []⟩, ⟨0, false, 0, []⟩] (by simp [Online.new]) (by simp)
        have hf : (Online.new).flush = (Online.new, []) := by
          simp [Online.flush, Online.canSend, Online.new, PacketContents.empty]
        rw [hf] at this
        simpa [DgH.fl] using this
  recv_dg := by
    intro now draws tx ty o c d alt h hp hinv hack hseq
    obtain ⟨⟨ownx, theirx⟩, fx⟩ := tx
    obtain ⟨⟨own, their⟩, fy⟩ := ty
    obtain ⟨h, hflg⟩ := h
    dsimp only at h hflg hp
    subst hp
    rcases h with ⟨s, rfl⟩ | ⟨rfl, s, rfl⟩
    · -- online receiver
      cases d with
      | chunk f =>
        obtain ⟨o2, s2, r, fl, h1, h2, h3, h4, h5⟩ :=
          iface7.recv_dg' Conn7.cfg_ok (now := now) (draws := draws) (tx := (ownx, theirx)) (ty := (theirx, their)) (s := s)
            (.chunk f) alt rfl hinv hack hseq
        exact ⟨o2, r, fl, h1, ⟨Or.inl ⟨s2, h2⟩, fun _ => ⟨s2, h2⟩⟩, h3, h4, h5⟩
      | ctl k a =>
        obtain ⟨hfa, _⟩ := Online.feedAck_spec hinv hack
        have hfa' : o.feedAck a = .ok (o.ackChunks a) := hfa
        refine ⟨_, ⟨⟨.online theirx their (o.ackChunks a), s⟩, [], [], false⟩, [], ?_,
          ⟨Or.inl ⟨s, rfl⟩, fun _ => ⟨s, rfl⟩⟩,
          ⟨now, s, s, _, [], [], hfa, receive_nil now _ s⟩, rfl, fun _ => rfl⟩
        show P7.recv now draws ⟨.online theirx their o, s⟩ (.control a theirx (kindOf k)) alt = _
        have hk : expectedToken (.online theirx their o) (.control a theirx (kindOf k)) = theirx := by
          unfold kindOf; split <;> simp [expectedToken, State.ownToken?]
        simp [P7.recv, feed, hk, hfa', feedBody_ctl_online]
        rfl
    · -- pending receiver: the core is the fresh one
      have hfa := new_feedAck hack
      cases d with
      | chunk f =>
        obtain ⟨o2, s2, fl, evs, hrc, _, hval, _⟩ :=
          Online.receive_spec Conn7.cfg_ok (Online.new_inv Conn7.cfg) now s f.requestResend f.chunks hseq
        refine ⟨o2, ⟨⟨.online theirx their o2, s2⟩, fl.map (ofFlushed their), evs, false⟩, fl, ?_,
          ⟨Or.inl ⟨s2, rfl⟩, fun _ => ⟨s2, rfl⟩⟩,
          ⟨now, s, s2, _, fl, evs, hfa, hrc⟩, rfl, fun _ => receive_fl_nil rfl hrc⟩
        show P7.recv now draws ⟨.pending theirx their, s⟩ (ofFlushed theirx f) alt = _
        simp [P7.recv, feed, ofFlushed, expectedToken, State.ownToken?, feedBody, hrc,
          (Tw.Conn7.emit_flushed their hval).1]
        rfl
      | ctl k a =>
        refine ⟨.new, ⟨⟨.pending theirx their, s⟩, [], [], false⟩, [], ?_,
          ⟨Or.inr ⟨rfl, s, rfl⟩, fun hf => by obtain ⟨_, h'⟩ := hflg hf; cases h'⟩,
          ⟨now, s, s, _, [], [], hfa, receive_nil now _ s⟩, rfl, fun _ => rfl⟩
        show P7.recv now draws ⟨.pending theirx their, s⟩ (.control a theirx (kindOf k)) alt = _
        have hk : expectedToken (.pending theirx their) (.control a theirx (kindOf k)) = theirx := by
          unfold kindOf; split <;> simp [expectedToken, State.ownToken?]
        simp [P7.recv, feed, hk, feedBody_ctl_pending]
        rfl

/-! ## the handshake steps, as equations -/

theorem emit_one (a tok : Nat) (ctl : Control) (h : ∀ r, ctl ≠ .close r)
    (hc : ∀ rt, ctl = .connect rt → rt ≠ TOKEN_NONE) (ht : ∀ rt, ctl = .token rt → rt ≠ TOKEN_NONE) :
    emit [.control a tok ctl] = .ok [.control a tok ctl] :=
  Tw.Conn7.emit_ok (by
    intro p hp; simp at hp; subst hp
    exact Tw.Conn7.control_valid a tok ctl (fun r hr => absurd hr (h r)) hc ht)

theorem tokenRandom_ne {draws : List Nat} {nt : Nat} (h : tokenRandom draws = some nt) : nt ≠ TOKEN_NONE := by
  induction draws with
  | nil => simp [tokenRandom] at h
  | cons d ds ih =>
    simp only [tokenRandom] at h
    split at h
    · injection h with h; subst h; assumption
    · exact ih h

theorem tick_token (now : Nat) (own : Nat) (s : Timeout) (h : s.triggered now = true) (hown : own ≠ TOKEN_NONE) :
    P7.call now [] ⟨.token own, s⟩ .tick =
      .ok { conn := ⟨.token own, Timeout.after now sendUs⟩, sent := [.control 0 TOKEN_NONE (.token own)] } := by
  have hem := emit_one 0 TOKEN_NONE (.token own) (by intro r hr; cases hr) (by intro r hr; cases hr)
    (by intro r hr; injection hr with hr; subst hr; exact hown)
  simp [P7.call, Conn7.tick, h, tickAction, sendControl, sendControlWith, State.theirToken?, hem]

theorem tick_connecting (now : Nat) (own their : Nat) (s : Timeout) (h : s.triggered now = true)
    (hown : own ≠ TOKEN_NONE) :
    P7.call now [] ⟨.connecting own their, s⟩ .tick =
      .ok { conn := ⟨.connecting own their, Timeout.after now sendUs⟩, sent := [.control 0 their (.connect own)] } := by
  have hem := emit_one 0 their (.connect own) (by intro r hr; cases hr)
    (by intro r hr; injection hr with hr; subst hr; exact hown) (by intro r hr; cases hr)
  simp [P7.call, Conn7.tick, h, tickAction, sendControl, sendControlWith, State.theirToken?, hem]

theorem tick_pc (now : Nat) (own : Nat) (s : Timeout) :
    ∃ s', P7.call now [] ⟨.pendingConnect own, s⟩ .tick = .ok { conn := ⟨.pendingConnect own, s'⟩, sent := [] } := by
  by_cases h : s.triggered now = true
  · exact ⟨.inactive, by simp [P7.call, Conn7.tick, h, tickAction]⟩
  · exact ⟨s, by simp [P7.call, Conn7.tick, h]⟩

theorem tick_unconnected (now : Nat) (s : Timeout) :
    ∃ s', P7.call now [] ⟨.unconnected, s⟩ .tick = .ok { conn := ⟨.unconnected, s'⟩, sent := [] } := by
  by_cases h : s.triggered now = true
  · exact ⟨.inactive, by simp [P7.call, Conn7.tick, h, tickAction]⟩
  · exact ⟨s, by simp [P7.call, Conn7.tick, h]⟩

/-- an unconnected acceptor answers a token request -/
theorem recv_unc_token (now : Nat) (draws : List Nat) (s : Timeout) (ownA nt : Nat)
    (hnt : tokenRandom draws = some nt) :
    P7.recv now draws ⟨.unconnected, s⟩ (.control 0 TOKEN_NONE (.token ownA)) () =
      .ok { conn := ⟨.pendingConnect nt, s⟩, sent := [.control 0 ownA (.token nt)] } := by
  have hem := emit_one 0 ownA (.token nt) (by intro r hr; cases hr) (by intro r hr; cases hr)
    (by intro r hr; injection hr with hr; subst hr; exact tokenRandom_ne hnt)
  simp [P7.recv, feed, expectedToken, State.ownToken?, feedBody, hnt, sendControlWith, hem]

/-- … and answers it again while it waits for the `Connect` -/
theorem recv_pc_token (now : Nat) (draws : List Nat) (s : Timeout) (ownA ownB : Nat) (hB : ownB ≠ TOKEN_NONE) :
    P7.recv now draws ⟨.pendingConnect ownB, s⟩ (.control 0 TOKEN_NONE (.token ownA)) () =
      .ok { conn := ⟨.pendingConnect ownB, s⟩, sent := [.control 0 ownA (.token ownB)] } := by
  have hem := emit_one 0 ownA (.token ownB) (by intro r hr; cases hr) (by intro r hr; cases hr)
    (by intro r hr; injection hr with hr; subst hr; exact hB)
  simp [P7.recv, feed, expectedToken, feedBody, sendControlWith, hem]

/-- the connector gets the acceptor's token and sends its `Connect` -/
theorem recv_tok_token (now : Nat) (draws : List Nat) (s : Timeout) (ownA ownB : Nat) (hA : ownA ≠ TOKEN_NONE) :
    P7.recv now draws ⟨.token ownA, s⟩ (.control 0 ownA (.token ownB)) () =
      .ok { conn := ⟨.connecting ownA ownB, Timeout.after now sendUs⟩, sent := [.control 0 ownB (.connect ownA)] } := by
  have hem := emit_one 0 ownB (.connect ownA) (by intro r hr; cases hr)
    (by intro r hr; injection hr with hr; subst hr; exact hA) (by intro r hr; cases hr)
  simp [P7.recv, feed, expectedToken, State.ownToken?, feedBody, tickAction, sendControl, sendControlWith,
    State.theirToken?, hem]

theorem recv_cng_token (now : Nat) (draws : List Nat) (s : Timeout) (ownA ownB t' : Nat) :
    P7.recv now draws ⟨.connecting ownA ownB, s⟩ (.control 0 ownA (.token t')) () =
      .ok { conn := ⟨.connecting ownA ownB, s⟩ } := by
  simp [P7.recv, feed, expectedToken, State.ownToken?, feedBody]

/-- the acceptor gets the `Connect` and sends its `Accept` -/
theorem recv_pc_connect (now : Nat) (draws : List Nat) (s : Timeout) (ownA ownB : Nat) :
    P7.recv now draws ⟨.pendingConnect ownB, s⟩ (.control 0 ownB (.connect ownA)) () =
      .ok { conn := ⟨.pending ownB ownA, Timeout.after now sendUs⟩, sent := [.control 0 ownA .accept] } := by
  have hem : emit [.control 0 ownA .accept] = .ok [.control 0 ownA .accept] := emit_ctl 0 ownA 1
  simp [P7.recv, feed, expectedToken, State.ownToken?, feedBody, tickAction, sendControl, sendControlWith,
    State.theirToken?, hem]

theorem recv_pend_connect (now : Nat) (draws : List Nat) (s : Timeout) (ownA ownB t' : Nat) :
    P7.recv now draws ⟨.pending ownB ownA, s⟩ (.control 0 ownB (.connect t')) () =
      .ok { conn := ⟨.pending ownB ownA, s⟩ } := by
  simp [P7.recv, feed, expectedToken, State.ownToken?, feedBody]

/-- the connector gets the `Accept`: online, `Ready` -/
theorem recv_cng_accept (now : Nat) (draws : List Nat) (s : Timeout) (ownA ownB : Nat) :
    P7.recv now draws ⟨.connecting ownA ownB, s⟩ (.control 0 ownA .accept) () =
      .ok { conn := ⟨.online ownA ownB .new, s⟩, events := [.ready] } := by
  simp [P7.recv, feed, expectedToken, State.ownToken?, feedBody]

theorem recv_onl_accept (now : Nat) (draws : List Nat) (s : Timeout) (ownA ownB : Nat) :
    P7.recv now draws ⟨.online ownA ownB .new, s⟩ (.control 0 ownA .accept) () =
      .ok { conn := ⟨.online ownA ownB .new, s⟩ } := by
  have hfa : Online.new.feedAck 0 = .ok .new := new_feedAck (by rw [seqMod_eq]; omega)
  simp [P7.recv, feed, expectedToken, State.ownToken?, hfa, feedBody]

/-! ## the round that takes the connector online -/

/-- a pending acceptor ignores further `Connect`s -/
theorem recvs_pending_connects (now : Nat) (draws : List Nat) (ownA ownB : Nat) : ∀ (n : Nat) (e : End proto7)
    (s : Timeout), e.conn = ⟨.pending ownB ownA, s⟩ →
    ∃ e', recvEndsD now draws () e (List.replicate n (.control 0 ownB (.connect ownA))) = some e' ∧
      e'.conn = e.conn ∧ e'.out = e.out ∧ e'.submitted = e.submitted ∧ e'.events = e.events := by
  intro n
  induction n with
  | zero => intro e s _; exact ⟨e, rfl, rfl, rfl, rfl, rfl⟩
  | succ n ih =>
    intro e s he
    have h1 : proto7.recv now draws e.conn (.control 0 ownB (.connect ownA)) () =
        .ok { conn := ⟨.pending ownB ownA, s⟩ } := by
      rw [he]; exact recv_pend_connect now draws s ownA ownB ownA
    obtain ⟨e', h2, c2, o2, s2, v2⟩ := ih (e.book { conn := (⟨.pending ownB ownA, s⟩ : Conn) } []) s rfl
    refine ⟨e', ?_, ?_, ?_, ?_, ?_⟩
    · simp only [List.replicate, recvEndsD, recvEndD, h1]
      exact h2
    · rw [c2, he]; rfl
    · rw [o2]; simp [End.book]
    · rw [s2]; simp [End.book]
    · rw [v2]; simp [End.book]

theorem map_pkt_replicate {L : List (Sent proto7.Packet)} {c : Packet} (h : ∀ sn ∈ L, sn.pkt = c) :
    L.map (·.pkt) = List.replicate L.length c := by
  induction L with
  | nil => rfl
  | cons x xs ih =>
    simp only [List.map_cons, List.length_cons, List.replicate_succ]
    rw [h x (by simp), ih (fun sn hsn => h sn (by simp [hsn]))]
    rfl

/-- `a` connecting with the right token, `b` waiting for the `Connect` or already pending, some
`Connect`s of `a` possibly still undelivered: after one round `a` is online and told `Ready`, `b` is
pending, nothing is left over -/
theorem connect_round7 (draws : List Nat) (s : FairState proto7) (ownA ownB : Nat) (hA : ownA ≠ TOKEN_NONE)
    (hW : WInv proto7 core Conn7.cfg s.w) (hT : TInv Timed s.w)
    (sa : Timeout) (ha : s.w.a.conn = ⟨.connecting ownA ownB, sa⟩)
    (hb : (∃ sb, s.w.b.conn = ⟨.pendingConnect ownB, sb⟩) ∨ (∃ sb, s.w.b.conn = ⟨.pending ownB ownA, sb⟩))
    (hcb : s.cb = s.w.b.out.length) (pre L : List (Sent proto7.Packet)) (hout : s.w.a.out = pre ++ L)
    (hpre : pre.length = s.ca)
    (hL : ∀ sn ∈ L, sn.pkt = .control 0 ownB (.connect ownA) ∧ sn.nStamp = s.w.a.nAbs ∧
      s.w.b.nAbs ≤ sn.dStamp + 512) :
    ∃ s2, fairRoundT draws () s = some s2 ∧
      OnlineFH gface7 ((ownA, ownB), true) ((ownB, ownA), false) s2 [] ∧ Event.ready ∈ s2.w.a.events := by
  obtain ⟨T1, hT1⟩ : ∃ T1, T1 = s.w.now + resendUs := ⟨_, rfl⟩
  obtain ⟨T2, hT2⟩ : ∃ T2, T2 = T1 + sendUs := ⟨_, rfl⟩
  have hsa : SendDue s.w.now sa := by have := hT.1; rw [ha] at this; exact this
  have t1 : sa.triggered T1 = true := by
    apply hsa.triggered; rw [hT1, sendUs_val, resendUs_val]; omega
  have t2 : (Timeout.after T1 sendUs).triggered T2 = true := by
    simp [Timeout.after, Timeout.triggered, hT2]
  have ea1 : proto7.call T1 [] s.w.a.conn .tick =
      .ok (tickRet (⟨.connecting ownA ownB, Timeout.after T1 sendUs⟩ : Conn) [.control 0 ownB (.connect ownA)]) := by
    rw [ha]; exact tick_connecting T1 ownA ownB sa t1 hA
  have ea2 : proto7.call T2 [] (⟨.connecting ownA ownB, Timeout.after T1 sendUs⟩ : Conn) .tick =
      .ok (tickRet (⟨.connecting ownA ownB, Timeout.after T2 sendUs⟩ : Conn) [.control 0 ownB (.connect ownA)]) :=
    tick_connecting T2 ownA ownB _ t2 hA
  have hwinv : AInv Conn7.cfg (absEnd proto7 core s.w.a) (absEnd proto7 core s.w.b) := hW
  have hwin_ba : s.w.b.nAbs ≤ s.w.a.dAbs + 512 := hwinv.2.win
  have hwin_ab : s.w.a.nAbs ≤ s.w.b.dAbs + 512 := hwinv.1.win
  rcases hb with ⟨sb, hbP⟩ | ⟨sb, hbP⟩
  · -- the acceptor is waiting for the Connect
    obtain ⟨sb1, eb1'⟩ := tick_pc T1 ownB sb
    obtain ⟨sb2, eb2'⟩ := tick_pc T2 ownB sb1
    have eb1 : proto7.call T1 [] s.w.b.conn .tick = .ok (tickRet (⟨.pendingConnect ownB, sb1⟩ : Conn) []) := by
      rw [hbP]; exact eb1'
    have eb2 : proto7.call T2 [] (⟨.pendingConnect ownB, sb1⟩ : Conn) .tick =
        .ok (tickRet (⟨.pendingConnect ownB, sb2⟩ : Conn) []) := eb2'
    have hrun := run_tickMoves' s.w T1 T2 hT1 hT2 _ _ _ _ _ _ _ _ ea1 eb1 ea2 eb2
    generalize hw1 : ({ a := (s.w.a.book (tickRet (⟨.connecting ownA ownB, Timeout.after T1 sendUs⟩ : Conn) [.control 0 ownB (.connect ownA)]) []).book
                            (tickRet (⟨.connecting ownA ownB, Timeout.after T2 sendUs⟩ : Conn) [.control 0 ownB (.connect ownA)]) []
                        b := (s.w.b.book (tickRet (⟨.pendingConnect ownB, sb1⟩ : Conn) []) []).book
                            (tickRet (⟨.pendingConnect ownB, sb2⟩ : Conn) []) []
                        now := T2 } : World proto7) = w1 at hrun
    have a1conn : w1.a.conn = ⟨.connecting ownA ownB, Timeout.after T2 sendUs⟩ := by rw [← hw1]; rfl
    have b1conn : w1.b.conn = ⟨.pendingConnect ownB, sb2⟩ := by rw [← hw1]; rfl
    have a1out : w1.a.out = s.w.a.out ++ [⟨.control 0 ownB (.connect ownA), s.w.a.nAbs, s.w.a.dAbs⟩,
        ⟨.control 0 ownB (.connect ownA), s.w.a.nAbs, s.w.a.dAbs⟩] := by
      rw [← hw1]; simp [End.book, tickRet, End.nAbs, End.dAbs, End.submittedVital, End.deliveredVital]; rfl
    have b1out : w1.b.out = s.w.b.out := by rw [← hw1]; simp [End.book, tickRet]
    have a1sub : w1.a.submitted = s.w.a.submitted := by rw [← hw1]; simp [End.book, tickRet]
    have b1sub : w1.b.submitted = s.w.b.submitted := by rw [← hw1]; simp [End.book, tickRet]
    have a1ev : w1.a.events = s.w.a.events := by rw [← hw1]; simp [End.book, tickRet]
    have b1ev : w1.b.events = s.w.b.events := by rw [← hw1]; simp [End.book, tickRet]
    have nAa := nAbs_of_submitted a1sub
    have nAb := nAbs_of_submitted b1sub
    have dAa := dAbs_of_events a1ev
    have dAb := dAbs_of_events b1ev
    -- block 1
    have hLbmap : (L ++ [(⟨.control 0 ownB (.connect ownA), s.w.a.nAbs, s.w.a.dAbs⟩ : Sent proto7.Packet),
        ⟨.control 0 ownB (.connect ownA), s.w.a.nAbs, s.w.a.dAbs⟩]).map (·.pkt) =
        .control 0 ownB (.connect ownA) :: List.replicate (L.length + 1) (.control 0 ownB (.connect ownA)) := by
      rw [map_pkt_replicate (c := .control 0 ownB (.connect ownA))]
      · simp [List.replicate_succ]; rfl
      · intro sn hsn
        rcases List.mem_append.mp hsn with h | h
        · exact (hL sn h).1
        · simp at h; subst h; rfl
    have hr1 : proto7.recv w1.now draws w1.b.conn (.control 0 ownB (.connect ownA)) () =
        .ok { conn := ⟨.pending ownB ownA, Timeout.after w1.now sendUs⟩, sent := [.control 0 ownA .accept] } := by
      rw [b1conn]; exact recv_pc_connect w1.now draws sb2 ownA ownB
    obtain ⟨b2, hb2, b2conn, b2out, b2sub, b2ev⟩ := recvs_pending_connects w1.now draws ownA ownB (L.length + 1)
      (w1.b.book { conn := (⟨.pending ownB ownA, Timeout.after w1.now sendUs⟩ : Conn), sent := [.control 0 ownA .accept] } [])
      _ rfl
    have hB : recvEndsD w1.now draws () w1.b ((L ++ [(⟨.control 0 ownB (.connect ownA), s.w.a.nAbs, s.w.a.dAbs⟩ : Sent proto7.Packet),
        ⟨.control 0 ownB (.connect ownA), s.w.a.nAbs, s.w.a.dAbs⟩]).map (·.pkt)) = some b2 := by
      rw [hLbmap]
      simp only [recvEndsD, recvEndD, hr1]
      exact hb2
    have b2out' : b2.out = s.w.b.out ++ [⟨.control 0 ownA .accept, w1.b.nAbs, w1.b.dAbs⟩] := by
      rw [b2out]; simp [End.book, b1out]
      exact ⟨_, rfl, rfl⟩
    have b2sub' : b2.submitted = w1.b.submitted := by rw [b2sub]; simp [End.book]
    have b2conn' : b2.conn = ⟨.pending ownB ownA, Timeout.after w1.now sendUs⟩ := by rw [b2conn]; rfl
    -- block 2
    have hr3 : proto7.recv w1.now draws w1.a.conn (.control 0 ownA .accept) () =
        .ok { conn := ⟨.online ownA ownB .new, Timeout.after T2 sendUs⟩, events := [.ready] } := by
      rw [a1conn]; exact recv_cng_accept w1.now draws _ ownA ownB
    generalize ha2 : (End.book w1.a ({ conn := (⟨.online ownA ownB .new, Timeout.after T2 sendUs⟩ : Conn), events := [.ready] } :
        Ret proto7.Conn proto7.Packet) [] : End proto7) = a2
    have hAr : recvEndsD w1.now draws () w1.a
        ([(⟨.control 0 ownA .accept, w1.b.nAbs, w1.b.dAbs⟩ : Sent proto7.Packet)].map (·.pkt)) = some a2 := by
      simp only [List.map_cons, List.map_nil, recvEndsD, recvEndD, hr3]
      exact congrArg some ha2
    obtain ⟨hround, hA3, hS3, hS2, a2sub, _, _, _⟩ := fairRoundT_of sim7 loct7 draws () hW hT hrun
      (prea := pre) (Lb := L ++ [(⟨.control 0 ownB (.connect ownA), s.w.a.nAbs, s.w.a.dAbs⟩ : Sent proto7.Packet),
        ⟨.control 0 ownB (.connect ownA), s.w.a.nAbs, s.w.a.dAbs⟩])
      (by rw [a1out, hout, List.append_assoc]) hpre
      (by
        intro sn hsn
        rcases List.mem_append.mp hsn with h | h
        · exact ⟨by rw [nAa]; exact (hL sn h).2.1, by rw [nAb]; exact (hL sn h).2.2⟩
        · simp at h; subst h; exact ⟨nAa.symm, by rw [nAb]; exact hwin_ba⟩)
      hB (preb := s.w.b.out) (La := [⟨.control 0 ownA .accept, w1.b.nAbs, w1.b.dAbs⟩]) b2out' hcb.symm
      (by
        intro sn hsn; simp at hsn; subst hsn
        exact ⟨(nAbs_of_submitted b2sub').symm, by rw [nAa, dAb]; exact hwin_ab⟩)
      hAr
    have a2conn : a2.conn = ⟨.online ownA ownB .new, Timeout.after T2 sendUs⟩ := by rw [← ha2]; rfl
    have a2out : a2.out = w1.a.out := by rw [← ha2]; simp [End.book]
    have a2ev : a2.events = w1.a.events ++ [.ready] := by rw [← ha2]; simp [End.book]
    refine ⟨_, hround, ⟨⟨hA3, ⟨hS3, hS2⟩, ⟨.new, Or.inl ⟨_, a2conn⟩, fun _ => ⟨_, a2conn⟩⟩,
      ⟨.new, Or.inr ⟨rfl, _, b2conn'⟩, fun h => by cases h⟩, rfl, rfl⟩, rfl, ⟨w1.a.out, ?_, rfl⟩, by simp⟩, ?_⟩
    · show a2.out = _
      rw [a2out]; simp
    · show Event.ready ∈ a2.events
      rw [a2ev]; simp
  · -- the acceptor is pending: it repeats its Accept
    have hsb : SendDue s.w.now sb := by have := hT.2; rw [hbP] at this; exact this
    have u1 : sb.triggered T1 = true := by
      apply hsb.triggered; rw [hT1, sendUs_val, resendUs_val]; omega
    have eb1 : proto7.call T1 [] s.w.b.conn .tick =
        .ok (tickRet (⟨.pending ownB ownA, Timeout.after T1 sendUs⟩ : Conn) [.control 0 ownA .accept]) := by
      rw [hbP]; exact tick_pending T1 ownB ownA sb u1
    have eb2 : proto7.call T2 [] (⟨.pending ownB ownA, Timeout.after T1 sendUs⟩ : Conn) .tick =
        .ok (tickRet (⟨.pending ownB ownA, Timeout.after T2 sendUs⟩ : Conn) [.control 0 ownA .accept]) :=
      tick_pending T2 ownB ownA _ t2
    have hrun := run_tickMoves' s.w T1 T2 hT1 hT2 _ _ _ _ _ _ _ _ ea1 eb1 ea2 eb2
    generalize hw1 : ({ a := (s.w.a.book (tickRet (⟨.connecting ownA ownB, Timeout.after T1 sendUs⟩ : Conn) [.control 0 ownB (.connect ownA)]) []).book
                            (tickRet (⟨.connecting ownA ownB, Timeout.after T2 sendUs⟩ : Conn) [.control 0 ownB (.connect ownA)]) []
                        b := (s.w.b.book (tickRet (⟨.pending ownB ownA, Timeout.after T1 sendUs⟩ : Conn) [.control 0 ownA .accept]) []).book
                            (tickRet (⟨.pending ownB ownA, Timeout.after T2 sendUs⟩ : Conn) [.control 0 ownA .accept]) []
                        now := T2 } : World proto7) = w1 at hrun
    have a1conn : w1.a.conn = ⟨.connecting ownA ownB, Timeout.after T2 sendUs⟩ := by rw [← hw1]; rfl
    have b1conn : w1.b.conn = ⟨.pending ownB ownA, Timeout.after T2 sendUs⟩ := by rw [← hw1]; rfl
    have a1out : w1.a.out = s.w.a.out ++ [⟨.control 0 ownB (.connect ownA), s.w.a.nAbs, s.w.a.dAbs⟩,
        ⟨.control 0 ownB (.connect ownA), s.w.a.nAbs, s.w.a.dAbs⟩] := by
      rw [← hw1]; simp [End.book, tickRet, End.nAbs, End.dAbs, End.submittedVital, End.deliveredVital]; rfl
    have b1out : w1.b.out = s.w.b.out ++ [⟨.control 0 ownA .accept, s.w.b.nAbs, s.w.b.dAbs⟩,
        ⟨.control 0 ownA .accept, s.w.b.nAbs, s.w.b.dAbs⟩] := by
      rw [← hw1]; simp [End.book, tickRet, End.nAbs, End.dAbs, End.submittedVital, End.deliveredVital]; rfl
    have a1sub : w1.a.submitted = s.w.a.submitted := by rw [← hw1]; simp [End.book, tickRet]
    have b1sub : w1.b.submitted = s.w.b.submitted := by rw [← hw1]; simp [End.book, tickRet]
    have a1ev : w1.a.events = s.w.a.events := by rw [← hw1]; simp [End.book, tickRet]
    have b1ev : w1.b.events = s.w.b.events := by rw [← hw1]; simp [End.book, tickRet]
    have nAa := nAbs_of_submitted a1sub
    have nAb := nAbs_of_submitted b1sub
    have dAa := dAbs_of_events a1ev
    have dAb := dAbs_of_events b1ev
    -- block 1: all Connects are ignored
    have hLbmap : (L ++ [(⟨.control 0 ownB (.connect ownA), s.w.a.nAbs, s.w.a.dAbs⟩ : Sent proto7.Packet),
        ⟨.control 0 ownB (.connect ownA), s.w.a.nAbs, s.w.a.dAbs⟩]).map (·.pkt) =
        List.replicate (L.length + 2) (.control 0 ownB (.connect ownA)) := by
      rw [map_pkt_replicate (c := .control 0 ownB (.connect ownA))]
      · simp; rfl
      · intro sn hsn
        rcases List.mem_append.mp hsn with h | h
        · exact (hL sn h).1
        · simp at h; subst h; rfl
    obtain ⟨b2, hb2, b2conn, b2out, b2sub, b2ev⟩ :=
      recvs_pending_connects w1.now draws ownA ownB (L.length + 2) w1.b _ b1conn
    have hB : recvEndsD w1.now draws () w1.b ((L ++ [(⟨.control 0 ownB (.connect ownA), s.w.a.nAbs, s.w.a.dAbs⟩ : Sent proto7.Packet),
        ⟨.control 0 ownB (.connect ownA), s.w.a.nAbs, s.w.a.dAbs⟩]).map (·.pkt)) = some b2 := by
      rw [hLbmap]; exact hb2
    -- block 2: the two Accepts
    have hr3 : proto7.recv w1.now draws w1.a.conn (.control 0 ownA .accept) () =
        .ok { conn := ⟨.online ownA ownB .new, Timeout.after T2 sendUs⟩, events := [.ready] } := by
      rw [a1conn]; exact recv_cng_accept w1.now draws _ ownA ownB
    have hr4 : proto7.recv w1.now draws (⟨.online ownA ownB .new, Timeout.after T2 sendUs⟩ : Conn) (.control 0 ownA .accept) () =
        .ok { conn := ⟨.online ownA ownB .new, Timeout.after T2 sendUs⟩ } :=
      recv_onl_accept w1.now draws _ ownA ownB
    generalize ha2 : (End.book (End.book w1.a
        ({ conn := (⟨.online ownA ownB .new, Timeout.after T2 sendUs⟩ : Conn), events := [.ready] } :
          Ret proto7.Conn proto7.Packet) [])
        ({ conn := (⟨.online ownA ownB .new, Timeout.after T2 sendUs⟩ : Conn) } : Ret proto7.Conn proto7.Packet) [] :
          End proto7) = a2
    have hAr : recvEndsD w1.now draws () w1.a
        ([(⟨.control 0 ownA .accept, s.w.b.nAbs, s.w.b.dAbs⟩ : Sent proto7.Packet),
          ⟨.control 0 ownA .accept, s.w.b.nAbs, s.w.b.dAbs⟩].map (·.pkt)) = some a2 := by
      simp only [List.map_cons, List.map_nil, recvEndsD, recvEndD, hr3]
      simp only [End.book]
      rw [hr4]
      exact congrArg some ha2
    obtain ⟨hround, hA3, hS3, hS2, a2sub, _, _, _⟩ := fairRoundT_of sim7 loct7 draws () hW hT hrun
      (prea := pre) (Lb := L ++ [(⟨.control 0 ownB (.connect ownA), s.w.a.nAbs, s.w.a.dAbs⟩ : Sent proto7.Packet),
        ⟨.control 0 ownB (.connect ownA), s.w.a.nAbs, s.w.a.dAbs⟩])
      (by rw [a1out, hout, List.append_assoc]) hpre
      (by
        intro sn hsn
        rcases List.mem_append.mp hsn with h | h
        · exact ⟨by rw [nAa]; exact (hL sn h).2.1, by rw [nAb]; exact (hL sn h).2.2⟩
        · simp at h; subst h; exact ⟨nAa.symm, by rw [nAb]; exact hwin_ba⟩)
      hB (preb := s.w.b.out) (La := [⟨.control 0 ownA .accept, s.w.b.nAbs, s.w.b.dAbs⟩,
        ⟨.control 0 ownA .accept, s.w.b.nAbs, s.w.b.dAbs⟩]) (by rw [b2out, b1out]) hcb.symm
      (by
        intro sn hsn; simp at hsn; subst hsn
        exact ⟨by rw [nAbs_of_submitted b2sub, nAb], by rw [nAa]; exact hwin_ab⟩)
      hAr
    have a2conn : a2.conn = ⟨.online ownA ownB .new, Timeout.after T2 sendUs⟩ := by rw [← ha2]; rfl
    have a2out : a2.out = w1.a.out := by rw [← ha2]; simp [End.book]
    have a2ev : a2.events = w1.a.events ++ [.ready] := by rw [← ha2]; simp [End.book]
    have b2conn' : b2.conn = ⟨.pending ownB ownA, Timeout.after T2 sendUs⟩ := by rw [b2conn, b1conn]
    refine ⟨_, hround, ⟨⟨hA3, ⟨hS3, hS2⟩, ⟨.new, Or.inl ⟨_, a2conn⟩, fun _ => ⟨_, a2conn⟩⟩,
      ⟨.new, Or.inr ⟨rfl, _, b2conn'⟩, fun h => by cases h⟩, rfl, rfl⟩, rfl, ⟨w1.a.out, ?_, rfl⟩, by simp⟩, ?_⟩
    · show a2.out = _
      rw [a2out]; simp
    · show Event.ready ∈ a2.events
      rw [a2ev]; simp

/-! ## the round that takes the connector from `Token` to `Connecting` -/

/-- `a` has asked for a token, `b` is unconnected or has answered before: after one round `a` is
connecting with `b`'s token, `b` waits for the `Connect`, which is `a`'s one undelivered datagram -/
theorem token_round7 (draws : List Nat) (nt : Nat) (hnt : tokenRandom draws = some nt) (w : World proto7)
    (ownA : Nat) (hA : ownA ≠ TOKEN_NONE) (hW : WInv proto7 core Conn7.cfg w) (hT : TInv Timed w)
    (sa : Timeout) (ha : w.a.conn = ⟨.token ownA, sa⟩)
    (hb : (∃ sb, w.b.conn = ⟨.unconnected, sb⟩) ∨
      (∃ ownB sb, w.b.conn = ⟨.pendingConnect ownB, sb⟩ ∧ ownB ≠ TOKEN_NONE)) :
    ∃ (s1 : FairState proto7) (ownB : Nat) (sa' : Timeout) (pre : List (Sent proto7.Packet)) (d : Nat),
      fairRoundT draws () (FairState.start w) = some s1 ∧ WInv proto7 core Conn7.cfg s1.w ∧ TInv Timed s1.w ∧
      s1.w.a.conn = ⟨.connecting ownA ownB, sa'⟩ ∧ (∃ sb, s1.w.b.conn = ⟨.pendingConnect ownB, sb⟩) ∧
      s1.cb = s1.w.b.out.length ∧
      s1.w.a.out = pre ++ [⟨.control 0 ownB (.connect ownA), s1.w.a.nAbs, d⟩] ∧ pre.length = s1.ca ∧
      s1.w.b.nAbs ≤ d + 512 ∧ s1.w.a.events = w.a.events := by
  -- the two shapes of `b` behave alike
  obtain ⟨X, ownB, sb, hbX, htick, hrecv⟩ : ∃ (X : State) (ownB : Nat) (sb : Timeout), w.b.conn = ⟨X, sb⟩ ∧
      (∀ now s, ∃ s', P7.call now [] ⟨X, s⟩ .tick = .ok { conn := ⟨X, s'⟩, sent := [] }) ∧
      (∀ now s, P7.recv now draws ⟨X, s⟩ (.control 0 TOKEN_NONE (.token ownA)) () =
        .ok { conn := ⟨.pendingConnect ownB, s⟩, sent := [.control 0 ownA (.token ownB)] }) ∧ ownB ≠ TOKEN_NONE := by
    rcases hb with ⟨sb, h⟩ | ⟨ownB, sb, h, hne⟩
    · exact ⟨.unconnected, nt, sb, h, fun now s => tick_unconnected now s,
        fun now s => recv_unc_token now draws s ownA nt hnt, tokenRandom_ne hnt⟩
    · exact ⟨.pendingConnect ownB, ownB, sb, h, fun now s => tick_pc now ownB s,
        fun now s => recv_pc_token now draws s ownA ownB hne, hne⟩
  obtain ⟨hrecv, hBne⟩ := hrecv
  obtain ⟨T1, hT1⟩ : ∃ T1, T1 = w.now + resendUs := ⟨_, rfl⟩
  obtain ⟨T2, hT2⟩ : ∃ T2, T2 = T1 + sendUs := ⟨_, rfl⟩
  have hsa : SendDue w.now sa := by have := hT.1; rw [ha] at this; exact this
  have t1 : sa.triggered T1 = true := by
    apply hsa.triggered; rw [hT1, sendUs_val, resendUs_val]; omega
  have t2 : (Timeout.after T1 sendUs).triggered T2 = true := by
    simp [Timeout.after, Timeout.triggered, hT2]
  have ea1 : proto7.call T1 [] w.a.conn .tick =
      .ok (tickRet (⟨.token ownA, Timeout.after T1 sendUs⟩ : Conn) [.control 0 TOKEN_NONE (.token ownA)]) := by
    rw [ha]; exact tick_token T1 ownA sa t1 hA
  have ea2 : proto7.call T2 [] (⟨.token ownA, Timeout.after T1 sendUs⟩ : Conn) .tick =
      .ok (tickRet (⟨.token ownA, Timeout.after T2 sendUs⟩ : Conn) [.control 0 TOKEN_NONE (.token ownA)]) :=
    tick_token T2 ownA _ t2 hA
  have hwinv : AInv Conn7.cfg (absEnd proto7 core w.a) (absEnd proto7 core w.b) := hW
  have hwin_ba : w.b.nAbs ≤ w.a.dAbs + 512 := hwinv.2.win
  have hwin_ab : w.a.nAbs ≤ w.b.dAbs + 512 := hwinv.1.win
  obtain ⟨sb1, eb1'⟩ := htick T1 sb
  obtain ⟨sb2, eb2'⟩ := htick T2 sb1
  have eb1 : proto7.call T1 [] w.b.conn .tick = .ok (tickRet (⟨X, sb1⟩ : Conn) []) := by
    rw [hbX]; exact eb1'
  have eb2 : proto7.call T2 [] (⟨X, sb1⟩ : Conn) .tick = .ok (tickRet (⟨X, sb2⟩ : Conn) []) := eb2'
  have hrun := run_tickMoves' w T1 T2 hT1 hT2 _ _ _ _ _ _ _ _ ea1 eb1 ea2 eb2
  generalize hw1 : ({ a := (w.a.book (tickRet (⟨.token ownA, Timeout.after T1 sendUs⟩ : Conn) [.control 0 TOKEN_NONE (.token ownA)]) []).book
                          (tickRet (⟨.token ownA, Timeout.after T2 sendUs⟩ : Conn) [.control 0 TOKEN_NONE (.token ownA)]) []
                      b := (w.b.book (tickRet (⟨X, sb1⟩ : Conn) []) []).book (tickRet (⟨X, sb2⟩ : Conn) []) []
                      now := T2 } : World proto7) = w1 at hrun
  have a1conn : w1.a.conn = ⟨.token ownA, Timeout.after T2 sendUs⟩ := by rw [← hw1]; rfl
  have b1conn : w1.b.conn = ⟨X, sb2⟩ := by rw [← hw1]; rfl
  have a1out : w1.a.out = w.a.out ++ [⟨.control 0 TOKEN_NONE (.token ownA), w.a.nAbs, w.a.dAbs⟩,
      ⟨.control 0 TOKEN_NONE (.token ownA), w.a.nAbs, w.a.dAbs⟩] := by
    rw [← hw1]; simp [End.book, tickRet, End.nAbs, End.dAbs, End.submittedVital, End.deliveredVital]; rfl
  have b1out : w1.b.out = w.b.out := by rw [← hw1]; simp [End.book, tickRet]
  have a1sub : w1.a.submitted = w.a.submitted := by rw [← hw1]; simp [End.book, tickRet]
  have b1sub : w1.b.submitted = w.b.submitted := by rw [← hw1]; simp [End.book, tickRet]
  have a1ev : w1.a.events = w.a.events := by rw [← hw1]; simp [End.book, tickRet]
  have b1ev : w1.b.events = w.b.events := by rw [← hw1]; simp [End.book, tickRet]
  have nAa := nAbs_of_submitted a1sub
  have nAb := nAbs_of_submitted b1sub
  have dAa := dAbs_of_events a1ev
  have dAb := dAbs_of_events b1ev
  -- block 1: the two requests are answered
  have hr1 : proto7.recv w1.now draws w1.b.conn (.control 0 TOKEN_NONE (.token ownA)) () =
      .ok { conn := ⟨.pendingConnect ownB, sb2⟩, sent := [.control 0 ownA (.token ownB)] } := by
    rw [b1conn]; exact hrecv w1.now sb2
  have hr2 : proto7.recv w1.now draws (⟨.pendingConnect ownB, sb2⟩ : Conn) (.control 0 TOKEN_NONE (.token ownA)) () =
      .ok { conn := ⟨.pendingConnect ownB, sb2⟩, sent := [.control 0 ownA (.token ownB)] } :=
    recv_pc_token w1.now draws sb2 ownA ownB hBne
  generalize hb2 : (End.book (End.book w1.b
      ({ conn := (⟨.pendingConnect ownB, sb2⟩ : Conn), sent := [.control 0 ownA (.token ownB)] } :
        Ret proto7.Conn proto7.Packet) [])
      ({ conn := (⟨.pendingConnect ownB, sb2⟩ : Conn), sent := [.control 0 ownA (.token ownB)] } :
        Ret proto7.Conn proto7.Packet) [] : End proto7) = b2
  have hB : recvEndsD w1.now draws () w1.b
      ([(⟨.control 0 TOKEN_NONE (.token ownA), w.a.nAbs, w.a.dAbs⟩ : Sent proto7.Packet),
        ⟨.control 0 TOKEN_NONE (.token ownA), w.a.nAbs, w.a.dAbs⟩].map (·.pkt)) = some b2 := by
    simp only [List.map_cons, List.map_nil, recvEndsD, recvEndD, hr1]
    simp only [End.book]
    rw [hr2]
    exact congrArg some hb2
  have b2conn : b2.conn = ⟨.pendingConnect ownB, sb2⟩ := by rw [← hb2]; rfl
  have b2out : b2.out = w.b.out ++ [⟨.control 0 ownA (.token ownB), w.b.nAbs, w.b.dAbs⟩,
      ⟨.control 0 ownA (.token ownB), w.b.nAbs, w.b.dAbs⟩] := by
    rw [← hb2]
    simp [End.book, b1out, End.nAbs, End.dAbs, End.submittedVital, End.deliveredVital, b1sub, b1ev]
    rfl
  have b2sub : b2.submitted = w1.b.submitted := by rw [← hb2]; simp [End.book]
  -- block 2: the first answer takes `a` to `Connecting`
  have hr3 : proto7.recv w1.now draws w1.a.conn (.control 0 ownA (.token ownB)) () =
      .ok { conn := ⟨.connecting ownA ownB, Timeout.after w1.now sendUs⟩, sent := [.control 0 ownB (.connect ownA)] } := by
    rw [a1conn]; exact recv_tok_token w1.now draws _ ownA ownB hA
  have hr4 : proto7.recv w1.now draws (⟨.connecting ownA ownB, Timeout.after w1.now sendUs⟩ : Conn)
      (.control 0 ownA (.token ownB)) () = .ok { conn := ⟨.connecting ownA ownB, Timeout.after w1.now sendUs⟩ } :=
    recv_cng_token w1.now draws _ ownA ownB ownB
  generalize ha2 : (End.book (End.book w1.a
      ({ conn := (⟨.connecting ownA ownB, Timeout.after w1.now sendUs⟩ : Conn), sent := [.control 0 ownB (.connect ownA)] } :
        Ret proto7.Conn proto7.Packet) [])
      ({ conn := (⟨.connecting ownA ownB, Timeout.after w1.now sendUs⟩ : Conn) } : Ret proto7.Conn proto7.Packet) [] :
        End proto7) = a2
  have hAr : recvEndsD w1.now draws () w1.a
      ([(⟨.control 0 ownA (.token ownB), w.b.nAbs, w.b.dAbs⟩ : Sent proto7.Packet),
        ⟨.control 0 ownA (.token ownB), w.b.nAbs, w.b.dAbs⟩].map (·.pkt)) = some a2 := by
    simp only [List.map_cons, List.map_nil, recvEndsD, recvEndD, hr3]
    simp only [End.book]
    rw [hr4]
    exact congrArg some ha2
  obtain ⟨hround, hA3, hS3, hS2, a2sub, _, _, _⟩ := fairRoundT_of sim7 loct7 draws () (s := FairState.start w) hW hT hrun
    (prea := w.a.out) (Lb := [(⟨.control 0 TOKEN_NONE (.token ownA), w.a.nAbs, w.a.dAbs⟩ : Sent proto7.Packet),
      ⟨.control 0 TOKEN_NONE (.token ownA), w.a.nAbs, w.a.dAbs⟩])
    a1out rfl
    (by intro sn hsn; simp at hsn; subst hsn; exact ⟨nAa.symm, by rw [nAb]; exact hwin_ba⟩)
    hB (preb := w.b.out) (La := [⟨.control 0 ownA (.token ownB), w.b.nAbs, w.b.dAbs⟩,
      ⟨.control 0 ownA (.token ownB), w.b.nAbs, w.b.dAbs⟩]) b2out rfl
    (by
      intro sn hsn; simp at hsn; subst hsn
      exact ⟨by rw [nAbs_of_submitted b2sub, nAb], by rw [nAa]; exact hwin_ab⟩)
    hAr
  have a2conn : a2.conn = ⟨.connecting ownA ownB, Timeout.after w1.now sendUs⟩ := by rw [← ha2]; rfl
  have a2out : a2.out = w1.a.out ++ [⟨.control 0 ownB (.connect ownA), w1.a.nAbs, w1.a.dAbs⟩] := by
    rw [← ha2]; simp [End.book]
    exact ⟨_, rfl, rfl⟩
  have a2ev : a2.events = w.a.events := by rw [← ha2]; simp [End.book, a1ev]
  refine ⟨_, ownB, _, w1.a.out, w1.a.dAbs, hround, hA3, ⟨hS3, hS2⟩, a2conn, ⟨_, b2conn⟩, rfl, ?_, rfl, ?_, a2ev⟩
  · show a2.out = w1.a.out ++ [⟨.control 0 ownB (.connect ownA), a2.nAbs, w1.a.dAbs⟩]
    rw [a2out, nAbs_of_submitted a2sub]
  · show b2.nAbs ≤ w1.a.dAbs + 512
    rw [nAbs_of_submitted b2sub, nAb, dAa]; exact hwin_ba

end Tw.NetSim.P7
