import Tw.Proofs.ConnFairH
import Tw.Proofs.ConnTimed7

/-!
# C02 (c), 0.7: the generalised interface (acceptor online or pending) and the handshake rounds
-/
namespace Tw.NetSim.P7
open Tw.Conn Tw.Conn7 Tw.Time Tw.NetSim

def kindOf (k : Nat) : Control := if k = 1 then .accept else .keepAlive

def pktH (their : Nat) : DgH → Packet
  | .chunk f => ofFlushed their f
  | .ctl k a => .control a their (kindOf k)

/-- online with core `o`, or pending (then the core is the fresh one); `t = (own, their)` -/
def Sh (t : Nat × Nat) (o : Online) (c : Conn) : Prop :=
  (∃ s, c = ⟨.online t.1 t.2 o, s⟩) ∨ (o = .new ∧ ∃ s, c = ⟨.pending t.1 t.2, s⟩)

/-- the shape with a flag: `(t, true)` means "online" -/
def ShF (t : (Nat × Nat) × Bool) (o : Online) (c : Conn) : Prop :=
  Sh t.1 o c ∧ (t.2 = true → ∃ s, c = ⟨.online t.1.1 t.1.2 o, s⟩)

def conv : Dg → DgH
  | .chunk f => .chunk f
  | .ka a => .ctl 0 a

theorem conv_pkt (t : Nat × Nat) (d : Dg) : iface7.pkt t d = pktH t.2 (conv d) := by
  cases d <;> rfl

theorem conv_fl (d : Dg) : (conv d).fl = d.fl := by cases d <;> rfl

theorem emit_ctl (a t k : Nat) : emit [.control a t (kindOf k)] = .ok [.control a t (kindOf k)] :=
  Tw.Conn7.emit_ok (by
    intro p hp; simp at hp; subst hp
    exact Tw.Conn7.control_valid a t _ (by intro r hr; unfold kindOf at hr; split at hr <;> cases hr)
      (by intro r hr; unfold kindOf at hr; split at hr <;> cases hr)
      (by intro r hr; unfold kindOf at hr; split at hr <;> cases hr))

theorem feedBody_ctl_online (env : Env) (own their : Nat) (o : Online) (s : Timeout) (t' a k : Nat) :
    feedBody env ⟨.online own their o, s⟩ (.control a t' (kindOf k)) = .ok (⟨.online own their o, s⟩, {}) := by
  unfold kindOf; split <;> simp [feedBody]

theorem feedBody_ctl_pending (env : Env) (own their : Nat) (s : Timeout) (t' a k : Nat) :
    feedBody env ⟨.pending own their, s⟩ (.control a t' (kindOf k)) = .ok (⟨.pending own their, s⟩, {}) := by
  unfold kindOf; split <;> simp [feedBody]

theorem tick_pending (now : Nat) (own their : Nat) (s : Timeout) (h : s.triggered now = true) :
    P7.call now [] ⟨.pending own their, s⟩ .tick =
      .ok { conn := ⟨.pending own their, Timeout.after now sendUs⟩, sent := [.control 0 their .accept] } := by
  have hem : emit [.control 0 their .accept] = .ok [.control 0 their .accept] := emit_ctl 0 their 1
  simp [P7.call, Conn7.tick, h, tickAction, sendControl, sendControlWith, State.theirToken?, hem]

theorem new_feedAck {a : Nat} (h : a < seqMod) : Online.new.feedAck a = .ok .new := by
  simp [Online.feedAck, Nat.not_le.mpr h, Online.ackChunks, Online.new]

set_option maxRecDepth 4000 in
def gface7 : GIface proto7 core Conn7.cfg Timed where
  Tok := (Nat × Nat) × Bool
  Sh := ShF
  pkt := fun t => pktH t.1.2
  peer := fun tx ty => tx.1.2 = ty.1.1
  core_sh := by
    intro t o c h
    rcases h.1 with ⟨s, rfl⟩ | ⟨rfl, s, rfl⟩ <;> rfl
  view_pkt := by intro t d; cases d <;> rfl
  online_sh := by
    intro t o c h
    rcases h.1 with ⟨s, rfl⟩ | ⟨rfl, s, rfl⟩
    · exact Or.inl rfl
    · exact Or.inr ⟨rfl, rfl⟩
  tickPhase := by
    intro now0 t o c h hinv hack hS
    obtain ⟨⟨own, their⟩, flg⟩ := t
    obtain ⟨h, hflg⟩ := h
    dsimp only at h hflg
    rcases h with ⟨s, rfl⟩ | ⟨rfl, s, rfl⟩
    · obtain ⟨c1, o2, s2, d1, d2, e1, e2, hps, hne⟩ :=
        iface7.tickPhase Conn7.cfg_ok (now0 := now0) (t := (own, their)) (s := s) hinv hack hS.1 hS.2
      have hmap : ∀ ds : List Dg, (ds.map conv).map (pktH their) = ds.map (iface7.pkt (own, their)) := by
        intro ds; rw [List.map_map]; exact List.map_congr_left (fun d _ => (conv_pkt (own, their) d).symm)
      refine ⟨c1, _, o2, d1.map conv, d2.map conv, ?_, ?_, ⟨Or.inl ⟨s2, rfl⟩, fun _ => ⟨s2, rfl⟩⟩, ?_,
        by simpa using hne⟩
      · exact e1.trans (congrArg (fun l => Except.ok ({ conn := c1, sent := l } : Ret Conn Packet)) (hmap d1).symm)
      · exact e2.trans (congrArg (fun l => Except.ok ({ conn := ⟨.online own their o2, s2⟩, sent := l } : Ret Conn Packet))
          (hmap d2).symm)
      · simpa [List.map_map, Function.comp_def, conv_fl] using hps
    · have hs : SendDue now0 s := hS
      have t1 : s.triggered (now0 + resendUs) = true := by
        apply hs.triggered; rw [sendUs_val, resendUs_val]; omega
      generalize now0 + resendUs = T1 at t1 ⊢
      have t2 : (Timeout.after T1 sendUs).triggered (T1 + sendUs) = true := by
        simp [Timeout.after, Timeout.triggered]
      generalize T1 + sendUs = T2 at t2 ⊢
      refine ⟨⟨.pending own their, Timeout.after T1 sendUs⟩,
        ⟨.pending own their, Timeout.after T2 sendUs⟩, .new, [.ctl 1 0], [.ctl 1 0], ?_, ?_,
        ⟨Or.inr ⟨rfl, _, rfl⟩, fun hf => by obtain ⟨_, h'⟩ := hflg hf; cases h'⟩, ?_, by simp⟩
      · exact tick_pending T1 own their s t1
      · exact tick_pending T2 own their (Timeout.after T1 sendUs) t2
      · have := PhaseSpec.of_flush_kas (Online.new_inv Conn7.cfg) (o := .new) rfl
          [⟨0, false, 0, []⟩, ⟨0, false, 0, []⟩] (by simp [Online.new]) (by simp)
        have hf : (Online.new).flush = (Online.new, []) := by
          simp [Online.flush, Online.canSend, Online.new, PacketContents.empty]
        rw [hf] at this
        simpa [DgH.fl] using this
  recv_dg := by
    intro now draws tx ty o c d alt h hp hinv hack hseq
    obtain ⟨⟨ownx, theirx⟩, fx⟩ := tx
    obtain ⟨⟨own, their⟩, fy⟩ := ty
    obtain ⟨h, hflg⟩ := h
    dsimp only at h hflg hp
    subst hp
    rcases h with ⟨s, rfl⟩ | ⟨rfl, s, rfl⟩
    · -- online receiver
      cases d with
      | chunk f =>
        obtain ⟨o2, s2, r, fl, h1, h2, h3, h4, h5⟩ :=
          iface7.recv_dg' Conn7.cfg_ok (now := now) (draws := draws) (tx := (ownx, theirx)) (ty := (theirx, their)) (s := s)
            (.chunk f) alt rfl hinv hack hseq
        exact ⟨o2, r, fl, h1, ⟨Or.inl ⟨s2, h2⟩, fun _ => ⟨s2, h2⟩⟩, h3, h4, h5⟩
      | ctl k a =>
        obtain ⟨hfa, _⟩ := Online.feedAck_spec hinv hack
        have hfa' : o.feedAck a = .ok (o.ackChunks a) := hfa
        refine ⟨_, ⟨⟨.online theirx their (o.ackChunks a), s⟩, [], [], false⟩, [], ?_,
          ⟨Or.inl ⟨s, rfl⟩, fun _ => ⟨s, rfl⟩⟩,
          ⟨now, s, s, _, [], [], hfa, receive_nil now _ s⟩, rfl, fun _ => rfl⟩
        show P7.recv now draws ⟨.online theirx their o, s⟩ (.control a theirx (kindOf k)) alt = _
        have hk : expectedToken (.online theirx their o) (.control a theirx (kindOf k)) = theirx := by
          unfold kindOf; split <;> simp [expectedToken, State.ownToken?]
        simp [P7.recv, feed, hk, hfa', feedBody_ctl_online]
        rfl
    · -- pending receiver: the core is the fresh one
      have hfa := new_feedAck hack
      cases d with
      | chunk f =>
        obtain ⟨o2, s2, fl, evs, hrc, _, hval, _⟩ :=
          Online.receive_spec Conn7.cfg_ok (Online.new_inv Conn7.cfg) now s f.requestResend f.chunks hseq
        refine ⟨o2, ⟨⟨.online theirx their o2, s2⟩, fl.map (ofFlushed their), evs, false⟩, fl, ?_,
          ⟨Or.inl ⟨s2, rfl⟩, fun _ => ⟨s2, rfl⟩⟩,
          ⟨now, s, s2, _, fl, evs, hfa, hrc⟩, rfl, fun _ => receive_fl_nil rfl hrc⟩
        show P7.recv now draws ⟨.pending theirx their, s⟩ (ofFlushed theirx f) alt = _
        simp [P7.recv, feed, ofFlushed, expectedToken, State.ownToken?, feedBody, hrc,
          (Tw.Conn7.emit_flushed their hval).1]
        rfl
      | ctl k a =>
        refine ⟨.new, ⟨⟨.pending theirx their, s⟩, [], [], false⟩, [], ?_,
          ⟨Or.inr ⟨rfl, s, rfl⟩, fun hf => by obtain ⟨_, h'⟩ := hflg hf; cases h'⟩,
          ⟨now, s, s, _, [], [], hfa, receive_nil now _ s⟩, rfl, fun _ => rfl⟩
        show P7.recv now draws ⟨.pending theirx their, s⟩ (.control a theirx (kindOf k)) alt = _
        have hk : expectedToken (.pending theirx their) (.control a theirx (kindOf k)) = theirx := by
          unfold kindOf; split <;> simp [expectedToken, State.ownToken?]
        simp [P7.recv, feed, hk, feedBody_ctl_pending]
        rfl

end Tw.NetSim.P7
