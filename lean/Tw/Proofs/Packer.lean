import Tw.Model.Packer

/-! Helper lemmas about the varint model (`Tw.Model.Packer`). -/
namespace Tw.Packer

theorem toNat_ofNat_lt {n : Nat} (h : n < 256) : (UInt8.ofNat n).toNat = n := by
  rw [UInt8.toNat_ofNat']; omega

/-- Core of the round trip: reading the bytes produced by `writeTail` adds exactly the
remaining magnitude at the right bit position, consumes exactly those bytes, and emits no
padding warning. `n` = loop iterations left. -/
theorem readTail_writeTail (n : Nat) (hn : n ≤ 4) :
    ∀ (acc m : Nat) (src : UInt8) (len : Nat) (rest : List UInt8) (ws : List Warning),
      m * 2 ^ (34 - 7 * n) < 2 ^ 31 → acc < 2 ^ (34 - 7 * n) →
      (src.toNat < 128 ↔ m = 0) →
      ∃ src', readTail n acc src len (writeTail n m ++ rest) ws
          = some (acc + m * 2 ^ (34 - 7 * n), src', len + (writeTail n m).length, rest, ws)
        ∧ ((writeTail n m).length = 0 → src' = src)
        ∧ (0 < (writeTail n m).length → src'.toNat ≠ 0) := by
  induction n with
  | zero =>
    intro acc m src len rest ws hm _ _
    have : m = 0 := by
      have : (2:Nat) ^ (34 - 7 * 0) = 2 ^ 34 := by decide
      omega
    subst this
    exact ⟨src, by simp [readTail, writeTail], by simp [writeTail], by simp [writeTail]⟩
  | succ n ih =>
    intro acc m src len rest ws hm hacc hsrc
    by_cases h0 : m = 0
    · subst h0
      have hs : src.toNat < 128 := hsrc.mpr rfl
      exact ⟨src, by simp [readTail, writeTail, hs], by simp [writeTail], by simp [writeTail]⟩
    · have hs : ¬ src.toNat < 128 := fun h => h0 (hsrc.mp h)
      have hn' : n ≤ 4 := by omega
      -- the byte written
      let b := UInt8.ofNat ((if m / 128 ≠ 0 then 128 else 0) + m % 128)
      have hb : b.toNat = (if m / 128 ≠ 0 then 128 else 0) + m % 128 := by
        apply toNat_ofNat_lt; split <;> omega
      have hbmod : b.toNat % 128 = m % 128 := by rw [hb]; split <;> omega
      have hblt : (b.toNat < 128 ↔ m / 128 = 0) := by rw [hb]; split <;> omega
      have e1 : (34 - 7 * (n + 1)) + 7 = 34 - 7 * n := by omega
      have p7 : (2:Nat) ^ (34 - 7 * n) = 2 ^ (34 - 7 * (n + 1)) * 128 := by
        rw [← e1, Nat.pow_add]
      have hi : 6 + 7 * (3 - n) = 34 - 7 * (n + 1) := by omega
      -- magnitude bounds
      have hm' : m / 128 * 2 ^ (34 - 7 * n) < 2 ^ 31 := by
        rw [p7]
        have : m / 128 * (2 ^ (34 - 7 * (n + 1)) * 128) ≤ m * 2 ^ (34 - 7 * (n + 1)) := by
          have := Nat.div_mul_le_self m 128
          calc m / 128 * (2 ^ (34 - 7 * (n + 1)) * 128) = (m / 128 * 128) * 2 ^ (34 - 7 * (n + 1)) := by
                rw [Nat.mul_comm (2 ^ _) 128, Nat.mul_assoc]
            _ ≤ m * 2 ^ (34 - 7 * (n + 1)) := Nat.mul_le_mul_right _ this
        omega
      have hacc' : acc + m % 128 * 2 ^ (34 - 7 * (n + 1)) < 2 ^ (34 - 7 * n) := by
        rw [p7]
        have : m % 128 < 128 := Nat.mod_lt _ (by decide)
        have : m % 128 * 2 ^ (34 - 7 * (n + 1)) ≤ 127 * 2 ^ (34 - 7 * (n + 1)) :=
          Nat.mul_le_mul_right _ (by omega)
        omega
      have hlt32 : acc + m % 128 * 2 ^ (34 - 7 * (n + 1)) < 2 ^ 32 := by
        have : (2:Nat) ^ (34 - 7 * n) ≤ 2 ^ 34 := Nat.pow_le_pow_right (by decide) (by omega)
        -- tighter: total value is below 2^32 because m * 2^k < 2^31 and acc < 2^k ≤ ...
        have h1 : m % 128 * 2 ^ (34 - 7 * (n + 1)) ≤ m * 2 ^ (34 - 7 * (n + 1)) :=
          Nat.mul_le_mul_right _ (Nat.mod_le _ _)
        have h2 : 2 ^ (34 - 7 * (n + 1)) ≤ m * 2 ^ (34 - 7 * (n + 1)) :=
          Nat.le_mul_of_pos_left _ (by omega)
        omega
      -- no padding warning: at i = 3 (n = 0) the byte is below 16
      have hpad : ¬ (3 - n = 3 ∧ b.toNat / 16 ≠ 0) := by
        rintro ⟨h3, hp⟩
        have hn0 : n = 0 := by omega
        subst hn0
        have : (2:Nat) ^ (34 - 7 * (0 + 1)) = 2 ^ 27 := by decide
        rw [this] at hm
        have : m < 16 := by omega
        rw [hb] at hp
        split at hp <;> omega
      obtain ⟨src', hrd, hz, hnz⟩ := ih hn' (acc + m % 128 * 2 ^ (34 - 7 * (n + 1))) (m / 128) b
        (len + 1) rest ws hm' hacc' hblt
      refine ⟨src', ?_, ?_, ?_⟩
      · have hw : writeTail (n + 1) m = b :: writeTail n (m / 128) := by
          simp [writeTail, h0, b]
        rw [hw]
        simp only [List.cons_append, readTail, hs, if_false]
        simp only [hpad, if_false, hi, hbmod, Nat.mod_eq_of_lt hlt32]
        rw [hrd]
        have : acc + m % 128 * 2 ^ (34 - 7 * (n + 1)) + m / 128 * 2 ^ (34 - 7 * n)
            = acc + m * 2 ^ (34 - 7 * (n + 1)) := by
          rw [p7]
          have := Nat.div_add_mod m 128
          calc acc + m % 128 * 2 ^ (34 - 7 * (n + 1)) + m / 128 * (2 ^ (34 - 7 * (n + 1)) * 128)
              = acc + (128 * (m / 128) + m % 128) * 2 ^ (34 - 7 * (n + 1)) := by
                rw [Nat.add_mul, Nat.mul_comm 128, Nat.mul_assoc, Nat.mul_comm 128]; omega
            _ = acc + m * 2 ^ (34 - 7 * (n + 1)) := by rw [this]
        simp [this, List.length_cons]; omega
      · intro h; simp [writeTail, h0] at h
      · intro _
        by_cases hk : (writeTail n (m / 128)).length = 0
        · have := hz hk
          rw [this, hb]
          split <;> omega
        · exact hnz (by omega)

end Tw.Packer

namespace Tw.Packer

theorem writeTail_length_le (n m : Nat) : (writeTail n m).length ≤ n := by
  induction n generalizing m with
  | zero => simp [writeTail]
  | succ n ih =>
    unfold writeTail
    split
    · simp
    · simp only [List.length_cons]; have := ih (m / 128); omega

theorem foldSign_lt {v : Int} (h : inI32 v) : foldSign v < 2 ^ 31 := by
  unfold foldSign inI32 at *
  split <;> omega

theorem toI32_fold {v : Int} (h : inI32 v) :
    toI32 (if (if v < 0 then 1 else 0) = 1 then 2 ^ 32 - 1 - foldSign v else foldSign v) = v := by
  unfold foldSign toI32 inI32 at *
  by_cases hv : v < 0
  · simp only [hv, if_true]
    have h1 : (-v - 1).toNat < 2 ^ 31 := by omega
    have h2 : ((2:Nat) ^ 32 - 1 - (-v - 1).toNat) % 2 ^ 32 = 2 ^ 32 - 1 - (-v - 1).toNat := by
      apply Nat.mod_eq_of_lt; omega
    rw [h2]
    split <;> omega
  · simp only [hv, if_false]
    have h1 : v.toNat < 2 ^ 31 := by omega
    have h2 : v.toNat % 2 ^ 32 = v.toNat := by apply Nat.mod_eq_of_lt; omega
    simp only [show ¬ ((0:Nat) = 1) by decide, if_false, h2]
    split <;> omega

/-- the first byte written by `writeInt` -/
theorem first_byte_facts (u sign : Nat) (hs : sign ≤ 1) :
    let b := UInt8.ofNat ((if u / 64 ≠ 0 then 128 else 0) + sign * 64 + u % 64)
    b.toNat % 64 = u % 64 ∧ (b.toNat / 64) % 2 = sign ∧ (b.toNat < 128 ↔ u / 64 = 0) := by
  intro b
  have hb : b.toNat = (if u / 64 ≠ 0 then 128 else 0) + sign * 64 + u % 64 := by
    apply toNat_ofNat_lt; split <;> omega
  rw [hb]
  split <;> omega

theorem readInt_writeInt (v : Int) (h : inI32 v) (rest : List UInt8) :
    readInt (writeInt v ++ rest) = some (v, rest, []) := by
  have hu := foldSign_lt h
  unfold writeInt readInt
  simp only [List.cons_append]
  have hsign : (if v < 0 then 1 else 0 : Nat) ≤ 1 := by split <;> omega
  obtain ⟨f1, f2, f3⟩ := first_byte_facts (foldSign v) (if v < 0 then 1 else 0) hsign
  obtain ⟨src', hrd, hz, hnz⟩ := readTail_writeTail 4 (by omega) (foldSign v % 64) (foldSign v / 64)
    (UInt8.ofNat ((if foldSign v / 64 ≠ 0 then 128 else 0) + (if v < 0 then 1 else 0) * 64 + foldSign v % 64))
    1 rest [] (by simp; omega) (by simp; omega) f3
  simp only [f1, f2, hrd]
  have hov : ¬ (1 + (writeTail 4 (foldSign v / 64)).length > 1 ∧ src'.toNat = 0) := by
    rintro ⟨h1, h2⟩
    exact hnz (by omega) h2
  simp only [hov, if_false]
  have hval : foldSign v % 64 + foldSign v / 64 * 2 ^ (34 - 7 * 4) = foldSign v := by
    simp; omega
  rw [hval, toI32_fold h]

theorem writeInt_length (v : Int) : 1 ≤ (writeInt v).length ∧ (writeInt v).length ≤ 5 := by
  unfold writeInt
  simp only [List.length_cons]
  have := writeTail_length_le 4 (foldSign v / 64)
  omega

end Tw.Packer
