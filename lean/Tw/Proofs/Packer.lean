import Tw.Model.Packer

/-! Helper lemmas about the varint model (`Tw.Model.Packer`). -/
namespace Tw.Packer

theorem toNat_ofNat_lt {n : Nat} (h : n < 256) : (UInt8.ofNat n).toNat = n := by
  rw [UInt8.toNat_ofNat']; omega

/-- Core of the round trip: reading the bytes produced by `writeTail` adds exactly the
remaining magnitude at the right bit position, consumes exactly those bytes, and emits no
padding warning. `n` = loop iterations left. -/
theorem readTail_writeTail (n : Nat) (hn : n ≤ 4) :
    ∀ (acc m : Nat) (src : UInt8) (len : Nat) (rest : List UInt8) (ws : List Warning),
      m * 2 ^ (34 - 7 * n) < 2 ^ 31 → acc < 2 ^ (34 - 7 * n) →
      (src.toNat < 128 ↔ m = 0) →
      ∃ src', readTail n acc src len (writeTail n m ++ rest) ws
          = some (acc + m * 2 ^ (34 - 7 * n), src', len + (writeTail n m).length, rest, ws)
        ∧ ((writeTail n m).length = 0 → src' = src)
        ∧ (0 < (writeTail n m).length → src'.toNat ≠ 0) := by
  induction n with
  | zero =>
    intro acc m src len rest ws hm _ _
    have : m = 0 := by
      have : (2:Nat) ^ (34 - 7 * 0) = 2 ^ 34 := by decide
      omega
    subst this
    exact ⟨src, by simp [readTail, writeTail], by simp [writeTail], by simp [writeTail]⟩
  | succ n ih =>
    intro acc m src len rest ws hm hacc hsrc
    by_cases h0 : m = 0
    · subst h0
      have hs : src.toNat < 128 := hsrc.mpr rfl
      exact ⟨src, by simp [readTail, writeTail, hs], by simp [writeTail], by simp [writeTail]⟩
    · have hs : ¬ src.toNat < 128 := fun h => h0 (hsrc.mp h)
      have hn' : n ≤ 4 := by omega
      -- the byte written
      let b := UInt8.ofNat ((if m / 128 ≠ 0 then 128 else 0) + m % 128)
      have hb : b.toNat = (if m / 128 ≠ 0 then 128 else 0) + m % 128 := by
        apply toNat_ofNat_lt; split <;> omega
      have hbmod : b.toNat % 128 = m % 128 := by rw [hb]; split <;> omega
      have hblt : (b.toNat < 128 ↔ m / 128 = 0) := by rw [hb]; split <;> omega
      have e1 : (34 - 7 * (n + 1)) + 7 = 34 - 7 * n := by omega
      have p7 : (2:Nat) ^ (34 - 7 * n) = 2 ^ (34 - 7 * (n + 1)) * 128 := by
        rw [← e1, Nat.pow_add]
      have hi : 6 + 7 * (3 - n) = 34 - 7 * (n + 1) := by omega
      -- magnitude bounds
      have hm' : m / 128 * 2 ^ (34 - 7 * n) < 2 ^ 31 := by
        rw [p7]
        have : m / 128 * (2 ^ (34 - 7 * (n + 1)) * 128) ≤ m * 2 ^ (34 - 7 * (n + 1)) := by
          have := Nat.div_mul_le_self m 128
          calc m / 128 * (2 ^ (34 - 7 * (n + 1)) * 128) = (m / 128 * 128) * 2 ^ (34 - 7 * (n + 1)) := by
                rw [Nat.mul_comm (2 ^ _) 128, Nat.mul_assoc]
            _ ≤ m * 2 ^ (34 - 7 * (n + 1)) := Nat.mul_le_mul_right _ this
        omega
      have hacc' : acc + m % 128 * 2 ^ (34 - 7 * (n + 1)) < 2 ^ (34 - 7 * n) := by
        rw [p7]
        have : m % 128 < 128 := Nat.mod_lt _ (by decide)
        have : m % 128 * 2 ^ (34 - 7 * (n + 1)) ≤ 127 * 2 ^ (34 - 7 * (n + 1)) :=
          Nat.mul_le_mul_right _ (by omega)
        omega
      have hlt32 : acc + m % 128 * 2 ^ (34 - 7 * (n + 1)) < 2 ^ 32 := by
        have : (2:Nat) ^ (34 - 7 * n) ≤ 2 ^ 34 := Nat.pow_le_pow_right (by decide) (by omega)
        -- tighter: total value is below 2^32 because m * 2^k < 2^31 and acc < 2^k ≤ ...
        have h1 : m % 128 * 2 ^ (34 - 7 * (n + 1)) ≤ m * 2 ^ (34 - 7 * (n + 1)) :=
          Nat.mul_le_mul_right _ (Nat.mod_le _ _)
        have h2 : 2 ^ (34 - 7 * (n + 1)) ≤ m * 2 ^ (34 - 7 * (n + 1)) :=
          Nat.le_mul_of_pos_left _ (by omega)
        omega
      -- no padding warning: at i = 3 (n = 0) the byte is below 16
      have hpad : ¬ (3 - n = 3 ∧ b.toNat / 16 ≠ 0) := by
        rintro ⟨h3, hp⟩
        have hn0 : n = 0 := by omega
        subst hn0
        have : (2:Nat) ^ (34 - 7 * (0 + 1)) = 2 ^ 27 := by decide
        rw [this] at hm
        have : m < 16 := by omega
        rw [hb] at hp
        split at hp <;> omega
      obtain ⟨src', hrd, hz, hnz⟩ := ih hn' (acc + m % 128 * 2 ^ (34 - 7 * (n + 1))) (m / 128) b
        (len + 1) rest ws hm' hacc' hblt
      refine ⟨src', ?_, ?_, ?_⟩
      · have hw : writeTail (n + 1) m = b :: writeTail n (m / 128) := by
          simp [writeTail, h0, b]
        rw [hw]
        simp only [List.cons_append, readTail, hs, if_false]
        simp only [hpad, if_false, hi, hbmod, Nat.mod_eq_of_lt hlt32]
        rw [hrd]
        have : acc + m % 128 * 2 ^ (34 - 7 * (n + 1)) + m / 128 * 2 ^ (34 - 7 * n)
            = acc + m * 2 ^ (34 - 7 * (n + 1)) := by
          rw [p7]
          have := Nat.div_add_mod m 128
          calc acc + m % 128 * 2 ^ (34 - 7 * (n + 1)) + m / 128 * (2 ^ (34 - 7 * (n + 1)) * 128)
              = acc + (128 * (m / 128) + m % 128) * 2 ^ (34 - 7 * (n + 1)) := by
                rw [Nat.add_mul, Nat.mul_comm 128, Nat.mul_assoc, Nat.mul_comm 128]; omega
            _ = acc + m * 2 ^ (34 - 7 * (n + 1)) := by rw [this]
        simp [this, List.length_cons]; omega
      · intro h; simp [writeTail, h0] at h
      · intro _
        by_cases hk : (writeTail n (m / 128)).length = 0
        · have := hz hk
          rw [this, hb]
          split <;> omega
        · exact hnz (by omega)

end Tw.Packer

namespace Tw.Packer

theorem writeTail_length_le (n m : Nat) : (writeTail n m).length ≤ n := by
  induction n generalizing m with
  | zero => simp [writeTail]
  | succ n ih =>
    unfold writeTail
    split
    · simp
    · simp only [List.length_cons]; have := ih (m / 128); omega

theorem foldSign_lt {v : Int} (h : inI32 v) : foldSign v < 2 ^ 31 := by
  unfold foldSign inI32 at *
  split <;> omega

theorem toI32_fold {v : Int} (h : inI32 v) :
    toI32 (if (if v < 0 then 1 else 0) = 1 then 2 ^ 32 - 1 - foldSign v else foldSign v) = v := by
  unfold foldSign toI32 inI32 at *
  by_cases hv : v < 0
  · simp only [hv, if_true]
    have h1 : (-v - 1).toNat < 2 ^ 31 := by omega
    have h2 : ((2:Nat) ^ 32 - 1 - (-v - 1).toNat) % 2 ^ 32 = 2 ^ 32 - 1 - (-v - 1).toNat := by
      apply Nat.mod_eq_of_lt; omega
    rw [h2]
    split <;> omega
  · simp only [hv, if_false]
    have h1 : v.toNat < 2 ^ 31 := by omega
    have h2 : v.toNat % 2 ^ 32 = v.toNat := by apply Nat.mod_eq_of_lt; omega
    simp only [show ¬ ((0:Nat) = 1) by decide, if_false, h2]
    split <;> omega

/-- the first byte written by `writeInt` -/
theorem first_byte_facts (u sign : Nat) (hs : sign ≤ 1) :
    let b := UInt8.ofNat ((if u / 64 ≠ 0 then 128 else 0) + sign * 64 + u % 64)
    b.toNat % 64 = u % 64 ∧ (b.toNat / 64) % 2 = sign ∧ (b.toNat < 128 ↔ u / 64 = 0) := by
  intro b
  have hb : b.toNat = (if u / 64 ≠ 0 then 128 else 0) + sign * 64 + u % 64 := by
    apply toNat_ofNat_lt; split <;> omega
  rw [hb]
  split <;> omega

theorem readInt_writeInt (v : Int) (h : inI32 v) (rest : List UInt8) :
    readInt (writeInt v ++ rest) = some (v, rest, []) := by
  have hu := foldSign_lt h
  unfold writeInt readInt
  simp only [List.cons_append]
  have hsign : (if v < 0 then 1 else 0 : Nat) ≤ 1 := by split <;> omega
  obtain ⟨f1, f2, f3⟩ := first_byte_facts (foldSign v) (if v < 0 then 1 else 0) hsign
  obtain ⟨src', hrd, hz, hnz⟩ := readTail_writeTail 4 (by omega) (foldSign v % 64) (foldSign v / 64)
    (UInt8.ofNat ((if foldSign v / 64 ≠ 0 then 128 else 0) + (if v < 0 then 1 else 0) * 64 + foldSign v % 64))
    1 rest [] (by simp; omega) (by simp; omega) f3
  simp only [f1, f2, hrd]
  have hov : ¬ (1 + (writeTail 4 (foldSign v / 64)).length > 1 ∧ src'.toNat = 0) := by
    rintro ⟨h1, h2⟩
    exact hnz (by omega) h2
  simp only [hov, if_false]
  have hval : foldSign v % 64 + foldSign v / 64 * 2 ^ (34 - 7 * 4) = foldSign v := by
    simp; omega
  rw [hval, toI32_fold h]

theorem writeInt_length (v : Int) : 1 ≤ (writeInt v).length ∧ (writeInt v).length ≤ 5 := by
  unfold writeInt
  simp only [List.length_cons]
  have := writeTail_length_le 4 (foldSign v / 64)
  omega

end Tw.Packer

namespace Tw.Packer

theorem arith0 (acc r m1 : Nat) (hr : r < 16) (hacc : acc < 134217728) (hm1 : m1 * 17179869184 < 2147483648) :
    (m1 * 128 + r) * 134217728 < 2147483648 ∧
    (acc + r * 134217728) % 4294967296 + m1 * 17179869184 = acc + (m1 * 128 + r) * 134217728 := by
  have hm0 : m1 = 0 := by omega
  subst hm0; clear hm1
  have e : (acc + r * 134217728) % 4294967296 = acc + r * 134217728 := Nat.mod_eq_of_lt (by omega)
  rw [e]; constructor <;> omega

theorem arith1 (acc r m1 : Nat) (hr : r < 128) (hacc : acc < 1048576) (hm1 : m1 * 134217728 < 2147483648) :
    (m1 * 128 + r) * 1048576 < 2147483648 ∧
    (acc + r * 1048576) % 4294967296 + m1 * 134217728 = acc + (m1 * 128 + r) * 1048576 := by
  have hm0 : m1 < 16 := by omega
  clear hm1
  have e : (acc + r * 1048576) % 4294967296 = acc + r * 1048576 := Nat.mod_eq_of_lt (by omega)
  rw [e]; constructor <;> omega

theorem arith2 (acc r m1 : Nat) (hr : r < 128) (hacc : acc < 8192) (hm1 : m1 * 1048576 < 2147483648) :
    (m1 * 128 + r) * 8192 < 2147483648 ∧
    (acc + r * 8192) % 4294967296 + m1 * 1048576 = acc + (m1 * 128 + r) * 8192 := by
  have hm0 : m1 < 2048 := by omega
  clear hm1
  have e : (acc + r * 8192) % 4294967296 = acc + r * 8192 := Nat.mod_eq_of_lt (by omega)
  rw [e]; constructor <;> omega

theorem arith3 (acc r m1 : Nat) (hr : r < 128) (hacc : acc < 64) (hm1 : m1 * 8192 < 2147483648) :
    (m1 * 128 + r) * 64 < 2147483648 ∧
    (acc + r * 64) % 4294967296 + m1 * 8192 = acc + (m1 * 128 + r) * 64 := by
  have hm0 : m1 < 262144 := by omega
  clear hm1
  have e : (acc + r * 64) % 4294967296 = acc + r * 64 := Nat.mod_eq_of_lt (by omega)
  rw [e]; constructor <;> omega

theorem arithStep (n : Nat) (hn : n < 4) (acc r m1 : Nat) (hr : r < 128) (hr0 : n = 0 → r < 16)
    (hacc : acc < 2 ^ (34 - 7 * (n + 1))) (hm1 : m1 * 2 ^ (34 - 7 * n) < 2 ^ 31) :
    (m1 * 128 + r) * 2 ^ (34 - 7 * (n + 1)) < 2 ^ 31 ∧
    (acc + r * 2 ^ (6 + 7 * (3 - n))) % 2 ^ 32 + m1 * 2 ^ (34 - 7 * n)
      = acc + (m1 * 128 + r) * 2 ^ (34 - 7 * (n + 1)) := by
  have hcases : n = 0 ∨ n = 1 ∨ n = 2 ∨ n = 3 := by omega
  rcases hcases with rfl | rfl | rfl | rfl
  · have := hr0 rfl
    simp only [Nat.reduceAdd, Nat.reduceMul, Nat.reduceSub, Nat.reducePow] at hacc hm1 ⊢
    exact arith0 acc r m1 this hacc hm1
  · simp only [Nat.reduceAdd, Nat.reduceMul, Nat.reduceSub, Nat.reducePow] at hacc hm1 ⊢
    exact arith1 acc r m1 hr hacc hm1
  · simp only [Nat.reduceAdd, Nat.reduceMul, Nat.reduceSub, Nat.reducePow] at hacc hm1 ⊢
    exact arith2 acc r m1 hr hacc hm1
  · simp only [Nat.reduceAdd, Nat.reduceMul, Nat.reduceSub, Nat.reducePow] at hacc hm1 ⊢
    exact arith3 acc r m1 hr hacc hm1

/-- What `readTail` returns, analysed: consumed bytes `c`, appended warnings `extra`. -/
def TailInv (n : Nat) : Prop :=
  ∀ (acc : Nat) (src : UInt8) (len : Nat) (inp : List UInt8) (ws0 : List Warning)
    (acc' : Nat) (src' : UInt8) (len' : Nat) (rest : List UInt8) (ws' : List Warning),
    readTail n acc src len inp ws0 = some (acc', src', len', rest, ws') →
    acc < 2 ^ (34 - 7 * n) →
    ∃ c extra, inp = c ++ rest ∧ len' = len + c.length ∧ c.length ≤ n ∧ ws' = ws0 ++ extra ∧
      (c = [] → src' = src ∧ acc' = acc ∧ extra = []) ∧
      (c.length < n → extra = [] ∧ acc' < 2 ^ (34 - 7 * n + 7 * c.length) ∧ src'.toNat < 128) ∧
      (extra = [] → (n = 0 → src.toNat < 128) → (c ≠ [] → src'.toNat ≠ 0) →
        ∃ m, m * 2 ^ (34 - 7 * n) < 2 ^ 31 ∧ (src.toNat < 128 ↔ m = 0) ∧ c = writeTail n m ∧
          acc' = acc + m * 2 ^ (34 - 7 * n))

theorem tailInv_zero : TailInv 0 := by
  intro acc src len inp ws0 acc' src' len' rest ws' h _
  simp only [readTail, Option.some.injEq, Prod.mk.injEq] at h
  obtain ⟨rfl, rfl, rfl, rfl, rfl⟩ := h
  refine ⟨[], [], by simp, by simp, by simp, by simp, by simp, by simp, ?_⟩
  intro _ hs _
  exact ⟨0, by simp, by simp [hs rfl], by simp [writeTail], by simp⟩

theorem tailInv_succ (n : Nat) (hn : n < 4) (ih : TailInv n) : TailInv (n + 1) := by
  intro acc src len inp ws0 acc' src' len' rest ws' h hacc
  unfold readTail at h
  by_cases hs : src.toNat < 128
  · simp only [hs, if_true, Option.some.injEq, Prod.mk.injEq] at h
    obtain ⟨rfl, rfl, rfl, rfl, rfl⟩ := h
    refine ⟨[], [], by simp, by simp, by simp, by simp, by simp, ?_, ?_⟩
    · intro _
      refine ⟨rfl, ?_, hs⟩
      simpa using hacc
    · intro _ _ _
      exact ⟨0, by simp, by simp [hs], by simp [writeTail], by simp⟩
  · simp only [hs, if_false] at h
    match inp, h with
    | b :: rest0, h =>
      simp only at h
      have hb256 := UInt8.toNat_lt b
      have hcases : n = 0 ∨ n = 1 ∨ n = 2 ∨ n = 3 := by omega
      -- the recursive call's accumulator is in range
      have hacc1 : (acc + b.toNat % 128 * 2 ^ (6 + 7 * (3 - n))) % 2 ^ 32 < 2 ^ (34 - 7 * n) := by
        rcases hcases with rfl | rfl | rfl | rfl <;> simp only [Nat.reduceAdd, Nat.reduceMul, Nat.reduceSub, Nat.reducePow] at hacc ⊢ <;> omega
      obtain ⟨c1, extra1, hinp, hlen, hcl, hws, hnil, hshort, hcanon⟩ := ih _ _ _ _ _ _ _ _ _ _ h hacc1
      by_cases hpad : 3 - n = 3 ∧ b.toNat / 16 ≠ 0
      · -- padding warning emitted
        rw [if_pos hpad] at hws
        refine ⟨b :: c1, Warning.nonZeroIntPadding :: extra1, by simp [hinp], by simp [hlen]; omega,
          by simp; omega, by simp [hws], by simp, ?_, ?_⟩
        · intro hl
          simp only [List.length_cons] at hl
          have : n = 0 := by omega
          omega
        · intro he; simp at he
      · rw [if_neg hpad] at hws
        refine ⟨b :: c1, extra1, by simp [hinp], by simp [hlen]; omega, by simp; omega, hws, by simp, ?_, ?_⟩
        · intro hl
          simp only [List.length_cons] at hl
          obtain ⟨he, hb, hs'⟩ := hshort (by omega)
          refine ⟨he, ?_, hs'⟩
          have : 34 - 7 * (n + 1) + 7 * (c1.length + 1) = 34 - 7 * n + 7 * c1.length := by omega
          simp only [List.length_cons]
          rw [this]; exact hb
        · intro he _ hlast
          have hb16' : n = 0 → b.toNat < 16 := by
            intro h0; subst h0
            have : ¬ b.toNat / 16 ≠ 0 := fun hh => hpad ⟨rfl, hh⟩
            omega
          have hb16 : n = 0 → b.toNat < 128 := fun h0 => by have := hb16' h0; omega
          clear hpad
          obtain ⟨m1, hm1, hiff, hc1, hacc'⟩ := hcanon he hb16 (by
            intro hc1ne; exact hlast (by simp))
          have hsrc'b : c1 = [] → src' = b := fun hc => (hnil hc).1
          have hbne : m1 = 0 → b.toNat % 128 ≠ 0 := by
            intro hm0
            have hb128 : b.toNat < 128 := hiff.mpr hm0
            have : c1 = [] := by rw [hc1, hm0]; cases n <;> simp [writeTail]
            have := hsrc'b this
            have h0 := hlast (by simp)
            rw [this] at h0
            omega
          have harith := arithStep n hn acc (b.toNat % 128) m1 (Nat.mod_lt _ (by decide))
            (fun h0 => by have := hb16' h0; omega) hacc hm1
          refine ⟨m1 * 128 + b.toNat % 128, ?_, ?_, ?_, ?_⟩
          · exact harith.1
          · constructor
            · intro h; exact absurd h hs
            · intro hm; exfalso
              by_cases hm0 : m1 = 0
              · exact hbne hm0 (by omega)
              · omega
          · have hmne : m1 * 128 + b.toNat % 128 ≠ 0 := by
              by_cases hm0 : m1 = 0
              · have := hbne hm0; omega
              · omega
            have hdiv : (m1 * 128 + b.toNat % 128) / 128 = m1 := by omega
            have hmod : (m1 * 128 + b.toNat % 128) % 128 = b.toNat % 128 := by omega
            have hbyte : (if m1 ≠ 0 then 128 else 0) + b.toNat % 128 = b.toNat := by
              by_cases hm0 : m1 = 0
              · have := hiff.mpr hm0; simp [hm0]; omega
              · have : ¬ b.toNat < 128 := fun hh => hm0 (hiff.mp hh)
                simp [hm0]; omega
            simp only [writeTail, hmne, if_false, hdiv, hmod, hbyte, UInt8.ofNat_toNat, hc1]
          · rw [hacc']; exact harith.2

theorem tailInv (n : Nat) (hn : n ≤ 4) : TailInv n := by
  induction n with
  | zero => exact tailInv_zero
  | succ n ih => exact tailInv_succ n (by omega) (ih (by omega))

end Tw.Packer

namespace Tw.Packer

theorem toI32_range (r : Nat) : inI32 (toI32 r) := by
  unfold toI32 inI32
  have : r % 2 ^ 32 < 2 ^ 32 := Nat.mod_lt _ (by decide)
  split <;> omega

/-- undoing the sign fold -/
theorem fold_toI32 (u sign : Nat) (hu : u < 2 ^ 31) (hs : sign ≤ 1) :
    foldSign (toI32 (if sign = 1 then 2 ^ 32 - 1 - u else u)) = u ∧
    (toI32 (if sign = 1 then 2 ^ 32 - 1 - u else u) < 0 ↔ sign = 1) := by
  unfold foldSign toI32
  by_cases h1 : sign = 1
  · simp only [h1, if_true]
    have e : ((2:Nat) ^ 32 - 1 - u) % 2 ^ 32 = 2 ^ 32 - 1 - u := Nat.mod_eq_of_lt (by omega)
    rw [e]
    have : ¬ ((2:Nat) ^ 32 - 1 - u < 2 ^ 31) := by omega
    simp only [this, if_false]
    constructor
    · split <;> omega
    · constructor
      · intro _; trivial
      · intro _; omega
  · simp only [h1, if_false]
    have e : u % 2 ^ 32 = u := Nat.mod_eq_of_lt (by omega)
    rw [e]
    simp only [hu, if_true]
    constructor
    · split <;> omega
    · constructor
      · intro h; omega
      · intro h; exact absurd h (by simpa using h1)

theorem writeTail_length_lt (n k m : Nat) (h : m < 128 ^ k) : (writeTail n m).length ≤ k := by
  induction n generalizing k m with
  | zero => simp [writeTail]
  | succ n ih =>
    unfold writeTail
    split
    · simp
    · rename_i hm
      cases k with
      | zero => simp at h; omega
      | succ k =>
        simp only [List.length_cons]
        have : m / 128 < 128 ^ k := by
          rw [Nat.pow_succ] at h
          exact Nat.div_lt_of_lt_mul (by rw [Nat.mul_comm]; exact h)
        have := ih k (m / 128) this
        omega

/-- `readTail` fails exactly when the extend bit asks for more bytes than there are. -/
theorem readTail_none (n : Nat) :
    ∀ (acc : Nat) (src : UInt8) (len : Nat) (inp : List UInt8) (ws : List Warning),
      readTail n acc src len inp ws = none ↔
        (128 ≤ src.toNat ∧ inp.length < n ∧ ∀ b ∈ inp, 128 ≤ b.toNat) := by
  induction n with
  | zero => intro acc src len inp ws; simp [readTail]
  | succ n ih =>
    intro acc src len inp ws
    unfold readTail
    by_cases hs : src.toNat < 128
    · simp only [hs, if_true]
      constructor
      · intro h; cases h
      · rintro ⟨h, _⟩; omega
    · simp only [hs, if_false]
      cases inp with
      | nil => simp; omega
      | cons b rest =>
        simp only [ih, List.length_cons, List.mem_cons, forall_eq_or_imp]
        constructor
        · rintro ⟨h1, h2, h3⟩; exact ⟨by omega, by omega, h1, h3⟩
        · rintro ⟨_, h2, h1, h3⟩; exact ⟨h1, by omega, h3⟩

end Tw.Packer

namespace Tw.Packer

theorem first_byte_recompose (b0 : UInt8) (m : Nat) (hiff : b0.toNat < 128 ↔ m = 0) :
    UInt8.ofNat ((if m ≠ 0 then 128 else 0) + (b0.toNat / 64) % 2 * 64 + b0.toNat % 64) = b0 := by
  have hb := UInt8.toNat_lt b0
  have : (if m ≠ 0 then 128 else 0) + (b0.toNat / 64) % 2 * 64 + b0.toNat % 64 = b0.toNat := by
    by_cases hm : m = 0
    · have := hiff.mpr hm; simp [hm]; omega
    · have : ¬ b0.toNat < 128 := fun h => hm (hiff.mp h)
      simp [hm]; omega
  rw [this, UInt8.ofNat_toNat]

/-- Full analysis of a successful `readInt`. -/
theorem readInt_inv (bs : List UInt8) (v : Int) (rest : List UInt8) (ws : List Warning)
    (h : readInt bs = some (v, rest, ws)) :
    ∃ c, bs = c ++ rest ∧ 1 ≤ c.length ∧ c.length ≤ 5 ∧ inI32 v ∧
      (ws = [] ↔ c = writeInt v) ∧ (writeInt v).length ≤ c.length := by
  unfold readInt at h
  match bs, h with
  | b0 :: inp, h =>
    simp only at h
    match hrt : readTail 4 (b0.toNat % 64) b0 1 inp [], h with
    | some (acc', src', len', rest', ws1), h =>
      simp only [Option.some.injEq, Prod.mk.injEq] at h
      obtain ⟨hv, hrest, hws⟩ := h
      subst hrest
      have hacc0 : b0.toNat % 64 < 2 ^ (34 - 7 * 4) := by
        simp only [Nat.reduceMul, Nat.reduceSub, Nat.reducePow]; omega
      obtain ⟨c1, extra, hinp, hlen, hcl, hws1, hnil, hshort, hcanon⟩ :=
        tailInv 4 (by omega) _ _ _ _ _ _ _ _ _ _ hrt hacc0
      simp only [List.nil_append] at hws1
      have hvr : inI32 v := by rw [← hv]; exact toI32_range _
      have hsign : (b0.toNat / 64) % 2 ≤ 1 := by omega
      -- direction: canonical bytes give no warnings (from the round trip)
      have hback : b0 :: c1 = writeInt v → ws = [] := by
        intro hc
        have hrt2 := readInt_writeInt v hvr rest'
        rw [← hc] at hrt2
        have : readInt (b0 :: c1 ++ rest') = some (v, rest', ws) := by
          unfold readInt
          simp only [List.cons_append, ← hinp, hrt]
          simp [hv, hws]
        rw [this] at hrt2
        simpa using hrt2
      -- direction: no warnings force the canonical bytes
      have hfwd : ws = [] → b0 :: c1 = writeInt v := by
        intro hw
        rw [hw] at hws
        have hex : extra = [] := by
          rw [hws1] at hws
          split at hws
          · simp at hws
          · exact hws
        have hnover : ¬ (len' > 1 ∧ src'.toNat = 0) := by
          intro hh; rw [if_pos hh] at hws; simp at hws
        obtain ⟨m, hm, hiff, hc1, hacc'⟩ := hcanon hex (by omega) (by
          intro hne hz
          apply hnover
          refine ⟨?_, hz⟩
          have : 0 < c1.length := List.length_pos_iff.mpr hne
          omega)
        simp only [Nat.reduceMul, Nat.reduceSub, Nat.reducePow] at hm hacc'
        have hu : acc' < 2 ^ 31 := by
          have : m < 33554432 := by omega
          omega
        obtain ⟨hf, hneg⟩ := fold_toI32 acc' ((b0.toNat / 64) % 2) hu hsign
        rw [hv] at hf hneg
        unfold writeInt
        have hdiv : acc' / 64 = m := by omega
        have hmod : acc' % 64 = b0.toNat % 64 := by omega
        have hsg : (if v < 0 then 1 else 0 : Nat) = (b0.toNat / 64) % 2 := by
          by_cases h1 : (b0.toNat / 64) % 2 = 1
          · simp [hneg.mpr h1, h1]
          · have : ¬ v < 0 := fun hh => h1 (hneg.mp hh)
            simp [this]; omega
        simp only [hf, hdiv, hmod, hsg]
        rw [first_byte_recompose b0 m hiff, hc1]
      refine ⟨b0 :: c1, by simp [hinp], by simp, by simp; omega, hvr, ⟨hfwd, hback⟩, ?_⟩
      -- minimality
      by_cases h5 : c1.length = 4
      · have := (writeInt_length v).2; simp [h5]; omega
      · obtain ⟨hex, hb, hs'⟩ := hshort (by omega)
        simp only [Nat.reduceMul, Nat.reduceSub] at hb
        have hu : acc' < 2 ^ 31 := by
          have : (2:Nat) ^ (6 + 7 * c1.length) ≤ 2 ^ 27 := Nat.pow_le_pow_right (by decide) (by omega)
          omega
        obtain ⟨hf, _⟩ := fold_toI32 acc' ((b0.toNat / 64) % 2) hu hsign
        rw [hv] at hf
        unfold writeInt
        simp only [hf, List.length_cons]
        have : acc' / 64 < 128 ^ c1.length := by
          have e : (2:Nat) ^ (6 + 7 * c1.length) = 64 * 128 ^ c1.length := by
            rw [Nat.pow_add, Nat.pow_mul]
          rw [e] at hb
          exact Nat.div_lt_of_lt_mul hb
        have := writeTail_length_lt 4 c1.length (acc' / 64) this
        omega

theorem readInt_none_iff (bs : List UInt8) :
    readInt bs = none ↔ (bs.length < 5 ∧ ∀ b ∈ bs, 128 ≤ b.toNat) := by
  cases bs with
  | nil => simp [readInt]
  | cons b0 inp =>
    unfold readInt
    simp only
    cases hrt : readTail 4 (b0.toNat % 64) b0 1 inp [] with
    | none =>
      have := (readTail_none 4 _ _ _ _ _).mp hrt
      simp only [List.length_cons, List.mem_cons, forall_eq_or_imp, true_iff]
      exact ⟨by omega, this.1, this.2.2⟩
    | some r =>
      obtain ⟨acc', src', len', rest', ws1⟩ := r
      simp only [List.length_cons, List.mem_cons, forall_eq_or_imp, false_iff, reduceCtorEq]
      rintro ⟨h1, h2, h3⟩
      have : readTail 4 (b0.toNat % 64) b0 1 inp [] = none :=
        (readTail_none 4 _ _ _ _ _).mpr ⟨h2, by omega, h3⟩
      rw [this] at hrt; cases hrt

end Tw.Packer

namespace Tw.Packer

def TailVal (n : Nat) : Prop :=
  ∀ (acc : Nat) (src : UInt8) (len : Nat) (inp : List UInt8) (ws0 : List Warning)
    (acc' : Nat) (src' : UInt8) (len' : Nat) (rest : List UInt8) (ws' : List Warning),
    readTail n acc src len inp ws0 = some (acc', src', len', rest, ws') →
    acc < 2 ^ (34 - 7 * n) →
    ∃ c extra, inp = c ++ rest ∧ c.length ≤ n ∧ ws' = ws0 ++ extra ∧
      (∀ w ∈ extra, w = Warning.nonZeroIntPadding) ∧
      (extra = [] → tailMag c * 2 ^ (34 - 7 * n) < 2 ^ 31 ∧ acc' = acc + tailMag c * 2 ^ (34 - 7 * n))

theorem tailVal_zero : TailVal 0 := by
  intro acc src len inp ws0 acc' src' len' rest ws' h _
  simp only [readTail, Option.some.injEq, Prod.mk.injEq] at h
  obtain ⟨rfl, rfl, rfl, rfl, rfl⟩ := h
  exact ⟨[], [], by simp, by simp, by simp, by simp, by simp [tailMag]⟩

theorem tailVal_succ (n : Nat) (hn : n < 4) (ih : TailVal n) : TailVal (n + 1) := by
  intro acc src len inp ws0 acc' src' len' rest ws' h hacc
  unfold readTail at h
  by_cases hs : src.toNat < 128
  · simp only [hs, if_true, Option.some.injEq, Prod.mk.injEq] at h
    obtain ⟨rfl, rfl, rfl, rfl, rfl⟩ := h
    exact ⟨[], [], by simp, by simp, by simp, by simp, by simp [tailMag]⟩
  · simp only [hs, if_false] at h
    match inp, h with
    | b :: rest0, h =>
      simp only at h
      have hb256 := UInt8.toNat_lt b
      have hcases : n = 0 ∨ n = 1 ∨ n = 2 ∨ n = 3 := by omega
      have hacc1 : (acc + b.toNat % 128 * 2 ^ (6 + 7 * (3 - n))) % 2 ^ 32 < 2 ^ (34 - 7 * n) := by
        rcases hcases with rfl | rfl | rfl | rfl <;>
          simp only [Nat.reduceAdd, Nat.reduceMul, Nat.reduceSub, Nat.reducePow] at hacc ⊢ <;> omega
      obtain ⟨c1, extra1, hinp, hcl, hws, hall, hval⟩ := ih _ _ _ _ _ _ _ _ _ _ h hacc1
      by_cases hpad : 3 - n = 3 ∧ b.toNat / 16 ≠ 0
      · rw [if_pos hpad] at hws
        refine ⟨b :: c1, Warning.nonZeroIntPadding :: extra1, by simp [hinp], by simp; omega,
          by simp [hws], ?_, ?_⟩
        · intro w hw
          rcases List.mem_cons.mp hw with rfl | hw
          · rfl
          · exact hall w hw
        · intro he; simp at he
      · rw [if_neg hpad] at hws
        refine ⟨b :: c1, extra1, by simp [hinp], by simp; omega, hws, hall, ?_⟩
        intro he
        obtain ⟨hm1, hacc'⟩ := hval he
        have hb16' : n = 0 → b.toNat % 128 < 16 := by
          intro h0; subst h0
          have : ¬ b.toNat / 16 ≠ 0 := fun hh => hpad ⟨rfl, hh⟩
          omega
        have harith := arithStep n hn acc (b.toNat % 128) (tailMag c1) (Nat.mod_lt _ (by decide))
          hb16' hacc hm1
        have e : tailMag (b :: c1) = tailMag c1 * 128 + b.toNat % 128 := by
          simp only [tailMag]; omega
        rw [e, hacc']
        exact harith

theorem tailVal (n : Nat) (hn : n ≤ 4) : TailVal n := by
  induction n with
  | zero => exact tailVal_zero
  | succ n ih => exact tailVal_succ n (by omega) (ih (by omega))

/-- For zero padding bits `readInt` returns the value the format documentation prescribes. -/
theorem readInt_doc (bs : List UInt8) (v : Int) (rest : List UInt8) (ws : List Warning)
    (h : readInt bs = some (v, rest, ws)) (hpad : Warning.nonZeroIntPadding ∉ ws) :
    ∃ c, bs = c ++ rest ∧ v = docValue c := by
  unfold readInt at h
  match bs, h with
  | b0 :: inp, h =>
    simp only at h
    match hrt : readTail 4 (b0.toNat % 64) b0 1 inp [], h with
    | some (acc', src', len', rest', ws1), h =>
      simp only [Option.some.injEq, Prod.mk.injEq] at h
      obtain ⟨hv, hrest, hws⟩ := h
      subst hrest
      have hacc0 : b0.toNat % 64 < 2 ^ (34 - 7 * 4) := by
        simp only [Nat.reduceMul, Nat.reduceSub, Nat.reducePow]; omega
      obtain ⟨c1, extra, hinp, hcl, hws1, hall, hval⟩ :=
        tailVal 4 (by omega) _ _ _ _ _ _ _ _ _ _ hrt hacc0
      simp only [List.nil_append] at hws1
      have hex : extra = [] := by
        cases extra with
        | nil => rfl
        | cons w tl =>
          exfalso; apply hpad
          have hw : w = Warning.nonZeroIntPadding := hall w (by simp)
          rw [← hws, hws1, hw]
          split <;> simp
      obtain ⟨hm, hacc'⟩ := hval hex
      simp only [Nat.reduceMul, Nat.reduceSub, Nat.reducePow] at hm hacc'
      refine ⟨b0 :: c1, by simp [hinp], ?_⟩
      have hmag : docMag (b0 :: c1) = acc' := by simp only [docMag]; omega
      have hu : acc' < 2 ^ 31 := by
        have : tailMag c1 < 33554432 := by omega
        omega
      rw [← hv]
      unfold docValue toI32
      simp only [hmag]
      by_cases h1 : (b0.toNat / 64) % 2 = 1
      · simp only [h1, if_true]
        have e : ((2:Nat) ^ 32 - 1 - acc') % 2 ^ 32 = 2 ^ 32 - 1 - acc' := Nat.mod_eq_of_lt (by omega)
        rw [e]
        split <;> omega
      · simp only [h1, if_false]
        have e : acc' % 2 ^ 32 = acc' := Nat.mod_eq_of_lt (by omega)
        rw [e]
        split <;> omega

end Tw.Packer
