import Tw.Model.Conn7
import Tw.Model.Packet7
import Tw.Proofs.Packet7Write
import Tw.Proofs.Conn7
import Tw.Proofs.ConnSeq

/-!
# C04 ∘ C05 (0.7): the structured packets of the 0.7 connection model on the byte level
(see `ConnWire6.lean`; 0.7 chunk headers have 12 size bits and no duplicated sequence bits)
-/
namespace Tw.Wire7
open Tw.Packet Tw.Packet7

/-- chunk flags byte value: `CHUNKFLAG_VITAL | CHUNKFLAG_RESEND` -/
def flagsOf : Option (Nat × Bool) → Nat
  | none => 0
  | some (_, false) => 1
  | some (_, true) => 3

/-- header bytes of a chunk -/
def encHeader (len : Nat) : Option (Nat × Bool) → List UInt8
  | none => ofNat2 (len / 64, len % 64)
  | some (s, r) =>
    ofNat3 (flagsOf (some (s, r)) * 64 + len / 64, s / 256 * 64 + len % 64, s % 256)

def encChunk (c : Tw.Conn.Chunk) : List UInt8 := encHeader c.data.length c.vital ++ c.data

def encChunks : List Tw.Conn.Chunk → List UInt8
  | [] => []
  | c :: cs => encChunk c ++ encChunks cs

theorem encHeader_length (len : Nat) (v : Option (Nat × Bool)) :
    (encHeader len v).length = Tw.Conn.chunkHeaderSize v.isSome := by
  cases v with
  | none => rfl
  | some x => obtain ⟨s, r⟩ := x; rfl

theorem encChunk_length (c : Tw.Conn.Chunk) : (encChunk c).length = c.size := by
  simp [encChunk, encHeader_length, Tw.Conn.Chunk.size]

theorem encChunks_length (cs : List Tw.Conn.Chunk) : (encChunks cs).length = Tw.Conn.chunksSize cs := by
  induction cs with
  | nil => rfl
  | cons c cs ih => simp [encChunks, Tw.Conn.chunksSize, encChunk_length, ih]

/-- what the code's `write_chunk` appends is `encChunk` -/
theorem writeChunk_enc (c : Tw.Conn.Chunk) (cap : Nat) (acc : List UInt8) (hl : c.data.length < 4096)
    (hs : ∀ s r, c.vital = some (s, r) → s < 1024) (hcap : acc.length + (encChunk c).length ≤ cap) :
    Packet7.writeChunk c.data c.vital cap acc = .ok (acc ++ encChunk c) := by
  obtain ⟨v, d⟩ := c
  simp only at hl hs hcap
  have hsh : ¬ (d.length >>> Tw.Gen.Packet7.CHUNK_SIZE_BITS ≠ 0) := by
    have : Tw.Gen.Packet7.CHUNK_SIZE_BITS = 12 := rfl
    rw [this, Nat.shiftRight_eq_div_pow]
    have : d.length / 2 ^ 12 = 0 := Nat.div_eq_of_lt hl
    omega
  unfold Packet7.writeChunk
  rw [if_neg hsh]
  have hlen : (encChunk ⟨v, d⟩).length = (encHeader d.length v).length + d.length := by simp [encChunk]
  cases v with
  | none =>
    have hp := ch_pack_eq { flags := 0, size := d.length } (by simp) hl
    simp only [Option.getD_none, Option.isSome_none, Bool.false_eq_true, if_false]
    have h0 : (0 ||| 0 : Nat) = 0 := rfl
    have hv : Tw.Gen.Packet7.CHUNKFLAG_VITAL = 1 := rfl
    simp only [h0]
    rw [hp]
    simp only [Option.map_some]
    have e : (0 * 64 + d.length / 64, d.length % 64) = (d.length / 64, d.length % 64) := by simp
    rw [e]
    have hh : (ofNat2 (d.length / 64, d.length % 64)).length = 2 := rfl
    have hh2 : (encHeader d.length none).length = 2 := rfl
    rw [bufWrite_of_le (by rw [hh]; rw [hlen, hh2] at hcap; omega)]
    simp only
    rw [bufWrite_of_le (by simp only [List.length_append, hh]; rw [hlen, hh2] at hcap; omega)]
    simp [encChunk, encHeader, List.append_assoc]
  | some x =>
    obtain ⟨s, r⟩ := x
    have hsq := hs s r rfl
    have hfl : ((if (some (s, r) : Option (Nat × Bool)).isSome = true then Tw.Gen.Packet7.CHUNKFLAG_VITAL else 0) |||
        (if r = true then Tw.Gen.Packet7.CHUNKFLAG_RESEND else 0)) = flagsOf (some (s, r)) := by
      cases r <;> simp [flagsOf, Tw.Gen.Packet7.CHUNKFLAG_VITAL, Tw.Gen.Packet7.CHUNKFLAG_RESEND]
    have hfl4 : flagsOf (some (s, r)) < 4 := by cases r <;> simp [flagsOf]
    have hp := chv_pack_eq { h := { flags := flagsOf (some (s, r)), size := d.length }, sequence := s } hfl4 hl hsq
    simp only [Option.getD_some, Option.isSome_some, if_true]
    simp only [Option.isSome_some, if_true] at hfl
    rw [hfl, hp]
    simp only [Option.map_some]
    have hh : (ofNat3 (flagsOf (some (s, r)) * 64 + d.length / 64, s / 256 * 64 + d.length % 64,
        s % 256)).length = 3 := rfl
    have hh2 : (encHeader d.length (some (s, r))).length = 3 := rfl
    rw [bufWrite_of_le (by rw [hh]; rw [hlen, hh2] at hcap; omega)]
    simp only
    rw [bufWrite_of_le (by simp only [List.length_append, hh]; rw [hlen, hh2] at hcap; omega)]
    simp [encChunk, encHeader, List.append_assoc]

/-! ### reading the chunk back -/

theorem readHeader_nonvital (len : Nat) (hl : len < 4096) (rest : List UInt8) :
    readChunkHeader (UInt8.ofNat (len / 64) :: UInt8.ofNat (len % 64) :: rest) =
      some ({ flags := 0, size := len }, none, []) := by
  unfold readChunkHeader
  simp only
  rw [toNat_ofNat_lt _ (by omega), toNat_ofNat_lt _ (by omega), ch_unpack_eq]
  have e1 : len / 64 / 64 % 4 = 0 := by omega
  have e2 : len / 64 % 64 * 64 + len % 64 % 64 = len := by omega
  have e3 : ¬ (len % 64 / 64 % 4 ≠ 0) := by omega
  simp only [e1, e2, if_neg e3]
  rfl

theorem readHeader_vital (len s : Nat) (r : Bool) (hl : len < 4096) (hs : s < 1024) (rest : List UInt8) :
    readChunkHeader (UInt8.ofNat (flagsOf (some (s, r)) * 64 + len / 64) ::
        UInt8.ofNat (s / 256 * 64 + len % 64) :: UInt8.ofNat (s % 256) :: rest) =
      some ({ flags := flagsOf (some (s, r)), size := len }, some s, []) := by
  have hf : flagsOf (some (s, r)) = 1 ∨ flagsOf (some (s, r)) = 3 := by cases r <;> simp [flagsOf]
  have hf4 : flagsOf (some (s, r)) < 4 := by omega
  obtain ⟨b0, b1, b2, hp, _, _, _, hu⟩ :=
    chv_unpack_pack { h := { flags := flagsOf (some (s, r)), size := len }, sequence := s } hf4 hl hs
  rw [chv_pack_eq _ hf4 hl hs] at hp
  injection hp with hp
  injection hp with h0 hp
  injection hp with h1 h2
  subst h0 h1 h2
  unfold readChunkHeader
  simp only
  rw [toNat_ofNat_lt _ (by omega), toNat_ofNat_lt _ (by omega), toNat_ofNat_lt _ (by omega)]
  rw [ch_unpack_eq]
  simp only
  have e1 : (flagsOf (some (s, r)) * 64 + len / 64) / 64 % 4 = flagsOf (some (s, r)) := by omega
  have hv : flagsOf (some (s, r)) &&& Tw.Gen.Packet7.CHUNKFLAG_VITAL ≠ 0 := by
    rcases hf with hf | hf <;> rw [hf] <;> decide
  rw [e1, if_pos hv, hu]

/-- `ChunksIter::next_warn` on a payload that starts with an encoded chunk: that chunk, no warning -/
theorem next_enc (c : Tw.Conn.Chunk) (hl : c.data.length < 4096) (hs : ∀ s r, c.vital = some (s, r) → s < 1024)
    (rest : List UInt8) (il : Nat) (nr : Int) (ck : Bool) :
    ∃ off, Iter.next codec { data := encChunk c ++ rest, initialLen := il, numRemaining := nr, checked := ck } =
      (some { data := c.data, vital := c.vital, off := off }, [],
       { data := rest, initialLen := il, numRemaining := nr - 1, checked := ck }) := by
  obtain ⟨v, d⟩ := c
  simp only at hl hs
  cases v with
  | none =>
    refine ⟨(il - (encChunk ⟨none, d⟩ ++ rest).length) + 2, ?_⟩
    simp only [encChunk, encHeader, ofNat2, List.cons_append, List.nil_append]
    unfold Iter.next
    simp only [codec, readHeader_nonvital d.length hl]
    simp only [ChunkCodec.hdrLen, Option.isSome_none, Bool.false_eq_true, if_false]
    have h2 : Tw.Gen.Packet7.CHUNK_HEADER_SIZE = 2 := rfl
    simp only [h2, List.drop_succ_cons, List.drop_zero, List.length_append]
    rw [if_neg (by omega)]
    simp [Iter.pos]
  | some x =>
    obtain ⟨s, r⟩ := x
    have hsq := hs s r rfl
    refine ⟨(il - (encChunk ⟨some (s, r), d⟩ ++ rest).length) + 3, ?_⟩
    simp only [encChunk, encHeader, ofNat3, List.cons_append, List.nil_append]
    unfold Iter.next
    simp only [codec, readHeader_vital d.length s r hl hsq]
    simp only [ChunkCodec.hdrLen, Option.isSome_some, if_true]
    have h3 : Tw.Gen.Packet7.CHUNK_HEADER_SIZE_VITAL = 3 := rfl
    simp only [h3, List.drop_succ_cons, List.drop_zero, List.length_append]
    rw [if_neg (by omega)]
    have hr : (decide ¬ flagsOf (some (s, r)) &&& Tw.Gen.Packet7.CHUNKFLAG_RESEND = 0) = r := by
      cases r <;> simp [flagsOf, Tw.Gen.Packet7.CHUNKFLAG_RESEND]
    simp only [Iter.pos, List.length_cons, List.length_append, Option.map_some, ne_eq, hr, List.take_left',
      List.drop_left']
    simp
    exact hr

/-- a chunk the packet writer can encode: payload length below 2^10, sequence below 2^10 -/
def ChunkEnc (c : Tw.Conn.Chunk) : Prop := c.data.length < 4096 ∧ ∀ s r, c.vital = some (s, r) → s < 1024

def proj (ch : Tw.Packet.Chunk) : List UInt8 × Option (Nat × Bool) := (ch.data, ch.vital)
def projC (c : Tw.Conn.Chunk) : List UInt8 × Option (Nat × Bool) := (c.data, c.vital)

/-- **the chunk iterator inverts the chunk writer**: draining the encoded chunk list yields exactly
those chunks (same payload bytes, same vital / sequence / resend information), and the only possible
warning is `ChunksNumChunks` when the header count differs from the number of chunks -/
theorem drain_enc : ∀ (cs : List Tw.Conn.Chunk), (∀ c ∈ cs, ChunkEnc c) →
    ∀ (fuel il : Nat) (nr : Int), cs.length < fuel →
      ∃ chs it', Iter.drainFuel codec fuel { data := encChunks cs, initialLen := il, numRemaining := nr, checked := false } =
          (chs, if nr - cs.length ≠ 0 then [.chunksNumChunks] else [], it', false) ∧
        chs.map proj = cs.map projC := by
  intro cs
  induction cs with
  | nil =>
    intro _ fuel il nr hf
    cases fuel with
    | zero => omega
    | succ fuel =>
      refine ⟨[], { data := [], initialLen := il, numRemaining := nr, checked := true }, ?_, rfl⟩
      simp only [Iter.drainFuel, encChunks, Iter.next, Bool.false_eq_true, if_false, List.length_nil]
      simp
  | cons c cs ih =>
    intro hcs fuel il nr hf
    cases fuel with
    | zero => omega
    | succ fuel =>
      obtain ⟨hl, hs⟩ := hcs c (by simp)
      obtain ⟨off, hn⟩ := next_enc c hl hs (encChunks cs) il nr false
      obtain ⟨chs, it', hd, hm⟩ := ih (fun c' hc' => hcs c' (by simp [hc'])) fuel il (nr - 1) (by simp at hf; omega)
      refine ⟨{ data := c.data, vital := c.vital, off := off } :: chs, it', ?_, ?_⟩
      · simp only [Iter.drainFuel, encChunks, hn, hd, List.nil_append, List.length_cons]
        have : (nr - 1 - (cs.length : Int) ≠ 0) = (nr - ((cs.length + 1 : Nat) : Int) ≠ 0) := by
          apply propext; omega
        simp only [this]
      · simp [proj, projC, hm]

theorem length_le_chunksSize (cs : List Tw.Conn.Chunk) : cs.length ≤ Tw.Conn.chunksSize cs := by
  induction cs with
  | nil => simp [Tw.Conn.chunksSize]
  | cons c cs ih =>
    have : 2 ≤ c.size := by
      simp only [Tw.Conn.Chunk.size, Tw.Conn.chunkHeaderSize]
      split <;> simp [Tw.Gen.Conn.P6.CHUNK_HEADER_SIZE_VITAL, Tw.Gen.Conn.P6.CHUNK_HEADER_SIZE] <;> omega
    simp only [Tw.Conn.chunksSize, List.length_cons]; omega

/-- `ChunksIter::new(payload, num_chunks)` drained: the queued chunks, no warning -/
theorem drain_encChunks (cs : List Tw.Conn.Chunk) (hcs : ∀ c ∈ cs, ChunkEnc c) :
    ∃ chs it', Iter.drain codec (Iter.new (encChunks cs) cs.length) = (chs, [], it', false) ∧
      chs.map proj = cs.map projC := by
  have hf : cs.length < (encChunks cs).length + 1 := by
    rw [encChunks_length]; have := length_le_chunksSize cs; omega
  obtain ⟨chs, it', hd, hm⟩ := drain_enc cs hcs ((encChunks cs).length + 1) (encChunks cs).length cs.length hf
  refine ⟨chs, it', ?_, hm⟩
  simp only [Iter.drain, Iter.new]
  rw [hd]
  simp


/-! ### packets -/

def tok (n : Nat) : Token :=
  ⟨UInt8.ofNat (n / 2 ^ 24), UInt8.ofNat (n / 2 ^ 16), UInt8.ofNat (n / 2 ^ 8), UInt8.ofNat n⟩

/-- a 32-bit token other than `TOKEN_NONE` is not the packet model's `tokenNone` -/
theorem tok_ne_none (n : Nat) (h : n < 2 ^ 32) (hn : n ≠ Tw.Conn7.TOKEN_NONE) : tok n ≠ tokenNone := by
  intro he
  have hN : Tw.Conn7.TOKEN_NONE = 0xffffffff := by decide
  have ht : tokenNone = ⟨255, 255, 255, 255⟩ := by decide
  rw [ht] at he
  simp only [tok, Token.mk.injEq] at he
  obtain ⟨h0, h1, h2, h3⟩ := he
  have f : ∀ x : Nat, UInt8.ofNat x = 255 → x % 256 = 255 := by
    intro x hx
    have := congrArg UInt8.toNat hx
    rw [UInt8.toNat_ofNat'] at this
    simpa using this
  have a0 := f _ h0
  have a1 := f _ h1
  have a2 := f _ h2
  have a3 := f _ h3
  apply hn
  rw [hN]
  omega

def ctl : Tw.Conn7.Control → Packet7.Control
  | .keepAlive => .keepAlive
  | .connect rt => .connect (tok rt)
  | .accept => .accept
  | .close r => .close r
  | .token rt => .token (tok rt)

def toWire : Tw.Conn7.Packet → Packet7.Packet
  | .connless t rt d => .connless d (tok t) (tok rt)
  | .control ack t c => .connected ack (tok t) (.control (ctl c))
  | .chunks ack t rr n cs => .connected ack (tok t) (.chunks rr n (encChunks cs))

/-- response tokens are 32-bit values (the model's tokens are natural numbers) -/
def tokRange : Tw.Conn7.Packet → Prop
  | .control _ _ (.connect rt) => rt < 2 ^ 32
  | .control _ _ (.token rt) => rt < 2 ^ 32
  | _ => True

theorem toWire_valid (p : Tw.Conn7.Packet) (hv : p.valid = true) (hs : p.seqOk) (ht : tokRange p) :
    Packet7.Valid (toWire p) ∧ Packet7.expectedWarnings (toWire p) = [] := by
  cases p with
  | connless t rt d =>
    simp only [Tw.Conn7.Packet.valid, decide_eq_true_eq] at hv
    have e : Tw.Gen.Conn.P7.connlessMax = Tw.Gen.Packet7.CONNLESS_WRITE_LIMIT := rfl
    rw [e] at hv
    exact ⟨hv, rfl⟩
  | control ack t c =>
    have ha : ack < 1024 := hs
    cases c with
    | close r =>
      simp only [Tw.Conn7.Packet.valid, Bool.and_eq_true, decide_eq_true_eq, List.all_eq_true] at hv
      refine ⟨⟨ha, hv.2.1, ?_⟩, rfl⟩
      intro b hb; simpa using hv.2.2 b hb
    | keepAlive => exact ⟨ha, rfl⟩
    | accept => exact ⟨ha, rfl⟩
    | connect rt =>
      simp only [Tw.Conn7.Packet.valid, Tw.Conn7.Packet.writeOk, Bool.and_eq_true, bne_iff_ne, ne_eq] at hv
      exact ⟨⟨ha, tok_ne_none rt ht hv.1.2⟩, rfl⟩
    | token rt =>
      simp only [Tw.Conn7.Packet.valid, Tw.Conn7.Packet.writeOk, Bool.and_eq_true, bne_iff_ne, ne_eq] at hv
      exact ⟨⟨ha, tok_ne_none rt ht hv.1.2⟩, rfl⟩
  | chunks ack t rr n cs =>
    have hw := (Tw.Conn7.valid_wire hv).1
    simp only [Tw.Conn7.Packet.valid, Bool.and_eq_true, decide_eq_true_eq, Bool.or_eq_true] at hv
    obtain ⟨⟨⟨⟨_, hn⟩, hcnt⟩, _⟩, hne⟩ := hv
    refine ⟨⟨hs.1, ?_, ?_⟩, ?_⟩
    · rw [hn]; have : Tw.Conn.maxNumChunks = 255 := rfl; omega
    · simp only [encChunks_length]
      simp only [Tw.Conn7.Packet.wireSize, Tw.Conn.maxPacketSize_eq] at hw
      have h1 : Tw.Gen.Conn.P7.HEADER_SIZE = 7 := rfl
      have h4 : Tw.Gen.Packet7.READ_PAYLOAD_LIMIT = 1393 := rfl
      rw [h1] at hw; rw [h4]; omega
    · simp only [toWire, Packet7.expectedWarnings]
      cases rr with
      | true => rfl
      | false =>
        cases n with
        | zero => rcases hne with hne | hne <;> simp at hne
        | succ n => rfl

theorem chunkEnc_of_valid {ack t : Nat} {rr : Bool} {n : Nat} {cs : List Tw.Conn.Chunk}
    (hv : (Tw.Conn7.Packet.chunks ack t rr n cs).valid = true) (hs : (Tw.Conn7.Packet.chunks ack t rr n cs).seqOk) :
    ∀ c ∈ cs, ChunkEnc c := by
  intro c hc
  simp only [Tw.Conn7.Packet.valid, Bool.and_eq_true, decide_eq_true_eq, List.all_eq_true] at hv
  have := Tw.Conn7.cfg_ok _ (hv.1.2 c hc)
  have h7 : (2 : Nat) ^ Tw.Gen.Conn.P7.CHUNK_SIZE_BITS = 4096 := rfl
  simp only [Tw.Conn7.cfg, h7] at this
  exact ⟨this, fun s r hvv => hs.2 c hc s r hvv⟩

end Tw.Wire7
