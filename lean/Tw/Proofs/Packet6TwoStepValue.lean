import Tw.Proofs.PacketTwoStep
import Tw.Proofs.Packet6Rewrite

/-! The two-step path `decompress_if_needed` → `read_panic_on_decompression` returns what `Packet::read` returns (0.6). -/
namespace Tw.Packet6
open Tw.Packet Tw.PacketBits

/-- the value of a read: the packet or the error, without warnings, slice location and scratch contents;
`none` for `panic` / `diverge` -/
def ReadResult.value : ReadResult → Option (Except ReadError Packet)
  | .ok r => some (.ok r.pkt)
  | .err e _ => some (.error e)
  | .panic _ => none
  | .diverge => none

def bodyValue : Except (ReadError × List Warning) ReadOk → Except ReadError Packet
  | .ok r => .ok r.pkt
  | .error (e, _) => .error e

theorem lift_value (x : Except (ReadError × List Warning) ReadOk) :
    (ReadResult.lift x).value = some (bodyValue x) := by
  cases x with
  | ok r => rfl
  | error e => cases e; rfl

theorem controlValue_src (p : List UInt8) (src src' : Src) (off : Nat) :
    (controlValue p src off).map (·.1) = (controlValue p src' off).map (·.1) := by
  unfold controlValue
  split
  · rfl
  · dsimp only
    repeat (split; rfl)
    rfl

theorem readBodyWith_value_congr (h h' : PacketHeader) (wh wh' : List Warning) (p : List UInt8) (src src' : Src)
    (sc sc' : List UInt8) (b : Bool)
    (hc : (h.flags &&& Tw.Gen.Packet6.PACKETFLAG_CONTROL ≠ 0) ↔ (h'.flags &&& Tw.Gen.Packet6.PACKETFLAG_CONTROL ≠ 0))
    (hr : (h.flags &&& Tw.Gen.Packet6.PACKETFLAG_REQUEST_RESEND ≠ 0) ↔
      (h'.flags &&& Tw.Gen.Packet6.PACKETFLAG_REQUEST_RESEND ≠ 0))
    (ha : h.ack = h'.ack) (hn : h.numChunks = h'.numChunks) :
    bodyValue (readBodyWith h wh p src sc b) = bodyValue (readBodyWith h' wh' p src' sc' b) := by
  have hrd : decide (h.flags &&& Tw.Gen.Packet6.PACKETFLAG_REQUEST_RESEND ≠ 0) =
      decide (h'.flags &&& Tw.Gen.Packet6.PACKETFLAG_REQUEST_RESEND ≠ 0) := by simp only [hr]
  unfold readBodyWith
  by_cases ht : b = true ∧ p.length < Tw.Gen.Packet6.TOKEN_SIZE
  · rw [if_pos ht, if_pos ht]; rfl
  · rw [if_neg ht, if_neg ht]
    dsimp only
    by_cases hcc : h.flags &&& Tw.Gen.Packet6.PACKETFLAG_CONTROL ≠ 0
    · rw [if_pos hcc, if_pos (hc.mp hcc)]
      have hs := controlValue_src (if b = true then List.take (p.length - Tw.Gen.Packet6.TOKEN_SIZE) p else p)
        src src' Tw.Gen.Packet6.HEADER_SIZE
      cases h1 : controlValue (if b = true then List.take (p.length - Tw.Gen.Packet6.TOKEN_SIZE) p else p) src
          Tw.Gen.Packet6.HEADER_SIZE with
      | error e =>
        rw [h1] at hs
        cases h2 : controlValue (if b = true then List.take (p.length - Tw.Gen.Packet6.TOKEN_SIZE) p else p) src'
            Tw.Gen.Packet6.HEADER_SIZE with
        | error e' => rw [h2] at hs; simp only [Except.map] at hs; injection hs with hs; subst hs; rfl
        | ok x => rw [h2] at hs; simp [Except.map] at hs
      | ok x =>
        rw [h1] at hs
        cases h2 : controlValue (if b = true then List.take (p.length - Tw.Gen.Packet6.TOKEN_SIZE) p else p) src'
            Tw.Gen.Packet6.HEADER_SIZE with
        | error e' => rw [h2] at hs; simp [Except.map] at hs
        | ok x' =>
          rw [h2] at hs
          simp only [Except.map, Except.ok.injEq] at hs
          obtain ⟨c, l⟩ := x
          obtain ⟨c', l'⟩ := x'
          simp only at hs
          subst hs
          simp only [bodyValue, ha]
    · rw [if_neg hcc, if_neg (fun x => hcc (hc.mpr x))]
      simp only [bodyValue, ha, hn, hrd]

/-- the value `readBody` returns depends on the header only through the control flag, the resend flag,
the ack and the chunk count — not on the compression flag, the buffer the payload lives in, the scratch
contents or the warnings collected so far -/
theorem readBody_value_congr (h h' : PacketHeader) (wh wh' : List Warning) (p : List UInt8) (src src' : Src)
    (sc sc' : List UInt8) (hint : Option Bool)
    (hc : (h.flags &&& Tw.Gen.Packet6.PACKETFLAG_CONTROL ≠ 0) ↔ (h'.flags &&& Tw.Gen.Packet6.PACKETFLAG_CONTROL ≠ 0))
    (hr : (h.flags &&& Tw.Gen.Packet6.PACKETFLAG_REQUEST_RESEND ≠ 0) ↔
      (h'.flags &&& Tw.Gen.Packet6.PACKETFLAG_REQUEST_RESEND ≠ 0))
    (ha : h.ack = h'.ack) (hn : h.numChunks = h'.numChunks) :
    bodyValue (readBody h wh p src sc hint) = bodyValue (readBody h' wh' p src' sc' hint) := by
  have hcd : decide (h.flags &&& Tw.Gen.Packet6.PACKETFLAG_CONTROL ≠ 0) =
      decide (h'.flags &&& Tw.Gen.Packet6.PACKETFLAG_CONTROL ≠ 0) := by simp only [hc]
  unfold readBody
  by_cases hl : p.length > Tw.Gen.Packet6.READ_PAYLOAD_LIMIT
  · rw [if_pos hl, if_pos hl]; rfl
  · rw [if_neg hl, if_neg hl, hcd, hn]
    exact readBodyWith_value_congr h h' wh wh' p src src' sc sc' _ hc hr ha hn

theorem needsDecompression_cons (b0 b1 b2 : UInt8) (p : List UInt8)
    (h : needsDecompression (b0 :: b1 :: b2 :: p) = true) :
    (b0 :: b1 :: b2 :: p).length ≤ Tw.Gen.Packet6.MAX_PACKETSIZE ∧
    (PacketHeader.unpackWarn b0.toNat b1.toNat b2.toNat).1.flags &&& Tw.Gen.Packet6.PACKETFLAG_CONNLESS = 0 ∧
    (PacketHeader.unpackWarn b0.toNat b1.toNat b2.toNat).1.flags &&& Tw.Gen.Packet6.PACKETFLAG_COMPRESSION ≠ 0 := by
  unfold needsDecompression at h
  split at h
  · simp at h
  · rename_i hl
    simp only [decide_eq_true_eq] at h
    exact ⟨by omega, h.1, h.2⟩

/-- `read_panic_on_decompression` on a datagram of at least three bytes that is not too long -/
theorem read_cons_none (t : Huffman.Table) (b0 b1 b2 : UInt8) (payload0 : List UInt8) (hint : Option Bool)
    (hlen : payload0.length + 3 ≤ Tw.Gen.Packet6.MAX_PACKETSIZE) :
    read t (b0 :: b1 :: b2 :: payload0) hint none =
      if (PacketHeader.unpackWarn b0.toNat b1.toNat b2.toNat).1.flags &&& Tw.Gen.Packet6.PACKETFLAG_CONNLESS ≠ 0 then
        .lift (readConnless (b0 :: b1 :: b2 :: payload0) payload0 (PacketHeader.unpackWarn b0.toNat b1.toNat b2.toNat).2)
      else if (PacketHeader.unpackWarn b0.toNat b1.toNat b2.toNat).1.flags &&& Tw.Gen.Packet6.PACKETFLAG_COMPRESSION ≠ 0 then
        .panic "read_panic_on_decompression called on compressed packet"
      else .lift (readBody (PacketHeader.unpackWarn b0.toNat b1.toNat b2.toNat).1
              (PacketHeader.unpackWarn b0.toNat b1.toNat b2.toNat).2 payload0 .input [] hint) := by
  unfold read
  have h2 : ¬ (b0 :: b1 :: b2 :: payload0).length > Tw.Gen.Packet6.MAX_PACKETSIZE := by
    simp only [List.length_cons]; omega
  simp only [Bool.false_eq_true, if_false, h2]

/-- the header `decompress` writes, unpacked again -/
theorem unpack_fakeHeader (b0 b1 b2 : UInt8) :
    ∃ f0 f1 f2 : UInt8, fakeHeader b0 b1 b2 = [f0, f1, f2] ∧
      PacketHeader.unpackWarn f0.toNat f1.toNat f2.toNat =
        (⟨(PacketHeader.unpackWarn b0.toNat b1.toNat b2.toNat).1.flags &&& (255 - Tw.Gen.Packet6.PACKETFLAG_COMPRESSION),
          (PacketHeader.unpackWarn b0.toNat b1.toNat b2.toNat).1.ack,
          (PacketHeader.unpackWarn b0.toNat b1.toNat b2.toNat).1.numChunks⟩, []) := by
  have hb := unpack_flags_lt b0.toNat b1.toNat b2.toNat (UInt8.toNat_lt b1)
  have hf : (PacketHeader.unpackWarn b0.toNat b1.toNat b2.toNat).1.flags &&&
      (255 - Tw.Gen.Packet6.PACKETFLAG_COMPRESSION) < 16 := Nat.lt_of_le_of_lt Nat.and_le_left hb.1
  have hnc : (PacketHeader.unpackWarn b0.toNat b1.toNat b2.toNat).1.numChunks < 256 := by
    rw [ph_unpack_eq _ _ _ (UInt8.toNat_lt b1)]; exact UInt8.toNat_lt b2
  refine ⟨UInt8.ofNat (((PacketHeader.unpackWarn b0.toNat b1.toNat b2.toNat).1.flags &&&
      (255 - Tw.Gen.Packet6.PACKETFLAG_COMPRESSION)) * 16 + (PacketHeader.unpackWarn b0.toNat b1.toNat b2.toNat).1.ack / 256),
    UInt8.ofNat ((PacketHeader.unpackWarn b0.toNat b1.toNat b2.toNat).1.ack % 256),
    UInt8.ofNat (PacketHeader.unpackWarn b0.toNat b1.toNat b2.toNat).1.numChunks, rfl, ?_⟩
  rw [toNat_ofNat_lt _ (by omega), toNat_ofNat_lt _ (by omega), toNat_ofNat_lt _ hnc,
    ph_unpack_packed ⟨_, _, _⟩ hf hb.2]

theorem and_clear_other (x m k : Nat) (hk : (255 - m) &&& k = k) : (x &&& (255 - m)) &&& k = x &&& k := by
  rw [Nat.and_assoc, hk]

/-- **two-step path (0.6)**: if `decompress_if_needed` decompressed the datagram into `s` (and `s` is not
longer than a packet, which holds for the documented `MAX_PACKETSIZE` buffer), then
`read_panic_on_decompression` on `s` returns the same packet, or the same error, as `Packet::read` on the
datagram — warnings, slice location and scratch contents aside. -/
theorem two_step_value (t : Huffman.Table) (bytes : List UInt8) (cap : Nat) (s : List UInt8)
    (h : decompressIfNeeded t bytes cap = .ok true s) (hs : s.length ≤ Tw.Gen.Packet6.MAX_PACKETSIZE)
    (hint : Option Bool) :
    (read t s hint none).value = (read t bytes hint (some cap)).value := by
  have hH : Tw.Gen.Packet6.HEADER_SIZE = 3 := by decide
  obtain ⟨hcap, hn, hd⟩ := din_cases t bytes cap s h
  match bytes, hn, hd with
  | [], hn, _ => simp [needsDecompression] at hn
  | [_], hn, _ => simp [needsDecompression] at hn
  | [_, _], hn, _ => simp [needsDecompression] at hn
  | b0 :: b1 :: b2 :: payload, hn, hd =>
    obtain ⟨hlen, hconn, hcomp⟩ := needsDecompression_cons b0 b1 b2 payload hn
    have hd' := hd
    rw [decompress_eq t b0 b1 b2 payload cap hcap hn] at hd'
    cases hdec : Huffman.decompress t payload (cap - 3) with
    | capacity => rw [hdec] at hd'; simp at hd'
    | diverge => rw [hdec] at hd'; simp at hd'
    | ok out =>
      rw [hdec] at hd'
      simp only [DecompressResult.ok.injEq] at hd'
      subst hd'
      -- the direct read
      rw [read_cons t b0 b1 b2 payload hint cap hcap (by simp only [List.length_cons] at hlen; omega)]
      rw [if_neg (by simp [hconn]), if_pos hcomp, hd]
      simp only
      have h3 : ¬ (fakeHeader b0 b1 b2 ++ out).length < Tw.Gen.Packet6.HEADER_SIZE := by
        simp [fakeHeader_length, hH]
      rw [if_neg h3, hH, List.drop_left' (fakeHeader_length b0 b1 b2), lift_value]
      -- the two-step read
      obtain ⟨f0, f1, f2, hfk, hun⟩ := unpack_fakeHeader b0 b1 b2
      rw [hfk] at hs ⊢
      simp only [List.cons_append, List.nil_append, List.length_cons] at hs ⊢
      rw [read_cons_none t f0 f1 f2 out hint (by omega), hun]
      have c2 : (255 - Tw.Gen.Packet6.PACKETFLAG_COMPRESSION) &&& Tw.Gen.Packet6.PACKETFLAG_CONNLESS =
          Tw.Gen.Packet6.PACKETFLAG_CONNLESS := by decide
      have c1 : (255 - Tw.Gen.Packet6.PACKETFLAG_COMPRESSION) &&& Tw.Gen.Packet6.PACKETFLAG_CONTROL =
          Tw.Gen.Packet6.PACKETFLAG_CONTROL := by decide
      have c4 : (255 - Tw.Gen.Packet6.PACKETFLAG_COMPRESSION) &&& Tw.Gen.Packet6.PACKETFLAG_REQUEST_RESEND =
          Tw.Gen.Packet6.PACKETFLAG_REQUEST_RESEND := by decide
      have c8 : (255 - Tw.Gen.Packet6.PACKETFLAG_COMPRESSION) &&& Tw.Gen.Packet6.PACKETFLAG_COMPRESSION = 0 := by decide
      simp only
      rw [if_neg (by rw [and_clear_other _ _ _ c2]; simp [hconn]),
        if_neg (by rw [Nat.and_assoc, c8, Nat.and_zero]; simp), lift_value]
      congr 1
      apply readBody_value_congr
      · simp only; rw [and_clear_other _ _ _ c1]
      · simp only; rw [and_clear_other _ _ _ c4]
      · rfl
      · rfl

/-- when nothing has to be decompressed the buffer plays no role: `read_panic_on_decompression` and
`Packet::read` give the same result, warnings included -/
theorem read_none_eq_of_not_compressed (t : Huffman.Table) (bytes : List UInt8) (hint : Option Bool) (cap : Nat)
    (hcap : Tw.Gen.Packet6.MAX_PACKETSIZE ≤ cap) (hn : needsDecompression bytes = false) :
    read t bytes hint none = read t bytes hint (some cap) := by
  by_cases hl : bytes.length > Tw.Gen.Packet6.MAX_PACKETSIZE
  · unfold read
    have h1 : ¬ cap < Tw.Gen.Packet6.MAX_PACKETSIZE := by omega
    simp [hl, h1]
  · match bytes, hn, hl with
    | [], _, _ => unfold read; have h1 : ¬ cap < Tw.Gen.Packet6.MAX_PACKETSIZE := by omega
                  simp [h1]
    | [_], _, _ => unfold read; have h1 : ¬ cap < Tw.Gen.Packet6.MAX_PACKETSIZE := by omega
                   simp [h1]
    | [_, _], _, _ => unfold read; have h1 : ¬ cap < Tw.Gen.Packet6.MAX_PACKETSIZE := by omega
                      simp [h1]
    | b0 :: b1 :: b2 :: payload, hn, hl =>
      have hlen : payload.length + 3 ≤ Tw.Gen.Packet6.MAX_PACKETSIZE := by
        simp only [List.length_cons] at hl; omega
      rw [read_cons_none t b0 b1 b2 payload hint hlen, read_cons t b0 b1 b2 payload hint cap hcap hlen]
      by_cases hc : (PacketHeader.unpackWarn b0.toNat b1.toNat b2.toNat).1.flags &&& Tw.Gen.Packet6.PACKETFLAG_CONNLESS ≠ 0
      · rw [if_pos hc, if_pos hc]
      · rw [if_neg hc, if_neg hc]
        have hz : ¬ ((PacketHeader.unpackWarn b0.toNat b1.toNat b2.toNat).1.flags &&&
            Tw.Gen.Packet6.PACKETFLAG_COMPRESSION ≠ 0) := by
          intro hz
          rw [needsDecompression_of b0 b1 b2 payload hl hc hz] at hn
          simp at hn
        rw [if_neg hz, if_neg hz]

/-- the result when `s` is longer than a packet (possible only with a buffer larger than `MAX_PACKETSIZE`):
both paths refuse, with different error names -/
theorem two_step_too_long (t : Huffman.Table) (bytes : List UInt8) (cap : Nat) (s : List UInt8)
    (h : decompressIfNeeded t bytes cap = .ok true s) (hs : s.length > Tw.Gen.Packet6.MAX_PACKETSIZE)
    (hint : Option Bool) :
    (read t s hint none).value = some (.error .tooLong) ∧
    (read t bytes hint (some cap)).value = some (.error .compression) := by
  have hH : Tw.Gen.Packet6.HEADER_SIZE = 3 := by decide
  have hM : Tw.Gen.Packet6.MAX_PACKETSIZE = 1400 := by decide
  have hL : Tw.Gen.Packet6.READ_PAYLOAD_LIMIT = 1397 := by decide
  refine ⟨?_, ?_⟩
  · unfold read
    simp [hs, ReadResult.value]
  · obtain ⟨hcap, hn, hd⟩ := din_cases t bytes cap s h
    match bytes, hn, hd with
    | [], hn, _ => simp [needsDecompression] at hn
    | [_], hn, _ => simp [needsDecompression] at hn
    | [_, _], hn, _ => simp [needsDecompression] at hn
    | b0 :: b1 :: b2 :: payload, hn, hd =>
      obtain ⟨hlen, hconn, hcomp⟩ := needsDecompression_cons b0 b1 b2 payload hn
      rw [read_cons t b0 b1 b2 payload hint cap hcap (by simp only [List.length_cons] at hlen; omega)]
      rw [if_neg (by simp [hconn]), if_pos hcomp, hd]
      simp only
      have h3 : ¬ s.length < Tw.Gen.Packet6.HEADER_SIZE := by omega
      rw [if_neg h3, lift_value]
      unfold readBody
      rw [if_pos (by simp only [List.length_drop]; omega)]
      rfl

end Tw.Packet6
