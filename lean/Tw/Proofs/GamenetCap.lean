import Tw.Model.GamenetCap
import Tw.Proofs.Gamenet

/-! C14: the unbounded view of `encode` (`encStruct`, `encodeMsg`) and its execution against a
buffer of limited capacity (`Tw/Model/GamenetCap.lean`) agree. -/
namespace Tw.Gamenet
open Tw.Packer (Warning writeInt inI32)

/-- the bytes a step list writes, if it consists of writes only -/
def writesOf : List Step → Option (List UInt8)
  | [] => some []
  | .write bs :: rest => (writesOf rest).map (bs ++ ·)
  | _ :: _ => none

theorem writesOf_append {a b : List Step} {x y : List UInt8} (ha : writesOf a = some x) (hb : writesOf b = some y) :
    writesOf (a ++ b) = some (x ++ y) := by
  induction a generalizing x with
  | nil => simp [writesOf] at ha; subst ha; simpa using hb
  | cons s rest ih =>
    cases s with
    | write bs =>
      simp only [writesOf, Option.map_eq_some_iff] at ha
      obtain ⟨z, hz, rfl⟩ := ha
      simp [writesOf, ih hz]
    | panic _ => simp [writesOf] at ha
    | capacity => simp [writesOf] at ha

theorem runSteps_writes (cap : Nat) : ∀ (steps : List Step) (bs acc : List UInt8), acc.length ≤ cap →
    writesOf steps = some bs →
    runSteps cap steps acc = if acc.length + bs.length ≤ cap then .ok (acc ++ bs) else .capacity := by
  intro steps
  induction steps with
  | nil => intro bs acc ha h; simp [writesOf] at h; subst h; simp [runSteps, ha]
  | cons s rest ih =>
    intro bs acc ha h
    cases s with
    | write b =>
      simp only [writesOf, Option.map_eq_some_iff] at h
      obtain ⟨z, hz, rfl⟩ := h
      simp only [runSteps]
      split
      · rename_i hfit
        rw [ih z (acc ++ b) (by simpa using hfit) hz]
        simp only [List.length_append, List.append_assoc, Nat.add_assoc]
      · rename_i hn
        rw [if_neg]
        simp only [List.length_append]; omega
    | panic _ => simp [writesOf] at h
    | capacity => simp [writesOf] at h

theorem stepsList_ok (f : Val → List Step) (g : Val → Enc) (p : Val → Bool)
    (h : ∀ v bs, g v = .ok bs → p v = true ∧ writesOf (f v) = some bs) :
    ∀ (vs : VL) (bs : List UInt8), encList g vs = .ok bs → VL.all p vs = true ∧ writesOf (stepsList f vs) = some bs
  | .nil, bs, he => by simp [encList] at he; subst he; simp [VL.all, stepsList, writesOf]
  | .cons v vs, bs, he => by
    simp only [encList] at he
    obtain ⟨x, y, hx, hy, rfl⟩ := Enc.seq_ok he
    obtain ⟨hp, hw⟩ := h v x hx
    obtain ⟨hps, hws⟩ := stepsList_ok f g p h vs y hy
    exact ⟨by simp [VL.all, hp, hps], by simp only [stepsList]; exact writesOf_append hw hws⟩

theorem guardWrap_ok {ok : Bool} {e : Enc} {bs : List UInt8} (h : guardWrap ok e = .ok bs) : ok = true ∧ e = .ok bs := by
  cases e <;> cases ok <;> simp [guardWrap] at h ⊢
  exact h

mutual
theorem stepsM_ok : ∀ (t : MT) (v : Val) (bs : List UInt8), encM t v = .ok bs →
    assertM t v = true ∧ writesOf (stepsM t v) = some bs
  | .int32 min max, v, bs, h => by
    cases v with
    | int x =>
      simp only [encM] at h
      split at h
      · simp at h
      · split at h
        · rename_i hc; simp at h; subst h; simp [assertM, hc, stepsM, writesOf]
        · simp at h
    | _ => simp [encM] at h
  | .boolean, v, bs, h => by
    cases v with
    | bool b => simp [encM] at h; subst h; simp [assertM, stepsM, writesOf]
    | _ => simp [encM] at h
  | .enum _ _ _, v, bs, h => by
    cases v with
    | int x =>
      simp only [encM, encInt] at h
      split at h
      · simp at h; subst h; simp [assertM, stepsM, writesOf]
      · simp at h
    | _ => simp [encM] at h
  | .flags _ _, v, bs, h => by
    cases v with
    | int x =>
      simp only [encM, encInt] at h
      split at h
      · simp at h; subst h; simp [assertM, stepsM, writesOf]
      · simp at h
    | _ => simp [encM] at h
  | .tick, v, bs, h => by
    cases v with
    | int x =>
      simp only [encM, encInt] at h
      split at h
      · simp at h; subst h; simp [assertM, stepsM, writesOf]
      · simp at h
    | _ => simp [encM] at h
  | .tuneParam, v, bs, h => by
    cases v with
    | int x =>
      simp only [encM, encInt] at h
      split at h
      · simp at h; subst h; simp [assertM, stepsM, writesOf]
      · simp at h
    | _ => simp [encM] at h
  | .int32String, v, bs, h => by
    cases v with
    | int x =>
      simp only [encM, encInt] at h
      split at h
      · simp at h; subst h; simp [assertM, stepsM, writesOf]
      · simp at h
    | _ => simp [encM] at h
  | .beUint16, v, bs, h => by
    cases v with
    | int x =>
      simp only [encM, encInt] at h
      split at h
      · simp at h; subst h; simp [assertM, stepsM, writesOf]
      · simp at h
    | _ => simp [encM] at h
  | .uint8, v, bs, h => by
    cases v with
    | int x =>
      simp only [encM, encInt] at h
      split at h
      · simp at h; subst h; simp [assertM, stepsM, writesOf]
      · simp at h
    | _ => simp [encM] at h
  | .string strict, v, bs, h => by
    cases v with
    | bytes s =>
      simp only [encM] at h
      split at h
      · simp at h
      · rename_i hc
        split at h
        · simp at h
        · rename_i hn
          simp at h; subst h
          have hc' : (strict && hasControl s) = false := by simpa using hc
          have hn' : hasNul s = false := by simpa using hn
          simp [assertM, hc', stepsM, hn', writesOf]
    | _ => simp [encM] at h
  | .data, v, bs, h => by
    cases v with
    | bytes d =>
      simp only [encM] at h
      split at h
      · rename_i hl; simp at h; subst h; simp [assertM, stepsM, hl, writesOf]
      · simp at h
    | _ => simp [encM] at h
  | .raw _, v, bs, h => by
    cases v with
    | bytes d =>
      simp only [encM] at h
      split at h
      · simp at h; subst h; simp [assertM, stepsM, writesOf]
      · simp at h
    | _ => simp [encM] at h
  | .packedAddresses, v, bs, h => by
    cases v with
    | bytes d =>
      simp only [encM] at h
      split at h
      · simp at h; subst h; simp [assertM, stepsM, writesOf]
      · simp at h
    | _ => simp [encM] at h
  | .rest, v, bs, h => by
    cases v with
    | bytes d => simp [encM] at h; subst h; simp [assertM, stepsM, writesOf]
    | _ => simp [encM] at h
  | .serverinfoClient, v, bs, h => by
    cases v with
    | bytes d => simp [encM] at h; subst h; simp [assertM, stepsM, writesOf]
    | _ => simp [encM] at h
  | .twString n, v, bs, h => by
    cases v with
    | list vs =>
      simp only [encM] at h
      split at h
      · refine ⟨by simp [assertM], ?_⟩
        simp only [stepsM]
        refine (stepsList_ok _ _ (fun _ => true) ?_ vs bs h).2
        intro v bs hv
        cases v with
        | int x =>
          simp only [encInt] at hv
          split at hv
          · simp at hv; subst hv; simp [writesOf]
          · simp at hv
        | _ => simp at hv
      · simp at h
    | _ => simp [encM] at h
  | .optional t, v, bs, h => by
    cases v with
    | none => simp [encM] at h; subst h; simp [assertM, stepsM, writesOf]
    | some x =>
      simp only [encM] at h
      have := stepsM_ok t x bs h
      simpa [assertM, stepsM] using this
    | _ => simp [encM] at h
  | .array n t, v, bs, h => by
    cases v with
    | list vs =>
      simp only [encM] at h
      split at h
      · have := stepsList_ok (stepsM t) (encM t) (assertM t) (fun v bs hv => stepsM_ok t v bs hv) vs bs h
        simpa [assertM, stepsM] using this
      · simp at h
    | _ => simp [encM] at h
  | .object ms, v, bs, h => by
    cases v with
    | list vs =>
      simp only [encM] at h
      obtain ⟨hg, he⟩ := guardWrap_ok h
      obtain ⟨ha, hw⟩ := stepsMs_ok ms vs bs he
      refine ⟨by simp [assertM], ?_⟩
      simp only [stepsM, ha, hg, Bool.and_self, if_true, List.nil_append]
      exact hw
    | _ => simp [encM] at h
theorem stepsMs_ok : ∀ (ms : ML) (vs : VL) (bs : List UInt8), encMs ms vs = .ok bs →
    assertMs ms vs = true ∧ writesOf (stepsMs ms vs) = some bs
  | .nil, vs, bs, h => by
    cases vs with
    | nil => simp [encMs] at h; subst h; simp [assertMs, stepsMs, writesOf]
    | cons _ _ => simp [encMs] at h
  | .cons t ms, vs, bs, h => by
    cases vs with
    | nil => simp [encMs] at h
    | cons v vs =>
      simp only [encMs] at h
      obtain ⟨x, y, hx, hy, rfl⟩ := Enc.seq_ok h
      obtain ⟨ha1, hw1⟩ := stepsM_ok t v x hx
      obtain ⟨ha2, hw2⟩ := stepsMs_ok ms vs y hy
      exact ⟨by simp [assertMs, ha1, ha2], by simp only [stepsMs]; exact writesOf_append hw1 hw2⟩
end

/-- A value that `encode` can write is written completely into every buffer that is large enough,
refused with `CapacityError` by every buffer that is too small, and never panics. -/
theorem encStructCap_of_ok (cap : Nat) (ms : ML) (vs : VL) (bs : List UInt8) (h : encStruct ms vs = .ok bs) :
    encStructCap cap ms vs = if bs.length ≤ cap then .ok bs else .capacity := by
  obtain ⟨hg, he⟩ := guardWrap_ok h
  obtain ⟨ha, hw⟩ := stepsMs_ok ms vs bs he
  have hs : writesOf (structSteps ms vs) = some bs := by
    simp only [structSteps, ha, hg, Bool.and_self, if_true, List.nil_append]; exact hw
  simp only [encStructCap, h]
  rw [if_neg (by simp), runSteps_writes cap _ bs [] (by simp) hs]
  simp

theorem encodeMsgCap_of_ok (cap : Nat) (sys : Bool) (s : Spec) (v : VL) (bs : List UInt8)
    (h : encodeMsg sys s v = .ok bs) :
    encodeMsgCap cap sys s v = if bs.length ≤ cap then .ok bs else .capacity := by
  have h0 := h
  unfold encodeMsg at h
  split at h
  · simp at h
  · rename_i body hnb
    obtain ⟨x, y, hx, hy, rfl⟩ := Enc.seq_ok h
    obtain ⟨hg, he⟩ := guardWrap_ok (show guardWrap (optGuard s.members v) (encMs s.members v) = .ok y from hy)
    obtain ⟨ha, hw⟩ := stepsMs_ok s.members v y he
    have hs : writesOf (idSteps sys s.id ++ structSteps s.members v) = some (x ++ y) := by
      apply writesOf_append
      · simp [idSteps, hx, writesOf]
      · simp only [structSteps, ha, hg, Bool.and_self, if_true, List.nil_append]; exact hw
    simp only [encodeMsgCap, h0]
    rw [if_neg (by simp), runSteps_writes cap _ (x ++ y) [] (by simp) hs]
    simp

end Tw.Gamenet
