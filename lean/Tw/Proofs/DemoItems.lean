import Tw.Proofs.DemoFull
import Tw.Proofs.SnapChain

/-! The objects of a snapshot built by the high-level writer are the objects handed in. -/
namespace Tw.DemoHl
open Tw.Demo Tw.Snap

/-! ### the objects of a snapshot -/

/-- `Snap::type_id` only looks at the raw items -/
def rawTypeOf (r : RawSnap) (t : Nat) : Option (Option TypeId) := (Snap.mk r []).typeId t

theorem typeId_eq_rawTypeOf (s : Snap) (t : Nat) : s.typeId t = rawTypeOf s.raw t := rfl

/-- the typed view of one raw item: `none` for registry items and items of unknown type -/
def viewRaw (r : RawSnap) (p : Int × List Int) : Option Item :=
  match rawTypeOf r (keyType p.1) with
  | some (some tid) => some ⟨tid, keyId p.1, p.2⟩
  | _ => none

theorem itemsLoop_spec (s : Snap) : ∀ (m : Items) (rem : Nat) (l : List (TypeId × Nat × List Int)),
    itemsLoop s m rem = some l →
    l.map (fun (x : TypeId × Nat × List Int) => (⟨x.1, x.2.1, x.2.2⟩ : Item)) = m.filterMap (viewRaw s.raw) := by
  intro m
  induction m with
  | nil => intro rem l h; simp only [itemsLoop, Option.some.injEq] at h; subst h; rfl
  | cons q r ih =>
    obtain ⟨k, d⟩ := q
    intro rem l h
    simp only [itemsLoop] at h
    cases ht : s.typeId (keyType k) with
    | none => simp [ht] at h
    | some o =>
      simp only [ht] at h
      have hv : rawTypeOf s.raw (keyType k) = some o := by rw [← typeId_eq_rawTypeOf]; exact ht
      cases o with
      | none =>
        simp only at h
        rw [List.filterMap_cons]
        simp only [viewRaw, hv]
        exact ih rem l h
      | some tid =>
        simp only at h
        split at h
        · cases h
        · cases hl : itemsLoop s r (rem - 1) with
          | none => simp [hl] at h
          | some l' =>
            simp only [hl, Option.some.injEq] at h
            subst h
            rw [List.filterMap_cons]
            simp only [viewRaw, hv, List.map_cons]
            rw [ih (rem - 1) l' hl]

theorem snapItems_spec (s : Snap) (its : List Item) (h : snapItems s = some its) :
    its = s.raw.items.filterMap (viewRaw s.raw) := by
  unfold snapItems at h
  cases hi : s.items with
  | none => simp [hi] at h
  | some l =>
    simp only [hi, Option.some.injEq] at h
    subst h
    unfold Snap.items at hi
    split at hi
    · cases hi
    · exact itemsLoop_spec s _ _ l hi


attribute [local irreducible] uuidToData keyOf

/-- the raw items are the registry items plus exactly one item for every object of `added` -/
structure TracksRaw (r : RawSnap) (added : List Item) : Prop where
  sound : ∀ p ∈ r.items, keyType p.1 = typeIdEx ∨ ∃ it ∈ added, viewRaw r p = some it
  complete : ∀ it ∈ added, ∃ p ∈ r.items, viewRaw r p = some it

theorem rawTypeOf_minsert (r : RawSnap) (k : Int) (d : List Int) (t : Nat) (hk : keyOf typeIdEx t ≠ k) :
    rawTypeOf ⟨minsert k d r.items⟩ t = rawTypeOf r t := by
  unfold rawTypeOf Snap.typeId RawSnap.item
  simp only [mfind_minsert, hk, if_false]

theorem mem_minsert_of_mem {m : Items} (hs : Sorted m) {k : Int} {d : List Int} (hk : mfind k m = none)
    {p : Int × List Int} (hp : p ∈ m) : p ∈ minsert k d m := by
  have h1 : mfind p.1 m = some p.2 := mfind_of_mem hs hp
  have hne : ¬ p.1 = k := by
    intro e; rw [e, hk] at h1; cases h1
  have : mfind p.1 (minsert k d m) = some p.2 := by rw [mfind_minsert]; simp [hne, h1]
  exact mem_of_mfind this

/-- inserting an item whose key is not the registry key of any existing item's type leaves the views
of the existing items unchanged -/
theorem viewRaw_minsert {r : RawSnap} {k : Int} {d : List Int}
    (hne : ∀ p ∈ r.items, keyOf typeIdEx (keyType p.1) ≠ k) :
    ∀ p ∈ r.items, viewRaw ⟨minsert k d r.items⟩ p = viewRaw r p := by
  intro p hp
  unfold viewRaw
  rw [rawTypeOf_minsert r k d (keyType p.1) (hne p hp)]

/-- inserting a registry item: the tracked objects stay the same -/
theorem tracksRaw_insert_reg {r : RawSnap} {added : List Item} (ht : TracksRaw r added) (hs : Sorted r.items)
    {k : Int} {d : List Int} (hk0 : keyType k = typeIdEx) (hk : mfind k r.items = none)
    (hne : ∀ p ∈ r.items, keyOf typeIdEx (keyType p.1) ≠ k) :
    TracksRaw ⟨minsert k d r.items⟩ added := by
  have hview := viewRaw_minsert (d := d) hne
  constructor
  · intro p hp
    rcases mem_minsert hp with h2 | hp'
    · rw [h2]; exact Or.inl hk0
    · rcases ht.sound p hp' with h | ⟨it, hit, hv⟩
      · exact Or.inl h
      · exact Or.inr ⟨it, hit, by rw [hview p hp']; exact hv⟩
  · intro it hit
    obtain ⟨p, hp, hv⟩ := ht.complete it hit
    exact ⟨p, mem_minsert_of_mem hs hk hp, by rw [hview p hp]; exact hv⟩

theorem viewRaw_of_type (r : RawSnap) (k : Int) (d : List Int) (tid : TypeId)
    (h : rawTypeOf r (keyType k) = some (some tid)) : viewRaw r (k, d) = some ⟨tid, keyId k, d⟩ := by
  simp only [viewRaw, h]

/-- inserting an object's item under a type number that resolves to the object's type -/
theorem tracksRaw_insert_item {r : RawSnap} {added : List Item} (ht : TracksRaw r added) (hs : Sorted r.items)
    {k : Int} {d : List Int} {tid : TypeId} (hk : mfind k r.items = none)
    (hne : ∀ p ∈ r.items, keyOf typeIdEx (keyType p.1) ≠ k)
    (htype : rawTypeOf ⟨minsert k d r.items⟩ (keyType k) = some (some tid)) :
    TracksRaw ⟨minsert k d r.items⟩ (⟨tid, keyId k, d⟩ :: added) := by
  have hview := viewRaw_minsert (d := d) hne
  have hnew := viewRaw_of_type ⟨minsert k d r.items⟩ k d tid htype
  constructor
  · intro p hp
    rcases mem_minsert hp with h2 | hp'
    · rw [h2]; exact Or.inr ⟨_, List.mem_cons_self, hnew⟩
    · rcases ht.sound p hp' with h | ⟨it, hit, hv⟩
      · exact Or.inl h
      · exact Or.inr ⟨it, List.mem_cons_of_mem _ hit, by rw [hview p hp']; exact hv⟩
  · intro it hit
    rcases List.mem_cons.mp hit with h2 | hit'
    · rw [h2]
      refine ⟨(k, d), ?_, hnew⟩
      have : mfind k (minsert k d r.items) = some d := by rw [mfind_minsert, if_pos rfl]
      exact mem_of_mfind this
    · obtain ⟨p, hp, hv⟩ := ht.complete it hit'
      exact ⟨p, mem_minsert_of_mem hs hk hp, by rw [hview p hp]; exact hv⟩


theorem rawSnap_eta (r : RawSnap) : r = ⟨r.items⟩ := by cases r; rfl

theorem rawTypeOf_ordinal (r : RawSnap) {o : Nat} (h0 : 0 < o) (h1 : o < offsetExt) :
    rawTypeOf r o = some (some (.ordinal o)) := by
  unfold rawTypeOf Snap.typeId
  have : ¬ o = typeIdEx := by rw [typeIdEx_eq]; omega
  simp only [this, if_false, h1, if_true]

theorem rawTypeOf_uuid (r : RawSnap) {t : Nat} {u : Int} (ht : offsetExt ≤ t) (hu : IsUuid u)
    (h : mfind (keyOf typeIdEx t) r.items = some (uuidToData u)) :
    rawTypeOf r t = some (some (.uuid u)) := by
  unfold rawTypeOf Snap.typeId RawSnap.item
  have h0 : ¬ t = typeIdEx := by rw [typeIdEx_eq]; rw [offsetExt_eq] at ht; omega
  have h1 : ¬ t < offsetExt := by omega
  simp only [h0, if_false, h1, h, dataToUuid_uuidToData hu]

/-- one accepted `add_item` extends the tracked objects by the object added -/
theorem addItem_tracks {b b' : Builder} {it : Item} {added : List Item} (hb : b.Inv) (hv : it.valid)
    (ht : TracksRaw b.snap.raw added) (h : b.addItem it.tid it.id it.data = some (b', none)) :
    TracksRaw b'.snap.raw (it :: added) := by
  obtain ⟨tid, id, data⟩ := it
  obtain ⟨hvt, hid, _⟩ := hv
  simp only at hvt hid h
  have hsorted : Sorted b.snap.raw.items := hb.ok.raw_wf.1
  obtain ⟨hnr1, hnr2⟩ := hb.next_range
  rw [offsetExt_eq] at hnr1
  cases tid with
  | ordinal o =>
    simp only [Builder.addItem] at h
    by_cases ho : 0 < o ∧ o < offsetExt
    · simp only [ho, and_self, not_true_eq_false, if_false] at h
      cases ha : b.snap.raw.addItem (keyOf o id) data with
      | error e => simp [ha] at h
      | ok raw =>
        simp only [ha, Option.some.injEq, Prod.mk.injEq, and_true] at h
        subst h
        obtain ⟨hitems, hnone⟩ := addItem_ok ha
        have ho' : o < 65536 := by have := ho.2; rw [offsetExt_eq] at this; omega
        have hkt := keyType_keyOf ho' hid
        have hki := keyId_keyOf ho' hid
        have := tracksRaw_insert_item (d := data) (tid := .ordinal o) ht hsorted hnone
          (fun p _ => keyOf_ne_of_type (by rw [typeIdEx_eq]; omega) ho' (keyType_lt _) hid
            (by rw [typeIdEx_eq]; omega))
          (by rw [hkt]; exact rawTypeOf_ordinal _ ho.1 ho.2)
        rw [hki, ← hitems, ← rawSnap_eta] at this
        exact this
    · simp [ho] at h
  | uuid u =>
    have hu : IsUuid u := hvt
    simp only [Builder.addItem] at h
    cases hf : mfind u b.snap.ext with
    | some t =>
      simp only [hf] at h
      obtain ⟨hr1, hr2⟩ := hb.ext_range u t hf
      obtain ⟨_, htl, hreg⟩ := hb.ok.ext_reg u t hf
      rw [offsetExt_eq] at hr1
      cases ha : b.snap.raw.addItem (keyOf t id) data with
      | error e => simp [ha] at h
      | ok raw =>
        simp only [ha, Option.some.injEq, Prod.mk.injEq, and_true] at h
        subst h
        obtain ⟨hitems, hnone⟩ := addItem_ok ha
        have hkt := keyType_keyOf htl hid
        have hki := keyId_keyOf htl hid
        have hne : keyOf typeIdEx t ≠ keyOf t id :=
          keyOf_ne_of_type (by rw [typeIdEx_eq]; omega) htl htl hid (by rw [typeIdEx_eq]; omega)
        have := tracksRaw_insert_item (d := data) (tid := .uuid u) ht hsorted hnone
          (fun p _ => keyOf_ne_of_type (by rw [typeIdEx_eq]; omega) htl (keyType_lt _) hid
            (by rw [typeIdEx_eq]; omega))
          (by
            rw [hkt]
            apply rawTypeOf_uuid _ (by rw [offsetExt_eq]; omega) hu
            show mfind (keyOf typeIdEx t) (minsert (keyOf t id) data b.snap.raw.items) = _
            rw [mfind_minsert, if_neg hne]; exact hreg)
        rw [hki, ← hitems, ← rawSnap_eta] at this
        exact this
    | none =>
      simp only [hf] at h
      have h1 : offsetExt ≤ b.nextTypeId := by rw [offsetExt_eq]; omega
      simp only [h1, not_true_eq_false, if_false] at h
      by_cases hlt : b.nextTypeId < 32768
      · simp only [hlt, not_true_eq_false, if_false] at h
        cases ha1 : b.snap.raw.addItem (keyOf typeIdEx b.nextTypeId) (uuidToData u) with
        | error e => simp [ha1] at h
        | ok raw1 =>
          simp only [ha1] at h
          cases ha2 : raw1.addItem (keyOf b.nextTypeId id) data with
          | error e => simp [ha2] at h
          | ok raw2 =>
            simp only [ha2, Option.some.injEq, Prod.mk.injEq, and_true] at h
            subst h
            obtain ⟨hitems1, hnone1⟩ := addItem_ok ha1
            obtain ⟨hitems2, hnone2⟩ := addItem_ok ha2
            have htl : b.nextTypeId < 65536 := by omega
            have hkt := keyType_keyOf htl hid
            have hki := keyId_keyOf htl hid
            have hne : keyOf typeIdEx b.nextTypeId ≠ keyOf b.nextTypeId id :=
              keyOf_ne_of_type (by rw [typeIdEx_eq]; omega) htl htl hid (by rw [typeIdEx_eq]; omega)
            -- the registry item
            have t1 := tracksRaw_insert_reg (d := uuidToData u) ht hsorted
              (keyType_keyOf (by rw [typeIdEx_eq]; omega) htl) hnone1
              (by
                intro p hp e
                have := congrArg keyId e
                rw [keyId_keyOf (by rw [typeIdEx_eq]; omega) (keyType_lt _),
                  keyId_keyOf (by rw [typeIdEx_eq]; omega) htl] at this
                rcases hb.types p hp with hlow | ⟨u', hu'⟩
                · rw [offsetExt_eq] at hlow; omega
                · have := (hb.ext_range u' _ hu').2; omega)
            rw [← hitems1, ← rawSnap_eta] at t1
            have hs1 : Sorted raw1.items := by rw [hitems1]; exact sorted_minsert hsorted
            have := tracksRaw_insert_item (d := data) (tid := .uuid u) t1 hs1 hnone2
              (fun p _ => keyOf_ne_of_type (by rw [typeIdEx_eq]; omega) htl (keyType_lt _) hid
                (by rw [typeIdEx_eq]; omega))
              (by
                rw [hkt]
                apply rawTypeOf_uuid _ h1 hu
                show mfind (keyOf typeIdEx b.nextTypeId) (minsert (keyOf b.nextTypeId id) data raw1.items) = _
                rw [mfind_minsert, if_neg hne, hitems1, mfind_minsert, if_pos rfl])
            rw [hki, ← hitems2, ← rawSnap_eta] at this
            exact this
      · simp [hlt] at h

theorem addItems_tracks (items : List Item) (hv : ∀ it ∈ items, it.valid) :
    ∀ (b b' : Builder) (added : List Item), b.Inv → TracksRaw b.snap.raw added → addItems b items = .ok b' →
      TracksRaw b'.snap.raw (items.reverse ++ added) := by
  induction items with
  | nil =>
    intro b b' added _ ht h
    simp only [addItems, AddResult.ok.injEq] at h
    subst h; simpa using ht
  | cons it rest ih =>
    intro b b' added hb ht h
    simp only [addItems] at h
    match ha : b.addItem it.tid it.id it.data, h with
    | some (b1, none), h =>
      simp only [] at h
      have hvi := hv it (by simp)
      have hb1 := Builder.addItem_inv hb hvi.1 hvi.2.1 hvi.2.2 ha
      have ht1 := addItem_tracks hb hvi ht ha
      have := ih (fun i hi => hv i (by simp [hi])) b1 b' (it :: added) hb1 ht1 h
      simpa [List.reverse_cons, List.append_assoc] using this

/-- only registry items -/
def Clean (r : RawSnap) : Prop := ∀ p ∈ r.items, keyType p.1 = typeIdEx

theorem tracks_of_clean {r : RawSnap} (h : Clean r) : TracksRaw r [] :=
  ⟨fun p hp => Or.inl (h p hp), fun it hit => by simp at hit⟩

theorem viewRaw_reg (r : RawSnap) (p : Int × List Int) (h : keyType p.1 = typeIdEx) : viewRaw r p = none := by
  unfold viewRaw rawTypeOf Snap.typeId
  simp [h]

/-- The objects the reader reports for a snapshot built from a clean (recycled or new) builder are
exactly the objects handed to `add_item`. -/
theorem built_items {b0 b : Builder} {items its : List Item} (hb0 : b0.Inv) (hc : Clean b0.snap.raw)
    (hv : ∀ it ∈ items, it.valid) (hadd : addItems b0 items = .ok b) (hs : snapItems b.snap = some its) :
    ∀ it, it ∈ its ↔ it ∈ items := by
  have ht := addItems_tracks items hv b0 b [] hb0 (tracks_of_clean hc) hadd
  rw [List.append_nil] at ht
  have hspec := snapItems_spec b.snap its hs
  intro it
  constructor
  · intro hit
    rw [hspec, List.mem_filterMap] at hit
    obtain ⟨p, hp, hvw⟩ := hit
    rcases ht.sound p hp with h0 | ⟨it', hit', hv'⟩
    · rw [viewRaw_reg _ _ h0] at hvw; cases hvw
    · rw [hv'] at hvw; injection hvw with e; subst e
      simpa using hit'
  · intro hit
    obtain ⟨p, hp, hvw⟩ := ht.complete it (by simpa using hit)
    rw [hspec, List.mem_filterMap]
    exact ⟨p, hp, hvw⟩

theorem snapItems_ne_none {s : Snap} (hs : ExtOk s) : snapItems s ≠ none := by
  have hacc : Accepted s := accepted_of_buildFromRaw hs.raw_wf (buildFromRaw_of_extOk hs)
  have := items_ne_none hacc
  unfold snapItems
  cases h : s.items with
  | none => exact absurd h this
  | some l => simp

theorem recycle_clean {b b' : Builder} (hb : b.Inv) (h : b.snap.recycle = some b') : Clean b'.snap.raw := by
  intro p hp
  unfold Snap.recycle at h
  cases hn : recycleNext b.snap.raw.items offsetExt with
  | none => simp [hn] at h
  | some n =>
    simp only [hn] at h
    cases hr : recycleAdd b.snap.ext RawSnap.empty with
    | none => simp [hr] at h
    | some raw =>
      simp only [hr, Option.some.injEq] at h
      subst h
      rcases recycleAdd_items _ _ _ hr p hp with h0 | ⟨q, hq, hk⟩
      · simp [RawSnap.empty] at h0
      · have hm : mfind q.1 b.snap.ext = some q.2 := mfind_of_mem hb.ok.ext_sorted hq
        have hlt : q.2 < 65536 := (hb.ok.ext_reg q.1 q.2 hm).2.1
        rw [hk]
        exact keyType_keyOf (by rw [typeIdEx_eq]; omega) hlt

end Tw.DemoHl
