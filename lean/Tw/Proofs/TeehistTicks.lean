import Tw.Proofs.TeehistSem
import Tw.Model.TeehistorianSpec

/-! Tick structure of the reference semantics: nesting, strictly increasing numbers, and agreement
with the tick numbers of `doc/teehistorian.md` (`Spec.docItemTicks`). -/
namespace Tw.Teehistorian
open Tw.Packer Spec

/-- Reader state vs. state of the nesting check. -/
def InvT (rd : Reader) (st : TS) : Prop :=
  (rd.inTick = true → st.cur = some rd.tick ∧ st.last = rd.tick) ∧
  (rd.inTick = false → st.cur = none ∧ st.last < rd.tick)

/-- The `(tick, implicit_cid)` the documentation's loop will have *after* its implicit-tick step
for a message of kind `k`; invariant under the synthesised items of `Reader.pre`. -/
def docState (rd : Reader) (k : Kind) : Int × Option Int :=
  (rd.tick + (if kindPrevGe rd k then 1 else 0), if kindPrevGe rd k then none else rd.prevCid)

theorem pre_ticks {rd rd' : Reader} {k : Kind} {st : TS} {it : Item} (hI : InvT rd st)
    (h : rd.pre k = .emit it rd') :
    ∃ st', tickStep st it = some st' ∧ isTick it = true ∧ docState rd'.norm k = docState rd k ∧
      (k ≠ .finish → InvT rd'.norm st') ∧ (k = .finish → st'.cur = none ∧ rd'.inTick = false) := by
  by_cases hs : k ≠ .tickSkip ∧ k ≠ .finish ∧ rd.inTick = false
  · obtain ⟨h1, h2, h3⟩ := hs
    rw [pre_start h1 h2 h3] at h
    simp only [Pre.emit.injEq] at h
    obtain ⟨rfl, rfl⟩ := h
    obtain ⟨hc, hl⟩ := hI.2 h3
    refine ⟨⟨some rd.tick, rd.tick⟩, ?_, rfl, rfl, ?_, fun hk => absurd hk h2⟩
    · simp [tickStep, hc, hl]
    · intro _; simp [InvT, Reader.norm]
  · unfold Reader.pre at h
    simp only [hs, if_false] at h
    cases hc : k.playerCid with
    | some cid =>
      rw [hc] at h
      simp only at h
      by_cases hg : prevGe rd.prevCid cid = true
      · simp only [hg, if_true] at h
        by_cases ho : rd.tick + 1 > i32Max
        · simp [ho] at h
        · simp only [ho, if_false, Pre.emit.injEq] at h
          obtain ⟨rfl, rfl⟩ := h
          have hk1 : k ≠ .tickSkip := by cases k <;> simp [Kind.playerCid] at hc <;> simp
          have hk2 : k ≠ .finish := by cases k <;> simp [Kind.playerCid] at hc <;> simp
          have hin : rd.inTick = true := by
            cases h : rd.inTick with
            | true => rfl
            | false => exact absurd ⟨hk1, hk2, h⟩ hs
          obtain ⟨hcur, hl⟩ := hI.1 hin
          have hn : prevGe none cid = false := rfl
          refine ⟨⟨none, st.last⟩, ?_, rfl, ?_, ?_, fun hk => absurd hk hk2⟩
          · simp [tickStep, hcur]
          · simp [docState, kindPrevGe, hc, hg, hn, Reader.norm]
          · intro _; simp only [InvT, Reader.norm]; simp; omega
      · simp [hg] at h
    | none =>
      rw [hc] at h
      simp only at h
      by_cases hf : k = .finish ∧ rd.inTick = true
      · simp only [hf, and_self, if_true, Pre.emit.injEq] at h
        obtain ⟨rfl, rfl⟩ := h
        obtain ⟨hcur, _⟩ := hI.1 hf.2
        refine ⟨⟨none, st.last⟩, ?_, rfl, ?_, fun hk => absurd hf.1 hk, fun _ => ⟨rfl, rfl⟩⟩
        · simp [tickStep, hcur]
        · simp [docState, kindPrevGe, hc, Reader.norm]
      · simp [hf] at h

theorem pre_proceed {rd : Reader} {k : Kind} (h : rd.pre k = .proceed) :
    (k ≠ .tickSkip → k ≠ .finish → rd.inTick = true) ∧ kindPrevGe rd k = false ∧
    (k = .finish → rd.inTick = false) := by
  by_cases hs : k ≠ .tickSkip ∧ k ≠ .finish ∧ rd.inTick = false
  · rw [pre_start hs.1 hs.2.1 hs.2.2] at h; simp at h
  · unfold Reader.pre at h
    simp only [hs, if_false] at h
    have hin : k ≠ .tickSkip → k ≠ .finish → rd.inTick = true := by
      intro h1 h2
      cases hi : rd.inTick with
      | true => rfl
      | false => exact absurd ⟨h1, h2, hi⟩ hs
    cases hc : k.playerCid with
    | some cid =>
      rw [hc] at h
      simp only at h
      by_cases hg : prevGe rd.prevCid cid = true
      · simp only [hg, if_true] at h
        split at h <;> simp at h
      · refine ⟨hin, ?_, ?_⟩
        · simp only [kindPrevGe, hc]; simpa using hg
        · intro hk; subst hk; simp [Kind.playerCid] at hc
    | none =>
      rw [hc] at h
      simp only at h
      refine ⟨hin, by simp [kindPrevGe, hc], ?_⟩
      intro hk
      cases hi : rd.inTick with
      | false => rfl
      | true => simp [hk, hi] at h

theorem invT_norm {rd : Reader} {st : TS} : InvT rd.norm st ↔ InvT rd st := Iff.rfl

theorem docState_norm (rd : Reader) (k : Kind) : docState rd.norm k = docState rd k := rfl

/-- The synthesised items of one item id keep the nesting check happy and do not change what the
documentation's loop computes. -/
theorem preAll_ticks : ∀ (n : Nat) (rd : Reader) (k : Kind) (st : TS),
    (InvT rd st ∨ (k = .finish ∧ rd.inTick = false ∧ st.cur = none)) →
    ∃ st', tickRun st (preAll n rd k).1 = some st' ∧ (preAll n rd k).1.all isTick = true ∧
      match (preAll n rd k).2 with
      | .ready rd' => docState rd' k = docState rd k ∧ rd'.pre k = .proceed ∧
          (k ≠ .finish → InvT rd' st') ∧ (k = .finish → st'.cur = none)
      | _ => True := by
  intro n
  induction n with
  | zero => intro rd k st _; exact ⟨st, rfl, rfl, trivial⟩
  | succ n ih =>
    intro rd k st hI
    unfold preAll
    cases hpre : rd.pre k with
    | err e => exact ⟨st, rfl, rfl, trivial⟩
    | proceed =>
      refine ⟨st, rfl, rfl, rfl, hpre, ?_, ?_⟩
      · intro hk
        cases hI with
        | inl h => exact h
        | inr h => exact absurd h.1 hk
      · intro hk
        cases hI with
        | inl h => exact (h.2 ((pre_proceed hpre).2.2 hk)).1
        | inr h => exact h.2.2
    | emit it rd' =>
      simp only
      cases hI with
      | inr h =>
        -- `Finish` outside a tick: `pre` proceeds, so this case does not arise
        obtain ⟨hk, hin, _⟩ := h
        subst hk
        simp [Reader.pre, hin, Kind.playerCid] at hpre
      | inl hI =>
        obtain ⟨st1, hstep, htick, hdoc, hne, hfin⟩ := pre_ticks hI hpre
        have hI' : InvT rd'.norm st1 ∨ (k = .finish ∧ rd'.norm.inTick = false ∧ st1.cur = none) := by
          by_cases hk : k = .finish
          · exact Or.inr ⟨hk, (hfin hk).2, (hfin hk).1⟩
          · exact Or.inl (hne hk)
        obtain ⟨st', hrun, hall, hrest⟩ := ih rd'.norm k st1 hI'
        simp only [Reader.norm] at hrun hall hrest hdoc
        refine ⟨st', ?_, ?_, ?_⟩
        · simp only [tickRun, hstep]; exact hrun
        · simp only [List.all_cons, htick, Bool.true_and]; exact hall
        · cases hp : (preAll n { rd' with nextKind := none } k).2 with
          | ready rd2 =>
            rw [hp] at hrest
            simp only at hrest ⊢
            exact ⟨by rw [hrest.1, hdoc], hrest.2⟩
          | err e rd2 => trivial
          | stuck => trivial

/-! ### Lists of items -/

theorem tickRun_append (st : TS) (a b : List Item) :
    tickRun st (a ++ b) = match tickRun st a with
      | none => none
      | some st' => tickRun st' b := by
  induction a generalizing st with
  | nil => rfl
  | cons x a ih =>
    simp only [List.cons_append, tickRun]
    cases tickStep st x with
    | none => rfl
    | some st1 => exact ih st1

theorem itemTicks_ticks : ∀ (a b : List Item) (st st' : TS), a.all isTick = true →
    tickRun st a = some st' → itemTicks st.cur (a ++ b) = itemTicks st'.cur b := by
  intro a
  induction a with
  | nil => intro b st st' _ h; simp only [tickRun, Option.some.injEq] at h; subst h; rfl
  | cons x a ih =>
    intro b st st' hall h
    simp only [List.all_cons, Bool.and_eq_true] at hall
    simp only [tickRun] at h
    cases hs : tickStep st x with
    | none => rw [hs] at h; simp at h
    | some st1 =>
      rw [hs] at h
      simp only at h
      cases x with
      | tickStart t =>
        simp only [tickStep] at hs
        split at hs
        · simp only [Option.some.injEq] at hs; subst hs
          simp only [List.cons_append, itemTicks]
          exact ih b _ st' hall.2 h
        · simp at hs
      | tickEnd t =>
        simp only [tickStep] at hs
        split at hs
        · simp only [Option.some.injEq] at hs; subst hs
          simp only [List.cons_append, itemTicks]
          exact ih b _ st' hall.2 h
        · simp at hs
      | _ => simp [isTick] at hall

/-! ### Effect of `Reader.post` -/

theorem post_tickSkip (rd : Reader) (dt : Int) :
    rd.post (.tickSkip dt) =
      if rd.tick + 1 > i32Max ∨ rd.tick + 1 + dt > i32Max then .err .tickOverflow rd
      else if rd.inTick then
        .item (.tickEnd rd.tick) { rd with tick := rd.tick + 1 + dt, prevCid := none, inTick := false }
      else
        .item (.tickStart (rd.tick + 1 + dt)) { rd with tick := rd.tick + 1 + dt, prevCid := none, inTick := true } := by
  simp only [Reader.post, FItem.cid]
  rfl

/-- A reported item other than a tick mark leaves the tick state alone and records the client id
of a player record. -/
theorem post_item_facts {rd rd' : Reader} {it : FItem} {out : Item}
    (h : rd.post it = .item out rd') (hr : ∀ dt, it ≠ .tickSkip dt) :
    isTick out = false ∧ rd'.tick = rd.tick ∧ rd'.inTick = rd.inTick ∧
    rd'.prevCid = (match msgKind it with | .player c => some c | _ => rd.prevCid) := by
  unfold Reader.post at h
  cases it with
  | tickSkip dt => exact absurd rfl (hr dt)
  | finish => simp at h
  | other o =>
    simp only [Post.item.injEq] at h
    obtain ⟨rfl, rfl⟩ := h
    refine ⟨rfl, ?_, ?_, ?_⟩ <;> (simp only [FItem.cid]; split <;> rfl)
  | playerDiff c dx dy =>
    simp only [FItem.cid] at h
    repeat' split at h
    all_goals first
      | (simp at h; done)
      | (simp only [Post.item.injEq] at h; obtain ⟨rfl, rfl⟩ := h; exact ⟨rfl, rfl, rfl, rfl⟩)
  | playerNew c x y =>
    simp only [FItem.cid] at h
    repeat' split at h
    all_goals first
      | (simp at h; done)
      | (simp only [Post.item.injEq] at h; obtain ⟨rfl, rfl⟩ := h; exact ⟨rfl, rfl, rfl, rfl⟩)
  | playerOld c =>
    simp only [FItem.cid] at h
    repeat' split at h
    all_goals first
      | (simp at h; done)
      | (simp only [Post.item.injEq] at h; obtain ⟨rfl, rfl⟩ := h; exact ⟨rfl, rfl, rfl, rfl⟩)
  | inputDiff c d =>
    simp only [FItem.cid] at h
    repeat' split at h
    all_goals first
      | (simp at h; done)
      | (simp only [Post.item.injEq] at h; obtain ⟨rfl, rfl⟩ := h; exact ⟨rfl, rfl, rfl, rfl⟩)
  | inputNew c v =>
    simp only [FItem.cid] at h
    repeat' split at h
    all_goals first
      | (simp at h; done)
      | (simp only [Post.item.injEq] at h; obtain ⟨rfl, rfl⟩ := h; exact ⟨rfl, rfl, rfl, rfl⟩)

/-- How a well-formed record's kind and item are related, by class of message. -/
theorem recwf_class {k : Kind} {it : FItem} (h : itemMatches k it) :
    match msgKind it with
    | .tickSkip dt => k = .tickSkip ∧ 0 ≤ dt ∧ it = .tickSkip dt
    | .player c => k.playerCid = some c ∧ k ≠ .tickSkip ∧ k ≠ .finish ∧ (∀ dt, it ≠ .tickSkip dt) ∧ it ≠ .finish
    | .finish => k = .finish ∧ it = .finish
    | .other => k.playerCid = none ∧ k ≠ .tickSkip ∧ k ≠ .finish ∧ (∀ dt, it ≠ .tickSkip dt) ∧ it ≠ .finish := by
  cases k <;> cases it <;> simp [itemMatches, msgKind, Kind.playerCid] at h ⊢ <;> first
    | exact h
    | omega

/-! ### The theorem -/

theorem interp_ticks (cfg : Cfg) : ∀ (rs : List Rec) (t : Tail) (rd : Reader) (st : TS),
    (∀ r ∈ rs, RecWf r) → InvT rd st →
    ∃ st', tickRun st (interp cfg rd rs t).items = some st' ∧
      ((interp cfg rd rs t).final = .finished → st'.cur = none) ∧
      (itemTicks st.cur (interp cfg rd rs t).items <+:
        (docItemTicks rd.tick rd.prevCid (rs.map fun r => msgKind r.item)).map some) ∧
      ((interp cfg rd rs t).final = .finished →
        itemTicks st.cur (interp cfg rd rs t).items =
          (docItemTicks rd.tick rd.prevCid (rs.map fun r => msgKind r.item)).map some) := by
  intro rs
  induction rs with
  | nil =>
    intro t rd st _ hI
    -- only synthesised items (if any), and the final result is an error
    have key : ∀ k, ∃ st', tickRun st (preAll 4 rd k).1 = some st' ∧
        itemTicks st.cur (preAll 4 rd k).1 = [] := by
      intro k
      obtain ⟨st', hrun, hall, _⟩ := preAll_ticks 4 rd k st (Or.inl hI)
      refine ⟨st', hrun, ?_⟩
      have := itemTicks_ticks _ [] st st' hall hrun
      simpa [itemTicks] using this
    unfold interp
    cases t with
    | afterFinish => exact ⟨st, rfl, by simp, by simp [itemTicks], by simp⟩
    | outOfFuel => exact ⟨st, rfl, by simp, by simp [itemTicks], by simp⟩
    | kindEnd => exact ⟨st, rfl, by simp, by simp [itemTicks], by simp⟩
    | kindErr e => exact ⟨st, rfl, by simp, by simp [itemTicks], by simp⟩
    | restEnd k =>
      obtain ⟨st', hrun, hit⟩ := key k
      cases hp : preAll 4 rd k with
      | mk its pe =>
        rw [hp] at hrun hit
        simp only at hrun hit
        cases pe <;> simp only [hp] <;> exact ⟨st', hrun, by simp, by simp [hit], by simp⟩
    | restErr k e =>
      obtain ⟨st', hrun, hit⟩ := key k
      cases hp : preAll 4 rd k with
      | mk its pe =>
        rw [hp] at hrun hit
        simp only at hrun hit
        cases pe <;> simp only [hp] <;> exact ⟨st', hrun, by simp, by simp [hit], by simp⟩
  | cons r rs ih =>
    intro t rd st hwf hI
    have hr : RecWf r := hwf r (List.mem_cons_self ..)
    have hwf' : ∀ r' ∈ rs, RecWf r' := fun r' h => hwf r' (List.mem_cons_of_mem _ h)
    obtain ⟨st1, hrun1, hall1, hrest1⟩ := preAll_ticks 4 rd r.kind st (Or.inl hI)
    have hit1 : ∀ b, itemTicks st.cur ((preAll 4 rd r.kind).1 ++ b) = itemTicks st1.cur b :=
      fun b => itemTicks_ticks _ b st st1 hall1 hrun1
    have hit0 : itemTicks st.cur (preAll 4 rd r.kind).1 = [] := by
      have := hit1 []; simpa [itemTicks] using this
    unfold interp
    cases hp : preAll 4 rd r.kind with
    | mk its pe =>
      rw [hp] at hrun1 hall1 hrest1 hit1 hit0
      simp only at hrun1 hall1 hrest1 hit1 hit0
      cases pe with
      | stuck => exact ⟨st1, hrun1, by simp, by simp [hit0], by simp⟩
      | err e rd2 => exact ⟨st1, hrun1, by simp, by simp [hit0], by simp⟩
      | ready rd2 =>
        simp only at hrest1 ⊢
        obtain ⟨hdoc, hpro, hne, hfin⟩ := hrest1
        obtain ⟨hin2, hg2, _⟩ := pre_proceed hpro
        -- `docState rd2 = (rd2.tick, rd2.prevCid)` because `pre` proceeds
        have hd2 : docState rd2 r.kind = (rd2.tick, rd2.prevCid) := by simp [docState, hg2]
        rw [hd2] at hdoc
        have hcls := recwf_class hr
        simp only [List.map_cons]
        cases hm : msgKind r.item with
        | finish =>
          rw [hm] at hcls
          obtain ⟨hk, hi⟩ := hcls
          obtain ⟨rd3, hpost⟩ := post_finish rd2
          rw [hi, hpost]
          simp only [docItemTicks, List.map_nil]
          exact ⟨st1, hrun1, fun _ => hfin hk, by simp [hit0], fun _ => hit0⟩
        | tickSkip dt =>
          rw [hm] at hcls
          obtain ⟨hk, hdt, hi⟩ := hcls
          have hkn : r.kind ≠ .finish := by rw [hk]; simp
          have hI2 := hne hkn
          rw [hi, post_tickSkip]
          have hg : kindPrevGe rd r.kind = false := by rw [hk]; rfl
          simp only [docState, hg, Bool.false_eq_true, if_false, Int.add_zero, Prod.mk.injEq] at hdoc
          simp only [docItemTicks]
          by_cases ho : rd2.tick + 1 > i32Max ∨ rd2.tick + 1 + dt > i32Max
          · simp only [ho, if_true]
            exact ⟨st1, hrun1, by simp, by simp [hit0], by simp⟩
          · simp only [ho, if_false]
            cases hin : rd2.inTick with
            | true =>
              obtain ⟨hc, hl⟩ := hI2.1 hin
              simp only [if_true]
              have hI3 : InvT { rd2 with tick := rd2.tick + 1 + dt, prevCid := none, inTick := false } ⟨none, st1.last⟩ := by
                simp only [InvT]; simp; omega
              obtain ⟨st', hr', hf', hp', he'⟩ := ih t _ _ hwf' hI3
              simp only at hr' hf' hp' he'
              rw [← hdoc.1, show rd2.tick + (dt + 1) = rd2.tick + 1 + dt by omega]
              refine ⟨st', ?_, hf', ?_, ?_⟩
              · rw [tickRun_append, hrun1]
                simp only [tickRun, tickStep, hc, if_true]
                exact hr'
              · rw [hit1]; simp only [itemTicks]; exact hp'
              · intro h; rw [hit1]; simp only [itemTicks]; exact he' h
            | false =>
              obtain ⟨hc, hl⟩ := hI2.2 hin
              simp only [Bool.false_eq_true, if_false]
              have hI3 : InvT { rd2 with tick := rd2.tick + 1 + dt, prevCid := none, inTick := true }
                  ⟨some (rd2.tick + 1 + dt), rd2.tick + 1 + dt⟩ := by
                simp only [InvT]; simp
              obtain ⟨st', hr', hf', hp', he'⟩ := ih t _ _ hwf' hI3
              simp only at hr' hf' hp' he'
              rw [← hdoc.1, show rd2.tick + (dt + 1) = rd2.tick + 1 + dt by omega]
              refine ⟨st', ?_, hf', ?_, ?_⟩
              · rw [tickRun_append, hrun1]
                have : st1.last < rd2.tick + 1 + dt := by omega
                simp only [tickRun, tickStep, hc, this, and_self, if_true]
                exact hr'
              · rw [hit1]; simp only [itemTicks]; exact hp'
              · intro h; rw [hit1]; simp only [itemTicks]; exact he' h
        | player c =>
          rw [hm] at hcls
          obtain ⟨hkc, hk1, hk2, hnts, hnf⟩ := hcls
          have hI2 := hne hk2
          have hin := hin2 hk1 hk2
          obtain ⟨hc, hl⟩ := hI2.1 hin
          -- the documentation's tick for this message is the reader's current tick
          have h2 : rd2.tick = rd.tick + if prevGe rd.prevCid c = true then 1 else 0 := by
            have := congrArg Prod.fst hdoc
            simpa [docState, kindPrevGe, hkc] using this
          have hdocl : ∀ L, docItemTicks rd.tick rd.prevCid (MsgKind.player c :: L) =
              rd2.tick :: docItemTicks rd2.tick (some c) L := by
            intro L
            simp only [docItemTicks]
            cases hpv : rd.prevCid with
            | none => rw [hpv] at h2; simp [prevGe] at h2; simp [h2]
            | some ic =>
              rw [hpv] at h2
              by_cases h : c ≤ ic <;> simp [prevGe, h] at h2 ⊢ <;> simp [h2]
          simp only [hdocl, List.map_cons]
          cases hpost : rd2.post r.item with
          | finished rd3 => exact ⟨st1, hrun1, fun _ => by
              -- a player record never finishes the stream
              exfalso
              unfold Reader.post at hpost
              cases hi : r.item <;> rw [hi] at hpost hm <;> simp [msgKind] at hm <;>
                (simp only [FItem.cid] at hpost; repeat' split at hpost) <;> simp at hpost,
              by simp [hit0], fun _ => by
              exfalso
              unfold Reader.post at hpost
              cases hi : r.item <;> rw [hi] at hpost hm <;> simp [msgKind] at hm <;>
                (simp only [FItem.cid] at hpost; repeat' split at hpost) <;> simp at hpost⟩
          | err e rd3 => exact ⟨st1, hrun1, by simp, by simp [hit0], by simp⟩
          | item out rd3 =>
            obtain ⟨hnt, ht3, hin3, hp3⟩ := post_item_facts hpost hnts
            rw [hm] at hp3
            simp only at hp3
            have hI3 : InvT rd3 st1 := by
              simp only [InvT, ht3, hin3]; exact hI2
            obtain ⟨st', hr', hf', hp', he'⟩ := ih t rd3 st1 hwf' hI3
            rw [ht3, hp3, hc] at hp' he'
            simp only
            have hstep : tickStep st1 out = some st1 := by
              cases out <;> simp [isTick] at hnt <;> simp [tickStep, hc]
            have hitout : ∀ b, itemTicks st1.cur (out :: b) = st1.cur :: itemTicks st1.cur b := by
              intro b; cases out <;> simp [isTick] at hnt <;> rfl
            refine ⟨st', ?_, hf', ?_, ?_⟩
            · rw [tickRun_append, hrun1]; simp only [tickRun, hstep]; exact hr'
            · rw [hit1, hitout, hc]
              exact List.prefix_cons_inj _ |>.mpr hp'
            · intro h; rw [hit1, hitout, hc, he' h]
        | other =>
          rw [hm] at hcls
          obtain ⟨hkc, hk1, hk2, hnts, hnf⟩ := hcls
          have hI2 := hne hk2
          have hin := hin2 hk1 hk2
          obtain ⟨hc, hl⟩ := hI2.1 hin
          have hg : kindPrevGe rd r.kind = false := by simp [kindPrevGe, hkc]
          simp only [docState, hg, Bool.false_eq_true, if_false, Int.add_zero, Prod.mk.injEq] at hdoc
          simp only [docItemTicks, List.map_cons]
          cases hpost : rd2.post r.item with
          | finished rd3 =>
            exfalso
            unfold Reader.post at hpost
            cases hi : r.item <;> rw [hi] at hpost hm <;> simp [msgKind] at hm <;>
              (simp only [FItem.cid] at hpost; repeat' split at hpost) <;> simp at hpost
          | err e rd3 => exact ⟨st1, hrun1, by simp, by simp [hit0], by simp⟩
          | item out rd3 =>
            obtain ⟨hnt, ht3, hin3, hp3⟩ := post_item_facts hpost hnts
            rw [hm] at hp3
            simp only at hp3
            have hI3 : InvT rd3 st1 := by
              simp only [InvT, ht3, hin3]; exact hI2
            obtain ⟨st', hr', hf', hp', he'⟩ := ih t rd3 st1 hwf' hI3
            rw [ht3, hp3, hc] at hp' he'
            rw [← hdoc.1, ← hdoc.2]
            simp only
            have hstep : tickStep st1 out = some st1 := by
              cases out <;> simp [isTick] at hnt <;> simp [tickStep, hc]
            have hitout : ∀ b, itemTicks st1.cur (out :: b) = st1.cur :: itemTicks st1.cur b := by
              intro b; cases out <;> simp [isTick] at hnt <;> rfl
            refine ⟨st', ?_, hf', ?_, ?_⟩
            · rw [tickRun_append, hrun1]; simp only [tickRun, hstep]; exact hr'
            · rw [hit1, hitout, hc]
              exact List.prefix_cons_inj _ |>.mpr hp'
            · intro h; rw [hit1, hitout, hc, he' h]

end Tw.Teehistorian
