import Tw.Proofs.HuffmanRefC

/-! Whenever `CHuffman::Decompress` (model `refDecompress`: lookup table, 32-bit bit buffer with its
unsigned wrap-around, "no more bits" error) decodes an input successfully, the Rust decoder (model
`decompress`) returns the same bytes. -/
namespace Tw.Huffman

/-! ### the Rust decoder on an explicit bit list followed by endless zeros -/

def run (t : Table) (cap : Nat) (nd : Nat) (out : List UInt8) (L : List Bool) : DecResult :=
  match decBits t cap nd out L with
  | .fin r => r
  | .more nd' out' => decZeros t cap (zeroFuel cap) nd' out'

theorem decompress_eq_run (t : Table) (input : List UInt8) (cap : Nat) :
    decompress t input cap = run t cap ROOT_IDX [] (input.flatMap byteBits) := rfl

theorem decStep_inv (t : Table) (h : WellFormed t) (cap nd : Nat) (out : List UInt8) (b : Bool)
    (hi : Inner nd) (hl : out.length ≤ cap) (nd' : Nat) (out' : List UInt8)
    (hs : decStep t cap nd out b = .cont nd' out') : Inner nd' ∧ out'.length ≤ cap := by
  have hlt := h.child_lt hi.1 hi.2 b
  rcases decStep_cases t cap nd out b with ⟨hge, hs'⟩ | ⟨_, hs'⟩ | ⟨_, _, hs'⟩ | ⟨_, hc, hs'⟩ <;>
    rw [hs'] at hs <;> cases hs
  · exact ⟨⟨hge, by have := hi.2; omega⟩, hl⟩
  · exact ⟨inner_root, by simp; omega⟩

theorem zeroFuel_pos (cap : Nat) : ∃ f, zeroFuel cap = f + 1 := by
  refine ⟨zeroFuel cap - 1, ?_⟩
  have : zeroFuel cap = 514 * (cap + 2) := by simp [zeroFuel, NUM_NODES, Nat.mul_comm]
  omega

/-- one step of the zero tail with the fuel unchanged -/
theorem decZeros_step (t : Table) (h : WellFormed t) (cap nd : Nat) (out : List UInt8)
    (hi : Inner nd) (hl : out.length ≤ cap) :
    decZeros t cap (zeroFuel cap) nd out =
      match decStep t cap nd out false with
      | .cont nd' out' => decZeros t cap (zeroFuel cap) nd' out'
      | .done out' => .ok out'.reverse
      | .capacity => .capacity := by
  obtain ⟨f, hf⟩ := zeroFuel_pos cap
  have hterm : decZeros t cap (zeroFuel cap) nd out ≠ .diverge := by
    apply decZeros_terminates t h cap _ nd out hi hl
    have h2 : nd < 513 := hi.2
    have e : zeroFuel cap = 514 * (cap + 2) := by simp [zeroFuel, NUM_NODES, Nat.mul_comm]
    rw [e]; omega
  rw [hf] at hterm ⊢
  rw [decZeros] at hterm
  conv => lhs; rw [decZeros]
  revert hterm
  generalize decStep t cap nd out false = r
  cases r with
  | cont nd' out' =>
    intro hterm
    exact (decZeros_fuel_mono t cap f (f + 1) nd' out' (by omega) hterm).symm
  | done o => intro _; rfl
  | capacity => intro _; rfl

theorem run_zeros (t : Table) (h : WellFormed t) (cap k : Nat) :
    ∀ (nd : Nat) (out : List UInt8), Inner nd → out.length ≤ cap →
      run t cap nd out (List.replicate k false) = run t cap nd out [] := by
  induction k with
  | zero => intro nd out _ _; rfl
  | succ k ih =>
    intro nd out hi hl
    have hstep := decZeros_step t h cap nd out hi hl
    simp only [run, List.replicate_succ, decBits] at ih ⊢
    rw [hstep]
    cases hr : decStep t cap nd out false with
    | cont nd' out' =>
      obtain ⟨hi', hl'⟩ := decStep_inv t h cap nd out false hi hl nd' out' hr
      exact ih nd' out' hi' hl'
    | done o => rfl
    | capacity => rfl

theorem run_append_zeros (t : Table) (h : WellFormed t) (cap k : Nat) (L : List Bool) :
    ∀ (nd : Nat) (out : List UInt8), Inner nd → out.length ≤ cap →
      run t cap nd out (L ++ List.replicate k false) = run t cap nd out L := by
  induction L with
  | nil => intro nd out hi hl; simpa using run_zeros t h cap k nd out hi hl
  | cons b bs ih =>
    intro nd out hi hl
    simp only [run, List.cons_append, decBits] at ih ⊢
    cases hr : decStep t cap nd out b with
    | cont nd' out' =>
      obtain ⟨hi', hl'⟩ := decStep_inv t h cap nd out b hi hl nd' out' hr
      exact ih nd' out' hi' hl'
    | done o => rfl
    | capacity => rfl

theorem run_walk (t : Table) (cap : Nat) (p : List Bool) (nd : Nat) (out : List UInt8)
    (rest : List Bool) (s : Nat) (hw : walk t nd p = some s) :
    run t cap nd out (p ++ rest) =
      if s = EOF then .ok out.reverse
      else if out.length ≥ cap then .capacity
      else run t cap ROOT_IDX (UInt8.ofNat s :: out) rest := by
  simp only [run, walk_decBits t cap p nd out rest s hw]
  by_cases h1 : s = EOF
  · simp [h1]
  · by_cases h2 : out.length ≥ cap
    · simp [h1, h2]
    · simp [h1, h2]

/-! ### the reference's bit buffer as a bit list -/

/-- `(Bits, Bitcount, pSrc..pSrcEnd)` represents the explicit bit list `L` (followed by endless
zeros): either the buffer is in its normal state, or the input is exhausted and `Bitcount` has
wrapped around (its value is then meaningless, `Bits` is 0). -/
def Rep (bits bc : Nat) (src : List UInt8) (L : List Bool) : Prop :=
  (bc ≤ 32 ∧ bits < 2 ^ bc ∧ L = natBits bc bits ++ src.flatMap byteBits)
    ∨ (bits = 0 ∧ src = [] ∧ L = [])

theorem natBits_of_lt (k n : Nat) (h : n < 2 ^ k) : bitsToNat (natBits k n) = n := by
  rw [bitsToNat_natBits, Nat.mod_eq_of_lt h]

theorem natBits_mod (d m x : Nat) (h : d ≤ m) : natBits d (x % 2 ^ m) = natBits d x := by
  have h1 := natBits_self (natBits d (x % 2 ^ m))
  have h2 := natBits_self (natBits d x)
  rw [natBits_length, bitsToNat_natBits] at h1 h2
  have : x % 2 ^ m % 2 ^ d = x % 2 ^ d := Nat.mod_mod_of_dvd _ (Nat.pow_dvd_pow 2 h)
  rw [this] at h1
  rw [← h1, ← h2]

theorem byteBits_val (b : UInt8) : bitsToNat (byteBits b) = b.toNat := by
  simp only [byteBits]
  exact natBits_of_lt 8 _ b.toNat_lt

theorem refFill_spec (src : List UInt8) :
    ∀ (bits bc : Nat) (L : List Bool), Rep bits bc src L →
      Rep (refFill bits bc src).1 (refFill bits bc src).2.1 (refFill bits bc src).2.2 L
        ∧ ((refFill bits bc src).2.1 ≥ 24 ∨ (refFill bits bc src).2.2 = [])
        ∧ (bc ≥ 10 → (refFill bits bc src).1 % 1024 = bits % 1024) := by
  induction src with
  | nil => intro bits bc L h; simp [refFill, h]
  | cons b src ih =>
    intro bits bc L h
    rcases h with ⟨h1, h2, h3⟩ | ⟨_, h2, _⟩
    · by_cases hc : bc < 24
      · simp only [refFill, hc, if_true]
        have hval : bits ||| (b.toNat <<< bc) = bitsToNat (natBits bc bits ++ byteBits b) := by
          rw [Nat.or_comm, ← Nat.shiftLeft_add_eq_or_of_lt h2, Nat.shiftLeft_eq, bitsToNat_append,
            natBits_of_lt bc bits h2, byteBits_val, natBits_length, Nat.add_comm, Nat.mul_comm]
        have hlen : (natBits bc bits ++ byteBits b).length = bc + 8 := by simp [byteBits]
        have hlt := bitsToNat_lt (natBits bc bits ++ byteBits b)
        rw [hlen] at hlt
        have hrep : Rep (bits ||| (b.toNat <<< bc)) (bc + 8) src L := by
          left
          refine ⟨by omega, by rw [hval]; exact hlt, ?_⟩
          rw [hval, ← hlen, natBits_self, h3]
          simp
        obtain ⟨i1, i2, i3⟩ := ih _ _ L hrep
        refine ⟨i1, i2, ?_⟩
        intro h10
        rw [i3 (by omega), hval, bitsToNat_append, natBits_of_lt bc bits h2, natBits_length]
        have : 2 ^ bc = 1024 * 2 ^ (bc - 10) := by
          rw [show (1024 : Nat) = 2 ^ 10 by rfl, ← Nat.pow_add]; congr 1; omega
        rw [this, Nat.mul_assoc, Nat.add_mul_mod_self_left]
      · simp only [refFill, hc, if_false]
        exact ⟨Or.inl ⟨h1, h2, h3⟩, Or.inl (by omega), fun _ => trivial⟩
    · cases h2

/-! ### the lookup table -/

theorem lutWalk_spec (t : Table) (k : Nat) :
    ∀ (nd v : Nat), NUM_SYMBOLS ≤ nd →
      (lutWalk t k nd v < NUM_SYMBOLS →
        1 ≤ lutDepth t k nd v ∧ lutDepth t k nd v ≤ k ∧
          walk t nd (natBits (lutDepth t k nd v) v) = some (lutWalk t k nd v))
      ∧ (NUM_SYMBOLS ≤ lutWalk t k nd v →
          ∀ p, walk t nd (natBits k v ++ p) = walk t (lutWalk t k nd v) p) := by
  induction k with
  | zero =>
    intro nd v hnd
    simp only [lutWalk, lutWalkF, lutDepth, lutDepthF, natBits, List.nil_append]
    exact ⟨fun h => by omega, fun _ _ => trivial⟩
  | succ k ih =>
    intro nd v hnd
    simp only [lutWalk, lutWalkF, lutDepth, lutDepthF]
    by_cases hc : childF (node t) nd (v % 2 == 1) < NUM_SYMBOLS
    · simp only [hc, if_true]
      refine ⟨fun _ => ⟨by omega, by omega, ?_⟩, fun h => by omega⟩
      simp [natBits, walk, walkF, hc]
    · simp only [hc, if_false]
      have hge : NUM_SYMBOLS ≤ childF (node t) nd (v % 2 == 1) := by omega
      obtain ⟨i1, i2⟩ := ih (childF (node t) nd (v % 2 == 1)) (v / 2) hge
      simp only [lutWalk, lutDepth] at i1 i2
      constructor
      · intro hlt
        obtain ⟨j1, j2, j3⟩ := i1 hlt
        refine ⟨by omega, by omega, ?_⟩
        rw [Nat.add_comm 1]
        simp only [natBits, walk, walkF]
        rw [if_pos (by omega)]
        exact j3
      · intro hge2 p
        have := i2 hge2 p
        simp only [natBits, List.cons_append, walk, walkF] at this ⊢
        rw [if_pos (by omega)]
        exact this

/-! ### consuming bits from the buffer -/

theorem wrapSub_of_le (a b : Nat) (ha : a ≤ 32) (hb : b ≤ a) : wrapSub a b = a - b := by
  simp only [wrapSub, TWO32]; omega

theorem rep_take (bits bc : Nat) (src : List UInt8) (L : List Bool) (d : Nat)
    (h : Rep bits bc src L) (hd : bc ≥ d ∨ src = []) :
    ∃ L' k, L ++ List.replicate k false = natBits d bits ++ L'
      ∧ Rep (bits / 2 ^ d) (wrapSub bc d) src L' := by
  rcases h with ⟨h1, h2, h3⟩ | ⟨h1, h2, h3⟩
  · by_cases hge : bc ≥ d
    · refine ⟨natBits (bc - d) (bits / 2 ^ d) ++ src.flatMap byteBits, 0, ?_, Or.inl ⟨?_, ?_, ?_⟩⟩
      · have : bc = d + (bc - d) := by omega
        rw [h3]
        conv => lhs; rw [this, natBits_add]
        simp
      · rw [wrapSub_of_le bc d h1 hge]; omega
      · rw [wrapSub_of_le bc d h1 hge]
        have : 2 ^ bc = 2 ^ (bc - d) * 2 ^ d := by rw [← Nat.pow_add]; congr 1; omega
        rw [this] at h2
        exact Nat.div_lt_of_lt_mul (by rw [Nat.mul_comm]; exact h2)
      · rw [wrapSub_of_le bc d h1 hge]
    · have hs : src = [] := by rcases hd with h | h; omega; exact h
      subst hs
      have hz : bits / 2 ^ d = 0 := by
        apply Nat.div_eq_of_lt
        exact Nat.lt_of_lt_of_le h2 (Nat.pow_le_pow_right (by decide) (by omega))
      have hz' : bits / 2 ^ bc = 0 := Nat.div_eq_of_lt h2
      refine ⟨[], d - bc, ?_, Or.inr ⟨hz, rfl, rfl⟩⟩
      have : d = bc + (d - bc) := by omega
      rw [h3]
      conv => rhs; rw [this, natBits_add, hz', natBits_zero]
      simp
  · subst h1 h2 h3
    refine ⟨[], d, ?_, Or.inr ⟨by simp, rfl, rfl⟩⟩
    simp [natBits_zero]

/-! ### the walk below the table -/

theorem refDeep_spec (t : Table) (h : WellFormed t) (src : List UInt8) (fuel : Nat) :
    ∀ (nd bits bc : Nat) (L : List Bool), Inner nd → Rep bits bc src L → (bc ≥ 1 ∨ src = []) →
      ∀ r bits' bc', refDeep t fuel nd bits bc = .leaf r bits' bc' →
        ∃ p L' k, walk t nd p = some r ∧ L ++ List.replicate k false = p ++ L'
          ∧ Rep bits' bc' src L' := by
  induction fuel with
  | zero => intro nd bits bc L _ _ _ r bits' bc' hd; simp [refDeep] at hd
  | succ f ih =>
    intro nd bits bc L hi hrep hbc r bits' bc' hd
    obtain ⟨L1, k1, e1, hrep1⟩ := rep_take bits bc src L 1 hrep hbc
    simp only [natBits, Nat.pow_one, List.cons_append, List.nil_append] at e1 hrep1
    simp only [refDeep, child] at hd
    by_cases hleaf : childF (node t) nd (bits % 2 == 1) < NUM_SYMBOLS
    · simp only [hleaf, if_true] at hd
      cases hd
      refine ⟨[bits % 2 == 1], L1, k1, ?_, by simpa using e1, hrep1⟩
      simp [walk, walkF, hleaf]
    · simp only [hleaf, if_false] at hd
      by_cases hz : wrapSub bc 1 = 0
      · simp [hz] at hd
      · simp only [hz, if_false] at hd
        have hlt := h.child_lt hi.1 hi.2 (bits % 2 == 1)
        simp only [child] at hlt
        have hi' : Inner (childF (node t) nd (bits % 2 == 1)) :=
          ⟨by omega, by have := hi.2; omega⟩
        obtain ⟨p, L', k, w, e2, hrep2⟩ := ih _ _ _ L1 hi' hrep1 (Or.inl (by omega)) r bits' bc' hd
        refine ⟨(bits % 2 == 1) :: p, L', k1 + k, ?_, ?_, hrep2⟩
        · simp only [walk, walkF]
          rw [if_pos (by omega)]
          exact w
        · rw [← List.replicate_append_replicate, ← List.append_assoc, e1, List.cons_append, e2]
          rfl

/-! ### the main loop -/

theorem refLoop_spec (t : Table) (h : WellFormed t) (hl : LutOk t) (cap : Nat) (fuel : Nat) :
    ∀ (bits bc : Nat) (src : List UInt8) (out : List UInt8) (L : List Bool) (res : List UInt8),
      Rep bits bc src L → out.length ≤ cap →
      refLoop t cap fuel bits bc src out = .ok res → run t cap ROOT_IDX out L = .ok res := by
  induction fuel with
  | zero => intro bits bc src out L res _ _ hr; simp [refLoop] at hr
  | succ f ih =>
    intro bits bc src out L res hrep hlen hr
    obtain ⟨hrep1, hfull, hlow⟩ := refFill_spec src bits bc L hrep
    rw [refLoop] at hr
    generalize hb1 : (refFill bits bc src).1 = b1 at *
    generalize hc1 : (refFill bits bc src).2.1 = c1 at *
    generalize hs1 : (refFill bits bc src).2.2 = s1 at *
    -- the node the table lookup returns
    have hnd : refNode t bits bc b1 = lut t (b1 % LUTSIZE) := by
      simp only [refNode]
      by_cases h10 : bc ≥ LUTBITS
      · simp only [h10, if_true]
        have := hlow (by simpa [LUTBITS] using h10)
        simp only [LUTSIZE]; rw [this]
      · simp only [h10, if_false]
    simp only [hnd, refBody] at hr
    have hmod : b1 % LUTSIZE < LUTSIZE := Nat.mod_lt _ (by decide)
    obtain ⟨lw1, lw2⟩ := lutWalk_spec t LUTBITS ROOT_IDX (b1 % LUTSIZE) (by decide)
    -- what happens after a symbol `r` was decoded with the buffer in state (b2, c2) ~ L2
    have hfin : ∀ (r b2 c2 : Nat) (P L2 : List Bool) (k : Nat), walk t ROOT_IDX P = some r →
        L ++ List.replicate k false = P ++ L2 → Rep b2 c2 s1 L2 →
        (if r = EOF then RefDec.ok out.reverse
          else if out.length ≥ cap then RefDec.error
          else refLoop t cap f b2 c2 s1 (UInt8.ofNat r :: out)) = .ok res →
        run t cap ROOT_IDX out L = .ok res := by
      intro r b2 c2 P L2 k hw hL hrep2 hres
      rw [← run_append_zeros t h cap k L ROOT_IDX out inner_root hlen, hL,
        run_walk t cap P ROOT_IDX out L2 r hw]
      by_cases he : r = EOF
      · simp only [he, if_true] at hres ⊢
        cases hres; rfl
      · simp only [he, if_false] at hres ⊢
        by_cases hc : out.length ≥ cap
        · simp [hc] at hres
        · simp only [hc, if_false] at hres ⊢
          exact ih b2 c2 s1 _ L2 res hrep2 (by simp; omega) hres
    by_cases hleaf : lut t (b1 % LUTSIZE) < NUM_SYMBOLS
    · -- the table found a symbol
      simp only [hleaf, if_true] at hr
      have hlut := hl (b1 % LUTSIZE) hmod
      simp only [lutOkAtF, decide_eq_true_eq] at hlut
      have hd : symLen t (lut t (b1 % LUTSIZE)) = lutDepth t LUTBITS ROOT_IDX (b1 % LUTSIZE) :=
        hlut hleaf
      obtain ⟨d1, d2, d3⟩ := lw1 hleaf
      rw [← hd] at d1 d2 d3
      have hd10 : symLen t (lut t (b1 % LUTSIZE)) ≤ 10 := d2
      have hw : walk t ROOT_IDX (natBits (symLen t (lut t (b1 % LUTSIZE))) b1) =
          some (lut t (b1 % LUTSIZE)) := by
        rw [← natBits_mod _ 10 b1 hd10]; exact d3
      obtain ⟨L2, k, e, hrep2⟩ := rep_take b1 c1 s1 L (symLen t (lut t (b1 % LUTSIZE))) hrep1
        (by rcases hfull with hf | hf; left; omega; right; exact hf)
      exact hfin _ _ _ _ L2 k hw e hrep2 hr
    · -- the walk continues below the table
      simp only [hleaf, if_false] at hr
      have hge : NUM_SYMBOLS ≤ lut t (b1 % LUTSIZE) := by omega
      obtain ⟨L1, k1, e1, hrep2⟩ := rep_take b1 c1 s1 L LUTBITS hrep1
        (by rcases hfull with hf | hf; left; simp only [LUTBITS]; omega; right; exact hf)
      have hbc : wrapSub c1 LUTBITS ≥ 1 ∨ s1 = [] := by
        rcases hfull with hf | hf
        · rcases hrep1 with ⟨g1, _, _⟩ | ⟨_, g2, _⟩
          · left; rw [wrapSub_of_le c1 LUTBITS g1 (by simp only [LUTBITS]; omega)]
            simp only [LUTBITS]; omega
          · right; exact g2
        · right; exact hf
      -- the node reached is an inner node of the table
      have hinner : Inner (lut t (b1 % LUTSIZE)) := by
        refine ⟨hge, ?_⟩
        -- it is below the root because indices decrease along every edge
        have : ∀ k nd v, Inner nd → NUM_SYMBOLS ≤ lutWalk t k nd v → lutWalk t k nd v < NUM_NODES := by
          intro k
          induction k with
          | zero => intro nd v hi _; exact hi.2
          | succ k ihk =>
            intro nd v hi
            simp only [lutWalk, lutWalkF]
            have hlt := h.child_lt hi.1 hi.2 (v % 2 == 1)
            simp only [child] at hlt
            by_cases hc : childF (node t) nd (v % 2 == 1) < NUM_SYMBOLS
            · simp only [hc, if_true]; intro hh; omega
            · simp only [hc, if_false]
              exact ihk _ _ ⟨by omega, by have := hi.2; omega⟩
        exact this LUTBITS ROOT_IDX _ inner_root hge
      revert hr
      cases hdeep : refDeep t NUM_NODES (lut t (b1 % LUTSIZE)) (b1 / 2 ^ LUTBITS) (wrapSub c1 LUTBITS) with
      | error => intro hr; simp at hr
      | diverge => intro hr; simp at hr
      | leaf r b2 c2 =>
        intro hr
        simp only at hr
        obtain ⟨p, L2, k2, w, e2, hrep3⟩ := refDeep_spec t h s1 NUM_NODES _ _ _ L1 hinner hrep2 hbc
          r b2 c2 hdeep
        have hw : walk t ROOT_IDX (natBits LUTBITS b1 ++ p) = some r := by
          have hm : natBits LUTBITS (b1 % LUTSIZE) = natBits LUTBITS b1 :=
            natBits_mod LUTBITS 10 b1 (by decide)
          have := lw2 hge p
          rw [hm] at this
          rw [this]; exact w
        refine hfin r b2 c2 _ L2 (k1 + k2) hw ?_ hrep3 hr
        rw [← List.replicate_append_replicate, ← List.append_assoc, e1, List.append_assoc, e2, List.append_assoc]

theorem refDecompress_agrees (t : Table) (h : WellFormed t) (hl : LutOk t) (fuel : Nat)
    (input : List UInt8) (cap : Nat) (res : List UInt8)
    (hr : refDecompress t fuel input cap = .ok res) : decompress t input cap = .ok res := by
  rw [decompress_eq_run]
  apply refLoop_spec t h hl cap fuel 0 0 input [] _ res _ (by simp) hr
  left
  exact ⟨by omega, by simp, by simp [natBits]⟩

end Tw.Huffman
