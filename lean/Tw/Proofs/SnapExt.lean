import Tw.Proofs.SnapTotal

/-! C10: snapshots with UUID-typed items.  The registry (`extended_types`) of a snapshot the
builder produced is rebuilt exactly by `build_from_raw`, so every copy obtained through a wire
form or a delta is *equal* to the original. -/
namespace Tw.Snap

/-! ### UUID ⟷ four integers -/

theorem wrap_emod (x : Int) : wrap x % 4294967296 = x % 4294967296 := by
  unfold wrap; split <;> omega

theorem dataToUuid_uuidToData {u : Int} (h : IsUuid u) : dataToUuid (uuidToData u) = some (u, false) := by
  unfold IsUuid at h
  simp only [uuidToData, dataToUuid, wrap_emod, List.isEmpty_nil, Bool.not_true]
  congr 2
  omega

theorem uuidToData_I32 (u : Int) : ∀ x ∈ uuidToData u, I32 x := by
  intro x hx
  simp [uuidToData] at hx
  rcases hx with rfl | rfl | rfl | rfl <;> exact wrap_I32 _

theorem uuidToData_inj {u v : Int} (hu : IsUuid u) (hv : IsUuid v) (h : uuidToData u = uuidToData v) : u = v := by
  have h1 := dataToUuid_uuidToData hu
  rw [h, dataToUuid_uuidToData hv] at h1
  injection h1 with h1
  injection h1 with h1
  exact h1.symm

/-! ### the registry invariant -/

/-- The raw part is well-formed and the registry items (type `TYPE_ID_EX`) are in one-to-one
correspondence with `extended_types`; every extended type that occurs has its registry item. -/
structure ExtOk (s : Snap) : Prop where
  raw_wf : s.raw.WF
  ext_sorted : Sorted s.ext
  ext_reg : ∀ u t, mfind u s.ext = some t →
    IsUuid u ∧ t < 65536 ∧ mfind (keyOf typeIdEx t) s.raw.items = some (uuidToData u)
  reg_ext : ∀ p ∈ s.raw.items, keyType p.1 = typeIdEx →
    ∃ u, mfind u s.ext = some (keyId p.1) ∧ p.2 = uuidToData u
  types_reg : ∀ p ∈ s.raw.items, offsetExt ≤ keyType p.1 →
    (mfind (keyOf typeIdEx (keyType p.1)) s.raw.items).isSome

theorem buildExt_spec {s : Snap} (hs : ExtOk s) :
    ∀ (m : Items) (ext0 : List (Int × Nat)) (ws : List Warning),
      (∀ p ∈ m, p ∈ s.raw.items) → Sorted m → Sorted ext0 →
      (∀ u t, mfind u ext0 = some t → mfind u s.ext = some t ∧ keyOf typeIdEx t ∉ m.map Prod.fst) →
      ∃ ext', buildExt s.raw.items m ext0 ws = .ok (ext', ws) ∧ Sorted ext' ∧
        (∀ u t, mfind u ext' = some t → mfind u s.ext = some t) ∧
        (∀ u t, mfind u ext0 = some t → mfind u ext' = some t) ∧
        (∀ k d, (k, d) ∈ m → keyType k = typeIdEx → ∀ u, d = uuidToData u → IsUuid u →
          mfind u ext' = some (keyId k)) := by
  intro m
  induction m with
  | nil =>
    intro ext0 ws _ _ he h0
    exact ⟨ext0, rfl, he, fun u t h => (h0 u t h).1, fun u t h => h, by simp⟩
  | cons q r ih =>
    obtain ⟨k, d⟩ := q
    intro ext0 ws hsub hm he h0
    rw [sorted_cons] at hm
    have hkmem : (k, d) ∈ s.raw.items := hsub (k, d) (by simp)
    have hkI : I32 k := (hs.raw_wf.2.1 (k, d) hkmem).1
    have hsubr : ∀ p ∈ r, p ∈ s.raw.items := fun p hp => hsub p (by simp [hp])
    have h0r : ∀ u t, mfind u ext0 = some t → mfind u s.ext = some t ∧ keyOf typeIdEx t ∉ r.map Prod.fst := by
      intro u t h
      obtain ⟨h1, h2⟩ := h0 u t h
      refine ⟨h1, ?_⟩
      intro hmem
      apply h2
      simp only [List.map_cons, List.mem_cons]
      exact Or.inr hmem
    by_cases ht : keyType k = typeIdEx
    · -- a registry item
      obtain ⟨u, hu, hd⟩ := hs.reg_ext (k, d) hkmem ht
      have hu' : mfind u s.ext = some (keyId k) := hu
      have hd' : d = uuidToData u := hd
      obtain ⟨huu, _, _⟩ := hs.ext_reg u (keyId k) hu'
      have hdu : dataToUuid d = some (u, false) := by rw [hd']; exact dataToUuid_uuidToData huu
      have hnone : mfind u ext0 = none := by
        cases hf : mfind u ext0 with
        | none => rfl
        | some t =>
          exfalso
          obtain ⟨h1, h2⟩ := h0 u t hf
          rw [hu'] at h1
          injection h1 with h1
          apply h2
          rw [← h1, ← ht, keyOf_key hkI]
          simp
      have h0' : ∀ u' t, mfind u' (minsert u (keyId k) ext0) = some t →
          mfind u' s.ext = some t ∧ keyOf typeIdEx t ∉ r.map Prod.fst := by
        intro u' t h
        rw [mfind_minsert] at h
        by_cases e : u' = u
        · rw [if_pos e] at h
          injection h with h
          rw [e, ← h]
          refine ⟨hu', ?_⟩
          rw [← ht, keyOf_key hkI]
          intro hmem
          obtain ⟨p, hp, hpe⟩ := List.mem_map.mp hmem
          have := hm.1 p hp
          omega
        · rw [if_neg e] at h
          exact h0r u' t h
      obtain ⟨ext', hb, hse, h1, h2, h3⟩ := ih (minsert u (keyId k) ext0) ws hsubr hm.2 (sorted_minsert he) h0'
      refine ⟨ext', ?_, hse, h1, ?_, ?_⟩
      · simp only [buildExt, ht, if_true, hdu, hnone, Option.isSome_none, Bool.false_eq_true, if_false,
          List.append_nil]
        exact hb
      · intro u' t h
        apply h2
        rw [mfind_minsert]
        by_cases e : u' = u
        · rw [e] at h; rw [hnone] at h; cases h
        · rw [if_neg e]; exact h
      · intro k1 d1 hp htp u' hdp hu'p
        simp only [List.mem_cons] at hp
        rcases hp with hp | hp
        · simp only [Prod.mk.injEq] at hp
          obtain ⟨e1, e2⟩ := hp
          subst e1 e2
          have : u' = u := uuidToData_inj hu'p huu (by rw [← hdp, hd'])
          rw [this]
          apply h2
          rw [mfind_minsert, if_pos rfl]
        · exact h3 k1 d1 hp htp u' hdp hu'p
    · -- an ordinary item; an extended type has its registry item
      obtain ⟨ext', hb, hse, h1, h2, h3⟩ := ih ext0 ws hsubr hm.2 he h0r
      refine ⟨ext', ?_, hse, h1, h2, ?_⟩
      · simp only [buildExt, ht, if_false]
        by_cases hge : keyType k ≥ offsetExt
        · have := hs.types_reg (k, d) hkmem hge
          simp only [hge, if_true]
          cases hf : mfind (keyOf typeIdEx (keyType k)) s.raw.items with
          | none => rw [hf] at this; simp at this
          | some v => simp only [Option.isNone_some, Bool.false_eq_true, if_false]; exact hb
        · simp only [hge, if_false]; exact hb
      · intro k1 d1 hp htp u' hdp hu'p
        simp only [List.mem_cons] at hp
        rcases hp with hp | hp
        · simp only [Prod.mk.injEq] at hp
          obtain ⟨e1, e2⟩ := hp
          subst e1
          exact absurd htp ht
        · exact h3 k1 d1 hp htp u' hdp hu'p

/-- `build_from_raw` applied to the raw part of a snapshot satisfying the registry invariant
rebuilds exactly its `extended_types`, without any warning (false before the fix of D6). -/
theorem buildFromRaw_of_extOk {s : Snap} (hs : ExtOk s) : buildFromRaw s.raw = .ok (s, []) := by
  obtain ⟨ext', hb, hse, h1, _, h3⟩ := buildExt_spec hs s.raw.items [] [] (fun p hp => hp) hs.raw_wf.1
    sorted_nil (by intro u t h; simp [mfind] at h)
  have hext : ext' = s.ext := by
    apply sorted_ext hse hs.ext_sorted
    intro u
    cases hf : mfind u s.ext with
    | some t =>
      obtain ⟨huu, _, hreg⟩ := hs.ext_reg u t hf
      have hmem := mem_of_mfind hreg
      have hk : keyType (keyOf typeIdEx t) = typeIdEx := keyType_keyOf (by decide) (hs.ext_reg u t hf).2.1
      have := h3 (keyOf typeIdEx t) (uuidToData u) hmem hk u rfl huu
      rw [this]
      rw [keyId_keyOf (by decide) (hs.ext_reg u t hf).2.1]
    | none =>
      cases hf' : mfind u ext' with
      | none => rfl
      | some t => have := h1 u t hf'; rw [hf] at this; cases this
  unfold buildFromRaw
  rw [hb, hext]

/-! ### the builder keeps the registry invariant -/

theorem addItem_ok {s s' : RawSnap} {k : Int} {d : List Int} (h : s.addItem k d = .ok s') :
    s'.items = minsert k d s.items ∧ mfind k s.items = none := by
  unfold RawSnap.addItem at h
  cases hf : mfind k s.items with
  | some v => simp [hf] at h
  | none =>
    simp only [hf] at h
    cases hv : vacantCheck s.items d.length with
    | some e => simp [hv] at h
    | none =>
      simp only [hv] at h
      injection h with h
      subst h
      exact ⟨rfl, rfl⟩

theorem addItem_error_state {s : RawSnap} {k : Int} {d : List Int} {e : BuilderError}
    (_h : s.addItem k d = .error e) : True := trivial

theorem keyOf_ne_of_type {t t' id id' : Nat} (ht : t < 65536) (ht' : t' < 65536) (hi : id < 65536)
    (hi' : id' < 65536) (h : t ≠ t') : keyOf t id ≠ keyOf t' id' := by
  intro e
  have := congrArg keyType e
  rw [keyType_keyOf ht hi, keyType_keyOf ht' hi'] at this
  exact h this

theorem keyOf_ne_of_id {t id id' : Nat} (ht : t < 65536) (hi : id < 65536)
    (hi' : id' < 65536) (h : id ≠ id') : keyOf t id ≠ keyOf t id' := by
  intro e
  have := congrArg keyId e
  rw [keyId_keyOf ht hi, keyId_keyOf ht hi'] at this
  exact h this

theorem offsetExt_eq : offsetExt = 16384 := rfl
theorem typeIdEx_eq : typeIdEx = 0 := rfl

/-- adding an item of a non-registry type whose registry item (if it needs one) is present -/
theorem extOk_add_item {s : Snap} {raw' : RawSnap} {t id : Nat} {data : List Int} (hs : ExtOk s)
    (ht0 : t ≠ typeIdEx) (ht : t < 65536) (hid : id < 65536) (hd : ∀ x ∈ data, I32 x)
    (hreg : t < offsetExt ∨ (mfind (keyOf typeIdEx t) s.raw.items).isSome)
    (h : s.raw.addItem (keyOf t id) data = .ok raw') : ExtOk ⟨raw', s.ext⟩ := by
  obtain ⟨hitems, hnone⟩ := addItem_ok h
  have hne : ∀ t', t' < 65536 → keyOf typeIdEx t' ≠ keyOf t id := by
    intro t' ht'
    exact keyOf_ne_of_type (by decide) ht ht' hid (fun e => ht0 e.symm)
  have hkeep : ∀ t', t' < 65536 → mfind (keyOf typeIdEx t') raw'.items = mfind (keyOf typeIdEx t') s.raw.items := by
    intro t' ht'
    rw [hitems, mfind_minsert, if_neg (hne t' ht')]
  refine ⟨addItem_WF hs.raw_wf (keyOf_I32 _ _) hd h, hs.ext_sorted, ?_, ?_, ?_⟩
  · intro u t' hu
    obtain ⟨h1, h2, h3⟩ := hs.ext_reg u t' hu
    exact ⟨h1, h2, by show mfind _ raw'.items = _; rw [hkeep t' h2]; exact h3⟩
  · intro p hp hpt
    have hp' : p ∈ minsert (keyOf t id) data s.raw.items := by rw [← hitems]; exact hp
    rcases mem_minsert hp' with rfl | hp'
    · exfalso
      simp only at hpt
      rw [keyType_keyOf ht hid] at hpt
      exact ht0 hpt
    · exact hs.reg_ext p hp' hpt
  · intro p hp hpt
    have hp' : p ∈ minsert (keyOf t id) data s.raw.items := by rw [← hitems]; exact hp
    show (mfind (keyOf typeIdEx (keyType p.1)) raw'.items).isSome
    rw [hkeep _ (keyType_lt _)]
    rcases mem_minsert hp' with rfl | hp'
    · simp only at hpt ⊢
      rw [keyType_keyOf ht hid] at hpt ⊢
      rcases hreg with hreg | hreg
      · omega
      · exact hreg
    · exact hs.types_reg p hp' hpt

/-- adding the registry item of a new UUID type -/
theorem extOk_add_registry {s : Snap} {raw1 : RawSnap} {u : Int} {t : Nat} (hs : ExtOk s) (hu : IsUuid u)
    (hnew : mfind u s.ext = none) (ht : t < 65536)
    (hfresh : ∀ u' t', mfind u' s.ext = some t' → t' ≠ t)
    (h : s.raw.addItem (keyOf typeIdEx t) (uuidToData u) = .ok raw1) : ExtOk ⟨raw1, minsert u t s.ext⟩ := by
  obtain ⟨hitems, hnone⟩ := addItem_ok h
  refine ⟨addItem_WF hs.raw_wf (keyOf_I32 _ _) (uuidToData_I32 u) h, sorted_minsert hs.ext_sorted, ?_, ?_, ?_⟩
  · intro u' t' hu'
    simp only at hu'
    rw [mfind_minsert] at hu'
    show IsUuid u' ∧ t' < 65536 ∧ mfind (keyOf typeIdEx t') raw1.items = some (uuidToData u')
    rw [hitems, mfind_minsert]
    by_cases e : u' = u
    · rw [if_pos e] at hu'
      injection hu' with hu'
      subst hu'
      rw [e]
      exact ⟨hu, ht, by rw [if_pos rfl]⟩
    · rw [if_neg e] at hu'
      obtain ⟨h1, h2, h3⟩ := hs.ext_reg u' t' hu'
      have hne : keyOf typeIdEx t' ≠ keyOf typeIdEx t := keyOf_ne_of_id (by decide) h2 ht (hfresh u' t' hu')
      exact ⟨h1, h2, by rw [if_neg hne]; exact h3⟩
  · intro p hp hpt
    have hp' : p ∈ minsert (keyOf typeIdEx t) (uuidToData u) s.raw.items := by rw [← hitems]; exact hp
    show ∃ u', mfind u' (minsert u t s.ext) = some (keyId p.1) ∧ p.2 = uuidToData u'
    rcases mem_minsert hp' with rfl | hp'
    · refine ⟨u, ?_, rfl⟩
      rw [mfind_minsert, if_pos rfl]
      simp only
      rw [keyId_keyOf (by decide) ht]
    · obtain ⟨u', h1, h2⟩ := hs.reg_ext p hp' hpt
      refine ⟨u', ?_, h2⟩
      have e : u' ≠ u := by intro e; rw [e, hnew] at h1; cases h1
      rw [mfind_minsert, if_neg e]
      exact h1
  · intro p hp hpt
    have hp' : p ∈ minsert (keyOf typeIdEx t) (uuidToData u) s.raw.items := by rw [← hitems]; exact hp
    show (mfind (keyOf typeIdEx (keyType p.1)) raw1.items).isSome
    rw [hitems, mfind_minsert]
    split
    · rfl
    · rcases mem_minsert hp' with rfl | hp'
      · exfalso
        simp only at hpt
        rw [keyType_keyOf (by decide) ht, offsetExt_eq, typeIdEx_eq] at hpt
        omega
      · exact hs.types_reg p hp' hpt

/-- invariant of every builder state reachable from `Builder::new()` through `add_item`,
`finish`, wire/delta copies and `recycle` -/
structure Builder.Inv (b : Builder) : Prop where
  ok : ExtOk b.snap
  ext_range : ∀ u t, mfind u b.snap.ext = some t → offsetExt ≤ t ∧ t < b.nextTypeId
  ext_onto : ∀ t, offsetExt ≤ t → t < b.nextTypeId → ∃ u, mfind u b.snap.ext = some t
  next_range : offsetExt ≤ b.nextTypeId ∧ b.nextTypeId ≤ 32768
  types : ∀ p ∈ b.snap.raw.items, keyType p.1 < offsetExt ∨ ∃ u, mfind u b.snap.ext = some (keyType p.1)

theorem Builder.new_inv : Builder.new.Inv := by
  refine ⟨⟨empty_WF, sorted_nil, ?_, ?_, ?_⟩, ?_, ?_, ?_, ?_⟩
  · intro u t h; simp [Builder.new, Snap.empty, mfind] at h
  · intro p hp; simp [Builder.new, Snap.empty, RawSnap.empty] at hp
  · intro p hp; simp [Builder.new, Snap.empty, RawSnap.empty] at hp
  · intro u t h; simp [Builder.new, Snap.empty, mfind] at h
  · intro t h1 h2; simp [Builder.new] at h2; omega
  · simp [Builder.new, offsetExt_eq]
  · intro p hp; simp [Builder.new, Snap.empty, RawSnap.empty] at hp

/-- a type id the builder accepts: an ordinal, or a UUID -/
def TypeId.Valid : TypeId → Prop
  | .ordinal _ => True
  | .uuid u => IsUuid u

theorem Builder.addItem_inv {b b' : Builder} {tid : TypeId} {id : Nat} {data : List Int}
    {r : Option BuilderError} (hb : b.Inv) (htid : tid.Valid) (hid : id < 65536) (hd : ∀ x ∈ data, I32 x)
    (h : b.addItem tid id data = some (b', r)) : b'.Inv := by
  obtain ⟨hnr1, hnr2⟩ := hb.next_range
  rw [offsetExt_eq] at hnr1
  cases tid with
  | ordinal o =>
    simp only [Builder.addItem] at h
    split at h
    · cases h
    · rename_i ho
      simp only [Decidable.not_not] at ho
      rw [offsetExt_eq] at ho
      cases ha : b.snap.raw.addItem (keyOf o id) data with
      | error e =>
        simp only [ha] at h
        injection h with h; injection h with h1 h2; rw [← h1]; exact hb
      | ok raw =>
        simp only [ha] at h
        injection h with h; injection h with h1 h2
        rw [← h1]
        have hok := extOk_add_item hb.ok (t := o) (by rw [typeIdEx_eq]; omega) (by omega) hid hd
          (Or.inl (by rw [offsetExt_eq]; omega)) ha
        obtain ⟨hitems, _⟩ := addItem_ok ha
        refine ⟨hok, hb.ext_range, hb.ext_onto, hb.next_range, ?_⟩
        intro p hp
        have hp' : p ∈ minsert (keyOf o id) data b.snap.raw.items := by rw [← hitems]; exact hp
        rcases mem_minsert hp' with rfl | hp'
        · left; simp only; rw [keyType_keyOf (by omega) hid, offsetExt_eq]; omega
        · exact hb.types p hp'
  | uuid u =>
    have hu : IsUuid u := htid
    simp only [Builder.addItem] at h
    cases hf : mfind u b.snap.ext with
    | some t =>
      simp only [hf] at h
      obtain ⟨ht1, ht2⟩ := hb.ext_range u t hf
      rw [offsetExt_eq] at ht1
      cases ha : b.snap.raw.addItem (keyOf t id) data with
      | error e =>
        simp only [ha] at h
        injection h with h; injection h with h1 h2; rw [← h1]; exact hb
      | ok raw =>
        simp only [ha] at h
        injection h with h; injection h with h1 h2
        rw [← h1]
        have hreg := (hb.ok.ext_reg u t hf).2.2
        have hok := extOk_add_item hb.ok (t := t) (by rw [typeIdEx_eq]; omega) (by omega) hid hd
          (Or.inr (by rw [hreg]; rfl)) ha
        obtain ⟨hitems, _⟩ := addItem_ok ha
        refine ⟨hok, hb.ext_range, hb.ext_onto, hb.next_range, ?_⟩
        intro p hp
        have hp' : p ∈ minsert (keyOf t id) data b.snap.raw.items := by rw [← hitems]; exact hp
        rcases mem_minsert hp' with rfl | hp'
        · right; refine ⟨u, ?_⟩; simp only; rw [keyType_keyOf (by omega) hid]; exact hf
        · exact hb.types p hp'
    | none =>
      simp only [hf] at h
      split at h
      · cases h
      · split at h
        · injection h with h; injection h with h1 h2; rw [← h1]; exact hb
        · rename_i hlt
          simp only [Decidable.not_not] at hlt
          cases ha : b.snap.raw.addItem (keyOf typeIdEx b.nextTypeId) (uuidToData u) with
          | error e =>
            simp only [ha] at h
            injection h with h; injection h with h1 h2; rw [← h1]; exact hb
          | ok raw1 =>
            simp only [ha] at h
            have hfresh : ∀ u' t', mfind u' b.snap.ext = some t' → t' ≠ b.nextTypeId := by
              intro u' t' h'
              have := (hb.ext_range u' t' h').2
              omega
            have hok1 := extOk_add_registry hb.ok hu hf (by omega) hfresh ha
            obtain ⟨hitems1, _⟩ := addItem_ok ha
            -- the state after the registry insertion
            have hb1 : Builder.Inv ⟨⟨raw1, minsert u b.nextTypeId b.snap.ext⟩, b.nextTypeId + 1⟩ := by
              refine ⟨hok1, ?_, ?_, ?_, ?_⟩
              · intro u' t' h'
                simp only at h'
                rw [mfind_minsert] at h'
                by_cases e : u' = u
                · rw [if_pos e] at h'; injection h' with h'; subst h'
                  simp only; rw [offsetExt_eq]; omega
                · rw [if_neg e] at h'
                  have := hb.ext_range u' t' h'
                  simp only; omega
              · intro t' h1' h2'
                simp only at h2' ⊢
                by_cases e : t' = b.nextTypeId
                · exact ⟨u, by rw [mfind_minsert, if_pos rfl, e]⟩
                · obtain ⟨u', hu'⟩ := hb.ext_onto t' h1' (by omega)
                  have e' : u' ≠ u := by intro e'; rw [e', hf] at hu'; cases hu'
                  exact ⟨u', by rw [mfind_minsert, if_neg e']; exact hu'⟩
              · simp only; rw [offsetExt_eq]; omega
              · intro p hp
                have hp' : p ∈ minsert (keyOf typeIdEx b.nextTypeId) (uuidToData u) b.snap.raw.items := by
                  rw [← hitems1]; exact hp
                rcases mem_minsert hp' with rfl | hp'
                · left; simp only; rw [keyType_keyOf (by decide) (by omega), offsetExt_eq, typeIdEx_eq]; omega
                · rcases hb.types p hp' with h' | ⟨u', hu'⟩
                  · exact Or.inl h'
                  · have e' : u' ≠ u := by intro e'; rw [e', hf] at hu'; cases hu'
                    exact Or.inr ⟨u', by simp only; rw [mfind_minsert, if_neg e']; exact hu'⟩
            cases ha2 : raw1.addItem (keyOf b.nextTypeId id) data with
            | error e =>
              simp only [ha2] at h
              injection h with h; injection h with h1 h2; rw [← h1]; exact hb1
            | ok raw2 =>
              simp only [ha2] at h
              injection h with h; injection h with h1 h2
              rw [← h1]
              have hreg := (hok1.ext_reg u b.nextTypeId (by simp only; rw [mfind_minsert, if_pos rfl])).2.2
              have hok2 := extOk_add_item hok1 (t := b.nextTypeId) (by rw [typeIdEx_eq]; omega) (by omega)
                hid hd (Or.inr (by rw [hreg]; rfl)) ha2
              obtain ⟨hitems2, _⟩ := addItem_ok ha2
              refine ⟨hok2, hb1.ext_range, hb1.ext_onto, hb1.next_range, ?_⟩
              intro p hp
              have hp' : p ∈ minsert (keyOf b.nextTypeId id) data raw1.items := by rw [← hitems2]; exact hp
              rcases mem_minsert hp' with rfl | hp'
              · right; refine ⟨u, ?_⟩
                simp only; rw [keyType_keyOf (by omega) hid, mfind_minsert, if_pos rfl]
              · exact hb1.types p hp'

end Tw.Snap
