import Tw.Proofs.SnapTotal

/-! C10: snapshots with UUID-typed items.  The registry (`extended_types`) of a snapshot the
builder produced is rebuilt exactly by `build_from_raw`, so every copy obtained through a wire
form or a delta is *equal* to the original. -/
namespace Tw.Snap

/-! ### UUID ⟷ four integers -/

theorem wrap_emod (x : Int) : wrap x % 4294967296 = x % 4294967296 := by
  unfold wrap; split <;> omega

theorem dataToUuid_uuidToData {u : Int} (h : IsUuid u) : dataToUuid (uuidToData u) = some (u, false) := by
  unfold IsUuid at h
  simp only [uuidToData, dataToUuid, wrap_emod, List.isEmpty_nil, Bool.not_true]
  congr 2
  omega

theorem uuidToData_I32 (u : Int) : ∀ x ∈ uuidToData u, I32 x := by
  intro x hx
  simp [uuidToData] at hx
  rcases hx with rfl | rfl | rfl | rfl <;> exact wrap_I32 _

theorem uuidToData_inj {u v : Int} (hu : IsUuid u) (hv : IsUuid v) (h : uuidToData u = uuidToData v) : u = v := by
  have h1 := dataToUuid_uuidToData hu
  rw [h, dataToUuid_uuidToData hv] at h1
  injection h1 with h1
  injection h1 with h1
  exact h1.symm

-- from here on `uuidToData` and `keyOf` are used through their lemmas only (when the unifier
-- tries to unfold them on open terms it runs out of stack on the 32/96-bit literals)
attribute [local irreducible] uuidToData keyOf

/-! ### the registry invariant -/

/-- The raw part is well-formed and the registry items (type `TYPE_ID_EX`) are in one-to-one
correspondence with `extended_types`; every extended type that occurs has its registry item. -/
structure ExtOk (s : Snap) : Prop where
  raw_wf : s.raw.WF
  ext_sorted : Sorted s.ext
  ext_reg : ∀ u t, mfind u s.ext = some t →
    IsUuid u ∧ t < 65536 ∧ mfind (keyOf typeIdEx t) s.raw.items = some (uuidToData u)
  reg_ext : ∀ p ∈ s.raw.items, keyType p.1 = typeIdEx →
    ∃ u, mfind u s.ext = some (keyId p.1) ∧ p.2 = uuidToData u
  types_reg : ∀ p ∈ s.raw.items, offsetExt ≤ keyType p.1 →
    (mfind (keyOf typeIdEx (keyType p.1)) s.raw.items).isSome

theorem buildExt_spec {s : Snap} (hs : ExtOk s) :
    ∀ (m : Items) (ext0 : List (Int × Nat)) (ws : List Warning),
      (∀ p ∈ m, p ∈ s.raw.items) → Sorted m → Sorted ext0 →
      (∀ u t, mfind u ext0 = some t → mfind u s.ext = some t ∧ keyOf typeIdEx t ∉ m.map Prod.fst) →
      ∃ ext', buildExt s.raw.items m ext0 ws = .ok (ext', ws) ∧ Sorted ext' ∧
        (∀ u t, mfind u ext' = some t → mfind u s.ext = some t) ∧
        (∀ u t, mfind u ext0 = some t → mfind u ext' = some t) ∧
        (∀ k d, (k, d) ∈ m → keyType k = typeIdEx → ∀ u, d = uuidToData u → IsUuid u →
          mfind u ext' = some (keyId k)) := by
  intro m
  induction m with
  | nil =>
    intro ext0 ws _ _ he h0
    exact ⟨ext0, rfl, he, fun u t h => (h0 u t h).1, fun u t h => h, by simp⟩
  | cons q r ih =>
    obtain ⟨k, d⟩ := q
    intro ext0 ws hsub hm he h0
    rw [sorted_cons] at hm
    have hkmem : (k, d) ∈ s.raw.items := hsub (k, d) (by simp)
    have hkI : I32 k := (hs.raw_wf.2.1 (k, d) hkmem).1
    have hsubr : ∀ p ∈ r, p ∈ s.raw.items := fun p hp => hsub p (by simp [hp])
    have h0r : ∀ u t, mfind u ext0 = some t → mfind u s.ext = some t ∧ keyOf typeIdEx t ∉ r.map Prod.fst := by
      intro u t h
      obtain ⟨h1, h2⟩ := h0 u t h
      refine ⟨h1, ?_⟩
      intro hmem
      apply h2
      simp only [List.map_cons, List.mem_cons]
      exact Or.inr hmem
    by_cases ht : keyType k = typeIdEx
    · -- a registry item
      obtain ⟨u, hu, hd⟩ := hs.reg_ext (k, d) hkmem ht
      have hu' : mfind u s.ext = some (keyId k) := hu
      have hd' : d = uuidToData u := hd
      obtain ⟨huu, _, _⟩ := hs.ext_reg u (keyId k) hu'
      have hdu : dataToUuid d = some (u, false) := by rw [hd']; exact dataToUuid_uuidToData huu
      have hnone : mfind u ext0 = none := by
        cases hf : mfind u ext0 with
        | none => rfl
        | some t =>
          exfalso
          obtain ⟨h1, h2⟩ := h0 u t hf
          rw [hu'] at h1
          injection h1 with h1
          apply h2
          rw [← h1, ← ht, keyOf_key hkI]
          simp
      have h0' : ∀ u' t, mfind u' (minsert u (keyId k) ext0) = some t →
          mfind u' s.ext = some t ∧ keyOf typeIdEx t ∉ r.map Prod.fst := by
        intro u' t h
        rw [mfind_minsert] at h
        by_cases e : u' = u
        · rw [if_pos e] at h
          injection h with h
          rw [e, ← h]
          refine ⟨hu', ?_⟩
          rw [← ht, keyOf_key hkI]
          intro hmem
          obtain ⟨p, hp, hpe⟩ := List.mem_map.mp hmem
          have := hm.1 p hp
          omega
        · rw [if_neg e] at h
          exact h0r u' t h
      obtain ⟨ext', hb, hse, h1, h2, h3⟩ := ih (minsert u (keyId k) ext0) ws hsubr hm.2 (sorted_minsert he) h0'
      refine ⟨ext', ?_, hse, h1, ?_, ?_⟩
      · simp only [buildExt, ht, if_true, hdu, hnone, Option.isSome_none, Bool.false_eq_true, if_false,
          List.append_nil]
        exact hb
      · intro u' t h
        apply h2
        rw [mfind_minsert]
        by_cases e : u' = u
        · rw [e] at h; rw [hnone] at h; cases h
        · rw [if_neg e]; exact h
      · intro k1 d1 hp htp u' hdp hu'p
        simp only [List.mem_cons] at hp
        rcases hp with hp | hp
        · simp only [Prod.mk.injEq] at hp
          obtain ⟨e1, e2⟩ := hp
          subst e1 e2
          have : u' = u := uuidToData_inj hu'p huu (by rw [← hdp, hd'])
          rw [this]
          apply h2
          rw [mfind_minsert, if_pos rfl]
        · exact h3 k1 d1 hp htp u' hdp hu'p
    · -- an ordinary item; an extended type has its registry item
      obtain ⟨ext', hb, hse, h1, h2, h3⟩ := ih ext0 ws hsubr hm.2 he h0r
      refine ⟨ext', ?_, hse, h1, h2, ?_⟩
      · simp only [buildExt, ht, if_false]
        by_cases hge : keyType k ≥ offsetExt
        · have := hs.types_reg (k, d) hkmem hge
          simp only [hge, if_true]
          cases hf : mfind (keyOf typeIdEx (keyType k)) s.raw.items with
          | none => rw [hf] at this; simp at this
          | some v => simp only [Option.isNone_some, Bool.false_eq_true, if_false]; exact hb
        · simp only [hge, if_false]; exact hb
      · intro k1 d1 hp htp u' hdp hu'p
        simp only [List.mem_cons] at hp
        rcases hp with hp | hp
        · simp only [Prod.mk.injEq] at hp
          obtain ⟨e1, e2⟩ := hp
          subst e1
          exact absurd htp ht
        · exact h3 k1 d1 hp htp u' hdp hu'p

/-- `build_from_raw` applied to the raw part of a snapshot satisfying the registry invariant
rebuilds exactly its `extended_types`, without any warning (false before the fix of D6). -/
theorem buildFromRaw_of_extOk {s : Snap} (hs : ExtOk s) : buildFromRaw s.raw = .ok (s, []) := by
  obtain ⟨ext', hb, hse, h1, _, h3⟩ := buildExt_spec hs s.raw.items [] [] (fun p hp => hp) hs.raw_wf.1
    sorted_nil (by intro u t h; simp [mfind] at h)
  have hext : ext' = s.ext := by
    apply sorted_ext hse hs.ext_sorted
    intro u
    cases hf : mfind u s.ext with
    | some t =>
      obtain ⟨huu, _, hreg⟩ := hs.ext_reg u t hf
      have hmem := mem_of_mfind hreg
      have hk : keyType (keyOf typeIdEx t) = typeIdEx := keyType_keyOf (by decide) (hs.ext_reg u t hf).2.1
      have := h3 (keyOf typeIdEx t) (uuidToData u) hmem hk u rfl huu
      rw [this]
      rw [keyId_keyOf (by decide) (hs.ext_reg u t hf).2.1]
    | none =>
      cases hf' : mfind u ext' with
      | none => rfl
      | some t => have := h1 u t hf'; rw [hf] at this; cases this
  unfold buildFromRaw
  rw [hb, hext]

/-! ### the builder keeps the registry invariant -/

theorem addItem_ok {s s' : RawSnap} {k : Int} {d : List Int} (h : s.addItem k d = .ok s') :
    s'.items = minsert k d s.items ∧ mfind k s.items = none := by
  unfold RawSnap.addItem at h
  cases hf : mfind k s.items with
  | some v => simp [hf] at h
  | none =>
    simp only [hf] at h
    cases hv : vacantCheck s.items d.length with
    | some e => simp [hv] at h
    | none =>
      simp only [hv] at h
      injection h with h
      subst h
      exact ⟨rfl, rfl⟩

theorem addItem_error_state {s : RawSnap} {k : Int} {d : List Int} {e : BuilderError}
    (_h : s.addItem k d = .error e) : True := trivial

theorem keyOf_ne_of_type {t t' id id' : Nat} (ht : t < 65536) (ht' : t' < 65536) (hi : id < 65536)
    (hi' : id' < 65536) (h : t ≠ t') : keyOf t id ≠ keyOf t' id' := by
  intro e
  have := congrArg keyType e
  rw [keyType_keyOf ht hi, keyType_keyOf ht' hi'] at this
  exact h this

theorem keyOf_ne_of_id {t id id' : Nat} (ht : t < 65536) (hi : id < 65536)
    (hi' : id' < 65536) (h : id ≠ id') : keyOf t id ≠ keyOf t id' := by
  intro e
  have := congrArg keyId e
  rw [keyId_keyOf ht hi, keyId_keyOf ht hi'] at this
  exact h this

theorem offsetExt_eq : offsetExt = 16384 := rfl
theorem typeIdEx_eq : typeIdEx = 0 := rfl

/-- adding an item of a non-registry type whose registry item (if it needs one) is present -/
theorem extOk_add_item {s : Snap} {raw' : RawSnap} {t id : Nat} {data : List Int} (hs : ExtOk s)
    (ht0 : t ≠ typeIdEx) (ht : t < 65536) (hid : id < 65536) (hd : ∀ x ∈ data, I32 x)
    (hreg : t < offsetExt ∨ (mfind (keyOf typeIdEx t) s.raw.items).isSome)
    (h : s.raw.addItem (keyOf t id) data = .ok raw') : ExtOk ⟨raw', s.ext⟩ := by
  obtain ⟨hitems, hnone⟩ := addItem_ok h
  have hne : ∀ t', t' < 65536 → keyOf typeIdEx t' ≠ keyOf t id := by
    intro t' ht'
    exact keyOf_ne_of_type (by decide) ht ht' hid (fun e => ht0 e.symm)
  have hkeep : ∀ t', t' < 65536 → mfind (keyOf typeIdEx t') raw'.items = mfind (keyOf typeIdEx t') s.raw.items := by
    intro t' ht'
    rw [hitems, mfind_minsert, if_neg (hne t' ht')]
  refine ⟨addItem_WF hs.raw_wf (keyOf_I32 _ _) hd h, hs.ext_sorted, ?_, ?_, ?_⟩
  · intro u t' hu
    obtain ⟨h1, h2, h3⟩ := hs.ext_reg u t' hu
    exact ⟨h1, h2, by show mfind _ raw'.items = _; rw [hkeep t' h2]; exact h3⟩
  · intro p hp hpt
    have hp' : p ∈ minsert (keyOf t id) data s.raw.items := by rw [← hitems]; exact hp
    rcases mem_minsert hp' with rfl | hp'
    · exfalso
      simp only at hpt
      rw [keyType_keyOf ht hid] at hpt
      exact ht0 hpt
    · exact hs.reg_ext p hp' hpt
  · intro p hp hpt
    have hp' : p ∈ minsert (keyOf t id) data s.raw.items := by rw [← hitems]; exact hp
    show (mfind (keyOf typeIdEx (keyType p.1)) raw'.items).isSome
    rw [hkeep _ (keyType_lt _)]
    rcases mem_minsert hp' with rfl | hp'
    · simp only at hpt ⊢
      rw [keyType_keyOf ht hid] at hpt ⊢
      rcases hreg with hreg | hreg
      · omega
      · exact hreg
    · exact hs.types_reg p hp' hpt

/-- adding the registry item of a new UUID type -/
theorem extOk_add_registry {s : Snap} {raw1 : RawSnap} {u : Int} {t : Nat} (hs : ExtOk s) (hu : IsUuid u)
    (hnew : mfind u s.ext = none) (ht : t < 65536)
    (hfresh : ∀ u' t', mfind u' s.ext = some t' → t' ≠ t)
    (h : s.raw.addItem (keyOf typeIdEx t) (uuidToData u) = .ok raw1) : ExtOk ⟨raw1, minsert u t s.ext⟩ := by
  obtain ⟨hitems, hnone⟩ := addItem_ok h
  refine ⟨addItem_WF hs.raw_wf (keyOf_I32 _ _) (uuidToData_I32 u) h, sorted_minsert hs.ext_sorted, ?_, ?_, ?_⟩
  · intro u' t' hu'
    simp only at hu'
    rw [mfind_minsert] at hu'
    show IsUuid u' ∧ t' < 65536 ∧ mfind (keyOf typeIdEx t') raw1.items = some (uuidToData u')
    rw [hitems, mfind_minsert]
    by_cases e : u' = u
    · rw [if_pos e] at hu'
      injection hu' with hu'
      subst hu'
      rw [e]
      exact ⟨hu, ht, by rw [if_pos rfl]⟩
    · rw [if_neg e] at hu'
      obtain ⟨h1, h2, h3⟩ := hs.ext_reg u' t' hu'
      have hne : keyOf typeIdEx t' ≠ keyOf typeIdEx t := keyOf_ne_of_id (by decide) h2 ht (hfresh u' t' hu')
      exact ⟨h1, h2, by rw [if_neg hne]; exact h3⟩
  · intro p hp hpt
    have hp' : p ∈ minsert (keyOf typeIdEx t) (uuidToData u) s.raw.items := by rw [← hitems]; exact hp
    show ∃ u', mfind u' (minsert u t s.ext) = some (keyId p.1) ∧ p.2 = uuidToData u'
    rcases mem_minsert hp' with rfl | hp'
    · refine ⟨u, ?_, rfl⟩
      rw [mfind_minsert, if_pos rfl]
      simp only
      rw [keyId_keyOf (by decide) ht]
    · obtain ⟨u', h1, h2⟩ := hs.reg_ext p hp' hpt
      refine ⟨u', ?_, h2⟩
      have e : u' ≠ u := by intro e; rw [e, hnew] at h1; cases h1
      rw [mfind_minsert, if_neg e]
      exact h1
  · intro p hp hpt
    have hp' : p ∈ minsert (keyOf typeIdEx t) (uuidToData u) s.raw.items := by rw [← hitems]; exact hp
    show (mfind (keyOf typeIdEx (keyType p.1)) raw1.items).isSome
    rw [hitems, mfind_minsert]
    split
    · rfl
    · rcases mem_minsert hp' with rfl | hp'
      · exfalso
        simp only at hpt
        rw [keyType_keyOf (by decide) ht, offsetExt_eq, typeIdEx_eq] at hpt
        omega
      · exact hs.types_reg p hp' hpt

/-- invariant of every builder state reachable from `Builder::new()` through `add_item`,
`finish`, wire/delta copies and `recycle` -/
structure Builder.Inv (b : Builder) : Prop where
  ok : ExtOk b.snap
  ext_range : ∀ u t, mfind u b.snap.ext = some t → offsetExt ≤ t ∧ t < b.nextTypeId
  ext_onto : ∀ t, offsetExt ≤ t → t < b.nextTypeId → ∃ u, mfind u b.snap.ext = some t
  next_range : offsetExt ≤ b.nextTypeId ∧ b.nextTypeId ≤ 32768
  types : ∀ p ∈ b.snap.raw.items, keyType p.1 < offsetExt ∨ ∃ u, mfind u b.snap.ext = some (keyType p.1)

theorem Builder.new_inv : Builder.new.Inv := by
  refine ⟨⟨empty_WF, sorted_nil, ?_, ?_, ?_⟩, ?_, ?_, ?_, ?_⟩
  · intro u t h; simp [Builder.new, Snap.empty, mfind] at h
  · intro p hp; simp [Builder.new, Snap.empty, RawSnap.empty] at hp
  · intro p hp; simp [Builder.new, Snap.empty, RawSnap.empty] at hp
  · intro u t h; simp [Builder.new, Snap.empty, mfind] at h
  · intro t h1 h2; simp [Builder.new] at h2; omega
  · simp [Builder.new, offsetExt_eq]
  · intro p hp; simp [Builder.new, Snap.empty, RawSnap.empty] at hp

/-- a type id the builder accepts: an ordinal, or a UUID -/
def TypeId.Valid : TypeId → Prop
  | .ordinal _ => True
  | .uuid u => IsUuid u

theorem Builder.addItem_inv {b b' : Builder} {tid : TypeId} {id : Nat} {data : List Int}
    {r : Option BuilderError} (hb : b.Inv) (htid : tid.Valid) (hid : id < 65536) (hd : ∀ x ∈ data, I32 x)
    (h : b.addItem tid id data = some (b', r)) : b'.Inv := by
  obtain ⟨hnr1, hnr2⟩ := hb.next_range
  rw [offsetExt_eq] at hnr1
  cases tid with
  | ordinal o =>
    simp only [Builder.addItem] at h
    split at h
    · cases h
    · rename_i ho
      simp only [Decidable.not_not] at ho
      rw [offsetExt_eq] at ho
      cases ha : b.snap.raw.addItem (keyOf o id) data with
      | error e =>
        simp only [ha] at h
        injection h with h; injection h with h1 h2; rw [← h1]; exact hb
      | ok raw =>
        simp only [ha] at h
        injection h with h; injection h with h1 h2
        rw [← h1]
        have hok := extOk_add_item hb.ok (t := o) (by rw [typeIdEx_eq]; omega) (by omega) hid hd
          (Or.inl (by rw [offsetExt_eq]; omega)) ha
        obtain ⟨hitems, _⟩ := addItem_ok ha
        refine ⟨hok, hb.ext_range, hb.ext_onto, hb.next_range, ?_⟩
        intro p hp
        have hp' : p ∈ minsert (keyOf o id) data b.snap.raw.items := by rw [← hitems]; exact hp
        rcases mem_minsert hp' with rfl | hp'
        · left; simp only; rw [keyType_keyOf (by omega) hid, offsetExt_eq]; omega
        · exact hb.types p hp'
  | uuid u =>
    have hu : IsUuid u := htid
    simp only [Builder.addItem] at h
    cases hf : mfind u b.snap.ext with
    | some t =>
      simp only [hf] at h
      obtain ⟨ht1, ht2⟩ := hb.ext_range u t hf
      rw [offsetExt_eq] at ht1
      cases ha : b.snap.raw.addItem (keyOf t id) data with
      | error e =>
        simp only [ha] at h
        injection h with h; injection h with h1 h2; rw [← h1]; exact hb
      | ok raw =>
        simp only [ha] at h
        injection h with h; injection h with h1 h2
        rw [← h1]
        have hreg := (hb.ok.ext_reg u t hf).2.2
        have hok := extOk_add_item hb.ok (t := t) (by rw [typeIdEx_eq]; omega) (by omega) hid hd
          (Or.inr (by rw [hreg]; rfl)) ha
        obtain ⟨hitems, _⟩ := addItem_ok ha
        refine ⟨hok, hb.ext_range, hb.ext_onto, hb.next_range, ?_⟩
        intro p hp
        have hp' : p ∈ minsert (keyOf t id) data b.snap.raw.items := by rw [← hitems]; exact hp
        rcases mem_minsert hp' with rfl | hp'
        · right; refine ⟨u, ?_⟩; simp only; rw [keyType_keyOf (by omega) hid]; exact hf
        · exact hb.types p hp'
    | none =>
      simp only [hf] at h
      split at h
      · cases h
      · split at h
        · injection h with h; injection h with h1 h2; rw [← h1]; exact hb
        · rename_i hlt
          simp only [Decidable.not_not] at hlt
          cases ha : b.snap.raw.addItem (keyOf typeIdEx b.nextTypeId) (uuidToData u) with
          | error e =>
            simp only [ha] at h
            injection h with h; injection h with h1 h2; rw [← h1]; exact hb
          | ok raw1 =>
            simp only [ha] at h
            have hfresh : ∀ u' t', mfind u' b.snap.ext = some t' → t' ≠ b.nextTypeId := by
              intro u' t' h'
              have := (hb.ext_range u' t' h').2
              omega
            have hok1 := extOk_add_registry hb.ok hu hf (by omega) hfresh ha
            obtain ⟨hitems1, _⟩ := addItem_ok ha
            -- the state after the registry insertion
            have hb1 : Builder.Inv ⟨⟨raw1, minsert u b.nextTypeId b.snap.ext⟩, b.nextTypeId + 1⟩ := by
              refine ⟨hok1, ?_, ?_, ?_, ?_⟩
              · intro u' t' h'
                simp only at h'
                rw [mfind_minsert] at h'
                by_cases e : u' = u
                · rw [if_pos e] at h'; injection h' with h'; subst h'
                  simp only; rw [offsetExt_eq]; omega
                · rw [if_neg e] at h'
                  have := hb.ext_range u' t' h'
                  simp only; omega
              · intro t' h1' h2'
                simp only at h2' ⊢
                by_cases e : t' = b.nextTypeId
                · exact ⟨u, by rw [mfind_minsert, if_pos rfl, e]⟩
                · obtain ⟨u', hu'⟩ := hb.ext_onto t' h1' (by omega)
                  have e' : u' ≠ u := by intro e'; rw [e', hf] at hu'; cases hu'
                  exact ⟨u', by rw [mfind_minsert, if_neg e']; exact hu'⟩
              · simp only; rw [offsetExt_eq]; omega
              · intro p hp
                have hp' : p ∈ minsert (keyOf typeIdEx b.nextTypeId) (uuidToData u) b.snap.raw.items := by
                  rw [← hitems1]; exact hp
                rcases mem_minsert hp' with rfl | hp'
                · left; simp only; rw [keyType_keyOf (by decide) (by omega), offsetExt_eq, typeIdEx_eq]; omega
                · rcases hb.types p hp' with h' | ⟨u', hu'⟩
                  · exact Or.inl h'
                  · have e' : u' ≠ u := by intro e'; rw [e', hf] at hu'; cases hu'
                    exact Or.inr ⟨u', by simp only; rw [mfind_minsert, if_neg e']; exact hu'⟩
            cases ha2 : raw1.addItem (keyOf b.nextTypeId id) data with
            | error e =>
              simp only [ha2] at h
              injection h with h; injection h with h1 h2; rw [← h1]; exact hb1
            | ok raw2 =>
              simp only [ha2] at h
              injection h with h; injection h with h1 h2
              rw [← h1]
              have hreg := (hok1.ext_reg u b.nextTypeId (by simp only; rw [mfind_minsert, if_pos rfl])).2.2
              have hok2 := extOk_add_item hok1 (t := b.nextTypeId) (by rw [typeIdEx_eq]; omega) (by omega)
                hid hd (Or.inr (by rw [hreg]; rfl)) ha2
              obtain ⟨hitems2, _⟩ := addItem_ok ha2
              refine ⟨hok2, hb1.ext_range, hb1.ext_onto, hb1.next_range, ?_⟩
              intro p hp
              have hp' : p ∈ minsert (keyOf b.nextTypeId id) data raw1.items := by rw [← hitems2]; exact hp
              rcases mem_minsert hp' with rfl | hp'
              · right; refine ⟨u, ?_⟩
                simp only; rw [keyType_keyOf (by omega) hid, mfind_minsert, if_pos rfl]
              · exact hb1.types p hp'

/-! ### `recycle` -/

theorem key_decomp {k : Int} (h0 : 0 ≤ k) (h : I32 k) : k = (keyType k : Int) * 65536 + (keyId k : Int) := by
  unfold I32 at h; unfold keyType keyId
  have h2 : 0 ≤ (k % 4294967296) / 65536 := by omega
  have h3 : 0 ≤ (k % 4294967296) % 65536 := by omega
  rw [Int.toNat_of_nonneg h2, Int.toNat_of_nonneg h3]
  omega

theorem keyOf_zero_eq {t : Nat} (h : t < 65536) : keyOf typeIdEx t = (t : Int) := by
  unfold keyOf wrap; rw [typeIdEx_eq]; split <;> omega

theorem recycleNext_range : ∀ (m : Items) (n N : Nat), Sorted m → (∀ p ∈ m, 0 ≤ p.1 ∧ I32 p.1) →
    n ≤ N → N ≤ 32768 → offsetExt ≤ n →
    (∀ p ∈ m, keyType p.1 = typeIdEx → n ≤ keyId p.1 ∧ keyId p.1 < N) →
    (∀ t, n ≤ t → t < N → keyOf typeIdEx t ∈ m.map Prod.fst) → recycleNext m n = some N := by
  intro m
  induction m with
  | nil =>
    intro n N _ _ hnN _ _ _ honto
    by_cases e : n = N
    · simp [recycleNext, e]
    · exfalso
      have := honto n (Nat.le_refl _) (by omega)
      simp at this
  | cons q r ih =>
    obtain ⟨k, d⟩ := q
    intro n N hs hpos hnN hN hoff hin honto
    rw [sorted_cons] at hs
    have hk0 : 0 ≤ k := (hpos (k, d) (by simp)).1
    have hkI : I32 k := (hpos (k, d) (by simp)).2
    have hdec : k = (keyType k : Int) * 65536 + (keyId k : Int) := key_decomp hk0 hkI
    rw [offsetExt_eq] at hoff
    by_cases ht : keyType k = typeIdEx
    · -- a registry item: it is the one with id `n`
      have h1 : n ≤ keyId k := (hin (k, d) (by simp) ht).1
      have h2 : keyId k < N := (hin (k, d) (by simp) ht).2
      have hk_eq : k = (keyId k : Int) := by
        rw [ht, typeIdEx_eq] at hdec; omega
      have hn_mem := honto n (Nat.le_refl _) (by omega)
      rw [keyOf_zero_eq (by omega)] at hn_mem
      simp only [List.map_cons, List.mem_cons] at hn_mem
      have hid : keyId k = n := by
        rcases hn_mem with e | hmem
        · omega
        · obtain ⟨p, hp, hpe⟩ := List.mem_map.mp hmem
          have := hs.1 p hp
          omega
      have c1 : offsetExt ≤ keyId k ∧ keyId k < 32768 := by rw [offsetExt_eq]; omega
      have c2 : ¬ n + 256 ≥ 65536 := by omega
      have c3 : keyId k < n + 256 := by omega
      simp only [recycleNext, ht, ne_eq, not_true_eq_false, if_false, c1, and_self, if_true, c2, c3]
      rw [hid]
      apply ih (n + 1) N hs.2 (fun p hp => hpos p (by simp [hp])) (by omega) hN (by rw [offsetExt_eq]; omega)
      · intro p hp hpt
        obtain ⟨h1', h2'⟩ := hin p (by simp [hp]) hpt
        refine ⟨?_, h2'⟩
        obtain ⟨hp0, hpI⟩ := hpos p (by simp [hp])
        have hdp := key_decomp hp0 hpI
        rw [hpt, typeIdEx_eq] at hdp
        have := hs.1 p hp
        omega
      · intro t ht1 ht2
        have := honto t (by omega) ht2
        simp only [List.map_cons, List.mem_cons] at this
        rcases this with e | hmem
        · exfalso
          rw [keyOf_zero_eq (by omega)] at e
          omega
        · exact hmem
    · -- the first non-registry item ends the loop: there is no registry item at all
      have hN' : n = N := by
        by_cases e : n = N
        · exact e
        · exfalso
          have hn_mem := honto n (Nat.le_refl _) (by omega)
          rw [keyOf_zero_eq (by omega)] at hn_mem
          have hkt : 1 ≤ keyType k := by
            have h' : keyType k ≠ 0 := by rw [← typeIdEx_eq]; exact ht
            omega
          have hkid := keyId_lt k
          simp only [List.map_cons, List.mem_cons] at hn_mem
          rcases hn_mem with e' | hmem
          · omega
          · obtain ⟨p, hp, hpe⟩ := List.mem_map.mp hmem
            have := hs.1 p hp
            omega
      simp [recycleNext, ht, hN']

theorem recycleAdd_eq_addAll : ∀ (ext : List (Int × Nat)) (raw : RawSnap),
    recycleAdd ext raw =
      match addAll (ext.map (fun p => (keyOf typeIdEx p.2, uuidToData p.1))) raw with
      | .ok r => some r
      | .err _ => none
      | .panic _ => none := by
  intro ext
  induction ext with
  | nil => intro raw; rfl
  | cons q r ih =>
    obtain ⟨u, t⟩ := q
    intro raw
    simp only [recycleAdd, List.map_cons, addAll]
    cases raw.addItem (keyOf typeIdEx t) (uuidToData u) with
    | error e => rfl
    | ok raw' => exact ih raw'

theorem addAll_WF : ∀ (l : Items) (s0 r : RawSnap), s0.WF → (∀ p ∈ l, I32 p.1 ∧ ∀ x ∈ p.2, I32 x) →
    addAll l s0 = .ok r → r.WF := by
  intro l
  induction l with
  | nil => intro s0 r h0 _ h; simp [addAll] at h; rw [← h]; exact h0
  | cons q l ih =>
    obtain ⟨k, d⟩ := q
    intro s0 r h0 hI h
    simp only [addAll] at h
    cases ha : s0.addItem k d with
    | error e => simp [ha] at h
    | ok s1 =>
      simp only [ha] at h
      have := hI (k, d) (by simp)
      exact ih s1 r (addItem_WF h0 this.1 this.2 ha) (fun p hp => hI p (by simp [hp])) h

theorem mfind_of_mem_nodup {α : Type} : ∀ (l : List (Int × α)) (k : Int) (v : α), (l.map Prod.fst).Nodup →
    (k, v) ∈ l → mfind k l = some v := by
  intro l
  induction l with
  | nil => intro k v _ h; simp at h
  | cons q l ih =>
    obtain ⟨k', v'⟩ := q
    intro k v hnd h
    simp only [List.map_cons, List.nodup_cons] at hnd
    simp only [List.mem_cons, Prod.mk.injEq] at h
    rcases h with ⟨e1, e2⟩ | h
    · subst e1 e2; simp [mfind]
    · have hne : k ≠ k' := by
        intro e
        apply hnd.1
        rw [← e]
        exact mem_keys_of_mem h
      simp only [mfind, hne, if_false]
      exact ih k v hnd.2 h

theorem nodup_map_of_sorted {α β : Type} (g : Int × α → β) : ∀ (ext : List (Int × α)), Sorted ext →
    (∀ p ∈ ext, ∀ q ∈ ext, g p = g q → p.1 = q.1) → (ext.map g).Nodup := by
  intro ext
  induction ext with
  | nil => intro _ _; simp
  | cons a r ih =>
    obtain ⟨u, t⟩ := a
    intro hs hinj
    rw [sorted_cons] at hs
    simp only [List.map_cons, List.nodup_cons]
    refine ⟨?_, ih hs.2 (fun p hp q hq => hinj p (by simp [hp]) q (by simp [hq]))⟩
    intro hmem
    obtain ⟨q, hq, he⟩ := List.mem_map.mp hmem
    have := hinj (u, t) (by simp) q (by simp [hq]) he.symm
    have hlt := hs.1 q hq
    simp only at this
    omega

theorem nonneg_of_type_lt {k : Int} (h : I32 k) (ht : keyType k < 32768) : 0 ≤ k := by
  unfold I32 at h; unfold keyType at ht
  omega

/-- `Snap::recycle` of a builder-made snapshot: it succeeds, keeps every UUID type with its number,
re-inserts the registry items, and continues numbering after the highest number in use. -/
theorem Builder.recycle_inv {b : Builder} (hb : b.Inv) :
    ∃ b', b.snap.recycle = some b' ∧ b'.Inv ∧ b'.snap.ext = b.snap.ext ∧ b'.nextTypeId = b.nextTypeId := by
  obtain ⟨hS, hI, hN, hZ⟩ := hb.ok.raw_wf
  obtain ⟨hnr1, hnr2⟩ := hb.next_range
  -- numbering
  have hnext : recycleNext b.snap.raw.items offsetExt = some b.nextTypeId := by
    apply recycleNext_range _ _ _ hS _ hnr1 hnr2 (Nat.le_refl _)
    · intro p hp hpt
      obtain ⟨u, hu, _⟩ := hb.ok.reg_ext p hp hpt
      exact hb.ext_range u _ hu
    · intro t ht1 ht2
      obtain ⟨u, hu⟩ := hb.ext_onto t ht1 ht2
      have := (hb.ok.ext_reg u t hu).2.2
      exact mem_keys_of_mem (mem_of_mfind this)
    · intro p hp
      refine ⟨?_, (hI p hp).1⟩
      apply nonneg_of_type_lt (hI p hp).1
      rcases hb.types p hp with h | ⟨u, hu⟩
      · rw [offsetExt_eq] at h; omega
      · have := (hb.ext_range u _ hu).2; omega
  -- re-insertion of the registry items
  let f : Int × Nat → Int × List Int := fun p => (keyOf typeIdEx p.2, uuidToData p.1)
  have hmemf : ∀ p ∈ b.snap.ext.map f, ∃ u t, mfind u b.snap.ext = some t ∧ p = (keyOf typeIdEx t, uuidToData u) := by
    intro p hp
    obtain ⟨q, hq, he⟩ := List.mem_map.mp hp
    obtain ⟨u, t⟩ := q
    exact ⟨u, t, mfind_of_mem hb.ok.ext_sorted hq, he.symm⟩
  have hnd : ((b.snap.ext.map f).map Prod.fst).Nodup := by
    have e : (b.snap.ext.map f).map Prod.fst = b.snap.ext.map (fun p => keyOf typeIdEx p.2) := by
      rw [List.map_map]; rfl
    rw [e]
    apply nodup_map_of_sorted _ _ hb.ok.ext_sorted
    intro p hp q hq he
    obtain ⟨u1, t1⟩ := p
    obtain ⟨u2, t2⟩ := q
    have h1 := hb.ok.ext_reg u1 t1 (mfind_of_mem hb.ok.ext_sorted hp)
    have h2 := hb.ok.ext_reg u2 t2 (mfind_of_mem hb.ok.ext_sorted hq)
    have he' : keyOf typeIdEx t1 = keyOf typeIdEx t2 := he
    have h3 : mfind (keyOf typeIdEx t2) b.snap.raw.items = some (uuidToData u1) := he' ▸ h1.2.2
    have h4 : some (uuidToData u1) = some (uuidToData u2) := h3.symm.trans h2.2.2
    exact uuidToData_inj h1.1 h2.1 (Option.some.inj h4)
  obtain ⟨r, hr, hrs, hrf⟩ := addAll_spec b.snap.raw.items hS ⟨hN, hZ⟩ (b.snap.ext.map f) RawSnap.empty
    sorted_nil (by intro k v h; simp [RawSnap.empty, mfind] at h)
    (by
      intro p hp
      obtain ⟨u, t, hu, rfl⟩ := hmemf p hp
      exact (hb.ok.ext_reg u t hu).2.2)
    (by intro p _; simp [RawSnap.empty, mfind]) hnd
  have hrwf : r.WF := addAll_WF _ _ _ empty_WF (by
    intro p hp
    obtain ⟨u, t, hu, rfl⟩ := hmemf p hp
    exact ⟨keyOf_I32 _ _, uuidToData_I32 u⟩) hr
  have hrf' : ∀ k, mfind k r.items = mfind k (b.snap.ext.map f) := by
    intro k; rw [hrf k]; simp [RawSnap.empty, mfind]
  have hrmem : ∀ p ∈ r.items, ∃ u t, mfind u b.snap.ext = some t ∧ p = (keyOf typeIdEx t, uuidToData u) := by
    intro p hp
    obtain ⟨pk, pv⟩ := p
    have := mfind_of_mem hrs hp
    rw [hrf'] at this
    exact hmemf (pk, pv) (mem_of_mfind this)
  refine ⟨⟨⟨r, b.snap.ext⟩, b.nextTypeId⟩, ?_, ?_, rfl, rfl⟩
  · unfold Snap.recycle
    rw [hnext]
    simp only
    rw [recycleAdd_eq_addAll, hr]
  · refine ⟨⟨hrwf, hb.ok.ext_sorted, ?_, ?_, ?_⟩, hb.ext_range, hb.ext_onto, hb.next_range, ?_⟩
    · intro u t hu
      obtain ⟨h1, h2, _⟩ := hb.ok.ext_reg u t hu
      refine ⟨h1, h2, ?_⟩
      show mfind (keyOf typeIdEx t) r.items = some (uuidToData u)
      rw [hrf']
      apply mfind_of_mem_nodup _ _ _ hnd
      exact List.mem_map.mpr ⟨(u, t), mem_of_mfind hu, rfl⟩
    · intro p hp _
      obtain ⟨u, t, hu, rfl⟩ := hrmem p hp
      refine ⟨u, ?_, rfl⟩
      show mfind u b.snap.ext = some (keyId (keyOf typeIdEx t))
      rw [keyId_keyOf (by decide) (hb.ok.ext_reg u t hu).2.1]
      exact hu
    · intro p hp hge
      exfalso
      obtain ⟨u, t, hu, rfl⟩ := hrmem p hp
      simp only at hge
      rw [keyType_keyOf (by decide) (hb.ok.ext_reg u t hu).2.1, offsetExt_eq, typeIdEx_eq] at hge
      omega
    · intro p hp
      left
      obtain ⟨u, t, hu, rfl⟩ := hrmem p hp
      show keyType (keyOf typeIdEx t) < offsetExt
      rw [keyType_keyOf (by decide) (hb.ok.ext_reg u t hu).2.1, offsetExt_eq, typeIdEx_eq]
      omega

end Tw.Snap
