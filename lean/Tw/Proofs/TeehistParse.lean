import Tw.Model.Teehistorian

/-! Prefix monotonicity of the teehistorian item parsers (`Tw.Model.Teehistorian`). -/
namespace Tw.Teehistorian
open Tw.Packer

/-- A parser is *good* when a result obtained on a prefix is final: an `ok` consumed a prefix of
the input and is reproduced (with the untouched suffix carried along) on every extension of the
input; an `err` is reproduced on every extension. -/
def Good {α : Type} (p : Parser α) : Prop :=
  ∀ inp : List UInt8,
    (∀ x r, p inp = .ok x r → (∃ pre, inp = pre ++ r) ∧ ∀ q, p (inp ++ q) = .ok x (r ++ q)) ∧
    (∀ e, p inp = .err e → ∀ q, p (inp ++ q) = .err e)

theorem good_pure {α : Type} (x : α) : Good (Parser.pure x) := by
  intro inp
  refine ⟨?_, ?_⟩
  · intro y r h
    simp only [Parser.pure, PR.ok.injEq] at h
    obtain ⟨rfl, rfl⟩ := h
    exact ⟨⟨[], rfl⟩, fun q => rfl⟩
  · intro e h; simp [Parser.pure] at h

theorem good_fail {α : Type} (e : ItemErr) : Good (Parser.fail e : Parser α) := by
  intro inp
  refine ⟨?_, ?_⟩
  · intro y r h; simp [Parser.fail] at h
  · intro e' h q; simpa [Parser.fail] using h

theorem good_andThen {α β : Type} {p : Parser α} {f : α → Parser β}
    (hp : Good p) (hf : ∀ x, Good (f x)) : Good (p.andThen f) := by
  intro inp
  refine ⟨?_, ?_⟩
  · intro y r h
    unfold Parser.andThen at h ⊢
    cases hpi : p inp with
    | needMore => rw [hpi] at h; simp [PR.bind] at h
    | err e => rw [hpi] at h; simp [PR.bind] at h
    | ok x r1 =>
      rw [hpi] at h
      simp only [PR.bind] at h
      obtain ⟨⟨pre1, h1⟩, hq1⟩ := (hp inp).1 x r1 hpi
      obtain ⟨⟨pre2, h2⟩, hq2⟩ := (hf x r1).1 y r h
      refine ⟨⟨pre1 ++ pre2, by rw [h1, h2, List.append_assoc]⟩, ?_⟩
      intro q
      rw [hq1 q]
      simp only [PR.bind]
      exact hq2 q
  · intro e h q
    unfold Parser.andThen at h ⊢
    cases hpi : p inp with
    | needMore => rw [hpi] at h; simp [PR.bind] at h
    | err e' =>
      rw [hpi] at h
      simp only [PR.bind, PR.err.injEq] at h
      rw [(hp inp).2 e' hpi q]
      simp [PR.bind, h]
    | ok x r1 =>
      rw [hpi] at h
      simp only [PR.bind] at h
      rw [((hp inp).1 x r1 hpi).2 q]
      simp only [PR.bind]
      exact (hf x r1).2 e h q

theorem good_ite {α : Type} {c : Prop} [Decidable c] {p q : Parser α} (hp : Good p) (hq : Good q) :
    Good (if c then p else q) := by
  split <;> assumption

/-! ### Primitive readers -/

theorem readTail_append (n : Nat) :
    ∀ (acc : Nat) (src : UInt8) (len : Nat) (rest : List UInt8) (ws : List Warning)
      (acc' : Nat) (src' : UInt8) (len' : Nat) (rest' : List UInt8) (ws' : List Warning),
      readTail n acc src len rest ws = some (acc', src', len', rest', ws') →
      (∃ pre, rest = pre ++ rest') ∧
      ∀ q, readTail n acc src len (rest ++ q) ws = some (acc', src', len', rest' ++ q, ws') := by
  induction n with
  | zero =>
    intro acc src len rest ws acc' src' len' rest' ws' h
    simp only [readTail, Option.some.injEq, Prod.mk.injEq] at h
    obtain ⟨rfl, rfl, rfl, rfl, rfl⟩ := h
    exact ⟨⟨[], rfl⟩, fun q => by simp [readTail]⟩
  | succ n ih =>
    intro acc src len rest ws acc' src' len' rest' ws' h
    unfold readTail at h
    by_cases hs : src.toNat < 128
    · simp only [hs, if_true, Option.some.injEq, Prod.mk.injEq] at h
      obtain ⟨rfl, rfl, rfl, rfl, rfl⟩ := h
      exact ⟨⟨[], rfl⟩, fun q => by unfold readTail; simp [hs]⟩
    · simp only [hs, if_false] at h
      cases rest with
      | nil => simp at h
      | cons b rest1 =>
        simp only at h
        obtain ⟨⟨pre, hpre⟩, hq⟩ := ih _ _ _ _ _ _ _ _ _ _ h
        refine ⟨⟨b :: pre, by rw [hpre]; rfl⟩, ?_⟩
        intro q
        unfold readTail
        simp only [hs, if_false, List.cons_append]
        exact hq q

theorem readInt_append {inp : List UInt8} {v : Int} {rest : List UInt8} {ws : List Warning}
    (h : readInt inp = some (v, rest, ws)) :
    (∃ pre, inp = pre ++ rest) ∧ ∀ q, readInt (inp ++ q) = some (v, rest ++ q, ws) := by
  cases inp with
  | nil => simp [readInt] at h
  | cons b0 tl =>
    unfold readInt at h
    simp only at h
    cases ht : readTail 4 (b0.toNat % 64) b0 1 tl [] with
    | none => rw [ht] at h; simp at h
    | some t =>
      obtain ⟨acc, src, len, rest', ws0⟩ := t
      rw [ht] at h
      simp only [Option.some.injEq, Prod.mk.injEq] at h
      obtain ⟨hv, hr, hw⟩ := h
      obtain ⟨⟨pre, hpre⟩, hq⟩ := readTail_append 4 _ _ _ _ _ _ _ _ _ _ ht
      subst hr
      refine ⟨⟨b0 :: pre, by rw [hpre]; rfl⟩, ?_⟩
      intro q
      unfold readInt
      simp only [List.cons_append]
      rw [hq q]
      simp only [Option.some.injEq, Prod.mk.injEq]
      exact ⟨hv, by trivial, hw⟩

theorem readString_append : ∀ {inp s rest : List UInt8}, readString inp = some (s, rest) →
    (∃ pre, inp = pre ++ rest) ∧ ∀ q, readString (inp ++ q) = some (s, rest ++ q) := by
  intro inp
  induction inp with
  | nil => intro s rest h; simp [readString] at h
  | cons b bs ih =>
    intro s rest h
    unfold readString at h
    by_cases hb : b = 0
    · simp only [hb, if_true, Option.some.injEq, Prod.mk.injEq] at h
      obtain ⟨rfl, rfl⟩ := h
      exact ⟨⟨[b], by simp⟩, fun q => by simp [readString, hb]⟩
    · simp only [hb, if_false] at h
      cases hr : readString bs with
      | none => rw [hr] at h; simp at h
      | some t =>
        obtain ⟨s1, rest1⟩ := t
        rw [hr] at h
        simp only [Option.some.injEq, Prod.mk.injEq] at h
        obtain ⟨rfl, rfl⟩ := h
        obtain ⟨⟨pre, hpre⟩, hq⟩ := ih hr
        refine ⟨⟨b :: pre, by rw [hpre]; rfl⟩, ?_⟩
        intro q
        simp only [List.cons_append]
        unfold readString
        simp only [hb, if_false]
        rw [hq q]

theorem good_pInt : Good pInt := by
  intro inp
  refine ⟨?_, ?_⟩
  · intro x r h
    unfold pInt at h
    cases hr : readInt inp with
    | none => rw [hr] at h; simp at h
    | some t =>
      obtain ⟨v, rest, ws⟩ := t
      rw [hr] at h
      simp only [PR.ok.injEq] at h
      obtain ⟨rfl, rfl⟩ := h
      obtain ⟨hpre, hq⟩ := readInt_append hr
      exact ⟨hpre, fun q => by unfold pInt; rw [hq q]⟩
  · intro e h
    unfold pInt at h
    cases hr : readInt inp with
    | none => rw [hr] at h; simp at h
    | some t => obtain ⟨v, rest, ws⟩ := t; rw [hr] at h; simp at h

theorem good_pStr : Good pStr := by
  intro inp
  refine ⟨?_, ?_⟩
  · intro x r h
    unfold pStr at h
    cases hr : readString inp with
    | none => rw [hr] at h; simp at h
    | some t =>
      obtain ⟨s, rest⟩ := t
      rw [hr] at h
      simp only [PR.ok.injEq] at h
      obtain ⟨rfl, rfl⟩ := h
      obtain ⟨hpre, hq⟩ := readString_append hr
      exact ⟨hpre, fun q => by unfold pStr; rw [hq q]⟩
  · intro e h
    unfold pStr at h
    cases hr : readString inp with
    | none => rw [hr] at h; simp at h
    | some t => obtain ⟨s, rest⟩ := t; rw [hr] at h; simp at h

theorem good_pRaw (n : Nat) : Good (pRaw n) := by
  intro inp
  refine ⟨?_, ?_⟩
  · intro x r h
    unfold pRaw at h
    by_cases hl : inp.length < n
    · simp [hl] at h
    · simp only [hl, if_false, PR.ok.injEq] at h
      obtain ⟨rfl, rfl⟩ := h
      refine ⟨⟨inp.take n, (List.take_append_drop n inp).symm⟩, ?_⟩
      intro q
      unfold pRaw
      have hn : n ≤ inp.length := Nat.le_of_not_lt hl
      have : ¬ (inp ++ q).length < n := by simp; omega
      simp only [this, if_false]
      rw [List.take_append_of_le_length hn, List.drop_append_of_le_length hn]
  · intro e h
    unfold pRaw at h
    by_cases hl : inp.length < n <;> simp [hl] at h

theorem good_pData : Good pData := by
  intro inp
  refine ⟨?_, ?_⟩
  · intro x r h
    unfold pData at h
    cases hr : readInt inp with
    | none => rw [hr] at h; simp at h
    | some t =>
      obtain ⟨v, rest, ws⟩ := t
      rw [hr] at h
      simp only at h
      by_cases hv : v < 0
      · simp [hv] at h
      · by_cases hl : v.toNat > rest.length
        · simp [hv, hl] at h
        · simp only [hv, hl, if_false, PR.ok.injEq] at h
          obtain ⟨rfl, rfl⟩ := h
          obtain ⟨⟨pre, hpre⟩, hq⟩ := readInt_append hr
          have hn : v.toNat ≤ rest.length := Nat.le_of_not_lt hl
          refine ⟨⟨pre ++ rest.take v.toNat, ?_⟩, ?_⟩
          · rw [List.append_assoc, List.take_append_drop]; exact hpre
          · intro q
            unfold pData
            rw [hq q]
            have : ¬ v.toNat > (rest ++ q).length := by simp; omega
            simp only [hv, this, if_false]
            rw [List.take_append_of_le_length hn, List.drop_append_of_le_length hn]
  · intro e h
    unfold pData at h
    cases hr : readInt inp with
    | none => rw [hr] at h; simp at h
    | some t =>
      obtain ⟨v, rest, ws⟩ := t
      rw [hr] at h
      simp only at h
      by_cases hv : v < 0
      · simp [hv] at h
      · by_cases hl : v.toNat > rest.length <;> simp [hv, hl] at h

theorem good_pInts : ∀ n, Good (pInts n)
  | 0 => good_pure _
  | n + 1 => good_andThen good_pInt fun _ => good_andThen (good_pInts n) fun _ => good_pure _

theorem good_pArgs : ∀ n acc, Good (pArgs n acc)
  | 0, acc => good_pure _
  | n + 1, acc => by
    unfold pArgs
    refine good_andThen good_pStr fun s => ?_
    by_cases h : acc.length ≥ Gen.Teehistorian.CONSOLE_COMMAND_MAX_ARGS
    · simp only [h, if_true]; exact good_fail _
    · simp only [h, if_false]; exact good_pArgs n _

/-- The extension payload is decoded from the already complete `data`: the result does not depend
on what follows the record. -/
theorem good_decodeExPayload (uuid data : List UInt8) : Good (decodeExPayload uuid data) := by
  intro inp
  unfold decodeExPayload
  cases exTable.find? (fun r => r.uuid == uuid) with
  | none =>
    refine ⟨?_, ?_⟩
    · intro x r h
      simp only [PR.ok.injEq] at h
      obtain ⟨rfl, rfl⟩ := h
      exact ⟨⟨[], rfl⟩, fun q => rfl⟩
    · intro e h; simp at h
  | some row =>
    simp only
    cases pFields row.fields data with
    | needMore => exact ⟨fun x r h => by simp at h, fun e h => by simp at h⟩
    | err e => exact ⟨fun x r h => by simp at h, fun e' h q => by simpa using h⟩
    | ok vals rest' =>
      refine ⟨?_, ?_⟩
      · intro x r h
        simp only [PR.ok.injEq] at h
        obtain ⟨rfl, rfl⟩ := h
        exact ⟨⟨[], rfl⟩, fun q => rfl⟩
      · intro e h; simp at h

theorem good_kindOfId (hasEx : Bool) (i : Int) : Good (kindOfId hasEx i) := by
  unfold kindOfId
  exact good_ite (good_pure _) <| good_ite (good_pure _) <| good_ite (good_pure _) <|
    good_ite (good_andThen good_pInt fun _ => good_pure _) <|
    good_ite (good_andThen good_pInt fun _ => good_pure _) <|
    good_ite (good_pure _) <| good_ite (good_pure _) <| good_ite (good_pure _) <|
    good_ite (good_pure _) <| good_ite (good_pure _) <| good_ite (good_pure _) <|
    good_ite (good_pure _) (good_fail _)

theorem good_parseKind (hasEx : Bool) : Good (parseKind hasEx) :=
  good_andThen good_pInt (good_kindOfId hasEx)

theorem good_parseRest (k : Kind) : Good (parseRest k) := by
  cases k with
  | playerDiff cid =>
    exact good_andThen good_pInt fun _ => good_andThen good_pInt fun _ => good_pure _
  | finish => exact good_pure _
  | tickSkip =>
    refine good_andThen good_pInt fun dt => ?_
    by_cases h : dt < 0
    · simp only [h, if_true]; exact good_fail _
    · simp only [h, if_false]; exact good_pure _
  | playerNew cid =>
    exact good_andThen good_pInt fun _ => good_andThen good_pInt fun _ => good_pure _
  | playerOld cid => exact good_pure _
  | inputDiff =>
    exact good_andThen good_pInt fun _ => good_andThen (good_pInts _) fun _ => good_pure _
  | inputNew =>
    exact good_andThen good_pInt fun _ => good_andThen (good_pInts _) fun _ => good_pure _
  | message =>
    exact good_andThen good_pInt fun _ => good_andThen good_pData fun _ => good_pure _
  | join => exact good_andThen good_pInt fun _ => good_pure _
  | drop =>
    exact good_andThen good_pInt fun _ => good_andThen good_pStr fun _ => good_pure _
  | consoleCommand =>
    refine good_andThen good_pInt fun _ => good_andThen good_pInt fun _ =>
      good_andThen good_pStr fun _ => good_andThen good_pInt fun n => ?_
    by_cases h : n < 0
    · simp only [h, if_true]; exact good_fail _
    · simp only [h, if_false]
      exact good_andThen (good_pArgs _ _) fun _ => good_pure _
  | ex =>
    exact good_andThen (good_pRaw 16) fun _ => good_andThen good_pData fun _ =>
      good_decodeExPayload _ _

theorem good_pHeader (json : List UInt8 → Except Nat Int) : Good (pHeader json) := by
  unfold pHeader
  exact good_andThen (good_pRaw _) fun _ =>
    good_ite (good_pure _) (good_andThen good_pStr fun _ => good_pure _)

/-- A good parser that still needs more on the whole input needs more on every prefix. -/
theorem Good.needMore_prefix {α : Type} {p : Parser α} (hp : Good p) {inp q : List UInt8}
    (h : p (inp ++ q) = .needMore) : p inp = .needMore := by
  cases hpi : p inp with
  | needMore => rfl
  | err e => rw [(hp inp).2 e hpi q] at h; simp at h
  | ok x r => rw [((hp inp).1 x r hpi).2 q] at h; simp at h

theorem Good.rest_le {α : Type} {p : Parser α} (hp : Good p) {inp r : List UInt8} {x : α}
    (h : p inp = .ok x r) : r.length ≤ inp.length := by
  obtain ⟨⟨pre, hpre⟩, _⟩ := (hp inp).1 x r h
  rw [hpre]; simp

theorem pInt_consumes {inp r : List UInt8} {v : Int} (h : pInt inp = .ok v r) :
    r.length < inp.length := by
  unfold pInt at h
  cases hr : readInt inp with
  | none => rw [hr] at h; simp at h
  | some t =>
    obtain ⟨v', rest', ws⟩ := t
    rw [hr] at h
    simp only [PR.ok.injEq] at h
    obtain ⟨_, rfl⟩ := h
    cases inp with
    | nil => simp [readInt] at hr
    | cons b0 tl =>
      unfold readInt at hr
      simp only at hr
      cases ht : readTail 4 (b0.toNat % 64) b0 1 tl [] with
      | none => rw [ht] at hr; simp at hr
      | some t =>
        obtain ⟨acc, src, len, rest'', ws0⟩ := t
        rw [ht] at hr
        simp only [Option.some.injEq, Prod.mk.injEq] at hr
        obtain ⟨_, rfl, _⟩ := hr
        obtain ⟨⟨pre, hpre⟩, _⟩ := readTail_append 4 _ _ _ _ _ _ _ _ _ _ ht
        rw [hpre]; simp; omega

/-- The item id always costs at least one byte. -/
theorem parseKind_consumes {hasEx : Bool} {inp rest : List UInt8} {k : Kind}
    (h : parseKind hasEx inp = .ok k rest) : rest.length < inp.length := by
  unfold parseKind Parser.andThen at h
  cases hpi : pInt inp with
  | needMore => rw [hpi] at h; simp [PR.bind] at h
  | err e => rw [hpi] at h; simp [PR.bind] at h
  | ok i r1 =>
    rw [hpi] at h
    simp only [PR.bind] at h
    have h1 := pInt_consumes hpi
    have h2 := (good_kindOfId hasEx i).rest_le h
    omega

end Tw.Teehistorian
