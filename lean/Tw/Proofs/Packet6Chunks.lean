import Tw.Model.Packet6
import Tw.Proofs.Packet6Write
import Tw.Proofs.PacketChunksRT
import Tw.Proofs.PacketIterInst

/-! Chunk list ↔ chunk iterator round trip for protocol.rs (0.6). -/
namespace Tw.Packet6
open Tw.Packet Tw.PacketBits

/-- flags of a written chunk header -/
def chunkFlagsOf (v : Option (Nat × Bool)) : Nat :=
  (if v.isSome then Tw.Gen.Packet6.CHUNKFLAG_VITAL else 0) |||
    (if (v.getD (0, false)).2 then Tw.Gen.Packet6.CHUNKFLAG_RESEND else 0)

/-- the header bytes `write_chunk` produces -/
def chunkHdr (d : List UInt8) (v : Option (Nat × Bool)) : List UInt8 :=
  match v with
  | none => ofNat2 (d.length / 16, d.length % 16)
  | some (q, r) =>
    ofNat3 (chunkFlagsOf (some (q, r)) * 64 + d.length / 16, q / 256 * 64 + q / 64 % 4 * 16 + d.length % 16, q % 256)

def ChunkOk (d : List UInt8) (v : Option (Nat × Bool)) : Prop :=
  d.length < 1024 ∧ ∀ q r, v = some (q, r) → q < 1024

theorem chunkFlagsOf_cases (q : Nat) (r : Bool) :
    chunkFlagsOf (some (q, r)) = if r then 3 else 1 := by
  cases r <;> simp [chunkFlagsOf, Tw.Gen.Packet6.CHUNKFLAG_VITAL, Tw.Gen.Packet6.CHUNKFLAG_RESEND]

theorem chv_unpack_packed (v : ChunkHeaderVital) (hf : v.h.flags < 4) (hs : v.h.size < 1024) (hq : v.sequence < 1024) :
    chunkHeaderVitalUnpackWarn (v.h.flags * 64 + v.h.size / 16)
      (v.sequence / 256 * 64 + v.sequence / 64 % 4 * 16 + v.h.size % 16) (v.sequence % 256) = (v, []) := by
  obtain ⟨b0, b1, b2, hp, _, _, _, hu⟩ := chv_unpack_pack v hf hs hq
  rw [chv_pack_eq v hf hs hq] at hp
  simp only [Option.some.injEq, Prod.mk.injEq] at hp
  obtain ⟨rfl, rfl, rfl⟩ := hp
  exact hu

/-- two bounded writes in a row -/
theorem bufWrite2 (cap : Nat) (acc hb d : List UInt8) :
    (match bufWrite cap acc hb with
      | none => ChunkWriteResult.capacity
      | some b1 =>
        match bufWrite cap b1 d with
        | none => ChunkWriteResult.capacity
        | some b2 => ChunkWriteResult.ok b2) =
    if acc.length + hb.length + d.length ≤ cap then .ok (acc ++ hb ++ d) else .capacity := by
  unfold bufWrite
  by_cases h1 : acc.length + hb.length ≤ cap
  · rw [if_pos h1]
    simp only [List.length_append]
    by_cases h2 : acc.length + hb.length + d.length ≤ cap
    · rw [if_pos h2, if_pos h2]
    · rw [if_neg h2, if_neg h2]
  · rw [if_neg h1, if_neg (by omega)]

theorem writeChunk_char (d : List UInt8) (v : Option (Nat × Bool)) (cap : Nat) (acc : List UInt8)
    (hok : ChunkOk d v) :
    writeChunk d v cap acc =
      if acc.length + (chunkHdr d v).length + d.length ≤ cap then .ok (acc ++ chunkHdr d v ++ d)
      else .capacity := by
  obtain ⟨hd, hq⟩ := hok
  unfold writeChunk
  have h1 : ¬ (d.length >>> Tw.Gen.Packet6.CHUNK_SIZE_BITS ≠ 0) := by
    simp only [Tw.Gen.Packet6.CHUNK_SIZE_BITS, Nat.shiftRight_eq_div_pow]; omega
  rw [if_neg h1]
  cases v with
  | none =>
    simp only [Option.getD_none, Option.isSome_none, Bool.false_eq_true, if_false, chunkHdr]
    rw [ch_pack_eq ⟨0 ||| 0, d.length⟩ (by simp only; decide) hd]
    simp only [Option.map_some]
    have e : (0 ||| 0) * 64 + d.length / 16 = d.length / 16 := by simp
    rw [e]
    exact bufWrite2 cap acc _ d
  | some qr =>
    obtain ⟨q, r⟩ := qr
    have hq' := hq q r rfl
    simp only [Option.getD_some, Option.isSome_some, if_true, chunkHdr]
    have hfl : chunkFlagsOf (some (q, r)) < 4 := by rw [chunkFlagsOf_cases]; split <;> omega
    have e : (Tw.Gen.Packet6.CHUNKFLAG_VITAL ||| if r = true then Tw.Gen.Packet6.CHUNKFLAG_RESEND else 0) =
        chunkFlagsOf (some (q, r)) := rfl
    rw [e, chv_pack_eq ⟨⟨chunkFlagsOf (some (q, r)), d.length⟩, q⟩ hfl hd hq']
    simp only [Option.map_some]
    exact bufWrite2 cap acc _ d

theorem writeChunkList_eq (cs : List (List UInt8 × Option (Nat × Bool))) (hok : ∀ x ∈ cs, ChunkOk x.1 x.2) :
    ∀ (cap : Nat) (acc bs : List UInt8), writeChunkList cs cap acc = .ok bs →
      bs = acc ++ encodeChunks chunkHdr cs := by
  induction cs with
  | nil =>
    intro cap acc bs h
    simp only [writeChunkList, ChunkWriteResult.ok.injEq] at h
    simp [encodeChunks, h]
  | cons x xs ih =>
    intro cap acc bs h
    obtain ⟨d, v⟩ := x
    unfold writeChunkList at h
    have hx : ChunkOk d v := hok (d, v) (by simp)
    rw [writeChunk_char d v cap acc hx] at h
    by_cases hfit : acc.length + (chunkHdr d v).length + d.length ≤ cap
    · rw [if_pos hfit] at h
      have := ih (fun y hy => hok y (by simp [hy])) cap _ bs h
      rw [this]
      simp [encodeChunks]
    · rw [if_neg hfit] at h
      simp at h

/-- what `read_chunk_header` returns on a header `write_chunk` produced -/
theorem chunkEnc : ChunkEnc codec chunkHdr ChunkOk := by
  refine ⟨?_, ?_, ?_⟩
  · intro d v rest hok
    obtain ⟨hd, hq⟩ := hok
    cases v with
    | none =>
      refine ⟨⟨0, d.length⟩, ?_, rfl, by intro q r h; cases h⟩
      show readChunkHeader (UInt8.ofNat (d.length / 16) :: UInt8.ofNat (d.length % 16) :: (d ++ rest)) = _
      unfold readChunkHeader
      simp only [toNat_ofNat_lt _ (show d.length / 16 < 256 by omega),
        toNat_ofNat_lt _ (show d.length % 16 < 256 by omega), ch_unpack_eq]
      have e1 : d.length / 16 / 64 % 4 = 0 := by omega
      have e2 : d.length / 16 % 64 * 16 + d.length % 16 % 16 = d.length := by omega
      have e3 : ¬ (d.length % 16 / 16 % 16 ≠ 0) := by omega
      simp only [e1, e2, if_neg e3]
      rfl
    | some qr =>
      obtain ⟨q, r⟩ := qr
      have hq' := hq q r rfl
      have hfc := chunkFlagsOf_cases q r
      have hfl : chunkFlagsOf (some (q, r)) < 4 := by rw [hfc]; split <;> omega
      refine ⟨⟨chunkFlagsOf (some (q, r)), d.length⟩, ?_, rfl, ?_⟩
      · show readChunkHeader (UInt8.ofNat (chunkFlagsOf (some (q, r)) * 64 + d.length / 16) ::
          UInt8.ofNat (q / 256 * 64 + q / 64 % 4 * 16 + d.length % 16) :: UInt8.ofNat (q % 256) :: (d ++ rest)) = _
        unfold readChunkHeader
        simp only [toNat_ofNat_lt _ (show chunkFlagsOf (some (q, r)) * 64 + d.length / 16 < 256 by omega),
          toNat_ofNat_lt _ (show q / 256 * 64 + q / 64 % 4 * 16 + d.length % 16 < 256 by omega),
          toNat_ofNat_lt _ (show q % 256 < 256 by omega)]
        have hv := chv_unpack_packed ⟨⟨chunkFlagsOf (some (q, r)), d.length⟩, q⟩ hfl hd hq'
        simp only at hv
        rw [hv, ch_unpack_eq]
        have e1 : (chunkFlagsOf (some (q, r)) * 64 + d.length / 16) / 64 % 4 = chunkFlagsOf (some (q, r)) := by omega
        have hvit : chunkFlagsOf (some (q, r)) &&& Tw.Gen.Packet6.CHUNKFLAG_VITAL ≠ 0 := by
          rw [hfc]; cases r <;> decide
        simp only [e1]
        rw [if_pos hvit]
        rfl
      · intro q' r' h
        simp only [Option.some.injEq, Prod.mk.injEq] at h
        obtain ⟨rfl, rfl⟩ := h
        show decide (chunkFlagsOf (some (q, r)) &&& Tw.Gen.Packet6.CHUNKFLAG_RESEND ≠ 0) = r
        rw [hfc]; cases r <;> decide
  · intro d v
    cases v with
    | none => rfl
    | some qr => obtain ⟨q, r⟩ := qr; rfl
  · intro b
    cases b <;> decide

/-- **chunk list ↔ chunk iterator (0.6)**: serialising a list of chunks (each shorter than 1024 bytes,
sequence numbers below 1024) with `write_chunk` and iterating the bytes with `ChunksIter` (told the
number of chunks) returns exactly the list — data and vital/sequence/resend — with no warning. -/
theorem chunkList_roundtrip (cs : List (List UInt8 × Option (Nat × Bool))) (hok : ∀ x ∈ cs, ChunkOk x.1 x.2)
    (cap : Nat) (bs : List UInt8) (hw : writeChunkList cs cap [] = .ok bs) :
    (((Iter.new bs cs.length).drain codec).1.map fun ch => (ch.data, ch.vital)) = cs ∧
    ((Iter.new bs cs.length).drain codec).2.1 = [] ∧ ((Iter.new bs cs.length).drain codec).2.2.2 = false := by
  have hbs := writeChunkList_eq cs hok cap [] bs hw
  simp only [List.nil_append] at hbs
  exact Iter.drain_encoded codec chunkHdr ChunkOk chunkEnc cs hok (Iter.new bs cs.length)
    (by simp [Iter.new, hbs]) rfl rfl _ (Nat.lt_succ_self _)

end Tw.Packet6
