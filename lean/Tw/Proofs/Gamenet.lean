import Tw.Model.GamenetTyping
import Tw.Proofs.Packer

/-! Helper lemmas for C14 (interpreter over the protocol description language). -/
namespace Tw.Gamenet
open Tw.Packer (Warning readInt writeInt readString inI32 readInt_writeInt)

/-! ### strings -/

theorem readString_append (s : List UInt8) (h : hasNul s = false) (rest : List UInt8) :
    readString (s ++ 0 :: rest) = some (s, rest) := by
  induction s with
  | nil => simp [readString]
  | cons b s ih =>
    simp only [hasNul, List.any_cons, Bool.or_eq_false_iff] at h
    have hb : b ≠ 0 := by
      intro hb; subst hb; simp at h
    have ih' := ih (by simpa [hasNul] using h.2)
    simp [readString, hb, ih']

theorem readString_noNul : ∀ (inp s rest : List UInt8), readString inp = some (s, rest) → hasNul s = false := by
  intro inp
  induction inp with
  | nil => intro s rest h; simp [readString] at h
  | cons b bs ih =>
    intro s rest h
    simp only [readString] at h
    split at h
    · simp at h; simp [h.1, hasNul]
    · rename_i hb
      split at h
      · simp at h
      · rename_i s' rest' h'
        simp at h
        have := ih s' rest' h'
        rw [← h.1]
        simp only [hasNul, List.any_cons, Bool.or_eq_false_iff]
        refine ⟨by simpa using hb, by simpa [hasNul] using this⟩

/-! ### integers -/

theorem toI32_inI32 (r : Nat) : inI32 (Tw.Packer.toI32 r) := by
  unfold Tw.Packer.toI32 inI32
  split <;> omega

theorem readInt_inI32 {inp : List UInt8} {v : Int} {rest : List UInt8} {ws : List Warning}
    (h : readInt inp = some (v, rest, ws)) : inI32 v := by
  unfold readInt at h
  split at h
  · simp at h
  · split at h
    · simp at h
    · simp at h
      rw [← h.1]
      exact toI32_inI32 _

/-! ### `Enc.seq` -/

theorem Enc.seq_ok {a b : Enc} {bs : List UInt8} (h : a.seq b = .ok bs) :
    ∃ x y, a = .ok x ∧ b = .ok y ∧ bs = x ++ y := by
  cases a <;> cases b <;> simp [Enc.seq] at h
  exact ⟨_, _, rfl, rfl, h.symm⟩

theorem Enc.ok_seq_ok (x y : List UInt8) : (Enc.ok x).seq (.ok y) = .ok (x ++ y) := rfl

/-! ### repetition -/

theorem rep_encList (f : List UInt8 → Res Val) (g : Val → Enc) (p : Val → Bool)
    (h : ∀ v bs rest, p v = true → g v = .ok bs → f (bs ++ rest) = .ok v rest []) :
    ∀ (vs : VL) (bs rest : List UInt8), VL.all p vs = true → encList g vs = .ok bs →
      rep f vs.length (bs ++ rest) = .ok vs rest []
  | .nil, bs, rest, _, he => by
    simp [encList] at he; subst he; simp [rep, VL.length]
  | .cons v vs, bs, rest, hp, he => by
    simp only [VL.all, Bool.and_eq_true] at hp
    simp only [encList] at he
    obtain ⟨x, y, hx, hy, rfl⟩ := Enc.seq_ok he
    have h1 := h v x (y ++ rest) hp.1 hx
    have h2 := rep_encList f g p h vs y rest hp.2 hy
    simp [rep, VL.length, List.append_assoc, h1, h2]

theorem rep_ok (f : List UInt8 → Res Val) (p : Val → Bool)
    (h : ∀ inp v r ws, f inp = .ok v r ws → p v = true) :
    ∀ (n : Nat) (inp : List UInt8) (vs : VL) (r : List UInt8) (ws : List Warning),
      rep f n inp = .ok vs r ws → vs.length = n ∧ VL.all p vs = true := by
  intro n
  induction n with
  | zero => intro inp vs r ws he; simp [rep] at he; simp [← he.1, VL.length, VL.all]
  | succ n ih =>
    intro inp vs r ws he
    simp only [rep] at he
    split at he
    · simp at he
    · simp at he
    · rename_i v r1 ws1 h1
      split at he
      · simp at he
      · simp at he
      · rename_i vs' r2 ws2 h2
        simp at he
        obtain ⟨hl, ha⟩ := ih _ _ _ _ h2
        rw [← he.1]
        simp [VL.length, VL.all, hl, ha, h _ _ _ _ h1]

theorem rep_noPanic (f : List UInt8 → Res Val) (h : ∀ inp s, f inp ≠ .panic s) :
    ∀ (n : Nat) (inp : List UInt8) (s : String), rep f n inp ≠ .panic s := by
  intro n
  induction n with
  | zero => intro inp s; simp [rep]
  | succ n ih =>
    intro inp s
    simp only [rep]
    split
    · rename_i s' h'; exact absurd h' (h _ _)
    · simp
    · split
      · rename_i s' h'; exact absurd h' (ih _ _)
      · simp
      · simp

/-! ### decoding never panics -/

theorem readIntR_noPanic (inp : List UInt8) (k : Int → Option Val) (s : String) : readIntR inp k ≠ .panic s := by
  unfold readIntR
  split
  · simp
  · split <;> simp

mutual
theorem decM_noPanic : ∀ (t : MT) (inp : List UInt8) (s : String), decM t inp ≠ .panic s
  | .int32 _ _, inp, s => by simp only [decM]; exact readIntR_noPanic _ _ _
  | .boolean, inp, s => by simp only [decM]; exact readIntR_noPanic _ _ _
  | .enum _ _ _, inp, s => by simp only [decM]; exact readIntR_noPanic _ _ _
  | .flags _ _, inp, s => by simp only [decM]; exact readIntR_noPanic _ _ _
  | .tick, inp, s => by simp only [decM]; exact readIntR_noPanic _ _ _
  | .tuneParam, inp, s => by simp only [decM]; exact readIntR_noPanic _ _ _
  | .string _, inp, s => by
    simp only [decM]; split
    · simp
    · split <;> simp
  | .int32String, inp, s => by
    simp only [decM]; split
    · simp
    · split <;> simp
  | .data, inp, s => by
    simp only [decM]; split
    · simp
    · split
      · simp
      · split <;> simp
  | .rest, inp, s => by simp [decM]
  | .raw len, inp, s => by
    simp only [decM, readRawR]
    split
    · simp
    · rename_i h
      have : (List.take len inp).length = len := by simp [List.length_take]; omega
      simp [this]
  | .beUint16, inp, s => by
    simp only [decM, readRawR]
    split
    · simp
    · rename_i h
      match inp, h with
      | b0 :: b1 :: rest, _ => simp
      | [_], h => simp at h
      | [], h => simp at h
  | .uint8, inp, s => by
    simp only [decM, readRawR]
    split
    · simp
    · rename_i h
      match inp, h with
      | b0 :: rest, _ => simp
      | [], h => simp at h
  | .packedAddresses, inp, s => by
    simp only [decM]
    have : (inp.length - inp.length % 18) % 18 = 0 := by omega
    simp [this]
  | .serverinfoClient, inp, s => by simp [decM]
  | .twString n, inp, s => by
    simp only [decM]
    split
    · simp
    · simp
    · rename_i s' h
      exact absurd h (rep_noPanic _ (fun i s => readIntR_noPanic _ _ _) _ _ _)
  | .optional t, inp, s => by
    simp only [decM]
    split
    · simp
    · simp
    · rename_i s' h
      exact absurd h (decM_noPanic t inp s')
  | .array n t, inp, s => by
    simp only [decM]
    split
    · simp
    · simp
    · rename_i s' h
      exact absurd h (rep_noPanic _ (fun i s => decM_noPanic t i s) _ _ _)
  | .object ms, inp, s => by
    simp only [decM]
    split
    · simp
    · simp
    · rename_i s' h
      exact absurd h (decMs_noPanic ms inp s')
theorem decMs_noPanic : ∀ (ms : ML) (inp : List UInt8) (s : String), decMs ms inp ≠ .panic s
  | .nil, inp, s => by simp [decMs]
  | .cons t ms, inp, s => by
    simp only [decMs]
    split
    · rename_i s' h; exact absurd h (decM_noPanic t inp s')
    · simp
    · split
      · rename_i s' h; exact absurd h (decMs_noPanic ms _ s')
      · simp
      · simp
end

/-! ### whatever decodes is well-typed -/

theorem readIntR_ok {inp : List UInt8} {k : Int → Option Val} {x : Val} {r : List UInt8} {ws : List Warning}
    (h : readIntR inp k = .ok x r ws) : ∃ v, inI32 v ∧ k v = some x := by
  unfold readIntR at h
  split at h
  · simp at h
  · rename_i v rest ws' hr
    split at h
    · rename_i x' hk
      simp at h
      exact ⟨v, readInt_inI32 hr, by rw [hk, h.1]⟩
    · simp at h

theorem parseI32_inI32 {s : List UInt8} {v : Int} (h : parseI32 s = some v) : inI32 v := by
  unfold parseI32 at h
  unfold inI32
  split at h
  · simp at h
  · split at h
    · split at h
      · simp at h
      · split at h
        · split at h
          · simp at h; omega
          · simp at h
        · simp at h
    · split at h
      · split at h
        · simp at h
        · split at h
          · split at h
            · simp at h; omega
            · simp at h
          · simp at h
      · split at h
        · split at h
          · simp at h; omega
          · simp at h
        · simp at h

mutual
theorem decM_wt : ∀ (t : MT) (inp : List UInt8) (v : Val) (r : List UInt8) (ws : List Warning),
    decM t inp = .ok v r ws → wtM t v = true
  | .int32 min max, inp, v, r, ws, h => by
    simp only [decM] at h
    obtain ⟨x, hx, hk⟩ := readIntR_ok h
    split at hk
    · rename_i hc; simp at hk; subst hk; simp [wtM, hx, hc]
    · simp at hk
  | .boolean, inp, v, r, ws, h => by
    simp only [decM] at h
    obtain ⟨x, hx, hk⟩ := readIntR_ok h
    split at hk
    · simp at hk; subst hk; simp [wtM]
    · simp at hk
  | .enum _ lo n, inp, v, r, ws, h => by
    simp only [decM] at h
    obtain ⟨x, hx, hk⟩ := readIntR_ok h
    split at hk
    · rename_i hc; simp at hk; subst hk; simp [wtM, hx, hc]
    · simp at hk
  | .flags _ _, inp, v, r, ws, h => by
    simp only [decM] at h
    obtain ⟨x, hx, hk⟩ := readIntR_ok h
    simp at hk; subst hk; simp [wtM, hx]
  | .tick, inp, v, r, ws, h => by
    simp only [decM] at h
    obtain ⟨x, hx, hk⟩ := readIntR_ok h
    simp at hk; subst hk; simp [wtM, hx]
  | .tuneParam, inp, v, r, ws, h => by
    simp only [decM] at h
    obtain ⟨x, hx, hk⟩ := readIntR_ok h
    simp at hk; subst hk; simp [wtM, hx]
  | .string strict, inp, v, r, ws, h => by
    simp only [decM] at h
    split at h
    · simp at h
    · rename_i s rest hs
      split at h
      · simp at h
      · rename_i hc
        simp at h
        rw [← h.1]
        have := readString_noNul _ _ _ hs
        simp only [wtM, this]
        cases strict <;> simp_all
  | .int32String, inp, v, r, ws, h => by
    simp only [decM] at h
    split at h
    · simp at h
    · split at h
      · rename_i x hp
        simp at h
        rw [← h.1]
        simp [wtM, parseI32_inI32 hp]
      · simp at h
  | .data, inp, v, r, ws, h => by
    simp only [decM] at h
    split at h
    · simp at h
    · rename_i x rest ws' hr
      split at h
      · simp at h
      · split at h
        · simp at h
        · simp at h
          rw [← h.1]
          have hx := readInt_inI32 hr
          unfold inI32 at hx
          simp only [wtM, decide_eq_true_eq, List.length_take]
          omega
  | .rest, inp, v, r, ws, h => by simp [decM] at h; simp [← h.1, wtM]
  | .raw len, inp, v, r, ws, h => by
    simp only [decM, readRawR] at h
    split at h
    · simp at h
    · split at h
      · simp at h
      · rename_i hl
        simp at h
        rw [← h.1]
        simp only [wtM, decide_eq_true_eq]
        simpa using hl
  | .beUint16, inp, v, r, ws, h => by
    simp only [decM, readRawR] at h
    split at h
    · simp at h
    · split at h
      · rename_i b0 b1 _
        simp at h
        rw [← h.1]
        have h0 := UInt8.toNat_lt b0
        have h1 := UInt8.toNat_lt b1
        simp only [wtM, Bool.and_eq_true, decide_eq_true_eq]
        omega
      · simp at h
  | .uint8, inp, v, r, ws, h => by
    simp only [decM, readRawR] at h
    split at h
    · simp at h
    · split at h
      · rename_i b0 _
        simp at h
        rw [← h.1]
        have h0 := UInt8.toNat_lt b0
        simp only [wtM, Bool.and_eq_true, decide_eq_true_eq]
        omega
      · simp at h
  | .packedAddresses, inp, v, r, ws, h => by
    simp only [decM] at h
    split at h
    · simp at h
    · rename_i hm
      simp at h
      rw [← h.1]
      simp only [wtM, decide_eq_true_eq, List.length_take]
      omega
  | .serverinfoClient, inp, v, r, ws, h => by simp [decM] at h; simp [← h.1, wtM]
  | .twString n, inp, v, r, ws, h => by
    simp only [decM] at h
    split at h
    · rename_i vs r' ws' hr
      simp at h
      rw [← h.1]
      have := rep_ok _ isI32 (fun inp v r ws hh => by
        obtain ⟨x, hx, hk⟩ := readIntR_ok hh
        simp at hk; subst hk; simp [isI32, hx]) _ _ _ _ _ hr
      simp [wtM, this.1, this.2]
    · simp at h
    · simp at h
  | .optional t, inp, v, r, ws, h => by
    simp only [decM] at h
    split at h
    · rename_i x r' ws' hd
      simp at h
      rw [← h.1]
      simp only [wtM]
      exact decM_wt t inp x r' ws' hd
    · simp at h; simp [← h.1, wtM]
    · simp at h
  | .array n t, inp, v, r, ws, h => by
    simp only [decM] at h
    split at h
    · rename_i vs r' ws' hr
      simp at h
      rw [← h.1]
      have := rep_ok _ (wtM t) (fun inp v r ws hh => decM_wt t inp v r ws hh) _ _ _ _ _ hr
      simp [wtM, this.1, this.2]
    · simp at h
    · simp at h
  | .object ms, inp, v, r, ws, h => by
    simp only [decM] at h
    split at h
    · rename_i vs r' ws' hr
      simp at h
      rw [← h.1]
      simp only [wtM]
      exact decMs_wt ms inp vs r' ws' hr
    · simp at h
    · simp at h
theorem decMs_wt : ∀ (ms : ML) (inp : List UInt8) (vs : VL) (r : List UInt8) (ws : List Warning),
    decMs ms inp = .ok vs r ws → wtMs ms vs = true
  | .nil, inp, vs, r, ws, h => by simp [decMs] at h; simp [← h.1, wtMs]
  | .cons t ms, inp, vs, r, ws, h => by
    simp only [decMs] at h
    split at h
    · simp at h
    · simp at h
    · rename_i v r1 ws1 h1
      split at h
      · simp at h
      · simp at h
      · rename_i vs' r2 ws2 h2
        simp at h
        rw [← h.1]
        simp [wtMs, decM_wt t _ _ _ _ h1, decMs_wt ms _ _ _ _ h2]
end

/-! ### decimal strings -/

theorem ofNat_toNat_small {n : Nat} (h : n < 256) : (UInt8.ofNat n).toNat = n := by
  simp [UInt8.toNat_ofNat']; omega

theorem parseDigits_digit (d : Nat) (hd : d < 10) (tail : List UInt8) (acc : Nat) :
    parseDigits (UInt8.ofNat (48 + d) :: tail) acc = parseDigits tail (acc * 10 + d) := by
  have h := ofNat_toNat_small (n := 48 + d) (by omega)
  simp only [parseDigits, isDigit, h]
  have : (decide (48 ≤ 48 + d) && decide (48 + d ≤ 57)) = true := by simp; omega
  rw [if_pos this, Nat.add_sub_cancel_left]

theorem parseDigits_decDigits : ∀ (f n : Nat) (tail : List UInt8) (acc : Nat), n < 10 ^ (f + 1) →
    parseDigits (decDigits f n ++ tail) acc = parseDigits tail (acc * 10 ^ (decDigits f n).length + n) := by
  intro f
  induction f with
  | zero =>
    intro n tail acc hn
    have hn' : n < 10 := by simpa using hn
    have : n % 10 = n := Nat.mod_eq_of_lt hn'
    simp only [decDigits, this, List.singleton_append, List.length_singleton, Nat.pow_one]
    exact parseDigits_digit n hn' tail acc
  | succ f ih =>
    intro n tail acc hn
    simp only [decDigits]
    split
    · rename_i hn'
      simp only [List.singleton_append, List.length_singleton, Nat.pow_one]
      exact parseDigits_digit n hn' tail acc
    · have hq : n / 10 < 10 ^ (f + 1) := by
        have : 10 ^ (f + 1 + 1) = 10 ^ (f + 1) * 10 := Nat.pow_succ ..
        omega
      rw [List.append_assoc, ih (n / 10) _ acc hq]
      simp only [List.singleton_append, List.length_append, List.length_singleton]
      rw [parseDigits_digit (n % 10) (Nat.mod_lt _ (by omega)) tail]
      congr 1
      rw [Nat.pow_succ]
      have : (acc * 10 ^ (decDigits f (n / 10)).length + n / 10) * 10 = acc * 10 ^ (decDigits f (n / 10)).length * 10 + (n / 10) * 10 := by
        rw [Nat.add_mul]
      rw [this, Nat.mul_assoc]
      omega

theorem decDigits_ne_nil (f n : Nat) : decDigits f n ≠ [] := by
  cases f with
  | zero => simp [decDigits]
  | succ f => simp only [decDigits]; split <;> simp

theorem decDigits_isDigit : ∀ (f n : Nat), ∀ b ∈ decDigits f n, 48 ≤ b.toNat ∧ b.toNat ≤ 57 := by
  intro f
  induction f with
  | zero =>
    intro n b hb
    simp only [decDigits, List.mem_singleton] at hb
    subst hb
    rw [ofNat_toNat_small (by omega)]; omega
  | succ f ih =>
    intro n b hb
    simp only [decDigits] at hb
    split at hb
    · simp only [List.mem_singleton] at hb; subst hb; rw [ofNat_toNat_small (by omega)]; omega
    · simp only [List.mem_append, List.mem_singleton] at hb
      rcases hb with hb | hb
      · exact ih _ _ hb
      · subst hb; rw [ofNat_toNat_small (by omega)]; omega

theorem parseDigits_decDigits' (n : Nat) (hn : n < 10 ^ 11) : parseDigits (decDigits 10 n) 0 = some n := by
  have := parseDigits_decDigits 10 n [] 0 hn
  simpa [parseDigits] using this

theorem hasNul_stringFromInt (v : Int) : hasNul (stringFromInt v) = false := by
  unfold stringFromInt hasNul
  split
  · simp only [List.any_cons, Bool.or_eq_false_iff, List.any_eq_false]
    refine ⟨by decide, ?_⟩
    intro b hb
    have := decDigits_isDigit _ _ b hb
    intro h0; simp at h0; subst h0; simp at this
  · simp only [List.any_eq_false]
    intro b hb
    have := decDigits_isDigit _ _ b hb
    intro h0; simp at h0; subst h0; simp at this

theorem parseI32_stringFromInt (v : Int) (h : inI32 v) : parseI32 (stringFromInt v) = some v := by
  unfold inI32 at h
  unfold stringFromInt
  split
  · rename_i hneg
    have hn : (-v).toNat < 10 ^ 11 := by omega
    have hne := decDigits_ne_nil 10 (-v).toNat
    simp only [parseI32]
    simp only [if_true, parseDigits_decDigits' _ hn]
    have : (decDigits 10 (-v).toNat).isEmpty = false := by
      cases hd : decDigits 10 (-v).toNat with
      | nil => exact absurd hd hne
      | cons _ _ => rfl
    simp only [this]
    have h2 : (-v).toNat ≤ 2 ^ 31 := by omega
    simp [h2]
    omega
  · rename_i hpos
    have hn : v.toNat < 10 ^ 11 := by omega
    have hne := decDigits_ne_nil 10 v.toNat
    cases hd : decDigits 10 v.toNat with
    | nil => exact absurd hd hne
    | cons c rest =>
      have hc := decDigits_isDigit 10 v.toNat c (by rw [hd]; simp)
      have hc45 : c ≠ 45 := by intro h0; subst h0; simp at hc
      have hc43 : c ≠ 43 := by intro h0; subst h0; simp at hc
      simp only [parseI32, hc45, hc43, if_false]
      rw [← hd, parseDigits_decDigits' _ hn]
      have h2 : v.toNat < 2 ^ 31 := by omega
      simp [h2]
      omega


/-! ### encode then decode -/


theorem readIntR_writeInt (x : Int) (hi : inI32 x) (rest : List UInt8) (k : Int → Option Val) (y : Val)
    (hk : k x = some y) : readIntR (writeInt x ++ rest) k = .ok y rest [] := by
  simp [readIntR, readInt_writeInt x hi rest, hk]

/-- what the member round-trip lemma states for one member type and value -/
def RoundTrips (t : MT) (v : Val) : Prop :=
  ∃ bs, encM t v = .ok bs ∧ ∀ rest, (greedy t = true → rest = []) → decM t (bs ++ rest) = .ok v rest []

theorem optInnerOk_wf (t : MT) (h : optInnerOk t = true) : wfM t = true ∧ greedy t = false := by
  cases t with
  | int32 a b => cases a <;> cases b <;> simp_all [optInnerOk, wfM, greedy]
  | string s => cases s <;> simp_all [optInnerOk, wfM, greedy]
  | flags _ _ => simp [wfM, greedy]
  | data => simp [wfM, greedy]
  | _ => simp [optInnerOk] at h

theorem noneThenSome_allTrue : ∀ (l : List Bool), (∀ b ∈ l, b = true) → noneThenSome l = false
  | [], _ => rfl
  | [_], _ => rfl
  | a :: b :: rest, h => by
    have ha : a = true := h a (by simp)
    have := noneThenSome_allTrue (b :: rest) (fun x hx => h x (by simp [hx]))
    simp [noneThenSome, ha, this]

theorem optFlags_present : ∀ (ms : ML) (vs : VL), presentL vs = true → ∀ b ∈ optFlags ms vs, b = true
  | .nil, vs, _, b, hb => by cases vs <;> simp [optFlags] at hb
  | .cons t ms, .nil, _, b, hb => by cases t <;> simp [optFlags] at hb
  | .cons t ms, .cons v vs, hp, b, hb => by
    simp only [presentL, Bool.and_eq_true] at hp
    have ih := optFlags_present ms vs hp.2
    cases t with
    | optional t' =>
      simp only [optFlags, List.mem_cons] at hb
      rcases hb with hb | hb
      · subst hb
        cases v <;> simp_all [presentV]
      · exact ih b hb
    | _ => simp only [optFlags] at hb; exact ih b hb

theorem optGuard_present (ms : ML) (vs : VL) (hp : presentL vs = true) : noneThenSome (optFlags ms vs) = false :=
  noneThenSome_allTrue _ (optFlags_present ms vs hp)

theorem VL.all_and (p q : Val → Bool) : ∀ (vs : VL), VL.all p vs = true → VL.all q vs = true →
    VL.all (fun v => p v && q v) vs = true
  | .nil, _, _ => rfl
  | .cons v vs, hp, hq => by
    simp only [VL.all, Bool.and_eq_true] at hp hq ⊢
    exact ⟨⟨hp.1, hq.1⟩, VL.all_and p q vs hp.2 hq.2⟩

theorem presentL_all : ∀ (vs : VL), presentL vs = true → VL.all presentV vs = true
  | .nil, _ => rfl
  | .cons v vs, h => by
    simp only [presentL, Bool.and_eq_true] at h
    simp [VL.all, h.1, presentL_all vs h.2]

theorem encList_ok (g : Val → Enc) (p : Val → Bool) (h : ∀ v, p v = true → ∃ bs, g v = .ok bs) :
    ∀ (vs : VL), VL.all p vs = true → ∃ bs, encList g vs = .ok bs
  | .nil, _ => ⟨[], rfl⟩
  | .cons v vs, hp => by
    simp only [VL.all, Bool.and_eq_true] at hp
    obtain ⟨b1, h1⟩ := h v hp.1
    obtain ⟨b2, h2⟩ := encList_ok g p h vs hp.2
    exact ⟨b1 ++ b2, by simp [encList, h1, h2, Enc.seq]⟩

mutual
theorem decM_encM : ∀ (t : MT) (v : Val), wfM t = true → wtM t v = true → presentV v = true → RoundTrips t v
  | .int32 min max, v, hwf, hwt, hp => by
    cases v with
    | int x =>
      simp only [wtM, Bool.and_eq_true, decide_eq_true_eq] at hwt
      refine ⟨writeInt x, by simp [encM, hwt.1, hwt.2], fun rest _ => ?_⟩
      simp only [decM]
      exact readIntR_writeInt x hwt.1 rest _ _ (by simp [hwt.2])
    | _ => simp [wtM] at hwt
  | .boolean, v, hwf, hwt, hp => by
    cases v with
    | bool b =>
      refine ⟨writeInt (if b then 1 else 0), by simp [encM], fun rest _ => ?_⟩
      simp only [decM]
      refine readIntR_writeInt _ (by cases b <;> decide) rest _ _ ?_
      cases b <;> simp [checkRange]
    | _ => simp [wtM] at hwt
  | .enum _ lo n, v, hwf, hwt, hp => by
    cases v with
    | int x =>
      simp only [wtM, Bool.and_eq_true, decide_eq_true_eq] at hwt
      refine ⟨writeInt x, by simp [encM, hwt.1, hwt.2], fun rest _ => ?_⟩
      simp only [decM]
      exact readIntR_writeInt x hwt.1 rest _ _ (by simp [hwt.2])
    | _ => simp [wtM] at hwt
  | .flags _ _, v, hwf, hwt, hp => by
    cases v with
    | int x =>
      simp only [wtM, decide_eq_true_eq] at hwt
      refine ⟨writeInt x, by simp [encM, encInt, hwt], fun rest _ => ?_⟩
      simp only [decM]
      exact readIntR_writeInt x hwt rest _ _ rfl
    | _ => simp [wtM] at hwt
  | .tick, v, hwf, hwt, hp => by
    cases v with
    | int x =>
      simp only [wtM, decide_eq_true_eq] at hwt
      refine ⟨writeInt x, by simp [encM, encInt, hwt], fun rest _ => ?_⟩
      simp only [decM]
      exact readIntR_writeInt x hwt rest _ _ rfl
    | _ => simp [wtM] at hwt
  | .tuneParam, v, hwf, hwt, hp => by
    cases v with
    | int x =>
      simp only [wtM, decide_eq_true_eq] at hwt
      refine ⟨writeInt x, by simp [encM, encInt, hwt], fun rest _ => ?_⟩
      simp only [decM]
      exact readIntR_writeInt x hwt rest _ _ rfl
    | _ => simp [wtM] at hwt
  | .string strict, v, hwf, hwt, hp => by
    cases v with
    | bytes s =>
      simp only [wtM, Bool.and_eq_true, Bool.not_eq_true'] at hwt
      refine ⟨s ++ [0], by simp [encM, hwt.1, hwt.2], fun rest _ => ?_⟩
      simp only [decM, List.append_assoc, List.singleton_append, readString_append s hwt.1 rest, hwt.2]
      simp
    | _ => simp [wtM] at hwt
  | .int32String, v, hwf, hwt, hp => by
    cases v with
    | int x =>
      simp only [wtM, decide_eq_true_eq] at hwt
      refine ⟨stringFromInt x ++ [0], by simp [encM, hwt], fun rest _ => ?_⟩
      simp only [decM, List.append_assoc, List.singleton_append,
        readString_append _ (hasNul_stringFromInt x) rest, parseI32_stringFromInt x hwt]
    | _ => simp [wtM] at hwt
  | .data, v, hwf, hwt, hp => by
    cases v with
    | bytes d =>
      simp only [wtM, decide_eq_true_eq] at hwt
      refine ⟨writeInt d.length ++ d, by simp [encM, hwt], fun rest _ => ?_⟩
      have hi : inI32 (d.length : Int) := by unfold inI32; omega
      simp only [decM, List.append_assoc, readInt_writeInt _ hi (d ++ rest)]
      simp
      split
      · omega
      · split
        · omega
        · rfl
    | _ => simp [wtM] at hwt
  | .rest, v, hwf, hwt, hp => by
    cases v with
    | bytes d =>
      refine ⟨d, by simp [encM], fun rest hg => ?_⟩
      have := hg rfl
      subst this
      simp [decM]
    | _ => simp [wtM] at hwt
  | .raw len, v, hwf, hwt, hp => by
    cases v with
    | bytes d =>
      simp only [wtM, decide_eq_true_eq] at hwt
      refine ⟨d, by simp [encM, hwt], fun rest _ => ?_⟩
      subst hwt
      simp [decM, readRawR]
    | _ => simp [wtM] at hwt
  | .beUint16, v, hwf, hwt, hp => by
    cases v with
    | int x =>
      simp only [wtM, Bool.and_eq_true, decide_eq_true_eq] at hwt
      refine ⟨_, by simp only [encM, hwt.1, hwt.2, and_self, if_true]; rfl, fun rest _ => ?_⟩
      have h1 := ofNat_toNat_small (n := x.toNat / 256) (by omega)
      have h2 := ofNat_toNat_small (n := x.toNat % 256) (by omega)
      have key : ∀ (e : Int), e = x → Res.ok (Val.int e) rest [] = Res.ok (Val.int x) rest ([] : List Warning) := by
        intro e he; rw [he]
      have hlen : ¬ ((UInt8.ofNat (x.toNat / 256) :: UInt8.ofNat (x.toNat % 256) :: rest).length < 2) := by simp
      simp only [decM, readRawR, List.cons_append, List.nil_append, if_neg hlen, List.take, h1, h2, List.drop]
      apply key; omega
    | _ => simp [wtM] at hwt
  | .uint8, v, hwf, hwt, hp => by
    cases v with
    | int x =>
      simp only [wtM, Bool.and_eq_true, decide_eq_true_eq] at hwt
      refine ⟨_, by simp only [encM, hwt.1, hwt.2, and_self, if_true]; rfl, fun rest _ => ?_⟩
      have h1 := ofNat_toNat_small (n := x.toNat) (by omega)
      have key : ∀ (e : Int), e = x → Res.ok (Val.int e) rest [] = Res.ok (Val.int x) rest ([] : List Warning) := by
        intro e he; rw [he]
      have hlen : ¬ ((UInt8.ofNat x.toNat :: rest).length < 1) := by simp
      simp only [decM, readRawR, List.cons_append, List.nil_append, if_neg hlen, List.take, h1, List.drop]
      apply key; omega
    | _ => simp [wtM] at hwt
  | .packedAddresses, v, hwf, hwt, hp => by
    cases v with
    | bytes d =>
      simp only [wtM, decide_eq_true_eq] at hwt
      refine ⟨d, by simp [encM, hwt], fun rest hg => ?_⟩
      have := hg rfl
      subst this
      simp [decM, hwt]
    | _ => simp [wtM] at hwt
  | .serverinfoClient, v, hwf, hwt, hp => by
    cases v with
    | bytes d =>
      refine ⟨d, by simp [encM], fun rest hg => ?_⟩
      have := hg rfl
      subst this
      simp [decM]
    | _ => simp [wtM] at hwt
  | .twString n, v, hwf, hwt, hp => by simp [wfM] at hwf
  | .optional t, v, hwf, hwt, hp => by
    cases v with
    | some x =>
      simp only [wfM] at hwf
      simp only [wtM] at hwt
      simp only [presentV] at hp
      have hwf' : wfM t = true := (optInnerOk_wf t hwf).1
      have hng : greedy t = false := (optInnerOk_wf t hwf).2
      obtain ⟨bs, he, hd⟩ := decM_encM t x hwf' hwt hp
      refine ⟨bs, by simp [encM, he], fun rest _ => ?_⟩
      simp [decM, hd rest (by simp [hng])]
    | none => simp [presentV] at hp
    | _ => simp [wtM] at hwt
  | .array n t, v, hwf, hwt, hp => by
    cases v with
    | list vs =>
      simp only [wfM, Bool.and_eq_true, Bool.not_eq_true'] at hwf
      simp only [wtM, Bool.and_eq_true, decide_eq_true_eq] at hwt
      simp only [presentV] at hp
      have hall := VL.all_and (wtM t) presentV vs hwt.2 (presentL_all vs hp)
      have hstep : ∀ v, (wtM t v && presentV v) = true → RoundTrips t v := by
        intro v hv
        simp only [Bool.and_eq_true] at hv
        exact decM_encM t v hwf.1.1 hv.1 hv.2
      obtain ⟨bs, he⟩ := encList_ok (encM t) _ (fun v hv => (hstep v hv).imp fun _ h => h.1) vs hall
      refine ⟨bs, by simp [encM, hwt.1, he], fun rest _ => ?_⟩
      have := rep_encList (decM t) (encM t) _ (fun v b r hv hb => by
        obtain ⟨b', he', hd'⟩ := hstep v hv
        rw [he'] at hb
        cases hb
        exact hd' r (by simp [hwf.1.2])) vs bs rest hall he
      rw [hwt.1] at this
      simp [decM, this]
    | _ => simp [wtM] at hwt
  | .object ms, v, hwf, hwt, hp => by
    cases v with
    | list vs =>
      simp only [wfM] at hwf
      simp only [wtM] at hwt
      simp only [presentV] at hp
      obtain ⟨bs, he, hd⟩ := decMs_encMs ms vs hwf hwt hp
      refine ⟨bs, by simp [encM, he, guardWrap, optGuard, optGuard_present ms vs hp], fun rest hg => ?_⟩
      have := hg rfl
      subst this
      simp [decM, hd]
    | _ => simp [wtM] at hwt
theorem decMs_encMs : ∀ (ms : ML) (vs : VL), wfMs ms = true → wtMs ms vs = true → presentL vs = true →
    ∃ bs, encMs ms vs = .ok bs ∧ decMs ms bs = .ok vs [] []
  | .nil, vs, hwf, hwt, hp => by
    cases vs with
    | nil => exact ⟨[], by simp [encMs], by simp [decMs]⟩
    | cons _ _ => simp [wtMs] at hwt
  | .cons t ms, vs, hwf, hwt, hp => by
    cases vs with
    | nil => simp [wtMs] at hwt
    | cons v vs =>
      simp only [wfMs, Bool.and_eq_true, Bool.or_eq_true, Bool.not_eq_true'] at hwf
      simp only [wtMs, Bool.and_eq_true] at hwt
      simp only [presentL, Bool.and_eq_true] at hp
      obtain ⟨b1, he1, hd1⟩ := decM_encM t v hwf.1.1 hwt.1 hp.1
      obtain ⟨b2, he2, hd2⟩ := decMs_encMs ms vs hwf.2 hwt.2 hp.2
      refine ⟨b1 ++ b2, by simp [encMs, he1, he2, Enc.seq], ?_⟩
      have hg : greedy t = true → b2 = [] := by
        intro hg
        rcases hwf.1.2 with hnil | hng
        · cases ms with
          | nil =>
            cases vs with
            | nil => simp [encMs] at he2; exact he2
            | cons _ _ => simp [wtMs] at hwt
          | cons _ _ => simp [ML.isNil] at hnil
        · rw [hg] at hng; simp at hng
      simp [decMs, hd1 b2 hg, hd2]
end

/-! ### absent optional members; whole messages -/

theorem optInner_empty (t : MT) (h : optInnerOk t = true) : decM t [] = .err .unexpectedEnd [] [] := by
  cases t with
  | int32 a b => cases a <;> cases b <;> simp_all [optInnerOk, decM, readIntR, readInt]
  | string s => cases s <;> simp_all [optInnerOk, decM, readString]
  | flags _ _ => simp [decM, readIntR, readInt]
  | data => simp [decM, readInt]
  | _ => simp [optInnerOk] at h

/-- all members absent: nothing is written, and nothing decodes to exactly that -/
theorem allNone_roundtrip : ∀ (ms : ML) (vs : VL), wfMs ms = true → wtMs ms vs = true → allNone vs = true →
    encMs ms vs = .ok [] ∧ decMs ms [] = .ok vs [] []
  | .nil, vs, _, hwt, _ => by
    cases vs with
    | nil => simp [encMs, decMs]
    | cons _ _ => simp [wtMs] at hwt
  | .cons t ms, vs, hwf, hwt, hn => by
    cases vs with
    | nil => simp [wtMs] at hwt
    | cons v vs =>
      simp only [wfMs, Bool.and_eq_true] at hwf
      simp only [wtMs, Bool.and_eq_true] at hwt
      cases v with
      | none =>
        simp only [allNone] at hn
        obtain ⟨he, hd⟩ := allNone_roundtrip ms vs hwf.2 hwt.2 hn
        cases t with
        | optional t' =>
          have hin : optInnerOk t' = true := by simpa [wfM] using hwf.1.1
          simp [encMs, encM, he, Enc.seq, decMs, decM, optInner_empty t' hin, hd]
        | _ => simp [wtM] at hwt
      | _ => simp [allNone] at hn

theorem noneThenSome_allFalse : ∀ (l : List Bool), (∀ b ∈ l, b = false) → noneThenSome l = false
  | [], _ => rfl
  | [_], _ => rfl
  | a :: b :: rest, h => by
    have hb : b = false := h b (by simp)
    have := noneThenSome_allFalse (b :: rest) (fun x hx => h x (by simp [hx]))
    subst hb
    simp [noneThenSome, this]

theorem optFlags_allNone : ∀ (ms : ML) (vs : VL), allNone vs = true → ∀ b ∈ optFlags ms vs, b = false
  | .nil, vs, _, b, hb => by cases vs <;> simp [optFlags] at hb
  | .cons t ms, .nil, _, b, hb => by cases t <;> simp [optFlags] at hb
  | .cons t ms, .cons v vs, hn, b, hb => by
    cases v with
    | none =>
      simp only [allNone] at hn
      have ih := optFlags_allNone ms vs hn
      cases t with
      | optional t' =>
        simp only [optFlags, List.mem_cons] at hb
        rcases hb with hb | hb
        · exact hb
        · exact ih b hb
      | _ => simp only [optFlags] at hb; exact ih b hb
    | _ => simp [allNone] at hn

theorem noneThenSome_true_cons (l : List Bool) : noneThenSome (true :: l) = noneThenSome l := by
  cases l with
  | nil => rfl
  | cons b rest => simp [noneThenSome]

theorem optGuard_absentOk : ∀ (ms : ML) (vs : VL), absentOk vs = true → noneThenSome (optFlags ms vs) = false
  | .nil, vs, _ => by cases vs <;> simp [optFlags, noneThenSome]
  | .cons t ms, .nil, _ => by cases t <;> simp [optFlags, noneThenSome]
  | .cons t ms, .cons v vs, ha => by
    by_cases hv : v = .none
    · subst hv
      simp only [absentOk] at ha
      exact noneThenSome_allFalse _ (optFlags_allNone (.cons t ms) (.cons .none vs) (by simpa [allNone] using ha))
    · have ha' : absentOk vs = true := by
        cases v <;> simp_all [absentOk]
      have ih := optGuard_absentOk ms vs ha'
      cases t with
      | optional t' =>
        have : optFlags (.cons (.optional t') ms) (.cons v vs) = true :: optFlags ms vs := by
          cases v <;> simp_all [optFlags]
        rw [this, noneThenSome_true_cons]; exact ih
      | _ => simp only [optFlags]; exact ih

theorem decMs_encMs_absent : ∀ (ms : ML) (vs : VL), wfMs ms = true → wtMs ms vs = true → absentOk vs = true →
    ∃ bs, encMs ms vs = .ok bs ∧ decMs ms bs = .ok vs [] []
  | .nil, vs, _, hwt, _ => by
    cases vs with
    | nil => exact ⟨[], by simp [encMs], by simp [decMs]⟩
    | cons _ _ => simp [wtMs] at hwt
  | .cons t ms, vs, hwf, hwt, ha => by
    cases vs with
    | nil => simp [wtMs] at hwt
    | cons v vs =>
      by_cases hv : v = .none
      · subst hv
        have hn : allNone (.cons .none vs) = true := by simpa [absentOk, allNone] using ha
        obtain ⟨he, hd⟩ := allNone_roundtrip (.cons t ms) (.cons .none vs) hwf hwt hn
        exact ⟨[], he, hd⟩
      · have hpa : presentV v = true ∧ absentOk vs = true := by
          cases v <;> simp_all [absentOk]
        have hwf0 := hwf
        simp only [wfMs, Bool.and_eq_true, Bool.or_eq_true, Bool.not_eq_true'] at hwf
        simp only [wtMs, Bool.and_eq_true] at hwt
        obtain ⟨b1, he1, hd1⟩ := decM_encM t v hwf.1.1 hwt.1 hpa.1
        obtain ⟨b2, he2, hd2⟩ := decMs_encMs_absent ms vs hwf.2 hwt.2 hpa.2
        refine ⟨b1 ++ b2, by simp [encMs, he1, he2, Enc.seq], ?_⟩
        have hg : greedy t = true → b2 = [] := by
          intro hg
          rcases hwf.1.2 with hnil | hng
          · cases ms with
            | nil =>
              cases vs with
              | nil => simp [encMs] at he2; exact he2
              | cons _ _ => simp [wtMs] at hwt
            | cons _ _ => simp [ML.isNil] at hnil
          · rw [hg] at hng; simp at hng
        simp [decMs, hd1 b2 hg, hd2]

/-- `T::encode` followed by `T::decode` gives the value back, without warnings. -/
theorem decodeMembers_encStruct (ms : ML) (vs : VL) (hwf : wfMs ms = true) (hwt : wtMs ms vs = true)
    (ha : absentOk vs = true) : ∃ bs, encStruct ms vs = .ok bs ∧ decodeMembers ms bs = .ok vs [] := by
  obtain ⟨bs, he, hd⟩ := decMs_encMs_absent ms vs hwf hwt ha
  refine ⟨bs, ?_, ?_⟩
  · simp [encStruct, optGuard, optGuard_absentOk ms vs ha, he, guardWrap]
  · simp [decodeMembers, hd]

/-! ### message ids -/

theorem decodeId_encodeId (sys : Bool) (id : Ident) (h : idOk id = true) (rest : List UInt8) :
    ∃ bs, encodeId sys id = .ok bs ∧ decodeId (bs ++ rest) = .ok (sys, id) rest [] := by
  cases id with
  | ordinal i =>
    simp only [idOk, Bool.and_eq_true, decide_eq_true_eq] at h
    have hi : inI32 i := by unfold inI32; omega
    have hv : Tw.Packer.toI32 ((i.toNat * 2) % 2 ^ 32 + (if sys then 1 else 0)) = 2 * i + (if sys then 1 else 0) := by
      unfold Tw.Packer.toI32
      cases sys <;> simp <;> omega
    have hi2 : inI32 (2 * i + (if sys then 1 else 0)) := by unfold inI32; cases sys <;> simp <;> omega
    have h0 : ¬ i = 0 := by omega
    have h1 : ¬ i < 0 := by omega
    refine ⟨_, by simp only [encodeId, hi, not_true_eq_false, if_false, h0, h1, hv]; rfl, ?_⟩
    simp only [decodeId, readInt_writeInt _ hi2 rest]
    have hm : (2 * i + (if sys then 1 else 0)) / 2 = i := by cases sys <;> simp <;> omega
    have hs : ((2 * i + (if sys then 1 else 0)) % 2 != 0) = sys := by
      cases sys <;> simp <;> omega
    cases sys <;> simp_all
  | uuid u =>
    simp only [idOk, decide_eq_true_eq] at h
    refine ⟨_, by simp only [encodeId, h, if_true]; rfl, ?_⟩
    have hi : inI32 (if sys then 1 else 0) := by cases sys <;> decide
    simp only [decodeId, List.append_assoc, readInt_writeInt _ hi (u ++ rest)]
    cases sys <;> simp [h]


/-- `System::encode` / `Game::encode` followed by `msg::decode` -/
theorem decodeMsg_encodeMsg (p : ProtoSpec) (sys : Bool) (s : Spec) (v : VL)
    (hfind : findSpec s.id (if sys then p.system else p.game) = some s) (hid : idOk s.id = true)
    (hwf : wfMs s.members = true) (hwt : wtMs s.members v = true) (ha : absentOk v = true) :
    ∃ bs, encodeMsg sys s v = .ok bs ∧ decodeMsg p bs = .ok sys s v [] := by
  obtain ⟨b, he, hd⟩ := decodeMembers_encStruct s.members v hwf hwt ha
  obtain ⟨ib, hie, hid'⟩ := decodeId_encodeId sys s.id hid b
  refine ⟨ib ++ b, by simp [encodeMsg, he, hie, Enc.seq], ?_⟩
  simp [decodeMsg, hid', hfind, hd]

/-- `Connless::encode` followed by `Connless::decode` -/
theorem decodeConnless_encodeConnless (p : ProtoSpec) (s : ConnlessSpec) (v : VL)
    (hfind : findConnless s.id p.connless = some s) (hid : s.id.length = 8)
    (hwf : wfMs s.members = true) (hwt : wtMs s.members v = true) (ha : absentOk v = true) :
    ∃ bs, encodeConnless s v = .ok bs ∧ decodeConnless p bs = .ok s v [] := by
  obtain ⟨b, he, hd⟩ := decodeMembers_encStruct s.members v hwf hwt ha
  refine ⟨s.id ++ b, by simp [encodeConnless, he, Enc.seq], ?_⟩
  simp [decodeConnless, hid, hfind, hd]

/-! ### violations of a described constraint are rejected -/

theorem range_violation_rejected (min max : Option Int) (x : Int) (hi : inI32 x) (h : checkRange min max x = false)
    (rest : List UInt8) : decM (.int32 min max) (writeInt x ++ rest) = .err .intOutOfRange rest [] := by
  simp [decM, readIntR, readInt_writeInt x hi rest, h]

theorem enum_violation_rejected (name : String) (lo : Int) (n : Nat) (x : Int) (hi : inI32 x) (h : inEnum lo n x = false)
    (rest : List UInt8) : decM (.enum name lo n) (writeInt x ++ rest) = .err .intOutOfRange rest [] := by
  simp [decM, readIntR, readInt_writeInt x hi rest, h]

theorem bool_violation_rejected (x : Int) (hi : inI32 x) (h : x ≠ 0 ∧ x ≠ 1)
    (rest : List UInt8) : decM .boolean (writeInt x ++ rest) = .err .intOutOfRange rest [] := by
  have : checkRange (some 0) (some 1) x = false := by
    simp only [checkRange, Bool.and_eq_false_iff, decide_eq_false_iff_not]; omega
  simp [decM, readIntR, readInt_writeInt x hi rest, this]

theorem control_character_rejected (s : List UInt8) (hn : hasNul s = false) (hc : hasControl s = true)
    (rest : List UInt8) : decM (.string true) (s ++ 0 :: rest) = .err .controlCharacters rest [] := by
  simp [decM, readString_append s hn rest, hc]

theorem readString_unterminated : ∀ (s : List UInt8), hasNul s = false → readString s = none
  | [], _ => rfl
  | b :: s, h => by
    simp only [hasNul, List.any_cons, Bool.or_eq_false_iff] at h
    have hb : b ≠ 0 := by intro hb; subst hb; simp at h
    have := readString_unterminated s (by simpa [hasNul] using h.2)
    simp [readString, hb, this]

theorem unterminated_string_rejected (strict : Bool) (s : List UInt8) (hn : hasNul s = false) :
    decM (.string strict) s = .err .unexpectedEnd [] [] := by
  simp [decM, readString_unterminated s hn]

/-- an error of a (non-optional) member is the error of the whole message -/
theorem member_error_rejects (t : MT) (ms : ML) (inp : List UInt8) (e : Err) (r : List UInt8) (ws : List Warning)
    (h : decM t inp = .err e r ws) : decodeMembers (.cons t ms) inp = .err e ws := by
  simp [decodeMembers, decMs, h]

/-! ### snapshot objects: whatever decodes is well-typed -/

theorem readIntO_ok {inp : List Int} {k : Int → Option Val} {x : Val} {r : List Int}
    (hi : ∀ y ∈ inp, inI32 y) (h : readIntO inp k = .ok x r) :
    ∃ v, inI32 v ∧ k v = some x ∧ inp = v :: r := by
  unfold readIntO at h
  split at h
  · simp at h
  · rename_i v rest
    split at h
    · rename_i x' hk
      simp at h
      exact ⟨v, hi v (by simp), by rw [hk, h.1], by rw [h.2]⟩
    · simp at h

theorem orep_ok (f : List Int → ORes Val) (p : Val → Bool)
    (h : ∀ inp v r, (∀ y ∈ inp, inI32 y) → f inp = .ok v r → p v = true ∧ (∀ y ∈ r, inI32 y)) :
    ∀ (n : Nat) (inp : List Int) (vs : VL) (r : List Int), (∀ y ∈ inp, inI32 y) →
      orep f n inp = .ok vs r → vs.length = n ∧ VL.all p vs = true ∧ (∀ y ∈ r, inI32 y) := by
  intro n
  induction n with
  | zero => intro inp vs r hi he; simp [orep] at he; simp [← he.1, ← he.2, VL.length, VL.all]; exact hi
  | succ n ih =>
    intro inp vs r hi he
    simp only [orep] at he
    split at he
    · simp at he
    · rename_i v r1 h1
      split at he
      · simp at he
      · rename_i vs' r2 h2
        simp at he
        obtain ⟨hp, hr1⟩ := h _ _ _ hi h1
        obtain ⟨hl, ha, hr2⟩ := ih _ _ _ hr1 h2
        rw [← he.1, ← he.2]
        simp [VL.length, VL.all, hl, ha, hp]
        exact hr2

mutual
theorem decO_wt : ∀ (t : MT) (inp : List Int) (v : Val) (r : List Int), (∀ y ∈ inp, inI32 y) →
    decO t inp = .ok v r → wtM t v = true ∧ (∀ y ∈ r, inI32 y)
  | .int32 min max, inp, v, r, hi, h => by
    simp only [decO] at h
    obtain ⟨x, hx, hk, hinp⟩ := readIntO_ok hi h
    refine ⟨?_, fun y hy => hi y (by rw [hinp]; simp [hy])⟩
    split at hk
    · rename_i hc; simp at hk; subst hk; simp [wtM, hx, hc]
    · simp at hk
  | .boolean, inp, v, r, hi, h => by
    simp only [decO] at h
    obtain ⟨x, hx, hk, hinp⟩ := readIntO_ok hi h
    refine ⟨?_, fun y hy => hi y (by rw [hinp]; simp [hy])⟩
    split at hk
    · simp at hk; subst hk; simp [wtM]
    · simp at hk
  | .enum _ lo n, inp, v, r, hi, h => by
    simp only [decO] at h
    obtain ⟨x, hx, hk, hinp⟩ := readIntO_ok hi h
    refine ⟨?_, fun y hy => hi y (by rw [hinp]; simp [hy])⟩
    split at hk
    · rename_i hc; simp at hk; subst hk; simp [wtM, hx, hc]
    · simp at hk
  | .flags _ _, inp, v, r, hi, h => by
    simp only [decO] at h
    obtain ⟨x, hx, hk, hinp⟩ := readIntO_ok hi h
    refine ⟨?_, fun y hy => hi y (by rw [hinp]; simp [hy])⟩
    simp at hk; subst hk; simp [wtM, hx]
  | .tick, inp, v, r, hi, h => by
    simp only [decO] at h
    obtain ⟨x, hx, hk, hinp⟩ := readIntO_ok hi h
    refine ⟨?_, fun y hy => hi y (by rw [hinp]; simp [hy])⟩
    simp at hk; subst hk; simp [wtM, hx]
  | .twString n, inp, v, r, hi, h => by
    simp only [decO] at h
    split at h
    · rename_i vs r' hr
      simp at h
      rw [← h.1, ← h.2]
      have := orep_ok _ isI32 (fun inp v r hi' hh => by
        obtain ⟨x, hx, hk, hinp⟩ := readIntO_ok hi' hh
        simp at hk; subst hk
        exact ⟨by simp [isI32, hx], fun y hy => hi' y (by rw [hinp]; simp [hy])⟩) _ _ _ _ hi hr
      exact ⟨by simp [wtM, this.1, this.2.1], this.2.2⟩
    · simp at h
  | .array n t, inp, v, r, hi, h => by
    simp only [decO] at h
    split at h
    · rename_i vs r' hr
      simp at h
      rw [← h.1, ← h.2]
      have := orep_ok _ (wtM t) (fun inp v r hi' hh => decO_wt t inp v r hi' hh) _ _ _ _ hi hr
      exact ⟨by simp [wtM, this.1, this.2.1], this.2.2⟩
    · simp at h
  | .object ms, inp, v, r, hi, h => by
    simp only [decO] at h
    split at h
    · rename_i vs r' hr
      simp at h
      rw [← h.1, ← h.2]
      have := decOs_wt' ms inp vs r' hi hr
      exact ⟨by simp only [wtM]; exact this.1, this.2⟩
    · simp at h
  | .tuneParam, inp, v, r, hi, h => by simp [decO] at h
  | .string _, inp, v, r, hi, h => by simp [decO] at h
  | .int32String, inp, v, r, hi, h => by simp [decO] at h
  | .data, inp, v, r, hi, h => by simp [decO] at h
  | .rest, inp, v, r, hi, h => by simp [decO] at h
  | .raw _, inp, v, r, hi, h => by simp [decO] at h
  | .beUint16, inp, v, r, hi, h => by simp [decO] at h
  | .uint8, inp, v, r, hi, h => by simp [decO] at h
  | .packedAddresses, inp, v, r, hi, h => by simp [decO] at h
  | .serverinfoClient, inp, v, r, hi, h => by simp [decO] at h
  | .optional _, inp, v, r, hi, h => by simp [decO] at h
theorem decOs_wt' : ∀ (ms : ML) (inp : List Int) (vs : VL) (r : List Int), (∀ y ∈ inp, inI32 y) →
    decOs ms inp = .ok vs r → wtMs ms vs = true ∧ (∀ y ∈ r, inI32 y)
  | .nil, inp, vs, r, hi, h => by simp [decOs] at h; simp [← h.1, ← h.2, wtMs]; exact hi
  | .cons t ms, inp, vs, r, hi, h => by
    simp only [decOs] at h
    split at h
    · simp at h
    · rename_i v r1 h1
      split at h
      · simp at h
      · rename_i vs' r2 h2
        simp at h
        obtain ⟨hw1, hr1⟩ := decO_wt t _ _ _ hi h1
        obtain ⟨hw2, hr2⟩ := decOs_wt' ms _ _ _ hr1 h2
        rw [← h.1, ← h.2]
        exact ⟨by simp [wtMs, hw1, hw2], hr2⟩
end

theorem decOs_wt (ms : ML) (inp : List Int) (vs : VL) (r : List Int) (hi : ∀ y ∈ inp, inI32 y)
    (h : decOs ms inp = .ok vs r) : wtMs ms vs = true := (decOs_wt' ms inp vs r hi h).1


theorem decodeId_noPanic (inp : List UInt8) (s : String) : decodeId inp ≠ .panic s := by
  unfold decodeId
  split
  · simp
  · dsimp only
    split
    · simp
    · split
      · simp
      · split
        · rename_i h1 h2
          simp at h1 h2
          omega
        · simp

/-! ### snapshot objects without `bool` fields are re-exposed as the same words -/

/-- the byte cells of a list of words -/
def cellsOf (xs : List Int) : List Cell := xs.flatMap le32

theorem cellsOf_length (xs : List Int) : (cellsOf xs).length = 4 * xs.length := by
  induction xs with
  | nil => rfl
  | cons x xs ih => simp [cellsOf, List.flatMap_cons, le32] at ih ⊢; omega

theorem cellsOf_append (xs ys : List Int) : cellsOf (xs ++ ys) = cellsOf xs ++ cellsOf ys := by
  simp [cellsOf, List.flatMap_append]

theorem wordOf_le32 (v : Int) (h : inI32 v) : wordOf (le32 v) = some v := by
  unfold inI32 at h
  simp only [le32, wordOf]
  congr 1
  have e1 : ∀ n : Nat, (UInt8.ofNat n).toNat = n % 256 := fun n => by simp [UInt8.toNat_ofNat']
  simp only [e1]
  unfold Tw.Packer.toI32
  split <;> omega

theorem words_cellsOf : ∀ (xs : List Int), (∀ x ∈ xs, inI32 x) → words xs.length (cellsOf xs) = xs.map some
  | [], _ => rfl
  | x :: xs, h => by
    have ih := words_cellsOf xs (fun y hy => h y (by simp [hy]))
    have hw := wordOf_le32 x (h x (by simp))
    have ht : List.take 4 (cellsOf (x :: xs)) = le32 x := by simp [cellsOf, List.flatMap_cons, le32]
    have hd : List.drop 4 (cellsOf (x :: xs)) = cellsOf xs := by simp [cellsOf, List.flatMap_cons, le32]
    have hne : cellsOf (x :: xs) ≠ [] := by simp [cellsOf, List.flatMap_cons, le32]
    cases hc : cellsOf (x :: xs) with
    | nil => exact absurd hc hne
    | cons c cs =>
      simp only [List.length_cons, words, List.map_cons]
      rw [← hc, ht, hd, hw, ih]

theorem alignM_noBool : ∀ (t : MT), noBoolM t = true → wfO t = true → alignM t = 4
  | .array _ t, hn, hw => by
    simp only [noBoolM] at hn
    simp only [wfO] at hw
    simp only [alignM]
    exact alignM_noBool t hn hw
  | .boolean, hn, _ => by simp [noBoolM] at hn
  | .int32 _ _, _, _ => rfl
  | .enum _ _ _, _, _ => rfl
  | .flags _ _, _, _ => rfl
  | .tick, _, _ => rfl
  | .tuneParam, _, _ => rfl
  | .string _, _, _ => rfl
  | .int32String, _, _ => rfl
  | .data, _, _ => rfl
  | .rest, _, _ => rfl
  | .raw _, _, _ => rfl
  | .beUint16, _, _ => rfl
  | .uint8, _, _ => rfl
  | .packedAddresses, _, _ => rfl
  | .serverinfoClient, _, _ => rfl
  | .twString _, _, _ => rfl
  | .optional _, _, _ => rfl
  | .object _, _, _ => rfl

/-- what the member lemma states: the words consumed are the cells written -/
def Reexposed (g : Val → OEnc) (inp : List Int) (v : Val) (r : List Int) : Prop :=
  ∃ used, inp = used ++ r ∧ g v = .ok (cellsOf used)

theorem OEnc.ok_seq_ok (a b : List Cell) : (OEnc.ok a).seq (.ok b) = .ok (a ++ b) := rfl

theorem orep_cells (f : List Int → ORes Val) (g : Val → OEnc)
    (h : ∀ inp v r, (∀ y ∈ inp, inI32 y) → f inp = .ok v r → Reexposed g inp v r) :
    ∀ (n : Nat) (inp : List Int) (vs : VL) (r : List Int), (∀ y ∈ inp, inI32 y) →
      orep f n inp = .ok vs r → ∃ used, inp = used ++ r ∧ cellsList g vs = .ok (cellsOf used) := by
  intro n
  induction n with
  | zero =>
    intro inp vs r _ he
    simp [orep] at he
    exact ⟨[], by simp [he.2], by simp [← he.1, cellsList, cellsOf]⟩
  | succ n ih =>
    intro inp vs r hi he
    simp only [orep] at he
    split at he
    · simp at he
    · rename_i v r1 h1
      split at he
      · simp at he
      · rename_i vs' r2 h2
        simp at he
        obtain ⟨u1, hu1, hg1⟩ := h _ _ _ hi h1
        have hi1 : ∀ y ∈ r1, inI32 y := fun y hy => hi y (by rw [hu1]; simp [hy])
        obtain ⟨u2, hu2, hg2⟩ := ih _ _ _ hi1 h2
        refine ⟨u1 ++ u2, by rw [hu1, hu2, ← he.2]; simp, ?_⟩
        rw [← he.1]
        simp [cellsList, hg1, hg2, OEnc.ok_seq_ok, cellsOf_append]

theorem readIntO_any {inp : List Int} {v : Val} {r : List Int} (hi : ∀ y ∈ inp, inI32 y)
    (h : readIntO inp (fun x => some (.int x)) = .ok v r) :
    Reexposed (fun | .int x => cellInt x | _ => .badValue) inp v r := by
  obtain ⟨x, hx, hk, hinp⟩ := readIntO_ok hi h
  simp at hk
  subst hk
  exact ⟨[x], by simp [hinp], by simp [cellInt, hx, cellsOf]⟩

theorem decO_cells : ∀ (t : MT) (inp : List Int) (v : Val) (r : List Int), wfO t = true → noBoolM t = true →
    (∀ y ∈ inp, inI32 y) → decO t inp = .ok v r → Reexposed (cellsM t) inp v r
  | .int32 min max, inp, v, r, _, _, hi, h => by
    simp only [decO] at h
    obtain ⟨x, hx, hk, hinp⟩ := readIntO_ok hi h
    split at hk
    · rename_i hc
      simp at hk; subst hk
      exact ⟨[x], by simp [hinp], by simp [cellsM, hx, hc, cellsOf]⟩
    · simp at hk
  | .enum _ lo n, inp, v, r, _, _, hi, h => by
    simp only [decO] at h
    obtain ⟨x, hx, hk, hinp⟩ := readIntO_ok hi h
    split at hk
    · rename_i hc
      simp at hk; subst hk
      exact ⟨[x], by simp [hinp], by simp [cellsM, hx, hc, cellsOf]⟩
    · simp at hk
  | .flags _ _, inp, v, r, _, _, hi, h => by
    simp only [decO] at h
    obtain ⟨x, hx, hk, hinp⟩ := readIntO_ok hi h
    simp at hk; subst hk
    exact ⟨[x], by simp [hinp], by simp [cellsM, cellInt, hx, cellsOf]⟩
  | .tick, inp, v, r, _, _, hi, h => by
    simp only [decO] at h
    obtain ⟨x, hx, hk, hinp⟩ := readIntO_ok hi h
    simp at hk; subst hk
    exact ⟨[x], by simp [hinp], by simp [cellsM, cellInt, hx, cellsOf]⟩
  | .twString n, inp, v, r, _, _, hi, h => by
    simp only [decO] at h
    split at h
    · rename_i vs r' hr
      simp at h
      obtain ⟨used, hu, hc⟩ := orep_cells _ _ (fun inp v r hi' hh => readIntO_any hi' hh) _ _ _ _ hi hr
      have hl := (orep_ok _ isI32 (fun inp v r hi' hh => by
        obtain ⟨x, hx, hk, hinp⟩ := readIntO_ok hi' hh
        simp at hk; subst hk
        exact ⟨by simp [isI32, hx], fun y hy => hi' y (by rw [hinp]; simp [hy])⟩) _ _ _ _ hi hr).1
      refine ⟨used, by rw [hu, h.2], ?_⟩
      rw [← h.1]
      simp [cellsM, hl]
      exact hc
    · simp at h
  | .array n t, inp, v, r, hw, hn, hi, h => by
    simp only [wfO] at hw
    simp only [noBoolM] at hn
    simp only [decO] at h
    split at h
    · rename_i vs r' hr
      simp at h
      obtain ⟨used, hu, hc⟩ := orep_cells _ _ (fun inp v r hi' hh => decO_cells t inp v r hw hn hi' hh) _ _ _ _ hi hr
      have hl := (orep_ok _ (wtM t) (fun inp v r hi' hh => decO_wt t inp v r hi' hh) _ _ _ _ hi hr).1
      refine ⟨used, by rw [hu, h.2], ?_⟩
      rw [← h.1]
      simp [cellsM, hl, hc]
    · simp at h
  | .boolean, _, _, _, _, hn, _, _ => by simp [noBoolM] at hn
  | .object _, _, _, _, hw, _, _, _ => by simp [wfO] at hw
  | .tuneParam, _, _, _, hw, _, _, _ => by simp [wfO] at hw
  | .string _, _, _, _, hw, _, _, _ => by simp [wfO] at hw
  | .int32String, _, _, _, hw, _, _, _ => by simp [wfO] at hw
  | .data, _, _, _, hw, _, _, _ => by simp [wfO] at hw
  | .rest, _, _, _, hw, _, _, _ => by simp [wfO] at hw
  | .raw _, _, _, _, hw, _, _, _ => by simp [wfO] at hw
  | .beUint16, _, _, _, hw, _, _, _ => by simp [wfO] at hw
  | .uint8, _, _, _, hw, _, _, _ => by simp [wfO] at hw
  | .packedAddresses, _, _, _, hw, _, _, _ => by simp [wfO] at hw
  | .serverinfoClient, _, _, _, hw, _, _, _ => by simp [wfO] at hw
  | .optional _, _, _, _, hw, _, _, _ => by simp [wfO] at hw

theorem decOs_cells : ∀ (ms : ML) (inp : List Int) (vs : VL) (r : List Int) (off : Nat), wfOs ms = true →
    noBool ms = true → (∀ y ∈ inp, inI32 y) → off % 4 = 0 → decOs ms inp = .ok vs r →
    ∃ used, inp = used ++ r ∧ cellsMs ms vs off = .ok (cellsOf used)
  | .nil, inp, vs, r, off, _, _, _, _, h => by
    simp [decOs] at h
    exact ⟨[], by simp [h.2], by simp [← h.1, cellsMs, cellsOf]⟩
  | .cons t ms, inp, vs, r, off, hw, hn, hi, ho, h => by
    simp only [wfOs, Bool.and_eq_true] at hw
    simp only [noBool, Bool.and_eq_true] at hn
    simp only [decOs] at h
    split at h
    · simp at h
    · rename_i v r1 h1
      split at h
      · simp at h
      · rename_i vs' r2 h2
        simp at h
        obtain ⟨u1, hu1, hg1⟩ := decO_cells t _ _ _ hw.1 hn.1 hi h1
        have hi1 : ∀ y ∈ r1, inI32 y := fun y hy => hi y (by rw [hu1]; simp [hy])
        have ha := alignM_noBool t hn.1 hw.1
        have hpad : (4 - off % 4) % 4 = 0 := by omega
        have ho' : (off + (cellsOf u1).length) % 4 = 0 := by rw [cellsOf_length]; omega
        obtain ⟨u2, hu2, hg2⟩ := decOs_cells ms _ _ _ (off + (cellsOf u1).length) hw.2 hn.2 hi1 ho' h2
        refine ⟨u1 ++ u2, by rw [hu1, hu2, ← h.2]; simp, ?_⟩
        rw [← h.1]
        simp [cellsMs, ha, hpad, hg1, hg2, OEnc.ok_seq_ok, cellsOf_append]

theorem structAlign_noBool : ∀ (ms : ML), ms ≠ .nil → wfOs ms = true → noBool ms = true → structAlign ms = 4
  | .nil, h, _, _ => absurd rfl h
  | .cons t ms, _, hw, hn => by
    simp only [wfOs, Bool.and_eq_true] at hw
    simp only [noBool, Bool.and_eq_true] at hn
    have ha := alignM_noBool t hn.1 hw.1
    cases ms with
    | nil => simp [structAlign, ha]
    | cons t' ms' =>
      have := structAlign_noBool (.cons t' ms') (by simp) hw.2 hn.2
      simp [structAlign, ha] at this ⊢
      omega

/-- snapshot objects without boolean members are re-exposed as exactly the words they were
decoded from -/
theorem encodedWords_noBool (ms : ML) (inp : List Int) (hwf : wfOs ms = true) (hnb : noBool ms = true)
    (hne : ms ≠ .nil) (hi : ∀ x ∈ inp, inI32 x) (hd : ∃ v, decodeObjMembers ms inp = .ok v false) :
    encodedWords ms inp = some (inp.map some) := by
  obtain ⟨v, hd⟩ := hd
  unfold decodeObjMembers at hd
  split at hd
  · rename_i vs r h
    simp at hd
    have hr : r = [] := by cases r <;> simp_all
    subst hr
    obtain ⟨used, hu, hc⟩ := decOs_cells ms inp vs [] 0 hwf hnb hi (by rfl) h
    simp at hu
    subst hu
    have hsa := structAlign_noBool ms hne hwf hnb
    have hlen := cellsOf_length inp
    simp only [encodedWords, decodeObjMembers, h, encodeObj, hc, hsa]
    have h1 : ((cellsOf inp).length + (4 - (cellsOf inp).length % 4) % 4) = 4 * inp.length := by omega
    simp only [h1]
    have h2 : (4 * inp.length) % 4 = 0 := by omega
    have h3 : 4 * inp.length / 4 = inp.length := by omega
    have h4 : 4 * inp.length - (cellsOf inp).length = 0 := by omega
    simp [h2, h3, h4, words_cellsOf inp hi]
  · simp at hd


/-! ### what decodes can be written back -/

theorem rep_present (f : List UInt8 → Res Val) (h : ∀ inp v r ws, f inp = .ok v r ws → presentV v = true) :
    ∀ (n : Nat) (inp : List UInt8) (vs : VL) (r : List UInt8) (ws : List Warning),
      rep f n inp = .ok vs r ws → presentL vs = true := by
  intro n
  induction n with
  | zero => intro inp vs r ws he; simp [rep] at he; simp [← he.1, presentL]
  | succ n ih =>
    intro inp vs r ws he
    simp only [rep] at he
    split at he
    · simp at he
    · simp at he
    · rename_i v r1 ws1 h1
      split at he
      · simp at he
      · simp at he
      · rename_i vs' r2 ws2 h2
        simp at he
        rw [← he.1]
        simp [presentL, h _ _ _ _ h1, ih _ _ _ _ h2]

theorem readIntR_present {inp : List UInt8} {k : Int → Option Val} {x : Val} {r : List UInt8} {ws : List Warning}
    (hk : ∀ v y, k v = some y → presentV y = true) (h : readIntR inp k = .ok x r ws) : presentV x = true := by
  obtain ⟨v, _, hv⟩ := readIntR_ok h
  exact hk v x hv

mutual
theorem decM_present : ∀ (t : MT) (inp : List UInt8) (v : Val) (r : List UInt8) (ws : List Warning),
    noOptM t = true → decM t inp = .ok v r ws → presentV v = true
  | .int32 _ _, inp, v, r, ws, _, h => by
    simp only [decM] at h
    exact readIntR_present (fun v y hy => by split at hy <;> simp at hy; simp [← hy, presentV]) h
  | .boolean, inp, v, r, ws, _, h => by
    simp only [decM] at h
    exact readIntR_present (fun v y hy => by split at hy <;> simp at hy; simp [← hy, presentV]) h
  | .enum _ _ _, inp, v, r, ws, _, h => by
    simp only [decM] at h
    exact readIntR_present (fun v y hy => by split at hy <;> simp at hy; simp [← hy, presentV]) h
  | .flags _ _, inp, v, r, ws, _, h => by
    simp only [decM] at h
    exact readIntR_present (fun v y hy => by simp at hy; simp [← hy, presentV]) h
  | .tick, inp, v, r, ws, _, h => by
    simp only [decM] at h
    exact readIntR_present (fun v y hy => by simp at hy; simp [← hy, presentV]) h
  | .tuneParam, inp, v, r, ws, _, h => by
    simp only [decM] at h
    exact readIntR_present (fun v y hy => by simp at hy; simp [← hy, presentV]) h
  | .string _, inp, v, r, ws, _, h => by
    simp only [decM] at h
    split at h
    · simp at h
    · split at h <;> simp at h
      simp [← h.1, presentV]
  | .int32String, inp, v, r, ws, _, h => by
    simp only [decM] at h
    split at h
    · simp at h
    · split at h <;> simp at h
      simp [← h.1, presentV]
  | .data, inp, v, r, ws, _, h => by
    simp only [decM] at h
    split at h
    · simp at h
    · split at h
      · simp at h
      · split at h <;> simp at h
        simp [← h.1, presentV]
  | .rest, inp, v, r, ws, _, h => by simp [decM] at h; simp [← h.1, presentV]
  | .raw len, inp, v, r, ws, _, h => by
    simp only [decM, readRawR] at h
    split at h
    · simp at h
    · split at h <;> simp at h
      simp [← h.1, presentV]
  | .beUint16, inp, v, r, ws, _, h => by
    simp only [decM, readRawR] at h
    split at h
    · simp at h
    · split at h <;> simp at h
      simp [← h.1, presentV]
  | .uint8, inp, v, r, ws, _, h => by
    simp only [decM, readRawR] at h
    split at h
    · simp at h
    · split at h <;> simp at h
      simp [← h.1, presentV]
  | .packedAddresses, inp, v, r, ws, _, h => by
    simp only [decM] at h
    split at h <;> simp at h
    simp [← h.1, presentV]
  | .serverinfoClient, inp, v, r, ws, _, h => by simp [decM] at h; simp [← h.1, presentV]
  | .twString n, inp, v, r, ws, _, h => by
    simp only [decM] at h
    split at h
    · rename_i vs r' ws' hr
      simp at h
      rw [← h.1]
      simp only [presentV]
      exact rep_present _ (fun inp v r ws hh =>
        readIntR_present (fun v y hy => by simp at hy; simp [← hy, presentV]) hh) _ _ _ _ _ hr
    · simp at h
    · simp at h
  | .optional _, _, _, _, _, hn, _ => by simp [noOptM] at hn
  | .array n t, inp, v, r, ws, hn, h => by
    simp only [noOptM] at hn
    simp only [decM] at h
    split at h
    · rename_i vs r' ws' hr
      simp at h
      rw [← h.1]
      simp only [presentV]
      exact rep_present _ (fun inp v r ws hh => decM_present t inp v r ws hn hh) _ _ _ _ _ hr
    · simp at h
    · simp at h
  | .object ms, inp, v, r, ws, hn, h => by
    simp only [noOptM] at hn
    simp only [decM] at h
    split at h
    · rename_i vs r' ws' hr
      simp at h
      rw [← h.1]
      simp only [presentV]
      exact decMs_present ms inp vs r' ws' hn hr
    · simp at h
    · simp at h
theorem decMs_present : ∀ (ms : ML) (inp : List UInt8) (vs : VL) (r : List UInt8) (ws : List Warning),
    noOptMs ms = true → decMs ms inp = .ok vs r ws → presentL vs = true
  | .nil, inp, vs, r, ws, _, h => by simp [decMs] at h; simp [← h.1, presentL]
  | .cons t ms, inp, vs, r, ws, hn, h => by
    simp only [noOptMs, Bool.and_eq_true] at hn
    simp only [decMs] at h
    split at h
    · simp at h
    · simp at h
    · rename_i v r1 ws1 h1
      split at h
      · simp at h
      · simp at h
      · rename_i vs' r2 ws2 h2
        simp at h
        rw [← h.1]
        simp [presentL, decM_present t _ _ _ _ hn.1 h1, decMs_present ms _ _ _ _ hn.2 h2]
end

/-- an optional member that `wfM` admits, decoded: present (with a scalar inside), or absent with
the unpacker used up -/
theorem decM_optional (t : MT) (hin : optInnerOk t = true) (inp : List UInt8) (v : Val) (r : List UInt8)
    (ws : List Warning) (h : decM (.optional t) inp = .ok v r ws) :
    (v ≠ .none ∧ presentV v = true) ∨ (v = .none ∧ r = []) := by
  simp only [decM] at h
  split at h
  · rename_i x r' ws' hd
    simp at h
    left
    rw [← h.1]
    refine ⟨by simp, ?_⟩
    simp only [presentV]
    have hno : noOptM t = true := by cases t <;> simp_all [optInnerOk, noOptM]
    exact decM_present t inp x r' ws' hno hd
  · rename_i e r' ws' hd
    simp at h
    right
    refine ⟨h.1.symm, ?_⟩
    rw [← h.2.1]
    cases t with
    | int32 a b =>
      cases a <;> cases b <;> simp [optInnerOk] at hin
      simp only [decM, readIntR] at hd
      split at hd
      · simp at hd; exact hd.2.1
      · simp [checkRange] at hd
    | flags _ _ =>
      simp only [decM, readIntR] at hd
      split at hd
      · simp at hd; exact hd.2.1
      · simp at hd
    | string s =>
      cases s <;> simp [optInnerOk] at hin
      simp only [decM] at hd
      split at hd
      · simp at hd; exact hd.2.1
      · simp at hd
    | data =>
      simp only [decM] at hd
      split at hd
      · simp at hd; exact hd.2.1
      · split at hd
        · simp at hd; exact hd.2.1
        · split at hd
          · simp at hd; exact hd.2.1
          · simp at hd
    | _ => simp [optInnerOk] at hin
  · simp at h

/-- only optional members left and nothing to read: everything is absent -/
theorem decMs_allOptional_empty : ∀ (ms : ML) (vs : VL) (r : List UInt8) (ws : List Warning),
    wfMs ms = true → allOptional ms = true → decMs ms [] = .ok vs r ws → allNone vs = true
  | .nil, vs, r, ws, _, _, h => by simp [decMs] at h; simp [← h.1, allNone]
  | .cons t ms, vs, r, ws, hwf, ha, h => by
    cases t with
    | optional t' =>
      simp only [allOptional] at ha
      simp only [wfMs, Bool.and_eq_true] at hwf
      have hin : optInnerOk t' = true := by simpa [wfM] using hwf.1.1
      simp only [decMs, decM, optInner_empty t' hin] at h
      split at h
      · simp at h
      · simp at h
      · rename_i vs' r2 ws2 h2
        simp at h
        rw [← h.1]
        simp only [allNone]
        exact decMs_allOptional_empty ms vs' r2 ws2 hwf.2 ha h2
    | _ => simp [allOptional] at ha

/-- What `decode` produces has its absent optional members at the end. -/
theorem decMs_absentOk : ∀ (ms : ML) (inp : List UInt8) (vs : VL) (r : List UInt8) (ws : List Warning),
    wfMs ms = true → optsLast ms = true → decMs ms inp = .ok vs r ws → absentOk vs = true
  | .nil, inp, vs, r, ws, _, _, h => by simp [decMs] at h; simp [← h.1, absentOk]
  | .cons t ms, inp, vs, r, ws, hwf, hol, h => by
    have hwf0 := hwf
    simp only [wfMs, Bool.and_eq_true] at hwf
    simp only [decMs] at h
    split at h
    · simp at h
    · simp at h
    · rename_i v r1 ws1 h1
      split at h
      · simp at h
      · simp at h
      · rename_i vs' r2 ws2 h2
        simp at h
        rw [← h.1]
        cases t with
        | optional t' =>
          simp only [optsLast] at hol
          have hin : optInnerOk t' = true := by simpa [wfM] using hwf.1.1
          rcases decM_optional t' hin inp v r1 ws1 h1 with ⟨hne, hp⟩ | ⟨hv, hr⟩
          · have htail : absentOk vs' = true := by
              -- the remaining members are all optional
              exact decMs_absentOk_allOptional ms r1 vs' r2 ws2 hwf.2 hol h2
            cases v <;> simp_all [absentOk]
          · subst hv; subst hr
            simp only [absentOk]
            exact decMs_allOptional_empty ms vs' r2 ws2 hwf.2 hol h2
        | _ =>
          all_goals (
            simp only [optsLast, Bool.and_eq_true] at hol
            have hp := decM_present _ _ _ _ _ hol.1 h1
            have htail := decMs_absentOk ms r1 vs' r2 ws2 hwf.2 hol.2 h2
            cases v <;> simp_all [absentOk, presentV])
where
  decMs_absentOk_allOptional : ∀ (ms : ML) (inp : List UInt8) (vs : VL) (r : List UInt8) (ws : List Warning),
      wfMs ms = true → allOptional ms = true → decMs ms inp = .ok vs r ws → absentOk vs = true
    | .nil, inp, vs, r, ws, _, _, h => by simp [decMs] at h; simp [← h.1, absentOk]
    | .cons t ms, inp, vs, r, ws, hwf, ha, h => by
      cases t with
      | optional t' =>
        simp only [allOptional] at ha
        simp only [wfMs, Bool.and_eq_true] at hwf
        have hin : optInnerOk t' = true := by simpa [wfM] using hwf.1.1
        simp only [decMs] at h
        split at h
        · simp at h
        · simp at h
        · rename_i v r1 ws1 h1
          split at h
          · simp at h
          · simp at h
          · rename_i vs' r2 ws2 h2
            simp at h
            rw [← h.1]
            rcases decM_optional t' hin inp v r1 ws1 h1 with ⟨hne, hp⟩ | ⟨hv, hr⟩
            · have htail := decMs_absentOk_allOptional ms r1 vs' r2 ws2 hwf.2 ha h2
              cases v <;> simp_all [absentOk]
            · subst hv; subst hr
              simp only [absentOk]
              exact decMs_allOptional_empty ms vs' r2 ws2 hwf.2 ha h2
      | _ => simp [allOptional] at ha


/-- Every message that `decode` accepts (with or without warnings) can be encoded again, and the
result decodes to the same value without warnings. -/
theorem decoded_reencodes (ms : ML) (bs : List UInt8) (v : VL) (ws : List Warning) (hwf : wfMs ms = true)
    (hol : optsLast ms = true) (hd : decodeMembers ms bs = .ok v ws) :
    ∃ bs', encStruct ms v = .ok bs' ∧ decodeMembers ms bs' = .ok v [] := by
  unfold decodeMembers at hd
  split at hd
  · rename_i vs r ws' h
    simp at hd
    rw [← hd.1]
    exact decodeMembers_encStruct ms vs hwf (decMs_wt ms bs vs r ws' h) (decMs_absentOk ms bs vs r ws' hwf hol h)
  · simp at hd
  · simp at hd

/-! ### an object decoder consumes `int_size` integers -/

theorem readIntO_len {inp : List Int} {k : Int → Option Val} {x : Val} {r : List Int}
    (h : readIntO inp k = .ok x r) : inp.length = 1 + r.length := by
  unfold readIntO at h
  split at h
  · simp at h
  · split at h
    · simp at h; simp [← h.2]; omega
    · simp at h

theorem orep_len (f : List Int → ORes Val) (c : Nat)
    (h : ∀ inp v r, f inp = .ok v r → inp.length = c + r.length) :
    ∀ (n : Nat) (inp : List Int) (vs : VL) (r : List Int), orep f n inp = .ok vs r → inp.length = n * c + r.length := by
  intro n
  induction n with
  | zero => intro inp vs r he; simp [orep] at he; simp [he.2]
  | succ n ih =>
    intro inp vs r he
    simp only [orep] at he
    split at he
    · simp at he
    · rename_i v r1 h1
      split at he
      · simp at he
      · rename_i vs' r2 h2
        simp at he
        have a := h _ _ _ h1
        have b := ih _ _ _ h2
        rw [← he.2, Nat.succ_mul]
        omega

theorem decO_len : ∀ (t : MT) (inp : List Int) (v : Val) (r : List Int), wfO t = true →
    decO t inp = .ok v r → inp.length = intSizeM t + r.length
  | .int32 _ _, inp, v, r, _, h => by simp only [decO] at h; simpa [intSizeM] using readIntO_len h
  | .boolean, inp, v, r, _, h => by simp only [decO] at h; simpa [intSizeM] using readIntO_len h
  | .enum _ _ _, inp, v, r, _, h => by simp only [decO] at h; simpa [intSizeM] using readIntO_len h
  | .flags _ _, inp, v, r, _, h => by simp only [decO] at h; simpa [intSizeM] using readIntO_len h
  | .tick, inp, v, r, _, h => by simp only [decO] at h; simpa [intSizeM] using readIntO_len h
  | .twString n, inp, v, r, _, h => by
    simp only [decO] at h
    split at h
    · rename_i vs r' hr
      simp at h
      have := orep_len _ 1 (fun inp v r hh => readIntO_len hh) _ _ _ _ hr
      rw [← h.2]; simpa [intSizeM] using this
    · simp at h
  | .array n t, inp, v, r, hw, h => by
    simp only [wfO] at hw
    simp only [decO] at h
    split at h
    · rename_i vs r' hr
      simp at h
      have := orep_len _ (intSizeM t) (fun inp v r hh => decO_len t inp v r hw hh) _ _ _ _ hr
      rw [← h.2]; simpa [intSizeM] using this
    · simp at h
  | .object _, _, _, _, hw, _ => by simp [wfO] at hw
  | .tuneParam, _, _, _, hw, _ => by simp [wfO] at hw
  | .string _, _, _, _, hw, _ => by simp [wfO] at hw
  | .int32String, _, _, _, hw, _ => by simp [wfO] at hw
  | .data, _, _, _, hw, _ => by simp [wfO] at hw
  | .rest, _, _, _, hw, _ => by simp [wfO] at hw
  | .raw _, _, _, _, hw, _ => by simp [wfO] at hw
  | .beUint16, _, _, _, hw, _ => by simp [wfO] at hw
  | .uint8, _, _, _, hw, _ => by simp [wfO] at hw
  | .packedAddresses, _, _, _, hw, _ => by simp [wfO] at hw
  | .serverinfoClient, _, _, _, hw, _ => by simp [wfO] at hw
  | .optional _, _, _, _, hw, _ => by simp [wfO] at hw

theorem decOs_len : ∀ (ms : ML) (inp : List Int) (vs : VL) (r : List Int), wfOs ms = true →
    decOs ms inp = .ok vs r → inp.length = intSize ms + r.length
  | .nil, inp, vs, r, _, h => by simp [decOs] at h; simp [intSize, h.2]
  | .cons t ms, inp, vs, r, hw, h => by
    simp only [wfOs, Bool.and_eq_true] at hw
    simp only [decOs] at h
    split at h
    · simp at h
    · rename_i v r1 h1
      split at h
      · simp at h
      · rename_i vs' r2 h2
        simp at h
        have a := decO_len t _ _ _ hw.1 h1
        have b := decOs_len ms _ _ _ hw.2 h2
        rw [← h.2]
        simp only [intSize]
        omega


end Tw.Gamenet
