import Tw.Model.GamenetTyping
import Tw.Proofs.Packer

/-! Helper lemmas for C14 (interpreter over the protocol description language). -/
namespace Tw.Gamenet
open Tw.Packer (Warning readInt writeInt readString inI32 readInt_writeInt)

/-! ### strings -/

theorem readString_append (s : List UInt8) (h : hasNul s = false) (rest : List UInt8) :
    readString (s ++ 0 :: rest) = some (s, rest) := by
  induction s with
  | nil => simp [readString]
  | cons b s ih =>
    simp only [hasNul, List.any_cons, Bool.or_eq_false_iff] at h
    have hb : b ≠ 0 := by
      intro hb; subst hb; simp at h
    have ih' := ih (by simpa [hasNul] using h.2)
    simp [readString, hb, ih']

theorem readString_noNul : ∀ (inp s rest : List UInt8), readString inp = some (s, rest) → hasNul s = false := by
  intro inp
  induction inp with
  | nil => intro s rest h; simp [readString] at h
  | cons b bs ih =>
    intro s rest h
    simp only [readString] at h
    split at h
    · simp at h; simp [h.1, hasNul]
    · rename_i hb
      split at h
      · simp at h
      · rename_i s' rest' h'
        simp at h
        have := ih s' rest' h'
        rw [← h.1]
        simp only [hasNul, List.any_cons, Bool.or_eq_false_iff]
        refine ⟨by simpa using hb, by simpa [hasNul] using this⟩

/-! ### integers -/

theorem toI32_inI32 (r : Nat) : inI32 (Tw.Packer.toI32 r) := by
  unfold Tw.Packer.toI32 inI32
  split <;> omega

theorem readInt_inI32 {inp : List UInt8} {v : Int} {rest : List UInt8} {ws : List Warning}
    (h : readInt inp = some (v, rest, ws)) : inI32 v := by
  unfold readInt at h
  split at h
  · simp at h
  · split at h
    · simp at h
    · simp at h
      rw [← h.1]
      exact toI32_inI32 _

/-! ### `Enc.seq` -/

theorem Enc.seq_ok {a b : Enc} {bs : List UInt8} (h : a.seq b = .ok bs) :
    ∃ x y, a = .ok x ∧ b = .ok y ∧ bs = x ++ y := by
  cases a <;> cases b <;> simp [Enc.seq] at h
  exact ⟨_, _, rfl, rfl, h.symm⟩

theorem Enc.ok_seq_ok (x y : List UInt8) : (Enc.ok x).seq (.ok y) = .ok (x ++ y) := rfl

/-! ### repetition -/

theorem rep_encList (f : List UInt8 → Res Val) (g : Val → Enc) (p : Val → Bool)
    (h : ∀ v bs rest, p v = true → g v = .ok bs → f (bs ++ rest) = .ok v rest []) :
    ∀ (vs : VL) (bs rest : List UInt8), VL.all p vs = true → encList g vs = .ok bs →
      rep f vs.length (bs ++ rest) = .ok vs rest []
  | .nil, bs, rest, _, he => by
    simp [encList] at he; subst he; simp [rep, VL.length]
  | .cons v vs, bs, rest, hp, he => by
    simp only [VL.all, Bool.and_eq_true] at hp
    simp only [encList] at he
    obtain ⟨x, y, hx, hy, rfl⟩ := Enc.seq_ok he
    have h1 := h v x (y ++ rest) hp.1 hx
    have h2 := rep_encList f g p h vs y rest hp.2 hy
    simp [rep, VL.length, List.append_assoc, h1, h2]

theorem rep_ok (f : List UInt8 → Res Val) (p : Val → Bool)
    (h : ∀ inp v r ws, f inp = .ok v r ws → p v = true) :
    ∀ (n : Nat) (inp : List UInt8) (vs : VL) (r : List UInt8) (ws : List Warning),
      rep f n inp = .ok vs r ws → vs.length = n ∧ VL.all p vs = true := by
  intro n
  induction n with
  | zero => intro inp vs r ws he; simp [rep] at he; simp [← he.1, VL.length, VL.all]
  | succ n ih =>
    intro inp vs r ws he
    simp only [rep] at he
    split at he
    · simp at he
    · simp at he
    · rename_i v r1 ws1 h1
      split at he
      · simp at he
      · simp at he
      · rename_i vs' r2 ws2 h2
        simp at he
        obtain ⟨hl, ha⟩ := ih _ _ _ _ h2
        rw [← he.1]
        simp [VL.length, VL.all, hl, ha, h _ _ _ _ h1]

theorem rep_noPanic (f : List UInt8 → Res Val) (h : ∀ inp s, f inp ≠ .panic s) :
    ∀ (n : Nat) (inp : List UInt8) (s : String), rep f n inp ≠ .panic s := by
  intro n
  induction n with
  | zero => intro inp s; simp [rep]
  | succ n ih =>
    intro inp s
    simp only [rep]
    split
    · rename_i s' h'; exact absurd h' (h _ _)
    · simp
    · split
      · rename_i s' h'; exact absurd h' (ih _ _)
      · simp
      · simp

end Tw.Gamenet
