import Tw.Model.Packet6
import Tw.Proofs.Packet6Read

/-! Writer of protocol.rs (0.6) in closed form and the write → read round trip for every valid packet,
whichever branch (compressed / plain) the writer takes. -/
namespace Tw.Packet6
open Tw.Packet Tw.PacketBits

/-- C05's `Valid` for 0.6 packets -/
def Valid : Packet → Prop
  | .connless payload => payload.length ≤ Tw.Gen.Packet6.CONNLESS_WRITE_LIMIT
  | .connected ack tok (.chunks _ nc payload) =>
    ack < 1024 ∧ nc < 256 ∧
      payload.length + (if tok.isSome then Tw.Gen.Packet6.TOKEN_SIZE else 0) ≤ Tw.Gen.Packet6.READ_PAYLOAD_LIMIT
  | .connected ack _ (.control (.close r)) =>
    ack < 1024 ∧ r.length ≤ Tw.Gen.Packet6.CTRLMSG_CLOSE_REASON_LENGTH ∧ (∀ b ∈ r, b ≠ 0)
  | .connected ack _ (.control _) => ack < 1024

def Packet.hasToken : Packet → Bool
  | .connless _ => false
  | .connected _ tok _ => tok.isSome

/-- warnings the reader gives for a valid value: an empty chunk packet that does not request a
resend is reported as `ChunksNoChunks` (a statement about the value, not about the encoding) -/
def expectedWarnings : Packet → List Warning
  | .connected _ _ (.chunks false 0 _) => [.chunksNoChunks]
  | _ => []

theorem nulPos_append_zero (r : List UInt8) (h : ∀ b ∈ r, b ≠ 0) (rest : List UInt8) :
    nulPos (r ++ 0 :: rest) = r.length := by
  induction r with
  | nil => simp [nulPos]
  | cons b bs ih =>
    have hb : b ≠ 0 := h b (by simp)
    simp only [List.cons_append, nulPos, hb, if_false, List.length_cons]
    rw [ih (fun x hx => h x (by simp [hx]))]

theorem nulPos_le (l : List UInt8) : nulPos l ≤ l.length := by
  induction l with
  | nil => simp [nulPos]
  | cons b bs ih => simp only [nulPos]; split <;> simp <;> omega

theorem take_nulPos_nonzero (l : List UInt8) : ∀ b ∈ l.take (nulPos l), b ≠ 0 := by
  induction l with
  | nil => simp [nulPos]
  | cons b bs ih =>
    simp only [nulPos]
    split
    · simp
    · rename_i hb
      intro x hx
      simp only [List.take_succ_cons, List.mem_cons] at hx
      rcases hx with rfl | hx
      · exact hb
      · exact ih x hx

theorem write_connless_eq (t : Huffman.Table) (payload : List UInt8) (cap : Nat)
    (hv : payload.length ≤ Tw.Gen.Packet6.CONNLESS_WRITE_LIMIT) (hcap : 6 + payload.length ≤ cap) :
    write t (.connless payload) cap = .ok (List.replicate 6 255 ++ payload) := by
  show writeConnless payload cap = _
  unfold writeConnless
  have h1 : ¬ payload.length > Tw.Gen.Packet6.CONNLESS_WRITE_LIMIT := by omega
  rw [if_neg h1]
  have e : List.replicate (Tw.Gen.Packet6.HEADER_SIZE + Tw.Gen.Packet6.PADDING_SIZE_CONNLESS)
      (UInt8.ofNat Tw.Gen.Packet6.CONNLESS_PADDING_BYTE) = List.replicate 6 (255 : UInt8) := by decide
  rw [e, bufWrite_of_le (by simp; omega)]
  simp only [List.nil_append]
  rw [bufWrite_of_le (by simp; omega)]

/-- `read` on a datagram of at least three bytes that is not too long, with a sufficient buffer -/
theorem read_cons (t : Huffman.Table) (b0 b1 b2 : UInt8) (payload0 : List UInt8) (hint : Option Bool)
    (scap : Nat) (hs : Tw.Gen.Packet6.MAX_PACKETSIZE ≤ scap)
    (hlen : payload0.length + 3 ≤ Tw.Gen.Packet6.MAX_PACKETSIZE) :
    read t (b0 :: b1 :: b2 :: payload0) hint (some scap) =
      if (PacketHeader.unpackWarn b0.toNat b1.toNat b2.toNat).1.flags &&& Tw.Gen.Packet6.PACKETFLAG_CONNLESS ≠ 0 then
        .lift (readConnless (b0 :: b1 :: b2 :: payload0) payload0 (PacketHeader.unpackWarn b0.toNat b1.toNat b2.toNat).2)
      else if (PacketHeader.unpackWarn b0.toNat b1.toNat b2.toNat).1.flags &&& Tw.Gen.Packet6.PACKETFLAG_COMPRESSION ≠ 0 then
        match decompress t (b0 :: b1 :: b2 :: payload0) scap with
        | .ok s =>
          if s.length < Tw.Gen.Packet6.HEADER_SIZE then .panic "ref_and_rest_from(decompressed).unwrap()"
          else .lift (readBody (PacketHeader.unpackWarn b0.toNat b1.toNat b2.toNat).1
                  (PacketHeader.unpackWarn b0.toNat b1.toNat b2.toNat).2 (s.drop Tw.Gen.Packet6.HEADER_SIZE) .scratch s hint)
        | .capacity => .err .compression (PacketHeader.unpackWarn b0.toNat b1.toNat b2.toNat).2
        | .panic site => .panic site
        | .diverge => .diverge
      else .lift (readBody (PacketHeader.unpackWarn b0.toNat b1.toNat b2.toNat).1
              (PacketHeader.unpackWarn b0.toNat b1.toNat b2.toNat).2 payload0 .input [] hint) := by
  unfold read
  have h1 : ¬ scap < Tw.Gen.Packet6.MAX_PACKETSIZE := by omega
  have h2 : ¬ (b0 :: b1 :: b2 :: payload0).length > Tw.Gen.Packet6.MAX_PACKETSIZE := by
    simp only [List.length_cons]; omega
  simp only [h1, decide_false, Bool.false_eq_true, if_false, h2]
  rfl

theorem read_connless_eq (t : Huffman.Table) (payload : List UInt8) (hint : Option Bool) (scap : Nat)
    (hs : Tw.Gen.Packet6.MAX_PACKETSIZE ≤ scap) (hlen : payload.length ≤ 1394) :
    read t (List.replicate 6 255 ++ payload) hint (some scap) =
      .ok { pkt := .connless payload, warns := [], loc := some { src := .input, off := 6 }, scratch := [] } := by
  show read t (255 :: 255 :: 255 :: (255 :: 255 :: 255 :: payload)) hint (some scap) = _
  rw [read_cons t _ _ _ _ hint scap hs (by simp [Tw.Gen.Packet6.MAX_PACKETSIZE]; omega)]
  have e : PacketHeader.unpackWarn (255 : UInt8).toNat (255 : UInt8).toNat (255 : UInt8).toNat = (⟨15, 1023, 255⟩, []) := by decide
  rw [e]
  have h3 : (15 : Nat) &&& Tw.Gen.Packet6.PACKETFLAG_CONNLESS ≠ 0 := by decide
  rw [if_pos h3]
  unfold readConnless
  have h4 : ¬ (255 :: 255 :: 255 :: payload : List UInt8).length < Tw.Gen.Packet6.PADDING_SIZE_CONNLESS := by
    simp [Tw.Gen.Packet6.PADDING_SIZE_CONNLESS]
  rw [if_neg h4]
  simp [ReadResult.lift, Tw.Gen.Packet6.PADDING_SIZE_CONNLESS, Tw.Gen.Packet6.HEADER_SIZE, allEq]

def tokBytes : Option Token → List UInt8
  | some t => t.toList
  | none => []

theorem tokBytes_length (tok : Option Token) : (tokBytes tok).length = if tok.isSome then 4 else 0 := by
  cases tok <;> rfl

/-- stripping the token that `write` appended -/
theorem strip_token (x : List UInt8) (tk : Token) :
    (x ++ tk.toList).take ((x ++ tk.toList).length - 4) = x ∧
    (⟨((x ++ tk.toList).drop ((x ++ tk.toList).length - 4)).getD 0 0,
      ((x ++ tk.toList).drop ((x ++ tk.toList).length - 4)).getD 1 0,
      ((x ++ tk.toList).drop ((x ++ tk.toList).length - 4)).getD 2 0,
      ((x ++ tk.toList).drop ((x ++ tk.toList).length - 4)).getD 3 0⟩ : Token) = tk := by
  have hl : (x ++ tk.toList).length - 4 = x.length := by simp [Token.toList]
  rw [hl, List.take_left' rfl, List.drop_left' rfl]
  exact ⟨rfl, rfl⟩

/-- the request-resend flag of a header -/
def rrOf (h : PacketHeader) : Bool := h.flags &&& Tw.Gen.Packet6.PACKETFLAG_REQUEST_RESEND ≠ 0

/-- the connected part of the reader on `x ++ token`, told the true token mode -/
theorem readBody_strip (h : PacketHeader) (wh : List Warning) (x : List UInt8) (tok : Option Token)
    (src : Src) (scratch : List UInt8)
    (hx : x.length + (tokBytes tok).length ≤ Tw.Gen.Packet6.READ_PAYLOAD_LIMIT) :
    readBody h wh (x ++ tokBytes tok) src scratch (some tok.isSome) =
      if h.flags &&& Tw.Gen.Packet6.PACKETFLAG_CONTROL ≠ 0 then
        match controlValue x src Tw.Gen.Packet6.HEADER_SIZE with
        | .error e => .error (e, wh ++ controlWarns h tok x)
        | .ok (c, loc) =>
          .ok { pkt := .connected h.ack tok (.control c), warns := wh ++ controlWarns h tok x, loc := loc,
                scratch := scratch }
      else
        .ok { pkt := .connected h.ack tok (.chunks (rrOf h) h.numChunks x),
              warns := wh ++ (if h.numChunks = 0 ∧ ¬ rrOf h then [.chunksNoChunks] else []),
              loc := some { src := src, off := Tw.Gen.Packet6.HEADER_SIZE }, scratch := scratch } := by
  unfold readBody
  have h1 : ¬ (x ++ tokBytes tok).length > Tw.Gen.Packet6.READ_PAYLOAD_LIMIT := by
    simp only [List.length_append]; omega
  rw [if_neg h1]
  unfold readBodyWith
  cases tok with
  | none =>
    simp only [tokBytes, List.append_nil, Option.isSome_none, Bool.false_eq_true, false_and, if_false]
    rfl
  | some tk =>
    have h2 : ¬ (x ++ tk.toList).length < 4 := by
      simp [Token.toList]
    have hs := strip_token x tk
    simp only [tokBytes, Option.isSome_some, true_and, if_true, Tw.Gen.Packet6.TOKEN_SIZE]
    rw [hs.1, hs.2, if_neg h2]
    rfl

/-- discharge one `bufWrite` whose result fits (lengths by `simp`, bound by `omega`) -/
macro "bw" : tactic => `(tactic| rw [bufWrite_of_le (by
  simp only [ofNat3, List.length_append, List.length_cons, List.length_nil, List.nil_append] <;> omega)])

/-- the bytes `ControlPacket::write` puts between header and token -/
def ctrlBody (c : Control) (tok : Option Token) : List UInt8 :=
  UInt8.ofNat c.magic ::
    ((if (c = .connect ∨ c = .connectAccept) ∧ tok.isSome then Tw.Gen.Packet6.CTRLMSG_TOKEN_MAGIC else []) ++
     (match c with | .close m => m ++ [0] | _ => []))

theorem any_zero_false (m : List UInt8) (h : ∀ b ∈ m, b ≠ 0) : (m.any fun x => decide (x = 0)) = false := by
  simp only [List.any_eq_false, decide_eq_true_eq]
  exact h

theorem writeControl_eq (c : Control) (tok : Option Token) (ack cap : Nat) (ha : ack < 1024)
    (hv : ∀ m, c = .close m → ∀ b ∈ m, b ≠ 0)
    (hcap : 3 + (ctrlBody c tok).length + (tokBytes tok).length ≤ cap)
    (hmax : 3 + (ctrlBody c tok).length + (tokBytes tok).length ≤ Tw.Gen.Packet6.MAX_PACKETSIZE) :
    writeControl c tok ack cap =
      .ok (ofNat3 (16 + ack / 256, ack % 256, 0) ++ ctrlBody c tok ++ tokBytes tok) := by
  unfold writeControl
  rw [ph_pack_eq ⟨_, _, _⟩ (by show Tw.Gen.Packet6.PACKETFLAG_CONTROL < 16; decide) ha]
  simp only [Tw.Gen.Packet6.PACKETFLAG_CONTROL, Nat.one_mul]
  have hm : ∀ m, c = .close m → (m.any fun x => decide (x = 0)) = false :=
    fun m hc => any_zero_false m (hv m hc)
  cases c <;> cases tok <;>
    simp only [ctrlBody, tokBytes, Control.magic, Option.isSome_none, Option.isSome_some, Bool.false_eq_true,
      and_false, and_true, if_false, if_true, or_true, or_false, reduceCtorEq,
      List.append_nil, List.nil_append, List.length_cons, List.length_nil, List.length_append, Token.toList,
      Tw.Gen.Packet6.CTRLMSG_TOKEN_MAGIC, Tw.Gen.Packet6.MAX_PACKETSIZE] at hcap hmax ⊢ <;>
    (repeat (first
      | bw
      | rw [hm _ rfl]
      | rw [if_pos (by
          simp only [ofNat3, List.length_append, List.length_cons, List.length_nil, List.nil_append] <;> omega)]
      | simp only [Bool.false_eq_true, if_false])) <;>
    simp [ofNat3] <;>
    omega

/-- location of the slice field of a control packet -/
def ctrlLoc (c : Control) (src : Src) (off : Nat) : Option Loc :=
  match c with
  | .close _ => some { src := src, off := off + 1 }
  | _ => none

theorem readControl_ctrlBody (ack : Nat) (c : Control) (tok : Option Token) (src : Src) (off : Nat)
    (hv : ∀ m, c = .close m → m.length ≤ Tw.Gen.Packet6.CTRLMSG_CLOSE_REASON_LENGTH ∧ ∀ b ∈ m, b ≠ 0) :
    readControl ⟨Tw.Gen.Packet6.PACKETFLAG_CONTROL, ack, 0⟩ tok (ctrlBody c tok) src off =
      ([], .ok (c, ctrlLoc c src off)) := by
  unfold readControl controlWarns controlValue ctrlBody
  cases c with
  | close m =>
    obtain ⟨hl, hz⟩ := hv m rfl
    have hn : nulPos (m ++ [0]) = m.length := nulPos_append_zero m hz []
    have hmin : min m.length Tw.Gen.Packet6.CTRLMSG_CLOSE_REASON_LENGTH = m.length := Nat.min_eq_left hl
    cases tok <;>
      simp [Control.magic, ctrlLoc, hn, hmin, Tw.Gen.Packet6.CTRLMSG_CLOSE, Tw.Gen.Packet6.CTRLMSG_CONNECT,
        Tw.Gen.Packet6.CTRLMSG_CONNECTACCEPT, Tw.Gen.Packet6.CTRLMSG_KEEPALIVE, Tw.Gen.Packet6.CTRLMSG_ACCEPT,
        Tw.Gen.Packet6.PACKETFLAG_CONTROL, Tw.Gen.Packet6.PACKETFLAG_COMPRESSION,
        Tw.Gen.Packet6.PACKETFLAG_REQUEST_RESEND]
  | _ =>
    cases tok <;>
      simp [Control.magic, ctrlLoc, Tw.Gen.Packet6.CTRLMSG_CLOSE, Tw.Gen.Packet6.CTRLMSG_CONNECT,
        Tw.Gen.Packet6.CTRLMSG_CONNECTACCEPT, Tw.Gen.Packet6.CTRLMSG_KEEPALIVE, Tw.Gen.Packet6.CTRLMSG_ACCEPT,
        Tw.Gen.Packet6.PACKETFLAG_CONTROL, Tw.Gen.Packet6.PACKETFLAG_COMPRESSION,
        Tw.Gen.Packet6.PACKETFLAG_REQUEST_RESEND, Tw.Gen.Packet6.CTRLMSG_TOKEN_MAGIC]

theorem toNat_ofNat_lt (x : Nat) (h : x < 256) : (UInt8.ofNat x).toNat = x := by
  rw [UInt8.toNat_ofNat']
  exact Nat.mod_eq_of_lt h

theorem ph_unpack_packed (h : PacketHeader) (hf : h.flags < 16) (ha : h.ack < 1024) :
    PacketHeader.unpackWarn (h.flags * 16 + h.ack / 256) (h.ack % 256) h.numChunks = (h, []) := by
  obtain ⟨b0, b1, b2, hp, _, _, hu⟩ := ph_unpack_pack h hf ha
  rw [ph_pack_eq h hf ha] at hp
  simp only [Option.some.injEq, Prod.mk.injEq] at hp
  obtain ⟨rfl, rfl, rfl⟩ := hp
  exact hu

/-- reading what `write` produced for a connected packet: the header is recovered without warning -/
theorem read_written (t : Huffman.Table) (h : PacketHeader) (hf : h.flags < 16) (ha : h.ack < 1024)
    (hn : h.numChunks < 256) (hc : h.flags &&& Tw.Gen.Packet6.PACKETFLAG_CONNLESS = 0)
    (body : List UInt8) (hint : Option Bool) (scap : Nat) (hs : Tw.Gen.Packet6.MAX_PACKETSIZE ≤ scap)
    (hlen : body.length + 3 ≤ Tw.Gen.Packet6.MAX_PACKETSIZE) :
    read t (ofNat3 (h.flags * 16 + h.ack / 256, h.ack % 256, h.numChunks) ++ body) hint (some scap) =
      if h.flags &&& Tw.Gen.Packet6.PACKETFLAG_COMPRESSION ≠ 0 then
        match decompress t (ofNat3 (h.flags * 16 + h.ack / 256, h.ack % 256, h.numChunks) ++ body) scap with
        | .ok s =>
          if s.length < Tw.Gen.Packet6.HEADER_SIZE then .panic "ref_and_rest_from(decompressed).unwrap()"
          else .lift (readBody h [] (s.drop Tw.Gen.Packet6.HEADER_SIZE) .scratch s hint)
        | .capacity => .err .compression []
        | .panic site => .panic site
        | .diverge => .diverge
      else .lift (readBody h [] body .input [] hint) := by
  show read t (UInt8.ofNat (h.flags * 16 + h.ack / 256) :: UInt8.ofNat (h.ack % 256) :: UInt8.ofNat h.numChunks :: body)
    hint (some scap) = _
  rw [read_cons t _ _ _ _ hint scap hs hlen]
  rw [toNat_ofNat_lt _ (by omega), toNat_ofNat_lt _ (by omega), toNat_ofNat_lt _ hn, ph_unpack_packed h hf ha]
  have hc' : ¬ (h.flags &&& Tw.Gen.Packet6.PACKETFLAG_CONNLESS ≠ 0) := by simp [hc]
  rw [if_neg hc']
  rfl

theorem v6_control_roundtrip (t : Huffman.Table) (ack : Nat) (tok : Option Token) (c : Control)
    (ha : ack < 1024)
    (hv : ∀ m, c = .close m → m.length ≤ Tw.Gen.Packet6.CTRLMSG_CLOSE_REASON_LENGTH ∧ ∀ b ∈ m, b ≠ 0)
    (cap scap : Nat) (hcap : Tw.Gen.Packet6.MAX_PACKETSIZE ≤ cap) (hs : Tw.Gen.Packet6.MAX_PACKETSIZE ≤ scap) :
    ∃ bs, write t (.connected ack tok (.control c)) cap = .ok bs ∧ bs.length ≤ Tw.Gen.Packet6.MAX_PACKETSIZE ∧
      read t bs (some tok.isSome) (some scap) =
        .ok { pkt := .connected ack tok (.control c), warns := [], loc := ctrlLoc c .input 3, scratch := [] } := by
  have hlen : (ctrlBody c tok).length + (tokBytes tok).length ≤ 138 := by
    have := tokBytes_length tok
    cases c <;> cases tok <;> simp [ctrlBody, tokBytes, Token.toList, Tw.Gen.Packet6.CTRLMSG_TOKEN_MAGIC]
    all_goals
      have := (hv _ rfl).1
      simp only [Tw.Gen.Packet6.CTRLMSG_CLOSE_REASON_LENGTH] at this
      omega
  have hM : Tw.Gen.Packet6.MAX_PACKETSIZE = 1400 := by decide
  refine ⟨ofNat3 (16 + ack / 256, ack % 256, 0) ++ ctrlBody c tok ++ tokBytes tok, ?_, ?_, ?_⟩
  · show writeControl c tok ack cap = _
    exact writeControl_eq c tok ack cap ha (fun m hm => (hv m hm).2) (by omega) (by omega)
  · simp only [List.length_append, ofNat3, List.length_cons, List.length_nil]; omega
  · have e : (16 + ack / 256, ack % 256, 0) =
        ((⟨Tw.Gen.Packet6.PACKETFLAG_CONTROL, ack, 0⟩ : PacketHeader).flags * 16 + ack / 256, ack % 256, (0 : Nat)) := by
      simp [Tw.Gen.Packet6.PACKETFLAG_CONTROL]
    rw [e, List.append_assoc]
    rw [read_written t ⟨Tw.Gen.Packet6.PACKETFLAG_CONTROL, ack, 0⟩ (by simp only; decide) ha (by simp only; decide) (by simp only; decide) _ _ scap hs
      (by simp only [List.length_append]; omega)]
    have h8 : ¬ ((⟨Tw.Gen.Packet6.PACKETFLAG_CONTROL, ack, 0⟩ : PacketHeader).flags &&& Tw.Gen.Packet6.PACKETFLAG_COMPRESSION ≠ 0) := by
      simp only; decide
    rw [if_neg h8, readBody_strip _ _ _ _ _ _ (by simp only [Tw.Gen.Packet6.READ_PAYLOAD_LIMIT]; omega)]
    have h1 : (⟨Tw.Gen.Packet6.PACKETFLAG_CONTROL, ack, 0⟩ : PacketHeader).flags &&& Tw.Gen.Packet6.PACKETFLAG_CONTROL ≠ 0 := by
      simp only; decide
    have hrc := readControl_ctrlBody ack c tok .input Tw.Gen.Packet6.HEADER_SIZE hv
    unfold readControl at hrc
    simp only [Prod.mk.injEq] at hrc
    rw [if_pos h1, hrc.1, hrc.2]
    rfl

/-- the Huffman codec round trip (C07: `Tw.Huffman.decompress_compress _ wellFormed_table false`) -/
def HuffmanRoundTrip (t : Huffman.Table) : Prop :=
  ∀ (xs : List UInt8) (cap : Nat), xs.length ≤ cap →
    Huffman.decompress t (Huffman.compress t false xs) cap = .ok xs

/-- does `write_impl` choose the compressed form for the (token-extended) payload `p`? -/
def useComp (t : Huffman.Table) (p : List UInt8) : Bool :=
  decide ((Huffman.compress t false p).length < p.length)

def chunkFlags (rr comp : Bool) : Nat :=
  (if rr then Tw.Gen.Packet6.PACKETFLAG_REQUEST_RESEND else 0) |||
    (if comp then Tw.Gen.Packet6.PACKETFLAG_COMPRESSION else 0)

theorem tokenExtend_eq (payload : List UInt8) (tok : Option Token)
    (hl : payload.length + (tokBytes tok).length ≤ 2048) : tokenExtend payload tok = payload ++ tokBytes tok := by
  have : TOKEN_BUFFER_CAP = 2048 := by decide
  cases tok with
  | none => simp [tokenExtend, tokBytes]
  | some tk =>
    simp only [tokenExtend, tokBytes] at hl ⊢
    apply List.take_of_length_le
    simp only [List.length_append] at hl ⊢
    omega

theorem chooseCompression_eq (t : Huffman.Table) (p : List UInt8) (hp : p.length ≤ 2048) :
    chooseCompression t p = if useComp t p then some (Huffman.compress t false p) else none := by
  have hc : COMPRESSION_BUFFER_CAP = 2048 := by decide
  unfold chooseCompression Huffman.compressInto useComp
  simp only [hc]
  by_cases h1 : (Huffman.compress t false p).length ≤ 2048
  · simp only [h1, if_true, decide_eq_true_eq]
  · simp only [h1, if_false]
    have : ¬ (Huffman.compress t false p).length < p.length := by omega
    simp [this]

theorem writeChunksCore_eq (t : Huffman.Table) (ack : Nat) (rr : Bool) (nc : Nat) (p : List UInt8) (cap : Nat)
    (ha : ack < 1024) (hpl : p.length ≤ 1397) (hcap : Tw.Gen.Packet6.MAX_PACKETSIZE ≤ cap) :
    writeChunksCore t ack rr nc p cap =
      .ok (ofNat3 (chunkFlags rr (useComp t p) * 16 + ack / 256, ack % 256, nc) ++
            (if useComp t p then Huffman.compress t false p else p)) := by
  have hM : Tw.Gen.Packet6.MAX_PACKETSIZE = 1400 := by decide
  unfold writeChunksCore
  simp only [chooseCompression_eq t p (by omega)]
  have hflags : chunkFlags rr (useComp t p) < 16 := by
    cases rr <;> cases useComp t p <;> decide
  by_cases hc : useComp t p = true
  · have hlt : (Huffman.compress t false p).length < p.length := by simpa [useComp] using hc
    simp only [hc, if_true, Option.isSome_some, Option.getD_some]
    have e : ((if rr = true then Tw.Gen.Packet6.PACKETFLAG_REQUEST_RESEND else 0) |||
        Tw.Gen.Packet6.PACKETFLAG_COMPRESSION) = chunkFlags rr true := by simp [chunkFlags]
    rw [hc] at hflags
    rw [e, ph_pack_eq ⟨chunkFlags rr true, ack, nc⟩ hflags ha]
    simp only
    bw
    simp only [List.nil_append]
    rw [bufWrite_of_le (by simp only [ofNat3, List.length_cons, List.length_nil]; omega)]
  · simp only [hc, Bool.false_eq_true, if_false, Option.isSome_none, Option.getD_none]
    have hc' : useComp t p = false := by simpa using hc
    have e : ((if rr = true then Tw.Gen.Packet6.PACKETFLAG_REQUEST_RESEND else 0) ||| 0) = chunkFlags rr false := by
      simp [chunkFlags]
    rw [hc'] at hflags
    rw [e, ph_pack_eq ⟨chunkFlags rr false, ack, nc⟩ hflags ha]
    simp only
    bw
    simp only [List.nil_append]
    rw [bufWrite_of_le (by simp only [ofNat3, List.length_cons, List.length_nil]; omega)]

theorem writeChunks_eq (t : Huffman.Table) (ack : Nat) (tok : Option Token) (rr : Bool) (nc : Nat)
    (payload : List UInt8) (cap : Nat) (ha : ack < 1024)
    (hl : payload.length + (tokBytes tok).length ≤ Tw.Gen.Packet6.READ_PAYLOAD_LIMIT)
    (hcap : Tw.Gen.Packet6.MAX_PACKETSIZE ≤ cap) :
    writeChunks t ack tok rr nc payload cap =
      .ok (ofNat3 (chunkFlags rr (useComp t (payload ++ tokBytes tok)) * 16 + ack / 256, ack % 256, nc) ++
            (if useComp t (payload ++ tokBytes tok) then Huffman.compress t false (payload ++ tokBytes tok)
             else payload ++ tokBytes tok)) := by
  have hL : Tw.Gen.Packet6.READ_PAYLOAD_LIMIT = 1397 := by decide
  have hT : Tw.Gen.Packet6.TOKEN_SIZE = 4 := by decide
  have hB : TOKEN_BUFFER_CAP = 2048 := by decide
  unfold writeChunks
  rw [tokenExtend_eq payload tok (by omega),
    writeChunksCore_eq t ack rr nc _ cap ha (by simp only [List.length_append]; omega) hcap]
  simp only
  rw [if_neg (by omega)]

theorem rrOf_chunkFlags (rr comp : Bool) (ack nc : Nat) : rrOf ⟨chunkFlags rr comp, ack, nc⟩ = rr := by
  cases rr <;> cases comp <;>
    (show decide (chunkFlags _ _ &&& Tw.Gen.Packet6.PACKETFLAG_REQUEST_RESEND ≠ 0) = _; decide)

theorem decompress_written (t : Huffman.Table) (hrt : HuffmanRoundTrip t) (h : PacketHeader)
    (hf : h.flags < 16) (ha : h.ack < 1024) (hn : h.numChunks < 256)
    (hc : h.flags &&& Tw.Gen.Packet6.PACKETFLAG_CONNLESS = 0)
    (hz : h.flags &&& Tw.Gen.Packet6.PACKETFLAG_COMPRESSION ≠ 0)
    (p : List UInt8) (scap : Nat) (hs : Tw.Gen.Packet6.MAX_PACKETSIZE ≤ scap) (hp : p.length + 3 ≤ scap)
    (hlen : (Huffman.compress t false p).length + 3 ≤ Tw.Gen.Packet6.MAX_PACKETSIZE) :
    ∃ fake : List UInt8, fake.length = 3 ∧
      decompress t (ofNat3 (h.flags * 16 + h.ack / 256, h.ack % 256, h.numChunks) ++ Huffman.compress t false p) scap =
        .ok (fake ++ p) := by
  refine ⟨fakeHeader (UInt8.ofNat (h.flags * 16 + h.ack / 256)) (UInt8.ofNat (h.ack % 256)) (UInt8.ofNat h.numChunks),
    fakeHeader_length _ _ _, ?_⟩
  show decompress t (UInt8.ofNat (h.flags * 16 + h.ack / 256) :: UInt8.ofNat (h.ack % 256) ::
    UInt8.ofNat h.numChunks :: Huffman.compress t false p) scap = _
  have hu : PacketHeader.unpackWarn (UInt8.ofNat (h.flags * 16 + h.ack / 256)).toNat (UInt8.ofNat (h.ack % 256)).toNat
      (UInt8.ofNat h.numChunks).toNat = (h, []) := by
    rw [toNat_ofNat_lt _ (by omega), toNat_ofNat_lt _ (by omega), toNat_ofNat_lt _ hn, ph_unpack_packed h hf ha]
  have hnd := needsDecompression_of (UInt8.ofNat (h.flags * 16 + h.ack / 256)) (UInt8.ofNat (h.ack % 256))
    (UInt8.ofNat h.numChunks) (Huffman.compress t false p)
    (by simp only [List.length_cons]; omega) (by rw [hu]; simp [hc]) (by rw [hu]; exact hz)
  rw [decompress_eq t _ _ _ _ scap hs hnd, hrt p (scap - 3) (by omega)]

theorem v6_chunks_roundtrip (t : Huffman.Table) (hrt : HuffmanRoundTrip t) (ack : Nat) (tok : Option Token)
    (rr : Bool) (nc : Nat) (payload : List UInt8) (ha : ack < 1024) (hn : nc < 256)
    (hl : payload.length + (tokBytes tok).length ≤ Tw.Gen.Packet6.READ_PAYLOAD_LIMIT)
    (cap scap : Nat) (hcap : Tw.Gen.Packet6.MAX_PACKETSIZE ≤ cap) (hs : Tw.Gen.Packet6.MAX_PACKETSIZE ≤ scap) :
    ∃ bs, write t (.connected ack tok (.chunks rr nc payload)) cap = .ok bs ∧
      bs.length ≤ Tw.Gen.Packet6.MAX_PACKETSIZE ∧
      ∃ r, read t bs (some tok.isSome) (some scap) = .ok r ∧
        r.pkt = .connected ack tok (.chunks rr nc payload) ∧
        r.warns = expectedWarnings (.connected ack tok (.chunks rr nc payload)) ∧
        (r.loc = some { src := .input, off := 3 } ∨ r.loc = some { src := .scratch, off := 3 }) := by
  have hL : Tw.Gen.Packet6.READ_PAYLOAD_LIMIT = 1397 := by decide
  have hM : Tw.Gen.Packet6.MAX_PACKETSIZE = 1400 := by decide
  have hH : Tw.Gen.Packet6.HEADER_SIZE = 3 := by decide
  refine ⟨_, writeChunks_eq t ack tok rr nc payload cap ha hl hcap, ?_, ?_⟩
  · by_cases hc : useComp t (payload ++ tokBytes tok) = true
    · have hlt : (Huffman.compress t false (payload ++ tokBytes tok)).length < (payload ++ tokBytes tok).length := by
        simpa [useComp] using hc
      simp only [hc, if_true, List.length_append, ofNat3, List.length_cons, List.length_nil] at hlt ⊢
      omega
    · have hc' : useComp t (payload ++ tokBytes tok) = false := by simpa using hc
      simp only [hc', Bool.false_eq_true, if_false, List.length_append, ofNat3, List.length_cons, List.length_nil]
      omega
  · -- the header that was written
    have hwarn : (if nc = 0 ∧ ¬ rr = true then [Warning.chunksNoChunks] else []) =
        expectedWarnings (.connected ack tok (.chunks rr nc payload)) := by
      cases rr <;> cases nc <;> simp [expectedWarnings]
    by_cases hc : useComp t (payload ++ tokBytes tok) = true
    · have hlt : (Huffman.compress t false (payload ++ tokBytes tok)).length < (payload ++ tokBytes tok).length := by
        simpa [useComp] using hc
      have hpl : (payload ++ tokBytes tok).length ≤ 1397 := by simp only [List.length_append]; omega
      simp only [hc, if_true]
      have hfl : chunkFlags rr true < 16 := by cases rr <;> decide
      have h2 : chunkFlags rr true &&& Tw.Gen.Packet6.PACKETFLAG_CONNLESS = 0 := by cases rr <;> decide
      have h8 : chunkFlags rr true &&& Tw.Gen.Packet6.PACKETFLAG_COMPRESSION ≠ 0 := by cases rr <;> decide
      have h1 : ¬ (chunkFlags rr true &&& Tw.Gen.Packet6.PACKETFLAG_CONTROL ≠ 0) := by cases rr <;> decide
      have h4 : rrOf ⟨chunkFlags rr true, ack, nc⟩ = rr := rrOf_chunkFlags _ _ _ _
      rw [read_written t ⟨chunkFlags rr true, ack, nc⟩ hfl ha hn h2 _ _ scap hs (by omega)]
      rw [if_pos h8]
      obtain ⟨fake, hfk, hd⟩ := decompress_written t hrt ⟨chunkFlags rr true, ack, nc⟩ hfl ha hn h2 h8
        (payload ++ tokBytes tok) scap hs (by omega) (by omega)
      rw [hd]
      simp only
      have hlen3 : ¬ (fake ++ (payload ++ tokBytes tok)).length < Tw.Gen.Packet6.HEADER_SIZE := by
        simp only [List.length_append]; omega
      rw [if_neg hlen3, hH, List.drop_left' hfk,
        readBody_strip _ _ _ _ _ _ (by omega), if_neg h1]
      refine ⟨_, rfl, ?_, ?_, Or.inr rfl⟩
      · simp only [h4]
      · simp only [h4, List.nil_append]; exact hwarn
    · have hc' : useComp t (payload ++ tokBytes tok) = false := by simpa using hc
      simp only [hc', Bool.false_eq_true, if_false]
      have hfl : chunkFlags rr false < 16 := by cases rr <;> decide
      have h2 : chunkFlags rr false &&& Tw.Gen.Packet6.PACKETFLAG_CONNLESS = 0 := by cases rr <;> decide
      have h8 : ¬ (chunkFlags rr false &&& Tw.Gen.Packet6.PACKETFLAG_COMPRESSION ≠ 0) := by cases rr <;> decide
      have h1 : ¬ (chunkFlags rr false &&& Tw.Gen.Packet6.PACKETFLAG_CONTROL ≠ 0) := by cases rr <;> decide
      have h4 : rrOf ⟨chunkFlags rr false, ack, nc⟩ = rr := rrOf_chunkFlags _ _ _ _
      rw [read_written t ⟨chunkFlags rr false, ack, nc⟩ hfl ha hn h2 _ _ scap hs
        (by simp only [List.length_append]; omega)]
      rw [if_neg h8, readBody_strip _ _ _ _ _ _ (by omega), if_neg h1]
      refine ⟨_, rfl, ?_, ?_, Or.inl rfl⟩
      · simp only [h4]
      · simp only [h4, List.nil_append]; exact hwarn

/-- **write → read round trip (0.6)**: every valid packet is written (into any buffer of at least
`MAX_PACKETSIZE` bytes) to at most `MAX_PACKETSIZE` bytes which the reader, told the true token mode,
parses back to the same value with exactly the expected warnings — whether or not the writer chose
Huffman compression. -/
theorem write_read_roundtrip (t : Huffman.Table) (hrt : HuffmanRoundTrip t) (p : Packet) (hv : Valid p)
    (cap scap : Nat) (hcap : Tw.Gen.Packet6.MAX_PACKETSIZE ≤ cap) (hs : Tw.Gen.Packet6.MAX_PACKETSIZE ≤ scap) :
    ∃ bs, write t p cap = .ok bs ∧ bs.length ≤ Tw.Gen.Packet6.MAX_PACKETSIZE ∧
      ∃ r, read t bs (some p.hasToken) (some scap) = .ok r ∧ r.pkt = p ∧ r.warns = expectedWarnings p := by
  have hM : Tw.Gen.Packet6.MAX_PACKETSIZE = 1400 := by decide
  have hC : Tw.Gen.Packet6.CONNLESS_WRITE_LIMIT = 1394 := by decide
  match p, hv with
  | .connless payload, hv =>
    simp only [Valid] at hv
    refine ⟨_, write_connless_eq t payload cap hv (by omega), ?_, _,
      read_connless_eq t payload _ scap hs (by omega), rfl, rfl⟩
    simp only [List.length_append, List.length_replicate]; omega
  | .connected ack tok (.chunks rr nc payload), hv =>
    simp only [Valid] at hv
    obtain ⟨ha, hn, hl⟩ := hv
    have hl' : payload.length + (tokBytes tok).length ≤ Tw.Gen.Packet6.READ_PAYLOAD_LIMIT := by
      rw [tokBytes_length]; exact hl
    obtain ⟨bs, hw, hlen, r, hr, hp, hwn, _⟩ :=
      v6_chunks_roundtrip t hrt ack tok rr nc payload ha hn hl' cap scap hcap hs
    exact ⟨bs, hw, hlen, r, hr, hp, hwn⟩
  | .connected ack tok (.control c), hv =>
    have ha : ack < 1024 := by cases c <;> simp only [Valid] at hv <;> first | exact hv | exact hv.1
    have hcl : ∀ m, c = .close m → m.length ≤ Tw.Gen.Packet6.CTRLMSG_CLOSE_REASON_LENGTH ∧ ∀ b ∈ m, b ≠ 0 := by
      intro m hm
      subst hm
      simp only [Valid] at hv
      exact hv.2
    obtain ⟨bs, hw, hlen, hr⟩ := v6_control_roundtrip t ack tok c ha hcl cap scap hcap hs
    refine ⟨bs, hw, hlen, _, hr, rfl, ?_⟩
    cases c <;> rfl

/-! ### the silent truncation of `ConnectedPacket::write` -/

theorem writeControl_ne_truncated (c : Control) (tok : Option Token) (ack cap : Nat) (bs : List UInt8) :
    writeControl c tok ack cap ≠ .okTruncated bs := by
  intro h
  unfold writeControl at h
  cases c <;> cases tok <;> simp only [bufWrite] at h <;>
    (repeat' (first | (simp at h; done) | (split at h)))

/-- `write` reports `okTruncated` exactly for a chunk packet with a token whose payload plus token exceed
the 2048-byte `ArrayVec`, when the (truncated) packet fitted into the caller's buffer -/
theorem write_okTruncated_iff (t : Huffman.Table) (p : Packet) (cap : Nat) (bs : List UInt8) :
    write t p cap = .okTruncated bs ↔
      ∃ ack tk rr nc payload, p = .connected ack (some tk) (.chunks rr nc payload) ∧
        payload.length + Tw.Gen.Packet6.TOKEN_SIZE > TOKEN_BUFFER_CAP ∧
        writeChunksCore t ack rr nc (tokenExtend payload (some tk)) cap = .ok bs := by
  constructor
  · intro h
    match p, h with
    | .connless payload, h =>
      simp only [write, writeConnless] at h
      split at h
      · simp at h
      · split at h
        · simp at h
        · split at h <;> simp at h
    | .connected ack tok (.control c), h =>
      exact absurd h (writeControl_ne_truncated c tok ack cap bs)
    | .connected ack tok (.chunks rr nc payload), h =>
      simp only [write, writeChunks] at h
      split at h
      · rename_i bs' hcore
        split at h
        · rename_i hcond
          simp only [WriteResult.okTruncated.injEq] at h
          subst h
          cases tok with
          | none => simp at hcond
          | some tk => exact ⟨ack, tk, rr, nc, payload, rfl, hcond.2, hcore⟩
        · simp at h
      · rename_i r hne
        -- the core never reports `okTruncated`
        exfalso
        have hcore : ∀ r, writeChunksCore t ack rr nc (tokenExtend payload tok) cap = r →
            ∀ b, r ≠ .okTruncated b := by
          intro r hr b hb
          subst hr
          unfold writeChunksCore at hb
          simp only [bufWrite] at hb
          repeat' (first | (simp at hb; done) | (split at hb))
        exact hcore _ h bs rfl
  · rintro ⟨ack, tk, rr, nc, payload, rfl, hlen, hcore⟩
    simp only [write, writeChunks, hcore, Option.isSome_some, true_and, hlen, if_true]

/-- what is lost: the 2048 bytes that are encoded are a proper prefix of payload ++ token -/
theorem truncation_loses_data (payload : List UInt8) (tk : Token)
    (h : payload.length + Tw.Gen.Packet6.TOKEN_SIZE > TOKEN_BUFFER_CAP) :
    (tokenExtend payload (some tk)).length = TOKEN_BUFFER_CAP ∧
    tokenExtend payload (some tk) ≠ payload ++ tk.toList := by
  have hT : Tw.Gen.Packet6.TOKEN_SIZE = 4 := by decide
  have hl : (tokenExtend payload (some tk)).length = TOKEN_BUFFER_CAP := by
    simp only [tokenExtend, List.length_take, List.length_append, Token.toList, List.length_cons, List.length_nil]
    omega
  refine ⟨hl, ?_⟩
  intro he
  have := congrArg List.length he
  rw [hl] at this
  simp only [List.length_append, Token.toList, List.length_cons, List.length_nil] at this
  omega

/-- a `Valid` packet is never truncated -/
theorem valid_not_truncated (t : Huffman.Table) (hrt : HuffmanRoundTrip t) (p : Packet) (hv : Valid p) (cap : Nat)
    (hcap : Tw.Gen.Packet6.MAX_PACKETSIZE ≤ cap) (bs : List UInt8) : write t p cap ≠ .okTruncated bs := by
  obtain ⟨bs', hw, _⟩ := write_read_roundtrip t hrt p hv cap cap hcap hcap
  rw [hw]
  simp

end Tw.Packet6
