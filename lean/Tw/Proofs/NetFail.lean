import Tw.Proofs.NetTick

/-! The converse direction of the simulation: a call of the endpoint fails (panics / never returns)
only if the single-address reference fails the same way on the projected call, or the call names a
peer id that is not live. -/
namespace Tw.Net
open Tw.Conn Tw.Conn6 Tw.Time

theorem modifyPeer_err {net : Net} {pid : Nat} {f : Peer → Except Fail (Conn × Ret × Conn6.Out)} {e : Fail}
    (hi : PInv net.peers) (h : modifyPeer net pid f = .error e) :
    lookup net.peers pid = none ∨
      ∃ p, lookup net.peers pid = some p ∧ slotModify p.addr (slot net.peers p.addr) f = .error e := by
  unfold modifyPeer at h
  split at h
  · left; assumption
  · rename_i p hl
    right
    refine ⟨p, hl, ?_⟩
    split at h
    · rename_i e' hf
      simp only [Except.error.injEq] at h
      simp [slotModify, lookup_slot hi hl, hf, h]
    · simp at h

theorem removePeer_err {net : Net} {pid : Nat} {f : Peer → Except Fail Conn6.Out} {e : Fail}
    (hi : PInv net.peers) (h : removePeer net pid f = .error e) :
    lookup net.peers pid = none ∨
      ∃ p, lookup net.peers pid = some p ∧ slotRemove p.addr (slot net.peers p.addr) f = .error e := by
  unfold removePeer at h
  split at h
  · left; assumption
  · rename_i p hl
    right
    refine ⟨p, hl, ?_⟩
    split at h
    · rename_i e' hf
      simp only [Except.error.injEq] at h
      simp [slotRemove, lookup_slot hi hl, hf, h]
    · obtain ⟨ps', hrm, _, _⟩ := remove_some hi hl
      rw [hrm] at h
      simp at h

theorem removeOnDisconnect_err_absent {ps : Peers} {pid : Nat} {evs : List Event} {e : Fail}
    (h : lookup ps pid = none) (hr : removeOnDisconnect ps pid evs = .error e) :
    slotOnDisconnect none evs = .error e := by
  induction evs with
  | nil => simp [removeOnDisconnect] at hr
  | cons x xs ih =>
    cases x with
    | disconnect r => simp [removeOnDisconnect, remove_none h] at hr; simp [slotOnDisconnect, hr]
    | connless d => simp only [removeOnDisconnect] at hr; simpa [slotOnDisconnect] using ih hr
    | chunk d v => simp only [removeOnDisconnect] at hr; simpa [slotOnDisconnect] using ih hr
    | ready => simp only [removeOnDisconnect] at hr; simpa [slotOnDisconnect] using ih hr

theorem removeOnDisconnect_err {ps : Peers} {pid : Nat} {p : Peer} {evs : List Event} {e : Fail}
    (hi : PInv ps) (h : lookup ps pid = some p) (hr : removeOnDisconnect ps pid evs = .error e) :
    slotOnDisconnect (some (pid, p)) evs = .error e := by
  induction evs with
  | nil => simp [removeOnDisconnect] at hr
  | cons x xs ih =>
    cases x with
    | disconnect r =>
      obtain ⟨ps1, hrm, _, hm⟩ := remove_some hi h
      simp only [removeOnDisconnect, hrm] at hr
      simpa [slotOnDisconnect] using removeOnDisconnect_err_absent (lookup_remove_self hm) hr
    | connless d => simp only [removeOnDisconnect] at hr; simpa [slotOnDisconnect] using ih hr
    | chunk d v => simp only [removeOnDisconnect] at hr; simpa [slotOnDisconnect] using ih hr
    | ready => simp only [removeOnDisconnect] at hr; simpa [slotOnDisconnect] using ih hr

theorem feedUnknown_err {net : Net} {addr : Nat} {pending : Bool} {rd : Option Bool → Option Packet}
    {e : Fail} (s : Slot) (h : feedUnknown net addr pending rd = .error e) :
    refStateless net.acceptConnections addr s pending rd (freshPid net) = .error e := by
  unfold feedUnknown at h
  unfold refStateless
  split at h
  · simp at h
  · simp at h
  · rename_i ack token hrd
    simp only [hrd]
    split at h
    · simp at h
    · rename_i hpend
      split at h
      · rename_i hacc
        split at h
        · rename_i e' hnp
          obtain ⟨hf, he⟩ := newPeer_error hnp
          simp only [Except.error.injEq] at h
          simp [hpend, hacc, hf, ← h, he]
        · simp at h
      · simp at h
  · simp at h

theorem feed_err {env : Env} {net : Net} {addr : Nat} {rd : Option Bool → Option Packet} {e : Fail}
    (hi : PInv net.peers) (h : feed env net addr rd = .error e) :
    refStep net.acceptConnections addr env (slot net.peers addr) (.dgram rd (freshPid net)) = .error e := by
  unfold feed at h
  rw [pidFromAddr_eq] at h
  cases hs : slot net.peers addr with
  | none =>
    simp only [hs, Option.map_none] at h
    simpa [refStep] using feedUnknown_err none h
  | some v =>
    obtain ⟨pid, p⟩ := v
    have hl := slot_lookup hi hs
    simp only [hs, Option.map_some, hl] at h
    split at h
    · rename_i hun
      simpa [refStep, hun] using feedUnknown_err (some (pid, p)) h
    · rename_i hun
      unfold feedPeer at h
      simp only [hl] at h
      simp only [refStep, hun, if_false]
      split at h
      · rename_i e' hf
        simp only [Except.error.injEq] at h
        simp [hf, h]
      · rename_i c o' hf
        simp only [hf]
        split at h
        · rename_i e' hrd
          simp only [Except.error.injEq] at h
          have hi1 := pinv_update hi hl (p' := { p with conn := c }) rfl
          have hl1 : lookup (update net.peers pid { p with conn := c }) pid = some { p with conn := c } :=
            lookup_update_self hi hl
          have := removeOnDisconnect_err hi1 hl1 hrd
          simp [this, h]
        · simp at h

theorem connect_err {env : Env} {net : Net} {addr : Nat} {e : Fail}
    (hok : slot net.peers addr = none) (h : connect env net addr = .error e) :
    refStep net.acceptConnections addr env (slot net.peers addr) (.connect (freshPid net)) = .error e := by
  unfold connect at h
  split at h
  · rename_i e' hnp
    obtain ⟨hf, he⟩ := newPeer_error hnp
    simp only [Except.error.injEq] at h
    simp [refStep, hok, hf, ← h, he]
  · rename_i net1 pid hnp
    obtain ⟨hfresh, _, _, _⟩ := newPeer_ok hnp
    split at h
    · rename_i e' hc
      simp only [Except.error.injEq] at h
      simp [refStep, hok, hfresh, hc, h]
    · simp at h

theorem sendConnless_err {net : Net} {addr : Nat} {d : Bytes} {e : Fail} (env : Env)
    (h : sendConnless net addr d = .error e) :
    refStep net.acceptConnections addr env (slot net.peers addr) (.sendConnless d) = .error e := by
  unfold sendConnless at h
  split at h
  · simp at h
  · rename_i hlen
    split at h
    · rename_i e' hem
      simp only [Except.error.injEq] at h
      simp [refStep, hlen, hem, h]
    · simp at h

theorem tickPeers_err {env : Env} {ps : Peers} {e : Fail} (hn : (addrs ps).Nodup)
    (h : tickPeers env ps = .error e) :
    ∃ a pid p, slot ps a = some (pid, p) ∧ Conn6.tick env p.conn = .error e := by
  induction ps with
  | nil => simp [tickPeers] at h
  | cons x xs ih =>
    simp only [tickPeers] at h
    simp only [addrs, List.map_cons, List.nodup_cons] at hn
    split at h
    · rename_i e' hc
      simp only [Except.error.injEq] at h
      exact ⟨x.2.addr, x.1, x.2, by simp [slot], by rw [hc, h]⟩
    · split at h
      · rename_i e' hes
        simp only [Except.error.injEq] at h
        obtain ⟨a, pid, p, hs, ht⟩ := ih hn.2 (by rw [hes, h])
        refine ⟨a, pid, p, ?_, ht⟩
        simp only [slot]
        split
        · rename_i hxa
          exact absurd (List.mem_map.2 ⟨(pid, p), (slot_mem hs).1, by have := (slot_mem hs).2; simp at this; simp [this, hxa]⟩) hn.1
        · exact hs
      · simp at h

/-- **No failure of its own**: a call of the endpoint panics / hangs only if it names a peer id
that is not live, or the single-address reference fails in the same way on the projected call. -/
theorem step_err {env : Env} {net : Net} {op : Op} {f : Fail} (hi : PInv net.peers)
    (hok : opOk net op = true) (h : step env net op = .error f) :
    invalidPid net op = true ∨
      ∃ a lop, projOp net a op = some lop ∧
        refStep net.acceptConnections a env (slot net.peers a) lop = .error f := by
  cases op with
  | feed addr rd => exact Or.inr ⟨addr, _, by simp [projOp], feed_err hi h⟩
  | connect addr =>
    have hs : slot net.peers addr = none := by simpa [opOk] using hok
    exact Or.inr ⟨addr, _, by simp [projOp], connect_err hs h⟩
  | accept pid =>
    rcases modifyPeer_err hi h with hl | ⟨p, hl, hr⟩
    · left; simp [invalidPid, hl]
    · exact Or.inr ⟨p.addr, .accept, by simp [projOp, addrOf, hl], by simpa [refStep] using hr⟩
  | send pid d v =>
    rcases modifyPeer_err hi h with hl | ⟨p, hl, hr⟩
    · left; simp [invalidPid, hl]
    · exact Or.inr ⟨p.addr, .send d v, by simp [projOp, addrOf, hl], by simpa [refStep] using hr⟩
  | flush pid =>
    rcases modifyPeer_err hi h with hl | ⟨p, hl, hr⟩
    · left; simp [invalidPid, hl]
    · exact Or.inr ⟨p.addr, .flush, by simp [projOp, addrOf, hl], by simpa [refStep] using hr⟩
  | reject pid reason =>
    rcases removePeer_err hi h with hl | ⟨p, hl, hr⟩
    · left; simp [invalidPid, hl]
    · exact Or.inr ⟨p.addr, .reject reason, by simp [projOp, addrOf, hl], by simpa [refStep] using hr⟩
  | disconnect pid reason =>
    rcases removePeer_err hi h with hl | ⟨p, hl, hr⟩
    · left; simp [invalidPid, hl]
    · exact Or.inr ⟨p.addr, .disconnect reason, by simp [projOp, addrOf, hl], by simpa [refStep] using hr⟩
  | ignore pid =>
    have h' : removePeer net pid (fun _ => .ok {}) = .error f := h
    rcases removePeer_err hi h' with hl | ⟨p, hl, hr⟩
    · left; simp [invalidPid, hl]
    · exact Or.inr ⟨p.addr, .ignore, by simp [projOp, addrOf, hl], by simpa [refStep] using hr⟩
  | sendConnless addr d => exact Or.inr ⟨addr, _, by simp [projOp], sendConnless_err env h⟩
  | tick =>
    have ht : tickPeers env net.peers = .error f := by
      simp only [step, tick] at h
      split at h
      · rename_i e' he; simp only [Except.error.injEq] at h; rw [he, h]
      · simp at h
    obtain ⟨a, pid, p, hs, hc⟩ := tickPeers_err hi.addr ht
    exact Or.inr ⟨a, .tick, by simp [projOp], by simp [refStep, hs, hc]⟩

/-! ### `accept` of a pending peer succeeds -/

theorem cannedToken_eq : cannedToken = TOKEN_NONE := by decide

theorem feed_canned_unconnected (env : Env) (c : Conn6.Conn) (hc : c.state = .unconnected) (tok : Bool)
    (hd : tok = true → tokenRandom env.draws ≠ none) :
    ∃ t, Conn6.feed env c (fun _ => some (connectPacket tok)) =
      .ok (⟨.pending t, Timeout.after env.now sendUs⟩, { sent := [.control 0 t .connectAccept] })
      ∧ (tok = false → t = none) ∧ (tok = true → t = tokenRandom env.draws) := by
  obtain ⟨st, sd⟩ := c
  simp only at hc
  subst hc
  cases tok with
  | false =>
    refine ⟨none, ?_, by simp, by simp⟩
    simp [Conn6.feed, Conn6.State.token?, connectPacket, Conn6.Packet.tokenAck?, Conn6.feedBody,
      Conn6.tickAction, Conn6.sendControl, Conn6.controlPacket, Conn6.emit, Conn6.Packet.wireSize, maxPacketSize,
      Tw.Gen.Conn.P6.HEADER_SIZE, Tw.Gen.Conn.P6.MAX_PACKETSIZE]
  | true =>
    cases hr : tokenRandom env.draws with
    | none => exact absurd hr (hd rfl)
    | some nt =>
      refine ⟨some nt, ?_, by simp, by simp⟩
      simp [Conn6.feed, Conn6.State.token?, connectPacket, Conn6.Packet.tokenAck?, Conn6.feedBody,
        Conn6.tickAction, Conn6.sendControl, Conn6.controlPacket, Conn6.emit, Conn6.Packet.wireSize, maxPacketSize,
        cannedToken_eq, hr, Tw.Gen.Conn.P6.HEADER_SIZE, Tw.Gen.Conn.P6.MAX_PACKETSIZE, Tw.Gen.Conn.P6.TOKEN_SIZE]

theorem accept_pending {env : Env} {net : Net} {pid : Nat} {p : Peer} (hi : PInv net.peers)
    (hl : lookup net.peers pid = some p) (hp : p.conn.state = .unconnected)
    (hd : p.token = true → tokenRandom env.draws ≠ none) :
    ∃ net' t, step env net (.accept pid) =
        .ok (net', .unit, { sent := [(p.addr, Packet.control 0 t .connectAccept)] }) ∧
      slot net'.peers p.addr = some (pid, { p with conn := ⟨.pending t, Timeout.after env.now sendUs⟩ }) ∧
      (p.token = false → t = none) ∧ (p.token = true → t = tokenRandom env.draws) := by
  obtain ⟨t, hf, h1, h2⟩ := feed_canned_unconnected env p.conn hp p.token hd
  refine ⟨{ net with peers := update net.peers pid { p with conn := ⟨.pending t, Timeout.after env.now sendUs⟩ } }, t, ?_, ?_, h1, h2⟩
  · simp only [step, accept, modifyPeer, hl, peerAccept, hp, hf]
    simp [liftOut]
  · simp only [slot_update hi hl (p' := { p with conn := ⟨.pending t, Timeout.after env.now sendUs⟩ }) rfl]
    simp

/-! ### a pending peer is silent -/

theorem tick_fresh (env : Env) : Conn6.tick env Conn6.Conn.new = .ok (Conn6.Conn.new, {}) := by
  simp [Conn6.tick, Conn6.Conn.new, Timeout.triggered]

theorem pending_silent_on_tick {env : Env} {net net' : Net} {r : Ret} {o : Out} {a pid : Nat} {tok : Bool}
    (hi : PInv net.peers) (hs : slot net.peers a = some (pid, Peer.new a tok))
    (h : tick env net = .ok (net', r, o)) :
    slot net'.peers a = some (pid, Peer.new a tok) ∧ o.for a = {} := by
  obtain ⟨_, _, h3⟩ := tick_sim hi h
  have := h3 a
  simp only [refStep, hs, Peer.new, tick_fresh] at this
  simp only [Except.ok.injEq, Prod.mk.injEq] at this
  refine ⟨by rw [← this.1]; rfl, by rw [← this.2.2]; simp⟩

end Tw.Net
