import Tw.Proofs.HuffmanDec
import Tw.Model.HuffmanRef
import Tw.Gen.Huffman

/-! The built-in table (`Tw.Gen.Huffman.table`, regenerated from
`huffman/src/instances/teeworlds.rs`) is well-formed.  The table is generated as one numeral with an
arithmetic `entry` function; the lookups below are therefore cheap for the kernel
(`decide +kernel`, no `native_decide`), and the check is split over index ranges. -/
namespace Tw.Huffman

/-- the lookup function of the built-in table -/
def lookG : Look := fun i => if i < 513 then Tw.Gen.Huffman.entry i else (65535, 65535)

theorem table_size : Tw.Gen.Huffman.table.size = NUM_NODES := by
  simp [Tw.Gen.Huffman.table, NUM_NODES]

theorem node_table : node Tw.Gen.Huffman.table = lookG := by
  funext i
  simp only [node, lookG, Tw.Gen.Huffman.table]
  by_cases h : i < 513
  · simp [h, Array.getD, List.getElem_range]
  · simp [h, Array.getD]

theorem okRangeF_spec (look : Look) (lo n : Nat) (h : okRangeF look lo n = true) :
    ∀ i, lo ≤ i → i < lo + n → okAtF look i = true := by
  intro i h1 h2
  simp only [okRangeF, List.all_eq_true, List.mem_range'_1] at h
  exact h i ⟨h1, h2⟩

theorem table_ok_0 : okRangeF lookG 0 64 = true := by decide +kernel
theorem table_ok_1 : okRangeF lookG 64 64 = true := by decide +kernel
theorem table_ok_2 : okRangeF lookG 128 64 = true := by decide +kernel
theorem table_ok_3 : okRangeF lookG 192 65 = true := by decide +kernel
theorem table_ok_4 : okRangeF lookG 257 256 = true := by decide +kernel

theorem wellFormed_table : WellFormed Tw.Gen.Huffman.table := by
  refine ⟨table_size, ?_⟩
  intro i hi
  simp only [okAt, node_table]
  simp only [NUM_NODES] at hi
  by_cases h0 : i < 64
  · exact okRangeF_spec _ _ _ table_ok_0 i (by omega) (by omega)
  by_cases h1 : i < 128
  · exact okRangeF_spec _ _ _ table_ok_1 i (by omega) (by omega)
  by_cases h2 : i < 192
  · exact okRangeF_spec _ _ _ table_ok_2 i (by omega) (by omega)
  by_cases h3 : i < 257
  · exact okRangeF_spec _ _ _ table_ok_3 i (by omega) (by omega)
  · exact okRangeF_spec _ _ _ table_ok_4 i (by omega) (by omega)

theorem table_lut_0 : (List.range' 0 512).all (lutOkAtF lookG) = true := by decide +kernel
theorem table_lut_1 : (List.range' 512 512).all (lutOkAtF lookG) = true := by decide +kernel

theorem lutOk_table : LutOk Tw.Gen.Huffman.table := by
  intro i hi
  rw [node_table]
  simp only [LUTSIZE] at hi
  by_cases h0 : i < 512
  · have := table_lut_0
    simp only [List.all_eq_true, List.mem_range'_1] at this
    exact this i ⟨by omega, by omega⟩
  · have := table_lut_1
    simp only [List.all_eq_true, List.mem_range'_1] at this
    exact this i ⟨by omega, by omega⟩

end Tw.Huffman
