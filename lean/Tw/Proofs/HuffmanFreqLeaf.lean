import Tw.Proofs.HuffmanFreqInner

/-! The depth-first traversal of `from_frequencies` (explicit 24-entry stack, direction bits) writes
into every symbol's entry the code of a path from the root to that symbol: together with
`HuffmanFreqInner` this gives `fromFrequencies f = ok t → WellFormed t`. -/
namespace Tw.Huffman

/-- the entry `SymbolRepr { bits, num_bits: k }.to_node()` -/
def encLeaf (k bits : Nat) : Nat × Nat := (k * 256 + bits / 65536, bits % 65536)

/-- same size and same inner nodes -/
def SameInner (T N : Table) : Prop := T.size = N.size ∧ ∀ i, NUM_SYMBOLS ≤ i → node T i = node N i

/-- the `assign` part of one loop iteration, with the fuel `d` of the inner `while` explicit -/
def assignD (T : Table) (d f : Nat) (stack : List Nat) (top bits : Nat) : FreqResult :=
  match descend T d stack top with
  | .panic s => .panic s
  | .diverge => .diverge
  | .ok stack top =>
    if bits ≥ 2 ^ 24 then .panic "to_node: bits >> 24 == 0"
    else if top ≥ T.size then .panic "nodes[top]: index out of bounds"
    else dfs (T.set! top (stack.length * 256 + bits / 65536, bits % 65536)) f stack bits false

theorem dfs_first (T : Table) (f : Nat) (stack : List Nat) (bits : Nat) :
    dfs T (f + 1) stack bits true = assignD T 32 f stack ROOT_IDX bits := by
  rw [dfs.eq_def]; simp only [if_true]; rfl

theorem dfs_pop_nil (T : Table) (f : Nat) (bits : Nat) :
    dfs T (f + 1) [] bits false = .ok T := by
  rw [dfs.eq_def]; simp

theorem dfs_pop_set (T : Table) (f : Nat) (t : Nat) (st : List Nat) (bits : Nat)
    (h : (bits / 2 ^ st.length) % 2 = 1) :
    dfs T (f + 1) (t :: st) bits false = dfs T f st (bits - 2 ^ st.length) false := by
  rw [dfs.eq_def]; simp [h]

theorem dfs_pop_clear (T : Table) (f : Nat) (t : Nat) (st : List Nat) (bits : Nat)
    (h : ¬ (bits / 2 ^ st.length) % 2 = 1) (ht : ¬ t ≥ T.size) :
    dfs T (f + 1) (t :: st) bits false
      = assignD T 32 f (t :: st) (node T t).2 (bits + 2 ^ st.length) := by
  rw [dfs.eq_def]; simp only [Bool.false_eq_true, if_false, h, ht]; rfl

theorem assignD_inner (T : Table) (d f : Nat) (stack : List Nat) (n bits : Nat)
    (hn : n ≥ NUM_SYMBOLS) (hs : ¬ stack.length ≥ 24) (hsz : ¬ n ≥ T.size) :
    assignD T (d + 1) f stack n bits = assignD T d f (n :: stack) (node T n).1 bits := by
  simp only [assignD, descend, hn, hs, hsz, if_true, if_false]

theorem assignD_leaf (T : Table) (d f : Nat) (stack : List Nat) (n bits : Nat)
    (hn : ¬ n ≥ NUM_SYMBOLS) (hb : ¬ bits ≥ 2 ^ 24) (hsz : ¬ n ≥ T.size) :
    assignD T (d + 1) f stack n bits
      = dfs (T.set! n (encLeaf stack.length bits)) f stack bits false := by
  simp only [assignD, descend, hn, hb, hsz, if_false, encLeaf]

/-- the traversal as a recursive function (navigation in the fixed table `N`, writes into `T`);
`none` where the Rust panics on the stack capacity -/
def visitSpec (N : Table) : Nat → Table → Nat → Nat → Nat → Option Table
  | 0, _, _, _, _ => none
  | g + 1, T, n, bits, k =>
    if n < NUM_SYMBOLS then some (T.set! n (encLeaf k bits))
    else if k ≥ 24 then none
    else
      match visitSpec N g T (node N n).1 bits (k + 1) with
      | none => none
      | some T1 => visitSpec N g T1 (node N n).2 (bits + 2 ^ k) (k + 1)

theorem sameInner_set (T N : Table) (h : SameInner T N) (n : Nat) (hn : n < NUM_SYMBOLS)
    (v : Nat × Nat) : SameInner (T.set! n v) N := by
  refine ⟨by rw [Array.set!_eq_setIfInBounds, Array.size_setIfInBounds]; exact h.1, ?_⟩
  intro i hi
  rw [node_set_ne _ _ _ _ (by omega)]
  exact h.2 i hi

/-- the iterative traversal of the subtree below `n` is `visitSpec`, after which control is back at
the loop head with the same stack and bits -/
theorem assignD_visit (N : Table) (hsize : N.size = 513) (hin : InnerBelow N) (g : Nat) :
    ∀ (n : Nat), n < g → n < 513 →
    ∀ (T : Table) (d f : Nat) (stack : List Nat) (bits : Nat) (T' : Table),
      SameInner T N → bits < 2 ^ stack.length → stack.length ≤ 24 →
      assignD T d f stack n bits = .ok T' →
      ∃ T1 f1, visitSpec N g T n bits stack.length = some T1 ∧ SameInner T1 N
        ∧ dfs T1 f1 stack bits false = .ok T' := by
  induction g with
  | zero => intro n hn; omega
  | succ g ih =>
    intro n hng hn513 T d f stack bits T' hsame hbits hstack hok
    have hTsz : T.size = 513 := by rw [hsame.1, hsize]
    have hnsz : ¬ n ≥ T.size := by omega
    cases d with
    | zero => simp [assignD, descend] at hok
    | succ d =>
      by_cases hleaf : n < NUM_SYMBOLS
      · -- a symbol: assign it
        have hb24 : ¬ bits ≥ 2 ^ 24 := by
          have : 2 ^ stack.length ≤ 2 ^ 24 := Nat.pow_le_pow_right (by decide) hstack
          omega
        rw [assignD_leaf T d f stack n bits (by omega) hb24 hnsz] at hok
        refine ⟨_, f, ?_, sameInner_set T N hsame n hleaf _, hok⟩
        simp only [visitSpec, hleaf, if_true]
      · have hge : n ≥ NUM_SYMBOLS := by omega
        by_cases hfull : stack.length ≥ 24
        · simp [assignD, descend, hge, hfull] at hok
        · rw [assignD_inner T d f stack n bits hge hfull hnsz, hsame.2 n hge] at hok
          have hch := hin n hge (by rw [hsize]; exact hn513)
          have hk : stack.length < 24 := by omega
          -- left subtree
          obtain ⟨T1, f1, v1, s1, r1⟩ := ih (node N n).1 (by omega) (by omega) T d f (n :: stack) bits T'
            hsame (by
              simp only [List.length_cons, Nat.pow_succ]
              omega) (by simp only [List.length_cons]; omega) hok
          simp only [List.length_cons] at v1
          -- back at the loop head: turn right
          have hT1sz : T1.size = 513 := by rw [s1.1, hsize]
          cases f1 with
          | zero => simp [dfs] at r1
          | succ f2 =>
            have hclear : ¬ (bits / 2 ^ stack.length) % 2 = 1 := by
              rw [Nat.div_eq_of_lt hbits]; decide
            rw [dfs_pop_clear T1 f2 n stack bits hclear (by omega), s1.2 n hge] at r1
            obtain ⟨T2, f3, v2, s2, r2⟩ := ih (node N n).2 (by omega) (by omega) T1 32 f2 (n :: stack)
              (bits + 2 ^ stack.length) T' s1 (by
                simp only [List.length_cons, Nat.pow_succ]
                omega) (by simp only [List.length_cons]; omega) r1
            simp only [List.length_cons] at v2
            -- back again: the bit is set, go up
            cases f3 with
            | zero => simp [dfs] at r2
            | succ f4 =>
              have hset : ((bits + 2 ^ stack.length) / 2 ^ stack.length) % 2 = 1 := by
                rw [Nat.add_div_right _ (Nat.two_pow_pos _), Nat.div_eq_of_lt hbits]
              rw [dfs_pop_set T2 f4 n stack _ hset, Nat.add_sub_cancel] at r2
              refine ⟨T2, f4, ?_, s2, r2⟩
              simp only [visitSpec, hleaf, hfull, if_false, v1, v2]

end Tw.Huffman
