import Tw.Proofs.HuffmanFreqInner
import Tw.Proofs.HuffmanRefD

/-! The depth-first traversal of `from_frequencies` (explicit 24-entry stack, direction bits) writes
into every symbol's entry the code of a path from the root to that symbol: together with
`HuffmanFreqInner` this gives `fromFrequencies f = ok t → WellFormed t`. -/
namespace Tw.Huffman

/-- the entry `SymbolRepr { bits, num_bits: k }.to_node()` -/
def encLeaf (k bits : Nat) : Nat × Nat := (k * 256 + bits / 65536, bits % 65536)

/-- same size and same inner nodes -/
def SameInner (T N : Table) : Prop := T.size = N.size ∧ ∀ i, NUM_SYMBOLS ≤ i → node T i = node N i

/-- the `assign` part of one loop iteration, with the fuel `d` of the inner `while` explicit -/
def assignD (T : Table) (d f : Nat) (stack : List Nat) (top bits : Nat) : FreqResult :=
  match descend T d stack top with
  | .panic s => .panic s
  | .diverge => .diverge
  | .ok stack top =>
    if bits ≥ 2 ^ 24 then .panic "to_node: bits >> 24 == 0"
    else if top ≥ T.size then .panic "nodes[top]: index out of bounds"
    else dfs (T.set! top (stack.length * 256 + bits / 65536, bits % 65536)) f stack bits false

theorem dfs_first (T : Table) (f : Nat) (stack : List Nat) (bits : Nat) :
    dfs T (f + 1) stack bits true = assignD T 32 f stack ROOT_IDX bits := by
  rw [dfs.eq_def]; simp only [if_true]; rfl

theorem dfs_pop_nil (T : Table) (f : Nat) (bits : Nat) :
    dfs T (f + 1) [] bits false = .ok T := by
  rw [dfs.eq_def]; simp

theorem dfs_pop_set (T : Table) (f : Nat) (t : Nat) (st : List Nat) (bits : Nat)
    (h : (bits / 2 ^ st.length) % 2 = 1) :
    dfs T (f + 1) (t :: st) bits false = dfs T f st (bits - 2 ^ st.length) false := by
  rw [dfs.eq_def]; simp [h]

theorem dfs_pop_clear (T : Table) (f : Nat) (t : Nat) (st : List Nat) (bits : Nat)
    (h : ¬ (bits / 2 ^ st.length) % 2 = 1) (ht : ¬ t ≥ T.size) :
    dfs T (f + 1) (t :: st) bits false
      = assignD T 32 f (t :: st) (node T t).2 (bits + 2 ^ st.length) := by
  rw [dfs.eq_def]; simp only [Bool.false_eq_true, if_false, h, ht]; rfl

theorem assignD_inner (T : Table) (d f : Nat) (stack : List Nat) (n bits : Nat)
    (hn : n ≥ NUM_SYMBOLS) (hs : ¬ stack.length ≥ 24) (hsz : ¬ n ≥ T.size) :
    assignD T (d + 1) f stack n bits = assignD T d f (n :: stack) (node T n).1 bits := by
  simp only [assignD, descend, hn, hs, hsz, if_true, if_false]

theorem assignD_leaf (T : Table) (d f : Nat) (stack : List Nat) (n bits : Nat)
    (hn : ¬ n ≥ NUM_SYMBOLS) (hb : ¬ bits ≥ 2 ^ 24) (hsz : ¬ n ≥ T.size) :
    assignD T (d + 1) f stack n bits
      = dfs (T.set! n (encLeaf stack.length bits)) f stack bits false := by
  simp only [assignD, descend, hn, hb, hsz, if_false, encLeaf]

/-- the traversal as a recursive function (navigation in the fixed table `N`, writes into `T`);
`none` where the Rust panics on the stack capacity -/
def visitSpec (N : Table) : Nat → Table → Nat → Nat → Nat → Option Table
  | 0, _, _, _, _ => none
  | g + 1, T, n, bits, k =>
    if n < NUM_SYMBOLS then some (T.set! n (encLeaf k bits))
    else if k ≥ 24 then none
    else
      match visitSpec N g T (node N n).1 bits (k + 1) with
      | none => none
      | some T1 => visitSpec N g T1 (node N n).2 (bits + 2 ^ k) (k + 1)

theorem sameInner_set (T N : Table) (h : SameInner T N) (n : Nat) (hn : n < NUM_SYMBOLS)
    (v : Nat × Nat) : SameInner (T.set! n v) N := by
  refine ⟨by rw [Array.set!_eq_setIfInBounds, Array.size_setIfInBounds]; exact h.1, ?_⟩
  intro i hi
  rw [node_set_ne _ _ _ _ (by omega)]
  exact h.2 i hi

/-- the iterative traversal of the subtree below `n` is `visitSpec`, after which control is back at
the loop head with the same stack and bits -/
theorem assignD_visit (N : Table) (hsize : N.size = 513) (hin : InnerBelow N) (g : Nat) :
    ∀ (n : Nat), n < g → n < 513 →
    ∀ (T : Table) (d f : Nat) (stack : List Nat) (bits : Nat) (T' : Table),
      SameInner T N → bits < 2 ^ stack.length → stack.length ≤ 24 →
      assignD T d f stack n bits = .ok T' →
      ∃ T1 f1, visitSpec N g T n bits stack.length = some T1 ∧ SameInner T1 N
        ∧ dfs T1 f1 stack bits false = .ok T' := by
  induction g with
  | zero => intro n hn; omega
  | succ g ih =>
    intro n hng hn513 T d f stack bits T' hsame hbits hstack hok
    have hTsz : T.size = 513 := by rw [hsame.1, hsize]
    have hnsz : ¬ n ≥ T.size := by omega
    cases d with
    | zero => simp [assignD, descend] at hok
    | succ d =>
      by_cases hleaf : n < NUM_SYMBOLS
      · -- a symbol: assign it
        have hb24 : ¬ bits ≥ 2 ^ 24 := by
          have : 2 ^ stack.length ≤ 2 ^ 24 := Nat.pow_le_pow_right (by decide) hstack
          omega
        rw [assignD_leaf T d f stack n bits (by omega) hb24 hnsz] at hok
        refine ⟨_, f, ?_, sameInner_set T N hsame n hleaf _, hok⟩
        simp only [visitSpec, hleaf, if_true]
      · have hge : n ≥ NUM_SYMBOLS := by omega
        by_cases hfull : stack.length ≥ 24
        · simp [assignD, descend, hge, hfull] at hok
        · rw [assignD_inner T d f stack n bits hge hfull hnsz, hsame.2 n hge] at hok
          have hch := hin n hge (by rw [hsize]; exact hn513)
          have hk : stack.length < 24 := by omega
          -- left subtree
          obtain ⟨T1, f1, v1, s1, r1⟩ := ih (node N n).1 (by omega) (by omega) T d f (n :: stack) bits T'
            hsame (by
              simp only [List.length_cons, Nat.pow_succ]
              omega) (by simp only [List.length_cons]; omega) hok
          simp only [List.length_cons] at v1
          -- back at the loop head: turn right
          have hT1sz : T1.size = 513 := by rw [s1.1, hsize]
          cases f1 with
          | zero => simp [dfs] at r1
          | succ f2 =>
            have hclear : ¬ (bits / 2 ^ stack.length) % 2 = 1 := by
              rw [Nat.div_eq_of_lt hbits]; decide
            rw [dfs_pop_clear T1 f2 n stack bits hclear (by omega), s1.2 n hge] at r1
            obtain ⟨T2, f3, v2, s2, r2⟩ := ih (node N n).2 (by omega) (by omega) T1 32 f2 (n :: stack)
              (bits + 2 ^ stack.length) T' s1 (by
                simp only [List.length_cons, Nat.pow_succ]
                omega) (by simp only [List.length_cons]; omega) r1
            simp only [List.length_cons] at v2
            -- back again: the bit is set, go up
            cases f3 with
            | zero => simp [dfs] at r2
            | succ f4 =>
              have hset : ((bits + 2 ^ stack.length) / 2 ^ stack.length) % 2 = 1 := by
                rw [Nat.add_div_right _ (Nat.two_pow_pos _), Nat.div_eq_of_lt hbits]
              rw [dfs_pop_set T2 f4 n stack _ hset, Nat.add_sub_cancel] at r2
              refine ⟨T2, f4, ?_, s2, r2⟩
              simp only [visitSpec, hleaf, hfull, if_false, v1, v2]

/-! ### paths -/

/-- follow `p` from `nd` through inner nodes; the last step may land on a symbol -/
def go (N : Table) : Nat → List Bool → Option Nat
  | nd, [] => some nd
  | nd, b :: bs => if nd ≥ NUM_SYMBOLS then go N (child N nd b) bs else none

theorem go_append (N : Table) (p q : List Bool) :
    ∀ nd, go N nd (p ++ q) = (go N nd p).bind (fun m => go N m q) := by
  induction p with
  | nil => intro nd; simp [go]
  | cons b bs ih =>
    intro nd
    simp only [List.cons_append, go]
    split
    · exact ih _
    · rfl

theorem go_walk (N : Table) (p : List Bool) :
    ∀ nd s, go N nd p = some s → s < NUM_SYMBOLS → p ≠ [] → walk N nd p = some s := by
  induction p with
  | nil => intro nd s _ _ h; exact absurd rfl h
  | cons b bs ih =>
    intro nd s hgo hs _
    simp only [go] at hgo
    split at hgo
    · simp only [walk, walkF]
      have hc : childF (node N) nd b = child N nd b := rfl
      rw [hc]
      by_cases hge : child N nd b ≥ NUM_SYMBOLS
      · simp only [hge, if_true]
        have hbs : bs ≠ [] := by
          intro hb; subst hb
          simp only [go, Option.some.injEq] at hgo
          omega
        exact ih _ _ hgo hs hbs
      · simp only [hge, if_false]
        cases bs with
        | nil =>
          simp only [go, Option.some.injEq] at hgo
          simp [hgo]
        | cons b' bs' =>
          simp only [go, hge, if_false] at hgo
          cases hgo
    · cases hgo

/-- `bits` (of length `k`) leads from the root to `n` -/
def PathTo (N : Table) (n bits k : Nat) : Prop :=
  bits < 2 ^ k ∧ go N ROOT_IDX (natBits k bits) = some n

theorem pathTo_left (N : Table) (n bits k : Nat) (h : PathTo N n bits k) (hn : n ≥ NUM_SYMBOLS) :
    PathTo N (node N n).1 bits (k + 1) := by
  refine ⟨by rw [Nat.pow_succ]; have := h.1; omega, ?_⟩
  rw [natBits_add k 1 bits, go_append, h.2, Nat.div_eq_of_lt h.1]
  simp [natBits, go, hn, child, childF]

theorem pathTo_right (N : Table) (n bits k : Nat) (h : PathTo N n bits k) (hn : n ≥ NUM_SYMBOLS) :
    PathTo N (node N n).2 (bits + 2 ^ k) (k + 1) := by
  refine ⟨by rw [Nat.pow_succ]; have := h.1; omega, ?_⟩
  have h1 : natBits k (bits + 2 ^ k) = natBits k bits := by
    rw [← natBits_mod k k (bits + 2 ^ k) (Nat.le_refl _), Nat.add_mod_right,
      Nat.mod_eq_of_lt h.1]
  have h2 : (bits + 2 ^ k) / 2 ^ k = 1 := by
    rw [Nat.add_div_right _ (Nat.two_pow_pos _), Nat.div_eq_of_lt h.1]
  rw [natBits_add k 1 (bits + 2 ^ k), go_append, h1, h.2, h2]
  simp [natBits, go, hn, child, childF]

/-! ### what the traversal establishes -/

/-- the entry of symbol `s` in `R` is the code of a path from the root of `N` to `s` -/
def Valid (N R : Table) (s : Nat) : Prop :=
  s < NUM_SYMBOLS ∧ ∃ k b, node R s = encLeaf k b ∧ 0 < k ∧ k ≤ 24 ∧ b < 2 ^ k
    ∧ walk N ROOT_IDX (natBits k b) = some s

/-- `j` is in the subtree below `n` -/
inductive Reach (N : Table) : Nat → Nat → Prop where
  | refl (n : Nat) : Reach N n n
  | left (n j : Nat) : n ≥ NUM_SYMBOLS → Reach N (node N n).1 j → Reach N n j
  | right (n j : Nat) : n ≥ NUM_SYMBOLS → Reach N (node N n).2 j → Reach N n j

theorem Reach.snoc (N : Table) (n i j : Nat) (h : Reach N n i) (hi : i ≥ NUM_SYMBOLS)
    (hj : (node N i).1 = j ∨ (node N i).2 = j) : Reach N n j := by
  induction h with
  | refl n =>
    rcases hj with e | e
    · exact Reach.left n j hi (e ▸ Reach.refl _)
    · exact Reach.right n j hi (e ▸ Reach.refl _)
  | left n i' hn _ ih => exact Reach.left n j hn (ih hi hj)
  | right n i' hn _ ih => exact Reach.right n j hn (ih hi hj)

theorem node_set_eq (T : Table) (n : Nat) (v : Nat × Nat) (h : n < T.size) :
    node (T.set! n v) n = v := by
  simp [node, Array.set!_eq_setIfInBounds, Array.getD_eq_getD_getElem?, h]

theorem visitSpec_props (N : Table) (hsize : N.size = 513) (g : Nat) :
    ∀ (T : Table) (n bits k : Nat) (R : Table), visitSpec N g T n bits k = some R →
      SameInner T N → PathTo N n bits k → k ≤ 24 →
      SameInner R N ∧ (∀ s, Valid N T s → Valid N R s)
        ∧ (∀ s, s < NUM_SYMBOLS → Reach N n s → Valid N R s) := by
  induction g with
  | zero => intro T n bits k R h; simp [visitSpec] at h
  | succ g ih =>
    intro T n bits k R h hsame hpath hk
    simp only [visitSpec] at h
    by_cases hleaf : n < NUM_SYMBOLS
    · simp only [hleaf, if_true, Option.some.injEq] at h
      subst h
      have hTsz : n < T.size := by rw [hsame.1, hsize]; simp only [NUM_SYMBOLS] at hleaf; omega
      -- the new entry is valid
      have hnew : Valid N (T.set! n (encLeaf k bits)) n := by
        refine ⟨hleaf, k, bits, node_set_eq T n _ hTsz, ?_, hk, hpath.1, ?_⟩
        · cases k with
          | zero =>
            have := hpath.2
            simp only [natBits, go, Option.some.injEq] at this
            simp only [NUM_SYMBOLS, ROOT_IDX] at *
            omega
          | succ k => omega
        · apply go_walk N _ _ _ hpath.2 hleaf
          intro hnil
          have := congrArg List.length hnil
          simp only [natBits_length, List.length_nil] at this
          subst this
          have := hpath.2
          simp only [natBits, go, Option.some.injEq] at this
          simp only [NUM_SYMBOLS, ROOT_IDX] at *
          omega
      refine ⟨sameInner_set T N hsame n hleaf _, ?_, ?_⟩
      · intro s hv
        by_cases hs : s = n
        · subst hs; exact hnew
        · obtain ⟨v1, k', b', v2, v3⟩ := hv
          exact ⟨v1, k', b', by rw [node_set_ne _ _ _ _ (Ne.symm hs)]; exact v2, v3⟩
      · intro s hs hr
        cases hr with
        | refl => exact hnew
        | left _ _ hn _ => omega
        | right _ _ hn _ => omega
    · simp only [hleaf, if_false] at h
      have hge : n ≥ NUM_SYMBOLS := by omega
      by_cases hfull : k ≥ 24
      · simp [hfull] at h
      · simp only [hfull, if_false] at h
        cases h1 : visitSpec N g T (node N n).1 bits (k + 1) with
        | none => rw [h1] at h; cases h
        | some T1 =>
          rw [h1] at h
          simp only at h
          obtain ⟨a1, a2, a3⟩ := ih T _ _ _ T1 h1 hsame (pathTo_left N n bits k hpath hge) (by omega)
          obtain ⟨b1, b2, b3⟩ := ih T1 _ _ _ R h a1 (pathTo_right N n bits k hpath hge) (by omega)
          refine ⟨b1, fun s hv => b2 s (a2 s hv), ?_⟩
          intro s hs hr
          cases hr with
          | refl => omega
          | left _ _ _ hl => exact b2 s (a3 s hs hl)
          | right _ _ _ hrr => exact b3 s hs hrr

/-- every node is in the subtree of the root -/
theorem reach_root (N : Table) (hsize : N.size = 513) (hin : InnerBelow N) (hcov : Covered N) :
    ∀ m j, 512 - j ≤ m → j < 513 → Reach N ROOT_IDX j := by
  intro m
  induction m with
  | zero =>
    intro j hm hj
    have : j = 512 := by omega
    subst this; exact Reach.refl _
  | succ m ih =>
    intro j hm hj
    rcases hcov j (by rw [hsize]; exact hj) with e | ⟨i, i1, i2, i3⟩
    · rw [hsize] at e
      have : j = 512 := by omega
      subst this; exact Reach.refl _
    · have hch := hin i i1 i2
      rw [hsize] at i2
      have hij : j < i := by rcases i3 with e | e <;> omega
      exact Reach.snoc N _ i j (ih i (by omega) i2) i1 i3

/-! ### assembling `WellFormed` -/

theorem walk_congr (t N : Table) (h : SameInner t N) (p : List Bool) :
    ∀ nd, nd ≥ NUM_SYMBOLS → walk t nd p = walk N nd p := by
  induction p with
  | nil => intro nd _; rfl
  | cons b bs ih =>
    intro nd hnd
    simp only [walk, walkF]
    have hc : childF (node t) nd b = childF (node N) nd b := by simp only [childF, h.2 nd hnd]
    rw [hc]
    by_cases hge : childF (node N) nd b ≥ NUM_SYMBOLS
    · simp only [hge, if_true]; exact ih _ hge
    · simp only [hge, if_false]

theorem encLeaf_decode (t : Table) (s k b : Nat) (h : node t s = encLeaf k b) (hb : b < 2 ^ 24) :
    symLen t s = k ∧ symBits t s = b := by
  have hb' : b < 16777216 := hb
  simp only [symLen, symLenF, symBits, symBitsF, h, encLeaf]
  rw [Nat.mul_comm k 256]
  constructor <;> omega

/-- what the traversal leaves behind: the forest's inner nodes, and in every symbol's entry the code
of a root path -/
theorem dfs_valid (T t : Table) (hT1 : T.size = 513) (hT2 : InnerBelow T) (hT3 : Covered T)
    (hdfs : dfs T 4096 [] 0 true = .ok t) :
    SameInner t T ∧ ∀ s, s < NUM_SYMBOLS → Valid T t s := by
  have e4096 : (4096 : Nat) = 4095 + 1 := rfl
  rw [e4096, dfs_first] at hdfs
  have hsameT : SameInner T T := ⟨rfl, fun _ _ => rfl⟩
  obtain ⟨T1, f1, v, s1, r⟩ := assignD_visit T hT1 hT2 513 ROOT_IDX (by decide) (by decide)
    T 32 4095 [] 0 t hsameT (by decide) (by decide) hdfs
  have ht : t = T1 := by
    cases f1 with
    | zero => simp [dfs] at r
    | succ f2 => rw [dfs_pop_nil] at r; cases r; rfl
  subst ht
  obtain ⟨p1, _, p3⟩ := visitSpec_props T hT1 513 T ROOT_IDX 0 0 t v hsameT
    ⟨by decide, rfl⟩ (by decide)
  exact ⟨p1, fun s hs => p3 s hs (reach_root T hT1 hT2 hT3 512 s (by omega)
    (by simp only [NUM_SYMBOLS] at hs; omega))⟩

theorem fromFrequencies_wellFormed (f : List Nat) (t : Table) (h : fromFrequencies f = .ok t) :
    WellFormed t := by
  have hinner := fromFrequencies_inner f t h
  obtain ⟨T, hT1, hT2, hT3, hdfs, _, _⟩ := fromFrequencies_ok f t h
  · -- the traversal
    have e4096 : (4096 : Nat) = 4095 + 1 := rfl
    rw [e4096, dfs_first] at hdfs
    have hsameT : SameInner T T := ⟨rfl, fun _ _ => rfl⟩
    obtain ⟨T1, f1, v, s1, r⟩ := assignD_visit T hT1 hT2 513 ROOT_IDX (by decide) (by decide)
      T 32 4095 [] 0 t hsameT (by decide) (by decide) hdfs
    have ht : t = T1 := by
      cases f1 with
      | zero => simp [dfs] at r
      | succ f2 => rw [dfs_pop_nil] at r; cases r; rfl
    subst ht
    obtain ⟨p1, _, p3⟩ := visitSpec_props T hT1 513 T ROOT_IDX 0 0 t v hsameT
      ⟨by decide, rfl⟩ (by decide)
    refine ⟨hinner.1, ?_⟩
    intro i hi
    simp only [okAt, okAtF]
    by_cases hleaf : i < NUM_SYMBOLS
    · simp only [hleaf, if_true]
      obtain ⟨_, k, b, e, k0, k24, bk, w⟩ := p3 i hleaf
        (reach_root T hT1 hT2 hT3 512 i (by omega) (by simp only [NUM_NODES] at hi; exact hi))
      have hb24 : b < 2 ^ 24 := Nat.lt_of_lt_of_le bk (Nat.pow_le_pow_right (by decide) k24)
      obtain ⟨d1, d2⟩ := encLeaf_decode t i k b e hb24
      have hw : walk t ROOT_IDX (codeBits t i) = some i := by
        rw [walk_congr t T p1 _ ROOT_IDX (by decide)]
        have : codeBits t i = natBits k b := by
          simp only [codeBits, codeBitsF]
          rw [show symLenF (node t) i = symLen t i from rfl, show symBitsF (node t) i = symBits t i from rfl,
            d1, d2]
        rw [this]; exact w
      simp only [leafOkF, Bool.and_eq_true, decide_eq_true_eq, beq_iff_eq]
      refine ⟨⟨⟨?_, ?_⟩, ?_⟩, hw⟩
      · show 0 < symLen t i; rw [d1]; exact k0
      · show symLen t i ≤ 24; rw [d1]; exact k24
      · show symBits t i < 2 ^ symLen t i; rw [d1, d2]; exact bk
    · simp only [hleaf, if_false]
      have hge : NUM_SYMBOLS ≤ i := by omega
      have := hT2 i hge (by rw [hT1]; simp only [NUM_NODES] at hi; exact hi)
      rw [← p1.2 i hge] at this
      simp only [innerOkF, Bool.and_eq_true, decide_eq_true_eq]
      exact ⟨⟨this.1, this.2.1⟩, this.2.2⟩

/-! ### paths are unique, hence the reference's lookup table is consistent (`LutOk`) -/

theorem child_false (N : Table) (nd : Nat) : child N nd false = (node N nd).1 := rfl
theorem child_true (N : Table) (nd : Nat) : child N nd true = (node N nd).2 := rfl

theorem walk_go (N : Table) (p : List Bool) :
    ∀ nd s, nd ≥ NUM_SYMBOLS → walk N nd p = some s → go N nd p = some s := by
  induction p with
  | nil => intro nd s _ h; simp [walk, walkF] at h
  | cons b bs ih =>
    intro nd s hnd h
    simp only [walk, walkF] at h
    have hc : childF (node N) nd b = child N nd b := rfl
    rw [hc] at h
    simp only [go, hnd, if_true]
    by_cases hge : child N nd b ≥ NUM_SYMBOLS
    · simp only [hge, if_true] at h
      exact ih _ _ hge h
    · simp only [hge, if_false] at h
      split at h
      · next hemp =>
        have : bs = [] := by simpa using hemp
        subst this
        simpa [go] using h
      · cases h

theorem go_le (N : Table) (hsize : N.size = 513) (hin : InnerBelow N) (p : List Bool) :
    ∀ nd m, nd < 513 → go N nd p = some m → m ≤ nd ∧ (p ≠ [] → m < nd) := by
  induction p with
  | nil => intro nd m _ h; simp only [go, Option.some.injEq] at h; subst h; exact ⟨Nat.le_refl _, fun h => absurd rfl h⟩
  | cons b bs ih =>
    intro nd m hnd h
    simp only [go] at h
    split at h
    · next hge =>
      have hch := hin nd hge (by rw [hsize]; exact hnd)
      have hlt : child N nd b < nd := by
        cases b
        · rw [child_false]; exact hch.1
        · rw [child_true]; exact hch.2.1
      have := ih _ _ (by omega) h
      exact ⟨by omega, fun _ => by omega⟩
    · cases h

theorem go_snoc (N : Table) (p : List Bool) (b : Bool) (nd j : Nat)
    (h : go N nd (p ++ [b]) = some j) :
    ∃ i, go N nd p = some i ∧ i ≥ NUM_SYMBOLS ∧ child N i b = j := by
  rw [go_append] at h
  cases hp : go N nd p with
  | none => rw [hp] at h; cases h
  | some i =>
    rw [hp] at h
    simp only [Option.bind_some, go] at h
    split at h
    · next hge => exact ⟨i, rfl, hge, by simpa using h⟩
    · cases h

theorem go_unique (N : Table) (hsize : N.size = 513) (hin : InnerBelow N) (hu : UniqueParent N)
    (m : Nat) : ∀ (j : Nat) (p q : List Bool), 512 - j ≤ m →
      go N ROOT_IDX p = some j → go N ROOT_IDX q = some j → p = q := by
  induction m with
  | zero =>
    intro j p q hm hp hq
    have l1 := go_le N hsize hin p ROOT_IDX j (by decide) hp
    have l2 := go_le N hsize hin q ROOT_IDX j (by decide) hq
    simp only [ROOT_IDX] at l1 l2
    have hp' : p = [] := by
      by_cases h : p = []
      · exact h
      · have := l1.2 h; omega
    have hq' : q = [] := by
      by_cases h : q = []
      · exact h
      · have := l2.2 h; omega
    rw [hp', hq']
  | succ m ih =>
    intro j p q hm hp hq
    have l1 := go_le N hsize hin p ROOT_IDX j (by decide) hp
    have l2 := go_le N hsize hin q ROOT_IDX j (by decide) hq
    simp only [ROOT_IDX] at l1 l2
    rcases List.eq_nil_or_concat p with rfl | ⟨p', b, rfl⟩
    · rcases List.eq_nil_or_concat q with rfl | ⟨q', b', rfl⟩
      · rfl
      · simp only [go, Option.some.injEq, ROOT_IDX] at hp
        have := l2.2 (by simp)
        omega
    · rcases List.eq_nil_or_concat q with rfl | ⟨q', b', rfl⟩
      · simp only [go, Option.some.injEq, ROOT_IDX] at hq
        have := l1.2 (by simp)
        omega
      · simp only [List.concat_eq_append] at hp hq ⊢
        obtain ⟨i, gi, i1, ci⟩ := go_snoc N p' b ROOT_IDX j hp
        obtain ⟨i', gi', i1', ci'⟩ := go_snoc N q' b' ROOT_IDX j hq
        have hi512 := (go_le N hsize hin p' ROOT_IDX i (by decide) gi).1
        have hi512' := (go_le N hsize hin q' ROOT_IDX i' (by decide) gi').1
        simp only [ROOT_IDX] at hi512 hi512'
        have hchi := hin i i1 (by rw [hsize]; omega)
        have hj : (node N i).1 = j ∨ (node N i).2 = j := by
          cases b
          · left; rw [child_false] at ci; exact ci
          · right; rw [child_true] at ci; exact ci
        have hj' : (node N i').1 = j ∨ (node N i').2 = j := by
          cases b'
          · left; rw [child_false] at ci'; exact ci'
          · right; rw [child_true] at ci'; exact ci'
        have hii : i = i' := hu i i' j i1 (by rw [hsize]; omega) i1' (by rw [hsize]; omega) hj hj'
        subst hii
        have hji : j < i := by rcases hj with e | e <;> omega
        have hpq : p' = q' := ih i p' q' (by omega) gi gi'
        have hbb : b = b' := by
          cases b <;> cases b' <;>
            simp only [child_false, child_true] at ci ci' <;> first | rfl | (exfalso; omega)
        rw [hpq, hbb]

theorem fromFrequencies_lutOk (f : List Nat) (t : Table) (h : fromFrequencies f = .ok t) :
    LutOk t := by
  have hwf := fromFrequencies_wellFormed f t h
  obtain ⟨T, hT1, hT2, _, hdfs, _, hT4⟩ := fromFrequencies_ok f t h
  have hsame : SameInner t T := dfs_inner _ _ _ _ _ _ hdfs
  intro i _
  simp only [lutOkAtF, decide_eq_true_eq]
  intro hlt
  obtain ⟨_, _, w1⟩ := (lutWalk_spec t LUTBITS ROOT_IDX i (by decide)).1 hlt
  have w2 := (hwf.leaf hlt).2.2.2
  simp only [lutWalk, lutDepth] at w1
  rw [walk_congr t T hsame _ ROOT_IDX (by decide)] at w1 w2
  have g1 := walk_go T _ _ _ (by decide) w1
  have g2 := walk_go T _ _ _ (by decide) w2
  have := go_unique T hT1 hT2 hT4 512 _ _ _ (by omega) g1 g2
  have hl := congrArg List.length this
  rw [natBits_length, codeBits_length] at hl
  exact hl.symm

end Tw.Huffman
