/-! Generic bit-field lemmas for the header codecs: masks and shifts as division and remainder. -/
namespace Tw.PacketBits

/-- extracting a bit field with a shifted low mask -/
theorem and_mask_shr (x lo w : Nat) : (x &&& ((2 ^ w - 1) <<< lo)) >>> lo = x / 2 ^ lo % 2 ^ w := by
  apply Nat.eq_of_testBit_eq
  intro i
  simp only [Nat.testBit_shiftRight, Nat.testBit_and, Nat.testBit_shiftLeft, Nat.testBit_two_pow_sub_one,
    Nat.testBit_mod_two_pow, Nat.testBit_div_two_pow]
  by_cases h : i < w <;> simp [h, Nat.add_comm]

theorem and_mask (x lo w : Nat) : x &&& ((2 ^ w - 1) <<< lo) = (x / 2 ^ lo % 2 ^ w) * 2 ^ lo := by
  apply Nat.eq_of_testBit_eq
  intro i
  rw [← Nat.shiftLeft_eq]
  simp only [Nat.testBit_and, Nat.testBit_shiftLeft, Nat.testBit_two_pow_sub_one,
    Nat.testBit_mod_two_pow, Nat.testBit_div_two_pow]
  by_cases h : lo ≤ i
  · have : lo + (i - lo) = i := by omega
    by_cases h2 : i - lo < w <;> simp [h, h2]
  · simp [h]

theorem mul_pow_or (a i b : Nat) (h : b < 2 ^ i) : a * 2 ^ i ||| b = a * 2 ^ i + b := by
  rw [← Nat.shiftLeft_eq, Nat.shiftLeft_add_eq_or_of_lt h]

theorem or_mul_pow (a i b : Nat) (h : b < 2 ^ i) : b ||| a * 2 ^ i = a * 2 ^ i + b := by
  rw [Nat.or_comm, mul_pow_or a i b h]

theorem or_eq_add (a b i : Nat) (ha : a % 2 ^ i = 0) (hb : b < 2 ^ i) : a ||| b = a + b := by
  have : a = a / 2 ^ i * 2 ^ i := by
    have := Nat.div_add_mod a (2 ^ i)
    rw [ha, Nat.add_zero, Nat.mul_comm] at this
    exact this.symm
  rw [this, mul_pow_or _ _ _ hb]

theorem and_3 (x : Nat) : x &&& 3 = x % 4 := Nat.and_two_pow_sub_one_eq_mod x 2
theorem and_15 (x : Nat) : x &&& 15 = x % 16 := Nat.and_two_pow_sub_one_eq_mod x 4
theorem and_63 (x : Nat) : x &&& 63 = x % 64 := Nat.and_two_pow_sub_one_eq_mod x 6
theorem and_255 (x : Nat) : x &&& 255 = x % 256 := Nat.and_two_pow_sub_one_eq_mod x 8
theorem and_12 (x : Nat) : x &&& 12 = x / 4 % 4 * 4 := and_mask x 2 2
theorem and_32 (x : Nat) : x &&& 32 = x / 32 % 2 * 32 := and_mask x 5 1
theorem and_48 (x : Nat) : x &&& 48 = x / 16 % 4 * 16 := and_mask x 4 2
theorem and_60 (x : Nat) : x &&& 60 = x / 4 % 16 * 4 := and_mask x 2 4
theorem and_192 (x : Nat) : x &&& 192 = x / 64 % 4 * 64 := and_mask x 6 2
theorem and_240 (x : Nat) : x &&& 240 = x / 16 % 16 * 16 := and_mask x 4 4
theorem and_768 (x : Nat) : x &&& 768 = x / 256 % 4 * 256 := and_mask x 8 2
theorem and_960 (x : Nat) : x &&& 960 = x / 64 % 16 * 64 := and_mask x 6 4
theorem and_1008 (x : Nat) : x &&& 1008 = x / 16 % 64 * 16 := and_mask x 4 6
theorem and_4032 (x : Nat) : x &&& 4032 = x / 64 % 64 * 64 := and_mask x 6 6
theorem and_243 (x : Nat) : x &&& 243 = x / 16 % 16 * 16 + x % 4 := by
  have : (243 : Nat) = 240 ||| 3 := by decide
  rw [this, Nat.and_or_distrib_left, and_240, and_3, or_eq_add _ _ 4 (by omega) (by omega)]
end Tw.PacketBits
