import Tw.Proofs.Gamenet

/-! C14: a byte string that decodes without warnings is the canonical encoding of its value
(uses the full analysis of `readInt` from C08, `Tw.Packer.readInt_inv`). -/
namespace Tw.Gamenet
open Tw.Packer (Warning readInt writeInt readString inI32 readInt_writeInt readInt_inv)

theorem readInt_clean {inp : List UInt8} {x : Int} {r : List UInt8}
    (h : readInt inp = some (x, r, [])) : inI32 x ∧ inp = writeInt x ++ r := by
  obtain ⟨c, hbs, _, _, hi, hiff, _⟩ := readInt_inv inp x r [] h
  exact ⟨hi, by rw [hbs, hiff.mp rfl]⟩

theorem readIntR_clean {inp : List UInt8} {k : Int → Option Val} {y : Val} {r : List UInt8}
    (h : readIntR inp k = .ok y r []) : ∃ x, inI32 x ∧ k x = some y ∧ inp = writeInt x ++ r := by
  unfold readIntR at h
  split at h
  · simp at h
  · rename_i x rest ws hr
    split at h
    · rename_i y' hk
      simp at h
      obtain ⟨h1, h2, h3⟩ := h
      subst h1 h2 h3
      obtain ⟨hi, hb⟩ := readInt_clean hr
      exact ⟨x, hi, hk, hb⟩
    · simp at h

theorem readString_split : ∀ (inp s rest : List UInt8), readString inp = some (s, rest) → inp = s ++ 0 :: rest := by
  intro inp
  induction inp with
  | nil => intro s rest h; simp [readString] at h
  | cons b bs ih =>
    intro s rest h
    simp only [readString] at h
    split at h
    · rename_i hb; simp at h; simp [← h.1, ← h.2, hb]
    · split at h
      · simp at h
      · rename_i s' rest' h'
        simp at h
        rw [← h.1, ← h.2, ih s' rest' h']
        simp

/-- what the canonicity lemma states for one member -/
def Canon (g : Val → Enc) (inp : List UInt8) (v : Val) (r : List UInt8) : Prop :=
  ∃ bs, inp = bs ++ r ∧ g v = .ok bs

theorem rep_canon (f : List UInt8 → Res Val) (g : Val → Enc)
    (h : ∀ inp v r, f inp = .ok v r [] → Canon g inp v r) :
    ∀ (n : Nat) (inp : List UInt8) (vs : VL) (r : List UInt8), rep f n inp = .ok vs r [] →
      ∃ bs, inp = bs ++ r ∧ encList g vs = .ok bs := by
  intro n
  induction n with
  | zero => intro inp vs r he; simp [rep] at he; exact ⟨[], by simp [he.2], by simp [← he.1, encList]⟩
  | succ n ih =>
    intro inp vs r he
    simp only [rep] at he
    split at he
    · simp at he
    · simp at he
    · rename_i v r1 ws1 h1
      split at he
      · simp at he
      · simp at he
      · rename_i vs' r2 ws2 h2
        simp at he
        obtain ⟨hvs, hr, hws1, hws2⟩ := he
        subst hws1 hws2
        obtain ⟨b1, hb1, hg1⟩ := h _ _ _ h1
        obtain ⟨b2, hb2, hg2⟩ := ih _ _ _ h2
        refine ⟨b1 ++ b2, by rw [hb1, hb2, ← hr]; simp, ?_⟩
        rw [← hvs]
        simp [encList, hg1, hg2, Enc.seq]

theorem ofNat_toNat_eq (b : UInt8) (n : Nat) (h : n = b.toNat) : UInt8.ofNat n = b := by
  subst h; exact UInt8.ofNat_toNat

mutual
theorem decM_canon : ∀ (t : MT) (inp : List UInt8) (v : Val) (r : List UInt8), noOptM t = true →
    noIntStrM t = true → decM t inp = .ok v r [] → Canon (encM t) inp v r
  | .int32 min max, inp, v, r, _, _, h => by
    simp only [decM] at h
    obtain ⟨x, hi, hk, hb⟩ := readIntR_clean h
    split at hk
    · rename_i hc; simp at hk; subst hk
      exact ⟨writeInt x, hb, by simp [encM, hi, hc]⟩
    · simp at hk
  | .boolean, inp, v, r, _, _, h => by
    simp only [decM] at h
    obtain ⟨x, hi, hk, hb⟩ := readIntR_clean h
    split at hk
    · rename_i hc
      simp at hk; subst hk
      simp only [checkRange, Bool.and_eq_true, decide_eq_true_eq] at hc
      refine ⟨writeInt x, hb, ?_⟩
      have : x = 0 ∨ x = 1 := by omega
      rcases this with rfl | rfl <;> simp [encM]
    · simp at hk
  | .enum _ lo n, inp, v, r, _, _, h => by
    simp only [decM] at h
    obtain ⟨x, hi, hk, hb⟩ := readIntR_clean h
    split at hk
    · rename_i hc; simp at hk; subst hk
      exact ⟨writeInt x, hb, by simp [encM, hi, hc]⟩
    · simp at hk
  | .flags _ _, inp, v, r, _, _, h => by
    simp only [decM] at h
    obtain ⟨x, hi, hk, hb⟩ := readIntR_clean h
    simp at hk; subst hk
    exact ⟨writeInt x, hb, by simp [encM, encInt, hi]⟩
  | .tick, inp, v, r, _, _, h => by
    simp only [decM] at h
    obtain ⟨x, hi, hk, hb⟩ := readIntR_clean h
    simp at hk; subst hk
    exact ⟨writeInt x, hb, by simp [encM, encInt, hi]⟩
  | .tuneParam, inp, v, r, _, _, h => by
    simp only [decM] at h
    obtain ⟨x, hi, hk, hb⟩ := readIntR_clean h
    simp at hk; subst hk
    exact ⟨writeInt x, hb, by simp [encM, encInt, hi]⟩
  | .string strict, inp, v, r, _, _, h => by
    simp only [decM] at h
    split at h
    · simp at h
    · rename_i s rest hs
      split at h
      · simp at h
      · rename_i hc
        simp at h
        obtain ⟨hv, hr⟩ := h
        subst hv hr
        have hn := readString_noNul _ _ _ hs
        refine ⟨s ++ [0], by rw [readString_split _ _ _ hs]; simp, ?_⟩
        have : (strict && hasControl s) = false := by simpa using hc
        simp [encM, hn, this]
  | .data, inp, v, r, _, _, h => by
    simp only [decM] at h
    split at h
    · simp at h
    · rename_i x rest ws hr
      split at h
      · simp at h
      · split at h
        · simp at h
        · rename_i h0 hl
          simp at h
          obtain ⟨hv, hrr, hws⟩ := h
          subst hv hrr hws
          obtain ⟨hi, hb⟩ := readInt_clean hr
          have hlen : (List.take x.toNat rest).length = x.toNat := by simp [List.length_take]; omega
          have hx : ((List.take x.toNat rest).length : Int) = x := by rw [hlen]; omega
          refine ⟨writeInt x ++ List.take x.toNat rest, by rw [hb]; simp, ?_⟩
          unfold inI32 at hi
          have hlt : (List.take x.toNat rest).length < 2 ^ 31 := by rw [hlen]; omega
          simp only [encM, hlt, if_true, hx]
  | .rest, inp, v, r, _, _, h => by
    simp [decM] at h
    exact ⟨inp, by simp [← h.2], by simp [← h.1, encM]⟩
  | .raw len, inp, v, r, _, _, h => by
    simp only [decM, readRawR] at h
    split at h
    · simp at h
    · split at h
      · simp at h
      · rename_i hl
        simp at h
        refine ⟨List.take len inp, by rw [← h.2]; simp, ?_⟩
        rw [← h.1]
        have : (List.take len inp).length = len := by simpa using hl
        simp [encM, this]
  | .beUint16, inp, v, r, _, _, h => by
    simp only [decM, readRawR] at h
    split at h
    · simp at h
    · rename_i hl
      split at h
      · rename_i b0 b1 ht
        simp at h
        have h0 := UInt8.toNat_lt b0
        have h1 := UInt8.toNat_lt b1
        have hinp : inp = [b0, b1] ++ List.drop 2 inp := by rw [← ht]; simp
        refine ⟨[b0, b1], by rw [← h.2]; exact hinp, ?_⟩
        rw [← h.1]
        have hnn : (0 : Int) ≤ ↑b0.toNat * 256 + ↑b1.toNat ∧ (↑b0.toNat * 256 + ↑b1.toNat : Int) < 65536 := by omega
        simp only [encM, hnn, and_self, if_true]
        have e0 : UInt8.ofNat ((↑b0.toNat * 256 + ↑b1.toNat : Int).toNat / 256) = b0 := ofNat_toNat_eq _ _ (by omega)
        have e1 : UInt8.ofNat ((↑b0.toNat * 256 + ↑b1.toNat : Int).toNat % 256) = b1 := ofNat_toNat_eq _ _ (by omega)
        rw [e0, e1]
      · simp at h
  | .uint8, inp, v, r, _, _, h => by
    simp only [decM, readRawR] at h
    split at h
    · simp at h
    · rename_i hl
      split at h
      · rename_i b0 ht
        simp at h
        have h0 := UInt8.toNat_lt b0
        have hinp : inp = [b0] ++ inp.tail := by
          cases inp with
          | nil => simp at hl
          | cons a tl => simp at ht; simp [ht]
        refine ⟨[b0], by rw [← h.2]; exact hinp, ?_⟩
        rw [← h.1]
        have hnn : (0 : Int) ≤ ↑b0.toNat ∧ (↑b0.toNat : Int) < 256 := by omega
        simp only [encM, hnn, and_self, if_true]
        have e0 : UInt8.ofNat ((↑b0.toNat : Int).toNat) = b0 := ofNat_toNat_eq _ _ (by omega)
        rw [e0]
      · simp at h
  | .packedAddresses, inp, v, r, _, _, h => by
    simp only [decM] at h
    split at h
    · simp at h
    · simp at h
      obtain ⟨hv, hr, hw⟩ := h
      have hrem : inp.length % 18 = 0 := by
        by_cases hz : inp.length % 18 = 0
        · exact hz
        · simp [hz] at hw
      refine ⟨inp, by simp [← hr], ?_⟩
      rw [← hv]
      simp [encM, hrem]
  | .serverinfoClient, inp, v, r, _, _, h => by
    simp [decM] at h
    exact ⟨inp, by simp [← h.2], by simp [← h.1, encM]⟩
  | .array n t, inp, v, r, hno, hni, h => by
    simp only [noOptM] at hno
    simp only [noIntStrM] at hni
    simp only [decM] at h
    split at h
    · rename_i vs r' ws' hr
      simp at h
      obtain ⟨hv, hrr, hws⟩ := h
      subst hv hrr hws
      obtain ⟨bs, hb, he⟩ := rep_canon _ _ (fun inp v r hh => decM_canon t inp v r hno hni hh) _ _ _ _ hr
      have hl := (rep_ok _ (fun _ => true) (fun _ _ _ _ _ => rfl) _ _ _ _ _ hr).1
      exact ⟨bs, hb, by simp [encM, hl, he]⟩
    · simp at h
    · simp at h
  | .object ms, inp, v, r, hno, hni, h => by
    simp only [noOptM] at hno
    simp only [noIntStrM] at hni
    simp only [decM] at h
    split at h
    · rename_i vs r' ws' hr
      simp at h
      obtain ⟨hv, hrr, hws, hex⟩ := h
      subst hv hrr hws
      have hr' : r' = [] := by cases r' <;> simp_all
      subst hr'
      obtain ⟨bs, hb, he⟩ := decMs_canon ms inp vs [] hno hni hr
      have hp := decMs_present ms inp vs [] [] hno hr
      exact ⟨bs, hb, by simp [encM, he, guardWrap, optGuard, optGuard_present ms vs hp]⟩
    · simp at h
    · simp at h
  | .int32String, _, _, _, _, hni, _ => by simp [noIntStrM] at hni
  | .twString _, _, _, _, _, hni, _ => by simp [noIntStrM] at hni
  | .optional _, _, _, _, hno, _, _ => by simp [noOptM] at hno
theorem decMs_canon : ∀ (ms : ML) (inp : List UInt8) (vs : VL) (r : List UInt8), noOptMs ms = true →
    noIntStrMs ms = true → decMs ms inp = .ok vs r [] → ∃ bs, inp = bs ++ r ∧ encMs ms vs = .ok bs
  | .nil, inp, vs, r, _, _, h => by
    simp [decMs] at h
    exact ⟨[], by simp [h.2], by simp [← h.1, encMs]⟩
  | .cons t ms, inp, vs, r, hno, hni, h => by
    simp only [noOptMs, Bool.and_eq_true] at hno
    simp only [noIntStrMs, Bool.and_eq_true] at hni
    simp only [decMs] at h
    split at h
    · simp at h
    · simp at h
    · rename_i v r1 ws1 h1
      split at h
      · simp at h
      · simp at h
      · rename_i vs' r2 ws2 h2
        simp at h
        obtain ⟨hvs, hr, hws1, hws2⟩ := h
        subst hws1 hws2
        obtain ⟨b1, hb1, hg1⟩ := decM_canon t _ _ _ hno.1 hni.1 h1
        obtain ⟨b2, hb2, hg2⟩ := decMs_canon ms _ _ _ hno.2 hni.2 h2
        refine ⟨b1 ++ b2, by rw [hb1, hb2, ← hr]; simp, ?_⟩
        rw [← hvs]
        simp [encMs, hg1, hg2, Enc.seq]
end

/-- A byte string that decodes without any warning is the canonical encoding of what it decodes
to. -/
theorem clean_decode_canonical (ms : ML) (bs : List UInt8) (v : VL) (hno : noOptMs ms = true)
    (hni : noIntStrMs ms = true) (hd : decodeMembers ms bs = .ok v []) : encStruct ms v = .ok bs := by
  unfold decodeMembers at hd
  split at hd
  · rename_i vs r ws h
    simp at hd
    obtain ⟨hv, hws, hex⟩ := hd
    subst hv hws
    have hr : r = [] := by cases r <;> simp_all
    subst hr
    obtain ⟨b, hb, he⟩ := decMs_canon ms bs vs [] hno hni h
    have hp := decMs_present ms bs vs [] [] hno h
    simp at hb
    subst hb
    simp [encStruct, he, guardWrap, optGuard, optGuard_present ms vs hp]
  · simp at hd
  · simp at hd

end Tw.Gamenet
