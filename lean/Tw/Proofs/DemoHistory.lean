import Tw.Proofs.DemoItems

/-! The typed-level round trip over whole histories (the induction behind `C15_full`). -/
namespace Tw.DemoHl
open Tw.Demo Tw.Snap

/-- the invariant of the reachable writer states, with the builder holding registry items only -/
structure DemoWriter.Inv2 (w : DemoWriter) : Prop where
  inv : w.Inv
  clean : Clean w.builder.snap.raw

theorem new_inv2 (a : HeaderArgs) (w : DemoWriter) (h : DemoWriter.new a = some w) : w.Inv2 := by
  refine ⟨new_inv a w h, ?_⟩
  unfold DemoWriter.new at h
  match hw : Writer.new a, h with
  | some iw, h =>
    simp only [Option.some.injEq] at h
    subst h
    intro p hp
    simp [Builder.new, Snap.empty, RawSnap.empty] at hp

theorem writeSnap_preserves_inv2 (objSize : Nat → Option Nat) (w w' : DemoWriter) (hinv : w.Inv2) (tick : Int)
    (items : List Item) (hv : ∀ it ∈ items, it.valid)
    (h : w.writeSnap objSize tick items = (w', .ok)) : w'.Inv2 := by
  refine ⟨writeSnap_preserves_inv objSize w w' hinv.inv tick items hv h, ?_⟩
  obtain ⟨_, b, b', bs, inner1, hadd, _, _, _, _, hnb, hw'⟩ := writeSnap_ok_inv objSize w w' tick items h
  have hb := addItems_inv items hv w.builder b hinv.inv.binv hadd
  rw [hw']
  exact recycle_clean hb hnb

/-- the objects of the snapshot an accepted `write_snap` leaves in the writer -/
theorem accepted_snap_items (objSize : Nat → Option Nat) (w w' : DemoWriter) (hinv : w.Inv2) (tick : Int)
    (items : List Item) (hv : ∀ it ∈ items, it.valid)
    (h : w.writeSnap objSize tick items = (w', .ok)) :
    ∃ its, snapItems w'.snap = some its ∧ ∀ it, it ∈ its ↔ it ∈ items := by
  obtain ⟨_, b, b', bs, inner1, hadd, _, _, _, _, hnb, hw'⟩ := writeSnap_ok_inv objSize w w' tick items h
  have hb := addItems_inv items hv w.builder b hinv.inv.binv hadd
  have hsnap : w'.snap = b.snap := by rw [hw']
  rw [hsnap]
  cases hs : snapItems b.snap with
  | none => exact absurd hs (snapItems_ne_none hb.ok)
  | some its => exact ⟨its, rfl, built_items hinv.inv.binv hinv.clean hv hadd hs⟩

theorem chunksAgree_cons_tick (t : Int) (a b : List HChunk) (h : chunksAgree a b) :
    chunksAgree (.tick t :: a) (.tick t :: b) := by
  unfold chunksAgree; exact ⟨rfl, h⟩

theorem chunksAgree_cons_msg (m : Bytes) (a b : List HChunk) (h : chunksAgree a b) :
    chunksAgree (.message m :: a) (.message m :: b) := by
  unfold chunksAgree; exact ⟨rfl, h⟩

theorem chunksAgree_cons_snap (x y : List Item) (hxy : ∀ it, it ∈ x ↔ it ∈ y) (a b : List HChunk)
    (h : chunksAgree a b) : chunksAgree (.snapshot x :: a) (.snapshot y :: b) := by
  unfold chunksAgree; exact ⟨hxy, h⟩

theorem run_read (objSize : Nat → Option Nat) : ∀ (ops : List Op) (w w' : DemoWriter) (rs : List HResult),
    w.Inv2 → (∀ op ∈ ops, op.valid) → w.run objSize ops = (w', rs) → (∀ r ∈ rs, ∀ s, r ≠ .panic s) →
    ∃ body, w'.inner.file = w.inner.file ++ body ∧
      ∀ (v : Version) (s0 : Snap) (fuel : Nat), v.num ≥ 5 → (w.lastKeyframe ≠ none → s0 = w.snap) →
        body.length + 1 ≤ fuel →
        ∃ cs, DemoReader.readAllGo objSize fuel
            { raw := { data := body, version := v, currentTick := w.inner.prevTick }, snap := s0 } = (cs, [], none)
          ∧ chunksAgree cs (expectedChunks ops rs) := by
  intro ops
  induction ops with
  | nil =>
    intro w w' rs _ _ hrun _
    simp only [DemoWriter.run, Prod.mk.injEq] at hrun
    obtain ⟨h1, h2⟩ := hrun
    subst h1 h2
    refine ⟨[], by simp, ?_⟩
    intro v s0 fuel _ _ hf
    match fuel, hf with
    | fuel + 1, _ =>
      refine ⟨[], ?_, by simp [expectedChunks, chunksAgree]⟩
      simp [DemoReader.readAllGo, DemoReader.nextChunk, Reader.readChunk, readChunkHeader]
  | cons op rest ih =>
    intro w w' rs hinv hval hrun hnp
    have hvalr : ∀ op ∈ rest, op.valid := fun o ho => hval o (by simp [ho])
    cases op with
    | snap t items =>
      obtain ⟨hti, hvi⟩ : Tw.Packer.inI32 t ∧ ∀ it ∈ items, it.valid := hval (.snap t items) (by simp)
      simp only [DemoWriter.run] at hrun
      cases hws : w.writeSnap objSize t items with
      | mk w1 r =>
        cases hrr : DemoWriter.run objSize w1 rest with
        | mk w2 rs' =>
          simp only [hws, hrr, Prod.mk.injEq] at hrun
          obtain ⟨h1, h2⟩ := hrun
          subst h1 h2
          have hnp' : ∀ r ∈ rs', ∀ s, r ≠ .panic s := fun r hr => hnp r (by simp [hr])
          cases r with
          | panic s => exact absurd rfl (hnp (.panic s) (by simp) s)
          | err e =>
            have hw1 : w1 = w := writeSnap_err_unchanged objSize w w1 hinv.inv t items e hws
            subst hw1
            obtain ⟨body, hf, hrd⟩ := ih w1 w2 rs' hinv hvalr hrr hnp'
            refine ⟨body, hf, ?_⟩
            intro v s0 fuel hv hs0 hfuel
            obtain ⟨cs, hc1, hc2⟩ := hrd v s0 fuel hv hs0 hfuel
            exact ⟨cs, hc1, by simpa [expectedChunks] using hc2⟩
          | ok =>
            have hinv1 := writeSnap_preserves_inv2 objSize w w1 hinv t items hvi hws
            obtain ⟨its, hits, hmem⟩ := accepted_snap_items objSize w w1 hinv t items hvi hws
            obtain ⟨body, hf, hrd⟩ := ih w1 w2 rs' hinv1 hvalr hrr hnp'
            obtain ⟨_, _, hkf, _⟩ : w.lastTick < t ∧ w1.lastTick = t
                ∧ w1.lastKeyframe = (if w.isKeyframe t then some t else w.lastKeyframe) ∧ True := by
              obtain ⟨hlt, b, b', bs, inner1, _, _, _, _, _, _, hw'⟩ := writeSnap_ok_inv objSize w w1 t items hws
              exact ⟨hlt, by rw [hw'], by rw [hw'], trivial⟩
            by_cases hk : w.isKeyframe t = true
            · obtain ⟨enc, hfe, hle, hstep⟩ := keyframe_step huffmanRoundTrip objSize w w1 hinv.inv t hti items hvi hk hws
              refine ⟨enc ++ body, by rw [hf, hfe, List.append_assoc], ?_⟩
              intro v s0 fuel hv _ hfuel
              obtain ⟨r1, hn1, hn2⟩ := hstep v body s0 hv
              rw [hits] at hn2
              obtain ⟨fuel, rfl⟩ : ∃ f, fuel = f + 2 := ⟨fuel - 2, by rw [List.length_append] at hfuel; omega⟩
              · obtain ⟨cs, hc1, hc2⟩ := hrd v w1.snap fuel hv (fun _ => rfl)
                  (by rw [List.length_append] at hfuel; omega)
                refine ⟨.tick t :: .snapshot its :: cs, ?_, ?_⟩
                · simp only [DemoReader.readAllGo, hn1, hn2, hc1, List.nil_append]
                · simp only [expectedChunks]
                  exact chunksAgree_cons_tick _ _ _ (chunksAgree_cons_snap _ _ hmem _ _ hc2)
            · have hk' : w.isKeyframe t = false := by simpa using hk
              obtain ⟨enc, hfe, hle, hstep⟩ := delta_step' objSize w w1 hinv.inv t hti items hvi hk' hws
              refine ⟨enc ++ body, by rw [hf, hfe, List.append_assoc], ?_⟩
              intro v s0 fuel hv hs0 hfuel
              have hlk : w.lastKeyframe ≠ none := by
                intro e
                simp [DemoWriter.isKeyframe, e] at hk'
              have hs0' := hs0 hlk
              subst hs0'
              obtain ⟨r1, hn1, hn2⟩ := hstep v body hv
              rw [hits] at hn2
              obtain ⟨fuel, rfl⟩ : ∃ f, fuel = f + 2 := ⟨fuel - 2, by rw [List.length_append] at hfuel; omega⟩
              · obtain ⟨cs, hc1, hc2⟩ := hrd v w1.snap fuel hv (fun _ => rfl)
                  (by rw [List.length_append] at hfuel; omega)
                refine ⟨.tick t :: .snapshot its :: cs, ?_, ?_⟩
                · simp only [DemoReader.readAllGo, hn1, hn2, hc1, List.nil_append]
                · simp only [expectedChunks]
                  exact chunksAgree_cons_tick _ _ _ (chunksAgree_cons_snap _ _ hmem _ _ hc2)
    | msg bytes =>
      simp only [DemoWriter.run] at hrun
      cases hws : w.writeMsg bytes with
      | mk w1 r =>
        cases hrr : DemoWriter.run objSize w1 rest with
        | mk w2 rs' =>
          simp only [hws, hrr, Prod.mk.injEq] at hrun
          obtain ⟨h1, h2⟩ := hrun
          subst h1 h2
          have hnp' : ∀ r ∈ rs', ∀ s, r ≠ .panic s := fun r hr => hnp r (by simp [hr])
          cases r with
          | panic s => exact absurd rfl (hnp (.panic s) (by simp) s)
          | err e =>
            have hw1 : w1 = w := writeMsg_err_unchanged w w1 bytes e hws
            subst hw1
            obtain ⟨body, hf, hrd⟩ := ih w1 w2 rs' hinv hvalr hrr hnp'
            refine ⟨body, hf, ?_⟩
            intro v s0 fuel hv hs0 hfuel
            obtain ⟨cs, hc1, hc2⟩ := hrd v s0 fuel hv hs0 hfuel
            exact ⟨cs, hc1, by simpa [expectedChunks] using hc2⟩
          | ok =>
            obtain ⟨hsn, hbu, _, hlk, enc, hfe, hle, hstep⟩ := msg_step huffmanRoundTrip objSize w w1 bytes hws
            have hinv1 : w1.Inv2 := ⟨writeMsg_preserves_inv w w1 bytes hinv.inv hws, by rw [hbu]; exact hinv.clean⟩
            obtain ⟨body, hf, hrd⟩ := ih w1 w2 rs' hinv1 hvalr hrr hnp'
            refine ⟨enc ++ body, by rw [hf, hfe, List.append_assoc], ?_⟩
            intro v s0 fuel hv hs0 hfuel
            have hn := hstep v body s0 hv
            obtain ⟨fuel, rfl⟩ : ∃ f, fuel = f + 1 := ⟨fuel - 1, by rw [List.length_append] at hfuel; omega⟩
            · obtain ⟨cs, hc1, hc2⟩ := hrd v s0 fuel hv (by rw [hlk, hsn]; exact hs0)
                (by rw [List.length_append] at hfuel; omega)
              refine ⟨.message (pad4 bytes) :: cs, ?_, ?_⟩
              · simp only [DemoReader.readAllGo, hn, hc1, List.nil_append]
              · simp only [expectedChunks]
                exact chunksAgree_cons_msg _ _ _ hc2

/-- `write_msg` never panics (since the repair of D29 the limits of the low-level writer are checked
first and reported as `TooLongNetMsg`). -/
theorem writeMsg_no_panic (w : DemoWriter) (msg : Bytes) (s : String) : (w.writeMsg msg).2 ≠ .panic s := by
  unfold DemoWriter.writeMsg
  split
  · simp
  · split
    · simp
    · rename_i h1 h2
      have hfit : fitsMessage msg := Decidable.not_not.mp h2
      obtain ⟨hm1, hm2, hm3, hm4⟩ := hfit
      obtain ⟨hdr, hh⟩ := data_header_writes .message (Tw.Huffman.compress table false (Tw.Demo.packInts (msgInts msg))).length
      have hc1 : (Tw.Huffman.compress table false (Tw.Demo.packInts (msgInts msg))).length ≤ Tw.Gen.Demo.MAX_SNAPSHOT_SIZE := by
        simp [Tw.Gen.Demo.MAX_SNAPSHOT_SIZE]; omega
      have hc2 : ¬ (Tw.Huffman.compress table false (Tw.Demo.packInts (msgInts msg))).length > 65535 := by omega
      have e : w.inner.writeMessage msg =
          ({ w.inner with file := w.inner.file ++ hdr ++ Tw.Huffman.compress table false (Tw.Demo.packInts (msgInts msg)) }, .ok) := by
        unfold Writer.writeMessage Writer.writeData Tw.Huffman.compressInto
        have n1 : ¬ msg.length > Tw.Gen.Demo.MAX_SNAPSHOT_SIZE := by omega
        have n2 : ¬ (Tw.Demo.packInts (msgInts msg)).length > Tw.Gen.Demo.MAX_SNAPSHOT_SIZE := by omega
        simp only [n1, n2, if_false, hc1, if_true, hc2, hh]
      rw [e]
      simp

/-- **The typed-level round trip.**  For every header the writer accepts and every history of valid
calls none of which panics: the high-level reader reports the header fields and, in order, for each
accepted `write_snap` its tick and exactly the object set handed in, for each accepted `write_msg`
its bytes zero-padded to a multiple of four; refused calls leave no trace; the end of the file is
reached without an error and without a warning. -/
theorem typed_roundtrip (objSize : Nat → Option Nat) (a : HeaderArgs) (w0 w : DemoWriter) (ops : List Op)
    (rs : List HResult) (ha : a.wf) (hnew : DemoWriter.new a = some w0) (hval : ∀ op ∈ ops, op.valid)
    (hrun : w0.run objSize ops = (w, rs)) (hnp : ∀ r ∈ rs, ∀ s, r ≠ .panic s) :
    ∃ cs, readFileHl objSize w.inner.file = some (a.info, cs, [], none)
      ∧ chunksAgree cs (expectedChunks ops rs) := by
  have hinv := new_inv2 a w0 hnew
  obtain ⟨body, hf, hrd⟩ := run_read objSize ops w0 w rs hinv hval hrun hnp
  unfold DemoWriter.new at hnew
  match hw : Writer.new a, hnew with
  | some iw, hnew =>
    simp only [Option.some.injEq] at hnew
    subst hnew
    unfold Writer.new at hw
    match henc : encodeHeader a, hw with
    | some hdr, hw =>
      simp only [Option.some.injEq] at hw
      subst hw
      simp only at hf hrd
      have hh := readHeader_encode a ha hdr body henc
      obtain ⟨cs, hc1, hc2⟩ := hrd a.info.version Snap.empty (body.length + 1) (info_version_ge5 a)
        (fun h => absurd rfl h) (Nat.le_refl _)
      refine ⟨cs, ?_, hc2⟩
      unfold readFileHl Reader.new
      rw [hf, hh]
      simp only [hc1, List.map_nil, List.nil_append]

end Tw.DemoHl
