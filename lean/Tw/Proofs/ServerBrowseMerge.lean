import Tw.Model.ServerBrowse
import Tw.Model.ServerBrowseEnc
import Tw.Proofs.ServerBrowseOrder
import Tw.Proofs.ServerBrowse

/-! Merging the parts of one multi-part server info: specification-level definitions
(`Family`, its parts, what "all parts seen" means) and the fold lemmas. -/
namespace Tw.ServerBrowse
open Tw.Gen.Browse

/-- `acc.merge(p)` for every `p` in order, errors ignored (as the callers in the repository do) -/
def mergeAll (acc : PartialInfo) (ps : List PartialInfo) : PartialInfo :=
  ps.foldl (fun s p => (merge s p).1) acc

@[simp] theorem mergeAll_nil (acc : PartialInfo) : mergeAll acc [] = acc := rfl
@[simp] theorem mergeAll_cons (acc p : PartialInfo) (ps : List PartialInfo) :
    mergeAll acc (p :: ps) = mergeAll (merge acc p).1 ps := rfl

def ServerInfo.withClients (i : ServerInfo) (cs : List ClientInfo) : ServerInfo := { i with clients := cs }

@[simp] theorem withClients_clients (i : ServerInfo) (cs : List ClientInfo) : (i.withClients cs).clients = cs := rfl
@[simp] theorem withClients_token (i : ServerInfo) (cs : List ClientInfo) : (i.withClients cs).token = i.token := rfl
@[simp] theorem withClients_version (i : ServerInfo) (cs : List ClientInfo) : (i.withClients cs).infoVersion = i.infoVersion := rfl
@[simp] theorem withClients_numClients (i : ServerInfo) (cs : List ClientInfo) : (i.withClients cs).numClients = i.numClients := rfl
@[simp] theorem withClients_withClients (i : ServerInfo) (a b : List ClientInfo) :
    (i.withClients a).withClients b = i.withClients b := rfl

/-! ### one merge step -/

/-- a merge that is neither refused nor taken for a repetition appends (after the swap that
keeps the main packet of an extended info in front) -/
theorem merge_extend {s o : PartialInfo} (htok : s.info.token = o.info.token)
    (hver : s.info.infoVersion = o.info.infoVersion)
    (hmulti : s.info.infoVersion = .v664 ∨ s.info.infoVersion = .v6Ex)
    (hnew : s.received &&& o.received ≠ o.received) (hdisj : s.received &&& o.received = 0) :
    merge s o =
      (if s.info.infoVersion = .v6Ex ∧ s.received &&& 1 = 0
        then { o with info := o.info.withClients (o.info.clients ++ s.info.clients) }
        else { s with info := s.info.withClients (s.info.clients ++ o.info.clients) }, none) := by
  unfold merge
  have h3 : ¬ (s.info.infoVersion ≠ .v664 ∧ s.info.infoVersion ≠ .v6Ex) := by
    rcases hmulti with h | h <;> simp [h]
  rw [if_neg ((fun h => h htok)), if_neg ((fun h => h hver)), if_neg h3, if_neg hnew, if_neg ((fun h => h hdisj))]
  by_cases hc : s.info.infoVersion = .v6Ex ∧ s.received &&& 1 = 0
  · simp only [hc, and_self, if_true]; rfl
  · simp only [hc, if_false]; rfl

theorem merge_known {s o : PartialInfo} (htok : s.info.token = o.info.token)
    (hver : s.info.infoVersion = o.info.infoVersion)
    (hmulti : s.info.infoVersion = .v664 ∨ s.info.infoVersion = .v6Ex)
    (hold : s.received &&& o.received = o.received) :
    merge s o = (s, none) := by
  unfold merge
  have h3 : ¬ (s.info.infoVersion ≠ .v664 ∧ s.info.infoVersion ≠ .v6Ex) := by
    rcases hmulti with h | h <;> simp [h]
  rw [if_neg ((fun h => h htok)), if_neg ((fun h => h hver)), if_neg h3, if_pos hold]

/-! ### bit masks -/

theorem shl_one (n : Nat) : 1 <<< n = 2 ^ n := by simp [Nat.shiftLeft_eq]

theorem two_pow_and_ne {a b : Nat} (h : a ≠ b) : 2 ^ a &&& 2 ^ b = 0 := by
  apply Nat.eq_of_testBit_eq
  intro i
  simp only [Nat.testBit_and, Nat.testBit_two_pow, Nat.zero_testBit]
  by_cases h1 : a = i
  · have : ¬ b = i := by omega
    simp [this]
  · simp [h1]

theorem two_pow_and_one {a : Nat} (h : a ≠ 0) : 2 ^ a &&& 1 = 0 := by
  have := two_pow_and_ne (a := a) (b := 0) h
  simpa using this


theorem rangeMask_testBit (off len i : Nat) :
    (rangeMask off len).testBit i = (decide (off ≤ i) && decide (i < off + len)) := by
  unfold rangeMask
  rw [Nat.testBit_shiftLeft, Nat.testBit_two_pow_sub_one]
  by_cases h : off ≤ i
  · have : (i - off < len) ↔ (i < off + len) := by omega
    simp [h, this]
  · simp [h]

theorem rangeMask_disjoint {o1 l1 o2 l2 : Nat} (h : o1 + l1 ≤ o2 ∨ o2 + l2 ≤ o1) :
    rangeMask o1 l1 &&& rangeMask o2 l2 = 0 := by
  apply Nat.eq_of_testBit_eq
  intro i
  simp only [Nat.testBit_and, rangeMask_testBit, Nat.zero_testBit]
  by_cases a : o1 ≤ i <;> by_cases b : i < o1 + l1 <;> by_cases c : o2 ≤ i <;> by_cases d : i < o2 + l2 <;>
    simp [a, b, c, d] <;> omega

theorem rangeMask_zero (off : Nat) : rangeMask off 0 = 0 := by simp [rangeMask]

theorem rangeMask_ne_zero {off len : Nat} (h : 0 < len) : rangeMask off len ≠ 0 := by
  intro e
  have := rangeMask_testBit off len off
  rw [e] at this
  simp at this
  omega

theorem rangeMask_succ (j n : Nat) : 2 ^ j ||| rangeMask (j + 1) n = rangeMask j (n + 1) := by
  apply Nat.eq_of_testBit_eq
  intro i
  simp only [Nat.testBit_or, rangeMask_testBit, Nat.testBit_two_pow]
  by_cases a : j = i <;> by_cases b : j + 1 ≤ i <;> by_cases c : i < j + 1 + n <;> by_cases d : j ≤ i <;>
    by_cases e : i < j + (n + 1) <;> simp [a, b, c, d, e] <;> omega

/-! ### The masks the parser builds -/

/-- the legacy client loop sets exactly the bits of the slots of the clients it keeps -/
theorem parseClients_mask_legacy (hs : SLOT_SKIP_FROM = RECEIVED_BITS) (ri : Reader Int) :
    ∀ (fuel j : Nat) (bs : List UInt8) (acc : List ClientInfo) (recv : Nat) (cs : List ClientInfo) (r : Nat),
      parseClients ri .v664 fuel j bs acc recv = .ok (some (cs, r)) →
      ∃ n, cs.length = acc.length + n ∧ r = recv ||| rangeMask j n ∧ (n = 0 ∨ j + n ≤ RECEIVED_BITS) := by
  intro fuel
  induction fuel with
  | zero =>
    intro j bs acc recv cs r h
    simp only [parseClients, Outcome.ok.injEq, Option.some.injEq, Prod.mk.injEq] at h
    exact ⟨0, by simp [h.1], by simp [rangeMask_zero, h.2], Or.inl rfl⟩
  | succ fuel ih =>
    intro j bs acc recv cs r h
    unfold parseClients at h
    cases hc : readClient ri .v664 bs with
    | stop =>
      simp only [hc, Outcome.ok.injEq, Option.some.injEq, Prod.mk.injEq] at h
      exact ⟨0, by simp [h.1], by simp [rangeMask_zero, h.2], Or.inl rfl⟩
    | fail => simp [hc] at h
    | client c rest =>
      simp only [hc, if_true] at h
      by_cases hj : j ≥ SLOT_SKIP_FROM
      · simp only [hj, if_true] at h
        obtain ⟨n, h1, h2, h3⟩ := ih _ _ _ _ _ _ h
        have hn : n = 0 := by
          rcases h3 with h3 | h3
          · exact h3
          · omega
        subst hn
        exact ⟨0, h1, by simp [rangeMask_zero] at h2 ⊢; exact h2, Or.inl rfl⟩
      · simp only [hj, if_false] at h
        have hj' : j < RECEIVED_BITS := by omega
        rw [shl1_ok hj'] at h
        simp only at h
        obtain ⟨n, h1, h2, h3⟩ := ih _ _ _ _ _ _ h
        refine ⟨n + 1, by simp at h1; omega, ?_, Or.inr (by omega)⟩
        rw [h2, shl_one, Nat.or_assoc, rangeMask_succ]

/-- for the other versions the loop leaves the mask alone -/
theorem parseClients_mask_other (ri : Reader Int) (ver : Version) (hv : ver ≠ .v664) :
    ∀ (fuel j : Nat) (bs : List UInt8) (acc : List ClientInfo) (recv : Nat) (cs : List ClientInfo) (r : Nat),
      parseClients ri ver fuel j bs acc recv = .ok (some (cs, r)) → r = recv := by
  intro fuel
  induction fuel with
  | zero =>
    intro j bs acc recv cs r h
    simp only [parseClients, Outcome.ok.injEq, Option.some.injEq, Prod.mk.injEq] at h
    exact h.2.symm
  | succ fuel ih =>
    intro j bs acc recv cs r h
    unfold parseClients at h
    cases hc : readClient ri ver bs with
    | stop =>
      simp only [hc, Outcome.ok.injEq, Option.some.injEq, Prod.mk.injEq] at h
      exact h.2.symm
    | fail => simp [hc] at h
    | client c rest =>
      simp only [hc, hv, if_false] at h
      exact ih _ _ _ _ _ _ h

theorem parseBody_result {ri : Reader Int} {ver : Version} {info : ServerInfo} {packetNo offset : Nat}
    {bs : List UInt8} {p : PartialInfo} (h : parseBody ri ver info packetNo offset bs = .ok (some p)) :
    ∃ (bs' : List UInt8) (cs : List ClientInfo) (r : Nat),
      parseClients ri ver (bs'.length + 1) offset bs' [] (if ver = .v6Ex then 1 <<< packetNo else 0) = .ok (some (cs, r)) ∧
      p = { info := { info with clients := cs }, received := r } := by
  unfold parseBody at h
  split at h
  · simp at h
  · rename_i bs' _
    by_cases hv : ver = .v6Ex
    · simp only [hv, if_true] at h ⊢
      by_cases hpn : packetNo ≥ RECEIVED_BITS
      · simp [shl1, hpn] at h
      · simp only [shl1, hpn, if_false] at h
        split at h
        · simp at h
        · simp at h
        · rename_i cs r hpc
          simp only [Outcome.ok.injEq, Option.some.injEq] at h
          exact ⟨bs', cs, r, hpc, h.symm⟩
    · simp only [hv, if_false] at h ⊢
      split at h
      · simp at h
      · simp at h
      · rename_i cs r hpc
        simp only [Outcome.ok.injEq, Option.some.injEq] at h
        exact ⟨bs', cs, r, hpc, h.symm⟩

/-- The `received` mask of whatever the parser returns, per kind: the main packet of an extended
info has bit 0, an `iex+` packet the bit of its packet number (1..63), a legacy packet the bits of
the slots of the clients it kept (none beyond slot 63), the single-packet kinds nothing. -/
theorem parsePartial_mask (hs : SLOT_SKIP_FROM = RECEIVED_BITS) (k : InfoKind) (payload : List UInt8) (p : PartialInfo)
    (h : parsePartial k payload = .ok (some p)) :
    match k with
    | .info6Ex => p.received = 1
    | .info6ExMore => ∃ n, PACKET_NO_MIN ≤ n ∧ n < PACKET_NO_REJECT_FROM ∧ p.received = 1 <<< n
    | .info664 => ∃ off n, p.received = rangeMask off n ∧ p.info.clients.length = n ∧ (n = 0 ∨ off + n ≤ RECEIVED_BITS)
    | _ => p.received = 0 := by
  unfold parsePartial parseServerInfo at h
  cases h0 : k.reader payload with
  | none => simp [h0] at h
  | some q =>
    obtain ⟨token, bs1⟩ := q
    simp only [h0] at h
    cases k with
    | info6ExMore =>
      simp only [InfoKind.received] at h
      cases h1 : parseHeadMore InfoKind.info6ExMore.reader token bs1 with
      | none => simp [h1] at h
      | some q1 =>
        obtain ⟨info, n, bs2⟩ := q1
        simp only [h1] at h
        obtain ⟨bs', cs, r, hpc, hp⟩ := parseBody_result h
        have hr := parseClients_mask_other _ .v6Ex (by decide) _ _ _ _ _ _ _ hpc
        simp only [if_true] at hr
        have hb := parseHeadMore_bound h1
        have hlo : PACKET_NO_MIN ≤ n := by
          unfold parseHeadMore at h1
          cases hri : InfoKind.info6ExMore.reader bs1 with
          | none => simp [hri] at h1
          | some pr =>
            obtain ⟨pn, bs''⟩ := pr
            simp only [hri, Option.bind_eq_bind, Option.bind_some] at h1
            split at h1
            · simp at h1
            · simp only [Option.pure_def, Option.some.injEq, Prod.mk.injEq] at h1
              omega
        exact ⟨n, hlo, hb, by rw [hp]; exact hr⟩
    | info5 | info6 | info6Ddper | info7 | info664 | info6Ex =>
      simp only [InfoKind.received] at h
      split at h
      · simp at h
      · rename_i info offset bs2 _
        obtain ⟨bs', cs, r, hpc, hp⟩ := parseBody_result h
        first
        | (have hr := parseClients_mask_other _ _ (by decide) _ _ _ _ _ _ _ hpc
           simp only [hp]
           simpa using hr)
        | (obtain ⟨n, h1, h2, h3⟩ := parseClients_mask_legacy hs _ _ _ _ _ _ _ _ hpc
           refine ⟨offset, n, ?_, ?_, h3⟩
           · rw [hp]; simpa using h2
           · rw [hp]; simpa using h1)

/-! ### Legacy (dtsf) accumulation: the mask of the accumulator stays that of the first part -/

theorem mergeAll_legacy (ps : List PartialInfo) : ∀ (s : PartialInfo),
    s.info.infoVersion = .v664 →
    (∀ p ∈ ps, p.info.infoVersion = .v664 ∧ p.info.token = s.info.token ∧ s.received &&& p.received = 0 ∧
      (p.received = 0 → p.info.clients = [])) →
    mergeAll s ps = { s with info := s.info.withClients (s.info.clients ++ ps.flatMap (·.info.clients)) } := by
  induction ps with
  | nil => intro s _ _; simp [ServerInfo.withClients]
  | cons p ps ih =>
    intro s hv hps
    have hp := hps p (List.mem_cons_self)
    rw [mergeAll_cons]
    by_cases hz : p.received = 0
    · have hc := hp.2.2.2 hz
      rw [merge_known hp.2.1.symm (hv.trans hp.1.symm) (Or.inl hv) (by rw [hz]; simp)]
      rw [ih s hv (fun q hq => hps q (List.mem_cons_of_mem _ hq))]
      simp [List.flatMap_cons, hc]
    · have hnew : s.received &&& p.received ≠ p.received := by rw [hp.2.2.1]; exact fun e => hz e.symm
      rw [merge_extend hp.2.1.symm (hv.trans hp.1.symm) (Or.inl hv) hnew hp.2.2.1]
      have hne : ¬ (s.info.infoVersion = .v6Ex ∧ s.received &&& 1 = 0) := by simp [hv]
      simp only [hne, if_false]
      have := ih { s with info := s.info.withClients (s.info.clients ++ p.info.clients) } hv
        (fun q hq => hps q (List.mem_cons_of_mem _ hq))
      rw [this]
      simp [List.flatMap_cons, List.append_assoc]

/-! ### Extended (iext / iex+) accumulation -/

/-- what an `iex+` packet leaves in the info fields: everything default but version and token -/
def moreHdr (token : Int) : ServerInfo := { infoVersion := .v6Ex, token := token }

/-- abstract description of a part of an extended info: packet number (0 = main) and clients -/
structure ExPart where
  no : Nat
  clients : List ClientInfo

def exPart (hdr : ServerInfo) (e : ExPart) : PartialInfo :=
  if e.no = 0 then { info := hdr.withClients e.clients, received := 1 }
  else { info := (moreHdr hdr.token).withClients e.clients, received := 1 <<< e.no }

theorem exPart_received (hdr : ServerInfo) (e : ExPart) : (exPart hdr e).received = 2 ^ e.no := by
  unfold exPart
  split
  · rename_i h; simp [h]
  · simp [shl_one]

theorem exPart_clients (hdr : ServerInfo) (e : ExPart) : (exPart hdr e).info.clients = e.clients := by
  unfold exPart; split <;> rfl

theorem exPart_token (hdr : ServerInfo) (e : ExPart) : (exPart hdr e).info.token = hdr.token := by
  unfold exPart; split <;> rfl

theorem exPart_version (hdr : ServerInfo) (hv : hdr.infoVersion = .v6Ex) (e : ExPart) :
    (exPart hdr e).info.infoVersion = .v6Ex := by
  unfold exPart; split
  · exact hv
  · rfl

/-- the header an accumulator with mask `r` holds -/
def exHdr (hdr : ServerInfo) (r : Nat) : ServerInfo := if r = 1 then hdr else moreHdr hdr.token

/-- invariant of the accumulator after the parts `seen` (in some order) -/
structure ExInv (hdr : ServerInfo) (seen : List ExPart) (s : PartialInfo) : Prop where
  mask : ∃ e ∈ seen, s.received = 2 ^ e.no
  main : (∃ e ∈ seen, e.no = 0) → s.received = 1
  info : ∃ cs, cs.Perm (seen.flatMap (·.clients)) ∧ s.info = (exHdr hdr s.received).withClients cs

theorem exHdr_token (hdr : ServerInfo) (r : Nat) : (exHdr hdr r).token = hdr.token := by
  unfold exHdr; split <;> rfl

theorem exHdr_version (hdr : ServerInfo) (hv : hdr.infoVersion = .v6Ex) (r : Nat) : (exHdr hdr r).infoVersion = .v6Ex := by
  unfold exHdr; split
  · exact hv
  · rfl

theorem two_pow_eq_one {n : Nat} : 2 ^ n = 1 ↔ n = 0 := by
  constructor
  · intro e1
    cases n with
    | zero => rfl
    | succ k =>
      have := Nat.two_pow_pos k
      rw [Nat.pow_succ] at e1
      omega
  · intro h; simp [h]

theorem exInv_start (hdr : ServerInfo) (e : ExPart) : ExInv hdr [e] (exPart hdr e) where
  mask := ⟨e, List.mem_singleton.2 rfl, exPart_received hdr e⟩
  main := by
    rintro ⟨e', he', h0⟩
    rw [List.mem_singleton.1 he'] at h0
    rw [exPart_received, h0]
  info := by
    refine ⟨e.clients, by simp, ?_⟩
    unfold exPart exHdr
    by_cases h : e.no = 0
    · simp [h]
    · have : (1 <<< e.no) ≠ 1 := by rw [shl_one, Ne, two_pow_eq_one]; exact h
      simp [h, this]

theorem exInv_step (hdr : ServerInfo) (hv : hdr.infoVersion = .v6Ex) (seen : List ExPart) (s : PartialInfo)
    (e : ExPart) (hinv : ExInv hdr seen s) (hfresh : ∀ e' ∈ seen, e'.no ≠ e.no) :
    ExInv hdr (seen ++ [e]) (merge s (exPart hdr e)).1 := by
  obtain ⟨⟨m, hm, hmask⟩, hmain, ⟨cs, hperm, hinfo⟩⟩ := hinv
  have hne : m.no ≠ e.no := hfresh m hm
  have htok : s.info.token = (exPart hdr e).info.token := by
    rw [hinfo, exPart_token]; simp [exHdr_token]
  have hver : s.info.infoVersion = .v6Ex := by rw [hinfo]; simp [exHdr_version hdr hv]
  have hdisj : s.received &&& (exPart hdr e).received = 0 := by
    rw [hmask, exPart_received]; exact two_pow_and_ne hne
  have hnew : s.received &&& (exPart hdr e).received ≠ (exPart hdr e).received := by
    rw [hdisj, exPart_received]; exact (Nat.pos_iff_ne_zero.1 (Nat.two_pow_pos _)).symm
  rw [merge_extend htok (hver.trans (exPart_version hdr hv e).symm) (Or.inr hver) hnew hdisj]
  simp only [hver, true_and]
  by_cases hm0 : m.no = 0
  · -- the accumulator already holds the main packet: append
    have hr1 : s.received = 1 := by rw [hmask, hm0]
    have : ¬ (s.received &&& 1 = 0) := by rw [hr1]; decide
    simp only [this, if_false]
    refine ⟨⟨m, List.mem_append_left _ hm, hmask⟩, fun _ => hr1, ?_⟩
    refine ⟨cs ++ e.clients, ?_, ?_⟩
    · rw [List.flatMap_append]; simpa using hperm.append_right e.clients
    · simp only [hinfo, exPart_clients]; rfl
  · -- no main packet yet: the new part becomes the accumulator, the old clients are appended
    have : s.received &&& 1 = 0 := by rw [hmask]; exact two_pow_and_one hm0
    simp only [this, if_true]
    refine ⟨⟨e, List.mem_append_right _ (List.mem_singleton.2 rfl), exPart_received hdr e⟩, ?_, ?_⟩
    · rintro ⟨e', he', h0⟩
      rcases List.mem_append.1 he' with h | h
      · have := hmain ⟨e', h, h0⟩
        rw [hmask, two_pow_eq_one] at this
        exact absurd this hm0
      · rw [List.mem_singleton.1 h] at h0
        simp [exPart_received, h0]
    · refine ⟨e.clients ++ cs, ?_, ?_⟩
      · rw [List.flatMap_append]
        simp only [List.flatMap_cons, List.flatMap_nil, List.append_nil]
        exact List.perm_append_comm.trans (hperm.append_right e.clients)
      · simp only [exPart_clients, hinfo, withClients_clients]
        unfold exPart exHdr
        by_cases h0 : e.no = 0
        · simp [h0]
        · have : (1 <<< e.no) ≠ 1 := by rw [shl_one, Ne, two_pow_eq_one]; exact h0
          simp [h0, this]

theorem mergeAll_ex (hdr : ServerInfo) (hv : hdr.infoVersion = .v6Ex) (es : List ExPart) :
    ∀ (seen : List ExPart) (s : PartialInfo), ExInv hdr seen s →
      ((seen ++ es).map (·.no)).Nodup →
      ExInv hdr (seen ++ es) (mergeAll s (es.map (exPart hdr))) := by
  induction es with
  | nil => intro seen s h _; simpa using h
  | cons e es ih =>
    intro seen s hinv hnd
    rw [List.map_cons, mergeAll_cons]
    have hfresh : ∀ e' ∈ seen, e'.no ≠ e.no := by
      intro e' he' heq
      rw [List.map_append, List.map_cons] at hnd
      have := (List.nodup_append.1 hnd).2.2 e'.no (List.mem_map_of_mem he') e.no List.mem_cons_self
      exact this heq
    have := ih (seen ++ [e]) _ (exInv_step hdr hv seen s e hinv hfresh) (by simpa using hnd)
    simpa using this

/-! ### `get_info` -/

theorem getInfo_result (s : PartialInfo) :
    (getInfo s).2 =
      if GET_INFO_REQUIRES_MAIN = true ∧ s.info.infoVersion = .v6Ex ∧ s.received &&& 1 = 0 then none
      else if (s.info.clients.length : Int) ≠ s.info.numClients then none
      else some (s.info.withClients (sortClients s.info.clients)) := by
  unfold getInfo
  split
  · rfl
  · split <;> rfl

theorem getInfo_of_info (s : PartialInfo) (hdr : ServerInfo) (cs : List ClientInfo)
    (hinfo : s.info = hdr.withClients cs)
    (hmain : ¬ (GET_INFO_REQUIRES_MAIN = true ∧ s.info.infoVersion = .v6Ex ∧ s.received &&& 1 = 0)) :
    (getInfo s).2 = if (cs.length : Int) = hdr.numClients then some (hdr.withClients (sortClients cs)) else none := by
  rw [getInfo_result, if_neg hmain, hinfo]
  by_cases h : (cs.length : Int) = hdr.numClients
  · simp [h]
  · simp [h]

/-! ### Families: all the parts of one multi-part info -/

/-- The parts a server sends for one info. `ex = false`: legacy 64-player info (`dtsf`), every
part repeats the header and carries its clients' offset; `ex = true`: extended info, part 0 is the
main packet (`iext`), part `i > 0` an `iex+` packet with packet number `nos[i]`. -/
structure Family where
  ex : Bool
  hdr : ServerInfo
  chunks : List (List ClientInfo)
  nos : List Nat

namespace Family

def size (f : Family) : Nat := f.chunks.length
def chunk (f : Family) (i : Nat) : List ClientInfo := f.chunks.getD i []
def no (f : Family) (i : Nat) : Nat := f.nos.getD i 0
/-- client slot of the first client of part `i` -/
def offset (f : Family) (i : Nat) : Nat := ((List.range i).map fun k => (f.chunk k).length).sum

/-- part `i` as the accumulator type (what `Info664Response::parse` / `Info6ExResponse::parse` /
`Info6ExMoreResponse::parse` return for the datagram) -/
def part (f : Family) (i : Nat) : PartialInfo :=
  if f.ex then exPart f.hdr ⟨f.no i, f.chunk i⟩
  else { info := f.hdr.withClients (f.chunk i), received := rangeMask (f.offset i) (f.chunk i).length }

def allClients (f : Family) : List ClientInfo := (List.range f.size).flatMap f.chunk

/-- the complete info: the header with every client once, sorted -/
def completeInfo (f : Family) : ServerInfo := f.hdr.withClients (sortClients f.allClients)

/-- Well-formedness, as a decidable predicate. -/
def WellFormed (f : Family) : Prop :=
  0 < f.size ∧
  f.hdr.infoVersion = (if f.ex then Version.v6Ex else Version.v664) ∧
  (f.allClients.length : Int) = f.hdr.numClients ∧
  -- every part but (possibly) the main packet / a single legacy packet carries a client
  (∀ i < f.size, f.chunk i ≠ [] ∨ (i = 0 ∧ (f.ex = true ∨ f.size = 1))) ∧
  -- extended: packet numbers are distinct, below 64, and 0 exactly for the main packet
  (f.ex = true → (∀ i < f.size, (f.no i = 0 ↔ i = 0) ∧ f.no i < RECEIVED_BITS) ∧
    ∀ i < f.size, ∀ j < f.size, f.no i = f.no j → i = j) ∧
  -- legacy: one slot of the 64-bit mask per client
  (f.ex = false → f.allClients.length ≤ RECEIVED_BITS)

instance (f : Family) : Decidable f.WellFormed := by unfold WellFormed; infer_instance

/-- the accumulator after starting with part `seq[0]` and merging the others in order -/
def mergeSeq (f : Family) : List Nat → Option PartialInfo
  | [] => none
  | i :: rest => some (mergeAll (f.part i) (rest.map f.part))

/-- what `get_info` reports afterwards -/
def result (f : Family) (seq : List Nat) : Option ServerInfo :=
  match f.mergeSeq seq with
  | none => none
  | some s => (getInfo s).2

/-- every part has been received at least once -/
def Covers (f : Family) (seq : List Nat) : Prop := ∀ i < f.size, i ∈ seq

instance (f : Family) (seq : List Nat) : Decidable (f.Covers seq) := by unfold Covers; infer_instance

theorem offset_succ (f : Family) (i : Nat) : f.offset (i + 1) = f.offset i + (f.chunk i).length := by
  simp [offset, List.range_succ, List.sum_append]

theorem offset_mono (f : Family) {i j : Nat} (h : i < j) : f.offset i + (f.chunk i).length ≤ f.offset j := by
  induction j with
  | zero => omega
  | succ j ih =>
    rw [offset_succ]
    by_cases e : i = j
    · subst e; omega
    · have := ih (by omega); omega

end Family

/-! ### counting -/

theorem length_flatMap_filter {α : Type} (l : List Nat) (P : Nat → Bool) (g : Nat → List α) :
    ((l.filter P).flatMap g).length + ((l.filter (fun i => !P i)).flatMap g).length = (l.flatMap g).length := by
  induction l with
  | nil => simp
  | cons a l ih =>
    simp only [List.length_flatMap] at ih ⊢
    by_cases h : P a = true
    · simp [h]; omega
    · simp [h]; omega

theorem nodup_map_of_inj {α β : Type} (g : α → β) : ∀ (l : List α), l.Nodup →
    (∀ a ∈ l, ∀ b ∈ l, g a = g b → a = b) → (l.map g).Nodup
  | [], _, _ => by simp
  | a :: l, hnd, hinj => by
    rw [List.nodup_cons] at hnd
    rw [List.map_cons, List.nodup_cons]
    refine ⟨?_, nodup_map_of_inj g l hnd.2 (fun x hx y hy => hinj x (List.mem_cons_of_mem _ hx) y (List.mem_cons_of_mem _ hy))⟩
    intro hm
    obtain ⟨b, hb, hgb⟩ := List.mem_map.1 hm
    have := hinj a List.mem_cons_self b (List.mem_cons_of_mem _ hb) hgb.symm
    exact hnd.1 (this ▸ hb)

/-- a repetition-free sequence of part indices is, up to order, the sublist of `0..n-1` it covers -/
theorem perm_filter_range {n : Nat} {seq : List Nat} (hnd : seq.Nodup) (hr : ∀ i ∈ seq, i < n) :
    seq.Perm ((List.range n).filter (fun i => decide (i ∈ seq))) := by
  refine (List.perm_ext_iff_of_nodup hnd ((List.filter_sublist).nodup List.nodup_range)).2 ?_
  intro a
  simp only [List.mem_filter, List.mem_range, decide_eq_true_eq]
  exact ⟨fun h => ⟨hr a h, h⟩, fun h => h.2⟩

/-- clients collected from a repetition-free sequence: never more than all, and all exactly when no
part that carries clients is missing -/
theorem collected_count {α : Type} {n : Nat} {seq : List Nat} (g : Nat → List α) (hnd : seq.Nodup)
    (hr : ∀ i ∈ seq, i < n) :
    (seq.flatMap g).length = ((List.range n).flatMap g).length ↔ ∀ i < n, i ∉ seq → g i = [] := by
  have hp := (perm_filter_range hnd hr).flatMap_right g
  have hc := length_flatMap_filter (List.range n) (fun i => decide (i ∈ seq)) g
  rw [hp.length_eq]
  constructor
  · intro h i hi hni
    have h0 : (((List.range n).filter (fun i => !decide (i ∈ seq))).flatMap g).length = 0 := by omega
    have := List.flatMap_eq_nil_iff.1 (List.length_eq_zero_iff.1 h0) i
      (List.mem_filter.2 ⟨List.mem_range.2 hi, by simp [hni]⟩)
    exact this
  · intro h
    have h0 : ((List.range n).filter (fun i => !decide (i ∈ seq))).flatMap g = [] := by
      apply List.flatMap_eq_nil_iff.2
      intro i hi
      have := List.mem_filter.1 hi
      exact h i (List.mem_range.1 this.1) (by simpa using this.2)
    rw [h0] at hc
    simp only [List.length_nil, Nat.add_zero] at hc
    omega

theorem collected_perm_all {α : Type} {n : Nat} {seq : List Nat} (g : Nat → List α) (hnd : seq.Nodup)
    (hr : ∀ i ∈ seq, i < n) (hall : ∀ i < n, i ∈ seq) :
    (seq.flatMap g).Perm ((List.range n).flatMap g) := by
  have hp := (perm_filter_range hnd hr).flatMap_right g
  have : (List.range n).filter (fun i => decide (i ∈ seq)) = List.range n := by
    apply List.filter_eq_self.2
    intro i hi
    simpa using hall i (List.mem_range.1 hi)
  rw [this] at hp
  exact hp

/-! ### The merge theorem for repetition-free orders -/

theorem flatMap_map_part {α β γ : Type} (h : α → β) (g : β → List γ) (l : List α) :
    (l.map h).flatMap g = l.flatMap (fun a => g (h a)) := by
  induction l with
  | nil => rfl
  | cons a l ih => simp [List.flatMap_cons, ih]

namespace Family

theorem part_clients (f : Family) (i : Nat) : (f.part i).info.clients = f.chunk i := by
  unfold part
  split
  · exact exPart_clients _ _
  · rfl

/-- the last step, common to both versions: the accumulator holds the header and some arrangement
of the clients of the parts in `seq` -/
theorem finish (f : Family) (hwf : f.WellFormed) (seq : List Nat) (hnd : seq.Nodup) (hr : ∀ i ∈ seq, i < f.size)
    (s : PartialInfo)
    (hmain : ¬ (GET_INFO_REQUIRES_MAIN = true ∧ s.info.infoVersion = .v6Ex ∧ s.received &&& 1 = 0))
    (cs : List ClientInfo) (hperm : cs.Perm (seq.flatMap f.chunk)) (hinfo : s.info = f.hdr.withClients cs)
    (hcov : (∀ i < f.size, i ∉ seq → f.chunk i = []) ↔ f.Covers seq) :
    (getInfo s).2 = if f.Covers seq then some f.completeInfo else none := by
  rw [getInfo_of_info s f.hdr cs hinfo hmain]
  have htotal := hwf.2.2.1
  have hcount := collected_count (n := f.size) f.chunk hnd hr
  rw [hcov] at hcount
  have hlen : cs.length = (seq.flatMap f.chunk).length := hperm.length_eq
  by_cases hc : f.Covers seq
  · have h1 := hcount.2 hc
    have : (cs.length : Int) = f.hdr.numClients := by
      rw [← htotal, hlen, h1]; simp [allClients]
    have hp : cs.Perm f.allClients := hperm.trans (collected_perm_all f.chunk hnd hr hc)
    rw [if_pos this, if_pos hc]
    simp [completeInfo, sortClients_eq_of_perm hp]
  · have h1 : (seq.flatMap f.chunk).length ≠ ((List.range f.size).flatMap f.chunk).length := fun e => hc (hcount.1 e)
    have : ¬ (cs.length : Int) = f.hdr.numClients := by
      rw [← htotal, hlen]
      intro e
      exact h1 (by exact_mod_cast e)
    rw [if_neg this, if_neg hc]

theorem result_legacy (f : Family) (hwf : f.WellFormed) (hex : f.ex = false) (i0 : Nat) (rest : List Nat)
    (hnd : (i0 :: rest).Nodup) (hr : ∀ i ∈ i0 :: rest, i < f.size) :
    f.result (i0 :: rest) = if f.Covers (i0 :: rest) then some f.completeInfo else none := by
  obtain ⟨hpos, hver, htotal, hchunks, _, hslots⟩ := hwf
  have hv : f.hdr.infoVersion = .v664 := by simpa [hex] using hver
  have hpart : ∀ i, f.part i = { info := f.hdr.withClients (f.chunk i), received := rangeMask (f.offset i) (f.chunk i).length } := by
    intro i; simp [part, hex]
  have hacc := mergeAll_legacy (rest.map f.part) (f.part i0) (by rw [hpart]; exact hv) (by
    intro p hp
    obtain ⟨j, hj, rfl⟩ := List.mem_map.1 hp
    have hne : j ≠ i0 := by
      intro e; subst e
      exact (List.nodup_cons.1 hnd).1 hj
    rw [hpart, hpart]
    refine ⟨hv, rfl, ?_, ?_⟩
    · apply rangeMask_disjoint
      rcases Nat.lt_or_gt_of_ne hne with h | h
      · exact Or.inr (f.offset_mono h)
      · exact Or.inl (f.offset_mono h)
    · intro hz
      show f.chunk j = []
      by_cases hl : 0 < (f.chunk j).length
      · exact absurd hz (rangeMask_ne_zero hl)
      · exact List.length_eq_zero_iff.1 (by omega))
  unfold result mergeSeq
  simp only
  rw [hacc]
  apply f.finish ⟨hpos, hver, htotal, hchunks, by assumption, hslots⟩ (i0 :: rest) hnd hr _ ?_
    (f.chunk i0 ++ rest.flatMap f.chunk) ?_ ?_ ?_
  · simp [hpart, hv]
  · simp [List.flatMap_cons]
  · simp [hpart, flatMap_map_part]
  · constructor
    · intro h i hi
      apply Classical.byContradiction
      intro hni
      have he := h i hi hni
      rcases hchunks i hi with h1 | ⟨h0, h2⟩
      · exact h1 he
      · rcases h2 with h2 | h2
        · simp [hex] at h2
        · have := hr i0 List.mem_cons_self
          have : i0 = i := by omega
          exact hni (this ▸ List.mem_cons_self)
    · intro h i hi hni
      exact absurd (h i hi) hni

theorem result_ex (f : Family) (hwf : f.WellFormed) (hex : f.ex = true) (hreq : GET_INFO_REQUIRES_MAIN = true)
    (i0 : Nat) (rest : List Nat)
    (hnd : (i0 :: rest).Nodup) (hr : ∀ i ∈ i0 :: rest, i < f.size) :
    f.result (i0 :: rest) = if f.Covers (i0 :: rest) then some f.completeInfo else none := by
  have hwf' := hwf
  obtain ⟨hpos, hver, htotal, hchunks, hnos, _⟩ := hwf
  have hv : f.hdr.infoVersion = .v6Ex := by simpa [hex] using hver
  obtain ⟨hno, hinj⟩ := hnos hex
  have hpart : ∀ i, f.part i = exPart f.hdr ⟨f.no i, f.chunk i⟩ := by
    intro i; simp [part, hex]
  let mk : Nat → ExPart := fun i => ⟨f.no i, f.chunk i⟩
  have hmap : rest.map f.part = (rest.map mk).map (exPart f.hdr) := by
    rw [List.map_map]; apply List.map_congr_left; intro i _; exact hpart i
  have hnodup : (([mk i0] ++ rest.map mk).map (·.no)).Nodup := by
    have : ([mk i0] ++ rest.map mk).map (·.no) = (i0 :: rest).map f.no := by simp [mk]
    rw [this]
    exact nodup_map_of_inj f.no _ hnd (fun a ha b hb => hinj a (hr a ha) b (hr b hb))
  have hinv := mergeAll_ex f.hdr hv (rest.map mk) [mk i0] (exPart f.hdr (mk i0)) (exInv_start f.hdr (mk i0)) hnodup
  obtain ⟨⟨m, hm, hmask⟩, hmain, ⟨cs, hperm, hinfo⟩⟩ := hinv
  have hperm' : cs.Perm ((i0 :: rest).flatMap f.chunk) := by
    have : ([mk i0] ++ rest.map mk).flatMap (·.clients) = (i0 :: rest).flatMap f.chunk := by
      simp [mk, flatMap_map_part, List.flatMap_cons]
    rw [← this]; exact hperm
  unfold result mergeSeq
  simp only
  rw [hpart i0, hmap]
  by_cases h0 : 0 ∈ i0 :: rest
  · -- the main packet is among the parts
    have hr1 := hmain ⟨mk 0, by
      have : mk 0 ∈ (i0 :: rest).map mk := List.mem_map_of_mem h0
      simpa using this, (hno 0 hpos).1.2 rfl⟩
    apply f.finish hwf' (i0 :: rest) hnd hr _ ?_ cs hperm' ?_ ?_
    · rw [hr1]; simp
    · rw [hinfo, hr1]; simp [exHdr]
    · constructor
      · intro h i hi
        apply Classical.byContradiction
        intro hni
        have he := h i hi hni
        rcases hchunks i hi with h1 | ⟨h0', _⟩
        · exact h1 he
        · exact hni (h0' ▸ h0)
      · intro h i hi hni
        exact absurd (h i hi) hni
  · -- no main packet: never complete
    have hcov : ¬ f.Covers (i0 :: rest) := fun h => h0 (h 0 hpos)
    rw [if_neg hcov, getInfo_result]
    have hmne : m.no ≠ 0 := by
      intro e
      have : m ∈ (i0 :: rest).map mk := by simpa using hm
      obtain ⟨j, hj, rfl⟩ := List.mem_map.1 this
      have := (hno j (hr j hj)).1.1 e
      exact h0 (this ▸ hj)
    have hbit : (mergeAll (exPart f.hdr (mk i0)) ((rest.map mk).map (exPart f.hdr))).received &&& 1 = 0 := by
      rw [hmask]; exact two_pow_and_one hmne
    have hver' : (mergeAll (exPart f.hdr (mk i0)) ((rest.map mk).map (exPart f.hdr))).info.infoVersion = .v6Ex := by
      rw [hinfo]; simp [exHdr_version f.hdr hv]
    rw [if_pos ⟨hreq, hver', hbit⟩]

/-- **Repetition-free merging.** For the parts of one well-formed info taken in any order, each at
most once, `get_info` reports the complete info (header, every client once, sorted) exactly when
every part has been merged, and nothing otherwise. -/
theorem result_nodup (f : Family) (hwf : f.WellFormed) (hreq : GET_INFO_REQUIRES_MAIN = true) (seq : List Nat)
    (hne : seq ≠ []) (hr : ∀ i ∈ seq, i < f.size) (hnd : seq.Nodup) :
    f.result seq = if f.Covers seq then some f.completeInfo else none := by
  cases seq with
  | nil => exact absurd rfl hne
  | cons i0 rest =>
    cases hex : f.ex with
    | false => exact f.result_legacy hwf hex i0 rest hnd hr
    | true => exact f.result_ex hwf hex hreq i0 rest hnd hr

end Family

/-! ### Concrete families (used for non-vacuity examples and the D10 witness) -/

def clientA : ClientInfo := { name := [97], clan := [], country := 0, score := 1, flags := 0 }
def clientB : ClientInfo := { name := [98], clan := [], country := 0, score := 2, flags := 0 }

def witnessHdr (v : Version) : ServerInfo :=
  { infoVersion := v, token := 7, version := [118], name := [110], map := [109], gameType := [103],
    mapCrc := if v = .v6Ex then some 0 else none, mapSize := if v = .v6Ex then some 0 else none,
    numPlayers := 2, maxPlayers := 2, numClients := 2, maxClients := 2 }

/-- extended info announcing two clients: main packet with `a`, packet 1 with `b` -/
def witnessEx : Family := { ex := true, hdr := witnessHdr .v6Ex, chunks := [[clientA], [clientB]], nos := [0, 1] }

/-- legacy 64-player info announcing two clients: `a` at offset 0, `b` at offset 1 -/
def witnessLegacy : Family := { ex := false, hdr := witnessHdr .v664, chunks := [[clientA], [clientB]], nos := [] }

def clientC : ClientInfo := { name := [99], clan := [], country := 0, score := 3, flags := 0 }

/-- extended info announcing three clients in three packets -/
def witnessEx3 : Family :=
  { ex := true, hdr := { witnessHdr .v6Ex with numClients := 3, maxClients := 3, numPlayers := 3, maxPlayers := 3 },
    chunks := [[clientA], [clientB], [clientC]], nos := [0, 1, 2] }

/-- bytes of the datagram payloads of `witnessEx` / `witnessLegacy` (fields NUL-terminated):
`corpus/browse/finding-d10-merge-repeat.txt` -/
def nul (fields : List (List UInt8)) : List UInt8 := fields.flatMap (· ++ [0])

def witnessExMainBytes : List UInt8 :=
  nul [[55], [118], [110], [109], [48], [48], [103], [48], [50], [50], [50], [50], [], [97], [], [48], [49], [49], []]
def witnessExMoreBytes : List UInt8 := nul [[55], [49], [], [98], [], [48], [50], [49], []]
def witnessLegacy0Bytes : List UInt8 :=
  nul [[55], [118], [110], [109], [103], [48], [50], [50], [50], [50], [48], [97], [], [48], [49], [49]]
def witnessLegacy1Bytes : List UInt8 :=
  nul [[55], [118], [110], [109], [103], [48], [50], [50], [50], [50], [49], [98], [], [48], [50], [49]]

end Tw.ServerBrowse
