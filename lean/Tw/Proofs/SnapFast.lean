import Tw.Model.SnapFast
import Tw.Proofs.SnapTotal

/-! The tree-backed twins of `Tw/Model/SnapFast.lean` compute exactly what the list model computes
(unconditionally: no well-formedness hypothesis), so the driver may use them. -/
namespace Tw.Snap.Fast
open Tw.Snap Std

def Rep (f : FSnap) (m : Items) : Prop := f.map.toList = m ∧ f.dlen = dataLen m

theorem tree_sorted (t : Tree) : Sorted t.toList := by
  unfold Sorted
  rw [List.pairwise_map]
  exact (TreeMap.ordered_keys_toList (t := t)).imp (fun h => by
    exact Int.compare_eq_lt.mp h)

theorem tree_get (t : Tree) (k : Int) : t[k]? = mfind k t.toList := by
  cases h : mfind k t.toList with
  | some v =>
    have := mem_of_mfind h
    exact (TreeMap.mem_toList_iff_getElem?_eq_some).mp this
  | none =>
    cases h2 : t[k]? with
    | none => rfl
    | some v =>
      have := (TreeMap.mem_toList_iff_getElem?_eq_some (t := t)).mpr h2
      have := mfind_of_mem (tree_sorted t) this
      rw [h] at this; cases this

theorem tree_insert (t : Tree) (k : Int) (v : List Int) : (t.insert k v).toList = minsert k v t.toList := by
  apply sorted_ext (tree_sorted _) (sorted_minsert (tree_sorted t))
  intro k'
  rw [← tree_get, mfind_minsert, ← tree_get, TreeMap.getElem?_insert]
  by_cases e : k' = k
  · subst e; simp
  · have : ¬ compare k k' = .eq := by
      intro h; exact e (compare_eq_iff_eq.mp h).symm
    simp [this, e]

theorem rep_get {f : FSnap} {m : Items} (h : Rep f m) (k : Int) : f.map[k]? = mfind k m := by
  rw [tree_get, h.1]

theorem rep_size {f : FSnap} {m : Items} (h : Rep f m) : f.map.size = m.length := by
  rw [← h.1, TreeMap.length_toList]

theorem rep_sorted {f : FSnap} {m : Items} (h : Rep f m) : Sorted m := by
  rw [← h.1]; exact tree_sorted _

theorem rep_empty : Rep FSnap.empty [] := by
  constructor
  · show (∅ : Tree).toList = []
    have h := TreeMap.length_toList (t := (∅ : Tree))
    rw [TreeMap.size_emptyc] at h
    exact List.eq_nil_of_length_eq_zero h
  · rfl

theorem rep_vacantCheck {f : FSnap} {m : Items} (h : Rep f m) (size : Nat) :
    vacantCheckF f size = vacantCheck m size := by
  unfold vacantCheckF vacantCheck
  rw [rep_size h, h.2]

theorem rep_insert_new {f : FSnap} {m : Items} (h : Rep f m) {k : Int} {v : List Int} (hk : mfind k m = none) :
    Rep ⟨f.map.insert k v, f.dlen + v.length⟩ (minsert k v m) := by
  constructor
  · show (f.map.insert k v).toList = minsert k v m
    rw [tree_insert, h.1]
  · show f.dlen + v.length = dataLen (minsert k v m)
    rw [dataLen_minsert_of_none hk, h.2]

theorem rep_insert_same {f : FSnap} {m : Items} (h : Rep f m) {k : Int} {v old : List Int}
    (hk : mfind k m = some old) (hl : v.length = old.length) :
    Rep ⟨f.map.insert k v, f.dlen⟩ (minsert k v m) := by
  constructor
  · show (f.map.insert k v).toList = minsert k v m
    rw [tree_insert, h.1]
  · show f.dlen = dataLen (minsert k v m)
    rw [(minsert_replace_measure (rep_sorted h) hk hl).2, h.2]

/-! ### `addItem` and `buildFast` -/

theorem addItem_sim {f : FSnap} {s : RawSnap} (h : Rep f s.items) (k : Int) (d : List Int) :
    match f.addItem k d, s.addItem k d with
    | .ok f', .ok s' => Rep f' s'.items
    | .error e, .error e' => e = e'
    | _, _ => False := by
  unfold FSnap.addItem RawSnap.addItem
  rw [rep_get h, rep_vacantCheck h]
  cases hk : mfind k s.items with
  | some v => simp
  | none =>
    simp only
    cases hv : vacantCheck s.items d.length with
    | some e => simp
    | none => exact rep_insert_new h hk

theorem buildFastLoop_sim : ∀ (its : List (Int × List Int)) (i : Nat) (f : FSnap) (s : RawSnap), Rep f s.items →
    match buildFastLoop its i f, buildList its i s with
    | .ok f', .ok s' => Rep f' s'.items
    | .error e, .error e' => e = e'
    | _, _ => False := by
  intro its
  induction its with
  | nil => intro i f s h; exact h
  | cons p r ih =>
    obtain ⟨k, d⟩ := p
    intro i f s h
    have hs := addItem_sim h k d
    simp only [buildFastLoop, buildList]
    cases hf : f.addItem k d with
    | error e =>
      cases hl : s.addItem k d with
      | error e' => rw [hf, hl] at hs; simp only at hs; simp [hs]
      | ok s' => rw [hf, hl] at hs; exact hs.elim
    | ok f' =>
      cases hl : s.addItem k d with
      | error e' => rw [hf, hl] at hs; exact hs.elim
      | ok s' =>
        rw [hf, hl] at hs
        exact ih (i + 1) f' s' hs

/-- the tree-backed builder computes exactly what the list model computes -/
theorem buildFast_eq (its : List (Int × List Int)) : buildFast its = buildList its 0 RawSnap.empty := by
  have h := buildFastLoop_sim its 0 FSnap.empty RawSnap.empty rep_empty
  unfold buildFast
  cases hf : buildFastLoop its 0 FSnap.empty with
  | error e =>
    cases hl : buildList its 0 RawSnap.empty with
    | error e' => rw [hf, hl] at h; simp only at h; rw [h]
    | ok s' => rw [hf, hl] at h; exact h.elim
  | ok f' =>
    cases hl : buildList its 0 RawSnap.empty with
    | error e' => rw [hf, hl] at h; exact h.elim
    | ok s' =>
      rw [hf, hl] at h
      simp only [FSnap.toRaw, h.1]

/-! ### `applyDeltaFast` -/

theorem toTree_get (m : Items) (k : Int) : (toTree m)[k]? = mfind k m := by
  unfold toTree
  suffices h : ∀ (t : Tree), (m.foldl (fun t p => t.insertIfNew p.1 p.2) t)[k]? = (t[k]?).or (mfind k m) by
    rw [h ∅, TreeMap.getElem?_emptyc]; simp
  induction m with
  | nil => intro t; simp [mfind]
  | cons p r ih =>
    obtain ⟨k', v⟩ := p
    intro t
    simp only [List.foldl_cons]
    rw [ih, TreeMap.getElem?_insertIfNew]
    by_cases e : k = k'
    · subst e
      simp only [compare_eq_iff_eq, true_and, mfind, if_true]
      by_cases hm : k ∈ t
      · have := (TreeMap.mem_iff_isSome_getElem? (t := t) (a := k)).mp hm
        obtain ⟨w, hw⟩ := Option.isSome_iff_exists.mp this
        simp [hm, hw]
      · have : t[k]? = none := by
          cases h : t[k]? with
          | none => rfl
          | some w => exact absurd ((TreeMap.mem_iff_isSome_getElem? (t := t) (a := k)).mpr (by simp [h])) hm
        simp [hm, this]
    · have : ¬ compare k' k = .eq := by
        intro h; exact e (compare_eq_iff_eq.mp h).symm
      simp [this, mfind, e]

theorem copyUndeletedF_sim (deleted : List Int) : ∀ (r : Items) (f : FSnap) (out : Items) (n : Nat), Rep f out →
    match copyUndeletedF (TreeSet.ofList deleted compare) r f n, copyUndeleted deleted r out n with
    | .ok (f', n1), .ok (out', n2) => Rep f' out' ∧ n1 = n2
    | .err e, .err e' => e = e'
    | .panic p, .panic p' => p = p'
    | _, _ => False := by
  intro r
  induction r with
  | nil => intro f out n h; exact ⟨h, rfl⟩
  | cons q r ih =>
    obtain ⟨k, d⟩ := q
    intro f out n h
    simp only [copyUndeletedF, copyUndeleted, TreeSet.contains_ofList]
    by_cases hdel : deleted.contains k = true
    · rw [if_pos hdel, if_pos hdel]
      exact ih f out (n + 1) h
    · rw [if_neg hdel, if_neg hdel, rep_get h, rep_vacantCheck h]
      cases hk : mfind k out with
      | some old =>
        simp only
        by_cases hl : old.length ≠ d.length
        · rw [if_pos hl, if_pos hl]
        · rw [if_neg hl, if_neg hl]
          simp at hl
          exact ih _ _ n (rep_insert_same h hk hl.symm)
      | none =>
        simp only
        cases hv : vacantCheck out d.length with
        | some e => rfl
        | none => exact ih _ _ n (rep_insert_new h hk)

theorem applyItemDelta_length {in_ : Option (List Int)} {diff v : List Int} (h : applyItemDelta in_ diff = some v) :
    v.length = diff.length := by
  cases in_ with
  | none => simp [applyItemDelta] at h; rw [h]
  | some i =>
    simp only [applyItemDelta] at h
    split at h
    · cases h
    · rename_i hl
      simp at hl h
      rw [← h]; simp [hl]

theorem applyUpdatesF_sim (a : Items) : ∀ (upd : Items) (f : FSnap) (out : Items), Rep f out →
    match applyUpdatesF (toTree a) upd f, applyUpdates a upd out with
    | .ok f', .ok out' => Rep f' out'
    | .err e, .err e' => e = e'
    | .panic p, .panic p' => p = p'
    | _, _ => False := by
  intro upd
  induction upd with
  | nil => intro f out h; exact h
  | cons q r ih =>
    obtain ⟨k, diff⟩ := q
    intro f out h
    simp only [applyUpdatesF, applyUpdates]
    rw [rep_get h, rep_vacantCheck h, toTree_get]
    cases hk : mfind k out with
    | some old =>
      simp only
      by_cases hl : diff.length ≠ old.length
      · rw [if_pos hl, if_pos hl]
      · rw [if_neg hl, if_neg hl]
        simp at hl
        cases ha : applyItemDelta (mfind k a) diff with
        | none => rfl
        | some v =>
          simp only
          exact ih _ _ (rep_insert_same h hk (by rw [applyItemDelta_length ha, hl]))
    | none =>
      simp only
      cases hv : vacantCheck out diff.length with
      | some e => rfl
      | none =>
        simp only
        cases ha : applyItemDelta (mfind k a) diff with
        | none => rfl
        | some v =>
          simp only
          have := rep_insert_new (v := v) h hk
          rw [applyItemDelta_length ha] at this
          exact ih _ _ this

/-- the tree-backed `read_with_delta` computes exactly what the list model computes -/
theorem applyDeltaFast_eq (a : RawSnap) (d : Delta) : applyDeltaFast a d = applyDelta a d := by
  unfold applyDeltaFast applyDelta
  have h1 := copyUndeletedF_sim d.deleted a.items FSnap.empty [] 0 rep_empty
  cases hf : copyUndeletedF (TreeSet.ofList d.deleted compare) a.items FSnap.empty 0 with
  | err e =>
    cases hl : copyUndeleted d.deleted a.items [] 0 with
    | err e' => rw [hf, hl] at h1; simp only at h1; rw [h1]
    | ok x => rw [hf, hl] at h1; exact h1.elim
    | panic p => rw [hf, hl] at h1; exact h1.elim
  | panic p =>
    cases hl : copyUndeleted d.deleted a.items [] 0 with
    | err e' => rw [hf, hl] at h1; exact h1.elim
    | ok x => rw [hf, hl] at h1; exact h1.elim
    | panic p' => rw [hf, hl] at h1; simp only at h1; rw [h1]
  | ok x =>
    obtain ⟨f1, n1⟩ := x
    cases hl : copyUndeleted d.deleted a.items [] 0 with
    | err e' => rw [hf, hl] at h1; exact h1.elim
    | panic p' => rw [hf, hl] at h1; exact h1.elim
    | ok y =>
      obtain ⟨out1, n2⟩ := y
      rw [hf, hl] at h1
      obtain ⟨hr, hn⟩ := h1
      subst hn
      simp only
      have h2 := applyUpdatesF_sim a.items d.updated f1 out1 hr
      cases hf2 : applyUpdatesF (toTree a.items) d.updated f1 with
      | err e =>
        cases hl2 : applyUpdates a.items d.updated out1 with
        | err e' => rw [hf2, hl2] at h2; simp only at h2; rw [h2]
        | ok x => rw [hf2, hl2] at h2; exact h2.elim
        | panic p => rw [hf2, hl2] at h2; exact h2.elim
      | panic p =>
        cases hl2 : applyUpdates a.items d.updated out1 with
        | err e' => rw [hf2, hl2] at h2; exact h2.elim
        | ok x => rw [hf2, hl2] at h2; exact h2.elim
        | panic p' => rw [hf2, hl2] at h2; simp only at h2; rw [h2]
      | ok f2 =>
        cases hl2 : applyUpdates a.items d.updated out1 with
        | err e' => rw [hf2, hl2] at h2; exact h2.elim
        | panic p' => rw [hf2, hl2] at h2; exact h2.elim
        | ok out2 =>
          rw [hf2, hl2] at h2
          simp only [FSnap.toRaw, h2.1]


/-- twin of `Snap.readWithDelta` -/
theorem readWithDeltaFast_eq (a : Snap) (d : Delta) : readWithDeltaFast a d = a.readWithDelta d := by
  unfold readWithDeltaFast Snap.readWithDelta
  rw [applyDeltaFast_eq]
  cases applyDelta a.raw d with
  | err e => rfl
  | panic p => rfl
  | ok x =>
    obtain ⟨raw, ws⟩ := x
    simp only
    cases buildFromRaw raw with
    | err e => rfl
    | panic p => rfl
    | ok y => obtain ⟨s, ws'⟩ := y; rfl

end Tw.Snap.Fast
