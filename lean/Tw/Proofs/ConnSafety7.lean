import Tw.Proofs.ConnSafetySim
import Tw.Proofs.Conn7

/-!
# C01 for 0.7: every call of `Tw.Conn7` preserves the invariant
-/
namespace Tw.NetSim.P7
open Tw.Conn Tw.Conn7 Tw.Time Tw.NetSim

/-- the online core: fresh until the connection is online, gone once it is disconnected -/
def core (c : Conn) : Option Online :=
  match c.state with
  | .online _ _ o => some o
  | .disconnected => none
  | _ => some .new

/-- the ack `send_control` puts into a control packet -/
def ackOf : State → Nat
  | .online _ _ o => o.ack
  | _ => 0

theorem core_ack {st : State} {snd : Timeout} {o : Online} (h : core ⟨st, snd⟩ = some o) : ackOf st = o.ack := by
  cases st <;> simp [core] at h <;> subst h <;> rfl

theorem core_alive {st : State} {snd : Timeout} (h : st ≠ .disconnected) : ∃ o, core ⟨st, snd⟩ = some o := by
  cases st <;> simp [core] at h ⊢

theorem emit_ok {ps ps' : List Packet} (h : emit ps = .ok ps') : ps' = ps := by
  unfold emit at h
  split at h
  · cases h
  · split at h
    · injection h with h; exact h.symm
    · cases h

theorem view_ofFlushed (t : Nat) (fl : List Flushed) :
    (fl.map (ofFlushed t)).filterMap view = fl.map fun f => (f.ack, f.chunks) := by
  induction fl with
  | nil => rfl
  | cons f fl ih => simp [ofFlushed, view, ih]

theorem sendControlWith_ok {st : State} {ctl : Control} {tok : Nat} {ps : List Packet}
    (h : sendControlWith st ctl tok = .ok ps) : ps = [.control (ackOf st) tok ctl] := by
  unfold sendControlWith at h
  have := emit_ok h
  subst this
  cases st <;> rfl

theorem sendControl_ok {st : State} {ctl : Control} {ps : List Packet} (h : sendControl st ctl = .ok ps) :
    ∃ tok, ps = [.control (ackOf st) tok ctl] := ⟨_, sendControlWith_ok h⟩

abbrev Pr : Proto := proto7

/-- the shape of what the 0.7 calls return -/
def ret (c1 : Conn) (out : Out) (acc : Bool) : Ret Conn Packet :=
  { conn := c1, sent := out.sent, events := out.events, accepted := acc }

theorem noChunk_payloads : ∀ evs : List Event, (∀ ev ∈ evs, ∀ d v, ev ≠ .chunk d v) →
    vitalPayloads evs = [] ∧ nonvitalPayloads evs = [] := by
  intro evs
  induction evs with
  | nil => intro _; exact ⟨rfl, rfl⟩
  | cons x xs ih =>
    intro hx
    obtain ⟨a, b⟩ := ih (fun ev hev => hx ev (List.mem_cons_of_mem _ hev))
    cases x with
    | chunk d v => exact absurd rfl (hx _ (by simp) d v)
    | _ => simp [vitalPayloads, nonvitalPayloads, a, b]

variable {cfg : Cfg}

/-- nothing but control / connless datagrams, no chunk event, the online core untouched or gone -/
theorem quiet7 {e : End Pr} {c1 : Conn} {out : Out} {acc : Bool} {y : AEnd}
    (h : AInv cfg (absEnd Pr core e) y)
    (hcore : core c1 = core e.conn ∨ core c1 = none)
    (hsent : ∀ p ∈ out.sent, (∃ a b d, p = .connless a b d) ∨
      (e.conn.state ≠ .disconnected ∧ ∃ tok ctl, p = .control (ackOf e.conn.state) tok ctl))
    (hev : ∀ ev ∈ out.events, ∀ d v, ev ≠ .chunk d v) :
    AInv cfg (absEnd Pr core (e.book (ret c1 out acc) [])) y := by
  refine sim_quiet h hcore ?_ (noChunk_payloads _ hev)
  intro v hv
  obtain ⟨p, hp, hpv⟩ := List.mem_filterMap.mp hv
  simp only [ret] at hp
  rcases hsent p hp with ⟨a, b, d, rfl⟩ | ⟨hne, tok, ctl, rfl⟩
  · simp [Pr, proto7, view] at hpv
  · simp only [Pr, proto7, view, Option.some.injEq] at hpv
    subst hpv
    obtain ⟨o, ho⟩ := core_alive (snd := e.conn.send) hne
    exact ⟨rfl, o, ho, core_ack ho⟩

theorem core_online {c : Conn} {own their : Nat} {o : Online} (h : c.state = .online own their o) :
    core c = some o := by
  simp [core, h]

/-- flush / send / resend / the flush of `tick` on an online connection -/
theorem online7 {e : End Pr} {y : AEnd} (h : AInv cfg (absEnd Pr core e) y)
    {own their : Nat} {o o' : Online} (hst : e.conn.state = .online own their o) {fl : List Flushed}
    {ps : List Packet} (hem : emit (fl.map (ofFlushed their)) = .ok ps) (sub : List (Bytes × Bool))
    (hok : SendOk cfg o' (e.submittedVital ++ vitalOf sub) (e.submittedNonvital ++ nonvitalOf sub) y.del.length)
    (hfl : FlsOk e.submittedVital e.submittedNonvital o.ack fl) (hack : o'.ack = o.ack)
    (snd' : Timeout) (acc : Bool) :
    AInv cfg (absEnd Pr core (e.book (ret ⟨.online own their o', snd'⟩ { sent := ps } acc) sub)) y := by
  refine sim_send h (core_online hst) (o' := o') rfl fl ?_ ⟨rfl, rfl⟩ sub hok hfl hack
  rw [emit_ok hem]
  exact view_ofFlushed _ _

theorem sendOk_of {e : End Pr} {y : AEnd} (h : AInv cfg (absEnd Pr core e) y)
    {own their : Nat} {o : Online} (hst : e.conn.state = .online own their o) :
    SendOk cfg o e.submittedVital e.submittedNonvital y.del.length :=
  h.1.snd o (core_online hst)

theorem tickAction7 {env : Env} {e : End Pr} {y : AEnd} (h : AInv cfg (absEnd Pr core e) y)
    {c c' : Conn} {out : Out} (hc : c.state = e.conn.state) (ht : tickAction env c = .ok (c', out)) (acc : Bool) :
    AInv cfg (absEnd Pr core (e.book (ret c' out acc) [])) y := by
  obtain ⟨st, snd⟩ := c
  simp only at hc
  subst hc
  have hctl : ∀ {ctl : Control} {ps : List Packet} {snd' : Timeout}, e.conn.state ≠ .disconnected →
      sendControl e.conn.state ctl = .ok ps →
      AInv cfg (absEnd Pr core (e.book (ret ⟨e.conn.state, snd'⟩ { sent := ps } acc) [])) y := by
    intro ctl ps snd' hne hsc
    obtain ⟨tok, rfl⟩ := sendControl_ok hsc
    refine quiet7 h (Or.inl (by simp [core])) ?_ (by simp)
    intro p hp
    simp at hp; subst hp
    exact Or.inr ⟨hne, tok, _, rfl⟩
  cases hst : e.conn.state with
  | unconnected =>
    simp only [tickAction, hst] at ht
    injection ht with ht; injection ht with h1 h2; subst h1 h2
    exact quiet7 h (Or.inl (by simp [core, hst])) (by simp) (by simp)
  | disconnected =>
    simp only [tickAction, hst] at ht
    injection ht with ht; injection ht with h1 h2; subst h1 h2
    exact quiet7 h (Or.inl (by simp [core, hst])) (by simp) (by simp)
  | pendingConnect own =>
    simp only [tickAction, hst] at ht
    injection ht with ht; injection ht with h1 h2; subst h1 h2
    exact quiet7 h (Or.inl (by simp [core, hst])) (by simp) (by simp)
  | token own =>
    simp only [tickAction, hst] at ht
    split at ht
    · cases ht
    · rename_i ps hsc
      injection ht with ht; injection ht with h1 h2; subst h1 h2
      rw [← hst] at hsc ⊢
      exact hctl (by simp [hst]) hsc
  | connecting own their =>
    simp only [tickAction, hst] at ht
    split at ht
    · cases ht
    · rename_i ps hsc
      injection ht with ht; injection ht with h1 h2; subst h1 h2
      rw [← hst] at hsc ⊢
      exact hctl (by simp [hst]) hsc
  | pending own their =>
    simp only [tickAction, hst] at ht
    split at ht
    · cases ht
    · rename_i ps hsc
      injection ht with ht; injection ht with h1 h2; subst h1 h2
      rw [← hst] at hsc ⊢
      exact hctl (by simp [hst]) hsc
  | online own their o =>
    simp only [tickAction, hst] at ht
    split at ht
    · split at ht
      · cases ht
      · rename_i ps hem
        injection ht with ht; injection ht with h1 h2; subst h1 h2
        obtain ⟨a, b, c⟩ := (sendOk_of h hst).flush
        exact online7 h hst hem [] (by simpa [vitalOf, nonvitalOf] using a) b c _ acc
    · split at ht
      · cases ht
      · rename_i ps hsc
        injection ht with ht; injection ht with h1 h2; subst h1 h2
        rw [← hst] at hsc ⊢
        exact hctl (by simp [hst]) hsc

theorem absEnd_conn (e : End Pr) (c : Conn) (hcore : core c = core e.conn) :
    absEnd Pr core { e with conn := c } = absEnd Pr core e := by
  simp [absEnd, hcore, End.submittedVital, End.submittedNonvital, End.deliveredVital, End.deliveredNonvital]

theorem flsOk_nil (sub nv : List Bytes) (a : Nat) : FlsOk sub nv a [] := by
  intro f hf; simp at hf

/-- `tick_action` on a connection object that differs from the endpoint's in a way the invariant does
not see (a handshake state, the send timer) -/
theorem tickAction7' {env : Env} {e : End Pr} {y : AEnd} (h : AInv cfg (absEnd Pr core e) y)
    {c c' : Conn} {out : Out} (hcore : core c = core e.conn) (ht : tickAction env c = .ok (c', out)) :
    AInv cfg (absEnd Pr core (e.book (ret c' out false) [])) y := by
  have he' := absEnd_conn e c hcore
  rw [← he'] at h
  exact tickAction7 (e := { e with conn := c }) h rfl ht false

/-- **0.7, application calls** -/
theorem call7 (now : Nat) (draws : List Nat) (e : End Pr) (c : Call) (r : Ret Conn Packet) (y : AEnd)
    (hr : P7.call now draws e.conn c = .ok r) (h : AInv Conn7.cfg (absEnd Pr core e) y)
    (hh1 : ∀ d, c = .send d true → ∀ o, P7.online e.conn = some o → o.resendQueue.length < 512) :
    AInv Conn7.cfg (absEnd Pr core (e.book r (subOf c r))) y := by
  cases c with
  | connect =>
    simp only [P7.call] at hr
    split at hr
    · cases hr
    · rename_i c1 out hcon
      injection hr with hr; subst hr
      unfold connect at hcon
      cases hst : e.conn.state with
      | unconnected =>
        simp only [hst] at hcon
        split at hcon
        · cases hcon
        · exact tickAction7' h (by simp [core, hst]) hcon
      | _ => simp [hst] at hcon
  | send d v =>
    simp only [P7.call] at hr
    split at hr
    · cases hr
    · rename_i c1 res out hsend
      injection hr with hr; subst hr
      unfold Conn7.send at hsend
      cases hst : e.conn.state with
      | online own their o =>
        simp only [hst] at hsend
        split at hsend
        · cases hsend
        · rename_i o1 res' fl hos
          split at hsend
          · cases hsend
          · rename_i ps hem
            injection hsend with hsend; injection hsend with e1 e2; injection e2 with e2 e3
            subst e1 e2 e3
            have hso := sendOk_of h hst
            rcases hso.send Conn7.cfg_ok hos with ⟨r1, r2, r3⟩ | ⟨r1, r2, r3, r4, r5⟩
            · subst r1 r2 r3
              exact online7 h hst hem [] (by simpa [vitalOf, nonvitalOf] using hso) (flsOk_nil _ _ _) rfl _ _
            · subst r1
              cases v with
              | false =>
                exact online7 h hst hem [(d, false)] (by simpa [vitalOf, nonvitalOf] using r4 rfl) r2 r3 _ _
              | true =>
                have hq := hh1 d rfl o (by simp [P7.online, hst])
                exact online7 h hst hem [(d, true)] (by simpa [vitalOf, nonvitalOf] using r5 rfl hq) r2 r3 _ _
      | _ => simp [hst] at hsend
  | sendConnless d =>
    simp only [P7.call] at hr
    split at hr
    · cases hr
    · rename_i c1 res out hsend
      injection hr with hr; subst hr
      unfold Conn7.sendConnless at hsend
      cases hst : e.conn.state with
      | online own their o =>
        simp only [hst] at hsend
        split at hsend
        · injection hsend with hsend; injection hsend with e1 e2; injection e2 with e2 e3
          subst e1 e2 e3
          exact quiet7 h (Or.inl (by simp [core, hst])) (by simp) (by simp)
        · split at hsend
          · cases hsend
          · rename_i ps hem
            injection hsend with hsend; injection hsend with e1 e2; injection e2 with e2 e3
            subst e1 e2 e3
            have := emit_ok hem; subst this
            exact quiet7 h (Or.inl (by simp [core, hst]))
              (by intro p hp; simp at hp; exact Or.inl ⟨_, _, _, hp⟩) (by simp)
      | _ => simp [hst] at hsend
  | flush =>
    simp only [P7.call] at hr
    split at hr
    · cases hr
    · rename_i c1 out hfl
      injection hr with hr; subst hr
      unfold Conn7.flush at hfl
      cases hst : e.conn.state with
      | online own their o =>
        simp only [hst] at hfl
        split at hfl
        · cases hfl
        · rename_i ps hem
          injection hfl with hfl; injection hfl with e1 e2; subst e1 e2
          obtain ⟨a, b, c⟩ := (sendOk_of h hst).flush
          exact online7 h hst hem [] (by simpa [vitalOf, nonvitalOf] using a) b c _ _
      | _ => simp [hst] at hfl
  | tick =>
    simp only [P7.call] at hr
    split at hr
    · cases hr
    · rename_i c1 out htick
      injection hr with hr; subst hr
      unfold Conn7.tick at htick
      have hidle : ∀ {snd : Timeout}, tickAction ⟨now, draws⟩ ⟨e.conn.state, snd⟩ = .ok (c1, out) →
          AInv Conn7.cfg (absEnd Pr core (e.book (ret c1 out false) [])) y :=
        fun ht => tickAction7' h (by simp [core]) ht
      cases hst : e.conn.state with
      | online own their o =>
        simp only [hst] at htick
        split at htick
        · unfold resendConn at htick
          split at htick
          · cases htick
          · rename_i o1 send1 fl hrs
            split at htick
            · cases htick
            · rename_i ps hem
              injection htick with htick; injection htick with e1 e2; subst e1 e2
              obtain ⟨a, b, c⟩ := (sendOk_of h hst).resend Conn7.cfg_ok hrs
              exact online7 h hst hem [] (by simpa [vitalOf, nonvitalOf] using a) b c _ _
        · split at htick
          · rw [← hst] at htick; exact hidle htick
          · injection htick with htick; injection htick with e1 e2; subst e1 e2
            exact quiet7 h (Or.inl rfl) (by simp) (by simp)
      | _ =>
        simp only [hst, Bool.false_eq_true, if_false] at htick
        split at htick
        · rw [← hst] at htick; exact hidle htick
        · injection htick with htick; injection htick with e1 e2; subst e1 e2
          exact quiet7 h (Or.inl rfl) (by simp) (by simp)
  | disconnect reason =>
    simp only [P7.call] at hr
    split at hr
    · cases hr
    · rename_i c1 out hdis
      injection hr with hr; subst hr
      unfold Conn7.disconnect at hdis
      split at hdis
      · cases hdis
      · rename_i hne
        split at hdis
        · cases hdis
        · split at hdis
          · cases hdis
          · rename_i ps hsc
            injection hdis with hdis; injection hdis with e1 e2; subst e1 e2
            obtain ⟨tok, rfl⟩ := sendControl_ok hsc
            refine quiet7 h (Or.inr (by simp [core])) ?_ (by simp)
            intro p hp
            simp at hp; subst hp
            refine Or.inr ⟨?_, tok, _, rfl⟩
            intro hd
            exact hne hd

/-! ## deliveries -/

/-- `feed` for a connected packet, after the token check and `ack_chunks` -/
theorem feedBody7 {env : Env} {e peer : End Pr} {dg : Sent Packet} (hdg : dg ∈ peer.out)
    (h : AInv Conn7.cfg (absEnd Pr core e) (absEnd Pr core peer))
    (h2 : ∀ ack cs, view dg.pkt = some (ack, cs) →
      ∀ c ∈ cs, ∀ s r', c.vital = some (s, r') → e.dAbs + 1 < unwrap dg.nStamp s + 1024)
    {c1 : Conn} {out : Out} (hf : feedBody env e.conn dg.pkt = .ok (c1, out)) :
    AInv Conn7.cfg (absEnd Pr core (e.book (ret c1 out false) [])) (absEnd Pr core peer) := by
  have hnoop : ∀ (evs : List Event), (∀ ev ∈ evs, ∀ d v, ev ≠ .chunk d v) →
      feedBody env e.conn dg.pkt = .ok (e.conn, { events := evs }) →
      AInv Conn7.cfg (absEnd Pr core (e.book (ret c1 out false) [])) (absEnd Pr core peer) := by
    intro evs hevs hq
    rw [hq] at hf
    injection hf with hf; injection hf with e1 e2; subst e1 e2
    exact quiet7 h (Or.inl rfl) (by simp) hevs
  cases hq : dg.pkt with
  | connless a b d => rw [hq] at hf hnoop; exact hnoop [] (by simp) (by simp [feedBody])
  | chunks ack tk rr n cs =>
    rw [hq] at hf hnoop
    have hv' : view dg.pkt = some (ack, cs) := by rw [hq]; rfl
    have hrecv : ∀ (own their : Nat) (o : Online), core e.conn = some o →
        (match o.receive Conn7.cfg env.now e.conn.send rr cs with
          | .error e => .error e
          | .ok (o1, send1, fl, evs) =>
            match emit (fl.map (ofFlushed their)) with
            | .error e => .error e
            | .ok ps => .ok (⟨.online own their o1, send1⟩, { sent := ps, events := evs })) = Except.ok (c1, out) →
        AInv Conn7.cfg (absEnd Pr core (e.book (ret c1 out false) [])) (absEnd Pr core peer) := by
      intro own their o hx hk
      split at hk
      · cases hk
      · rename_i o1 send1 fl evs hrc
        split at hk
        · cases hk
        · rename_i ps hem
          injection hk with hk; injection hk with e1 e2; subst e1 e2
          refine sim_recv Conn7.cfg_ok hdg h hv' hx hrc (h2 ack cs hv') (o2 := o1) rfl ?_ rfl
          simp only [ret]
          rw [emit_ok hem]
          exact view_ofFlushed _ _
    cases hst : e.conn.state with
    | online own their o => simp only [feedBody, hst] at hf; exact hrecv own their o (core_online hst) hf
    | pending own their => simp only [feedBody, hst] at hf; exact hrecv own their .new (by simp [core, hst]) hf
    | unconnected => exact hnoop [] (by simp) (by simp [feedBody, hst])
    | token own => exact hnoop [] (by simp) (by simp [feedBody, hst])
    | pendingConnect own => exact hnoop [] (by simp) (by simp [feedBody, hst])
    | connecting own their => exact hnoop [] (by simp) (by simp [feedBody, hst])
    | disconnected => exact hnoop [] (by simp) (by simp [feedBody, hst])
  | control ack tk ctl =>
    rw [hq] at hf hnoop
    cases ctl with
    | keepAlive => exact hnoop [] (by simp) (by simp [feedBody])
    | close reason =>
      simp only [feedBody] at hf
      injection hf with hf; injection hf with e1 e2; subst e1 e2
      exact quiet7 h (Or.inr (by simp [core])) (by simp) (by simp)
    | accept =>
      cases hst : e.conn.state with
      | connecting own their =>
        simp only [feedBody, hst] at hf
        injection hf with hf; injection hf with e1 e2; subst e1 e2
        exact quiet7 h (Or.inl (by simp [core, hst])) (by simp) (by simp)
      | online own their o => exact hnoop [] (by simp) (by simp [feedBody, hst])
      | pending own their => exact hnoop [] (by simp) (by simp [feedBody, hst])
      | unconnected => exact hnoop [] (by simp) (by simp [feedBody, hst])
      | token own => exact hnoop [] (by simp) (by simp [feedBody, hst])
      | pendingConnect own => exact hnoop [] (by simp) (by simp [feedBody, hst])
      | disconnected => exact hnoop [] (by simp) (by simp [feedBody, hst])
    | connect their =>
      cases hst : e.conn.state with
      | pendingConnect own =>
        simp only [feedBody, hst] at hf
        exact tickAction7' h (by simp [core, hst]) hf
      | online own their o => exact hnoop [] (by simp) (by simp [feedBody, hst])
      | pending own their => exact hnoop [] (by simp) (by simp [feedBody, hst])
      | unconnected => exact hnoop [] (by simp) (by simp [feedBody, hst])
      | token own => exact hnoop [] (by simp) (by simp [feedBody, hst])
      | connecting own their => exact hnoop [] (by simp) (by simp [feedBody, hst])
      | disconnected => exact hnoop [] (by simp) (by simp [feedBody, hst])
    | token their =>
      cases hst : e.conn.state with
      | unconnected =>
        cases htk : tokenRandom env.draws with
        | none => simp [feedBody, hst, htk] at hf
        | some t0 =>
          simp only [feedBody, hst, htk] at hf
          split at hf
          · cases hf
          · rename_i ps hsc
            injection hf with hf; injection hf with e1 e2; subst e1 e2
            have := sendControlWith_ok hsc; subst this
            refine quiet7 h (Or.inl (by simp [core, hst])) ?_ (by simp)
            intro p hp
            simp at hp; subst hp
            exact Or.inr ⟨by simp [hst], _, _, by rw [hst]; rfl⟩
      | pendingConnect own =>
        simp only [feedBody, hst] at hf
        split at hf
        · cases hf
        · rename_i ps hsc
          injection hf with hf; injection hf with e1 e2; subst e1 e2
          have := sendControlWith_ok hsc; subst this
          refine quiet7 h (Or.inl (by simp [core, hst])) ?_ (by simp)
          intro p hp
          simp at hp; subst hp
          exact Or.inr ⟨by simp [hst], _, _, by rw [hst]⟩
      | token own =>
        simp only [feedBody, hst] at hf
        exact tickAction7' h (by simp [core, hst]) hf
      | online own their o => exact hnoop [] (by simp) (by simp [feedBody, hst])
      | pending own their => exact hnoop [] (by simp) (by simp [feedBody, hst])
      | connecting own their => exact hnoop [] (by simp) (by simp [feedBody, hst])
      | disconnected => exact hnoop [] (by simp) (by simp [feedBody, hst])

/-- **0.7, deliveries** -/
theorem recv7 (now : Nat) (draws : List Nat) (e peer : End Pr) (dg : Sent Packet) (alt : Unit)
    (r : Ret Conn Packet) (hdg : dg ∈ peer.out) (hr : P7.recv now draws e.conn dg.pkt alt = .ok r)
    (h : AInv Conn7.cfg (absEnd Pr core e) (absEnd Pr core peer))
    (h2 : ∀ ack cs, view dg.pkt = some (ack, cs) → e.nAbs < unwrap dg.dStamp ack + 1024 ∧
      ∀ c ∈ cs, ∀ s r', c.vital = some (s, r') → e.dAbs + 1 < unwrap dg.nStamp s + 1024) :
    AInv Conn7.cfg (absEnd Pr core (e.book r [])) (absEnd Pr core peer) := by
  unfold P7.recv at hr
  split at hr
  · cases hr
  · rename_i c1 out hf
    injection hr with hr; subst hr
    show AInv Conn7.cfg (absEnd Pr core (e.book (ret c1 out false) [])) (absEnd Pr core peer)
    have h2c : ∀ ack cs, view dg.pkt = some (ack, cs) →
        ∀ c ∈ cs, ∀ s r', c.vital = some (s, r') → e.dAbs + 1 < unwrap dg.nStamp s + 1024 :=
      fun ack cs hv => (h2 ack cs hv).2
    have hquiet : ∀ (o : Out), o.sent = [] → (∀ ev ∈ o.events, ∀ d v, ev ≠ .chunk d v) →
        (Except.ok (e.conn, o) : Res) = Except.ok (c1, out) →
        AInv Conn7.cfg (absEnd Pr core (e.book (ret c1 out false) [])) (absEnd Pr core peer) := by
      intro o hs hev hk
      injection hk with hk; injection hk with e1 e2; subst e1 e2
      exact quiet7 h (Or.inl rfl) (by simp [hs]) hev
    -- the ack is processed on an online connection, then the body
    have hbody : ∀ (ack : Nat) (cs : List Chunk), view dg.pkt = some (ack, cs) →
        (match e.conn.state with
          | .online own their o =>
            match o.feedAck ack with
            | .error e => .error e
            | .ok o1 => feedBody ⟨now, draws⟩ { e.conn with state := .online own their o1 } dg.pkt
          | _ => feedBody ⟨now, draws⟩ e.conn dg.pkt) = Except.ok (c1, out) →
        AInv Conn7.cfg (absEnd Pr core (e.book (ret c1 out false) [])) (absEnd Pr core peer) := by
      intro ack cs hvd hk
      cases hst : e.conn.state with
      | online own their o =>
        simp only [hst] at hk
        split at hk
        · cases hk
        · rename_i o1 hfa
          have h1 := sim_ack hdg h (P := Pr) (core := core) hvd (core_online hst) hfa (h2 ack cs hvd).1
            { e.conn with state := .online own their o1 } rfl
          exact feedBody7 (e := { e with conn := { e.conn with state := .online own their o1 } }) hdg h1 h2c hk
      | unconnected => simp only [hst] at hk; exact feedBody7 hdg h h2c hk
      | token own => simp only [hst] at hk; exact feedBody7 hdg h h2c hk
      | pendingConnect own => simp only [hst] at hk; exact feedBody7 hdg h h2c hk
      | connecting own their => simp only [hst] at hk; exact feedBody7 hdg h h2c hk
      | pending own their => simp only [hst] at hk; exact feedBody7 hdg h h2c hk
      | disconnected => simp only [hst] at hk; exact feedBody7 hdg h h2c hk
    unfold feed at hf
    cases hq : dg.pkt with
    | connless a b d =>
      rw [hq] at hf
      simp only at hf
      split at hf
      · exact hquiet _ rfl (by simp) hf
      · split at hf
        · exact hquiet _ rfl (by simp) hf
        · exact hquiet _ rfl (by simp) hf
    | control ack tk ctl =>
      rw [hq] at hf
      simp only at hf
      split at hf
      · exact hquiet _ rfl (by simp) hf
      · rw [← hq] at hf
        exact hbody ack [] (by rw [hq]; rfl) hf
    | chunks ack tk rr n cs =>
      rw [hq] at hf
      simp only at hf
      split at hf
      · exact hquiet _ rfl (by simp) hf
      · rw [← hq] at hf
        exact hbody ack cs (by rw [hq]; rfl) hf

theorem sim7 : Sim proto7 core Conn7.cfg where
  init := rfl
  call := fun now draws e c r y hr h hh1 => call7 now draws e c r y hr h hh1
  recv := fun now draws e peer dg alt r hdg hr h h2 => recv7 now draws e peer dg alt r hdg hr h h2

/-! ## the handshake clause -/

/-- online or disconnected: the connection never reports `Ready` (again) -/
def late (c : Conn) : Bool :=
  match c.state with
  | .online _ _ _ => true
  | .disconnected => true
  | _ => false

theorem tickAction_hs {env : Env} {c c' : Conn} {out : Out} (ht : tickAction env c = .ok (c', out)) :
    out.events = [] ∧ late c' = late c := by
  obtain ⟨st, snd⟩ := c
  cases st <;> simp only [tickAction] at ht
  case unconnected => injection ht with ht; injection ht with h1 h2; subst h1 h2; exact ⟨rfl, rfl⟩
  case disconnected => injection ht with ht; injection ht with h1 h2; subst h1 h2; exact ⟨rfl, rfl⟩
  case pendingConnect own => injection ht with ht; injection ht with h1 h2; subst h1 h2; exact ⟨rfl, rfl⟩
  case token own =>
    split at ht
    · cases ht
    · injection ht with ht; injection ht with h1 h2; subst h1 h2; exact ⟨rfl, rfl⟩
  case connecting own their =>
    split at ht
    · cases ht
    · injection ht with ht; injection ht with h1 h2; subst h1 h2; exact ⟨rfl, rfl⟩
  case pending own their =>
    split at ht
    · cases ht
    · injection ht with ht; injection ht with h1 h2; subst h1 h2; exact ⟨rfl, rfl⟩
  case online own their o =>
    split at ht
    · split at ht
      · cases ht
      · injection ht with ht; injection ht with h1 h2; subst h1 h2; exact ⟨rfl, rfl⟩
    · split at ht
      · cases ht
      · injection ht with ht; injection ht with h1 h2; subst h1 h2; exact ⟨rfl, rfl⟩

theorem hs_call7 (now : Nat) (draws : List Nat) (c : Conn) (cl : Call) (r : Ret Conn Packet)
    (hr : P7.call now draws c cl = .ok r) : readyCount r.events = 0 ∧ (late c = true → late r.conn = true) := by
  cases cl with
  | connect =>
    simp only [P7.call] at hr
    split at hr
    · cases hr
    · rename_i c1 out hcon
      injection hr with hr; subst hr
      unfold connect at hcon
      cases hst : c.state with
      | unconnected =>
        simp only [hst] at hcon
        split at hcon
        · cases hcon
        · obtain ⟨a, b⟩ := tickAction_hs hcon
          simp only [a, readyCount, true_and]
          intro hl; simp [late, hst] at hl
      | _ => simp [hst] at hcon
  | send d v =>
    simp only [P7.call] at hr
    split at hr
    · cases hr
    · rename_i c1 res out hsend
      injection hr with hr; subst hr
      unfold Conn7.send at hsend
      cases hst : c.state with
      | online own their o =>
        simp only [hst] at hsend
        split at hsend
        · cases hsend
        · split at hsend
          · cases hsend
          · injection hsend with hsend; injection hsend with e1 e2; injection e2 with e2 e3
            subst e1 e2 e3
            exact ⟨rfl, fun _ => rfl⟩
      | _ => simp [hst] at hsend
  | sendConnless d =>
    simp only [P7.call] at hr
    split at hr
    · cases hr
    · rename_i c1 res out hsend
      injection hr with hr; subst hr
      unfold Conn7.sendConnless at hsend
      cases hst : c.state with
      | online own their o =>
        simp only [hst] at hsend
        split at hsend
        · injection hsend with hsend; injection hsend with e1 e2; injection e2 with e2 e3
          subst e1 e2 e3
          exact ⟨rfl, fun _ => rfl⟩
        · split at hsend
          · cases hsend
          · injection hsend with hsend; injection hsend with e1 e2; injection e2 with e2 e3
            subst e1 e2 e3
            exact ⟨rfl, fun _ => rfl⟩
      | _ => simp [hst] at hsend
  | flush =>
    simp only [P7.call] at hr
    split at hr
    · cases hr
    · rename_i c1 out hfl
      injection hr with hr; subst hr
      unfold Conn7.flush at hfl
      cases hst : c.state with
      | online own their o =>
        simp only [hst] at hfl
        split at hfl
        · cases hfl
        · injection hfl with hfl; injection hfl with e1 e2; subst e1 e2
          exact ⟨rfl, fun _ => rfl⟩
      | _ => simp [hst] at hfl
  | tick =>
    simp only [P7.call] at hr
    split at hr
    · cases hr
    · rename_i c1 out htick
      injection hr with hr; subst hr
      unfold Conn7.tick at htick
      have hidle : ∀ {snd : Timeout}, tickAction ⟨now, draws⟩ ⟨c.state, snd⟩ = .ok (c1, out) →
          readyCount out.events = 0 ∧ (late c = true → late c1 = true) := by
        intro snd ht
        obtain ⟨a, b⟩ := tickAction_hs ht
        rw [a, b]
        exact ⟨rfl, fun hl => hl⟩
      cases hst : c.state with
      | online own their o =>
        simp only [hst] at htick
        split at htick
        · unfold resendConn at htick
          split at htick
          · cases htick
          · split at htick
            · cases htick
            · injection htick with htick; injection htick with e1 e2; subst e1 e2
              exact ⟨rfl, fun _ => rfl⟩
        · split at htick
          · rw [← hst] at htick; exact hidle htick
          · injection htick with htick; injection htick with e1 e2; subst e1 e2
            exact ⟨rfl, fun hl => hl⟩
      | _ =>
        simp only [hst, Bool.false_eq_true, if_false] at htick
        split at htick
        · rw [← hst] at htick; exact hidle htick
        · injection htick with htick; injection htick with e1 e2; subst e1 e2
          exact ⟨rfl, fun hl => hl⟩
  | disconnect reason =>
    simp only [P7.call] at hr
    split at hr
    · cases hr
    · rename_i c1 out hdis
      injection hr with hr; subst hr
      unfold Conn7.disconnect at hdis
      split at hdis
      · cases hdis
      · split at hdis
        · cases hdis
        · split at hdis
          · cases hdis
          · injection hdis with hdis; injection hdis with e1 e2; subst e1 e2
            exact ⟨rfl, fun _ => rfl⟩

/-- `feed` after the token check: `Ready` is reported only for the peer's `Accept`, by a connection
that is `Connecting` and goes online -/
theorem feedBody_hs {env : Env} {c c1 : Conn} {q : Packet} {out : Out}
    (hf : feedBody env c q = .ok (c1, out)) :
    (late c = true → late c1 = true ∧ readyCount out.events = 0) ∧
    (readyCount out.events = 0 ∨ (readyCount out.events = 1 ∧ late c1 = true ∧ isAccept q = true)) := by
  have hnoop : ∀ (evs : List Event), readyCount evs = 0 →
      feedBody env c q = .ok (c, { events := evs }) →
      (late c = true → late c1 = true ∧ readyCount out.events = 0) ∧
      (readyCount out.events = 0 ∨ (readyCount out.events = 1 ∧ late c1 = true ∧ isAccept q = true)) := by
    intro evs hevs hq
    rw [hq] at hf
    injection hf with hf; injection hf with e1 e2; subst e1 e2
    exact ⟨fun hl => ⟨hl, hevs⟩, Or.inl hevs⟩
  have htick : ∀ {c0 : Conn}, late c = false → tickAction env c0 = .ok (c1, out) →
      (late c = true → late c1 = true ∧ readyCount out.events = 0) ∧
      (readyCount out.events = 0 ∨ (readyCount out.events = 1 ∧ late c1 = true ∧ isAccept q = true)) := by
    intro c0 hl ht
    obtain ⟨a, _⟩ := tickAction_hs ht
    rw [a]
    exact ⟨fun hl' => (by rw [hl] at hl'; cases hl'), Or.inl rfl⟩
  cases q with
  | connless a b d => exact hnoop [] rfl (by simp [feedBody])
  | chunks ack tk rr n cs =>
    have hrecv : ∀ (own their : Nat) (o : Online),
        (match o.receive Conn7.cfg env.now c.send rr cs with
          | .error e => .error e
          | .ok (o1, send1, fl, evs) =>
            match emit (fl.map (ofFlushed their)) with
            | .error e => .error e
            | .ok ps => .ok (⟨.online own their o1, send1⟩, { sent := ps, events := evs })) = Except.ok (c1, out) →
        (late c = true → late c1 = true ∧ readyCount out.events = 0) ∧
        (readyCount out.events = 0 ∨ (readyCount out.events = 1 ∧ late c1 = true ∧
          isAccept (Packet.chunks ack tk rr n cs) = true)) := by
      intro own their o hk
      split at hk
      · cases hk
      · rename_i o1 send1 fl evs hrc
        split at hk
        · cases hk
        · injection hk with hk; injection hk with e1 e2; subst e1 e2
          have := readyCount_receive hrc
          exact ⟨fun _ => ⟨rfl, this⟩, Or.inl this⟩
    cases hst : c.state with
    | online own their o => simp only [feedBody, hst] at hf; exact hrecv own their o hf
    | pending own their => simp only [feedBody, hst] at hf; exact hrecv own their .new hf
    | unconnected => exact hnoop [] rfl (by simp [feedBody, hst])
    | token own => exact hnoop [] rfl (by simp [feedBody, hst])
    | pendingConnect own => exact hnoop [] rfl (by simp [feedBody, hst])
    | connecting own their => exact hnoop [] rfl (by simp [feedBody, hst])
    | disconnected => exact hnoop [] rfl (by simp [feedBody, hst])
  | control ack tk ctl =>
    cases ctl with
    | keepAlive => exact hnoop [] rfl (by simp [feedBody])
    | close reason =>
      simp only [feedBody] at hf
      injection hf with hf; injection hf with e1 e2; subst e1 e2
      exact ⟨fun _ => ⟨rfl, rfl⟩, Or.inl rfl⟩
    | accept =>
      cases hst : c.state with
      | connecting own their =>
        simp only [feedBody, hst] at hf
        injection hf with hf; injection hf with e1 e2; subst e1 e2
        exact ⟨fun hl => by simp [late, hst] at hl, Or.inr ⟨rfl, rfl, rfl⟩⟩
      | online own their o => exact hnoop [] rfl (by simp [feedBody, hst])
      | pending own their => exact hnoop [] rfl (by simp [feedBody, hst])
      | unconnected => exact hnoop [] rfl (by simp [feedBody, hst])
      | token own => exact hnoop [] rfl (by simp [feedBody, hst])
      | pendingConnect own => exact hnoop [] rfl (by simp [feedBody, hst])
      | disconnected => exact hnoop [] rfl (by simp [feedBody, hst])
    | connect their =>
      cases hst : c.state with
      | pendingConnect own =>
        simp only [feedBody, hst] at hf
        exact htick (by simp [late, hst]) hf
      | online own their o => exact hnoop [] rfl (by simp [feedBody, hst])
      | pending own their => exact hnoop [] rfl (by simp [feedBody, hst])
      | unconnected => exact hnoop [] rfl (by simp [feedBody, hst])
      | token own => exact hnoop [] rfl (by simp [feedBody, hst])
      | connecting own their => exact hnoop [] rfl (by simp [feedBody, hst])
      | disconnected => exact hnoop [] rfl (by simp [feedBody, hst])
    | token their =>
      cases hst : c.state with
      | unconnected =>
        cases htk : tokenRandom env.draws with
        | none => simp [feedBody, hst, htk] at hf
        | some t0 =>
          simp only [feedBody, hst, htk] at hf
          split at hf
          · cases hf
          · injection hf with hf; injection hf with e1 e2; subst e1 e2
            exact ⟨fun hl => by simp [late, hst] at hl, Or.inl rfl⟩
      | pendingConnect own =>
        simp only [feedBody, hst] at hf
        split at hf
        · cases hf
        · injection hf with hf; injection hf with e1 e2; subst e1 e2
          exact ⟨fun hl => by simp [late, hst] at hl, Or.inl rfl⟩
      | token own =>
        simp only [feedBody, hst] at hf
        exact htick (by simp [late, hst]) hf
      | online own their o => exact hnoop [] rfl (by simp [feedBody, hst])
      | pending own their => exact hnoop [] rfl (by simp [feedBody, hst])
      | connecting own their => exact hnoop [] rfl (by simp [feedBody, hst])
      | disconnected => exact hnoop [] rfl (by simp [feedBody, hst])

theorem hs_recv7 (now : Nat) (draws : List Nat) (c : Conn) (p : Packet) (alt : Unit) (r : Ret Conn Packet)
    (hr : P7.recv now draws c p alt = .ok r) :
    (late c = true → late r.conn = true ∧ readyCount r.events = 0) ∧
    (readyCount r.events = 0 ∨ (readyCount r.events = 1 ∧ late r.conn = true ∧ isAccept p = true)) := by
  unfold P7.recv at hr
  split at hr
  · cases hr
  · rename_i c1 out hf
    injection hr with hr; subst hr
    simp only
    have hquiet : ∀ (o : Out), readyCount o.events = 0 → (Except.ok (c, o) : Res) = Except.ok (c1, out) →
        (late c = true → late c1 = true ∧ readyCount out.events = 0) ∧
        (readyCount out.events = 0 ∨ (readyCount out.events = 1 ∧ late c1 = true ∧ isAccept p = true)) := by
      intro o ho hk
      injection hk with hk; injection hk with e1 e2; subst e1 e2
      exact ⟨fun hl => ⟨hl, ho⟩, Or.inl ho⟩
    have hbody : ∀ (ack : Nat),
        (match c.state with
          | .online own their o =>
            match o.feedAck ack with
            | .error e => .error e
            | .ok o1 => feedBody ⟨now, draws⟩ { c with state := .online own their o1 } p
          | _ => feedBody ⟨now, draws⟩ c p) = Except.ok (c1, out) →
        (late c = true → late c1 = true ∧ readyCount out.events = 0) ∧
        (readyCount out.events = 0 ∨ (readyCount out.events = 1 ∧ late c1 = true ∧ isAccept p = true)) := by
      intro ack hk
      cases hst : c.state with
      | online own their o =>
        simp only [hst] at hk
        split at hk
        · cases hk
        · obtain ⟨a, b⟩ := feedBody_hs hk
          exact ⟨fun _ => a rfl, b⟩
      | unconnected => simp only [hst] at hk; exact feedBody_hs hk
      | token own => simp only [hst] at hk; exact feedBody_hs hk
      | pendingConnect own => simp only [hst] at hk; exact feedBody_hs hk
      | connecting own their => simp only [hst] at hk; exact feedBody_hs hk
      | pending own their => simp only [hst] at hk; exact feedBody_hs hk
      | disconnected => simp only [hst] at hk; exact feedBody_hs hk
    unfold feed at hf
    cases p with
    | connless a b d =>
      simp only at hf
      split at hf
      · exact hquiet _ rfl hf
      · split at hf
        · exact hquiet _ rfl hf
        · exact hquiet _ rfl hf
    | control ack tk ctl =>
      simp only at hf
      split at hf
      · exact hquiet _ rfl hf
      · exact hbody ack hf
    | chunks ack tk rr n cs =>
      simp only at hf
      split at hf
      · exact hquiet _ rfl hf
      · exact hbody ack hf

theorem hs7 : Hs proto7 late where
  call := fun now draws c cl r hr => hs_call7 now draws c cl r hr
  recv := fun now draws c p alt r hr => hs_recv7 now draws c p alt r hr

end Tw.NetSim.P7
