import Tw.Proofs.Packet6Write
import Tw.Proofs.Packet7Write

/-! The two-step path `decompress_if_needed` → `read_panic_on_decompression`: the output of
`decompress_if_needed` is never a compressed packet (its header has the compression flag cleared), so the
second step meets its documented precondition and cannot panic. -/

namespace Tw.Packet6
open Tw.Packet Tw.PacketBits

theorem din_cases (t : Huffman.Table) (bytes : List UInt8) (cap : Nat) (s : List UInt8)
    (h : decompressIfNeeded t bytes cap = .ok true s) :
    Tw.Gen.Packet6.MAX_PACKETSIZE ≤ cap ∧ needsDecompression bytes = true ∧ decompress t bytes cap = .ok s := by
  unfold decompressIfNeeded at h
  split at h
  · simp at h
  · rename_i hcap
    split at h
    · simp at h
    · rename_i hn
      simp only [Bool.not_eq_true, Bool.not_eq_false] at hn
      split at h
      · rename_i s' hd
        simp only [DinResult.ok.injEq, true_and] at h
        subst h
        exact ⟨by omega, hn, hd⟩
      · simp at h
      · simp at h
      · simp at h

/-- the output of `decompress_if_needed` is not a compressed packet -/
theorem din_output_not_compressed (t : Huffman.Table) (bytes : List UInt8) (cap : Nat) (s : List UInt8)
    (h : decompressIfNeeded t bytes cap = .ok true s) : needsDecompression s = false := by
  obtain ⟨hcap, hn, hd⟩ := din_cases t bytes cap s h
  match bytes, hn, hd with
  | [], hn, _ => simp [needsDecompression] at hn
  | [_], hn, _ => simp [needsDecompression] at hn
  | [_, _], hn, _ => simp [needsDecompression] at hn
  | b0 :: b1 :: b2 :: payload, hn, hd =>
    rw [decompress_eq t b0 b1 b2 payload cap hcap hn] at hd
    cases hdec : Huffman.decompress t payload (cap - 3) with
    | capacity => rw [hdec] at hd; simp at hd
    | diverge => rw [hdec] at hd; simp at hd
    | ok out =>
      rw [hdec] at hd
      simp only [DecompressResult.ok.injEq] at hd
      subst hd
      have hb := unpack_flags_lt b0.toNat b1.toNat b2.toNat (UInt8.toNat_lt b1)
      have hf : (PacketHeader.unpackWarn b0.toNat b1.toNat b2.toNat).1.flags &&&
          (255 - Tw.Gen.Packet6.PACKETFLAG_COMPRESSION) < 16 := Nat.lt_of_le_of_lt Nat.and_le_left hb.1
      have hnc : (PacketHeader.unpackWarn b0.toNat b1.toNat b2.toNat).1.numChunks < 256 := by
        rw [ph_unpack_eq _ _ _ (UInt8.toNat_lt b1)]; exact UInt8.toNat_lt b2
      unfold needsDecompression
      split
      · rfl
      · show (match fakeHeader b0 b1 b2 ++ out with
          | c0 :: c1 :: c2 :: _ => _ | _ => false) = false
        unfold fakeHeader
        simp only [ofNat3, List.cons_append, List.nil_append]
        rw [toNat_ofNat_lt _ (by omega), toNat_ofNat_lt _ (by omega), toNat_ofNat_lt _ hnc,
          ph_unpack_packed ⟨_, _, _⟩ hf hb.2]
        have hz : ((PacketHeader.unpackWarn b0.toNat b1.toNat b2.toNat).1.flags &&&
            (255 - Tw.Gen.Packet6.PACKETFLAG_COMPRESSION)) &&& Tw.Gen.Packet6.PACKETFLAG_COMPRESSION = 0 := by
          rw [Nat.and_assoc]
          have : (255 - Tw.Gen.Packet6.PACKETFLAG_COMPRESSION) &&& Tw.Gen.Packet6.PACKETFLAG_COMPRESSION = 0 := by decide
          rw [this, Nat.and_zero]
        simp [hz]

/-- the two-step path never panics in its second step -/
theorem two_step_ne_panic (t : Huffman.Table) (bytes : List UInt8) (cap : Nat) (s : List UInt8)
    (h : decompressIfNeeded t bytes cap = .ok true s) (hint : Option Bool) (site : String) :
    read t s hint none ≠ .panic site :=
  read_nobuf_ne_panic t s hint (din_output_not_compressed t bytes cap s h) site

/-- … nor when nothing had to be decompressed -/
theorem two_step_ne_panic_plain (t : Huffman.Table) (bytes : List UInt8) (cap : Nat)
    (h : decompressIfNeeded t bytes cap = .ok false []) (hcap : Tw.Gen.Packet6.MAX_PACKETSIZE ≤ cap)
    (hint : Option Bool) (site : String) : read t bytes hint none ≠ .panic site := by
  refine read_nobuf_ne_panic t bytes hint ?_ site
  unfold decompressIfNeeded at h
  have h1 : ¬ cap < Tw.Gen.Packet6.MAX_PACKETSIZE := by omega
  rw [if_neg h1] at h
  split at h
  · rename_i hn; simpa using hn
  · split at h <;> simp at h

end Tw.Packet6

namespace Tw.Packet7
open Tw.Packet Tw.PacketBits

theorem din_cases (t : Huffman.Table) (bytes : List UInt8) (cap : Nat) (s : List UInt8)
    (h : decompressIfNeeded t bytes cap = .ok true s) :
    Tw.Gen.Packet7.MAX_PACKETSIZE ≤ cap ∧ needsDecompression bytes = true ∧ decompress t bytes cap = .ok s := by
  unfold decompressIfNeeded at h
  split at h
  · simp at h
  · rename_i hcap
    split at h
    · simp at h
    · rename_i hn
      simp only [Bool.not_eq_true, Bool.not_eq_false] at hn
      split at h
      · rename_i s' hd
        simp only [DinResult.ok.injEq, true_and] at h
        subst h
        exact ⟨by omega, hn, hd⟩
      · simp at h
      · simp at h
      · simp at h

/-- the output of `decompress_if_needed` is not a compressed packet -/
theorem din_output_not_compressed (t : Huffman.Table) (bytes : List UInt8) (cap : Nat) (s : List UInt8)
    (h : decompressIfNeeded t bytes cap = .ok true s) : needsDecompression s = false := by
  obtain ⟨hcap, hn, hd⟩ := din_cases t bytes cap s h
  rw [decompress_eq t bytes cap hcap hn] at hd
  cases hdec : Huffman.decompress t (bytes.drop 7) (cap - 7) with
  | capacity => rw [hdec] at hd; simp at hd
  | diverge => rw [hdec] at hd; simp at hd
  | ok out =>
    rw [hdec] at hd
    simp only [DecompressResult.ok.injEq] at hd
    subst hd
    have hb := unpack_flags_lt (bytes.getD 0 0).toNat (bytes.getD 1 0).toNat (bytes.getD 2 0).toNat
      (tok4 (bytes.drop 3)) (UInt8.toNat_lt _)
    have hf : (headerOf bytes).1.flags &&& (255 - Tw.Gen.Packet7.PACKETFLAG_COMPRESSION) < 16 :=
      Nat.lt_of_le_of_lt Nat.and_le_left hb.1
    have hnc : (headerOf bytes).1.numChunks < 256 := by
      unfold headerOf
      rw [ph_unpack_eq _ _ _ _ (UInt8.toNat_lt _)]; exact UInt8.toNat_lt _
    -- the header `decompress` wrote is the packed form of the original header without the flag
    have hw := headerOf_written
      ⟨(headerOf bytes).1.flags &&& (255 - Tw.Gen.Packet7.PACKETFLAG_COMPRESSION), (headerOf bytes).1.ack,
        (headerOf bytes).1.numChunks, tok4 (bytes.drop 3)⟩ hf hb.2 hnc out
    have hfk : fakeHeader bytes ++ out =
        hdrBytes (((headerOf bytes).1.flags &&& (255 - Tw.Gen.Packet7.PACKETFLAG_COMPRESSION)) * 4 +
          (headerOf bytes).1.ack / 256, (headerOf bytes).1.ack % 256, (headerOf bytes).1.numChunks)
          (tok4 (bytes.drop 3)) ++ out := rfl
    unfold needsDecompression
    split
    · rfl
    · split
      · rfl
      · have hz : ((headerOf bytes).1.flags &&& (255 - Tw.Gen.Packet7.PACKETFLAG_COMPRESSION)) &&&
            Tw.Gen.Packet7.PACKETFLAG_COMPRESSION = 0 := by
          rw [Nat.and_assoc]
          have : (255 - Tw.Gen.Packet7.PACKETFLAG_COMPRESSION) &&& Tw.Gen.Packet7.PACKETFLAG_COMPRESSION = 0 := by decide
          rw [this, Nat.and_zero]
        have hh : (PacketHeader.unpackWarn ((fakeHeader bytes ++ out).getD 0 0).toNat
            ((fakeHeader bytes ++ out).getD 1 0).toNat ((fakeHeader bytes ++ out).getD 2 0).toNat
            (tok4 ((fakeHeader bytes ++ out).drop 3))).1 = (headerOf (fakeHeader bytes ++ out)).1 := rfl
        rw [hh, hfk, hw]
        simp [hz]

/-- the two-step path never panics in its second step -/
theorem two_step_ne_panic (t : Huffman.Table) (bytes : List UInt8) (cap : Nat) (s : List UInt8)
    (h : decompressIfNeeded t bytes cap = .ok true s) (site : String) :
    read t s none ≠ .panic site :=
  read_nobuf_ne_panic t s (din_output_not_compressed t bytes cap s h) site

theorem two_step_ne_panic_plain (t : Huffman.Table) (bytes : List UInt8) (cap : Nat)
    (h : decompressIfNeeded t bytes cap = .ok false []) (hcap : Tw.Gen.Packet7.MAX_PACKETSIZE ≤ cap)
    (site : String) : read t bytes none ≠ .panic site := by
  refine read_nobuf_ne_panic t bytes ?_ site
  unfold decompressIfNeeded at h
  have h1 : ¬ cap < Tw.Gen.Packet7.MAX_PACKETSIZE := by omega
  rw [if_neg h1] at h
  split at h
  · rename_i hn; simpa using hn
  · split at h <;> simp at h

end Tw.Packet7
