import Tw.Proofs.ConnProgressA

/-!
# C02 (c): the four-round argument, independent of the system it is run in

`RecvRel` / `RecvListRel`: what deliveries do to a receiving core (at any clock value, with any send
timer); `PhaseSpec`: what one side's tick phase of a round does to its core and puts on the wire;
`View`: two cores with their ghost logs; `RoundV`: a fair round in these terms.  `RoundV.stage1…4`
and `four_rounds`: four rounds end quiescent.  Instances: `Tw.OnlineNet` (no clock) and the two
full connections of `Tw.NetSim.World` (ticks at the deadline).
-/
namespace Tw.Conn
open Tw.Time

/-! ## deliveries -/

/-- one delivery of a datagram with ack / resend flag / chunks of `p` -/
def RecvRel (cfg : Cfg) (o : Online) (p : Flushed) (o2 : Online) : Prop :=
  ∃ (now : Nat) (send send2 : Timeout) (o1 : Online) (fl : List Flushed) (evs : List Event),
    o.feedAck p.ack = .ok o1 ∧ o1.receive cfg now send p.requestResend p.chunks = .ok (o2, send2, fl, evs)

theorem RecvRel.open {cfg : Cfg} {o o2 : Online} {p : Flushed} (h : RecvRel cfg o p o2) :
    ∃ o1' : Online,
      ((p.requestResend = false ∨ (o.ackChunks p.ack).resendQueue = []) → o1' = o.ackChunks p.ack) ∧
      o1'.ack = o.ack ∧ o1'.resendQueue.length = (o.ackChunks p.ack).resendQueue.length ∧
      (o1'.requestResend = true → o.requestResend = true) ∧
      o2.ack = (receiveEager o.ack o1'.requestResend p.chunks).1 ∧
      o2.requestResend = (receiveEager o.ack o1'.requestResend p.chunks).2 ∧
      o2.resendQueue = o1'.resendQueue ∧ o2.packet = o1'.packet := by
  obtain ⟨now, send, send2, o1, fl, evs, hfa, hrc⟩ := h
  have ho1 := Tw.NetSim.feedAck_eq hfa
  obtain ⟨ka, _, kp, _, krr, _, _, _⟩ := Tw.NetSim.ackChunks_fields o p.ack
  rw [← ho1] at ka krr
  unfold Online.receive at hrc
  cases hrr : p.requestResend with
  | false =>
    simp only [hrr, Bool.false_eq_true, if_false] at hrc
    split at hrc
    · cases hrc
    · injection hrc with hrc; injection hrc with e1 _
      subst e1
      refine ⟨o1, fun _ => ho1, ka, by rw [ho1], fun h => by rw [krr] at h; exact h, ?_, ?_, rfl, rfl⟩
      · simp only [ka]
      · simp only [ka]
  | true =>
    simp only [hrr, if_true] at hrc
    cases hrs : o1.resend cfg now send with
    | error e => rw [hrs] at hrc; cases hrc
    | ok r2 =>
      obtain ⟨o1', s1', fl1⟩ := r2
      rw [hrs] at hrc
      simp only at hrc
      split at hrc
      · cases hrc
      · injection hrc with hrc; injection hrc with e1 _
        subst e1
        obtain ⟨f1, f2, f3, f4, _, _⟩ := resend_frame hrs
        refine ⟨o1', ?_, by rw [f1, ka], by rw [f2, ho1], fun h => by rw [← krr]; exact f3 h, ?_, ?_, rfl, rfl⟩
        · intro hor
          rcases hor with hor | hor
          · cases hor
          · rw [← ho1] at hor ⊢
            exact (f4 hor).1
        · simp only [f1, ka]
        · simp only [f1, ka]

inductive RecvListRel (cfg : Cfg) : Online → List Flushed → Online → Prop where
  | nil (o : Online) : RecvListRel cfg o [] o
  | cons {o o1 o2 : Online} {p : Flushed} {ps : List Flushed} :
      RecvRel cfg o p o1 → RecvListRel cfg o1 ps o2 → RecvListRel cfg o (p :: ps) o2

theorem recvOnline_rel {cfg : Cfg} {o o2 : Online} {p : Flushed} (h : recvOnline cfg o p = some o2) :
    RecvRel cfg o p o2 := by
  unfold recvOnline at h
  cases hfa : o.feedAck p.ack with
  | error e => rw [hfa] at h; cases h
  | ok o1 =>
    rw [hfa] at h
    simp only at h
    cases hrc : o1.receive cfg 0 .inactive p.requestResend p.chunks with
    | error e => rw [hrc] at h; cases h
    | ok r =>
      obtain ⟨o2', s2, fl, evs⟩ := r
      rw [hrc] at h
      injection h with h
      subst h
      exact ⟨0, .inactive, s2, o1, fl, evs, hfa, hrc⟩

theorem recvList_rel {cfg : Cfg} : ∀ (ps : List Flushed) (o o' : Online), recvList cfg o ps = some o' →
    RecvListRel cfg o ps o' := by
  intro ps
  induction ps with
  | nil => intro o o' h; simp [recvList] at h; subst h; exact .nil o
  | cons p ps ih =>
    intro o o' h
    simp only [recvList] at h
    cases hr : recvOnline cfg o p with
    | none => rw [hr] at h; cases h
    | some o2 => rw [hr] at h; exact .cons (recvOnline_rel hr) (ih o2 o' h)

theorem RecvListRel.append {cfg : Cfg} {o o1 o2 : Online} {a b : List Flushed} (h1 : RecvListRel cfg o a o1)
    (h2 : RecvListRel cfg o1 b o2) : RecvListRel cfg o (a ++ b) o2 := by
  induction h1 with
  | nil o => exact h2
  | cons hr _ ih => exact .cons hr (ih h2)

theorem RecvListRel.ack {cfg : Cfg} {o o' : Online} {ps : List Flushed} (h : RecvListRel cfg o ps o') :
    o'.ack = (receiveEager o.ack false (ps.flatMap (·.chunks))).1 := by
  induction h with
  | nil o => rfl
  | @cons o o1 o2 p ps hr _ ih =>
    obtain ⟨o1', _, _, _, _, ha, _, _, _⟩ := hr.open
    rw [ih, ha, List.flatMap_cons, receiveEager_append]
    rw [receiveEager_fst_indep _ o1'.requestResend false p.chunks]
    exact receiveEager_fst_indep _ _ _ _

theorem RecvListRel.idle {cfg : Cfg} {o o' : Online} {ps : List Flushed} (h : RecvListRel cfg o ps o')
    (hq : o.resendQueue = []) : o'.resendQueue = [] ∧ o'.packet = o.packet := by
  induction h with
  | nil o => exact ⟨hq, rfl⟩
  | @cons o o1 o2 p ps hr _ ih =>
    obtain ⟨o1', h1, _, _, _, _, _, h7, h8⟩ := hr.open
    obtain ⟨_, _, kp, _, _, kl, _, _⟩ := Tw.NetSim.ackChunks_fields o p.ack
    have hq1 : (o.ackChunks p.ack).resendQueue = [] := by
      rw [hq] at kl; exact List.length_eq_zero_iff.mp (Nat.le_zero.mp (by simpa using kl))
    have := h1 (Or.inr hq1)
    subst this
    obtain ⟨a, b⟩ := ih (by rw [h7]; exact hq1)
    exact ⟨a, by rw [b, h8, kp]⟩

theorem RecvListRel.acked {cfg : Cfg} {o o' : Online} {p : Flushed} {ps : List Flushed}
    (h : RecvListRel cfg o (p :: ps) o') (c : ResendChunk) (rest : List ResendChunk)
    (hq : o.resendQueue = c :: rest) (hp : p.ack = c.seq) : o'.resendQueue = [] ∧ o'.packet = o.packet := by
  cases h with
  | cons hr hrest =>
    obtain ⟨o1', h1, _, _, _, _, _, h7, h8⟩ := hr.open
    obtain ⟨_, _, kp, _, _, _, _, _⟩ := Tw.NetSim.ackChunks_fields o p.ack
    have hq1 : (o.ackChunks p.ack).resendQueue = [] := by rw [hp]; exact ackChunks_all o c rest hq
    have := h1 (Or.inr hq1)
    subst this
    obtain ⟨a, b⟩ := hrest.idle (by rw [h7]; exact hq1)
    exact ⟨a, by rw [b, h8, kp]⟩

theorem RecvListRel.rr_false {cfg : Cfg} {o o' : Online} {ps : List Flushed} (h : RecvListRel cfg o ps o')
    (hrr : o.requestResend = false) (hv : ∀ p ∈ ps, vitals p.chunks = []) : o'.requestResend = false := by
  induction h with
  | nil o => exact hrr
  | @cons o o1 o2 p ps hr _ ih =>
    obtain ⟨o1', _, _, _, h4, _, h6, _, _⟩ := hr.open
    have h1f : o1'.requestResend = false := by
      cases hh : o1'.requestResend with
      | false => rfl
      | true => rw [h4 hh] at hrr; cases hrr
    refine ih ?_ (fun p' hp' => hv p' (List.mem_cons_of_mem _ hp'))
    rw [h6, receiveEager_no_vitals _ _ _ (hv p (by simp)), h1f]

theorem RecvListRel.rr_set {cfg : Cfg} {o o' : Online} {ps : List Flushed} (h : RecvListRel cfg o ps o')
    (hrej : ∀ p ∈ ps, ∀ c ∈ p.chunks, ∀ s r, c.vital = some (s, r) → s ≠ seqNext o.ack) :
    o'.ack = o.ack ∧ (∀ pre last, ps = pre ++ [last] → vitals last.chunks ≠ [] → o'.requestResend = true) := by
  induction h with
  | nil o => exact ⟨rfl, fun pre last hps => by simp at hps⟩
  | @cons o o1 o2 p ps hr hrest ih =>
    obtain ⟨o1', _, _, _, _, h5, h6, _, _⟩ := hr.open
    obtain ⟨e1, e2, _⟩ := receiveEager_rejects o.ack p.chunks (hrej p (by simp)) o1'.requestResend
    have hack2 : o1.ack = o.ack := by rw [h5, e1]
    obtain ⟨a, b⟩ := ih (by
      intro p' hp' c hc s r hv
      rw [hack2]; exact hrej p' (List.mem_cons_of_mem _ hp') c hc s r hv)
    refine ⟨by rw [a, hack2], ?_⟩
    intro pre last hps hv
    cases pre with
    | nil =>
      simp only [List.nil_append, List.cons.injEq] at hps
      obtain ⟨hp, hps'⟩ := hps
      subst hp hps'
      cases hrest with
      | nil => rw [h6]; exact e2 hv
    | cons q pre' =>
      simp only [List.cons_append, List.cons.injEq] at hps
      exact b pre' last hps.2 hv

/-! ## the tick phase of one side -/

/-- what the tick phase of a round does to one side: core `o` becomes `o2`, the datagrams with
(ack, flag, chunks) `fls` go out -/
structure PhaseSpec (cfg : Cfg) (o o2 : Online) (fls : List Flushed) : Prop where
  inv2 : o2.Inv cfg
  ack : o2.ack = o.ack
  rqlen : o2.resendQueue.length = o.resendQueue.length
  rr : o2.requestResend = false
  pk : o2.packet.chunks = []
  acks : ∀ f ∈ fls, f.ack = o.ack
  ne : o.resendQueue ≠ [] → flVitals fls = o.resendQueue.reverse.map (fun c => (c.seq, c.data)) ∧
    ∃ pre last, fls = pre ++ [last] ∧ vitals last.chunks ≠ []
  emp : o.resendQueue = [] → flVitals fls = vitals o.packet.chunks
  emit : (o.resendQueue ≠ [] ∨ o.packet.numChunks ≠ 0 ∨ o.requestResend = true) → fls ≠ []

theorem PhaseSpec.of_sendPhase {cfg : Cfg} (hc : cfg.Ok) {o o2 : Online} {fls : List Flushed} (hinv : o.Inv cfg)
    (h : sendPhase cfg o = some (o2, fls)) : PhaseSpec cfg o o2 fls := by
  obtain ⟨a, b, c, d, e, f, g, i, j⟩ := sendPhase_spec hc hinv h
  exact ⟨a, b, c, d, e, f, g, i, j⟩

/-- a resend at any time, then a flush -/
theorem PhaseSpec.of_resend_flush {cfg : Cfg} {o o' : Online} {now : Nat} {send send' : Timeout}
    {fl : List Flushed} (hinv : o.Inv cfg) (hinv' : o'.Inv cfg) (hne : o.resendQueue ≠ [])
    (he : o.resend cfg now send = .ok (o', send', fl)) :
    PhaseSpec cfg o o'.flush.1 (fl ++ o'.flush.2) ∧ o'.canSend = true := by
  obtain ⟨f1, f2, f3, f4, f5, f6⟩ := resend_frame he
  have hnil := Online.flush_packet_nil hinv'
  have hcs : o'.canSend = true := by
    have := vitals_ne_nil_chunks (f5 hne)
    have hl : o'.packet.chunks.length ≠ 0 := by simpa using this
    simp [Online.canSend, hinv'.pn, hl]
  refine ⟨⟨Online.flush_inv hinv', by rw [Online.flush_ack, f1], by rw [Online.flush_resendQueue, f2],
    flush_rr_false o', hnil, ?_, ?_, fun h => absurd h hne, ?_⟩, hcs⟩
  · intro f hf
    rcases List.mem_append.mp hf with hf | hf
    · exact f6 f hf
    · rw [flush_acks o' f hf, f1]
  · intro _
    have hv := resend_vitals (by rw [hinv.nv]; exact vitals_filter_nonvital _) hne he
    rw [hnil] at hv
    refine ⟨by simpa [vitals] using hv, fl, ⟨o'.ack, o'.requestResend, o'.packet.numChunks, o'.packet.chunks⟩, ?_, f5 hne⟩
    rw [flush_emits o' hcs]
  · intro _
    rw [flush_emits o' hcs]; simp

/-- nothing unacknowledged: a flush, then keep-alives (datagrams without chunks carrying the ack) -/
theorem PhaseSpec.of_flush_kas {cfg : Cfg} {o : Online} (hinv : o.Inv cfg) (hemp : o.resendQueue = [])
    (kas : List Flushed) (hk : ∀ f ∈ kas, f.ack = o.ack ∧ f.chunks = []) (hne : kas ≠ []) :
    PhaseSpec cfg o o.flush.1 (o.flush.2 ++ kas) := by
  refine ⟨Online.flush_inv hinv, Online.flush_ack o, by rw [Online.flush_resendQueue], flush_rr_false o,
    Online.flush_packet_nil hinv, ?_, fun h => absurd hemp h, ?_, fun _ => by simp [hne]⟩
  · intro f hf
    rcases List.mem_append.mp hf with hf | hf
    · exact flush_acks o f hf
    · exact (hk f hf).1
  · intro _
    have hkv : flVitals kas = [] := by
      simp only [flVitals, List.flatMap_eq_nil_iff]
      intro f hf; rw [(hk f hf).2]; rfl
    have := flush_vitals o
    rw [Online.flush_packet_nil hinv] at this
    rw [flVitals_append, hkv]
    simpa [vitals] using this

/-! ## two cores with their logs -/

structure View where
  ep : Bool → Online
  sub : Bool → List Bytes
  del : Bool → List Bytes

structure VInv (cfg : Cfg) (v : View) : Prop where
  core : ∀ x, (v.ep x).Inv cfg
  ack : ∀ x, (v.ep (!x)).ack = (v.del (!x)).length % 1024
  pre : ∀ x, v.del (!x) = (v.sub x).take (v.del (!x)).length
  dle : ∀ x, (v.del (!x)).length ≤ (v.sub x).length
  qlen : ∀ x, (v.ep x).resendQueue.length ≤ 512
  qwin : ∀ x, (v.sub x).length ≤ (v.del (!x)).length + (v.ep x).resendQueue.length
  q : ∀ x, Tw.NetSim.QueueOk (v.sub x) (v.ep x).resendQueue

/-- a fair round: `vb` after both tick phases, `v'` after the deliveries -/
structure RoundV (cfg : Cfg) (v vb v' : View) : Prop where
  inv0 : VInv cfg v
  invb : VInv cfg vb
  inv' : VInv cfg v'
  subb : vb.sub = v.sub
  delb : vb.del = v.del
  sub' : v'.sub = v.sub
  mono : ∀ y, (v.del y).length ≤ (v'.del y).length
  phase : ∀ x, ∃ fls, PhaseSpec cfg (v.ep x) (vb.ep x) fls ∧ RecvListRel cfg (vb.ep (!x)) fls (v'.ep (!x))

def VStage1 (v : View) (x : Bool) : Prop := (v.del (!x)).length = (v.sub x).length
def VStage2 (v : View) (x : Bool) : Prop :=
  VStage1 v x ∧ ((v.ep x).resendQueue = [] ∨ (v.ep (!x)).requestResend = true)
def VStage3 (v : View) (x : Bool) : Prop :=
  VStage1 v x ∧ (v.ep x).resendQueue = [] ∧ (v.ep x).packet.chunks = []
def VStage4 (v : View) (x : Bool) : Prop := VStage3 v x ∧ (v.ep (!x)).requestResend = false

/-- everything submitted has been handed over, nothing is queued or unacknowledged, no resend is
requested -/
def View.quiescent (v : View) : Prop :=
  ∀ x, v.del (!x) = v.sub x ∧ (v.ep x).resendQueue = [] ∧ (v.ep x).packet.chunks = [] ∧
    (v.ep x).requestResend = false

theorem queueOk_shape' {sub : List Bytes} {q : List ResendChunk} (hq : Tw.NetSim.QueueOk sub q) :
    ∀ i c, q[i]? = some c → i < sub.length ∧ sub[sub.length - 1 - i]? = some c.data ∧
      c.seq = (sub.length - i) % 1024 := by
  intro i c hic
  obtain ⟨h1, h2, h3⟩ := hq i c hic
  refine ⟨h1, h2, ?_⟩
  rw [h3]; congr 1; omega

theorem queueOk_len' {sub : List Bytes} {q : List ResendChunk} (hq : Tw.NetSim.QueueOk sub q) :
    q.length ≤ sub.length := by
  by_cases h : q.length = 0
  · omega
  · have := (hq (q.length - 1) _ (List.getElem?_eq_getElem (by omega))).1
    omega

theorem vitals_flatMap' (fls : List Flushed) : vitals (fls.flatMap (·.chunks)) = flVitals fls := by
  induction fls with
  | nil => rfl
  | cons f fls ih => simp [List.flatMap_cons, vitals_append, flVitals, ih] at *

theorem mem_vitals' {cs : List Chunk} {c : Chunk} {sq : Nat} {r : Bool} (hc : c ∈ cs) (hv : c.vital = some (sq, r)) :
    (sq, c.data) ∈ vitals cs := by
  induction cs with
  | nil => simp at hc
  | cons c0 cs ih =>
    rcases List.mem_cons.mp hc with rfl | hc
    · simp [vitals, hv]
    · have := ih hc
      unfold vitals
      cases c0.vital with
      | none => exact this
      | some v => obtain ⟨s0, r0⟩ := v; exact List.mem_cons_of_mem _ this

theorem mem_flVitals' {fls : List Flushed} {p : Flushed} {c : Chunk} {sq : Nat} {r : Bool} (hp : p ∈ fls)
    (hc : c ∈ p.chunks) (hv : c.vital = some (sq, r)) : (sq, c.data) ∈ flVitals fls := by
  simp only [flVitals, List.mem_flatMap]
  exact ⟨p, hp, mem_vitals' hc hv⟩

theorem flVitals_nil' {fls : List Flushed} (h : flVitals fls = []) : ∀ p ∈ fls, vitals p.chunks = [] := by
  intro p hp
  simp only [flVitals, List.flatMap_eq_nil_iff] at h
  exact h p hp

variable {cfg : Cfg}

theorem RoundV.stage1 {v vb v' : View} (R : RoundV cfg v vb v') (x : Bool) : VStage1 v' x := by
  obtain ⟨fls, hsp, hrl⟩ := R.phase x
  have hackb : (vb.ep (!x)).ack = (v.del (!x)).length % 1024 := by
    have := R.invb.ack x; rw [R.delb] at this; exact this
  have hack' := R.inv'.ack x
  have hdle' : (v'.del (!x)).length ≤ (v.sub x).length := by have := R.inv'.dle x; rw [R.sub'] at this; exact this
  have hmono := R.mono (!x)
  have hqwin := R.inv0.qwin x
  have hqlen := R.inv0.qlen x
  have hdle := R.inv0.dle x
  have hql := queueOk_len' (R.inv0.q x)
  unfold VStage1
  rw [R.sub']
  by_cases hq : (v.ep x).resendQueue = []
  · rw [hq] at hqwin; simp at hqwin; omega
  · obtain ⟨hv, _⟩ := hsp.ne hq
    have hqv := queue_vitals (v.sub x) _ (queueOk_shape' (R.inv0.q x))
    have hcons : Consecutive (v.sub x) ((v.sub x).length - (v.ep x).resendQueue.length)
        (fls.flatMap (·.chunks)) (v.ep x).resendQueue.length :=
      consecutive_of_vitals _ _ _ _ (by rw [vitals_flatMap', hv, hqv]) (by omega)
    have hra := hrl.ack
    rw [hackb] at hra
    have := (receive_from_behind (v.sub x) _ _ _ hcons (v.del (!x)).length false (by omega) (by omega) (by omega)).1
    rw [this] at hra
    rw [hack'] at hra
    omega

theorem RoundV.queue_idle {v vb v' : View} (R : RoundV cfg v vb v') (x : Bool)
    (hq : (v.ep x).resendQueue = []) : (v'.ep x).resendQueue = [] ∧ (v'.ep x).packet.chunks = [] := by
  obtain ⟨fls, hsp, _⟩ := R.phase x
  obtain ⟨flsy, _, hrly⟩ := R.phase (!x)
  simp only [Bool.not_not] at hrly
  have hqb : (vb.ep x).resendQueue = [] := by
    have := hsp.rqlen; rw [hq] at this; exact List.length_eq_zero_iff.mp this
  obtain ⟨a, b⟩ := hrly.idle hqb
  exact ⟨a, by rw [b]; exact hsp.pk⟩

theorem RoundV.stage2 {v vb v' : View} (R : RoundV cfg v vb v') (x : Bool) (h1 : VStage1 v x) :
    VStage2 v' x := by
  refine ⟨R.stage1 x, ?_⟩
  by_cases hq : (v.ep x).resendQueue = []
  · exact Or.inl (R.queue_idle x hq).1
  · right
    obtain ⟨fls, hsp, hrl⟩ := R.phase x
    obtain ⟨hv, pre, last, hfl, hlast⟩ := hsp.ne hq
    have hqv := queue_vitals (v.sub x) _ (queueOk_shape' (R.inv0.q x))
    have hackb : (vb.ep (!x)).ack = (v.del (!x)).length % 1024 := by
      have := R.invb.ack x; rw [R.delb] at this; exact this
    have hqlen := R.inv0.qlen x
    have hql := queueOk_len' (R.inv0.q x)
    unfold VStage1 at h1
    refine (hrl.rr_set ?_).2 pre last hfl hlast
    intro p hp c hcm sq r hvit
    have hm := mem_flVitals' hp hcm hvit
    rw [hv, hqv, List.mem_map] at hm
    obtain ⟨k, hk, hke⟩ := hm
    rw [List.mem_range'_1] at hk
    injection hke with hke1 _
    rw [hackb, Tw.NetSim.seqNext_eq, ← hke1, h1]
    omega

theorem RoundV.stage3 {v vb v' : View} (R : RoundV cfg v vb v') (x : Bool) (h2 : VStage2 v x) :
    VStage3 v' x := by
  refine ⟨R.stage1 x, ?_⟩
  by_cases hq : (v.ep x).resendQueue = []
  · exact R.queue_idle x hq
  · have hrr : (v.ep (!x)).requestResend = true := by
      rcases h2.2 with h | h
      · exact absurd h hq
      · exact h
    obtain ⟨fls, hsp, _⟩ := R.phase x
    obtain ⟨flsy, hspy, hrly⟩ := R.phase (!x)
    simp only [Bool.not_not] at hrly
    have hne := hspy.emit (Or.inr (Or.inr hrr))
    have hqb : (vb.ep x).resendQueue ≠ [] := by
      intro hh
      have := hsp.rqlen; rw [hh] at this
      exact hq (List.length_eq_zero_iff.mp this.symm)
    cases hflsy : flsy with
    | nil => exact absurd hflsy hne
    | cons p ps =>
      cases hqc : (vb.ep x).resendQueue with
      | nil => exact absurd hqc hqb
      | cons c rest =>
        have hcseq : c.seq = (v.sub x).length % 1024 := by
          have hqs := queueOk_shape' (R.invb.q x) 0 c (by rw [hqc]; rfl)
          rw [R.subb] at hqs
          simpa using hqs.2.2
        have hpack : p.ack = c.seq := by
          rw [hspy.acks p (by rw [hflsy]; simp), R.inv0.ack x, hcseq, h2.1]
        rw [hflsy] at hrly
        obtain ⟨a, b⟩ := hrly.acked c rest hqc hpack
        exact ⟨a, by rw [b]; exact hsp.pk⟩

theorem RoundV.stage4 {v vb v' : View} (R : RoundV cfg v vb v') (x : Bool) (h3 : VStage3 v x) :
    VStage4 v' x := by
  obtain ⟨_, hq, hpk⟩ := h3
  refine ⟨⟨R.stage1 x, R.queue_idle x hq⟩, ?_⟩
  obtain ⟨fls, hsp, hrl⟩ := R.phase x
  obtain ⟨flsy, hspy, _⟩ := R.phase (!x)
  have hv := hsp.emp hq
  rw [hpk] at hv
  exact hrl.rr_false hspy.rr (flVitals_nil' (by simpa [vitals] using hv))

/-- **four fair rounds end quiescent** -/
theorem four_rounds {v0 b1 v1 b2 v2 b3 v3 b4 v4 : View} (R1 : RoundV cfg v0 b1 v1) (R2 : RoundV cfg v1 b2 v2)
    (R3 : RoundV cfg v2 b3 v3) (R4 : RoundV cfg v3 b4 v4) : v4.quiescent := by
  have st : ∀ x, VStage4 v4 x := fun x => R4.stage4 x (R3.stage3 x (R2.stage2 x (R1.stage1 x)))
  intro x
  obtain ⟨⟨h1, hq, hp⟩, _⟩ := st x
  refine ⟨?_, hq, hp, ?_⟩
  · have := R4.inv'.pre x
    unfold VStage1 at h1
    rw [this, h1, List.take_length]
  · have := (st (!x)).2
    simpa using this

end Tw.Conn
