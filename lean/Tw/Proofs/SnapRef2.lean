import Tw.Proofs.SnapRef1

namespace Tw.Snap

/-- the items the reference lists in its delta: new items with their data, changed items with
their difference; unchanged items are omitted -/
def refChanged (from_ : Items) : Items → Items
  | [] => []
  | (k, d) :: r =>
    match mfind k from_ with
    | none => (k, d) :: refChanged from_ r
    | some f =>
      if (List.zipWith wrapSub d f).all (· == 0) then refChanged from_ r
      else (k, List.zipWith wrapSub d f) :: refChanged from_ r

theorem wrapSub_eq_zero {x y : Int} (hx : I32 x) (hy : I32 y) (h : wrapSub x y = 0) : x = y := by
  unfold I32 at hx hy; unfold wrapSub wrap at h
  split at h <;> omega

theorem zip_sub_all_zero : ∀ (d f : List Int), d.length = f.length → (∀ x ∈ d, I32 x) → (∀ x ∈ f, I32 x) →
    (List.zipWith wrapSub d f).all (· == 0) = true → d = f := by
  intro d
  induction d with
  | nil => intro f hl _ _ _; cases f <;> simp_all
  | cons a d ih =>
    intro f hl hd hf h
    cases f with
    | nil => simp at hl
    | cons b f =>
      simp at hl h
      have := wrapSub_eq_zero (hd a (by simp)) (hf b (by simp)) h.1
      subst this
      congr 1
      apply ih f hl (fun x hx => hd x (by simp [hx])) (fun x hx => hf x (by simp [hx]))
      simpa using h.2

theorem refChanged_spec (from_ : Items) : ∀ (to : Items),
    (∀ p ∈ to, lenAgree (mfind p.1 from_) p.2.length = true) →
    (∀ p ∈ refChanged from_ to, ∃ d, (p.1, d) ∈ to ∧ createItemDelta (mfind p.1 from_) d = some p.2 ∧
        p.2.length = d.length) ∧
    List.Sublist ((refChanged from_ to).map Prod.fst) (to.map Prod.fst) ∧
    dataLen (refChanged from_ to) ≤ dataLen to ∧
    (∀ k d, (k, d) ∈ to → k ∉ (refChanged from_ to).map Prod.fst → (∀ x ∈ d, I32 x) →
        (∀ f, mfind k from_ = some f → ∀ x ∈ f, I32 x) → mfind k from_ = some d) := by
  intro to
  induction to with
  | nil => intro _; simp [refChanged, dataLen]
  | cons q r ih =>
    obtain ⟨k, d⟩ := q
    intro hag
    obtain ⟨h1, h2, h3, h4⟩ := ih (fun p hp => hag p (by simp [hp]))
    have hk := hag (k, d) (by simp)
    simp only [refChanged]
    cases hf : mfind k from_ with
    | none =>
      simp only
      refine ⟨?_, ?_, ?_, ?_⟩
      · intro p hp
        simp only [List.mem_cons] at hp
        rcases hp with rfl | hp
        · exact ⟨d, by simp, by simp [hf, createItemDelta], rfl⟩
        · obtain ⟨d', hd', hc⟩ := h1 p hp
          exact ⟨d', by simp [hd'], hc⟩
      · simp only [List.map_cons]; exact List.Sublist.cons_cons _ h2
      · simp only [dataLen_cons]; omega
      · intro k' d' hm hnk hI hfI
        simp only [List.mem_cons, Prod.mk.injEq] at hm
        rcases hm with ⟨e1, e2⟩ | hm
        · exfalso; apply hnk; simp [e1]
        · exact h4 k' d' hm (fun hmem => hnk (by simp [hmem])) hI hfI
    | some f =>
      simp only [hf, lenAgree] at hk
      simp at hk
      simp only
      split
      · rename_i hz
        refine ⟨?_, ?_, ?_, ?_⟩
        · intro p hp
          obtain ⟨d', hd', hc⟩ := h1 p hp
          exact ⟨d', by simp [hd'], hc⟩
        · simp only [List.map_cons]; exact List.Sublist.cons _ h2
        · simp only [dataLen_cons]; omega
        · intro k' d' hm hnk hI hfI
          simp only [List.mem_cons, Prod.mk.injEq] at hm
          rcases hm with ⟨e1, e2⟩ | hm
          · subst e1 e2
            rw [hf]
            congr 1
            exact (zip_sub_all_zero d' f hk.symm hI (hfI f hf) hz).symm
          · exact h4 k' d' hm hnk hI hfI
      · refine ⟨?_, ?_, ?_, ?_⟩
        · intro p hp
          simp only [List.mem_cons] at hp
          rcases hp with rfl | hp
          · refine ⟨d, by simp, ?_, by simp [hk]⟩
            simp only [hf, createItemDelta]
            have : ¬ f.length ≠ d.length := by omega
            simp [this]
          · obtain ⟨d', hd', hc⟩ := h1 p hp
            exact ⟨d', by simp [hd'], hc⟩
        · simp only [List.map_cons]; exact List.Sublist.cons_cons _ h2
        · simp only [dataLen_cons, List.length_zipWith]; omega
        · intro k' d' hm hnk hI hfI
          simp only [List.mem_cons, Prod.mk.injEq] at hm
          rcases hm with ⟨e1, e2⟩ | hm
          · exfalso; apply hnk; simp [e1]
          · exact h4 k' d' hm (fun hmem => hnk (by simp [hmem])) hI hfI
end Tw.Snap
