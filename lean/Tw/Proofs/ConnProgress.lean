import Tw.Model.OnlineNet
import Tw.Proofs.ConnSafetyOnline

/-!
# C02 (c): progress of the two online cores under fair rounds

`Tw.OnlineNet` (the system `Props/C02` states the progress claim about) is a copy of
`Tw.NetSim.Core`; `toCore` carries the safety invariant `Core.Dir` over.
-/
namespace Tw.OnlineNet
open Tw.Conn Tw.Time

theorem vitalPayloads_eq : ∀ evs, vitalPayloads evs = Tw.NetSim.vitalPayloads evs
  | [] => rfl
  | .chunk d true :: es => by simp [vitalPayloads, Tw.NetSim.vitalPayloads, vitalPayloads_eq es]
  | .chunk d false :: es => by simp [vitalPayloads, Tw.NetSim.vitalPayloads, vitalPayloads_eq es]
  | .connless d :: es => by simp [vitalPayloads, Tw.NetSim.vitalPayloads, vitalPayloads_eq es]
  | .ready :: es => by simp [vitalPayloads, Tw.NetSim.vitalPayloads, vitalPayloads_eq es]
  | .disconnect r :: es => by simp [vitalPayloads, Tw.NetSim.vitalPayloads, vitalPayloads_eq es]

theorem nonvitalPayloads_eq : ∀ evs, nonvitalPayloads evs = Tw.NetSim.nonvitalPayloads evs
  | [] => rfl
  | .chunk d true :: es => by simp [nonvitalPayloads, Tw.NetSim.nonvitalPayloads, nonvitalPayloads_eq es]
  | .chunk d false :: es => by simp [nonvitalPayloads, Tw.NetSim.nonvitalPayloads, nonvitalPayloads_eq es]
  | .connless d :: es => by simp [nonvitalPayloads, Tw.NetSim.nonvitalPayloads, nonvitalPayloads_eq es]
  | .ready :: es => by simp [nonvitalPayloads, Tw.NetSim.nonvitalPayloads, nonvitalPayloads_eq es]
  | .disconnect r :: es => by simp [nonvitalPayloads, Tw.NetSim.nonvitalPayloads, nonvitalPayloads_eq es]

def toCoreStamped (p : Stamped) : Tw.NetSim.Core.Stamped := ⟨p.pkt, p.nSelf, p.nPeer, p.dSelf⟩

def toCore (s : Sys) : Tw.NetSim.Core.Sys :=
  ⟨s.ep, fun x => (s.net x).map toCoreStamped, s.sub, s.del, s.nvSub, s.nvDel⟩

def toCoreMove : Move → Tw.NetSim.Core.Move
  | .send x d v => .send x d v
  | .flush x => .flush x
  | .resend x => .resend x
  | .deliver x i => .deliver x i

theorem upd_eq {α : Type} (f : Bool → α) (x : Bool) (v : α) : upd f x v = Tw.NetSim.Core.upd f x v := rfl

theorem net_upd (s : Sys) (x : Bool) (fl : List Flushed) :
    (fun y => (upd s.net x (s.net x ++ stamp s x fl) y).map toCoreStamped) =
      Tw.NetSim.Core.upd (toCore s).net x ((toCore s).net x ++ Tw.NetSim.Core.stamp (toCore s) x fl) := by
  funext y
  by_cases h : y = x
  · subst h
    simp [upd, Tw.NetSim.Core.upd, toCore, stamp, Tw.NetSim.Core.stamp, toCoreStamped]
  · simp [upd, Tw.NetSim.Core.upd, toCore, h]

theorem toCore_ep (s : Sys) : (toCore s).ep = s.ep := rfl
theorem toCore_sub (s : Sys) : (toCore s).sub = s.sub := rfl

theorem step_toCore (cfg : Cfg) (s : Sys) (m : Move) :
    (step cfg s m).map toCore = Tw.NetSim.Core.step cfg (toCore s) (toCoreMove m) := by
  cases m with
  | send x d v =>
    simp only [step, toCoreMove, Tw.NetSim.Core.step]
    by_cases hg : (v && decide ((s.ep x).resendQueue.length ≥ h1Limit)) = true
    · have hg' : (v && decide (((toCore s).ep x).resendQueue.length ≥ Tw.NetSim.Core.h1Limit)) = true := hg
      rw [if_pos hg, if_pos hg']; rfl
    · have hg' : ¬ (v && decide (((toCore s).ep x).resendQueue.length ≥ Tw.NetSim.Core.h1Limit)) = true := hg
      rw [if_neg hg, if_neg hg']
      simp only [toCore_ep]
      cases hs : (s.ep x).send cfg 0 d v with
      | error e => rfl
      | ok r =>
        obtain ⟨o, res, fl⟩ := r
        cases res with
        | tooLongData => rfl
        | ok =>
          simp only [Option.map_some]
          congr 1
          simp only [toCore]
          congr 1
          all_goals first | exact net_upd s x fl | (cases v <;> rfl)
  | flush x =>
    simp only [step, toCoreMove, Tw.NetSim.Core.step, Option.map_some, toCore_ep]
    congr 1
    simp only [toCore]
    congr 1
    exact net_upd s x _
  | resend x =>
    simp only [step, toCoreMove, Tw.NetSim.Core.step, toCore_ep]
    cases hs : (s.ep x).resend cfg 0 .inactive with
    | error e => rfl
    | ok r =>
      obtain ⟨o, snd, fl⟩ := r
      simp only [Option.map_some]
      congr 1
      simp only [toCore]
      congr 1
      exact net_upd s x fl
  | deliver x i =>
    simp only [step, toCoreMove, Tw.NetSim.Core.step]
    have hnet : (toCore s).net (!x) = (s.net (!x)).map toCoreStamped := rfl
    rw [hnet, List.getElem?_map]
    cases hp : (s.net (!x))[i]? with
    | none => rfl
    | some p =>
      simp only [Option.map_some]
      by_cases hg : (s.sub (!x)).length - p.nSelf ≥ h2Limit ∨ (s.sub x).length - p.nPeer ≥ h2Limit
      · have hg' : ((toCore s).sub (!x)).length - (toCoreStamped p).nSelf ≥ Tw.NetSim.Core.h2Limit ∨
            ((toCore s).sub x).length - (toCoreStamped p).nPeer ≥ Tw.NetSim.Core.h2Limit := hg
        rw [if_pos hg, if_pos hg']; rfl
      · have hg' : ¬ (((toCore s).sub (!x)).length - (toCoreStamped p).nSelf ≥ Tw.NetSim.Core.h2Limit ∨
            ((toCore s).sub x).length - (toCoreStamped p).nPeer ≥ Tw.NetSim.Core.h2Limit) := hg
        rw [if_neg hg, if_neg hg']
        simp only [toCore_ep, toCoreStamped]
        cases hfa : (s.ep x).feedAck p.pkt.ack with
        | error e => rfl
        | ok o1 =>
          simp only
          cases hr : o1.receive cfg 0 .inactive p.pkt.requestResend p.pkt.chunks with
          | error e => rfl
          | ok r =>
            obtain ⟨o2, snd2, fl, evs⟩ := r
            simp only [Option.map_some]
            congr 1
            simp only [toCore]
            rw [vitalPayloads_eq, nonvitalPayloads_eq]
            congr 1
            exact net_upd s x fl

end Tw.OnlineNet
