import Tw.Model.OnlineNet
import Tw.Proofs.ConnSafetyOnline
import Tw.Proofs.ConnProgressA

/-!
# C02 (c): progress of the two online cores under fair rounds

`Tw.OnlineNet` (the system `Props/C02` states the progress claim about) is a copy of
`Tw.NetSim.Core`; `toCore` carries the safety invariant `Core.Dir` over.
-/
namespace Tw.OnlineNet
open Tw.Conn Tw.Time

theorem vitalPayloads_eq : ∀ evs, vitalPayloads evs = Tw.NetSim.vitalPayloads evs
  | [] => rfl
  | .chunk d true :: es => by simp [vitalPayloads, Tw.NetSim.vitalPayloads, vitalPayloads_eq es]
  | .chunk d false :: es => by simp [vitalPayloads, Tw.NetSim.vitalPayloads, vitalPayloads_eq es]
  | .connless d :: es => by simp [vitalPayloads, Tw.NetSim.vitalPayloads, vitalPayloads_eq es]
  | .ready :: es => by simp [vitalPayloads, Tw.NetSim.vitalPayloads, vitalPayloads_eq es]
  | .disconnect r :: es => by simp [vitalPayloads, Tw.NetSim.vitalPayloads, vitalPayloads_eq es]

theorem nonvitalPayloads_eq : ∀ evs, nonvitalPayloads evs = Tw.NetSim.nonvitalPayloads evs
  | [] => rfl
  | .chunk d true :: es => by simp [nonvitalPayloads, Tw.NetSim.nonvitalPayloads, nonvitalPayloads_eq es]
  | .chunk d false :: es => by simp [nonvitalPayloads, Tw.NetSim.nonvitalPayloads, nonvitalPayloads_eq es]
  | .connless d :: es => by simp [nonvitalPayloads, Tw.NetSim.nonvitalPayloads, nonvitalPayloads_eq es]
  | .ready :: es => by simp [nonvitalPayloads, Tw.NetSim.nonvitalPayloads, nonvitalPayloads_eq es]
  | .disconnect r :: es => by simp [nonvitalPayloads, Tw.NetSim.nonvitalPayloads, nonvitalPayloads_eq es]

def toCoreStamped (p : Stamped) : Tw.NetSim.Core.Stamped := ⟨p.pkt, p.nSelf, p.nPeer, p.dSelf⟩

def toCore (s : Sys) : Tw.NetSim.Core.Sys :=
  ⟨s.ep, fun x => (s.net x).map toCoreStamped, s.sub, s.del, s.nvSub, s.nvDel⟩

def toCoreMove : Move → Tw.NetSim.Core.Move
  | .send x d v => .send x d v
  | .flush x => .flush x
  | .resend x => .resend x
  | .deliver x i => .deliver x i

theorem upd_eq {α : Type} (f : Bool → α) (x : Bool) (v : α) : upd f x v = Tw.NetSim.Core.upd f x v := rfl

theorem net_upd (s : Sys) (x : Bool) (fl : List Flushed) :
    (fun y => (upd s.net x (s.net x ++ stamp s x fl) y).map toCoreStamped) =
      Tw.NetSim.Core.upd (toCore s).net x ((toCore s).net x ++ Tw.NetSim.Core.stamp (toCore s) x fl) := by
  funext y
  by_cases h : y = x
  · subst h
    simp [upd, Tw.NetSim.Core.upd, toCore, stamp, Tw.NetSim.Core.stamp, toCoreStamped]
  · simp [upd, Tw.NetSim.Core.upd, toCore, h]

theorem toCore_ep (s : Sys) : (toCore s).ep = s.ep := rfl
theorem toCore_sub (s : Sys) : (toCore s).sub = s.sub := rfl

theorem step_toCore (cfg : Cfg) (s : Sys) (m : Move) :
    (step cfg s m).map toCore = Tw.NetSim.Core.step cfg (toCore s) (toCoreMove m) := by
  cases m with
  | send x d v =>
    simp only [step, toCoreMove, Tw.NetSim.Core.step]
    by_cases hg : (v && decide ((s.ep x).resendQueue.length ≥ h1Limit)) = true
    · have hg' : (v && decide (((toCore s).ep x).resendQueue.length ≥ Tw.NetSim.Core.h1Limit)) = true := hg
      rw [if_pos hg, if_pos hg']; rfl
    · have hg' : ¬ (v && decide (((toCore s).ep x).resendQueue.length ≥ Tw.NetSim.Core.h1Limit)) = true := hg
      rw [if_neg hg, if_neg hg']
      simp only [toCore_ep]
      cases hs : (s.ep x).send cfg 0 d v with
      | error e => rfl
      | ok r =>
        obtain ⟨o, res, fl⟩ := r
        cases res with
        | tooLongData => rfl
        | ok =>
          simp only [Option.map_some]
          congr 1
          simp only [toCore]
          congr 1
          all_goals first | exact net_upd s x fl | (cases v <;> rfl)
  | flush x =>
    simp only [step, toCoreMove, Tw.NetSim.Core.step, Option.map_some, toCore_ep]
    congr 1
    simp only [toCore]
    congr 1
    exact net_upd s x _
  | resend x =>
    simp only [step, toCoreMove, Tw.NetSim.Core.step, toCore_ep]
    cases hs : (s.ep x).resend cfg 0 .inactive with
    | error e => rfl
    | ok r =>
      obtain ⟨o, snd, fl⟩ := r
      simp only [Option.map_some]
      congr 1
      simp only [toCore]
      congr 1
      exact net_upd s x fl
  | deliver x i =>
    simp only [step, toCoreMove, Tw.NetSim.Core.step]
    have hnet : (toCore s).net (!x) = (s.net (!x)).map toCoreStamped := rfl
    rw [hnet, List.getElem?_map]
    cases hp : (s.net (!x))[i]? with
    | none => rfl
    | some p =>
      simp only [Option.map_some]
      by_cases hg : (s.sub (!x)).length - p.nSelf ≥ h2Limit ∨ (s.sub x).length - p.nPeer ≥ h2Limit
      · have hg' : ((toCore s).sub (!x)).length - (toCoreStamped p).nSelf ≥ Tw.NetSim.Core.h2Limit ∨
            ((toCore s).sub x).length - (toCoreStamped p).nPeer ≥ Tw.NetSim.Core.h2Limit := hg
        rw [if_pos hg, if_pos hg']; rfl
      · have hg' : ¬ (((toCore s).sub (!x)).length - (toCoreStamped p).nSelf ≥ Tw.NetSim.Core.h2Limit ∨
            ((toCore s).sub x).length - (toCoreStamped p).nPeer ≥ Tw.NetSim.Core.h2Limit) := hg
        rw [if_neg hg, if_neg hg']
        simp only [toCore_ep, toCoreStamped]
        cases hfa : (s.ep x).feedAck p.pkt.ack with
        | error e => rfl
        | ok o1 =>
          simp only
          cases hr : o1.receive cfg 0 .inactive p.pkt.requestResend p.pkt.chunks with
          | error e => rfl
          | ok r =>
            obtain ⟨o2, snd2, fl, evs⟩ := r
            simp only [Option.map_some]
            congr 1
            simp only [toCore]
            rw [vitalPayloads_eq, nonvitalPayloads_eq]
            congr 1
            exact net_upd s x fl

/-! ## the safety invariant on `OnlineNet.Sys` -/

def Inv (cfg : Cfg) (s : Sys) : Prop := ∀ x, Tw.NetSim.Core.Dir cfg (toCore s) x

theorem init_inv (cfg : Cfg) : Inv cfg .init := Tw.NetSim.Core.Sys.init_dir cfg

theorem step_inv {cfg : Cfg} (hc : cfg.Ok) {s s' : Sys} (h : Inv cfg s) (m : Move) (he : step cfg s m = some s') :
    Inv cfg s' := by
  have := step_toCore cfg s m
  rw [he] at this
  exact Tw.NetSim.Core.step_dir hc h (toCoreMove m) this.symm

theorem run_inv {cfg : Cfg} (hc : cfg.Ok) : ∀ (ms : List Move) (s s' : Sys), Inv cfg s → run cfg s ms = some s' →
    Inv cfg s' := by
  intro ms
  induction ms with
  | nil => intro s s' h he; simp [run] at he; subst he; exact h
  | cons m ms ih =>
    intro s s' h he
    simp only [run] at he
    cases hs : step cfg s m with
    | none => rw [hs] at he; cases he
    | some s1 => rw [hs] at he; exact ih s1 s' (step_inv hc h m hs) he

theorem run_append (cfg : Cfg) (a b : List Move) (s : Sys) :
    run cfg s (a ++ b) = (run cfg s a).bind fun s1 => run cfg s1 b := by
  induction a generalizing s with
  | nil => rfl
  | cons m ms ih =>
    simp only [List.cons_append, run]
    cases step cfg s m with
    | none => rfl
    | some s1 => exact ih s1

@[simp] theorem upd_same {α : Type} (f : Bool → α) (x : Bool) (v : α) : upd f x v x = v := by simp [upd]
@[simp] theorem upd_not {α : Type} (f : Bool → α) (x : Bool) (v : α) : upd f x v (!x) = f (!x) := by
  cases x <;> simp [upd]
@[simp] theorem upd_not' {α : Type} (f : Bool → α) (x : Bool) (v : α) : upd f (!x) v x = f x := by
  cases x <;> simp [upd]

/-! ## the moves of a fair round -/

/-- `x` resends and flushes: only `x`'s core and history change -/
theorem phase_step {cfg : Cfg} (hc : cfg.Ok) {s : Sys} (h : Inv cfg s) (x : Bool) :
    ∃ s1 o2 fls, run cfg s [.resend x, .flush x] = some s1 ∧ sendPhase cfg (s.ep x) = some (o2, fls) ∧
      s1.ep x = o2 ∧ s1.ep (!x) = s.ep (!x) ∧ s1.net x = s.net x ++ stamp s x fls ∧ s1.net (!x) = s.net (!x) ∧
      s1.sub = s.sub ∧ s1.del = s.del := by
  have hinv : (s.ep x).Inv cfg := (h x).inv
  obtain ⟨o', send', fl, he, _⟩ := Online.resend_spec hc hinv 0 .inactive
  have hsa : step cfg s (.resend x) =
      some { s with ep := upd s.ep x o', net := upd s.net x (s.net x ++ stamp s x fl) } := by
    simp [step, he]
  refine ⟨{ s with ep := upd (upd s.ep x o') x o'.flush.1,
                   net := upd (upd s.net x (s.net x ++ stamp s x fl)) x
                     (s.net x ++ stamp s x fl ++ stamp s x o'.flush.2) },
    o'.flush.1, fl ++ o'.flush.2, ?_, by simp [sendPhase, he], ?_, ?_, ?_, ?_, rfl, rfl⟩
  · simp only [run]
    rw [hsa]
    simp only [step, upd_same]
    rfl
  all_goals simp [stamp]

/-- one delivery: the receiving core does `recvOnline`, nothing else changes but its history and logs -/
theorem deliver_step {cfg : Cfg} (hc : cfg.Ok) {s : Sys} (h : Inv cfg s) (y : Bool) (i : Nat) (p : Stamped)
    (hp : (s.net (!y))[i]? = some p) (h1 : p.nSelf = (s.sub (!y)).length) (h2 : p.nPeer = (s.sub y).length) :
    ∃ s' o2, step cfg s (.deliver y i) = some s' ∧ recvOnline cfg (s.ep y) p.pkt = some o2 ∧
      s'.ep y = o2 ∧ s'.ep (!y) = s.ep (!y) ∧ s'.net (!y) = s.net (!y) ∧ s'.sub = s.sub ∧
      s'.del (!y) = s.del (!y) ∧ (s.del y).length ≤ (s'.del y).length ∧ (∃ ext, s'.net y = s.net y ++ ext) := by
  have hpm : toCoreStamped p ∈ (toCore s).net (!y) := by
    simp only [toCore]
    exact List.mem_map_of_mem (List.mem_of_getElem? hp)
  -- the ack is a 10-bit value, the chunk sequence numbers too
  have hack : p.pkt.ack < seqMod := by
    have := ((h y).acks _ hpm).1
    simp only [toCoreStamped] at this
    rw [this, Tw.Conn.seqMod_eq]; omega
  have hseq : chunksSeqOk p.pkt.chunks = true := by
    have := ((h (!y)).net _ hpm).2.1
    simp only [chunksSeqOk, List.all_eq_true]
    intro c hcm
    cases hv : c.vital with
    | none => rfl
    | some v =>
      obtain ⟨sq, r⟩ := v
      obtain ⟨k, _, _, hk⟩ := this c hcm sq r hv
      simp only [decide_eq_true_eq]
      rw [hk.2, Tw.Conn.seqMod_eq]; omega
  have hinv : (s.ep y).Inv cfg := (h y).inv
  obtain ⟨hfa, hinv1⟩ := Online.feedAck_spec hinv hack
  obtain ⟨o2, snd2, fl, evs, hrc, _⟩ := Online.receive_spec hc hinv1 0 .inactive p.pkt.requestResend p.pkt.chunks hseq
  refine ⟨{ s with ep := upd s.ep y o2, net := upd s.net y (s.net y ++ stamp s y fl),
                   del := upd s.del y (s.del y ++ vitalPayloads evs),
                   nvDel := upd s.nvDel y (s.nvDel y ++ nonvitalPayloads evs) },
    o2, ?_, by simp [recvOnline, hfa, hrc], ?_, ?_, ?_, ?_, ?_, ?_, ⟨stamp s y fl, ?_⟩⟩
  · simp only [step, hp, hfa, hrc]
    rw [if_neg]
    simp only [h2Limit, h1, h2]; omega
  all_goals simp

/-- the deliveries of one block: the receiving core does `recvList` -/
theorem block_run {cfg : Cfg} (hc : cfg.Ok) (y : Bool) : ∀ (ds old rest : List Stamped) (s : Sys), Inv cfg s →
    s.net (!y) = old ++ ds ++ rest → (∀ p ∈ ds, p.nSelf = (s.sub (!y)).length ∧ p.nPeer = (s.sub y).length) →
    ∃ s' o', run cfg s ((List.range' old.length ds.length).map (Move.deliver y)) = some s' ∧
      recvList cfg (s.ep y) (ds.map (·.pkt)) = some o' ∧ s'.ep y = o' ∧ s'.ep (!y) = s.ep (!y) ∧
      s'.net (!y) = s.net (!y) ∧ s'.sub = s.sub ∧ s'.del (!y) = s.del (!y) ∧
      (s.del y).length ≤ (s'.del y).length ∧ (∃ ext, s'.net y = s.net y ++ ext) ∧ Inv cfg s' := by
  intro ds
  induction ds with
  | nil =>
    intro old rest s h _ _
    exact ⟨s, s.ep y, rfl, rfl, rfl, rfl, rfl, rfl, rfl, Nat.le_refl _, ⟨[], by simp⟩, h⟩
  | cons p ds ih =>
    intro old rest s h hnet hst
    have hp : (s.net (!y))[old.length]? = some p := by
      rw [hnet, List.append_assoc, List.getElem?_append_right (Nat.le_refl _)]; simp
    obtain ⟨s1, o2, hs1, hr1, e1, e2, e3, e4, e5, e6, ⟨x1, e7⟩⟩ :=
      deliver_step hc h y old.length p hp (hst p (by simp)).1 (hst p (by simp)).2
    have hinv1 := step_inv hc h _ hs1
    obtain ⟨s', o', hs', hr', f1, f2, f3, f4, f5, f6, ⟨x2, f7⟩, f8⟩ := ih (old ++ [p]) rest s1 hinv1
      (by rw [e3, hnet]; simp) (by
        intro q hq
        rw [e4]; exact hst q (List.mem_cons_of_mem _ hq))
    refine ⟨s', o', ?_, ?_, f1, by rw [f2, e2], by rw [f3, e3], by rw [f4, e4], by rw [f5, e5],
      Nat.le_trans e6 f6, ⟨x1 ++ x2, by rw [f7, e7]; simp⟩, f8⟩
    · simp only [List.length_cons, List.range'_succ, List.map_cons, run, hs1]
      simpa using hs'
    · simp only [List.map_cons, recvList, hr1]
      rw [← e1]; exact hr'

/-! ## one fair round -/

theorem range_drop (a b : Nat) : (List.range (a + b)).drop a = List.range' a b := by
  apply List.ext_getElem?
  intro i
  simp only [List.getElem?_drop, List.getElem?_range', List.getElem?_range]
  by_cases h : i < b
  · simp [h]
  · simp [h]

theorem stamp_pkt (s : Sys) (x : Bool) (fl : List Flushed) : (stamp s x fl).map (·.pkt) = fl := by
  simp [stamp, Function.comp_def]

/-- what a fair round is, in terms of the two cores: `sb` is the state after both sides resent and
flushed, `s'` the state after the deliveries -/
structure Round (cfg : Cfg) (s sb s' : Sys) : Prop where
  inv0 : Inv cfg s
  invb : Inv cfg sb
  inv' : Inv cfg s'
  subb : sb.sub = s.sub
  delb : sb.del = s.del
  sub' : s'.sub = s.sub
  mono : ∀ y, (s.del y).length ≤ (s'.del y).length
  phase : ∀ x, ∃ fls, sendPhase cfg (s.ep x) = some (sb.ep x, fls) ∧
    recvList cfg (sb.ep (!x)) fls = some (s'.ep (!x))

theorem fairRound_spec {cfg : Cfg} (hc : cfg.Ok) {s : Sys} (h : Inv cfg s) :
    ∃ sb s', fairRound cfg s = some s' ∧ Round cfg s sb s' := by
  obtain ⟨sa, oT, fT, ha, hpT, a1, a2, a3, a4, a5, a6⟩ := phase_step hc h true
  have hinva := run_inv hc _ _ _ h ha
  obtain ⟨sb, oF, fF, hb, hpF, b1, b2, b3, b4, b5, b6⟩ := phase_step hc hinva false
  have hinvb := run_inv hc _ _ _ hinva hb
  simp only [Bool.not_true, Bool.not_false] at a2 a4 b2 b4
  have h4 : run cfg s [.resend true, .flush true, .resend false, .flush false] = some sb := by
    have := run_append cfg [.resend true, .flush true] [.resend false, .flush false] s
    simp only [List.cons_append, List.nil_append] at this
    rw [this, ha]; exact hb
  -- block 1: T's datagrams to F
  have hnT : sb.net true = s.net true ++ stamp s true fT ++ [] := by rw [b4, a3]; simp
  obtain ⟨sc, oF', hc1, hr1, c1, c2, c3, c4, c5, c6, ⟨xF, c7⟩, hinvc⟩ :=
    block_run hc false (stamp s true fT) (s.net true) [] sb hinvb (by simpa using hnT) (by
      intro p hp
      simp only [stamp, List.mem_map] at hp
      obtain ⟨f, _, rfl⟩ := hp
      simp only [Bool.not_false]
      rw [b5, a5]; exact ⟨rfl, rfl⟩)
  simp only [Bool.not_false] at c2 c3 c5
  -- block 2: F's datagrams to T
  have hnF : sc.net false = s.net false ++ stamp sa false fF ++ xF := by rw [c7, b3, a4]
  obtain ⟨sd, oT', hd1, hr2, d1, d2, d3, d4, d5, d6, _, hinvd⟩ :=
    block_run hc true (stamp sa false fF) (s.net false) xF sc hinvc (by simpa using hnF) (by
      intro p hp
      simp only [stamp, List.mem_map] at hp
      obtain ⟨f, _, rfl⟩ := hp
      simp only [Bool.not_true]
      rw [c4, b5]; exact ⟨rfl, rfl⟩)
  simp only [Bool.not_true] at d2 d3 d5
  refine ⟨sb, sd, ?_, ⟨h, hinvb, hinvd, by rw [b5, a5], by rw [b6, a6], by rw [d4, c4, b5, a5], ?_, ?_⟩⟩
  · simp only [fairRound, h4]
    have e1 : (List.range (sb.net true).length).drop (s.net true).length =
        List.range' (s.net true).length (stamp s true fT).length := by
      rw [b4, a3, List.length_append]; exact range_drop _ _
    have e2 : (List.range (sb.net false).length).drop (s.net false).length =
        List.range' (s.net false).length (stamp sa false fF).length := by
      rw [b3, a4, List.length_append]; exact range_drop _ _
    rw [e1, e2, run_append, hc1]
    exact hd1
  · intro y
    cases y with
    | false =>
      have : (sb.del false).length ≤ (sc.del false).length := c6
      rw [b6, a6] at this
      rw [d5]; exact this
    | true =>
      have : (sc.del true).length ≤ (sd.del true).length := d6
      rw [c5, b6, a6] at this
      exact this
  · intro x
    cases x with
    | true =>
      refine ⟨fT, by rw [b2, a1]; exact hpT, ?_⟩
      simp only [Bool.not_true]
      rw [d2, c1]
      rw [stamp_pkt] at hr1
      exact hr1
    | false =>
      refine ⟨fF, by rw [b1, ← a2]; exact hpF, ?_⟩
      simp only [Bool.not_false]
      rw [d1]
      rw [stamp_pkt, c2] at hr2
      exact hr2

/-! ## what the invariant says, in `OnlineNet` terms -/

section
variable {cfg : Cfg} {s : Sys}
open Tw.NetSim

theorem Inv.core (h : Inv cfg s) (x : Bool) : (s.ep x).Inv cfg := (h x).inv
theorem Inv.ack (h : Inv cfg s) (x : Bool) : (s.ep (!x)).ack = (s.del (!x)).length % 1024 := (h x).ack
theorem Inv.pre (h : Inv cfg s) (x : Bool) : s.del (!x) = (s.sub x).take (s.del (!x)).length := (h x).pre
theorem Inv.dle (h : Inv cfg s) (x : Bool) : (s.del (!x)).length ≤ (s.sub x).length := (h x).dle
theorem Inv.qlen (h : Inv cfg s) (x : Bool) : (s.ep x).resendQueue.length ≤ 512 := (h x).qlen
theorem Inv.qwin (h : Inv cfg s) (x : Bool) :
    (s.sub x).length ≤ (s.del (!x)).length + (s.ep x).resendQueue.length := (h x).qwin
theorem Inv.q (h : Inv cfg s) (x : Bool) : QueueOk (s.sub x) (s.ep x).resendQueue := (h x).q

end

theorem queueOk_shape {sub : List Bytes} {q : List ResendChunk} (hq : Tw.NetSim.QueueOk sub q) :
    ∀ i c, q[i]? = some c → i < sub.length ∧ sub[sub.length - 1 - i]? = some c.data ∧
      c.seq = (sub.length - i) % 1024 := by
  intro i c hic
  obtain ⟨h1, h2, h3⟩ := hq i c hic
  refine ⟨h1, h2, ?_⟩
  rw [h3]; congr 1; omega

theorem queueOk_len {sub : List Bytes} {q : List ResendChunk} (hq : Tw.NetSim.QueueOk sub q) :
    q.length ≤ sub.length := by
  by_cases h : q.length = 0
  · omega
  · have := (hq (q.length - 1) _ (List.getElem?_eq_getElem (by omega))).1
    omega

theorem vitals_flatMap (fls : List Flushed) : vitals (fls.flatMap (·.chunks)) = flVitals fls := by
  induction fls with
  | nil => rfl
  | cons f fls ih => simp [List.flatMap_cons, vitals_append, flVitals, ih] at *

theorem mem_vitals {cs : List Chunk} {c : Chunk} {sq : Nat} {r : Bool} (hc : c ∈ cs) (hv : c.vital = some (sq, r)) :
    (sq, c.data) ∈ vitals cs := by
  induction cs with
  | nil => simp at hc
  | cons c0 cs ih =>
    rcases List.mem_cons.mp hc with rfl | hc
    · simp [vitals, hv]
    · have := ih hc
      unfold vitals
      cases c0.vital with
      | none => exact this
      | some v => obtain ⟨s0, r0⟩ := v; exact List.mem_cons_of_mem _ this

theorem mem_flVitals {fls : List Flushed} {p : Flushed} {c : Chunk} {sq : Nat} {r : Bool} (hp : p ∈ fls)
    (hc : c ∈ p.chunks) (hv : c.vital = some (sq, r)) : (sq, c.data) ∈ flVitals fls := by
  simp only [flVitals, List.mem_flatMap]
  exact ⟨p, hp, mem_vitals hc hv⟩

theorem flVitals_nil {fls : List Flushed} (h : flVitals fls = []) : ∀ p ∈ fls, vitals p.chunks = [] := by
  intro p hp
  simp only [flVitals, List.flatMap_eq_nil_iff] at h
  exact h p hp

/-! ## the four stages of one direction (`x` submits, `!x` is handed) -/

/-- everything submitted has been handed over -/
def Stage1 (s : Sys) (x : Bool) : Prop := (s.del (!x)).length = (s.sub x).length
/-- … and the sender's queue is empty or the receiver is about to ask for a resend (its next
datagram will carry the ack) -/
def Stage2 (s : Sys) (x : Bool) : Prop :=
  Stage1 s x ∧ ((s.ep x).resendQueue = [] ∨ (s.ep (!x)).requestResend = true)
/-- … the sender's queue and packet are empty -/
def Stage3 (s : Sys) (x : Bool) : Prop :=
  Stage1 s x ∧ (s.ep x).resendQueue = [] ∧ (s.ep x).packet.chunks = []
/-- … and the receiver asks for nothing -/
def Stage4 (s : Sys) (x : Bool) : Prop := Stage3 s x ∧ (s.ep (!x)).requestResend = false

variable {cfg : Cfg}

/-- round 1: the resent chunks arrive in order, the receiver is fully up to date -/
theorem Round.stage1 (hc : cfg.Ok) {s sb s' : Sys} (R : Round cfg s sb s') (x : Bool) : Stage1 s' x := by
  obtain ⟨fls, hsp, hrl⟩ := R.phase x
  obtain ⟨_, _, _, _, _, _, sne, _, _⟩ := sendPhase_spec hc (R.inv0.core x) hsp
  have hackb : (sb.ep (!x)).ack = (s.del (!x)).length % 1024 := by
    have := R.invb.ack x; rw [R.delb] at this; exact this
  have hack' := R.inv'.ack x
  have hdle' : (s'.del (!x)).length ≤ (s.sub x).length := by have := R.inv'.dle x; rw [R.sub'] at this; exact this
  have hmono := R.mono (!x)
  have hqwin := R.inv0.qwin x
  have hqlen := R.inv0.qlen x
  have hdle := R.inv0.dle x
  have hql := queueOk_len (R.inv0.q x)
  unfold Stage1
  rw [R.sub']
  by_cases hq : (s.ep x).resendQueue = []
  · rw [hq] at hqwin; simp at hqwin; omega
  · obtain ⟨hv, _⟩ := sne hq
    have hqv := queue_vitals (s.sub x) _ (queueOk_shape (R.inv0.q x))
    have hcons : Consecutive (s.sub x) ((s.sub x).length - (s.ep x).resendQueue.length)
        (fls.flatMap (·.chunks)) (s.ep x).resendQueue.length :=
      consecutive_of_vitals _ _ _ _ (by rw [vitals_flatMap, hv, hqv]) (by omega)
    have hra := recvList_ack _ _ _ hrl
    rw [hackb] at hra
    have := (receive_from_behind (s.sub x) _ _ _ hcons (s.del (!x)).length false (by omega) (by omega) (by omega)).1
    rw [this] at hra
    rw [hack'] at hra
    omega

theorem Round.queue_idle (hc : cfg.Ok) {s sb s' : Sys} (R : Round cfg s sb s') (x : Bool)
    (hq : (s.ep x).resendQueue = []) :
    (s'.ep x).resendQueue = [] ∧ ((s.ep x).packet.chunks = [] ∨ True) ∧ (s'.ep x).packet.chunks = [] := by
  obtain ⟨fls, hsp, _⟩ := R.phase x
  obtain ⟨_, _, slen, _, spk, _, _, _, _⟩ := sendPhase_spec hc (R.inv0.core x) hsp
  obtain ⟨flsy, _, hrly⟩ := R.phase (!x)
  simp only [Bool.not_not] at hrly
  have hqb : (sb.ep x).resendQueue = [] := by
    rw [hq] at slen; exact List.length_eq_zero_iff.mp slen
  obtain ⟨a, b⟩ := recvList_idle _ _ _ hrly hqb
  exact ⟨a, Or.inr trivial, by rw [b]; exact spk⟩

/-- round 2: the receiver's datagrams now carry the full ack; if it sends none, the retransmissions
it rejects make it ask for a resend -/
theorem Round.stage2 (hc : cfg.Ok) {s sb s' : Sys} (R : Round cfg s sb s') (x : Bool) (h1 : Stage1 s x) :
    Stage2 s' x := by
  refine ⟨R.stage1 hc x, ?_⟩
  by_cases hq : (s.ep x).resendQueue = []
  · exact Or.inl (R.queue_idle hc x hq).1
  · right
    obtain ⟨fls, hsp, hrl⟩ := R.phase x
    obtain ⟨_, _, _, _, _, _, sne, _, _⟩ := sendPhase_spec hc (R.inv0.core x) hsp
    obtain ⟨hv, pre, last, hfl, hlast⟩ := sne hq
    have hqv := queue_vitals (s.sub x) _ (queueOk_shape (R.inv0.q x))
    have hackb : (sb.ep (!x)).ack = (s.del (!x)).length % 1024 := by
      have := R.invb.ack x; rw [R.delb] at this; exact this
    have hqlen := R.inv0.qlen x
    have hql := queueOk_len (R.inv0.q x)
    unfold Stage1 at h1
    refine (recvList_rr_set _ _ _ hrl ?_).2 pre last hfl hlast
    intro p hp c hcm sq r hvit
    have hm := mem_flVitals hp hcm hvit
    rw [hv, hqv, List.mem_map] at hm
    obtain ⟨k, hk, hke⟩ := hm
    rw [List.mem_range'_1] at hk
    injection hke with hke1 _
    rw [hackb, Tw.NetSim.seqNext_eq, ← hke1, h1]
    omega

/-- round 3: the ack empties the sender's queue -/
theorem Round.stage3 (hc : cfg.Ok) {s sb s' : Sys} (R : Round cfg s sb s') (x : Bool) (h2 : Stage2 s x) :
    Stage3 s' x := by
  refine ⟨R.stage1 hc x, ?_⟩
  by_cases hq : (s.ep x).resendQueue = []
  · exact ⟨(R.queue_idle hc x hq).1, (R.queue_idle hc x hq).2.2⟩
  · have hrr : (s.ep (!x)).requestResend = true := by
      rcases h2.2 with h | h
      · exact absurd h hq
      · exact h
    obtain ⟨fls, hsp, _⟩ := R.phase x
    obtain ⟨_, _, slen, _, spk, _, _, _, _⟩ := sendPhase_spec hc (R.inv0.core x) hsp
    obtain ⟨flsy, hspy, hrly⟩ := R.phase (!x)
    simp only [Bool.not_not] at hrly
    obtain ⟨_, _, _, _, _, sacks, _, _, semit⟩ := sendPhase_spec hc (R.inv0.core (!x)) hspy
    have hne := semit (Or.inr (Or.inr hrr))
    -- the sender's queue after its own resend: same chunks, the newest has sequence n mod 1024
    have hqb : (sb.ep x).resendQueue ≠ [] := by
      intro hh; rw [hh] at slen; exact hq (List.length_eq_zero_iff.mp slen.symm)
    cases hflsy : flsy with
    | nil => exact absurd hflsy hne
    | cons p ps =>
      cases hqc : (sb.ep x).resendQueue with
      | nil => exact absurd hqc hqb
      | cons c rest =>
        have hcseq : c.seq = (s.sub x).length % 1024 := by
          have hqs := queueOk_shape (R.invb.q x) 0 c (by rw [hqc]; rfl)
          rw [R.subb] at hqs
          simpa using hqs.2.2
        have hpack : p.ack = c.seq := by
          rw [sacks p (by rw [hflsy]; simp), R.inv0.ack x, hcseq, h2.1]
        rw [hflsy] at hrly
        obtain ⟨a, b⟩ := recvList_acked p ps _ _ hrly c rest hqc hpack
        exact ⟨a, by rw [b]; exact spk⟩

/-- round 4: nothing vital is sent any more, the receiver's resend request has been flushed -/
theorem Round.stage4 (hc : cfg.Ok) {s sb s' : Sys} (R : Round cfg s sb s') (x : Bool) (h3 : Stage3 s x) :
    Stage4 s' x := by
  obtain ⟨_, hq, hpk⟩ := h3
  refine ⟨⟨R.stage1 hc x, (R.queue_idle hc x hq).1, (R.queue_idle hc x hq).2.2⟩, ?_⟩
  obtain ⟨fls, hsp, hrl⟩ := R.phase x
  obtain ⟨_, _, _, _, _, _, _, semp, _⟩ := sendPhase_spec hc (R.inv0.core x) hsp
  obtain ⟨flsy, hspy, _⟩ := R.phase (!x)
  obtain ⟨_, _, _, srr, _, _, _, _, _⟩ := sendPhase_spec hc (R.inv0.core (!x)) hspy
  have hv := semp hq
  rw [hpk] at hv
  exact recvList_rr_false _ _ _ hrl srr (flVitals_nil (by simpa [vitals] using hv))

/-! ## four fair rounds reach quiescence -/

theorem fairRounds_succ (cfg : Cfg) (k : Nat) (s : Sys) :
    fairRounds cfg (k + 1) s = (fairRound cfg s).bind (fairRounds cfg k) := by
  simp only [fairRounds]
  cases fairRound cfg s <;> rfl

/-- **progress**: from every state satisfying the safety invariant, four fair rounds (each side
resends and flushes, every datagram of the round is delivered once, in order) end in a state where
everything submitted has been handed over, nothing is unacknowledged or queued and no resend is
requested -/
theorem progress_inv {cfg : Cfg} (hc : cfg.Ok) {s : Sys} (h : Inv cfg s) :
    ∃ s', fairRounds cfg 4 s = some s' ∧ quiescent s' ∧ Inv cfg s' := by
  obtain ⟨b1, s1, e1, R1⟩ := fairRound_spec hc h
  obtain ⟨b2, s2, e2, R2⟩ := fairRound_spec hc R1.inv'
  obtain ⟨b3, s3, e3, R3⟩ := fairRound_spec hc R2.inv'
  obtain ⟨b4, s4, e4, R4⟩ := fairRound_spec hc R3.inv'
  refine ⟨s4, ?_, ?_, R4.inv'⟩
  · simp only [fairRounds_succ, e1, e2, e3, e4, Option.bind_some, fairRounds]
  · have st : ∀ x, Stage4 s4 x := fun x =>
      R4.stage4 hc x (R3.stage3 hc x (R2.stage2 hc x (R1.stage1 hc x)))
    intro x
    obtain ⟨⟨h1, hq, hp⟩, _⟩ := st x
    refine ⟨?_, hq, hp, ?_⟩
    · have := R4.inv'.pre x
      unfold Stage1 at h1
      rw [this, h1, List.take_length]
    · have := (st (!x)).2
      simpa using this

/-- **C02 (c), online phase**: from every state reachable by any schedule (loss, duplication,
reordering, delay, arbitrary sends under H1/H2), at most four fair rounds reach quiescence -/
theorem progress {cfg : Cfg} (hc : cfg.Ok) (ms : List Move) (s : Sys) (hr : run cfg .init ms = some s) :
    ∃ k s', k ≤ 4 ∧ fairRounds cfg k s = some s' ∧ quiescent s' := by
  obtain ⟨s', h1, h2, _⟩ := progress_inv hc (run_inv hc ms _ s (init_inv cfg) hr)
  exact ⟨4, s', Nat.le_refl _, h1, h2⟩

end Tw.OnlineNet
