import Tw.Model.Map
import Tw.Proofs.Datafile

/-! Helper lemmas about the map layer model (`Tw.Model.Map`). -/
namespace Tw.Map
open Tw.Datafile Tw.Gen.MapItems

/-! ### `from_slice_rest` -/

theorem fromSliceRest_no_panic (sp : Spec) (slice : List Int) (s : String) :
    fromSliceRest sp slice ≠ .panic s := by
  unfold fromSliceRest
  simp only
  split
  · rename_i r hr
    split at hr
    · simp at hr
    · split at hr
      · simp at hr; subst hr; simp
      · split at hr
        · simp at hr; subst hr; simp
        · simp at hr
  · split
    · simp
    · rename_i hlen
      rw [if_neg (by omega)]
      simp only [List.length_drop]
      rw [if_neg (by omega)]
      simp

/-- a found item is the window `slice[offset .. offset + len]` -/
theorem fromSliceRest_found {sp : Spec} {slice item rest : List Int}
    (h : fromSliceRest sp slice = .found item rest) :
    sp.offset + sp.len ≤ slice.length ∧ item = (slice.drop sp.offset).take sp.len
      ∧ item.length = sp.len ∧ rest = slice.drop (sp.offset + sp.len) := by
  unfold fromSliceRest at h
  simp only at h
  split at h
  · rename_i r hr
    split at hr
    · simp at hr
    · split at hr
      · simp at hr; subst hr; simp at h
      · split at hr
        · simp at hr; subst hr; simp at h
        · simp at hr
  · split at h
    · simp at h
    · rename_i hlen
      rw [if_neg (by omega)] at h
      simp only [List.length_drop] at h
      rw [if_neg (by omega)] at h
      cases h
      refine ⟨by omega, rfl, ?_, ?_⟩
      · simp only [List.length_take, List.length_drop]; omega
      · simp [List.drop_drop]

theorem mandatory_no_panic (sp : Spec) (slice : List Int) (ts s : String) :
    mandatory sp slice ts ≠ .panic s := by
  unfold mandatory
  split <;> simp
  rename_i s' h
  exact absurd h (fromSliceRest_no_panic sp slice s')

theorem optional_no_panic (sp : Spec) (slice : List Int) (ts s : String) :
    optional sp slice ts ≠ .panic s := by
  unfold optional
  split <;> simp
  rename_i s' h
  exact absurd h (fromSliceRest_no_panic sp slice s')

/-! ### `get_index` -/

theorem getIndexImpl_some {index : Int} {a b i : Nat} (h : getIndexImpl index a b = some i) :
    a ≤ i ∧ i < b := by
  unfold getIndexImpl at h
  split at h
  · simp at h
  · split at h
    · simp at h; omega
    · simp at h

theorem getIndex_ok {index : Int} {a b i : Nat} {e : String} (h : getIndex index a b e = .ok i) :
    a ≤ i ∧ i < b := by
  unfold getIndex at h
  split at h
  · rename_i j hj; cases h; exact getIndexImpl_some hj
  · simp at h

theorem getIndex_no_panic (index : Int) (a b : Nat) (e s : String) :
    getIndex index a b e ≠ .panic s := by
  unfold getIndex; split <;> simp

theorem getIndexOpt_ok {index : Int} {a b i : Nat} {e : String}
    (h : getIndexOpt index a b e = .ok (some i)) : a ≤ i ∧ i < b := by
  unfold getIndexOpt at h
  split at h
  · simp at h
  · split at h
    · rename_i j hj; cases h; exact getIndexImpl_some hj
    · simp at h

theorem getIndexOpt_no_panic (index : Int) (a b : Nat) (e s : String) :
    getIndexOpt index a b e ≠ .panic s := by
  unfold getIndexOpt; split; · simp
  split <;> simp

/-! ### `SettingsIter` -/

theorem idxOf?_lt {l : List UInt8} {x : UInt8} {k : Nat} (h : l.idxOf? x = some k) : k < l.length := by
  have := List.idxOf?_eq_some_iff.1 h
  obtain ⟨hk, _⟩ := this
  exact hk

/-- one step from a position inside the block stays inside the block and moves forward -/
theorem settingsNext_step {s : List UInt8} {pos : Nat} (hpos : pos ≤ s.length) :
    settingsNext s pos = .ok none
      ∨ ∃ item pos', settingsNext s pos = .ok (some (item, pos')) ∧ pos < pos' ∧ pos' ≤ s.length := by
  unfold settingsNext
  rw [if_neg (by omega)]
  split
  · exact Or.inl rfl
  · rename_i len hlen
    have := idxOf?_lt hlen
    simp only [List.length_drop] at this
    exact Or.inr ⟨_, _, rfl, by omega, by omega⟩

/-- `SettingsIter` terminates and never panics: `length - pos + 1` steps of fuel suffice. -/
theorem settingsAll_terminates (s : List UInt8) :
    ∀ (fuel pos : Nat), pos ≤ s.length → s.length - pos + 1 ≤ fuel →
      ∃ items, settingsAll s fuel pos = some (.ok items) := by
  intro fuel
  induction fuel with
  | zero => intro pos _ h; omega
  | succ fuel ih =>
    intro pos hpos hfuel
    unfold settingsAll
    rcases settingsNext_step hpos with h | ⟨item, pos', h, h1, h2⟩
    · rw [h]; exact ⟨[], rfl⟩
    · rw [h]
      simp only
      obtain ⟨rest, hrest⟩ := ih pos' h2 (by omega)
      rw [hrest]
      exact ⟨item :: rest, rfl⟩

end Tw.Map

namespace Tw.Map
open Tw.Datafile Tw.Gen.MapItems

/-! ### `*::from_raw`: never a panic, indices inside the ranges they were checked against -/

/-- case analysis of a hypothesis `h : <nested match/if> = result`; closes contradictory branches -/
macro "crunch " h:ident " with " ls:Lean.Parser.Tactic.simpLemma,* : tactic =>
  `(tactic| repeat' (first
      | (simp [$ls,*] at $h:ident; done)
      | split at $h:ident
      | (simp only [] at $h:ident; split at $h:ident)))

/-- an optional index lies in `a .. b` -/
def OptIn (o : Option Nat) (a b : Nat) : Prop := ∀ i, o = some i → a ≤ i ∧ i < b

theorem getIndexOpt_in {index : Int} {a b : Nat} {e : String} {o : Option Nat}
    (h : getIndexOpt index a b e = .ok o) : OptIn o a b := by
  intro i hi; subst hi; exact getIndexOpt_ok h

theorem optIn_none (a b : Nat) : OptIn none a b := by intro i hi; cases hi

theorem Group.fromRaw_no_panic (raw : List Int) (la lb : Nat) (s : String) :
    Group.fromRaw raw la lb ≠ .panic s := by
  intro h
  unfold Group.fromRaw at h
  crunch h with mandatory_no_panic, optional_no_panic
  all_goals simp_all [mandatory_no_panic, optional_no_panic]

theorem Group.fromRaw_ok {raw : List Int} {la lb : Nat} {g : Group}
    (h : Group.fromRaw raw la lb = .ok g) :
    la ≤ g.layersStart ∧ g.layersStart ≤ g.layersEnd ∧ g.layersEnd ≤ lb := by
  unfold Group.fromRaw at h
  crunch h with mandatory_no_panic
  all_goals (cases h; simp only; omega)

theorem soundsV2Gate_no_panic (raw : List Int) (legacy : Bool) (s : String) :
    soundsV2Gate raw legacy ≠ .panic s := by
  unfold soundsV2Gate; split; · simp
  exact mandatory_no_panic _ _ _ _

theorem Sounds.fromRaw_no_panic (raw : List Int) (da db sa sb : Nat) (legacy : Bool) (s : String) :
    Sounds.fromRaw raw da db sa sb legacy ≠ .panic s := by
  intro h
  unfold Sounds.fromRaw at h
  crunch h with mandatory_no_panic, getIndex_no_panic, getIndexOpt_no_panic, soundsV2Gate_no_panic
  all_goals simp_all [mandatory_no_panic, getIndex_no_panic, getIndexOpt_no_panic, soundsV2Gate_no_panic]

theorem Sounds.fromRaw_ok {raw : List Int} {da db sa sb : Nat} {legacy : Bool} {x : Sounds}
    (h : Sounds.fromRaw raw da db sa sb legacy = .ok x) :
    (da ≤ x.data ∧ x.data < db) ∧ OptIn x.sound sa sb := by
  unfold Sounds.fromRaw at h
  crunch h with mandatory_no_panic
  all_goals (cases h; exact ⟨getIndex_ok ‹getIndex _ da db _ = Res.ok _›,
    getIndexOpt_in ‹getIndexOpt _ sa sb _ = Res.ok _›⟩)

theorem Quads.fromRaw_no_panic (raw : List Int) (da db ia ib : Nat) (s : String) :
    Quads.fromRaw raw da db ia ib ≠ .panic s := by
  intro h
  unfold Quads.fromRaw at h
  crunch h with mandatory_no_panic, optional_no_panic, getIndex_no_panic, getIndexOpt_no_panic
  all_goals simp_all [mandatory_no_panic, optional_no_panic, getIndex_no_panic, getIndexOpt_no_panic]

theorem Quads.fromRaw_ok {raw : List Int} {da db ia ib : Nat} {x : Quads}
    (h : Quads.fromRaw raw da db ia ib = .ok x) :
    (da ≤ x.data ∧ x.data < db) ∧ OptIn x.image ia ib := by
  unfold Quads.fromRaw at h
  crunch h with mandatory_no_panic
  all_goals (cases h; exact ⟨getIndex_ok ‹getIndex _ da db _ = Res.ok _›,
    getIndexOpt_in ‹getIndexOpt _ ia ib _ = Res.ok _›⟩)

theorem extraIndex_no_panic (raw : List Int) (v : Int) (f da db : Nat) (a b s : String) :
    extraIndex raw v f da db a b ≠ .panic s := by
  unfold extraIndex; split; · simp
  exact getIndex_no_panic _ _ _ _ _

theorem extraIndex_ok {raw : List Int} {v : Int} {f da db d : Nat} {a b : String}
    (h : extraIndex raw v f da db a b = .ok d) : da ≤ d ∧ d < db := by
  unfold extraIndex at h
  split at h
  · simp at h
  · exact getIndex_ok h

/-- every index a tile layer carries lies in the range it was checked against -/
def TilemapType.InRange (t : TilemapType) (da db ea eb ia ib : Nat) : Prop :=
  match t with
  | .normal _ env img data =>
    (da ≤ data ∧ data < db) ∧ (∀ e off, env = some (e, off) → ea ≤ e ∧ e < eb) ∧ OptIn img ia ib
  | .game d => da ≤ d ∧ d < db
  | .teleport d z => (da ≤ d ∧ d < db) ∧ (da ≤ z ∧ z < db)
  | .speedup d z => (da ≤ d ∧ d < db) ∧ (da ≤ z ∧ z < db)
  | .front d z => (da ≤ d ∧ d < db) ∧ (da ≤ z ∧ z < db)
  | .switch d z => (da ≤ d ∧ d < db) ∧ (da ≤ z ∧ z < db)
  | .tune d z => (da ≤ d ∧ d < db) ∧ (da ≤ z ∧ z < db)

theorem tilemapColor_no_panic (v2 : List Int) (s : String) : tilemapColor v2 ≠ .panic s := by
  unfold tilemapColor; split <;> simp

theorem tilemapColorEnv_no_panic (v2 : List Int) (ea eb : Nat) (s : String) :
    tilemapColorEnv v2 ea eb ≠ .panic s := by
  intro h
  unfold tilemapColorEnv at h
  crunch h with getIndex_no_panic
  all_goals simp_all [getIndex_no_panic]

theorem tilemapColorEnv_ok {v2 : List Int} {ea eb : Nat} {o : Option (Nat × Int)}
    (h : tilemapColorEnv v2 ea eb = .ok o) : ∀ e off, o = some (e, off) → ea ≤ e ∧ e < eb := by
  unfold tilemapColorEnv at h
  crunch h with getIndex_no_panic
  · cases h; intro e off he; cases he
  · cases h; intro e off he; cases he; exact getIndex_ok ‹getIndex _ ea eb _ = Res.ok _›

theorem tilemapType_no_panic (raw : List Int) (version : Int) (flags : Nat) (ff : Int)
    (color : Nat × Nat × Nat × Nat) (colorEnv : Option (Nat × Int)) (image : Option Nat)
    (data da db : Nat) (s : String) :
    tilemapType raw version flags ff color colorEnv image data da db ≠ .panic s := by
  intro h
  unfold tilemapType at h
  crunch h with extraIndex_no_panic
  all_goals simp_all [extraIndex_no_panic]

theorem tilemapType_ok {raw : List Int} {version : Int} {flags : Nat} {ff : Int}
    {color : Nat × Nat × Nat × Nat} {colorEnv : Option (Nat × Int)} {image : Option Nat}
    {data da db ea eb ia ib : Nat} {t : TilemapType}
    (hd : da ≤ data ∧ data < db) (he : ∀ e off, colorEnv = some (e, off) → ea ≤ e ∧ e < eb)
    (hi : OptIn image ia ib)
    (h : tilemapType raw version flags ff color colorEnv image data da db = .ok t) :
    t.InRange da db ea eb ia ib := by
  unfold tilemapType at h
  crunch h with extraIndex_no_panic
  all_goals first
    | (cases h; exact ⟨hd, he, hi⟩)
    | (cases h; exact hd)
    | (cases h; exact ⟨extraIndex_ok ‹extraIndex _ _ _ da db _ _ = Res.ok _›, hd⟩)

theorem tilemapDims_no_panic (v2 : List Int) (s : String) : tilemapDims v2 ≠ .panic s := by
  unfold tilemapDims; repeat' split
  all_goals simp

theorem tilemapDims_ok {v2 : List Int} {wd ht : Nat} (h : tilemapDims v2 = .ok (wd, ht)) :
    0 < wd ∧ 0 < ht := by
  unfold tilemapDims at h
  crunch h with getIndex_no_panic
  cases h
  omega

theorem Tilemap.fromRaw_no_panic (raw : List Int) (da db ea eb ia ib : Nat) (s : String) :
    Tilemap.fromRaw raw da db ea eb ia ib ≠ .panic s := by
  intro h
  unfold Tilemap.fromRaw at h
  crunch h with mandatory_no_panic, optional_no_panic, getIndex_no_panic, getIndexOpt_no_panic,
    tilemapColor_no_panic, tilemapColorEnv_no_panic, tilemapType_no_panic, tilemapDims_no_panic
  all_goals simp_all [mandatory_no_panic, optional_no_panic, getIndex_no_panic, getIndexOpt_no_panic,
    tilemapColor_no_panic, tilemapColorEnv_no_panic, tilemapType_no_panic, tilemapDims_no_panic]

theorem Tilemap.fromRaw_ok {raw : List Int} {da db ea eb ia ib : Nat} {t : Tilemap}
    (h : Tilemap.fromRaw raw da db ea eb ia ib = .ok t) :
    t.type.InRange da db ea eb ia ib ∧ 0 < t.width ∧ 0 < t.height := by
  unfold Tilemap.fromRaw at h
  crunch h with mandatory_no_panic
  all_goals (
    cases h
    have hdims := tilemapDims_ok ‹tilemapDims _ = Res.ok _›
    exact ⟨tilemapType_ok (getIndex_ok ‹getIndex _ da db _ = Res.ok _›)
      (tilemapColorEnv_ok ‹tilemapColorEnv _ ea eb = Res.ok _›)
      (getIndexOpt_in ‹getIndexOpt _ ia ib _ = Res.ok _›) ‹tilemapType _ _ _ _ _ _ _ _ da db = Res.ok _›,
      hdims.1, hdims.2⟩)


theorem wrapErr_ok {α : Type} {pre : String} {r : Res α} {a : α} (h : wrapErr pre r = .ok a) :
    r = .ok a := by
  unfold wrapErr at h; split at h <;> simp_all

theorem wrapErr_panic {α : Type} {pre : String} {r : Res α} {s : String}
    (h : wrapErr pre r = .panic s) : r = .panic s := by
  unfold wrapErr at h; split at h <;> simp_all

/-- every index a layer carries lies in the range it was checked against -/
def Layer.InRange (l : Layer) (da db ea eb ia ib sa sb : Nat) : Prop :=
  match l.t with
  | .quads q => (da ≤ q.data ∧ q.data < db) ∧ OptIn q.image ia ib
  | .tilemap t => t.type.InRange da db ea eb ia ib ∧ 0 < t.width ∧ 0 < t.height
  | .sounds s => (da ≤ s.data ∧ s.data < db) ∧ OptIn s.sound sa sb

theorem fromSliceRest_ignore {sp : Spec} (hi : sp.ignoreVersion = true) (slice : List Int) (v : Int) :
    fromSliceRest sp slice ≠ .lowVersion v := by
  unfold fromSliceRest
  simp only [hi, if_true]
  repeat' split
  all_goals simp

theorem layerDispatch_no_panic (ty : Int) (detail : Bool) (rest : List Int)
    (da db ea eb ia ib sa sb : Nat) (s : String) :
    layerDispatch ty detail rest da db ea eb ia ib sa sb ≠ .panic s := by
  intro h
  unfold layerDispatch at h
  split at h
  · split at h
    · cases h
    · cases h
    · rename_i hx; exact Tilemap.fromRaw_no_panic _ _ _ _ _ _ _ _ (wrapErr_panic hx)
  · split at h
    · split at h
      · cases h
      · cases h
      · rename_i hx; exact Quads.fromRaw_no_panic _ _ _ _ _ _ (wrapErr_panic hx)
    · split at h
      · split at h
        · cases h
        · cases h
        · rename_i hx; exact Sounds.fromRaw_no_panic _ _ _ _ _ _ _ (wrapErr_panic hx)
      · cases h

theorem layerDispatch_ok {ty : Int} {detail : Bool} {rest : List Int}
    {da db ea eb ia ib sa sb : Nat} {l : Layer}
    (h : layerDispatch ty detail rest da db ea eb ia ib sa sb = .ok l) :
    l.InRange da db ea eb ia ib sa sb := by
  unfold layerDispatch at h
  split at h
  · split at h
    · rename_i hx; cases h; exact Tilemap.fromRaw_ok (wrapErr_ok hx)
    · cases h
    · cases h
  · split at h
    · split at h
      · rename_i hx; cases h; exact Quads.fromRaw_ok (wrapErr_ok hx)
      · cases h
      · cases h
    · split at h
      · split at h
        · rename_i hx; cases h; exact Sounds.fromRaw_ok (wrapErr_ok hx)
        · cases h
        · cases h
      · cases h

theorem Layer.fromRaw_no_panic (raw : List Int) (da db ea eb ia ib sa sb : Nat) (s : String) :
    Layer.fromRaw raw da db ea eb ia ib sa sb ≠ .panic s := by
  intro h
  unfold Layer.fromRaw at h
  split at h
  · cases h
  · rename_i hx; exact absurd hx (fromSliceRest_ignore rfl _ _)
  · rename_i hx; exact absurd hx (fromSliceRest_no_panic _ _ _)
  · split at h
    · cases h
    · exact layerDispatch_no_panic _ _ _ _ _ _ _ _ _ _ _ _ h

theorem Layer.fromRaw_ok {raw : List Int} {da db ea eb ia ib sa sb : Nat} {l : Layer}
    (h : Layer.fromRaw raw da db ea eb ia ib sa sb = .ok l) :
    l.InRange da db ea eb ia ib sa sb := by
  unfold Layer.fromRaw at h
  split at h
  · cases h
  · cases h
  · cases h
  · split at h
    · cases h
    · exact layerDispatch_ok h


theorem imageData_no_panic (v1 : List Int) (da db : Nat) (s : String) : imageData v1 da db ≠ .panic s := by
  intro h
  unfold imageData at h
  crunch h with getIndex_no_panic
  all_goals simp_all [getIndex_no_panic]

theorem imageData_ok {v1 : List Int} {da db : Nat} {o : Option Nat} (h : imageData v1 da db = .ok o) :
    OptIn o da db := by
  unfold imageData at h
  crunch h with getIndex_no_panic
  · cases h; exact optIn_none _ _
  · cases h; intro i hi; cases hi; exact getIndex_ok ‹getIndex _ da db _ = Res.ok _›

theorem Image.fromRaw_no_panic (raw : List Int) (da db : Nat) (s : String) :
    Image.fromRaw raw da db ≠ .panic s := by
  intro h
  unfold Image.fromRaw at h
  crunch h with mandatory_no_panic, getIndex_no_panic, imageData_no_panic
  all_goals simp_all [mandatory_no_panic, getIndex_no_panic, imageData_no_panic]

theorem Image.fromRaw_ok {raw : List Int} {da db : Nat} {x : Image}
    (h : Image.fromRaw raw da db = .ok x) :
    (da ≤ x.name ∧ x.name < db) ∧ OptIn x.data da db := by
  unfold Image.fromRaw at h
  crunch h with mandatory_no_panic
  all_goals (cases h; exact ⟨getIndex_ok ‹getIndex _ da db _ = Res.ok _›,
    imageData_ok ‹imageData _ da db = Res.ok _›⟩)

theorem infoSettings_no_panic (v2 : Option (List Int)) (da db : Nat) (s : String) :
    infoSettings v2 da db ≠ .panic s := by
  unfold infoSettings; split
  · exact getIndexOpt_no_panic _ _ _ _ _
  · simp

theorem infoSettings_ok {v2 : Option (List Int)} {da db : Nat} {o : Option Nat}
    (h : infoSettings v2 da db = .ok o) : OptIn o da db := by
  unfold infoSettings at h; split at h
  · exact getIndexOpt_in h
  · cases h; exact optIn_none _ _

theorem Info.fromRaw_no_panic (raw : List Int) (da db : Nat) (s : String) :
    Info.fromRaw raw da db ≠ .panic s := by
  intro h
  unfold Info.fromRaw at h
  crunch h with mandatory_no_panic, getIndexOpt_no_panic, infoSettings_no_panic
  all_goals simp_all [mandatory_no_panic, getIndexOpt_no_panic, infoSettings_no_panic]

theorem Info.fromRaw_ok {raw : List Int} {da db : Nat} {x : Info}
    (h : Info.fromRaw raw da db = .ok x) :
    OptIn x.author da db ∧ OptIn x.version da db ∧ OptIn x.credits da db ∧ OptIn x.license da db
      ∧ OptIn x.settings da db := by
  unfold Info.fromRaw at h
  crunch h with mandatory_no_panic
  all_goals (cases h; exact ⟨getIndexOpt_in ‹getIndexOpt _ da db "InvalidAuthorIndex" = Res.ok _›,
    getIndexOpt_in ‹getIndexOpt _ da db "InvalidVersionIndex" = Res.ok _›,
    getIndexOpt_in ‹getIndexOpt _ da db "InvalidCreditsIndex" = Res.ok _›,
    getIndexOpt_in ‹getIndexOpt _ da db "InvalidLicenseIndex" = Res.ok _›,
    infoSettings_ok ‹infoSettings _ da db = Res.ok _›⟩)

end Tw.Map
