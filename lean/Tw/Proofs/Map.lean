import Tw.Model.Map
import Tw.Proofs.Datafile

/-! Helper lemmas about the map layer model (`Tw.Model.Map`). -/
namespace Tw.Map
open Tw.Datafile Tw.Gen.MapItems

/-! ### `from_slice_rest` -/

theorem fromSliceRest_no_panic (sp : Spec) (slice : List Int) (s : String) :
    fromSliceRest sp slice ≠ .panic s := by
  unfold fromSliceRest
  simp only
  split
  · rename_i r hr
    split at hr
    · simp at hr
    · split at hr
      · simp at hr; subst hr; simp
      · split at hr
        · simp at hr; subst hr; simp
        · simp at hr
  · split
    · simp
    · rename_i hlen
      rw [if_neg (by omega)]
      simp only [List.length_drop]
      rw [if_neg (by omega)]
      simp

/-- a found item is the window `slice[offset .. offset + len]` -/
theorem fromSliceRest_found {sp : Spec} {slice item rest : List Int}
    (h : fromSliceRest sp slice = .found item rest) :
    sp.offset + sp.len ≤ slice.length ∧ item = (slice.drop sp.offset).take sp.len
      ∧ item.length = sp.len ∧ rest = slice.drop (sp.offset + sp.len) := by
  unfold fromSliceRest at h
  simp only at h
  split at h
  · rename_i r hr
    split at hr
    · simp at hr
    · split at hr
      · simp at hr; subst hr; simp at h
      · split at hr
        · simp at hr; subst hr; simp at h
        · simp at hr
  · split at h
    · simp at h
    · rename_i hlen
      rw [if_neg (by omega)] at h
      simp only [List.length_drop] at h
      rw [if_neg (by omega)] at h
      cases h
      refine ⟨by omega, rfl, ?_, ?_⟩
      · simp only [List.length_take, List.length_drop]; omega
      · simp [List.drop_drop]

theorem mandatory_no_panic (sp : Spec) (slice : List Int) (ts s : String) :
    mandatory sp slice ts ≠ .panic s := by
  unfold mandatory
  split <;> simp
  rename_i s' h
  exact absurd h (fromSliceRest_no_panic sp slice s')

theorem optional_no_panic (sp : Spec) (slice : List Int) (ts s : String) :
    optional sp slice ts ≠ .panic s := by
  unfold optional
  split <;> simp
  rename_i s' h
  exact absurd h (fromSliceRest_no_panic sp slice s')

/-! ### `get_index` -/

theorem getIndexImpl_some {index : Int} {a b i : Nat} (h : getIndexImpl index a b = some i) :
    a ≤ i ∧ i < b := by
  unfold getIndexImpl at h
  split at h
  · simp at h
  · split at h
    · simp at h; omega
    · simp at h

theorem getIndex_ok {index : Int} {a b i : Nat} {e : String} (h : getIndex index a b e = .ok i) :
    a ≤ i ∧ i < b := by
  unfold getIndex at h
  split at h
  · rename_i j hj; cases h; exact getIndexImpl_some hj
  · simp at h

theorem getIndex_no_panic (index : Int) (a b : Nat) (e s : String) :
    getIndex index a b e ≠ .panic s := by
  unfold getIndex; split <;> simp

theorem getIndexOpt_ok {index : Int} {a b i : Nat} {e : String}
    (h : getIndexOpt index a b e = .ok (some i)) : a ≤ i ∧ i < b := by
  unfold getIndexOpt at h
  split at h
  · simp at h
  · split at h
    · rename_i j hj; cases h; exact getIndexImpl_some hj
    · simp at h

theorem getIndexOpt_no_panic (index : Int) (a b : Nat) (e s : String) :
    getIndexOpt index a b e ≠ .panic s := by
  unfold getIndexOpt; split; · simp
  split <;> simp

/-! ### `SettingsIter` -/

theorem idxOf?_lt {l : List UInt8} {x : UInt8} {k : Nat} (h : l.idxOf? x = some k) : k < l.length := by
  have := List.idxOf?_eq_some_iff.1 h
  obtain ⟨hk, _⟩ := this
  exact hk

/-- one step from a position inside the block stays inside the block and moves forward -/
theorem settingsNext_step {s : List UInt8} {pos : Nat} (hpos : pos ≤ s.length) :
    settingsNext s pos = .ok none
      ∨ ∃ item pos', settingsNext s pos = .ok (some (item, pos')) ∧ pos < pos' ∧ pos' ≤ s.length := by
  unfold settingsNext
  rw [if_neg (by omega)]
  split
  · exact Or.inl rfl
  · rename_i len hlen
    have := idxOf?_lt hlen
    simp only [List.length_drop] at this
    exact Or.inr ⟨_, _, rfl, by omega, by omega⟩

/-- `SettingsIter` terminates and never panics: `length - pos + 1` steps of fuel suffice. -/
theorem settingsAll_terminates (s : List UInt8) :
    ∀ (fuel pos : Nat), pos ≤ s.length → s.length - pos + 1 ≤ fuel →
      ∃ items, settingsAll s fuel pos = some (.ok items) := by
  intro fuel
  induction fuel with
  | zero => intro pos _ h; omega
  | succ fuel ih =>
    intro pos hpos hfuel
    unfold settingsAll
    rcases settingsNext_step hpos with h | ⟨item, pos', h, h1, h2⟩
    · rw [h]; exact ⟨[], rfl⟩
    · rw [h]
      simp only
      obtain ⟨rest, hrest⟩ := ih pos' h2 (by omega)
      rw [hrest]
      exact ⟨item :: rest, rfl⟩

end Tw.Map

namespace Tw.Map
open Tw.Datafile Tw.Gen.MapItems

/-! ### `*::from_raw`: never a panic, indices inside the ranges they were checked against -/

/-- case analysis of a hypothesis `h : <nested match/if> = result`; closes contradictory branches -/
macro "crunch " h:ident " with " ls:Lean.Parser.Tactic.simpLemma,* : tactic =>
  `(tactic| repeat' (first
      | (simp [$ls,*] at $h:ident; done)
      | split at $h:ident
      | (simp only [] at $h:ident; split at $h:ident)))

/-- an optional index lies in `a .. b` -/
def OptIn (o : Option Nat) (a b : Nat) : Prop := ∀ i, o = some i → a ≤ i ∧ i < b

theorem getIndexOpt_in {index : Int} {a b : Nat} {e : String} {o : Option Nat}
    (h : getIndexOpt index a b e = .ok o) : OptIn o a b := by
  intro i hi; subst hi; exact getIndexOpt_ok h

theorem optIn_none (a b : Nat) : OptIn none a b := by intro i hi; cases hi

theorem Group.fromRaw_no_panic (raw : List Int) (la lb : Nat) (s : String) :
    Group.fromRaw raw la lb ≠ .panic s := by
  intro h
  unfold Group.fromRaw at h
  crunch h with mandatory_no_panic, optional_no_panic
  all_goals simp_all [mandatory_no_panic, optional_no_panic]

theorem Group.fromRaw_ok {raw : List Int} {la lb : Nat} {g : Group}
    (h : Group.fromRaw raw la lb = .ok g) :
    la ≤ g.layersStart ∧ g.layersStart ≤ g.layersEnd ∧ g.layersEnd ≤ lb := by
  unfold Group.fromRaw at h
  crunch h with mandatory_no_panic
  all_goals (cases h; simp only; omega)

theorem soundsV2Gate_no_panic (raw : List Int) (legacy : Bool) (s : String) :
    soundsV2Gate raw legacy ≠ .panic s := by
  unfold soundsV2Gate; split; · simp
  exact mandatory_no_panic _ _ _ _

theorem Sounds.fromRaw_no_panic (raw : List Int) (da db sa sb : Nat) (legacy : Bool) (s : String) :
    Sounds.fromRaw raw da db sa sb legacy ≠ .panic s := by
  intro h
  unfold Sounds.fromRaw at h
  crunch h with mandatory_no_panic, getIndex_no_panic, getIndexOpt_no_panic, soundsV2Gate_no_panic
  all_goals simp_all [mandatory_no_panic, getIndex_no_panic, getIndexOpt_no_panic, soundsV2Gate_no_panic]

theorem Sounds.fromRaw_ok {raw : List Int} {da db sa sb : Nat} {legacy : Bool} {x : Sounds}
    (h : Sounds.fromRaw raw da db sa sb legacy = .ok x) :
    (da ≤ x.data ∧ x.data < db) ∧ OptIn x.sound sa sb := by
  unfold Sounds.fromRaw at h
  crunch h with mandatory_no_panic
  all_goals (cases h; exact ⟨getIndex_ok ‹getIndex _ da db _ = Res.ok _›,
    getIndexOpt_in ‹getIndexOpt _ sa sb _ = Res.ok _›⟩)

theorem Quads.fromRaw_no_panic (raw : List Int) (da db ia ib : Nat) (s : String) :
    Quads.fromRaw raw da db ia ib ≠ .panic s := by
  intro h
  unfold Quads.fromRaw at h
  crunch h with mandatory_no_panic, optional_no_panic, getIndex_no_panic, getIndexOpt_no_panic
  all_goals simp_all [mandatory_no_panic, optional_no_panic, getIndex_no_panic, getIndexOpt_no_panic]

theorem Quads.fromRaw_ok {raw : List Int} {da db ia ib : Nat} {x : Quads}
    (h : Quads.fromRaw raw da db ia ib = .ok x) :
    (da ≤ x.data ∧ x.data < db) ∧ OptIn x.image ia ib := by
  unfold Quads.fromRaw at h
  crunch h with mandatory_no_panic
  all_goals (cases h; exact ⟨getIndex_ok ‹getIndex _ da db _ = Res.ok _›,
    getIndexOpt_in ‹getIndexOpt _ ia ib _ = Res.ok _›⟩)

theorem extraIndex_no_panic (raw : List Int) (v : Int) (f da db : Nat) (a b s : String) :
    extraIndex raw v f da db a b ≠ .panic s := by
  unfold extraIndex; split; · simp
  exact getIndex_no_panic _ _ _ _ _

theorem extraIndex_ok {raw : List Int} {v : Int} {f da db d : Nat} {a b : String}
    (h : extraIndex raw v f da db a b = .ok d) : da ≤ d ∧ d < db := by
  unfold extraIndex at h
  split at h
  · simp at h
  · exact getIndex_ok h

/-- every index a tile layer carries lies in the range it was checked against -/
def TilemapType.InRange (t : TilemapType) (da db ea eb ia ib : Nat) : Prop :=
  match t with
  | .normal _ env img data =>
    (da ≤ data ∧ data < db) ∧ (∀ e off, env = some (e, off) → ea ≤ e ∧ e < eb) ∧ OptIn img ia ib
  | .game d => da ≤ d ∧ d < db
  | .teleport d z => (da ≤ d ∧ d < db) ∧ (da ≤ z ∧ z < db)
  | .speedup d z => (da ≤ d ∧ d < db) ∧ (da ≤ z ∧ z < db)
  | .front d z => (da ≤ d ∧ d < db) ∧ (da ≤ z ∧ z < db)
  | .switch d z => (da ≤ d ∧ d < db) ∧ (da ≤ z ∧ z < db)
  | .tune d z => (da ≤ d ∧ d < db) ∧ (da ≤ z ∧ z < db)

theorem tilemapColor_no_panic (v2 : List Int) (s : String) : tilemapColor v2 ≠ .panic s := by
  unfold tilemapColor; split <;> simp

theorem tilemapColorEnv_no_panic (v2 : List Int) (ea eb : Nat) (s : String) :
    tilemapColorEnv v2 ea eb ≠ .panic s := by
  intro h
  unfold tilemapColorEnv at h
  crunch h with getIndex_no_panic
  all_goals simp_all [getIndex_no_panic]

theorem tilemapColorEnv_ok {v2 : List Int} {ea eb : Nat} {o : Option (Nat × Int)}
    (h : tilemapColorEnv v2 ea eb = .ok o) : ∀ e off, o = some (e, off) → ea ≤ e ∧ e < eb := by
  unfold tilemapColorEnv at h
  crunch h with getIndex_no_panic
  · cases h; intro e off he; cases he
  · cases h; intro e off he; cases he; exact getIndex_ok ‹getIndex _ ea eb _ = Res.ok _›

theorem tilemapType_no_panic (raw : List Int) (version : Int) (flags : Nat) (ff : Int)
    (color : Nat × Nat × Nat × Nat) (colorEnv : Option (Nat × Int)) (image : Option Nat)
    (data da db : Nat) (s : String) :
    tilemapType raw version flags ff color colorEnv image data da db ≠ .panic s := by
  intro h
  unfold tilemapType at h
  crunch h with extraIndex_no_panic
  all_goals simp_all [extraIndex_no_panic]

theorem tilemapType_ok {raw : List Int} {version : Int} {flags : Nat} {ff : Int}
    {color : Nat × Nat × Nat × Nat} {colorEnv : Option (Nat × Int)} {image : Option Nat}
    {data da db ea eb ia ib : Nat} {t : TilemapType}
    (hd : da ≤ data ∧ data < db) (he : ∀ e off, colorEnv = some (e, off) → ea ≤ e ∧ e < eb)
    (hi : OptIn image ia ib)
    (h : tilemapType raw version flags ff color colorEnv image data da db = .ok t) :
    t.InRange da db ea eb ia ib := by
  unfold tilemapType at h
  crunch h with extraIndex_no_panic
  all_goals first
    | (cases h; exact ⟨hd, he, hi⟩)
    | (cases h; exact hd)
    | (cases h; exact ⟨extraIndex_ok ‹extraIndex _ _ _ da db _ _ = Res.ok _›, hd⟩)

theorem tilemapDims_no_panic (v2 : List Int) (s : String) : tilemapDims v2 ≠ .panic s := by
  unfold tilemapDims; repeat' split
  all_goals simp

theorem tilemapDims_ok {v2 : List Int} {wd ht : Nat} (h : tilemapDims v2 = .ok (wd, ht)) :
    0 < wd ∧ 0 < ht := by
  unfold tilemapDims at h
  crunch h with getIndex_no_panic
  cases h
  omega

theorem Tilemap.fromRaw_no_panic (raw : List Int) (da db ea eb ia ib : Nat) (s : String) :
    Tilemap.fromRaw raw da db ea eb ia ib ≠ .panic s := by
  intro h
  unfold Tilemap.fromRaw at h
  crunch h with mandatory_no_panic, optional_no_panic, getIndex_no_panic, getIndexOpt_no_panic,
    tilemapColor_no_panic, tilemapColorEnv_no_panic, tilemapType_no_panic, tilemapDims_no_panic
  all_goals simp_all [mandatory_no_panic, optional_no_panic, getIndex_no_panic, getIndexOpt_no_panic,
    tilemapColor_no_panic, tilemapColorEnv_no_panic, tilemapType_no_panic, tilemapDims_no_panic]

theorem Tilemap.fromRaw_ok {raw : List Int} {da db ea eb ia ib : Nat} {t : Tilemap}
    (h : Tilemap.fromRaw raw da db ea eb ia ib = .ok t) :
    t.type.InRange da db ea eb ia ib ∧ 0 < t.width ∧ 0 < t.height := by
  unfold Tilemap.fromRaw at h
  crunch h with mandatory_no_panic
  all_goals (
    cases h
    have hdims := tilemapDims_ok ‹tilemapDims _ = Res.ok _›
    exact ⟨tilemapType_ok (getIndex_ok ‹getIndex _ da db _ = Res.ok _›)
      (tilemapColorEnv_ok ‹tilemapColorEnv _ ea eb = Res.ok _›)
      (getIndexOpt_in ‹getIndexOpt _ ia ib _ = Res.ok _›) ‹tilemapType _ _ _ _ _ _ _ _ da db = Res.ok _›,
      hdims.1, hdims.2⟩)


theorem wrapErr_ok {α : Type} {pre : String} {r : Res α} {a : α} (h : wrapErr pre r = .ok a) :
    r = .ok a := by
  unfold wrapErr at h; split at h <;> simp_all

theorem wrapErr_panic {α : Type} {pre : String} {r : Res α} {s : String}
    (h : wrapErr pre r = .panic s) : r = .panic s := by
  unfold wrapErr at h; split at h <;> simp_all

/-- every index a layer carries lies in the range it was checked against -/
def Layer.InRange (l : Layer) (da db ea eb ia ib sa sb : Nat) : Prop :=
  match l.t with
  | .quads q => (da ≤ q.data ∧ q.data < db) ∧ OptIn q.image ia ib
  | .tilemap t => t.type.InRange da db ea eb ia ib ∧ 0 < t.width ∧ 0 < t.height
  | .sounds s => (da ≤ s.data ∧ s.data < db) ∧ OptIn s.sound sa sb

theorem fromSliceRest_ignore {sp : Spec} (hi : sp.ignoreVersion = true) (slice : List Int) (v : Int) :
    fromSliceRest sp slice ≠ .lowVersion v := by
  unfold fromSliceRest
  simp only [hi, if_true]
  repeat' split
  all_goals simp

theorem layerDispatch_no_panic (ty : Int) (detail : Bool) (rest : List Int)
    (da db ea eb ia ib sa sb : Nat) (s : String) :
    layerDispatch ty detail rest da db ea eb ia ib sa sb ≠ .panic s := by
  intro h
  unfold layerDispatch at h
  split at h
  · split at h
    · cases h
    · cases h
    · rename_i hx; exact Tilemap.fromRaw_no_panic _ _ _ _ _ _ _ _ (wrapErr_panic hx)
  · split at h
    · split at h
      · cases h
      · cases h
      · rename_i hx; exact Quads.fromRaw_no_panic _ _ _ _ _ _ (wrapErr_panic hx)
    · split at h
      · split at h
        · cases h
        · cases h
        · rename_i hx; exact Sounds.fromRaw_no_panic _ _ _ _ _ _ _ (wrapErr_panic hx)
      · cases h

theorem layerDispatch_ok {ty : Int} {detail : Bool} {rest : List Int}
    {da db ea eb ia ib sa sb : Nat} {l : Layer}
    (h : layerDispatch ty detail rest da db ea eb ia ib sa sb = .ok l) :
    l.InRange da db ea eb ia ib sa sb := by
  unfold layerDispatch at h
  split at h
  · split at h
    · rename_i hx; cases h; exact Tilemap.fromRaw_ok (wrapErr_ok hx)
    · cases h
    · cases h
  · split at h
    · split at h
      · rename_i hx; cases h; exact Quads.fromRaw_ok (wrapErr_ok hx)
      · cases h
      · cases h
    · split at h
      · split at h
        · rename_i hx; cases h; exact Sounds.fromRaw_ok (wrapErr_ok hx)
        · cases h
        · cases h
      · cases h

theorem Layer.fromRaw_no_panic (raw : List Int) (da db ea eb ia ib sa sb : Nat) (s : String) :
    Layer.fromRaw raw da db ea eb ia ib sa sb ≠ .panic s := by
  intro h
  unfold Layer.fromRaw at h
  split at h
  · cases h
  · rename_i hx; exact absurd hx (fromSliceRest_ignore rfl _ _)
  · rename_i hx; exact absurd hx (fromSliceRest_no_panic _ _ _)
  · split at h
    · cases h
    · exact layerDispatch_no_panic _ _ _ _ _ _ _ _ _ _ _ _ h

theorem Layer.fromRaw_ok {raw : List Int} {da db ea eb ia ib sa sb : Nat} {l : Layer}
    (h : Layer.fromRaw raw da db ea eb ia ib sa sb = .ok l) :
    l.InRange da db ea eb ia ib sa sb := by
  unfold Layer.fromRaw at h
  split at h
  · cases h
  · cases h
  · cases h
  · split at h
    · cases h
    · exact layerDispatch_ok h


theorem imageData_no_panic (v1 : List Int) (da db : Nat) (s : String) : imageData v1 da db ≠ .panic s := by
  intro h
  unfold imageData at h
  crunch h with getIndex_no_panic
  all_goals simp_all [getIndex_no_panic]

theorem imageData_ok {v1 : List Int} {da db : Nat} {o : Option Nat} (h : imageData v1 da db = .ok o) :
    OptIn o da db := by
  unfold imageData at h
  crunch h with getIndex_no_panic
  · cases h; exact optIn_none _ _
  · cases h; intro i hi; cases hi; exact getIndex_ok ‹getIndex _ da db _ = Res.ok _›

theorem Image.fromRaw_no_panic (raw : List Int) (da db : Nat) (s : String) :
    Image.fromRaw raw da db ≠ .panic s := by
  intro h
  unfold Image.fromRaw at h
  crunch h with mandatory_no_panic, getIndex_no_panic, imageData_no_panic
  all_goals simp_all [mandatory_no_panic, getIndex_no_panic, imageData_no_panic]

theorem Image.fromRaw_ok {raw : List Int} {da db : Nat} {x : Image}
    (h : Image.fromRaw raw da db = .ok x) :
    (da ≤ x.name ∧ x.name < db) ∧ OptIn x.data da db := by
  unfold Image.fromRaw at h
  crunch h with mandatory_no_panic
  all_goals (cases h; exact ⟨getIndex_ok ‹getIndex _ da db _ = Res.ok _›,
    imageData_ok ‹imageData _ da db = Res.ok _›⟩)

theorem infoSettings_no_panic (v2 : Option (List Int)) (da db : Nat) (s : String) :
    infoSettings v2 da db ≠ .panic s := by
  unfold infoSettings; split
  · exact getIndexOpt_no_panic _ _ _ _ _
  · simp

theorem infoSettings_ok {v2 : Option (List Int)} {da db : Nat} {o : Option Nat}
    (h : infoSettings v2 da db = .ok o) : OptIn o da db := by
  unfold infoSettings at h; split at h
  · exact getIndexOpt_in h
  · cases h; exact optIn_none _ _

theorem Info.fromRaw_no_panic (raw : List Int) (da db : Nat) (s : String) :
    Info.fromRaw raw da db ≠ .panic s := by
  intro h
  unfold Info.fromRaw at h
  crunch h with mandatory_no_panic, getIndexOpt_no_panic, infoSettings_no_panic
  all_goals simp_all [mandatory_no_panic, getIndexOpt_no_panic, infoSettings_no_panic]

theorem Info.fromRaw_ok {raw : List Int} {da db : Nat} {x : Info}
    (h : Info.fromRaw raw da db = .ok x) :
    OptIn x.author da db ∧ OptIn x.version da db ∧ OptIn x.credits da db ∧ OptIn x.license da db
      ∧ OptIn x.settings da db := by
  unfold Info.fromRaw at h
  crunch h with mandatory_no_panic
  all_goals (cases h; exact ⟨getIndexOpt_in ‹getIndexOpt _ da db "InvalidAuthorIndex" = Res.ok _›,
    getIndexOpt_in ‹getIndexOpt _ da db "InvalidVersionIndex" = Res.ok _›,
    getIndexOpt_in ‹getIndexOpt _ da db "InvalidCreditsIndex" = Res.ok _›,
    getIndexOpt_in ‹getIndexOpt _ da db "InvalidLicenseIndex" = Res.ok _›,
    infoSettings_ok ‹infoSettings _ da db = Res.ok _›⟩)

end Tw.Map

namespace Tw.Map
open Tw.Datafile Tw.Gen.MapItems

/-! ### the `map::Reader` accessors on a datafile that satisfies the bounds invariant -/

theorem liftDf_ok {α : Type} {o : Outcome α} {a : α} (h : o = .ok a) : liftDf o = .ok a := by
  subst h; rfl

theorem numData_ok {r : Reader} (inv : Inv r) : numData r = .ok r.numData.toNat := by
  unfold numData Reader.numDataU
  have := inv.nd
  rw [if_neg (by omega)]; rfl

theorem typeRange_ok {r : Reader} (inv : Inv r) (t : Nat) :
    ∃ a b, typeRange r t = .ok (a, b) ∧ a ≤ b ∧ b ≤ r.numItems.toNat := by
  obtain ⟨a, b, e, h1, h2⟩ := itemTypeIndices_ok inv t
  exact ⟨a, b, by unfold typeRange; rw [e]; rfl, h1, h2⟩

theorem typeRange_inv {r : Reader} {t a b : Nat} (h : typeRange r t = .ok (a, b)) :
    r.itemTypeIndices t = .ok (a, b) := by
  unfold typeRange liftDf at h
  split at h <;> simp_all

theorem version_no_panic {r : Reader} (inv : Inv r) (s : String) : version r ≠ .panic s := by
  obtain ⟨res, hres, _⟩ := findItem_ok inv MAP_ITEMTYPE_VERSION 0
  unfold version
  rw [liftDf_ok hres]
  cases res with
  | none => simp
  | some v =>
    simp only
    split
    · simp
    · rename_i hx; exact absurd hx (fromSliceRest_ignore rfl _ _)
    · rename_i hx; exact absurd hx (fromSliceRest_no_panic _ _ _)
    · simp

theorem checkVersion_no_panic {r : Reader} (inv : Inv r) (s : String) : checkVersion r ≠ .panic s := by
  unfold checkVersion
  split
  · simp
  · rename_i hx; exact absurd hx (version_no_panic inv _)
  · split <;> simp

theorem wrapErr_no_panic {α : Type} {pre : String} {x : Res α} {s : String}
    (h : x ≠ .panic s) : wrapErr pre x ≠ .panic s := fun hx => h (wrapErr_panic hx)

theorem info_spec {r : Reader} (inv : Inv r) :
    (∀ s, info r ≠ .panic s) ∧ ∀ i, info r = .ok i →
      OptIn i.author 0 r.numData.toNat ∧ OptIn i.version 0 r.numData.toNat
        ∧ OptIn i.credits 0 r.numData.toNat ∧ OptIn i.license 0 r.numData.toNat
        ∧ OptIn i.settings 0 r.numData.toNat := by
  obtain ⟨res, hres, _⟩ := findItem_ok inv MAP_ITEMTYPE_INFO 0
  unfold info
  rw [liftDf_ok hres, numData_ok inv]
  cases res with
  | none => simp
  | some v =>
    simp only
    exact ⟨fun s => wrapErr_no_panic (Info.fromRaw_no_panic _ _ _ s),
      fun i hi => Info.fromRaw_ok (wrapErr_ok hi)⟩

/-- `group(index)` for an index out of `group_indices()` -/
theorem group_spec {r : Reader} (inv : Inv r) {ga gb la lb k : Nat}
    (hg : typeRange r MAP_ITEMTYPE_GROUP = .ok (ga, gb)) (hl : typeRange r MAP_ITEMTYPE_LAYER = .ok (la, lb))
    (h1 : ga ≤ k) (h2 : k < gb) :
    (∀ s, group r k ≠ .panic s) ∧ ∀ g, group r k = .ok g →
      la ≤ g.layersStart ∧ g.layersStart ≤ g.layersEnd ∧ g.layersEnd ≤ lb := by
  obtain ⟨v, hv, _, hty⟩ := item_of_type_range inv (typeRange_inv hg) h1 h2
  unfold group
  rw [liftDf_ok hv]
  simp only
  rw [if_neg (by omega), hl]
  simp only
  constructor
  · intro s h
    split at h
    · cases h
    · exact Group.fromRaw_no_panic _ _ _ s h
  · intro g h
    split at h
    · cases h
    · exact Group.fromRaw_ok h


/-- `layer(index)` for an index out of the layer range (in particular out of a group's
`layer_indices`) -/
theorem layer_spec {r : Reader} (inv : Inv r) {la lb k : Nat}
    (hl : typeRange r MAP_ITEMTYPE_LAYER = .ok (la, lb)) (h1 : la ≤ k) (h2 : k < lb) :
    (∀ s, layer r k ≠ .panic s) ∧ ∀ l, layer r k = .ok l →
      ∃ ea eb ia ib sa sb, typeRange r MAP_ITEMTYPE_ENVELOPE = .ok (ea, eb)
        ∧ typeRange r MAP_ITEMTYPE_IMAGE = .ok (ia, ib)
        ∧ typeRange r MAP_ITEMTYPE_DDRACE_SOUND = .ok (sa, sb)
        ∧ l.InRange 0 r.numData.toNat ea eb ia ib sa sb := by
  obtain ⟨v, hv, _, hty⟩ := item_of_type_range inv (typeRange_inv hl) h1 h2
  obtain ⟨ea, eb, he, _⟩ := typeRange_ok inv MAP_ITEMTYPE_ENVELOPE
  obtain ⟨ia, ib, hi, _⟩ := typeRange_ok inv MAP_ITEMTYPE_IMAGE
  obtain ⟨sa, sb, hs, _⟩ := typeRange_ok inv MAP_ITEMTYPE_DDRACE_SOUND
  unfold layer
  rw [liftDf_ok hv]
  simp only
  rw [if_neg (by omega), numData_ok inv, he, hi, hs]
  simp only
  constructor
  · intro s h
    split at h
    · cases h
    · exact Layer.fromRaw_no_panic _ _ _ _ _ _ _ _ _ s h
  · intro l h
    split at h
    · cases h
    · exact ⟨ea, eb, ia, ib, sa, sb, rfl, rfl, rfl, Layer.fromRaw_ok h⟩

/-- `image(index)` for any item index -/
theorem image_spec {r : Reader} (inv : Inv r) {k : Nat} (hk : k < r.numItems.toNat) :
    (∀ s, image r k ≠ .panic s) ∧ ∀ x, image r k = .ok x →
      x.name < r.numData.toNat ∧ OptIn x.data 0 r.numData.toNat := by
  obtain ⟨v, hv, _⟩ := item_ok inv hk
  unfold image
  rw [liftDf_ok hv, numData_ok inv]
  simp only
  constructor
  · intro s h
    split at h
    · cases h
    · exact Image.fromRaw_no_panic _ _ _ s h
  · intro x h
    split at h
    · cases h
    · exact ⟨(Image.fromRaw_ok h).1.2, (Image.fromRaw_ok h).2⟩


/-! ### `game_layers` -/

/-- invariant of the `game_layers` accumulator: every slot holds a data index, and once a slot is
filled the game group is known (so the final `unwrap`s cannot fail) -/
structure GlAcc.Good (acc : GlAcc) (nd : Nat) : Prop where
  game : OptIn acc.game 0 nd
  teleport : OptIn acc.teleport 0 nd
  speedup : OptIn acc.speedup 0 nd
  front : OptIn acc.front 0 nd
  switch : OptIn acc.switch 0 nd
  tune : OptIn acc.tune 0 nd
  gwhOfGame : acc.gwh = none → acc.game = none
  groupOfGwh : acc.gwh ≠ none → acc.gameGroup ≠ none

theorem optIn_some {d a b : Nat} (h : a ≤ d ∧ d < b) : OptIn (some d) a b := by
  intro i hi; cases hi; exact h

/-- after a `put` the slots are still data indices; `gwh`/`gameGroup` are untouched -/
structure GlAcc.Put (acc acc' : GlAcc) (nd : Nat) : Prop where
  game : OptIn acc'.game 0 nd
  teleport : OptIn acc'.teleport 0 nd
  speedup : OptIn acc'.speedup 0 nd
  front : OptIn acc'.front 0 nd
  switch : OptIn acc'.switch 0 nd
  tune : OptIn acc'.tune 0 nd
  gwh : acc'.gwh = acc.gwh
  gameGroup : acc'.gameGroup = acc.gameGroup

theorem glPut_some {acc acc' : GlAcc} {ty : TilemapType} {nd ea eb ia ib : Nat}
    (good : acc.Good nd) (hty : ty.InRange 0 nd ea eb ia ib) (h : glPut acc ty = some (some acc')) :
    GlAcc.Put acc acc' nd := by
  cases ty with
  | normal c e i d => simp [glPut] at h
  | game d =>
    simp only [glPut] at h
    split at h
    · cases h
      exact ⟨optIn_some hty, good.teleport, good.speedup, good.front, good.switch, good.tune, rfl, rfl⟩
    · cases h
  | teleport d z =>
    simp only [glPut] at h
    split at h
    · cases h
      exact ⟨good.game, optIn_some hty.1, good.speedup, good.front, good.switch, good.tune, rfl, rfl⟩
    · cases h
  | speedup d z =>
    simp only [glPut] at h
    split at h
    · cases h
      exact ⟨good.game, good.teleport, optIn_some hty.1, good.front, good.switch, good.tune, rfl, rfl⟩
    · cases h
  | front d z =>
    simp only [glPut] at h
    split at h
    · cases h
      exact ⟨good.game, good.teleport, good.speedup, optIn_some hty.1, good.switch, good.tune, rfl, rfl⟩
    · cases h
  | switch d z =>
    simp only [glPut] at h
    split at h
    · cases h
      exact ⟨good.game, good.teleport, good.speedup, good.front, optIn_some hty.1, good.tune, rfl, rfl⟩
    · cases h
  | tune d z =>
    simp only [glPut] at h
    split at h
    · cases h
      exact ⟨good.game, good.teleport, good.speedup, good.front, good.switch, optIn_some hty.1, rfl, rfl⟩
    · cases h

theorem glDims_spec {acc0 acc acc' : GlAcc} {nd i : Nat} {g : Group} {tm : Tilemap}
    (good : acc0.Good nd) (put : GlAcc.Put acc0 acc nd) :
    (∀ s, glDims i g tm acc ≠ .panic s) ∧ (glDims i g tm acc = .ok acc' → acc'.Good nd) := by
  unfold glDims
  split
  · rename_i gi gw gh hg
    constructor
    · intro s; repeat' split
      all_goals simp
    · intro h
      split at h; · cases h
      split at h; · cases h
      cases h
      have hg0 : acc0.gwh ≠ none := by rw [← put.gwh, hg]; simp
      exact ⟨put.game, put.teleport, put.speedup, put.front, put.switch, put.tune,
        (fun hn => by rw [hg] at hn; cases hn),
        (fun _ => by rw [put.gameGroup]; exact good.groupOfGwh hg0)⟩
  · constructor
    · intro s; simp
    · intro h
      cases h
      exact ⟨put.game, put.teleport, put.speedup, put.front, put.switch, put.tune,
        (fun hn => by simp at hn), (fun _ => by simp)⟩

theorem glLayer_spec {r : Reader} (inv : Inv r) {la lb k i : Nat} {g : Group} {acc : GlAcc}
    (hl : typeRange r MAP_ITEMTYPE_LAYER = .ok (la, lb)) (h1 : la ≤ k) (h2 : k < lb)
    (good : acc.Good r.numData.toNat) :
    (∀ s, glLayer r i g k acc ≠ .panic s) ∧ ∀ acc', glLayer r i g k acc = .ok acc' →
      acc'.Good r.numData.toNat := by
  obtain ⟨hnp, hok⟩ := layer_spec inv hl h1 h2
  unfold glLayer
  cases hlay : layer r k with
  | panic s => exact absurd hlay (hnp s)
  | err e => simp
  | ok l =>
    obtain ⟨ea, eb, ia, ib, sa, sb, _, _, _, hin⟩ := hok l hlay
    simp only
    cases hlt : l.t with
    | quads q => simp only; exact ⟨fun s => by simp, fun acc' h => by cases h; exact good⟩
    | sounds q => simp only; exact ⟨fun s => by simp, fun acc' h => by cases h; exact good⟩
    | tilemap tm =>
      simp only
      unfold Layer.InRange at hin
      rw [hlt] at hin
      simp only at hin
      cases hput : glPut acc tm.type with
      | none => simp
      | some o =>
        cases o with
        | none => simp only; exact ⟨fun s => by simp, fun acc' h => by cases h; exact good⟩
        | some acc1 =>
          simp only
          have put := glPut_some good hin.1 hput
          exact ⟨(glDims_spec good put (acc' := acc1)).1, fun acc' h => (glDims_spec good put).2 h⟩

theorem glLayers_spec {r : Reader} (inv : Inv r) {la lb i : Nat} {g : Group}
    (hl : typeRange r MAP_ITEMTYPE_LAYER = .ok (la, lb)) :
    ∀ (n k : Nat) (acc : GlAcc), la ≤ k → k + n ≤ lb → acc.Good r.numData.toNat →
      (∀ s, glLayers r i g n k acc ≠ .panic s) ∧ ∀ acc', glLayers r i g n k acc = .ok acc' →
        acc'.Good r.numData.toNat := by
  intro n
  induction n with
  | zero => intro k acc _ _ good; unfold glLayers; exact ⟨fun s => by simp, fun acc' h => by cases h; exact good⟩
  | succ n ih =>
    intro k acc h1 h2 good
    obtain ⟨hnp, hok⟩ := glLayer_spec (i := i) (g := g) inv hl h1 (by omega) good
    unfold glLayers
    cases hx : glLayer r i g k acc with
    | panic s => exact absurd hx (hnp s)
    | err e => simp
    | ok acc1 => simp only; exact ih (k + 1) acc1 (by omega) (by omega) (hok acc1 hx)

theorem glGroups_spec {r : Reader} (inv : Inv r) {ga gb la lb : Nat}
    (hg : typeRange r MAP_ITEMTYPE_GROUP = .ok (ga, gb))
    (hl : typeRange r MAP_ITEMTYPE_LAYER = .ok (la, lb)) :
    ∀ (n i : Nat) (acc : GlAcc), ga ≤ i → i + n ≤ gb → acc.Good r.numData.toNat →
      (∀ s, glGroups r n i acc ≠ .panic s) ∧ ∀ acc', glGroups r n i acc = .ok acc' →
        acc'.Good r.numData.toNat := by
  intro n
  induction n with
  | zero => intro i acc _ _ good; unfold glGroups; exact ⟨fun s => by simp, fun acc' h => by cases h; exact good⟩
  | succ n ih =>
    intro i acc h1 h2 good
    obtain ⟨hnp, hok⟩ := group_spec inv hg hl h1 (by omega : i < gb)
    unfold glGroups
    cases hx : group r i with
    | panic s => exact absurd hx (hnp s)
    | err e => simp
    | ok g =>
      simp only
      obtain ⟨b1, b2, b3⟩ := hok g hx
      obtain ⟨hnp2, hok2⟩ := glLayers_spec (i := i) (g := g) inv hl (g.layersEnd - g.layersStart)
        g.layersStart acc b1 (by omega) good
      cases hy : glLayers r i g (g.layersEnd - g.layersStart) g.layersStart acc with
      | panic s => exact absurd hy (hnp2 s)
      | err e => simp
      | ok acc1 => simp only; exact ih (i + 1) acc1 (by omega) (by omega) (hok2 acc1 hy)

/-- `game_layers()`: never a panic; every data index it returns is below `num_data` -/
theorem gameLayers_spec {r : Reader} (inv : Inv r) :
    (∀ s, gameLayers r ≠ .panic s) ∧ ∀ gl, gameLayers r = .ok gl →
      gl.game < r.numData.toNat ∧ OptIn gl.teleport 0 r.numData.toNat
        ∧ OptIn gl.speedup 0 r.numData.toNat ∧ OptIn gl.front 0 r.numData.toNat
        ∧ OptIn gl.switch 0 r.numData.toNat ∧ OptIn gl.tune 0 r.numData.toNat := by
  obtain ⟨ga, gb, hg, hgab, _⟩ := typeRange_ok inv MAP_ITEMTYPE_GROUP
  obtain ⟨la, lb, hl, _, _⟩ := typeRange_ok inv MAP_ITEMTYPE_LAYER
  have good0 : GlAcc.Good {} r.numData.toNat :=
    ⟨optIn_none _ _, optIn_none _ _, optIn_none _ _, optIn_none _ _, optIn_none _ _, optIn_none _ _,
      fun _ => rfl, fun h => absurd rfl h⟩
  obtain ⟨hnp, hok⟩ := glGroups_spec inv hg hl (gb - ga) ga {} (by omega) (by omega) good0
  unfold gameLayers
  rw [hg]
  simp only
  cases hx : glGroups r (gb - ga) ga {} with
  | panic s => exact absurd hx (hnp s)
  | err e => simp
  | ok acc =>
    have good := hok acc hx
    simp only
    cases hgame : acc.game with
    | none => simp
    | some game =>
      simp only
      have hgwh : acc.gwh ≠ none := fun hn => by
        have := good.gwhOfGame hn; rw [hgame] at this; cases this
      have hgg := good.groupOfGwh hgwh
      cases hw : acc.gwh with
      | none => exact absurd hw hgwh
      | some t =>
        obtain ⟨gi, gw, gh⟩ := t
        cases hq : acc.gameGroup with
        | none => exact absurd hq hgg
        | some g =>
          simp only
          refine ⟨fun s => by simp, ?_⟩
          intro gl h
          cases h
          have := good.game game hgame
          exact ⟨this.2, good.teleport, good.speedup, good.front, good.switch, good.tune⟩


/-! ### data accessors -/

theorem readData_no_panic {r : Reader} (inv : Inv r) (z : Zlib)
    (hz : ∀ n src out, z n src = some out → out.length ≤ n) {d : Nat} (hd : d < r.numData.toNat)
    (s : String) : readData r z d ≠ .panic s := by
  unfold readData
  rcases readData_ok inv z hz hd with ⟨e, he⟩ | ⟨out, ho, _⟩
  · rw [he]; simp [liftDf]
  · rw [ho]; simp [liftDf]

theorem string_no_panic {r : Reader} (inv : Inv r) (z : Zlib)
    (hz : ∀ n src out, z n src = some out → out.length ≤ n) {d : Nat} (hd : d < r.numData.toNat)
    (s : String) : string r z d ≠ .panic s := by
  intro h
  unfold string at h
  split at h
  · cases h
  · rename_i hx; exact readData_no_panic inv z hz hd _ hx
  · split at h
    · first
        | cases h
        | (simp only [] at h; split at h <;> cases h)
    · cases h

theorem imageName_no_panic {r : Reader} (inv : Inv r) (z : Zlib)
    (hz : ∀ n src out, z n src = some out → out.length ≤ n) {d : Nat} (hd : d < r.numData.toNat)
    (s : String) : imageName r z d ≠ .panic s := by
  intro h
  unfold imageName at h
  split at h
  · cases h
  · rename_i hx; exact readData_no_panic inv z hz hd _ hx
  · split at h
    · first
        | cases h
        | (simp only [] at h; split at h <;> cases h)
    · cases h

theorem settings_no_panic {r : Reader} (inv : Inv r) (z : Zlib)
    (hz : ∀ n src out, z n src = some out → out.length ≤ n) {d : Nat} (hd : d < r.numData.toNat)
    (s : String) : settings r z d ≠ .panic s := by
  intro h
  unfold settings at h
  split at h
  · cases h
  · rename_i hx; exact readData_no_panic inv z hz hd _ hx
  · split at h
    · first
        | cases h
        | (simp only [] at h; split at h <;> cases h)
    · cases h

theorem tilesRaw_spec {r : Reader} (inv : Inv r) (z : Zlib)
    (hz : ∀ n src out, z n src = some out → out.length ≤ n) {d : Nat} (hd : d < r.numData.toNat)
    (size : Nat) (e : String) :
    (∀ s, tilesRaw r z d size e ≠ .panic s) ∧ ∀ raw, tilesRaw r z d size e = .ok raw →
      raw.length % size = 0 := by
  unfold tilesRaw
  cases hx : readData r z d with
  | panic s => exact absurd hx (readData_no_panic inv z hz hd s)
  | err e => simp
  | ok raw =>
    simp only
    split
    · simp
    · rename_i hm
      exact ⟨fun s => by simp, fun raw' h => by cases h; omega⟩

theorem tiles_spec {r : Reader} (inv : Inv r) (z : Zlib)
    (hz : ∀ n src out, z n src = some out → out.length ≤ n) {d : Nat} (hd : d < r.numData.toNat)
    (width height size : Nat) (e : String) :
    (∀ s, tiles r z d width height size e ≠ .panic s) ∧ ∀ raw, tiles r z d width height size e = .ok raw →
      raw.length % size = 0 ∧ height * width = raw.length / size := by
  obtain ⟨hnp, hok⟩ := tilesRaw_spec inv z hz hd size e
  unfold tiles
  cases hx : tilesRaw r z d size e with
  | panic s => exact absurd hx (hnp s)
  | err e => simp
  | ok raw =>
    simp only
    split
    · simp
    · rename_i hm
      exact ⟨fun s => by simp, fun raw' h => by cases h; exact ⟨hok raw hx, by omega⟩⟩

end Tw.Map
