import Tw.Model.ServerBrowse

/-! The derived `Ord` of `ClientInfo` is a total order whose equivalence is equality; `sortClients`
returns the unique sorted arrangement, so it does not depend on the order of its input. -/
namespace Tw.ServerBrowse

/-- a comparison function that is a strict total order with `eq` = equality -/
structure GoodCmp {α : Type} (c : α → α → Ordering) : Prop where
  eq_iff : ∀ a b, c a b = .eq ↔ a = b
  swap : ∀ a b, c b a = (c a b).swap
  lt_trans : ∀ a b d, c a b = .lt → c b d = .lt → c a d = .lt

def cmpProd {α β : Type} (c1 : α → α → Ordering) (c2 : β → β → Ordering) (a b : α × β) : Ordering :=
  (c1 a.1 b.1).then (c2 a.2 b.2)

theorem goodCmp_prod {α β : Type} {c1 : α → α → Ordering} {c2 : β → β → Ordering}
    (h1 : GoodCmp c1) (h2 : GoodCmp c2) : GoodCmp (cmpProd c1 c2) where
  eq_iff := by
    intro a b
    obtain ⟨a1, a2⟩ := a
    obtain ⟨b1, b2⟩ := b
    simp only [cmpProd, Prod.mk.injEq]
    cases h : c1 a1 b1 <;> simp [Ordering.then]
    · intro h'; rw [← h1.eq_iff] at h'; rw [h] at h'; cases h'
    · have := (h1.eq_iff a1 b1).1 h
      simp [this, h2.eq_iff]
    · intro h'; rw [← h1.eq_iff] at h'; rw [h] at h'; cases h'
  swap := by
    intro a b
    simp only [cmpProd]
    rw [h1.swap a.1 b.1, h2.swap a.2 b.2]
    cases c1 a.1 b.1 <;> cases c2 a.2 b.2 <;> rfl
  lt_trans := by
    intro a b d
    simp only [cmpProd]
    intro hab hbd
    cases h : c1 a.1 b.1 with
    | gt => simp [h, Ordering.then] at hab
    | lt =>
      cases h' : c1 b.1 d.1 with
      | gt => simp [h', Ordering.then] at hbd
      | lt => simp [h1.lt_trans _ _ _ h h', Ordering.then]
      | eq =>
        have := (h1.eq_iff _ _).1 h'
        rw [← this, h]; rfl
    | eq =>
      have e := (h1.eq_iff _ _).1 h
      rw [e]
      simp only [h, Ordering.then] at hab
      cases h' : c1 b.1 d.1 with
      | gt => simp [h', Ordering.then] at hbd
      | lt => rfl
      | eq =>
        simp only [h', Ordering.then] at hbd
        simp only [Ordering.then]
        exact h2.lt_trans _ _ _ hab hbd

theorem goodCmp_int : GoodCmp cmpInt where
  eq_iff := by
    intro a b
    unfold cmpInt
    by_cases h1 : a < b
    · simp [h1]; omega
    · by_cases h2 : b < a
      · simp [h1, h2]; omega
      · simp [h1, h2]; omega
  swap := by
    intro a b
    unfold cmpInt
    by_cases h1 : a < b
    · have : ¬ b < a := by omega
      simp [h1, this]
    · by_cases h2 : b < a
      · simp [h1, h2]
      · simp [h1, h2]
  lt_trans := by
    intro a b d
    unfold cmpInt
    intro h1 h2
    have : a < b := by
      by_cases h : a < b
      · exact h
      · by_cases h' : b < a <;> simp [h, h'] at h1
    have : b < d := by
      by_cases h : b < d
      · exact h
      · by_cases h' : d < b <;> simp [h, h'] at h2
    have : a < d := by omega
    simp [this]

theorem cmpBytes_eq_iff : ∀ a b, cmpBytes a b = .eq ↔ a = b
  | [], [] => by simp [cmpBytes]
  | [], _ :: _ => by simp [cmpBytes]
  | _ :: _, [] => by simp [cmpBytes]
  | a :: as, b :: bs => by
    unfold cmpBytes
    by_cases h1 : a.toNat < b.toNat
    · have : a ≠ b := by intro e; subst e; omega
      simp [h1, this]
    · by_cases h2 : b.toNat < a.toNat
      · have : a ≠ b := by intro e; subst e; omega
        simp [h1, h2, this]
      · have : a = b := UInt8.toNat_inj.1 (by omega)
        simp [h1, h2, this, cmpBytes_eq_iff as bs]

theorem cmpBytes_swap : ∀ a b, cmpBytes b a = (cmpBytes a b).swap
  | [], [] => by simp [cmpBytes]
  | [], _ :: _ => by simp [cmpBytes]
  | _ :: _, [] => by simp [cmpBytes]
  | a :: as, b :: bs => by
    unfold cmpBytes
    by_cases h1 : a.toNat < b.toNat
    · have : ¬ b.toNat < a.toNat := by omega
      simp [h1, this]
    · by_cases h2 : b.toNat < a.toNat
      · simp [h1, h2]
      · simp [h1, h2, cmpBytes_swap as bs]

theorem cmpBytes_lt_trans : ∀ a b d, cmpBytes a b = .lt → cmpBytes b d = .lt → cmpBytes a d = .lt
  | [], [], _ => by simp [cmpBytes]
  | [], _ :: _, [] => by simp [cmpBytes]
  | [], _ :: _, _ :: _ => by simp [cmpBytes]
  | _ :: _, [], _ => by simp [cmpBytes]
  | _ :: _, _ :: _, [] => by simp [cmpBytes]
  | a :: as, b :: bs, d :: ds => by
    unfold cmpBytes
    intro hab hbd
    by_cases h1 : a.toNat < b.toNat
    · by_cases h2 : b.toNat < d.toNat
      · have : a.toNat < d.toNat := by omega
        simp [this]
      · by_cases h3 : d.toNat < b.toNat
        · simp [h2, h3] at hbd
        · have : a.toNat < d.toNat := by omega
          simp [this]
    · by_cases h1' : b.toNat < a.toNat
      · simp [h1, h1'] at hab
      · simp only [h1, h1', if_false] at hab
        by_cases h2 : b.toNat < d.toNat
        · have : a.toNat < d.toNat := by omega
          simp [this]
        · by_cases h3 : d.toNat < b.toNat
          · simp [h2, h3] at hbd
          · simp only [h2, h3, if_false] at hbd
            have e1 : ¬ a.toNat < d.toNat := by omega
            have e2 : ¬ d.toNat < a.toNat := by omega
            simp only [e1, e2, if_false]
            exact cmpBytes_lt_trans as bs ds hab hbd

theorem goodCmp_bytes : GoodCmp cmpBytes := ⟨cmpBytes_eq_iff, cmpBytes_swap, cmpBytes_lt_trans⟩

/-- sort key: the fields in declaration order -/
def ClientInfo.key (c : ClientInfo) : List UInt8 × List UInt8 × Int × Int × Int :=
  (c.name, c.clan, c.country, c.score, c.flags)

theorem ClientInfo.key_inj {a b : ClientInfo} (h : a.key = b.key) : a = b := by
  cases a; cases b
  simp only [ClientInfo.key, Prod.mk.injEq] at h
  simp [h]

def keyCmp := cmpProd cmpBytes (cmpProd cmpBytes (cmpProd cmpInt (cmpProd cmpInt cmpInt)))

theorem ClientInfo.cmp_eq_keyCmp (a b : ClientInfo) : a.cmp b = keyCmp a.key b.key := rfl

theorem goodCmp_key : GoodCmp keyCmp :=
  goodCmp_prod goodCmp_bytes (goodCmp_prod goodCmp_bytes (goodCmp_prod goodCmp_int (goodCmp_prod goodCmp_int goodCmp_int)))

theorem goodCmp_client : GoodCmp ClientInfo.cmp where
  eq_iff := by
    intro a b
    rw [ClientInfo.cmp_eq_keyCmp, goodCmp_key.eq_iff]
    exact ⟨ClientInfo.key_inj, fun h => h ▸ rfl⟩
  swap := fun a b => goodCmp_key.swap a.key b.key
  lt_trans := fun a b d => goodCmp_key.lt_trans a.key b.key d.key

/-! ### `le` is a total order -/

theorem ClientInfo.le_total (a b : ClientInfo) : a.le b = true ∨ b.le a = true := by
  unfold ClientInfo.le
  rw [goodCmp_client.swap a b]
  cases a.cmp b <;> simp [Ordering.swap]

theorem ClientInfo.le_antisymm {a b : ClientInfo} (h1 : a.le b = true) (h2 : b.le a = true) : a = b := by
  unfold ClientInfo.le at h1 h2
  rw [goodCmp_client.swap a b] at h2
  apply (goodCmp_client.eq_iff a b).1
  cases h : a.cmp b <;> simp [h, Ordering.swap] at h1 h2 ⊢

theorem ClientInfo.le_trans {a b d : ClientInfo} (h1 : a.le b = true) (h2 : b.le d = true) : a.le d = true := by
  unfold ClientInfo.le at *
  cases hab : a.cmp b with
  | gt => simp [hab] at h1
  | eq =>
    have := (goodCmp_client.eq_iff a b).1 hab
    rw [this]; exact h2
  | lt =>
    cases hbd : b.cmp d with
    | gt => simp [hbd] at h2
    | eq =>
      have := (goodCmp_client.eq_iff b d).1 hbd
      rw [← this, hab]; rfl
    | lt => rw [goodCmp_client.lt_trans a b d hab hbd]; rfl

/-! ### insertion sort -/

theorem insertSorted_perm (c : ClientInfo) : ∀ l, (insertSorted c l).Perm (c :: l)
  | [] => by simp [insertSorted]
  | d :: ds => by
    unfold insertSorted
    split
    · exact List.Perm.refl _
    · exact ((insertSorted_perm c ds).cons d).trans (List.Perm.swap c d ds)

theorem sortClients_perm : ∀ l, (sortClients l).Perm l
  | [] => by simp [sortClients]
  | c :: cs => by
    unfold sortClients
    exact (insertSorted_perm c _).trans ((sortClients_perm cs).cons c)

theorem insertSorted_sorted (c : ClientInfo) :
    ∀ l, l.Pairwise (fun a b => a.le b = true) → (insertSorted c l).Pairwise (fun a b => a.le b = true)
  | [], _ => by simp [insertSorted]
  | d :: ds, h => by
    unfold insertSorted
    rw [List.pairwise_cons] at h
    split
    · rename_i hcd
      rw [List.pairwise_cons]
      refine ⟨?_, List.pairwise_cons.2 h⟩
      intro x hx
      rcases List.mem_cons.1 hx with rfl | hx
      · exact hcd
      · exact ClientInfo.le_trans hcd (h.1 x hx)
    · rename_i hcd
      have hdc : d.le c = true := by
        rcases ClientInfo.le_total c d with h' | h'
        · exact absurd h' hcd
        · exact h'
      rw [List.pairwise_cons]
      refine ⟨?_, insertSorted_sorted c ds h.2⟩
      intro x hx
      have := (insertSorted_perm c ds).subset hx
      rcases List.mem_cons.1 this with rfl | hx'
      · exact hdc
      · exact h.1 x hx'

theorem sortClients_sorted : ∀ l, (sortClients l).Pairwise (fun a b => a.le b = true)
  | [] => by simp [sortClients]
  | c :: cs => by
    unfold sortClients
    exact insertSorted_sorted c _ (sortClients_sorted cs)

/-- `sort` does not depend on the order of its input -/
theorem sortClients_eq_of_perm {l₁ l₂ : List ClientInfo} (h : l₁.Perm l₂) : sortClients l₁ = sortClients l₂ :=
  List.Perm.eq_of_pairwise (le := fun a b => a.le b = true)
    (fun _ _ _ _ h1 h2 => ClientInfo.le_antisymm h1 h2)
    (sortClients_sorted l₁) (sortClients_sorted l₂)
    ((sortClients_perm l₁).trans (h.trans (sortClients_perm l₂).symm))

theorem sortClients_length (l : List ClientInfo) : (sortClients l).length = l.length :=
  (sortClients_perm l).length_eq

theorem sortClients_idem (l : List ClientInfo) : sortClients (sortClients l) = sortClients l :=
  sortClients_eq_of_perm (sortClients_perm l)

end Tw.ServerBrowse
