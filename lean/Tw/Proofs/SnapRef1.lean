import Tw.Proofs.SnapRaw
import Tw.Proofs.SnapRef0

namespace Tw.Snap

/-! reading keys / updates that arrive in any order -/

theorem readKeys_enc_gen (f : Bool) : ∀ (ks acc : List Int) (rest : List Int) (ws : List Warning),
    (∀ k ∈ ks, I32 k) →
    readKeys ks.length (enc f (ks ++ rest)) acc ws = some (ks.foldl (fun a k => sinsert k a) acc, enc f rest, ws) := by
  intro ks
  induction ks with
  | nil => intro acc rest ws _; simp [readKeys]
  | cons k ks ih =>
    intro acc rest ws hI
    simp only [List.length_cons, readKeys, List.cons_append, enc_readInt f (hI k (by simp)), List.foldl_cons,
      List.append_nil]
    exact ih (sinsert k acc) rest ws (fun x hx => hI x (by simp [hx]))

theorem foldl_sinsert_spec : ∀ (ks acc : List Int), SortedSet acc →
    SortedSet (ks.foldl (fun a k => sinsert k a) acc) ∧
    (∀ x, x ∈ ks.foldl (fun a k => sinsert k a) acc ↔ x ∈ acc ∨ x ∈ ks) ∧
    (ks.Nodup → (∀ k ∈ ks, k ∉ acc) → (ks.foldl (fun a k => sinsert k a) acc).length = acc.length + ks.length) := by
  intro ks
  induction ks with
  | nil => intro acc h; exact ⟨h, by simp, by simp⟩
  | cons k ks ih =>
    intro acc h
    obtain ⟨h1, h2, h3⟩ := ih (sinsert k acc) (sinsert_sorted h)
    simp only [List.foldl_cons]
    refine ⟨h1, ?_, ?_⟩
    · intro x
      rw [h2 x, sinsert_mem]
      simp only [List.mem_cons]
      constructor
      · rintro ((h | h) | h) <;> simp [h]
      · rintro (h | h | h) <;> simp [h]
    · intro hnd hdis
      simp only [List.nodup_cons] at hnd
      rw [h3 hnd.2 (by
        intro x hx hmem
        rcases sinsert_mem.mp hmem with e | e
        · subst e; exact hnd.1 hx
        · exact hdis x (by simp [hx]) e)]
      rw [sinsert_length_of_not_mem (hdis k (by simp))]
      simp only [List.length_cons]; omega

theorem foldl_minsert_spec : ∀ (r upd : Items), Sorted upd → (r.map Prod.fst).Nodup →
    Sorted (r.foldl (fun m p => minsert p.1 p.2 m) upd) ∧
    ∀ k, mfind k (r.foldl (fun m p => minsert p.1 p.2 m) upd) = (mfind k r).or (mfind k upd) := by
  intro r
  induction r with
  | nil => intro upd h _; exact ⟨h, by intro k; simp [mfind]⟩
  | cons p r ih =>
    obtain ⟨k0, d0⟩ := p
    intro upd h hnd
    simp only [List.map_cons, List.nodup_cons] at hnd
    obtain ⟨h1, h2⟩ := ih (minsert k0 d0 upd) (sorted_minsert h) hnd.2
    simp only [List.foldl_cons]
    refine ⟨h1, ?_⟩
    intro k
    rw [h2 k, mfind_minsert]
    by_cases hk : k = k0
    · subst hk
      have : mfind k r = none := by rw [mfind_eq_none_iff]; exact hnd.1
      simp [mfind, this]
    · simp [mfind, hk]

theorem readUpdates_enc_gen (f : Bool) (objSize : Nat → Option Nat) (deleted : List Int) :
    ∀ (r : Items) (xs : List Int) (fuel : Nat) (upd : Items) (bl num : Nat) (ws : List Warning),
      writeUpdates objSize r = some xs → r.length ≤ fuel → (r.map Prod.fst).Nodup →
      (∀ p ∈ r, I32 p.1 ∧ (∀ x ∈ p.2, I32 x) ∧ p.1 ∉ deleted ∧ mfind p.1 upd = none) →
      bl + dataLen r < 2147483648 →
      readUpdates objSize deleted fuel (enc f xs) upd bl num ws =
        .ok (r.foldl (fun m p => minsert p.1 p.2 m) upd, num + r.length, ws) := by
  intro r
  induction r with
  | nil =>
    intro xs fuel upd bl num ws hw _ _ _ _
    simp [writeUpdates] at hw; subst hw
    cases fuel <;> simp [readUpdates, enc_isEmpty_nil]
  | cons p r ih =>
    obtain ⟨k, d⟩ := p
    intro xs fuel upd bl num ws hw hf hnd hI hb
    cases fuel with
    | zero => simp at hf
    | succ fuel =>
    simp only [writeUpdates] at hw
    cases hr : writeUpdates objSize r with
    | none => simp [hr] at hw
    | some rest =>
      simp only [hr] at hw
      obtain ⟨hkI, hdI, hkd, hfind⟩ := hI (k, d) (by simp)
      simp only [List.map_cons, List.nodup_cons] at hnd
      rw [dataLen_cons] at hb
      have hI' : ∀ p ∈ r, I32 p.1 ∧ (∀ x ∈ p.2, I32 x) ∧ p.1 ∉ deleted ∧ mfind p.1 (minsert k d upd) = none := by
        intro p hp
        obtain ⟨a1, a2, a3, a4⟩ := hI p (by simp [hp])
        refine ⟨a1, a2, a3, ?_⟩
        have hne : p.1 ≠ k := by
          intro e; apply hnd.1; rw [← e]; exact mem_keys_of_mem hp
        rw [mfind_minsert, if_neg hne]; exact a4
      have ih' := ih rest fuel (minsert k d upd) (bl + d.length) (num + 1) ws hr
        (by simp at hf; omega) hnd.2 hI' (by omega)
      have ht : I32 (keyType k : Int) := natCast_I32 (by have := keyType_lt k; omega)
      have hid : I32 (keyId k : Int) := natCast_I32 (by have := keyId_lt k; omega)
      have hdel : deleted.contains k = false := by
        simpa [List.contains_iff_mem] using hkd
      have hnot1 : ¬ ((keyType k : Int) < 0 ∨ (keyType k : Int) ≥ 65536) := by have := keyType_lt k; omega
      have hnot2 : ¬ ((keyId k : Int) < 0 ∨ (keyId k : Int) ≥ 65536) := by have := keyId_lt k; omega
      have hb1 : ¬ bl ≥ 4294967296 := by omega
      have hb2 : ¬ bl + d.length ≥ 4294967296 := by omega
      have hfind' : mfind k upd = none := hfind
      cases ho : objSize (keyType k) with
      | some sz =>
        simp only [ho] at hw
        split at hw
        · simp at hw
        · rename_i hsz
          simp at hsz hw
          subst hw
          subst hsz
          rw [readUpdates]
          simp only [enc_isEmpty_cons, enc_readInt f ht, enc_readInt f hid, hnot1, hnot2, if_false,
            Int.toNat_natCast, ho, hb1, hb2, readData_enc f d rest hdI, keyOf_key hkI, hfind', hdel]
          simp only [Bool.false_eq_true, if_false, Option.isSome_none, List.append_nil]
          rw [ih']
          have e : num + 1 + r.length = num + (r.length + 1) := by omega
          simp only [List.foldl_cons, List.length_cons, e]
      | none =>
        simp only [ho] at hw
        simp at hw
        subst hw
        have hsz : I32 (d.length : Int) := natCast_I32 (by omega)
        have hnn : ¬ ((d.length : Int) < 0) := by omega
        rw [readUpdates]
        simp only [enc_isEmpty_cons, enc_readInt f ht, enc_readInt f hid, hnot1, hnot2, if_false,
          Int.toNat_natCast, ho, enc_readInt f hsz, hnn, hb1, hb2, readData_enc f d rest hdI, keyOf_key hkI,
          hfind', hdel]
        simp only [Bool.false_eq_true, if_false, Option.isSome_none, List.append_nil]
        rw [ih']
        have e : num + 1 + r.length = num + (r.length + 1) := by omega
        simp only [List.foldl_cons, List.length_cons, e]
end Tw.Snap
