import Tw.Model.Packet7
import Tw.Proofs.Packet7Rewrite

/-! Slice bounds of the 0.7 reader (see `Packet6Bounds.lean`). -/
namespace Tw.Packet7
open Tw.Packet Tw.PacketBits

/-- the Huffman decoder respects the output capacity (C07: `Tw.Huffman.decompress_bound`) -/
def HuffmanBounded (t : Huffman.Table) : Prop :=
  ∀ (input : List UInt8) (cap : Nat) (out : List UInt8), Huffman.decompress t input cap = .ok out → out.length ≤ cap

def bufOf (src : Src) (input scratch : List UInt8) : List UInt8 :=
  match src with
  | .input => input
  | .scratch => scratch

theorem resolve_eq (l : Loc) (len : Nat) (input scratch : List UInt8) :
    l.resolve len input scratch = ((bufOf l.src input scratch).drop l.off).take len := by
  cases l with
  | mk src off => cases src <;> rfl

/-- the returned slice is where the result says, inside the buffer it names -/
def ReadOk.Located (r : ReadOk) (input : List UInt8) : Prop :=
  match r.loc, r.pkt.slice with
  | some l, some sl =>
    l.off + sl.length ≤ (bufOf l.src input r.scratch).length ∧ l.resolve sl.length input r.scratch = sl
  | none, none => True
  | _, _ => False

theorem located_of_prefix (buf sl : List UInt8) (off : Nat) (hoff : off ≤ buf.length) (hp : sl <+: buf.drop off) :
    off + sl.length ≤ buf.length ∧ (buf.drop off).take sl.length = sl := by
  have hl := hp.length_le
  simp only [List.length_drop] at hl
  exact ⟨by omega, (List.prefix_iff_eq_take.mp hp).symm⟩

theorem readConnless_located (bytes : List UInt8) (wh : List Warning) (r : ReadOk)
    (hr : readConnless bytes wh = .ok r) : r.Located bytes ∧ r.scratch = [] := by
  have hP : Tw.Gen.Packet7.HEADER_SIZE_CONNLESS = 9 := by decide
  unfold readConnless at hr
  split at hr
  · simp at hr
  · rename_i hlen
    dsimp only at hr
    split at hr
    · simp at hr
    · simp only [Except.ok.injEq] at hr
      subst hr
      refine ⟨?_, rfl⟩
      simp only [ReadOk.Located, Packet.slice, resolve_eq, bufOf, hP, List.length_drop]
      refine ⟨by omega, ?_⟩
      rw [List.take_of_length_le (by simp)]

theorem controlValue_located (h : PacketHeader) (payload : List UInt8) (src : Src) (off total : Nat) (c : Control)
    (loc : Option Loc) (hr : controlValue h payload src off total = .ok (c, loc)) :
    (loc = none ∧ ∀ ack tok, (Packet.connected ack tok (.control c)).slice = none) ∨
    (∃ m, c = .close m ∧ loc = some { src := src, off := off + 1 } ∧ payload ≠ [] ∧ m <+: payload.drop 1) := by
  unfold controlValue at hr
  split at hr
  · simp at hr
  · rename_i c0 pl
    dsimp only at hr
    split at hr
    · simp only [Except.ok.injEq, Prod.mk.injEq] at hr; obtain ⟨rfl, rfl⟩ := hr; exact Or.inl ⟨rfl, fun _ _ => rfl⟩
    · split at hr
      · split at hr
        · simp only [Except.ok.injEq, Prod.mk.injEq] at hr; obtain ⟨rfl, rfl⟩ := hr
          exact Or.inl ⟨rfl, fun _ _ => rfl⟩
        · simp at hr
      · split at hr
        · simp only [Except.ok.injEq, Prod.mk.injEq] at hr; obtain ⟨rfl, rfl⟩ := hr
          exact Or.inl ⟨rfl, fun _ _ => rfl⟩
        · split at hr
          · simp only [Except.ok.injEq, Prod.mk.injEq] at hr
            obtain ⟨rfl, rfl⟩ := hr
            exact Or.inr ⟨_, rfl, rfl, by simp, by simpa using List.take_prefix _ pl⟩
          · split at hr
            · split at hr
              · simp at hr
              · split at hr
                · simp only [Except.ok.injEq, Prod.mk.injEq] at hr; obtain ⟨rfl, rfl⟩ := hr
                  exact Or.inl ⟨rfl, fun _ _ => rfl⟩
                · simp at hr
            · simp at hr

theorem readBody_located (h : PacketHeader) (wh : List Warning) (payload : List UInt8) (src : Src)
    (scratch : List UInt8) (total : Nat) (r : ReadOk) (input : List UInt8)
    (hbuf : payload = (bufOf src input scratch).drop Tw.Gen.Packet7.HEADER_SIZE)
    (hlen : Tw.Gen.Packet7.HEADER_SIZE ≤ (bufOf src input scratch).length)
    (hr : readBody h wh payload src scratch total = .ok r) : r.Located input ∧ r.scratch = scratch := by
  have hH : Tw.Gen.Packet7.HEADER_SIZE = 7 := by decide
  unfold readBody readControl at hr
  split at hr
  · simp at hr
  · split at hr
    · split at hr
      · simp at hr
      · rename_i ws c loc hrc
        simp only [Except.ok.injEq] at hr
        subst hr
        refine ⟨?_, rfl⟩
        simp only [Prod.mk.injEq] at hrc
        rcases controlValue_located _ _ _ _ _ _ _ hrc.2 with ⟨hl, hsl⟩ | ⟨m, rfl, hl, hne, hpm⟩
        · subst hl
          simp only [ReadOk.Located, hsl]
        · subst hl
          have h1 : 1 ≤ payload.length := by
            cases payload with
            | nil => exact absurd rfl hne
            | cons x xs => simp
          have h3 : List.drop 1 payload = (bufOf src input scratch).drop (Tw.Gen.Packet7.HEADER_SIZE + 1) := by
            rw [hbuf, List.drop_drop]
          have hoff : Tw.Gen.Packet7.HEADER_SIZE + 1 ≤ (bufOf src input scratch).length := by
            rw [hbuf, List.length_drop] at h1
            omega
          have := located_of_prefix _ m _ hoff (by rw [← h3]; exact hpm)
          simp only [ReadOk.Located, Packet.slice, resolve_eq]
          exact this
    · simp only [Except.ok.injEq] at hr
      subst hr
      refine ⟨?_, rfl⟩
      simp only [ReadOk.Located, Packet.slice, resolve_eq]
      exact located_of_prefix (bufOf src input scratch) payload Tw.Gen.Packet7.HEADER_SIZE hlen
        (by rw [← hbuf]; exact List.prefix_refl _)

/-- **slice bounds (0.7)** -/
theorem read_located (t : Huffman.Table) (hb : HuffmanBounded t) (bytes : List UInt8)
    (cap : Nat) (r : ReadOk) (hr : read t bytes (some cap) = .ok r) :
    r.Located bytes ∧ r.scratch.length ≤ cap := by
  have hH : Tw.Gen.Packet7.HEADER_SIZE = 7 := by decide
  obtain ⟨hlen, h7, hcase⟩ := read_ok_cases t bytes (some cap) r hr
  rcases hcase with h | h | ⟨cap', s, hc, hcap, hd, hs3, h⟩
  · obtain ⟨h1, h2⟩ := readConnless_located bytes _ r h
    exact ⟨h1, by rw [h2]; simp⟩
  · obtain ⟨h1, h2⟩ := readBody_located _ _ _ .input [] _ r bytes rfl (by simpa [bufOf] using h7) h
    exact ⟨h1, by rw [h2]; simp⟩
  · simp only [Option.some.injEq] at hc
    subst hc
    obtain ⟨h1, h2⟩ := readBody_located _ _ (s.drop Tw.Gen.Packet7.HEADER_SIZE) .scratch s _ r
      bytes rfl (by simpa [bufOf] using hs3) h
    refine ⟨h1, ?_⟩
    rw [h2]
    unfold decompress at hd
    split at hd
    · simp at hd
    · split at hd
      · simp at hd
      · split at hd
        · simp at hd
        · dsimp only at hd
          split at hd
          · simp at hd
          · split at hd
            · simp at hd
            · rename_i b1' hb1
              obtain ⟨hb1e, hb1l⟩ := bufWrite_eq_some hb1
              split at hd
              · rename_i out hout
                simp only [DecompressResult.ok.injEq] at hd
                subst hd
                have := hb _ _ _ hout
                simp only [List.length_append]
                simp only [List.length_nil, Nat.zero_add] at hb1l
                have e : b1'.length = 7 := by rw [hb1e]; rfl
                rw [hdrBytes_length] at hb1l
                omega
              · simp at hd
              · simp at hd

end Tw.Packet7
