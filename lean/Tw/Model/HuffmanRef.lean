import Tw.Model.Huffman

/-
Model of the bundled C++ reference (`huffman/reference/sys/src/teeworlds/huffman.cpp`):
`CHuffman::Compress` (32-bit bit buffer, always writes a final byte) and `CHuffman::Decompress`
(10-bit lookup table, 32-bit bit buffer whose `unsigned Bitcount` wraps around when the input is
exhausted, bit-by-bit walk below the table with the "no more bits" error).

The algorithms are modelled over the same abstract table `t` as the Rust model: a leaf `s` has
`m_Bits = symBits t s`, `m_NumBits = symLen t s`, `m_Symbol = s`; an inner node has `m_NumBits = 0`
and `m_aLeafs = children`.  That the reference's own `ConstructTree` produces this table for the
shipped frequencies is tied by correspondence (`huffman` domain, ops `c`, `d`, `fq`).
-/
namespace Tw.Huffman

def TWO32 : Nat := 4294967296

/-- `unsigned` subtraction -/
def wrapSub (a b : Nat) : Nat := (a + TWO32 - b % TWO32) % TWO32

/-! ### Compress -/

/-- `HUFFMAN_MACRO_WRITE`: `while(Bitcount >= 8) { *pDst++ = Bits & 0xff; Bits >>= 8; Bitcount -= 8; }`
(`out` reversed).  `fuel` bounds the number of bytes; 4 always suffices (`Bitcount < 32`). -/
def refWrite : Nat → Nat → Nat → List UInt8 → Nat × Nat × List UInt8
  | 0, bits, bc, out => (bits, bc, out)
  | fuel + 1, bits, bc, out =>
    if bc ≥ 8 then refWrite fuel (bits / 256) (bc - 8) (UInt8.ofNat (bits % 256) :: out)
    else (bits, bc, out)

/-- `HUFFMAN_MACRO_LOADSYMBOL` then `HUFFMAN_MACRO_WRITE` for every input byte, then for EOF -/
def refCompressGo (t : Table) : List Nat → Nat → Nat → List UInt8 → Nat × List UInt8
  | [], bits, _, out => (bits, out)
  | s :: ss, bits, bc, out =>
    let bits := (bits ||| (symBits t s <<< bc)) % TWO32
    let bc := bc + symLen t s
    let (bits, bc, out) := refWrite 8 bits bc out
    refCompressGo t ss bits bc out

/-- `CHuffman::Compress` with a sufficiently large output buffer: the final `*pDst++ = Bits` is
unconditional (this is the extra byte of `compress_bug`). -/
def refCompress (t : Table) (xs : List UInt8) : List UInt8 :=
  let (bits, out) := refCompressGo t (xs.map (·.toNat) ++ [EOF]) 0 0 []
  (UInt8.ofNat (bits % 256) :: out).reverse

/-- with the buffer size: `-1` (`none`) iff the output does not fit.  (`OutputSize = 0` is undefined
behaviour in the C++ — it writes before it checks — and is never requested.) -/
def refCompressInto (t : Table) (xs : List UInt8) (cap : Nat) : Option (List UInt8) :=
  let out := refCompress t xs
  if out.length ≤ cap then some out else none

/-! ### Decompress -/

/-- one entry of `m_apDecodeLut`: walk at most `k` bits of `bits` from `nd`, stop at a leaf -/
def lutWalkF (look : Look) : Nat → Nat → Nat → Nat
  | 0, nd, _ => nd
  | k + 1, nd, bits =>
    let nd' := childF look nd (bits % 2 == 1)
    if nd' < NUM_SYMBOLS then nd' else lutWalkF look k nd' (bits / 2)

def LUTBITS : Nat := 10
def LUTSIZE : Nat := 1024

/-- number of bits `lutWalkF` consumed before it stopped at a leaf (`k` if it did not) -/
def lutDepthF (look : Look) : Nat → Nat → Nat → Nat
  | 0, _, _ => 0
  | k + 1, nd, bits =>
    let nd' := childF look nd (bits % 2 == 1)
    if nd' < NUM_SYMBOLS then 1 else 1 + lutDepthF look k nd' (bits / 2)

def lutWalk (t : Table) : Nat → Nat → Nat → Nat := lutWalkF (node t)
def lutDepth (t : Table) : Nat → Nat → Nat → Nat := lutDepthF (node t)
def lut (t : Table) (i : Nat) : Nat := lutWalk t LUTBITS ROOT_IDX i

def lutOkAtF (look : Look) (i : Nat) : Bool :=
  decide (lutWalkF look LUTBITS ROOT_IDX i < NUM_SYMBOLS →
    symLenF look (lutWalkF look LUTBITS ROOT_IDX i) = lutDepthF look LUTBITS ROOT_IDX i)

/-- the table entry's `m_NumBits` is the depth at which the lookup found it (true of any table
whose codes were assigned by `Setbits_r`; decidable, checked for the built-in table) -/
def LutOk (t : Table) : Prop := ∀ i, i < LUTSIZE → lutOkAtF (node t) i = true

instance (t : Table) : Decidable (LutOk t) := by unfold LutOk; exact inferInstance

inductive RefDec where
  | ok (out : List UInt8)
  | error
  | diverge
  deriving Repr, DecidableEq

/-- `{B}`: `while(Bitcount < 24 && pSrc != pSrcEnd) { Bits |= (*pSrc++) << Bitcount; Bitcount += 8; }` -/
def refFill : Nat → Nat → List UInt8 → Nat × Nat × List UInt8
  | bits, bc, [] => (bits, bc, [])
  | bits, bc, b :: src =>
    if bc < 24 then refFill (bits ||| (b.toNat <<< bc)) (bc + 8) src else (bits, bc, b :: src)

inductive DeepRes where
  | leaf (nd bits bc : Nat)
  | error
  | diverge

/-- the bit-by-bit walk below the lookup table -/
def refDeep (t : Table) : Nat → Nat → Nat → Nat → DeepRes
  | 0, _, _, _ => .diverge
  | fuel + 1, nd, bits, bc =>
    let nd' := child t nd (bits % 2 == 1)
    let bc' := wrapSub bc 1
    let bits' := bits / 2
    if nd' < NUM_SYMBOLS then .leaf nd' bits' bc'
    else if bc' = 0 then .error
    else refDeep t fuel nd' bits' bc'

/-- `{D}` onwards of one iteration: `nd` is the table entry; `k` continues the loop -/
def refBody (t : Table) (cap : Nat) (k : Nat → Nat → List UInt8 → RefDec)
    (nd bits bc : Nat) (out : List UInt8) : RefDec :=
  let fin (nd bits bc : Nat) : RefDec :=
    if nd = EOF then .ok out.reverse
    else if out.length ≥ cap then .error
    else k bits bc (UInt8.ofNat nd :: out)
  if nd < NUM_SYMBOLS then
    fin nd (bits / 2 ^ symLen t nd) (wrapSub bc (symLen t nd))
  else
    match refDeep t NUM_NODES nd (bits / 2 ^ LUTBITS) (wrapSub bc LUTBITS) with
    | .leaf nd bits bc => fin nd bits bc
    | .error => .error
    | .diverge => .diverge

/-- the table entry used in this iteration: looked up at `{A}` from the old buffer when it already
held `LUTBITS` bits, otherwise at `{C}` after the refill -/
def refNode (t : Table) (oldBits oldBc newBits : Nat) : Nat :=
  if oldBc ≥ LUTBITS then lut t (oldBits % LUTSIZE) else lut t (newBits % LUTSIZE)

/-- the `while(1)` loop of `CHuffman::Decompress` (`out` reversed) -/
def refLoop (t : Table) (cap : Nat) : Nat → Nat → Nat → List UInt8 → List UInt8 → RefDec
  | 0, _, _, _, _ => .diverge
  | fuel + 1, bits, bc, src, out =>
    let f := refFill bits bc src
    refBody t cap (fun b c o => refLoop t cap fuel b c f.2.2 o)
      (refNode t bits bc f.1) f.1 f.2.1 out

/-- `CHuffman::Decompress(pInput, InputSize, pOutput, OutputSize = cap)`; `error` is `-1` -/
def refDecompress (t : Table) (fuel : Nat) (input : List UInt8) (cap : Nat) : RefDec :=
  refLoop t cap fuel 0 0 input []

/-- fuel used by the driver: every iteration outputs a byte or ends -/
def refFuel (cap : Nat) : Nat := cap + 2

end Tw.Huffman
