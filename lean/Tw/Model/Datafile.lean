/-
Model of the low-level datafile reader: `datafile/src/format.rs` (`Header::read`,
`HeaderVersion::check`, `HeaderRest::check`, `check_size_and_swaplen`, `calculate_total_size`) and
`datafile/src/raw.rs` (`Reader::new`, `Reader::check`, the accessors), plus an independent writer
for versions 3 and 4.

Conventions
* The file is a `List UInt8`.  The `CallbackNew`/`CallbackReadData` callbacks are modelled as a
  faithful in-memory file: `read` fills the buffer or reports fewer bytes at the end of the file,
  `ensure_filesize n` compares with the length, `seek_read` reads relative to the seek base.
  Callback *errors* (`Error::Callback`, I/O failures) are a parameter outside the model.
* A Rust `i32` is an `Int` in `[-2^31, 2^31)`, a `usize` a `Nat` (`as usize` of a negative `i32`
  is `2^64 + v`, see `asUsize`).  Every reachable `assert!`, overflow check of the `dev` profile,
  `assert_usize()` and slice index is an explicit `Outcome.panic "<site>"`.
* zlib's `uncompress` is the parameter `inflate destLen src : Option (List UInt8)` (`none` =
  any zlib error).  Its contract "writes at most `destLen` bytes" is consumed explicitly: an
  `inflate` that returned more would be an out-of-bounds write, modelled as a panic outcome.
-/
namespace Tw.Datafile

inductive DfError where
  | wrongMagic
  | unsupportedVersion
  | malformedHeader
  | malformed
  | compressionWrongSize
  | compressionError
  | tooShort
  | tooShortHeaderVersion
  | tooShortHeader
  /-- `raw::Error::Callback`: a callback returned `Err(CallbackError)` -/
  | callback
  deriving DecidableEq, Repr, Inhabited

def DfError.name : DfError → String
  | .wrongMagic => "WrongMagic"
  | .unsupportedVersion => "UnsupportedVersion"
  | .malformedHeader => "MalformedHeader"
  | .malformed => "Malformed"
  | .compressionWrongSize => "CompressionWrongSize"
  | .compressionError => "CompressionError"
  | .tooShort => "TooShort"
  | .tooShortHeaderVersion => "TooShortHeaderVersion"
  | .tooShortHeader => "TooShortHeader"
  | .callback => "Callback"

inductive Outcome (α : Type) where
  | ok (a : α)
  | err (e : DfError)
  | panic (site : String)
  deriving Repr

def Outcome.isPanic {α : Type} : Outcome α → Bool
  | .panic _ => true
  | _ => false

def Outcome.isOk {α : Type} : Outcome α → Bool
  | .ok _ => true
  | _ => false

def Outcome.isErr {α : Type} (o : Outcome α) (e : DfError) : Bool :=
  match o with
  | .err e' => e' == e
  | _ => false

inductive Version where
  | v3 | v4crude | v4
  deriving DecidableEq, Repr, Inhabited

def Version.hasCompressedData : Version → Bool
  | .v3 => false
  | _ => true

/-! ## Fixed-width arithmetic -/

def inI32 (v : Int) : Bool := decide (-2147483648 ≤ v) && decide (v ≤ 2147483647)

/-- `a - b` on `i32` in a build with overflow checks: `none` = "attempt to subtract with overflow" -/
def subI32 (a b : Int) : Option Int := if inI32 (a - b) then some (a - b) else none
def addI32 (a b : Int) : Option Int := if inI32 (a + b) then some (a + b) else none
def mulI32 (a b : Int) : Option Int := if inI32 (a * b) then some (a * b) else none

/-- `v as usize` for an `i32` on a 64-bit target -/
def asUsize (v : Int) : Nat := if v < 0 then (18446744073709551616 + v).toNat else v.toNat

/-- the little-endian `i32` made of four bytes -/
def i32OfBytes (b0 b1 b2 b3 : UInt8) : Int :=
  let n := b0.toNat + 256 * b1.toNat + 65536 * b2.toNat + 16777216 * b3.toNat
  if n < 2147483648 then (n : Int) else (n : Int) - 4294967296

/-- reinterpretation of a byte buffer as little-endian `i32`s (trailing 1–3 bytes are ignored) -/
def wordsOfBytes : List UInt8 → List Int
  | b0 :: b1 :: b2 :: b3 :: rest => i32OfBytes b0 b1 b2 b3 :: wordsOfBytes rest
  | _ => []

def bytesOfI32 (v : Int) : List UInt8 :=
  let n := (v % 4294967296).toNat
  [UInt8.ofNat (n % 256), UInt8.ofNat (n / 256 % 256), UInt8.ofNat (n / 65536 % 256),
   UInt8.ofNat (n / 16777216 % 256)]

def bytesOfWords : List Int → List UInt8
  | [] => []
  | w :: ws => bytesOfI32 w ++ bytesOfWords ws

/-! ## Header -/

structure Header where
  magic : List UInt8
  version : Int
  size : Int
  swaplen : Int
  numItemTypes : Int
  numItems : Int
  numData : Int
  sizeItems : Int
  sizeData : Int
  deriving Repr, Inhabited, DecidableEq

def magicData : List UInt8 := [68, 65, 84, 65]
def magicAtad : List UInt8 := [65, 84, 65, 68]

/-- size of `format::Header` in bytes -/
def headerSize : Nat := 36

/-- `HeaderVersion::check` -/
def Header.checkVersion (h : Header) : Option DfError :=
  if h.magic ≠ magicData ∧ h.magic ≠ magicAtad then some .wrongMagic
  else if h.version ≠ 3 ∧ h.version ≠ 4 then some .unsupportedVersion
  else none

/-- `HeaderRest::check` -/
def Header.checkRest (h : Header) : Bool :=
  decide (0 ≤ h.size) && decide (0 ≤ h.swaplen) && decide (0 ≤ h.numItemTypes)
    && decide (0 ≤ h.numItems) && decide (0 ≤ h.numData) && decide (0 ≤ h.sizeItems)
    && decide (0 ≤ h.sizeData) && decide (h.sizeItems % 4 = 0)

/-- the header struct as filled from a 36-byte buffer -/
def Header.ofBuf (buf : List UInt8) : Header :=
  let ws := wordsOfBytes (buf.drop 4)
  { magic := buf.take 4, version := ws.getD 0 0, size := ws.getD 1 0, swaplen := ws.getD 2 0,
    numItemTypes := ws.getD 3 0, numItems := ws.getD 4 0, numData := ws.getD 5 0,
    sizeItems := ws.getD 6 0, sizeData := ws.getD 7 0 }

/-- `Header::read`: one `read` of 36 bytes into a zeroed struct; `n` bytes were obtained. -/
def Header.read (bytes : List UInt8) : Outcome Header :=
  let n := (bytes.take headerSize).length
  if n < 8 then .err .tooShortHeaderVersion
  else
    let h := Header.ofBuf (bytes.take headerSize ++ List.replicate (headerSize - n) (0 : UInt8))
    match h.checkVersion with
    | some e => .err e
    | none =>
      if n < headerSize then .err .tooShortHeader
      else if h.checkRest then .ok h else .err .malformedHeader

/-- `calculate_total_size`: `u64` arithmetic on non-negative `i32`s (cannot overflow), then
`try_i32`.  `u(val)` is `assert_u64`, a panic for a negative field. -/
def Header.totalSize (h : Header) : Outcome Int :=
  if h.numItemTypes < 0 ∨ h.numItems < 0 ∨ h.numData < 0 ∨ h.sizeItems < 0 ∨ h.sizeData < 0 then
    .panic "calculate_total_size: assert_u64 of a negative field"
  else
    let total : Int := 36 + 12 * h.numItemTypes + 4 * h.numItems + 4 * h.numData
      + (if h.version ≥ 4 then 4 * h.numData else 0) + h.sizeItems + h.sizeData
    if total ≤ 2147483647 then .ok total else .err .malformedHeader

/-- `calculate_size_field` -/
def Header.sizeField (h : Header) (total : Int) (crude : Bool) : Outcome Int :=
  match subI32 total 16 with
  | none => .panic "calculate_size_field: total_size - 16"
  | some r =>
    if crude then
      match mulI32 4 h.numData with
      | none => .panic "calculate_size_field: 4 * num_data"
      | some m =>
        match subI32 r m with
        | none => .panic "calculate_size_field: result - 4 * num_data"
        | some r' => .ok r'
    else .ok r

/-- `calculate_swaplen_field` -/
def Header.swaplenField (h : Header) (total : Int) (crude : Bool) : Outcome Int :=
  match h.sizeField total crude with
  | .ok s =>
    match subI32 s h.sizeData with
    | none => .panic "calculate_swaplen_field: size - size_data"
    | some r => .ok r
  | o => o

structure HeaderCheck where
  expectedSize : Int
  crude : Bool
  deriving Repr, DecidableEq

/-- `check_size_and_swaplen` -/
def Header.checkSizeAndSwaplen (h : Header) : Outcome HeaderCheck :=
  match h.totalSize with
  | .panic s => .panic s
  | .err e => .err e
  | .ok total =>
    match h.sizeField total false, h.sizeField total true,
          h.swaplenField total false, h.swaplenField total true with
    | .ok s0, .ok s1, .ok w0, .ok w1 =>
      if h.size ≠ s0 ∧ h.size ≠ s1 then .err .malformedHeader
      else if h.swaplen ≠ w0 ∧ h.swaplen ≠ w1 then .err .malformedHeader
      else .ok { expectedSize := total, crude := decide (h.size ≠ s0) }
    | .panic s, _, _, _ => .panic s
    | _, .panic s, _, _ => .panic s
    | _, _, .panic s, _ => .panic s
    | _, _, _, .panic s => .panic s
    | _, _, _, _ => .panic "unreachable: size field helpers have no error result"

/-! ## Reader -/

structure ItemType where
  typeId : Int
  start : Int
  num : Int
  deriving Repr, DecidableEq, Inhabited

def typesOfWords : List Int → List ItemType
  | a :: b :: c :: rest => { typeId := a, start := b, num := c } :: typesOfWords rest
  | _ => []

structure Reader where
  version : Version
  numItemTypes : Int
  numItems : Int
  numData : Int
  sizeItems : Int
  sizeData : Int
  itemTypes : List ItemType
  itemOffsets : List Int
  dataOffsets : List Int
  uncompSizes : Option (List Int)
  itemsRaw : List Int
  /-- the file from the seek base on (what `seek_read` addresses) -/
  dataRegion : List UInt8
  deriving Repr

/-- `item_header(index)`: `(type_id_and_id, size)`.  Sites: the index into `item_offsets`,
`assert_usize`, the alignment assertion of `relative_size_of_mult::<u8, i32>`, the two slices. -/
def Reader.itemHeader (r : Reader) (index : Nat) : Outcome (Int × Int) :=
  match r.itemOffsets[index]? with
  | none => .panic "item_header: item_offsets[index]"
  | some o =>
    if o < 0 then .panic "item_header: assert_usize of a negative offset"
    else if o.toNat % 4 ≠ 0 then .panic "item_header: relative_size_of_mult alignment assertion"
    else
      let w := o.toNat / 4
      if w > r.itemsRaw.length then .panic "item_header: items_raw[off..]"
      else
        let s := r.itemsRaw.drop w
        match s with
        | a :: b :: _ => .ok (a, b)
        | _ => .panic "item_header: [..2]"

/-- `!(t.type_id > previous_type_id)` for the previous entry, if any -/
def notAbovePrev (prev : Option Int) (typeId : Int) : Bool :=
  match prev with
  | some p => decide (¬ (typeId > p))
  | none => false

/-- first block of `check`: the item type table (after the D13 repair: `start` is compared with
the expected start before it is subtracted from `num_items`) -/
def checkTypes (numItems : Int) : List ItemType → Int → Option Int → List Int → Outcome Unit
  | [], expected, _, _ => if expected ≠ numItems then .err .malformed else .ok ()
  | t :: ts, expected, prev, seen =>
    if ¬ (0 ≤ t.typeId ∧ t.typeId < 65536) then .err .malformed
    else if notAbovePrev prev t.typeId then .err .malformed
    else if t.start ≠ expected then .err .malformed
    else if t.num < 0 then .err .malformed
    else
      match subI32 numItems t.start with
      | none => .panic "check: num_items - t.start"
      | some d =>
        if t.num > d then .err .malformed
        else
          match addI32 expected t.num with
          | none => .panic "check: expected_start += t.num"
          | some e' =>
            if seen.contains t.typeId then .err .malformed
            else checkTypes numItems ts e' (some t.typeId) (seen ++ [t.typeId])

/-- second block of `check`: `n` iterations left, `i` the item index, `offset` the running offset
(after the D13 repair: a size that is not a multiple of four is `Malformed`) -/
def checkItems (r : Reader) : Nat → Nat → Nat → Outcome Unit
  | 0, _, offset => if offset ≠ asUsize r.sizeItems then .err .malformed else .ok ()
  | n + 1, i, offset =>
    match r.itemOffsets[i]? with
    | none => .panic "check: item_offsets[i]"
    | some o =>
      if o < 0 then .err .malformed
      else if offset ≠ asUsize o then .err .malformed
      else if offset + 8 > asUsize r.sizeItems then .err .malformed
      else
        match r.itemHeader i with
        | .panic s => .panic s
        | .err e => .err e
        | .ok (_, size) =>
          if size < 0 then .err .malformed
          else if asUsize size % 4 ≠ 0 then .err .malformed
          else if offset + 8 + asUsize size > asUsize r.sizeItems then .err .malformed
          else checkItems r n (i + 1) (offset + 8 + asUsize size)

/-- the `uncomp_data_sizes[i] < 0` test of the third block (`none`: passed or no size table) -/
def udsCheck (r : Reader) (i : Nat) : Option (Outcome Unit) :=
  match r.uncompSizes with
  | some uds =>
    match uds[i]? with
    | none => some (.panic "check: uncomp_data_sizes[i]")
    | some u => if u < 0 then some (.err .malformed) else none
  | none => none

/-- third block of `check`: data offsets and uncompressed sizes -/
def checkData (r : Reader) : Nat → Nat → Int → Outcome Unit
  | 0, _, _ => .ok ()
  | n + 1, i, previous =>
    match udsCheck r i with
    | some o => o
    | none =>
      match r.dataOffsets[i]? with
      | none => .panic "check: data_offsets[i]"
      | some offset =>
        if offset < 0 ∨ offset > r.sizeData then .err .malformed
        else if previous > offset then .err .malformed
        else checkData r n (i + 1) offset

/-- inner loop of the fourth block: `for k in a..a+n` compare the item's type id -/
def checkTypeItems (r : Reader) (typeId : Int) : Nat → Nat → Outcome Unit
  | 0, _ => .ok ()
  | n + 1, k =>
    match r.itemHeader k with
    | .panic s => .panic s
    | .err e => .err e
    | .ok (w, _) =>
      -- `item_header.type_id() != t.type_id as u16`
      if (w % 4294967296) / 65536 ≠ typeId % 65536 then .err .malformed
      else checkTypeItems r typeId n (k + 1)

/-- fourth block of `check` -/
def checkTypeIds (r : Reader) : List ItemType → Outcome Unit
  | [] => .ok ()
  | t :: ts =>
    match addI32 t.start t.num with
    | none => .panic "check: t.start + t.num"
    | some e =>
      match checkTypeItems r t.typeId (asUsize e - asUsize t.start) (asUsize t.start) with
      | .ok () => checkTypeIds r ts
      | .err e => .err e
      | .panic s => .panic s

/-- `Reader::check` -/
def Reader.check (r : Reader) : Outcome Unit :=
  match checkTypes r.numItems r.itemTypes 0 none [] with
  | .ok () =>
    match checkItems r (asUsize r.numItems) 0 0 with
    | .ok () =>
      match checkData r (asUsize r.numData) 0 0 with
      | .ok () => checkTypeIds r r.itemTypes
      | .err e => .err e
      | .panic s => .panic s
    | .err e => .err e
    | .panic s => .panic s
  | .err e => .err e
  | .panic s => .panic s

/-- `read_exact` of `n` bytes from the remaining input -/
def readExact (n : Nat) (rest : List UInt8) : Option (List UInt8 × List UInt8) :=
  if rest.length < n then none else some (rest.take n, rest.drop n)

/-- the read of `uncomp_data_sizes`, present only in version 4 files -/
def readUds (compressed : Bool) (n : Nat) (rest : List UInt8) :
    Option (Option (List UInt8) × List UInt8) :=
  if compressed then
    match readExact n rest with
    | none => none
    | some (b, rest) => some (some b, rest)
  else some (none, rest)

/-- `Reader::new` on an in-memory file -/
def Reader.new (bytes : List UInt8) : Outcome Reader :=
  match Header.read bytes with
  | .panic s => .panic s
  | .err e => .err e
  | .ok h =>
    match h.checkSizeAndSwaplen with
    | .panic s => .panic s
    | .err e => .err e
    | .ok hc =>
      if h.version ≠ 3 ∧ h.version ≠ 4 then .panic "new: unreachable version"
      else
        let version : Version :=
          if h.version = 3 then .v3 else if hc.crude then .v4crude else .v4
        let rest := bytes.drop headerSize
        match readExact (12 * asUsize h.numItemTypes) rest with
        | none => .err .tooShort
        | some (tb, rest) =>
          match readExact (4 * asUsize h.numItems) rest with
          | none => .err .tooShort
          | some (iob, rest) =>
            match readExact (4 * asUsize h.numData) rest with
            | none => .err .tooShort
            | some (dob, rest) =>
              match readUds version.hasCompressedData (4 * asUsize h.numData) rest with
              | none => .err .tooShort
              | some (udb, rest) =>
                if asUsize h.sizeItems % 4 ≠ 0 then
                  .panic "new: relative_size_of_mult(size_items) alignment assertion"
                else
                  match readExact (4 * (asUsize h.sizeItems / 4)) rest with
                  | none => .err .tooShort
                  | some (ib, rest) =>
                    -- set_seek_base; ensure_filesize(expected_size)
                    if bytes.length < hc.expectedSize.toNat then .err .tooShort
                    else
                      let r : Reader :=
                        { version := version, numItemTypes := h.numItemTypes, numItems := h.numItems,
                          numData := h.numData, sizeItems := h.sizeItems, sizeData := h.sizeData,
                          itemTypes := typesOfWords (wordsOfBytes tb),
                          itemOffsets := wordsOfBytes iob, dataOffsets := wordsOfBytes dob,
                          uncompSizes := udb.map wordsOfBytes, itemsRaw := wordsOfBytes ib,
                          dataRegion := rest }
                      match r.check with
                      | .ok () => .ok r
                      | .err e => .err e
                      | .panic s => .panic s

/-! ## Callbacks that fail -/

/-- `Reader::new` with callbacks that may return `Err(CallbackError)`: `fails k` says whether the
`k`-th callback call fails.  Calls in order: `read` for the header (0), the item types (1), the
item offsets (2), the data offsets (3), the uncompressed sizes (4, version 4 only), the items,
then `set_seek_base`, then `ensure_filesize`.  Everything else is `Reader.new`. -/
def Reader.newCb (bytes : List UInt8) (fails : Nat → Bool) : Outcome Reader :=
  if fails 0 then .err .callback
  else
  match Header.read bytes with
  | .panic s => .panic s
  | .err e => .err e
  | .ok h =>
    match h.checkSizeAndSwaplen with
    | .panic s => .panic s
    | .err e => .err e
    | .ok hc =>
      if h.version ≠ 3 ∧ h.version ≠ 4 then .panic "new: unreachable version"
      else
        let version : Version :=
          if h.version = 3 then .v3 else if hc.crude then .v4crude else .v4
        let rest := bytes.drop headerSize
        if fails 1 then .err .callback
        else
        match readExact (12 * asUsize h.numItemTypes) rest with
        | none => .err .tooShort
        | some (tb, rest) =>
          if fails 2 then .err .callback
          else
          match readExact (4 * asUsize h.numItems) rest with
          | none => .err .tooShort
          | some (iob, rest) =>
            if fails 3 then .err .callback
            else
            match readExact (4 * asUsize h.numData) rest with
            | none => .err .tooShort
            | some (dob, rest) =>
              if version.hasCompressedData && fails 4 then .err .callback
              else
              match readUds version.hasCompressedData (4 * asUsize h.numData) rest with
              | none => .err .tooShort
              | some (udb, rest) =>
                let base := if version.hasCompressedData then 5 else 4
                if asUsize h.sizeItems % 4 ≠ 0 then
                  .panic "new: relative_size_of_mult(size_items) alignment assertion"
                else if fails base then .err .callback
                else
                  match readExact (4 * (asUsize h.sizeItems / 4)) rest with
                  | none => .err .tooShort
                  | some (ib, rest) =>
                    if fails (base + 1) then .err .callback
                    else if fails (base + 2) then .err .callback
                    else if bytes.length < hc.expectedSize.toNat then .err .tooShort
                    else
                      let r : Reader :=
                        { version := version, numItemTypes := h.numItemTypes, numItems := h.numItems,
                          numData := h.numData, sizeItems := h.sizeItems, sizeData := h.sizeData,
                          itemTypes := typesOfWords (wordsOfBytes tb),
                          itemOffsets := wordsOfBytes iob, dataOffsets := wordsOfBytes dob,
                          uncompSizes := udb.map wordsOfBytes, itemsRaw := wordsOfBytes ib,
                          dataRegion := rest }
                      match r.check with
                      | .ok () => .ok r
                      | .err e => .err e
                      | .panic s => .panic s

/-! ## `datafile/src/file.rs`: the file-backed reader -/

/-- `file::Reader::new_impl(file, check_initial_offset)` with the file positioned at byte `start`
(`Reader::open` is `start = 0`).  The sequential reads of `raw::Reader::new` see the file from
`start` on; `ensure_filesize` compares `metadata().len().checked_sub(datafile_start).unwrap()`
(a panic site) with the expected size; `set_seek_base` records the number of bytes read so far,
and `seek_read(offset)` later reads at the absolute file position
`datafile_start + seek_base + offset` (after the repair of `new_impl`, which used to leave out
`datafile_start`). -/
def fileOpen (file : List UInt8) (start : Nat) : Outcome Reader :=
  match Reader.new (file.drop start) with
  | .ok r =>
    if file.length < start then .panic "ensure_filesize: checked_sub(datafile_start).unwrap()"
    else
      let seekBase := (file.drop start).length - r.dataRegion.length
      .ok { r with dataRegion := file.drop (start + seekBase) }
  | o => o

/-! ## Accessors -/

structure ItemView where
  typeId : Nat
  id : Nat
  /-- word index into `items_raw` where `data` starts, and its length in words -/
  off : Nat
  len : Nat
  data : List Int
  deriving Repr, DecidableEq

def Reader.numItemsU (r : Reader) : Outcome Nat :=
  if r.numItems < 0 then .panic "num_items: assert_usize" else .ok r.numItems.toNat

def Reader.numDataU (r : Reader) : Outcome Nat :=
  if r.numData < 0 then .panic "num_data: assert_usize" else .ok r.numData.toNat

def Reader.numItemTypesU (r : Reader) : Outcome Nat :=
  if r.numItemTypes < 0 then .panic "num_item_types: assert_usize" else .ok r.numItemTypes.toNat

/-- `Reader::item(index)` -/
def Reader.item (r : Reader) (index : Nat) : Outcome ItemView :=
  match r.itemHeader index with
  | .panic s => .panic s
  | .err e => .err e
  | .ok (w, size) =>
    match r.itemOffsets[index]? with
    | none => .panic "item: item_offsets[index]"
    | some o =>
      if o < 0 then .panic "item: assert_usize of a negative offset"
      else if o.toNat % 4 ≠ 0 then .panic "item: relative_size_of_mult alignment assertion"
      else if o.toNat / 4 > r.itemsRaw.length then .panic "item: items_raw[off..]"
      else if 2 > r.itemsRaw.length - o.toNat / 4 then .panic "item: [2..]"
      else if size < 0 then .panic "item: assert_usize of a negative size"
      else if size.toNat % 4 ≠ 0 then .panic "item: relative_size_of_mult(size) alignment assertion"
      else if size.toNat / 4 > r.itemsRaw.length - o.toNat / 4 - 2 then .panic "item: [..size]"
      else
        let u := (w % 4294967296).toNat
        .ok { typeId := u / 65536, id := u % 65536, off := o.toNat / 4 + 2, len := size.toNat / 4,
              data := (r.itemsRaw.drop (o.toNat / 4 + 2)).take (size.toNat / 4) }

/-- `item_type_indices(type_id)` as `(start, end)` -/
def itemTypeIndicesIn : List ItemType → Nat → Outcome (Nat × Nat)
  | [], _ => .ok (0, 0)
  | t :: ts, typeId =>
    if (t.typeId % 65536).toNat = typeId then
      if t.start < 0 then .panic "item_type_indices: start.assert_usize"
      else if t.num < 0 then .panic "item_type_indices: num.assert_usize"
      else .ok (t.start.toNat, t.start.toNat + t.num.toNat)
    else itemTypeIndicesIn ts typeId

def Reader.itemTypeIndices (r : Reader) (typeId : Nat) : Outcome (Nat × Nat) :=
  itemTypeIndicesIn r.itemTypes typeId

/-- `item_type(index)` -/
def Reader.itemType (r : Reader) (index : Nat) : Outcome Nat :=
  match r.itemTypes[index]? with
  | none => .panic "item_type: item_types[index]"
  | some t =>
    if t.typeId < 0 ∨ t.typeId > 65535 then .panic "item_type: assert_u16" else .ok t.typeId.toNat

/-- the loop of `find_item` over `k .. k+n` -/
def findItemFrom (r : Reader) (itemId : Nat) : Nat → Nat → Outcome (Option ItemView)
  | 0, _ => .ok none
  | n + 1, k =>
    match r.item k with
    | .panic s => .panic s
    | .err e => .err e
    | .ok v => if v.id = itemId then .ok (some v) else findItemFrom r itemId n (k + 1)

/-- `find_item(type_id, item_id)` -/
def Reader.findItem (r : Reader) (typeId itemId : Nat) : Outcome (Option ItemView) :=
  match r.itemTypeIndices typeId with
  | .panic s => .panic s
  | .err e => .err e
  | .ok (a, b) => findItemFrom r itemId (b - a) a

/-- `data_size_file(index)` -/
def Reader.dataSizeFile (r : Reader) (index : Nat) : Outcome Nat :=
  match r.dataOffsets[index]? with
  | none => .panic "data_size_file: data_offsets[index]"
  | some s =>
    if r.dataOffsets.length = 0 then .panic "data_size_file: data_offsets.len() - 1"
    else
      match (if index < r.dataOffsets.length - 1 then r.dataOffsets[index + 1]? else some r.sizeData) with
      | none => .panic "data_size_file: data_offsets[index + 1]"
      | some e =>
        if asUsize s ≤ asUsize e then .ok (asUsize e - asUsize s)
        else .panic "data_size_file: assert!(start <= end)"

/-- `read_data(index)`: the contents of the callback's data buffer on success.  `inflate destLen
src` is zlib's `uncompress` into a buffer of `destLen` bytes. -/
def Reader.readData (r : Reader) (inflate : Nat → List UInt8 → Option (List UInt8)) (index : Nat) :
    Outcome (List UInt8) :=
  match r.dataSizeFile index with
  | .panic s => .panic s
  | .err e => .err e
  | .ok rawLen =>
    match r.dataOffsets[index]? with
    | none => .panic "read_data: data_offsets[index]"
    | some off =>
      -- `data_offsets[index] as u32`, then seek_read_exact
      let start := (off % 4294967296).toNat
      let raw := (r.dataRegion.drop start).take rawLen
      if raw.length ≠ rawLen then .err .tooShort
      else
        match r.uncompSizes with
        | some uds =>
          match uds[index]? with
          | none => .panic "read_data: uncomp_data_sizes[index]"
          | some u =>
            let dataLen := asUsize u
            match inflate dataLen raw with
            | none => .err .compressionError
            | some out =>
              if out.length > dataLen then .panic "zlib wrote past the destination buffer"
              else if out.length = dataLen then .ok out
              else .err .compressionWrongSize
        | none => .ok raw

/-- `read_data(index)` with callbacks that may fail: `failSeek` = `seek_read` returns
`Err(CallbackError)`, `failAlloc` = `alloc_data_buffer` does.  `&self` is not modified either way. -/
def Reader.readDataCb (r : Reader) (inflate : Nat → List UInt8 → Option (List UInt8)) (index : Nat)
    (failSeek failAlloc : Bool) : Outcome (List UInt8) :=
  match r.dataSizeFile index with
  | .panic s => .panic s
  | .err e => .err e
  | .ok rawLen =>
    match r.dataOffsets[index]? with
    | none => .panic "read_data: data_offsets[index]"
    | some off =>
      if failSeek then .err .callback
      else
        let start := (off % 4294967296).toNat
        let raw := (r.dataRegion.drop start).take rawLen
        if raw.length ≠ rawLen then .err .tooShort
        else
          match r.uncompSizes with
          | some uds =>
            match uds[index]? with
            | none => .panic "read_data: uncomp_data_sizes[index]"
            | some u =>
              if failAlloc then .err .callback
              else
                let dataLen := asUsize u
                match inflate dataLen raw with
                | none => .err .compressionError
                | some out =>
                  if out.length > dataLen then .panic "zlib wrote past the destination buffer"
                  else if out.length = dataLen then .ok out
                  else .err .compressionWrongSize
          | none => if failAlloc then .err .callback else .ok raw

/-- the first outcome that is not `ok` (the `?` / panic propagation of a loop) -/
def firstFailure : List (Outcome Unit) → Outcome Unit
  | [] => .ok ()
  | .ok () :: rest => firstFailure rest
  | .err e :: _ => .err e
  | .panic s :: _ => .panic s

def Outcome.void {α : Type} : Outcome α → Outcome Unit
  | .ok _ => .ok ()
  | .err e => .err e
  | .panic s => .panic s

/-- `Reader::debug_dump` with debug logging enabled: `item_type(i)` for every type index,
`item(k)` for every index of `item_type_indices(type)` (the byte arithmetic of `i32_to_bytes`
stays within `i32`: `((x >> 24) & 0xff) - 0x80 ∈ [-128, 127]`), then `read_data(i)?` for every
data index. -/
def Reader.debugDump (r : Reader) (inflate : Nat → List UInt8 → Option (List UInt8)) : Outcome Unit :=
  firstFailure
    (((List.range r.numItemTypes.toNat).flatMap fun i =>
        match r.itemType i with
        | .ok t =>
          match r.itemTypeIndices t with
          | .ok (a, b) => ((List.range (b - a)).map fun j => (r.item (a + j)).void)
          | .err e => [.err e]
          | .panic s => [.panic s]
        | .err e => [.err e]
        | .panic s => [.panic s])
      ++ (List.range r.numData.toNat).map fun i => (r.readData inflate i).void)

/-! ## Writer (independent of the reader): versions 3 and 4 -/

structure Item where
  typeId : Nat
  id : Nat
  data : List Int
  deriving Repr, DecidableEq, Inhabited

/-- type table of a list of items: one entry `(type_id, start, num)` per run of adjacent items
with the same type id (`idx` = index of the first item of the list) -/
def groupTypes : List Item → Nat → List ItemType
  | [], _ => []
  | it :: rest, idx =>
    match groupTypes rest (idx + 1) with
    | g :: gs =>
      if g.typeId = (it.typeId : Int) then { g with start := idx, num := g.num + 1 } :: gs
      else { typeId := it.typeId, start := idx, num := 1 } :: g :: gs
    | [] => [{ typeId := it.typeId, start := idx, num := 1 }]

/-- running offsets `0, l0, l0+l1, …` (without the total) -/
def offsetsFrom : Nat → List Nat → List Nat
  | _, [] => []
  | o, l :: ls => o :: offsetsFrom (o + l) ls

def sumNat : List Nat → Nat
  | [] => 0
  | l :: ls => l + sumNat ls

def itemBytes (it : Item) : List UInt8 :=
  bytesOfI32 ((it.typeId * 65536 + it.id : Nat) : Int) ++ bytesOfI32 (4 * it.data.length : Nat)
    ++ bytesOfWords it.data

def concatBytes : List (List UInt8) → List UInt8
  | [] => []
  | b :: bs => b ++ concatBytes bs

/-- Writes a datafile of version `ver` (3 or 4).  `deflate` is zlib's `compress`. -/
def writeDf (ver : Nat) (deflate : List UInt8 → List UInt8) (items : List Item)
    (datas : List (List UInt8)) : List UInt8 :=
  let types := groupTypes items 0
  let itemSizes := items.map (fun it => 8 + 4 * it.data.length)
  let stored := if ver = 3 then datas else datas.map deflate
  let storedSizes := stored.map List.length
  let sizeItems := sumNat itemSizes
  let sizeData := sumNat storedSizes
  let nData := datas.length
  let total := 36 + 12 * types.length + 4 * items.length + 4 * nData
    + (if ver = 3 then 0 else 4 * nData) + sizeItems + sizeData
  let size := total - 16
  let swaplen := size - sizeData
  let n2i (n : Nat) : Int := (n : Int)
  magicData
    ++ bytesOfWords [n2i ver, n2i size, n2i swaplen, n2i types.length, n2i items.length, n2i nData,
        n2i sizeItems, n2i sizeData]
    ++ bytesOfWords (types.flatMap (fun t => [t.typeId, t.start, t.num]))
    ++ bytesOfWords ((offsetsFrom 0 itemSizes).map n2i)
    ++ bytesOfWords ((offsetsFrom 0 storedSizes).map n2i)
    ++ (if ver = 3 then [] else bytesOfWords (datas.map (fun d => n2i d.length)))
    ++ concatBytes (items.map itemBytes)
    ++ concatBytes stored

/-- executable form of the round-trip statement for one input: the written file is accepted and
every item and every data block comes back as stored -/
def roundTripOk (ver : Nat) (deflate : List UInt8 → List UInt8)
    (inflate : Nat → List UInt8 → Option (List UInt8)) (items : List Item)
    (datas : List (List UInt8)) : Bool :=
  match Reader.new (writeDf ver deflate items datas) with
  | .ok r =>
    decide (r.numItems = items.length) && decide (r.numData = datas.length)
      && (List.range items.length).all (fun k =>
            match r.item k, items[k]? with
            | .ok v, some it => v.typeId == it.typeId && v.id == it.id && v.data == it.data
            | _, _ => false)
      && (List.range datas.length).all (fun i =>
            match r.readData inflate i, datas[i]? with
            | .ok out, some d => out == d
            | _, _ => false)
  | _ => false

end Tw.Datafile
