import Tw.Model.NetRef
import Tw.Model.NetSim

/-!
# The endpoint in the world of C01 (composition C20 ∘ C01)

One `Net` endpoint, one remote 0.6 connection at address `addr`, and C01's adversarial network
between the two: every datagram either of them ever sent to the other can be delivered at any time,
any number of times, in any order.  The endpoint meanwhile does anything it likes with other
addresses (`NMove.net` with any `Op` that is not a datagram from `addr` — those come from the remote
only, the C01 adversary cannot forge — and not a `send_connless` to `addr`).

Next to the real endpoint the state carries a **ghost** two-party world `g` of `Tw.NetSim`
(`g.a` *is* the remote; `g.b` is the endpoint's peer for `addr` the way C01 sees a connection: its
connection object, the history of its datagrams, what was submitted to it, what it delivered), driven
by the image of every move (`ghostMove`), and real logs of what the endpoint itself did for `addr`
(`netOut`, `netVital`, `netSub`).  `Proofs/NetC01.lean` shows that ghost and reality agree; C01 then
speaks about the endpoint.

Scope: the first peer the address ever gets (`born`): a move that would create a second one ends the
run — C01 is about two connections that both start fresh.
-/
namespace Tw.NetC01
open Tw.Conn Tw.Net Tw.NetSim
open Tw.Conn6 (Env Packet)

inductive NMove where
  /-- the remote application calls its connection -/
  | remCall (draws : List Nat) (c : Call)
  /-- datagram `i` of the endpoint's history towards `addr` reaches the remote -/
  | toRemote (i : Nat) (draws : List Nat) (alt : P6.Alt)
  /-- datagram `i` of the remote's history reaches the endpoint, source address `addr` -/
  | toNet (i : Nat) (draws : List Nat) (alt : P6.Alt)
  /-- any call of the endpoint's API (other peers, other addresses, this peer) -/
  | net (draws : List Nat) (op : Op)
  | advance (dt : Nat)

structure NW (tl : Bool) where
  net : Net
  g : World (proto6 tl)
  /-- a peer for `addr` has existed -/
  born : Bool := false
  /-- the datagram (index in the remote's history, reader's choice) that announced the peer -/
  req : Option (Nat × P6.Alt) := none
  /-- the connection datagrams the endpoint sent to `addr`, in order -/
  netOut : List Packet := []
  /-- payloads of the vital `Chunk` events the endpoint reported for the peer at `addr`, in order -/
  netVital : List Bytes := []
  /-- the chunks `Net::send` accepted (`Ok`) for the peer at `addr`, in order -/
  netSub : List (Bytes × Bool) := []

def NW.init (tl acc : Bool) : NW tl := { net := Net.new acc, g := World.init (proto6 tl) }

/-- payloads of the vital chunk events of an endpoint output -/
def vitalOfNet : List (Nat × NEvent) → List Bytes
  | [] => []
  | (_, .chunk _ true d) :: r => d :: vitalOfNet r
  | _ :: r => vitalOfNet r

/-- calls the composite world does not take from `NMove.net` -/
def allowed (addr : Nat) : Op → Bool
  | .feed a _ => a != addr
  | .sendConnless a _ => a != addr
  | _ => true

/-- the image of a move in the ghost world -/
def ghostMove (tl : Bool) (addr : Nat) (w : NW tl) : NMove → Option (Move (proto6 tl))
  | .remCall d c => some (.call .a d c)
  | .toRemote i d alt => some (.deliver .a i d alt)
  | .advance dt => some (.advance dt)
  | .toNet i d alt =>
    match slot w.net.peers addr with
    | some (_, p) => if p.conn.state = .unconnected then none else some (.deliver .b i d alt)
    | none => none
  | .net d op =>
    match projOp w.net addr op with
    | some (.connect _) => some (.call .b d .connect)
    | some .accept => w.req.map fun (i, alt) => .deliver .b i d alt
    | some (.reject r) => some (.call .b d (.disconnect r))
    | some (.disconnect r) => some (.call .b d (.disconnect r))
    | some (.send x v) => some (.call .b d (.send x v))
    | some .flush => some (.call .b d .flush)
    | some .tick => if (slot w.net.peers addr).isSome then some (.call .b d .tick) else none
    | _ => none

/-- what the endpoint itself does on a move -/
def realStep (tl : Bool) (addr : Nat) (w : NW tl) : NMove → Option (Net × Ret × Out)
  | .toNet i d alt =>
    match w.g.a.out[i]? with
    | none => none
    | some dg =>
      match Net.feed ⟨w.g.now, d⟩ w.net addr (P6.wireRead tl dg.pkt alt) with
      | .ok v => some v
      | .error _ => none
  | .net d op =>
    if allowed addr op then
      match Net.step ⟨w.g.now, d⟩ w.net op with
      | .ok v => some v
      | .error _ => none
    else none
  | _ => some (w.net, .unit, {})

/-- the chunk a move submits to the peer at `addr` (if `Net::send` says `Ok`) -/
def subOf (addr : Nat) (net : Net) (r : Ret) : NMove → List (Bytes × Bool)
  | .net _ (.send pid x v) => if addrOf net pid = some addr ∧ r = .send .ok then [(x, v)] else []
  | _ => []

/-- the ghost world follows with the image of the move (or stays) -/
def ghostStep (tl : Bool) (addr : Nat) (w : NW tl) (m : NMove) : Option (World (proto6 tl)) :=
  match ghostMove tl addr w m with
  | none => some w.g
  | some gm => NetSim.step w.g gm

/-- the datagram a move delivers to the endpoint -/
def reqOf : NMove → Option (Nat × P6.Alt)
  | .toNet i _ alt => some (i, alt)
  | _ => none

/-- did the move give `addr` a peer? -/
def created {tl : Bool} (addr : Nat) (w : NW tl) (net1 : Net) : Bool :=
  (slot w.net.peers addr).isNone && (slot net1.peers addr).isSome

def nwStep {tl : Bool} (addr : Nat) (w : NW tl) (m : NMove) : Option (NW tl) :=
  match realStep tl addr w m with
  | none => none
  | some (net1, r, o) =>
    if created addr w net1 && w.born then none
    else
      match ghostStep tl addr w m with
      | none => none
      | some g1 =>
        some { net := net1, g := g1, born := w.born || created addr w net1
               req := if created addr w net1 then reqOf m else w.req
               netOut := w.netOut ++ (o.for addr).sent.map (·.2)
               netVital := w.netVital ++ vitalOfNet (o.for addr).events
               netSub := w.netSub ++ subOf addr w.net r m }

def nwRun {tl : Bool} (addr : Nat) : NW tl → List NMove → Option (NW tl)
  | w, [] => some w
  | w, m :: ms =>
    match nwStep addr w m with
    | none => none
    | some w1 => nwRun addr w1 ms

/-- the schedule the ghost world runs (the image of the moves, in the states they meet) -/
def ghostSched {tl : Bool} (addr : Nat) : NW tl → List NMove → List (Move (proto6 tl))
  | _, [] => []
  | w, m :: ms =>
    (match ghostMove tl addr w m with
     | none => []
     | some gm => [gm]) ++
      match nwStep addr w m with
      | none => []
      | some w1 => ghostSched addr w1 ms

/-- the hypothesis of C20 along the run: `Net::connect` only to addresses without a peer -/
def nwOk {tl : Bool} (addr : Nat) : NW tl → List NMove → Bool
  | _, [] => true
  | w, m :: ms =>
    (match m with
     | .net _ op => opOk w.net op
     | _ => true) &&
      match nwStep addr w m with
      | none => true
      | some w1 => nwOk addr w1 ms

end Tw.NetC01

namespace Tw.NetC01
open Tw.Conn Tw.Net Tw.NetSim

/-- a run of the composite world (non-vacuity): the remote (address 1) connects, its request reaches
the endpoint, which meanwhile talks to address 2; the application accepts; the handshake completes
over the network; the remote submits two vital chunks and one non-vital one, flushes; the second
copy of its datagram is dropped by the sequence check; the endpoint's application answers -/
def demoRun : List NMove :=
  [.remCall [] .connect, .toNet 0 [] .exact, .net [] (.feed 2 (fun _ => some (connectPacket true))),
   .toNet 0 [] .exact, .net [0x01020304] (.accept 0), .net [0x05060708] (.accept 1), .toRemote 0 [] .exact,
   .remCall [] (.send [7] true), .remCall [] (.send [8] true), .remCall [] (.send [9] false),
   .remCall [] .flush, .toNet 1 [] .exact, .toNet 2 [] .exact, .toNet 2 [] .exact,
   .net [] (.send 0 [5] true), .net [] (.flush 0), .advance 600000, .net [] .tick, .toRemote 1 [] .exact]

/-- endpoint: vital payloads reported for the peer, chunks accepted for it; remote: submitted vital,
delivered vital -/
def summary {tl : Bool} (w : NW tl) : List Bytes × List (Bytes × Bool) × List Bytes × List Bytes :=
  (w.netVital, w.netSub, w.g.a.submittedVital, w.g.a.deliveredVital)

end Tw.NetC01
