import Tw.Model.Huffman

/-
Model of `Huffman::compress_impl_unsafe` in the form of the Rust code: one output byte under
construction (`output_byte: u8`, `num_output_bits: u8`), per symbol the first partial byte, then
whole bytes, then the remainder; every `output.next().ok_or(())?` is the capacity error.  The `u8`
subtractions and the `u32` shifts that would panic in a `dev` build are explicit `panic` outcomes
(unreachable for well-formed tables, whose code lengths are at most 24).
-/
namespace Tw.Huffman

inductive StreamRes where
  | ok (out : List UInt8)
  | capacity
  | panic
  deriving Repr, DecidableEq

structure SState where
  out : List UInt8          -- reversed
  byte : Nat                -- output_byte
  nob : Nat                 -- num_output_bits
  deriving Repr

inductive SStep where
  | ok (s : SState)
  | capacity
  | panic

/-- `while symbol.num_bits - bits_written >= 8 { … }` -/
def streamWhole (cap bits nb : Nat) : Nat → Nat → List UInt8 → Option (Option (Nat × List UInt8))
  | 0, _, _ => none                                     -- fuel (32 suffices: nb ≤ 255)
  | fuel + 1, bw, out =>
    if nb - bw ≥ 8 then
      if bw ≥ 32 then none                              -- `symbol.bits >> bits_written` overflow panic
      else if out.length ≥ cap then some none           -- capacity
      else streamWhole cap bits nb fuel (bw + 8) (UInt8.ofNat ((bits / 2 ^ bw) % 256) :: out)
    else some (some (bw, out))

/-- the body of the `for s in input … .chain(Some(EOF))` loop -/
def streamSym (t : Table) (cap : Nat) (st : SState) (s : Nat) : SStep :=
  let nb := symLen t s
  let bits := symBits t s
  if st.nob > 8 then .panic                              -- `8 - num_output_bits`
  else if nb ≥ 8 - st.nob then
    let ob := st.byte ||| ((bits * 2 ^ st.nob) % 256)
    if st.out.length ≥ cap then .capacity
    else
      match streamWhole cap bits nb 40 (8 - st.nob) (UInt8.ofNat ob :: st.out) with
      | none => .panic
      | some none => .capacity
      | some (some (bw, out)) =>
        if bw ≥ 32 then .panic
        else .ok { out := out, byte := (bits / 2 ^ bw) % 256, nob := nb - bw }
  else
    .ok { st with byte := st.byte ||| ((bits * 2 ^ st.nob) % 256), nob := st.nob + nb }

def streamGo (t : Table) (cap : Nat) : SState → List Nat → SStep
  | st, [] => .ok st
  | st, s :: ss =>
    match streamSym t cap st s with
    | .ok st' => streamGo t cap st' ss
    | r => r

/-- `compress` / `compress_bug` into a buffer of `cap` bytes, as the Rust code computes it -/
def compressStreamInto (t : Table) (bug : Bool) (xs : List UInt8) (cap : Nat) : StreamRes :=
  match streamGo t cap { out := [], byte := 0, nob := 0 } (xs.map (·.toNat) ++ [EOF]) with
  | .panic => .panic
  | .capacity => .capacity
  | .ok st =>
    if st.nob > 0 ∨ bug then
      if st.out.length ≥ cap then .capacity else .ok (UInt8.ofNat st.byte :: st.out).reverse
    else .ok st.out.reverse

/-- with a buffer that always suffices for code lengths ≤ 24 (`compress_into_vec` reserves
`3 * len + 3`; `+ 4` covers the extra byte of `compress_bug`) -/
def compressStream (t : Table) (bug : Bool) (xs : List UInt8) : Option (List UInt8) :=
  match compressStreamInto t bug xs (3 * xs.length + 4) with
  | .ok out => some out
  | _ => none

end Tw.Huffman
