/-
An executable stand-in for zlib's `uncompress(dest, src)` (RFC 1950 wrapper around RFC 1951
`inflate`), used by the *driver* to instantiate the `inflate` parameter of `Tw.Datafile`'s
`readData`, and a `deflate` that emits stored blocks for the writer model.

No property theorem depends on how this function decodes; the theorems quantify over an arbitrary
`inflate`.  The only facts used are the contract `inflate_le` below (by construction: the result
is dropped if it is longer than the destination) and, for the round trip, the hypothesis
`inflate (deflate x) = x`.  Agreement of this decoder with the real zlib (success/failure and
output bytes) is checked by the `datafile` correspondence domain (`inflate` requests).

Decoder after Mark Adler's `puff.c`; all loops take fuel (every step consumes input bits or is
bounded by a constant).
-/
namespace Tw.Inflate

structure St where
  src : Array UInt8
  /-- bit position in `src` -/
  pos : Nat
  out : Array UInt8
  /-- output limit in bytes -/
  cap : Nat

/-- reads `n` bits, least significant first -/
def bits (s : St) (n : Nat) : Option (Nat × St) :=
  if s.pos + n > 8 * s.src.size then none
  else
    let v := (List.range n).foldl (fun acc k =>
      let p := s.pos + k
      let b := (s.src[p / 8]!).toNat / 2 ^ (p % 8) % 2
      acc + b * 2 ^ k) 0
    some (v, { s with pos := s.pos + n })

/-- canonical Huffman code: `count[len]` and the symbols ordered by (length, symbol) -/
structure Huff where
  count : Array Nat
  symbol : Array Nat

/-- builds the decoding tables; second component: `left` of puff.c's `construct` as an `Int`
(negative = over-subscribed, positive = incomplete, 0 = complete) -/
def construct (lengths : List Nat) : Huff × Int :=
  let count : Array Nat := (List.range 16).toArray.map fun l => (lengths.filter (· = l)).length
  let n := lengths.length
  if count[0]! = n then ({ count := count, symbol := #[] }, 0)
  else
    let left : Int := (List.range 15).foldl (fun (left : Int) k =>
      if left < 0 then left else left * 2 - (count[k + 1]! : Int)) 1
    let symbol : List Nat := (List.range 15).flatMap fun k =>
      ((List.range n).filter fun sym => lengths[sym]! = k + 1)
    ({ count := count, symbol := symbol.toArray }, left)

/-- decodes one symbol (bit by bit, lengths 1..15) -/
def decodeLoop (h : Huff) : Nat → Nat → Nat → Nat → Nat → St → Option (Nat × St)
  | 0, _, _, _, _, _ => none
  | fuel + 1, len, code, first, index, s =>
    match bits s 1 with
    | none => none
    | some (b, s) =>
      let code := code + b
      let count := h.count[len]!
      if code < first + count then
        match h.symbol[index + (code - first)]? with
        | some sym => some (sym, s)
        | none => none
      else
        decodeLoop h fuel (len + 1) ((code) * 2) ((first + count) * 2) (index + count) s

def decode (h : Huff) (s : St) : Option (Nat × St) := decodeLoop h 15 1 0 0 0 s

def lbase : Array Nat := #[3, 4, 5, 6, 7, 8, 9, 10, 11, 13, 15, 17, 19, 23, 27, 31, 35, 43, 51, 59,
  67, 83, 99, 115, 131, 163, 195, 227, 258]
def lext : Array Nat := #[0, 0, 0, 0, 0, 0, 0, 0, 1, 1, 1, 1, 2, 2, 2, 2, 3, 3, 3, 3, 4, 4, 4, 4, 5,
  5, 5, 5, 0]
def dbase : Array Nat := #[1, 2, 3, 4, 5, 7, 9, 13, 17, 25, 33, 49, 65, 97, 129, 193, 257, 385, 513,
  769, 1025, 1537, 2049, 3073, 4097, 6145, 8193, 12289, 16385, 24577]
def dext : Array Nat := #[0, 0, 0, 0, 1, 1, 2, 2, 3, 3, 4, 4, 5, 5, 6, 6, 7, 7, 8, 8, 9, 9, 10, 10,
  11, 11, 12, 12, 13, 13]

def copyMatch : Nat → Nat → St → St
  | 0, _, s => s
  | n + 1, dist, s => copyMatch n dist { s with out := s.out.push (s.out[s.out.size - dist]!) }

/-- literal/length/distance loop of one compressed block -/
def codes (lencode distcode : Huff) : Nat → St → Option St
  | 0, _ => none
  | fuel + 1, s =>
    match decode lencode s with
    | none => none
    | some (sym, s) =>
      if sym < 256 then
        if s.out.size ≥ s.cap then none
        else codes lencode distcode fuel { s with out := s.out.push (UInt8.ofNat sym) }
      else if sym = 256 then some s
      else
        let k := sym - 257
        if k ≥ 29 then none
        else
          match bits s lext[k]! with
          | none => none
          | some (e, s) =>
            let len := lbase[k]! + e
            match decode distcode s with
            | none => none
            | some (dsym, s) =>
              if dsym ≥ 30 then none
              else
                match bits s dext[dsym]! with
                | none => none
                | some (e, s) =>
                  let dist := dbase[dsym]! + e
                  if dist > s.out.size then none
                  else if s.out.size + len > s.cap then none
                  else codes lencode distcode fuel (copyMatch len dist s)

def fixedLen : Huff :=
  (construct (List.replicate 144 8 ++ List.replicate 112 9 ++ List.replicate 24 7 ++ List.replicate 8 8)).1
def fixedDist : Huff := (construct (List.replicate 30 5)).1

def stored (s : St) : Option St :=
  let p := (s.pos + 7) / 8
  if p + 4 > s.src.size then none
  else
    let len := (s.src[p]!).toNat + 256 * (s.src[p + 1]!).toNat
    let nlen := (s.src[p + 2]!).toNat + 256 * (s.src[p + 3]!).toNat
    if len + nlen ≠ 65535 then none
    else if p + 4 + len > s.src.size then none
    else if s.out.size + len > s.cap then none
    else some { s with pos := 8 * (p + 4 + len), out := s.out ++ s.src.extract (p + 4) (p + 4 + len) }

def clOrder : List Nat := [16, 17, 18, 0, 8, 7, 9, 6, 10, 5, 11, 4, 12, 3, 13, 2, 14, 1, 15]

def readClLens : Nat → St → List Nat → Option (List Nat × St)
  | 0, s, acc => some (acc.reverse, s)
  | n + 1, s, acc =>
    match bits s 3 with
    | none => none
    | some (v, s) => readClLens n s (v :: acc)

/-- the code-length decoding loop of a dynamic block -/
def readLens (lencode : Huff) (total : Nat) : Nat → List Nat → St → Option (List Nat × St)
  | 0, _, _ => none
  | fuel + 1, acc, s =>
    if acc.length ≥ total then some (acc, s)
    else
      match decode lencode s with
      | none => none
      | some (sym, s) =>
        if sym < 16 then readLens lencode total fuel (acc ++ [sym]) s
        else
          let r : Option (Nat × Nat × St) :=
            if sym = 16 then
              match acc.getLast?, bits s 2 with
              | some l, some (e, s) => some (l, 3 + e, s)
              | _, _ => none
            else if sym = 17 then
              match bits s 3 with
              | some (e, s) => some (0, 3 + e, s)
              | none => none
            else
              match bits s 7 with
              | some (e, s) => some (0, 11 + e, s)
              | none => none
          match r with
          | none => none
          | some (l, rep, s) =>
            if acc.length + rep > total then none
            else readLens lencode total fuel (acc ++ List.replicate rep l) s

def dynamic (fuel : Nat) (s : St) : Option St :=
  match bits s 5 with
  | none => none
  | some (a, s) =>
    match bits s 5 with
    | none => none
    | some (b, s) =>
      match bits s 4 with
      | none => none
      | some (c, s) =>
        let nlen := a + 257
        let ndist := b + 1
        let ncode := c + 4
        if nlen > 286 ∨ ndist > 30 then none
        else
          match readClLens ncode s [] with
          | none => none
          | some (cl, s) =>
            let clLens : List Nat := (List.range 19).map fun sym =>
              match (clOrder.take ncode).idxOf? sym with
              | some k => cl.getD k 0
              | none => 0
            let (lencode, err) := construct clLens
            if err ≠ 0 then none
            else
              match readLens lencode (nlen + ndist) fuel [] s with
              | none => none
              | some (lens, s) =>
                if lens.getD 256 0 = 0 then none
                else
                  let ll := lens.take nlen
                  let dl := lens.drop nlen
                  let (lc, e1) := construct ll
                  let (dc, e2) := construct dl
                  if e1 ≠ 0 ∧ (e1 < 0 ∨ nlen ≠ lc.count[0]! + lc.count[1]!) then none
                  else if e2 ≠ 0 ∧ (e2 < 0 ∨ ndist ≠ dc.count[0]! + dc.count[1]!) then none
                  else codes lc dc fuel s

def blocks : Nat → St → Option St
  | 0, _ => none
  | fuel + 1, s =>
    match bits s 1 with
    | none => none
    | some (last, s) =>
      match bits s 2 with
      | none => none
      | some (ty, s) =>
        let r :=
          if ty = 0 then stored s
          else if ty = 1 then codes fixedLen fixedDist (8 * s.src.size + 8) s
          else if ty = 2 then dynamic (8 * s.src.size + 8) s
          else none
        match r with
        | none => none
        | some s => if last = 1 then some s else blocks fuel s

def adler32 (bs : Array UInt8) : Nat :=
  let (a, b) := bs.foldl (fun (ab : Nat × Nat) x =>
    let a := (ab.1 + x.toNat) % 65521
    (a, (ab.2 + a) % 65521)) (1, 0)
  b * 65536 + a

/-- zlib stream → bytes, at most `cap` of them; `none` = any zlib error -/
def zlibDecode (cap : Nat) (src : Array UInt8) : Option (Array UInt8) :=
  if src.size < 2 then none
  else
    let cmf := (src[0]!).toNat
    let flg := (src[1]!).toNat
    if (cmf * 256 + flg) % 31 ≠ 0 then none
    else if cmf % 16 ≠ 8 then none
    else if cmf / 16 > 7 then none
    else if flg / 32 % 2 = 1 then none
    else
      match blocks (8 * src.size + 8) { src := src, pos := 16, out := #[], cap := cap } with
      | none => none
      | some s =>
        let p := (s.pos + 7) / 8
        if p + 4 > src.size then none
        else
          let want := (src[p]!).toNat * 16777216 + (src[p + 1]!).toNat * 65536
            + (src[p + 2]!).toNat * 256 + (src[p + 3]!).toNat
          if want ≠ adler32 s.out then none else some s.out

/-- `uncompress(dest[0..destLen], src)` of zlib ≥ 1.2.9: with an empty destination the stream is
decoded into a one-byte scratch buffer and, if it ends, `Ok(0)` is reported. -/
def inflate (destLen : Nat) (src : List UInt8) : Option (List UInt8) :=
  match zlibDecode (if destLen = 0 then 1 else destLen) src.toArray with
  | none => none
  | some out =>
    if destLen = 0 then some []
    else if out.size ≤ destLen then some out.toList else none

theorem inflate_le (destLen : Nat) (src out : List UInt8) (h : inflate destLen src = some out) :
    out.length ≤ destLen := by
  unfold inflate at h
  split at h
  · simp at h
  · split at h
    · simp at h; subst h; simp
    · split at h
      · simp at h; subst h; simpa using ‹_ ≤ destLen›
      · simp at h

def storedBlocks : Nat → List UInt8 → List UInt8
  | 0, _ => []
  | fuel + 1, bs =>
    let chunk := bs.take 65535
    let rest := bs.drop 65535
    let n := chunk.length
    let last : UInt8 := if rest.isEmpty then 1 else 0
    [last, UInt8.ofNat (n % 256), UInt8.ofNat (n / 256), UInt8.ofNat ((65535 - n) % 256),
      UInt8.ofNat ((65535 - n) / 256)] ++ chunk ++ (if rest.isEmpty then [] else storedBlocks fuel rest)

/-- zlib stream made of stored blocks only (`78 01`, blocks of at most 65535 bytes, Adler-32) -/
def deflateStored (bs : List UInt8) : List UInt8 :=
  let a := adler32 bs.toArray
  [0x78, 0x01] ++ storedBlocks (bs.length / 65535 + 1) bs
    ++ [UInt8.ofNat (a / 16777216), UInt8.ofNat (a / 65536 % 256), UInt8.ofNat (a / 256 % 256),
        UInt8.ofNat (a % 256)]

end Tw.Inflate
