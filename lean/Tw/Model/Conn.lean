import Tw.Gen.Conn
import Tw.Model.Time

/-!
# Shared online core of the connection layer (`net/src/connection.rs`, `connection7.rs`)

Both protocol variants share, token handling aside, the same code for the online phase:
`Sequence` (arithmetic modulo `SEQUENCE_MODULUS`), `PacketContents`, `OnlineState`, `queue`, `send`,
`flush`, `resend`, `ack_chunks`, `tick`, `needs_tick`, and the two forms of receiving a chunk
packet (`ReceivePacket::connected`: the **eager scan** that advances `ack`; `ReceiveChunks::next`:
the **lazy iterator** that replays the acceptance rule from the saved `ack`).  This file models
that part once; `Conn6.lean` / `Conn7.lean` add tokens, control packets and the handshake.

Conventions: packets are *structured* (a chunk is `(vital?, sequence, resend flag, payload)`), bytes
are the packet builder's business (property C05/C06).  `&mut self` becomes "returns the new value".
Every reachable Rust panic site is `Fail.panic "<site>"`; a loop that does not terminate is
`Fail.hang`.  The callback's `send` is assumed infallible (`CB::Error` uninhabited, as in the
repository's own tests and in the harness).  Constants come from `Tw.Gen.Conn`.
-/
namespace Tw.Conn
open Tw.Time
open Tw.Gen.Conn

/-- how a call can fail to return a value -/
inductive Fail where
  | panic (site : String)
  | hang
deriving Repr, DecidableEq, Inhabited

abbrev Bytes := List UInt8

/-! ## Constants -/

/-- `SEQUENCE_MODULUS` (equal in both protocol files: `tie_seqmod` in `Props/C01`) -/
def seqMod : Nat := P6.SEQUENCE_MODULUS
/-- `MAX_PAYLOAD` -/
def maxPayload : Nat := P6.MAX_PAYLOAD
/-- `MAX_PACKETSIZE` -/
def maxPacketSize : Nat := P6.MAX_PACKETSIZE
/-- capacity of the `ArrayVec<[u8; N]>` scratch buffers -/
def arrayCap : Nat := C6.arrayCap
/-- largest value of the `u8` chunk counter -/
def maxNumChunks : Nat := 255
/-- retransmission interval (µs) -/
def resendUs : Nat := msToUs C6.resendTimeoutMs
/-- send / keep-alive interval (µs) -/
def sendUs : Nat := msToUs C6.sendTimeoutMs

/-- what differs between the two variants inside the shared code -/
structure Cfg where
  /-- `1 << CHUNK_SIZE_BITS`: `write_chunk` asserts `len < chunkLim` -/
  chunkLim : Nat
  /-- whether `Connection::send` also refuses payloads the chunk size field cannot express
  (`buffer.len() >> CHUNK_SIZE_BITS != 0`; 0.6 only — in 0.7 `MAX_PAYLOAD` is below the limit) -/
  sendChecksLim : Bool
deriving Repr

/-- `protocol::chunk_header_size` -/
def chunkHeaderSize (vital : Bool) : Nat :=
  if vital then P6.CHUNK_HEADER_SIZE_VITAL else P6.CHUNK_HEADER_SIZE

/-! ## Sequence numbers -/

/-- `Sequence::next` (the value it assigns and returns) -/
def seqNext (s : Nat) : Nat := (s + 1) % seqMod

inductive SeqOrd where
  | past | current | future
deriving Repr, DecidableEq

/-- `Sequence::compare`: what `other` is in relation to `self` -/
def seqCompare (self other : Nat) : SeqOrd :=
  let half := seqMod / 2
  if self < other then (if other - self < half then .future else .past)
  else if other < self then (if self - other > half then .future else .past)
  else .current

/-- `Sequence::update`: accept `other` iff it is exactly the successor; returns the new value -/
def seqUpdate (self other : Nat) : Nat × SeqOrd :=
  let n := seqNext self
  let r := seqCompare n other
  (if r = .current then n else self, r)

/-- the acceptance test of both receive forms -/
def seqAccepts (ack s : Nat) : Bool := decide (seqNext ack = s)

/-! ## Chunks and packet contents -/

/-- a chunk as it appears in a chunk packet: `vital = some (sequence, resend flag)` -/
structure Chunk where
  vital : Option (Nat × Bool)
  data : Bytes
deriving Repr, DecidableEq

def Chunk.size (c : Chunk) : Nat := chunkHeaderSize c.vital.isSome + c.data.length

def chunksSize : List Chunk → Nat
  | [] => 0
  | c :: cs => c.size + chunksSize cs

/-- `PacketContents { num_chunks: u8, data }`; `data` is kept as the list of chunks written -/
structure PacketContents where
  numChunks : Nat
  chunks : List Chunk
deriving Repr, DecidableEq

def PacketContents.empty : PacketContents := ⟨0, []⟩

/-- `data.len()` -/
def PacketContents.size (p : PacketContents) : Nat := chunksSize p.chunks

/-- `PacketContents::can_fit_chunk` -/
def PacketContents.canFit (p : PacketContents) (len : Nat) (vital : Bool) : Bool :=
  decide (p.numChunks < maxNumChunks) && decide (p.size + chunkHeaderSize vital + len ≤ maxPayload)

/-- `PacketContents::write_chunk`: `protocol::write_chunk(..).unwrap(); num_chunks += 1` -/
def PacketContents.writeChunk (cfg : Cfg) (p : PacketContents) (data : Bytes) (vital : Option (Nat × Bool)) :
    Except Fail PacketContents :=
  if data.length ≥ cfg.chunkLim then .error (.panic "write_chunk: bytes.len() >> CHUNK_SIZE_BITS == 0")
  else if p.size + chunkHeaderSize vital.isSome + data.length > arrayCap then
    .error (.panic "write_chunk: ArrayVec capacity")
  else if p.numChunks + 1 > maxNumChunks then .error (.panic "num_chunks += 1 overflow")
  else .ok ⟨p.numChunks + 1, p.chunks ++ [⟨vital, data⟩]⟩

/-! ## Online state -/

structure ResendChunk where
  nextSend : Timeout
  seq : Nat
  data : Bytes
deriving Repr, DecidableEq

/-- `OnlineState` without the token(s) -/
structure Online where
  ack : Nat
  sequence : Nat
  requestResend : Bool
  packet : PacketContents
  packetNonvital : PacketContents
  /-- newest first -/
  resendQueue : List ResendChunk
deriving Repr, DecidableEq

def Online.new : Online := ⟨0, 0, false, .empty, .empty, []⟩

/-- a chunk packet handed to the packet builder, minus the token -/
structure Flushed where
  ack : Nat
  requestResend : Bool
  numChunks : Nat
  chunks : List Chunk
deriving Repr, DecidableEq

/-- `OnlineState::can_send` -/
def Online.canSend (o : Online) : Bool := o.packet.numChunks != 0 || o.requestResend

/-- `OnlineState::flush` -/
def Online.flush (o : Online) : Online × List Flushed :=
  if !o.canSend then (o, [])
  else ({ o with requestResend := false, packet := .empty, packetNonvital := .empty },
        [⟨o.ack, o.requestResend, o.packet.numChunks, o.packet.chunks⟩])

/-- `OnlineState::ack_chunks`: drop the chunk carrying `ack` and everything older -/
def Online.ackChunks (o : Online) (ack : Nat) : Online :=
  match o.resendQueue.findIdx? (fun c => c.seq == ack) with
  | some i => { o with resendQueue := o.resendQueue.take i }
  | none => o

/-- `Connection::queue` -/
def Online.queue (cfg : Cfg) (now : Nat) (o : Online) (data : Bytes) (vital : Bool) : Except Fail Online :=
  if vital then
    let seq := seqNext o.sequence
    if data.length > arrayCap then .error (.panic "overlong resend packet")
    else
      let rq := ⟨Timeout.after now resendUs, seq, data⟩ :: o.resendQueue
      match o.packet.writeChunk cfg data (some (seq, false)) with
      | .error e => .error e
      | .ok p => .ok { o with sequence := seq, resendQueue := rq, packet := p }
  else
    match o.packetNonvital.writeChunk cfg data none with
    | .error e => .error e
    | .ok pn =>
      match o.packet.writeChunk cfg data none with
      | .error e => .error e
      | .ok p => .ok { o with packet := p, packetNonvital := pn }

/-- the payload lengths `Connection::send` accepts (`TooLongData` otherwise) -/
def Cfg.accepts (cfg : Cfg) (len : Nat) : Bool :=
  !(decide (len > maxPayload) || (cfg.sendChecksLim && decide (len ≥ cfg.chunkLim)))

inductive SendRes where
  | ok | tooLongData
deriving Repr, DecidableEq

/-- `Connection::send`, online part -/
def Online.send (cfg : Cfg) (now : Nat) (o : Online) (data : Bytes) (vital : Bool) :
    Except Fail (Online × SendRes × List Flushed) :=
  if !cfg.accepts data.length then .ok (o, .tooLongData, [])
  else
    let (o1, fl) := if !o.packet.canFit data.length vital then o.flush else (o, [])
    match o1.queue cfg now data vital with
    | .error e => .error e
    | .ok o2 => .ok (o2, .ok, fl)

/-- the `while i < len` loop of `Connection::resend`: `todo` are the chunks still to place, oldest
first; `send` is the connection's send timer.  Like `send`: make room if the chunk does not fit, then
queue it unconditionally.  Structural recursion: one chunk is placed per iteration. -/
def resendLoop (cfg : Cfg) (now : Nat) : List ResendChunk → Online → Timeout → List Flushed →
    Except Fail (Online × Timeout × List Flushed)
  | [], o, send, acc => .ok (o, send, acc)
  | c :: rest, o, send, acc =>
    let fits := o.packet.canFit c.data.length true
    let o1 := if fits then o else o.flush.1
    let send1 := if fits then send else Timeout.after now sendUs
    let acc1 := if fits then acc else acc ++ o.flush.2
    match o1.packet.writeChunk cfg c.data (some (c.seq, true)) with
    | .error e => .error e
    | .ok p => resendLoop cfg now rest { o1 with packet := p } send1 acc1

/-- `ResendChunk::start_timeout` -/
def ResendChunk.restart (now : Nat) (c : ResendChunk) : ResendChunk :=
  { c with nextSend := Timeout.after now resendUs }

/-- start of `Connection::resend`: the packet is rebuilt from the retained non-vital part, every
unacknowledged chunk gets a fresh timer -/
def Online.resendStart (now : Nat) (o : Online) : Online :=
  { o with packet := o.packetNonvital, resendQueue := o.resendQueue.map (ResendChunk.restart now) }

/-- `Connection::resend` -/
def Online.resend (cfg : Cfg) (now : Nat) (o : Online) (send : Timeout) :
    Except Fail (Online × Timeout × List Flushed) :=
  if o.resendQueue.isEmpty then .ok (o, send, [])
  else
    resendLoop cfg now (o.resendStart now).resendQueue.reverse (o.resendStart now) send []

/-! ### The loop before the repair (defect D4), kept for the witness theorem of C02

Before commit "fix: Connection::resend looped forever …" the loop only advanced when the chunk
fitted and otherwise flushed and retried; a chunk that does not fit an empty packet was retried
forever.  With fuel, running out of fuel is `Fail.hang`. -/
namespace Unfixed

def resendLoop (cfg : Cfg) (now : Nat) : Nat → List ResendChunk → Online → Timeout → List Flushed →
    Except Fail (Online × Timeout × List Flushed)
  | _, [], o, send, acc => .ok (o, send, acc)
  | 0, _ :: _, _, _, _ => .error .hang
  | fuel + 1, c :: rest, o, send, acc =>
    if o.packet.canFit c.data.length true then
      match o.packet.writeChunk cfg c.data (some (c.seq, true)) with
      | .error e => .error e
      | .ok p => resendLoop cfg now fuel rest { o with packet := p } send acc
    else
      let (o1, fl) := o.flush
      resendLoop cfg now fuel (c :: rest) o1 (Timeout.after now sendUs) (acc ++ fl)

/-- one iteration of the old loop body on a non-empty todo list: the new todo list and state -/
def resendStep (cfg : Cfg) (c : ResendChunk) (rest : List ResendChunk) (o : Online) :
    Except Fail (List ResendChunk × Online) :=
  if o.packet.canFit c.data.length true then
    match o.packet.writeChunk cfg c.data (some (c.seq, true)) with
    | .error e => .error e
    | .ok p => .ok (rest, { o with packet := p })
  else .ok (c :: rest, o.flush.1)

end Unfixed

/-- the retransmission deadline `needs_tick` and `tick` look at: the oldest unacked chunk's -/
def Online.resendDeadline (o : Online) : Timeout :=
  match o.resendQueue.getLast? with
  | some c => c.nextSend
  | none => .inactive

/-! ## Receiving a chunk packet -/

/-- events handed to the application (`ReceiveChunk`) -/
inductive Event where
  | connless (data : Bytes)
  | chunk (data : Bytes) (vital : Bool)
  | ready
  | disconnect (reason : Bytes)
deriving Repr, DecidableEq

/-- `Sequence::from_u16` asserts `seq < SEQUENCE_MODULUS` for every vital chunk scanned -/
def chunksSeqOk (cs : List Chunk) : Bool :=
  cs.all fun c => match c.vital with
    | some (s, _) => decide (s < seqMod)
    | none => true

/-- the eager scan of `ReceivePacket::connected`: new `(ack, request_resend)` -/
def receiveEager : Nat → Bool → List Chunk → Nat × Bool
  | ack, rr, [] => (ack, rr)
  | ack, rr, c :: cs =>
    match c.vital with
    | none => receiveEager ack rr cs
    | some (s, _) =>
      let (a, ord) := seqUpdate ack s
      receiveEager a (rr || ord != .current) cs

/-- the lazy iterator `ReceiveChunks`, drained: replays the acceptance rule from the saved ack -/
def receiveLazy : Nat → List Chunk → List Event
  | _, [] => []
  | ack, c :: cs =>
    match c.vital with
    | none => .chunk c.data false :: receiveLazy ack cs
    | some (s, _) =>
      let (a, ord) := seqUpdate ack s
      if ord = .current then .chunk c.data true :: receiveLazy a cs else receiveLazy ack cs

/-- `online.ack_chunks(Sequence::from_u16(ack))` at the start of `feed` -/
def Online.feedAck (o : Online) (ack : Nat) : Except Fail Online :=
  if ack ≥ seqMod then .error (.panic "Sequence::from_u16(ack)") else .ok (o.ackChunks ack)

/-- online part of `feed` for a chunk packet (after the token check and `ack_chunks`): `resend` if
requested, eager scan; returns the drained events -/
def Online.receive (cfg : Cfg) (now : Nat) (o : Online) (send : Timeout) (requestResend : Bool)
    (chunks : List Chunk) : Except Fail (Online × Timeout × List Flushed × List Event) :=
  let r := if requestResend then o.resend cfg now send else .ok (o, send, [])
  match r with
  | .error e => .error e
  | .ok (o2, send2, fl) =>
    if !chunksSeqOk chunks then .error (.panic "Sequence::from_u16(sequence)")
    else
      let (a, rr) := receiveEager o2.ack o2.requestResend chunks
      .ok ({ o2 with ack := a, requestResend := rr }, send2, fl, receiveLazy o2.ack chunks)

end Tw.Conn
