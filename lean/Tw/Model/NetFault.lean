import Tw.Model.NetRef

/-!
# The endpoint when `Callback::send` can fail

`Tw.Net.step` assumes an infallible `send`.  Reading `net.rs` / `connection.rs` for what a failing
`send` changes:

* every `cb.send(..)` error is handed back to the caller (`?` / `map_err`), and **no state change
  depends on it** — `OnlineState::flush` clears the packet whatever `send` answered,
  `Connection::disconnect` becomes `Disconnected` whatever `send` answered, `Net::disconnect` /
  `Net::reject` remove the peer whatever the connection answered, `Connection::send` queues the
  chunk after a failed implicit flush, the `Tick` iterator goes on with the next peer —
* with one exception: the loop of `Connection::resend` leaves through `online.flush(..)?`, so the
  chunks it had not yet written stay out of the packet (they remain in the resend queue with their
  restarted timers).  The state then is the infallible run's with `packet` empty: the failing
  `flush` had just cleared `packet` / `packet_nonvital` / `request_resend`, and the send timer was
  set before the flush.

So a call under send faults is the infallible call (`step`) whose datagrams are filtered through the
armed faults (`applyFaults`), plus that one patch.  A connection calls `resend` from `tick` when the
oldest retransmission timer is due, and from `feed` of a chunk packet with the resend flag (only an
`Online` connection sends anything in `feed` then); every other call hands at most one datagram per
peer to `send`.

Faults are armed per destination address: `(a, k)` = the `k`-th next `send` to `a` fails.
-/
namespace Tw.Net
open Tw.Conn Tw.Conn6 Tw.Time

/-- armed send faults: `(a, k)` = the `k`-th next `Callback::send(a, _)` returns `Err` -/
abbrev Arms := List (Nat × Nat)

/-- one more `send` to `a`: does a fault fire, and the arms that are left -/
def Arms.attempt (f : Arms) (a : Nat) : Bool × Arms :=
  let f1 := f.map fun e => if e.1 = a then (e.1, e.2 - 1) else e
  (f1.any fun e => e.1 = a && e.2 = 0, f1.filter fun e => !(e.1 = a && e.2 = 0))

/-- result of passing a call's datagrams through the armed faults -/
structure FRes where
  /-- datagrams really sent -/
  sent : List (Nat × Packet) := []
  /-- datagrams whose `send` failed (each one is an `Err` handed back to the caller) -/
  failed : List (Nat × Packet) := []
  arms : Arms := []
  /-- addresses whose `resend` loop was left early -/
  dead : List Nat := []
deriving Repr, DecidableEq

/-- The datagrams of the infallible call, in order, against the armed faults.  `cut a`: the
datagrams for `a` come from `Connection::resend`, which returns at the first failure — the later
ones are never handed to `send`. -/
def applyFaults (cut : Nat → Bool) : List (Nat × Packet) → Arms → List Nat → FRes
  | [], f, dead => { arms := f, dead := dead }
  | (a, p) :: rest, f, dead =>
    if dead.contains a then applyFaults cut rest f dead
    else
      let (hit, f1) := f.attempt a
      let r := applyFaults cut rest f1 (if hit && cut a then a :: dead else dead)
      if hit then { r with failed := (a, p) :: r.failed } else { r with sent := (a, p) :: r.sent }

/-- is the connection about to run `resend` in `tick`? -/
def tickResends (env : Env) (c : Conn) : Bool :=
  match c.state with
  | .online _ o => o.resendDeadline.triggered env.now
  | _ => false

def isOnline (c : Conn) : Bool :=
  match c.state with
  | .online _ _ => true
  | _ => false

/-- do the datagrams this call sends to `a` come from `Connection::resend`? (state before the call) -/
def fromResend (env : Env) (net : Net) : Op → Nat → Bool
  | .tick, a => net.peers.any fun e => e.2.addr = a && tickResends env e.2.conn
  | .feed b _, a =>
    b = a && (match slot net.peers a with
      | some e => isOnline e.2.conn
      | none => false)
  | _, _ => false

/-- `resend` was left at a failed `flush`: nothing is queued -/
def cutConn (c : Conn) : Conn :=
  match c.state with
  | .online t o => { c with state := .online t { o with packet := .empty } }
  | _ => c

def patchDead (ps : Peers) (dead : List Nat) : Peers :=
  ps.map fun e => if dead.contains e.2.addr then (e.1, { e.2 with conn := cutConn e.2.conn }) else e

/-- what a call under send faults hands back: the state, the return value, the output with the
datagrams really sent, the datagrams whose send failed (= the errors reported), the arms left -/
abbrev FStep := Except Fail (Net × Ret × Out × List (Nat × Packet) × Arms)

/-- one call of the endpoint's API with the armed send faults -/
def stepF (env : Env) (net : Net) (arms : Arms) (op : Op) : FStep :=
  match step env net op with
  | .error f => .error f
  | .ok (net1, r, o) =>
    let fr := applyFaults (fromResend env net op) o.sent arms []
    .ok ({ net1 with peers := patchDead net1.peers fr.dead }, r, { o with sent := fr.sent }, fr.failed, fr.arms)

end Tw.Net
