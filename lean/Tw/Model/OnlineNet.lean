import Tw.Model.Conn

/-!
# Two online cores and a network, for the progress statement of C02(c)

The same system as the online-core part of `Tw/Model/NetSim.lean` (owned by the C01 builder), kept
here under its own namespace so that `Props/C02` does not depend on that file's organisation: two
`Online` states indexed by `Bool`, per endpoint the history of every chunk packet it sent (stamped
with the submission counters at send time), ghost lists of what was submitted / handed over; moves
`send`, `flush`, `resend`, `deliver` use the real model functions.  H1 (`resendQueue.length < 512` at
a vital send) and H2 (fewer than 256 submissions of either side while a datagram is in flight) are
guards.  On top: `fairRound` / `fairRounds` / `quiescent`.
-/
namespace Tw.OnlineNet
open Tw.Conn Tw.Time

structure Stamped where
  pkt : Flushed
  /-- vital chunks submitted by the sender / by its peer when the datagram was sent -/
  nSelf : Nat
  nPeer : Nat
  /-- vital chunks the sender had been handed when the datagram was sent -/
  dSelf : Nat
deriving Repr, DecidableEq

structure Sys where
  ep : Bool → Online
  /-- `net x`: everything endpoint `x` ever sent, oldest first -/
  net : Bool → List Stamped
  /-- vital payloads submitted by `x` / handed to `x`, in order -/
  sub : Bool → List Bytes
  del : Bool → List Bytes
  /-- non-vital payloads submitted by `x` / handed to `x` -/
  nvSub : Bool → List Bytes
  nvDel : Bool → List Bytes

def Sys.init : Sys := ⟨fun _ => .new, fun _ => [], fun _ => [], fun _ => [], fun _ => [], fun _ => []⟩

def upd {α : Type} (f : Bool → α) (x : Bool) (v : α) : Bool → α := fun y => if y = x then v else f y

inductive Move where
  | send (x : Bool) (data : Bytes) (vital : Bool)
  | flush (x : Bool)
  | resend (x : Bool)
  /-- endpoint `x` receives datagram `i` of its peer's history -/
  | deliver (x : Bool) (i : Nat)
deriving Repr, DecidableEq

def h1Limit : Nat := 512
def h2Limit : Nat := 256

/-- stamp the datagrams `x` sends now -/
def stamp (s : Sys) (x : Bool) (fl : List Flushed) : List Stamped :=
  fl.map fun f => ⟨f, (s.sub x).length, (s.sub (!x)).length, (s.del x).length⟩

def vitalPayloads : List Event → List Bytes
  | [] => []
  | .chunk d true :: es => d :: vitalPayloads es
  | _ :: es => vitalPayloads es

def nonvitalPayloads : List Event → List Bytes
  | [] => []
  | .chunk d false :: es => d :: nonvitalPayloads es
  | _ :: es => nonvitalPayloads es

def step (cfg : Cfg) (s : Sys) : Move → Option Sys
  | .send x data vital =>
    if vital && decide ((s.ep x).resendQueue.length ≥ h1Limit) then none
    else
      match (s.ep x).send cfg 0 data vital with
      | .error _ => none
      | .ok (_, .tooLongData, _) => some s
      | .ok (o, .ok, fl) =>
        some { s with
          ep := upd s.ep x o
          net := upd s.net x (s.net x ++ stamp s x fl)
          sub := if vital then upd s.sub x (s.sub x ++ [data]) else s.sub
          nvSub := if vital then s.nvSub else upd s.nvSub x (s.nvSub x ++ [data]) }
  | .flush x =>
    some { s with ep := upd s.ep x (s.ep x).flush.1, net := upd s.net x (s.net x ++ stamp s x (s.ep x).flush.2) }
  | .resend x =>
    match (s.ep x).resend cfg 0 .inactive with
    | .error _ => none
    | .ok (o, _, fl) => some { s with ep := upd s.ep x o, net := upd s.net x (s.net x ++ stamp s x fl) }
  | .deliver x i =>
    match (s.net (!x))[i]? with
    | none => none
    | some p =>
      if (s.sub (!x)).length - p.nSelf ≥ h2Limit ∨ (s.sub x).length - p.nPeer ≥ h2Limit then none
      else
        match (s.ep x).feedAck p.pkt.ack with
        | .error _ => none
        | .ok o1 =>
          match o1.receive cfg 0 .inactive p.pkt.requestResend p.pkt.chunks with
          | .error _ => none
          | .ok (o2, _, fl, evs) =>
            some { s with
              ep := upd s.ep x o2
              net := upd s.net x (s.net x ++ stamp s x fl)
              del := upd s.del x (s.del x ++ vitalPayloads evs)
              nvDel := upd s.nvDel x (s.nvDel x ++ nonvitalPayloads evs) }

def run (cfg : Cfg) : Sys → List Move → Option Sys
  | s, [] => some s
  | s, m :: ms =>
    match step cfg s m with
    | none => none
    | some s1 => run cfg s1 ms

/-- one fair round: each side resends and flushes, then every datagram the peer sent in this round
is delivered once, in order -/
def fairRound (cfg : Cfg) (s : Sys) : Option Sys :=
  match run cfg s [.resend true, .flush true, .resend false, .flush false] with
  | none => none
  | some s1 =>
    let newT := (List.range (s1.net true).length).drop (s.net true).length
    let newF := (List.range (s1.net false).length).drop (s.net false).length
    run cfg s1 (newT.map (Move.deliver false) ++ newF.map (Move.deliver true))

def fairRounds (cfg : Cfg) : Nat → Sys → Option Sys
  | 0, s => some s
  | k + 1, s =>
    match fairRound cfg s with
    | none => none
    | some s1 => fairRounds cfg k s1

/-- everything submitted has been handed over, nothing is queued or unacknowledged -/
def quiescent (s : Sys) : Prop :=
  ∀ x, s.del (!x) = s.sub x ∧ (s.ep x).resendQueue = [] ∧ (s.ep x).packet.chunks = [] ∧ (s.ep x).requestResend = false

end Tw.OnlineNet
