import Tw.Model.Huffman
import Tw.Model.HuffmanFreq

/-
Model of the C++ reference's `CHuffman::ConstructTree` and `Setbits_r`
(`huffman/reference/sys/src/teeworlds/huffman.cpp`): frequencies are stored in `int m_Frequency`
(an `unsigned` ≥ 2^31 becomes negative), the two rarest are merged with `int` addition, the tree is
labelled by an unbounded recursion (`Bits | (1 << Depth)`, no depth limit).

`BubbleSort` is modelled by its result: it swaps adjacent elements only when the left one is strictly
smaller, i.e. it is the stable descending sort.  `int` overflow (undefined in C++) is modelled as
two's-complement wrap-around; the theorems that compare with the Rust only use vectors on which no
overflow occurs.
-/
namespace Tw.Huffman

structure FreqI where
  frequency : Int
  nodeIdx : Nat
  deriving Repr, DecidableEq

/-- `unsigned` → `int` (gcc/clang: modulo 2^32) -/
def toI32 (x : Nat) : Int :=
  if x % 4294967296 < 2147483648 then (x % 4294967296 : Nat) else ((x % 4294967296 : Nat) : Int) - 4294967296

/-- `int + int` with wrap-around -/
def addI32 (a b : Int) : Int := toI32 ((a + b) % 4294967296).toNat

def insertDescI (x : FreqI) : List FreqI → List FreqI
  | [] => [x]
  | y :: ys => if y.frequency ≥ x.frequency then y :: insertDescI x ys else x :: y :: ys

/-- the result of `BubbleSort(apNodesLeft, NumNodesLeft)` -/
def sortDescI (l : List FreqI) : List FreqI := l.foldl (fun acc x => insertDescI x acc) []

/-- the `while(NumNodesLeft > 1)` loop: `m_aLeafs[0]` = last, `m_aLeafs[1]` = second last, the parent
takes the second-last slot (which is then the last one) -/
def buildTreeI : Nat → List FreqI → Table → Table
  | 0, _, nodes => nodes
  | fuel + 1, fs, nodes =>
    if fs.length ≤ 1 then nodes
    else
      match (sortDescI fs).reverse with
      | f1 :: f2 :: restRev =>
        let parent : FreqI := ⟨addI32 f1.frequency f2.frequency, nodes.size⟩
        buildTreeI fuel (restRev.reverse ++ [parent]) (nodes.push (f1.nodeIdx, f2.nodeIdx))
      | _ => nodes

/-- `Setbits_r`: child 1 first (bit set), then child 0; a symbol gets `(m_Bits, m_NumBits)`.
`fuel` bounds the recursion depth (indices decrease along every edge, `n + 1` suffices). -/
def refSetbits (N : Table) : Nat → Array (Nat × Nat) → Nat → Nat → Nat → Array (Nat × Nat)
  | 0, C, _, _, _ => C
  | g + 1, C, n, bits, d =>
    if n < NUM_SYMBOLS then C.set! n (bits, d)
    else
      let C1 := refSetbits N g C (node N n).2 (bits + 2 ^ d) (d + 1)
      refSetbits N g C1 (node N n).1 bits (d + 1)

structure RefTree where
  nodes : Table                    -- `m_aLeafs` of the inner nodes (entries below 257 unused)
  codes : Array (Nat × Nat)        -- `(m_Bits, m_NumBits)` of the 257 symbols

/-- `CHuffman::ConstructTree(pFrequencies)` -/
def refConstruct (f : List Nat) : RefTree :=
  let fs : List FreqI := (f.zipIdx.map fun (x, i) => ⟨toI32 x, i⟩) ++ [⟨1, EOF⟩]
  let nodes := buildTreeI fs.length fs (Array.replicate NUM_SYMBOLS (65535, 65535))
  { nodes := nodes,
    codes := refSetbits nodes NUM_NODES (Array.replicate NUM_SYMBOLS (0, 4294967295))
      (nodes.size - 1) 0 0 }

/-- the reference's tree in the representation of the Rust table (`SymbolRepr::to_node`); faithful
when every code is shorter than 25 bits -/
def RefTree.toTable (r : RefTree) : Table :=
  (List.range r.nodes.size).map (fun i =>
    if i < NUM_SYMBOLS then
      ((r.codes.getD i (0, 0)).2 * 256 + (r.codes.getD i (0, 0)).1 / 65536, (r.codes.getD i (0, 0)).1 % 65536)
    else node r.nodes i) |>.toArray

def RefTree.maxLen (r : RefTree) : Nat := r.codes.foldl (fun m c => max m c.2) 0

/-- `CHuffman::Compress` on the reference's own tree (`m_Bits`, `m_NumBits` of any length below 32;
the 32-bit `Bits` register drops what is shifted out) -/
def refTreeCompressGo (r : RefTree) : List Nat → Nat → Nat → List UInt8 → Nat × List UInt8
  | [], bits, _, out => (bits, out)
  | s :: ss, bits, bc, out =>
    let c := r.codes.getD s (0, 0)
    let bits := (bits ||| (c.1 <<< bc)) % 4294967296
    let bc := bc + c.2
    let rec wr : Nat → Nat → Nat → List UInt8 → Nat × Nat × List UInt8
      | 0, b, n, o => (b, n, o)
      | k + 1, b, n, o => if n ≥ 8 then wr k (b / 256) (n - 8) (UInt8.ofNat (b % 256) :: o) else (b, n, o)
    let (bits, bc, out) := wr 8 bits bc out
    refTreeCompressGo r ss bits bc out

def refTreeCompress (r : RefTree) (xs : List UInt8) : List UInt8 :=
  let (bits, out) := refTreeCompressGo r (xs.map (·.toNat) ++ [EOF]) 0 0 []
  (UInt8.ofNat (bits % 256) :: out).reverse

end Tw.Huffman
