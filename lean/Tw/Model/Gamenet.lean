/-
Generic interpreter over the protocol description language (`Tw/Model/GamenetSpec.lean`): what the
codecs that `gamenet/generate/datatypes.py` emits for a description do — `decode` / `encode` of
system, game and connectionless messages over the packer model, `decode` / `encode` of snapshot
objects over integer lists, message ids.

Per member type the emitted Rust expression (`decode_expr`, `encode_expr`, `assert_expr`,
`decode_int_expr` of the Python class) is quoted next to its model.  Every reachable or
type-guarded Rust panic site (`assert!`, `unwrap`) is an explicit `panic` outcome.

Not modelled: `CapacityError` of a too small output buffer (the harness encodes into a buffer that
is large enough; only the `data.len() > i32::MAX` case of `write_data` is kept).
-/
import Tw.Model.Packer
import Tw.Model.GamenetSpec

namespace Tw.Gamenet
open Tw.Packer (Warning readInt writeInt readString inI32)

/-! ### Values -/

mutual
/-- Decoded member values.  `int`: every integer-like Rust field (`i32`, enum, `Tick`, `TuneParam`,
`u16`, `u8`); `bytes`: `&[u8]`, `Sha256`, `Uuid`, `&[AddrPacked]`, `ClientsData`; `list`: arrays and
nested snapshot objects. -/
inductive Val where
  | int (v : Int)
  | bool (b : Bool)
  | bytes (b : List UInt8)
  | none
  | some (v : Val)
  | list (vs : VL)
  deriving Repr, DecidableEq
inductive VL where
  | nil
  | cons (v : Val) (vs : VL)
  deriving Repr, DecidableEq
end

def VL.toList : VL → List Val
  | .nil => []
  | .cons v vs => v :: vs.toList

def VL.ofList : List Val → VL
  | [] => .nil
  | v :: vs => .cons v (VL.ofList vs)

def VL.length : VL → Nat
  | .nil => 0
  | .cons _ vs => vs.length + 1

/-- `gamenet/common/src/error.rs` -/
inductive Err where
  | controlCharacters | intOutOfRange | invalidIntString | unexpectedEnd | unknownId
  deriving Repr, DecidableEq

def Err.name : Err → String
  | .controlCharacters => "ControlCharacters"
  | .intOutOfRange => "IntOutOfRange"
  | .invalidIntString => "InvalidIntString"
  | .unexpectedEnd => "UnexpectedEnd"
  | .unknownId => "UnknownId"

/-- Outcome of a read from the byte unpacker: value, remaining input, warnings emitted.  An error
also carries the unpacker state it leaves behind (`optional` continues after an error). -/
inductive Res (α : Type) where
  | ok (v : α) (rest : List UInt8) (ws : List Warning)
  | err (e : Err) (rest : List UInt8) (ws : List Warning)
  | panic (site : String)
  deriving Repr, DecidableEq

/-! ### Scalar helpers -/

/-- `in_range` / `at_least` / `positive` of the packer crate, by which bounds the description gives. -/
def checkRange (min max : Option Int) (v : Int) : Bool :=
  (match min with | none => true | some m => decide (m ≤ v)) &&
  (match max with | none => true | some m => decide (v ≤ m))

/-- `Enum::from_i32` succeeds -/
def inEnum (lo : Int) (n : Nat) (v : Int) : Bool := decide (lo ≤ v) && decide (v < lo + n)

def isDigit (b : UInt8) : Bool := 48 ≤ b.toNat && b.toNat ≤ 57

/-- value of a non-empty all-digit string -/
def parseDigits : List UInt8 → Nat → Option Nat
  | [], acc => some acc
  | b :: bs, acc => if isDigit b then parseDigits bs (acc * 10 + (b.toNat - 48)) else none

/-- `int_from_string`: `str::from_utf8(bytes)` then `str::parse::<i32>()` (optional sign, at least
one ASCII digit, no overflow; anything that is not valid UTF-8 contains a non-digit). -/
def parseI32 (s : List UInt8) : Option Int :=
  match s with
  | [] => none
  | c :: rest =>
    if c = 45 then
      (if rest.isEmpty then none else
        match parseDigits rest 0 with
        | some n => if n ≤ 2 ^ 31 then some (-(n : Int)) else none
        | none => none)
    else if c = 43 then
      (if rest.isEmpty then none else
        match parseDigits rest 0 with
        | some n => if n < 2 ^ 31 then some (n : Int) else none
        | none => none)
    else
      match parseDigits s 0 with
      | some n => if n < 2 ^ 31 then some (n : Int) else none
      | none => none

/-- decimal digits of `n`, most significant first (`fuel` ≥ number of digits - 1) -/
def decDigits : Nat → Nat → List UInt8
  | 0, n => [UInt8.ofNat (48 + n % 10)]
  | f + 1, n => if n < 10 then [UInt8.ofNat (48 + n)] else decDigits f (n / 10) ++ [UInt8.ofNat (48 + n % 10)]

/-- `string_from_int`: `write!("{}", int)` -/
def stringFromInt (v : Int) : List UInt8 :=
  if v < 0 then 45 :: decDigits 10 (-v).toNat else decDigits 10 v.toNat

/-- `sanitize` rejects -/
def hasControl (s : List UInt8) : Bool := s.any (fun b => b.toNat < 32)

def hasNul (s : List UInt8) : Bool := s.any (fun b => b == 0)

/-- `n` repetitions of a reader (array members: `[e, e, …]` with `?` inside every `e`) -/
def rep (f : List UInt8 → Res Val) : Nat → List UInt8 → Res VL
  | 0, inp => .ok .nil inp []
  | n + 1, inp =>
    match f inp with
    | .panic s => .panic s
    | .err e r ws => .err e r ws
    | .ok v r ws =>
      match rep f n r with
      | .panic s => .panic s
      | .err e r' ws' => .err e r' (ws ++ ws')
      | .ok vs r' ws' => .ok (.cons v vs) r' (ws ++ ws')

def readIntR (inp : List UInt8) (k : Int → Option Val) : Res Val :=
  match readInt inp with
  -- `read_int` error: the iterator has been advanced over everything it looked at, i.e. all of it
  | none => .err .unexpectedEnd [] []
  | some (v, rest, ws) =>
    match k v with
    | some x => .ok x rest ws
    | none => .err .intOutOfRange rest ws

/-- `read_raw(len)` -/
def readRawR (len : Nat) (inp : List UInt8) (k : List UInt8 → Res Val) : Res Val :=
  if inp.length < len then .err .unexpectedEnd [] [] else k (inp.take len)

/-! ### Message encoding: decode -/

mutual
/-- One member in message encoding (`decode_expr`). -/
def decM : MT → List UInt8 → Res Val
  -- `_p.read_int(warn)?` wrapped in `in_range(…, min, max)?` / `at_least(…, min)?` / `positive(…)?`
  | .int32 min max, inp => readIntR inp fun v => if checkRange min max v then some (.int v) else none
  -- `to_bool(_p.read_int(warn)?)?`
  | .boolean, inp => readIntR inp fun v => if checkRange (some 0) (some 1) v then some (.bool (v != 0)) else none
  -- `enums::E::from_i32(_p.read_int(warn)?)?`
  | .enum _ lo n, inp => readIntR inp fun v => if inEnum lo n v then some (.int v) else none
  -- `_p.read_int(warn)?` (NetFlag inherits NetIntAny: no constraint on the bits)
  | .flags _ _, inp => readIntR inp fun v => some (.int v)
  -- `Tick(_p.read_int(warn)?)`, `TuneParam(_p.read_int(warn)?)`
  | .tick, inp => readIntR inp fun v => some (.int v)
  | .tuneParam, inp => readIntR inp fun v => some (.int v)
  -- `_p.read_string()?` / `sanitize(warn, _p.read_string()?)?`
  | .string strict, inp =>
    match readString inp with
    | none => .err .unexpectedEnd [] []
    | some (s, rest) => if strict && hasControl s then .err .controlCharacters rest [] else .ok (.bytes s) rest []
  -- `int_from_string(_p.read_string()?)?`
  | .int32String, inp =>
    match readString inp with
    | none => .err .unexpectedEnd [] []
    | some (s, rest) =>
      match parseI32 s with
      | some v => .ok (.int v) rest []
      | none => .err .invalidIntString rest []
  -- `_p.read_data(warn)?`
  | .data, inp =>
    match readInt inp with
    | none => .err .unexpectedEnd [] []
    | some (v, rest, ws) =>
      if v < 0 then .err .unexpectedEnd [] ws
      else if v.toNat > rest.length then .err .unexpectedEnd [] ws
      else .ok (.bytes (rest.take v.toNat)) (rest.drop v.toNat) ws
  -- `_p.read_rest()?`
  | .rest, inp => .ok (.bytes inp) [] []
  -- `Sha256::from_slice(_p.read_raw(32)?).unwrap()` / `Uuid::from_slice(_p.read_raw(16)?).unwrap()`
  | .raw len, inp => readRawR len inp fun b =>
      if b.length ≠ len then .panic "from_slice().unwrap()" else .ok (.bytes b) (inp.drop len) []
  -- `{ let s = _p.read_raw(2)?; u16::from_be_bytes([s[0], s[1]]) }`
  | .beUint16, inp => readRawR 2 inp fun b =>
      match b with
      | [b0, b1] => .ok (.int (b0.toNat * 256 + b1.toNat)) (inp.drop 2) []
      | _ => .panic "s[0], s[1]"
  -- `_p.read_raw(1)?[0]`
  | .uint8, inp => readRawR 1 inp fun b =>
      match b with
      | [b0] => .ok (.int b0.toNat) (inp.drop 1) []
      | _ => .panic "read_raw(1)?[0]"
  -- `AddrPackedSliceExt::from_bytes(wrap(warn), _p.read_rest()?)`
  | .packedAddresses, inp =>
    let remainder := inp.length % 18
    let actual := inp.length - remainder
    -- `slice::transmute`: `assert!(mult * size_of::<u8>() % size_of::<AddrPacked>() == 0)`
    if actual % 18 ≠ 0 then .panic "relative_size_of_mult"
    else .ok (.bytes (inp.take actual)) [] (if remainder ≠ 0 then [Warning.excessData] else [])
  -- `ClientsData::from_bytes(_p.read_rest()?)`
  | .serverinfoClient, inp => .ok (.bytes inp) [] []
  -- no message encoding exists in the generator (`NetTwIntString` has no `decode_expr`); excluded by
  -- `wfMsg`; read as `count` integers
  | .twString count, inp =>
    match rep (fun i => readIntR i fun v => some (.int v)) count inp with
    | .ok vs r ws => .ok (.list vs) r ws
    | .err e r ws => .err e r ws
    | .panic s => .panic s
  -- `<inner decode expression without its final ?>.ok()`: for the inner types that `wfMsg` admits
  -- (a single fallible read) every error of the inner expression becomes `None`
  | .optional t, inp =>
    match decM t inp with
    | .ok v r ws => .ok (.some v) r ws
    | .err _ r ws => .ok .none r ws
    | .panic s => .panic s
  -- `[e, e, …]`
  | .array n t, inp =>
    match rep (decM t) n inp with
    | .ok vs r ws => .ok (.list vs) r ws
    | .err e r ws => .err e r ws
    | .panic s => .panic s
  -- `crate::snap_obj::T::decode_msg(warn, _p)?`: the members, then `_p.finish(wrap(warn))`, which
  -- warns about and uses up whatever is left
  | .object ms, inp =>
    match decMs ms inp with
    | .ok vs r ws => .ok (.list vs) [] (ws ++ if r.isEmpty then [] else [Warning.excessData])
    | .err e r ws => .err e r ws
    | .panic s => .panic s

/-- The members of a struct literal, in order; the first error returns (`?`). -/
def decMs : ML → List UInt8 → Res VL
  | .nil, inp => .ok .nil inp []
  | .cons t ms, inp =>
    match decM t inp with
    | .panic s => .panic s
    | .err e r ws => .err e r ws
    | .ok v r ws =>
      match decMs ms r with
      | .panic s => .panic s
      | .err e r' ws' => .err e r' (ws ++ ws')
      | .ok vs r' ws' => .ok (.cons v vs) r' (ws ++ ws')
end

/-- Outcome of a whole `decode`. -/
inductive Decoded where
  | ok (v : VL) (ws : List Warning)
  | err (e : Err) (ws : List Warning)
  | panic (site : String)
  deriving Repr, DecidableEq

/-- `T::decode(warn, _p)`: struct literal, then `_p.finish(wrap(warn))`. -/
def decodeMembers (ms : ML) (inp : List UInt8) : Decoded :=
  match decMs ms inp with
  | .ok vs r ws => .ok vs (ws ++ if r.isEmpty then [] else [Warning.excessData])
  | .err e _ ws => .err e ws
  | .panic s => .panic s

/-! ### Message encoding: encode -/

inductive Enc where
  | ok (bs : List UInt8)
  /-- `CapacityError` (only `write_data` of more than `i32::MAX` bytes is modelled) -/
  | capacity
  /-- an `assert!` / `unwrap` of the generated `encode` fails -/
  | panic (site : String)
  /-- the value is not an inhabitant of the Rust field type (cannot be constructed) -/
  | badValue
  deriving Repr, DecidableEq

/-- Sequencing of two encode steps.  A value that cannot be constructed wins over everything
(nothing runs); otherwise the first failure wins. -/
def Enc.seq : Enc → Enc → Enc
  | .badValue, _ => .badValue
  | _, .badValue => .badValue
  | .ok a, .ok b => .ok (a ++ b)
  | .ok _, e => e
  | e, _ => e

def encInt (v : Int) : Enc := if decide (inI32 v) then .ok (writeInt v) else .badValue

/-- elements of an array / a list of members -/
def encList (f : Val → Enc) : VL → Enc
  | .nil => .ok []
  | .cons v vs => (f v).seq (encList f vs)

/-- which optional members of a struct are present, in member order -/
def optFlags : ML → VL → List Bool
  | .cons (.optional _) ms, .cons v vs => (match v with | .none => false | _ => true) :: optFlags ms vs
  | .cons _ ms, .cons _ vs => optFlags ms vs
  | _, _ => []

/-- an absent optional member followed by a present one -/
def noneThenSome : List Bool → Bool
  | a :: b :: rest => (!a && b) || noneThenSome (b :: rest)
  | _ => false

/-- `assert!(self.a.is_some() || self.b.is_none())` for consecutive optional members `a`, `b` -/
def optGuard (ms : ML) (vs : VL) : Bool := !noneThenSome (optFlags ms vs)

/-- the struct-level asserts in front of the member encodings -/
def guardWrap (ok : Bool) : Enc → Enc
  | .badValue => .badValue
  | e => if ok then e else .panic "assert!(a.is_some() || b.is_none())"

mutual
/-- One member in message encoding (`assert_expr`, then `encode_expr`). -/
def encM : MT → Val → Enc
  -- `assert!(min <= x && x <= max)`; `_p.write_int(x)?`
  | .int32 min max, .int v =>
    if ¬ inI32 v then .badValue
    else if checkRange min max v then .ok (writeInt v) else .panic "assert range"
  -- `_p.write_int(x as i32)?`
  | .boolean, .bool b => .ok (writeInt (if b then 1 else 0))
  -- `_p.write_int(x.to_i32())?`
  | .enum _ lo n, .int v => if inI32 v ∧ inEnum lo n v then .ok (writeInt v) else .badValue
  | .flags _ _, .int v => encInt v
  | .tick, .int v => encInt v
  | .tuneParam, .int v => encInt v
  -- strict: `sanitize(&mut Panic, x).unwrap()`; `_p.write_string(x)?` asserts that no NUL occurs
  | .string strict, .bytes s =>
    if strict && hasControl s then .panic "sanitize().unwrap()"
    else if hasNul s then .panic "write_string: NUL"
    else .ok (s ++ [0])
  -- `_p.write_string(&string_from_int(x))?`
  | .int32String, .int v => if decide (inI32 v) then .ok (stringFromInt v ++ [0]) else .badValue
  -- `_p.write_data(x)?`
  | .data, .bytes d => if d.length < 2 ^ 31 then .ok (writeInt d.length ++ d) else .capacity
  -- `_p.write_rest(x)?`
  | .rest, .bytes d => .ok d
  -- `_p.write_raw(&x.0)?` / `_p.write_raw(x.as_bytes())?`
  | .raw len, .bytes d => if d.length = len then .ok d else .badValue
  -- `_p.write_raw(&x.to_be_bytes())?`
  | .beUint16, .int v => if 0 ≤ v ∧ v < 65536 then .ok [UInt8.ofNat (v.toNat / 256), UInt8.ofNat (v.toNat % 256)] else .badValue
  -- `_p.write_raw(&[x])?`
  | .uint8, .int v => if 0 ≤ v ∧ v < 256 then .ok [UInt8.ofNat v.toNat] else .badValue
  -- `_p.write_rest(x.as_bytes())?`
  | .packedAddresses, .bytes d => if d.length % 18 = 0 then .ok d else .badValue
  | .serverinfoClient, .bytes d => .ok d
  | .twString count, .list vs => if vs.length = count then encList (fun | .int v => encInt v | _ => .badValue) vs else .badValue
  -- `if let Some(v) = x { <inner>(v)?; }` (since the fix of D24; before: `assert!(x.is_some())`)
  | .optional _, .none => .ok []
  | .optional t, .some v => encM t v
  -- `for &e in &x { <assert> }`; `for &e in &x { <encode>?; }`
  | .array n t, .list vs => if vs.length = n then encList (encM t) vs else .badValue
  -- `with_packer(&mut _p, |p| x.encode_msg(p))?`
  | .object ms, .list vs => guardWrap (optGuard ms vs) (encMs ms vs)
  | _, _ => .badValue

/-- the member encodings of a struct, in order -/
def encMs : ML → VL → Enc
  | .nil, .nil => .ok []
  | .cons t ms, .cons v vs => (encM t v).seq (encMs ms vs)
  | _, _ => .badValue
end

/-- `T::encode(&self, _p)`: the asserts, then the members -/
def encStruct (ms : ML) (vs : VL) : Enc := guardWrap (optGuard ms vs) (encMs ms vs)

/-! ### Message identifiers (`gamenet/common/src/msg.rs`) -/

/-- `SystemOrGame::decode_id`: `(is_system, id)`. -/
def decodeId (inp : List UInt8) : Res (Bool × Ident) :=
  match readInt inp with
  | none => .err .unexpectedEnd [] []
  | some (v, rest, ws) =>
    -- `id & 1 != 0`, `id >> 1` (arithmetic shift)
    let sys := v % 2 != 0
    let msg := v / 2
    if msg != 0 then .ok (sys, .ordinal msg) rest ws
    else
      -- `p.read_uuid()?` = `Uuid::from_slice(self.read_raw(16)?).unwrap()`
      if rest.length < 16 then .err .unexpectedEnd [] ws
      else if (rest.take 16).length ≠ 16 then .panic "Uuid::from_slice().unwrap()"
      else .ok (sys, .uuid (rest.take 16)) (rest.drop 16) ws

/-- `SystemOrGame::encode_id` -/
def encodeId (sys : Bool) : Ident → Enc
  | .ordinal i =>
    -- `assert!(i != 0)`; `let iid = i as u32`; `assert!((iid & (1 << 31)) == 0)`
    if ¬ inI32 i then .badValue
    else if i = 0 then .panic "assert!(i != 0)"
    else if i < 0 then .panic "assert!((iid & (1 << 31)) == 0)"
    else
      -- `((iid << 1) | flag) as i32`: bit 30 of `i` is shifted into the sign bit
      .ok (writeInt (Tw.Packer.toI32 ((i.toNat * 2) % 2 ^ 32 + (if sys then 1 else 0))))
  | .uuid u => if u.length = 16 then .ok (writeInt (if sys then 1 else 0) ++ u) else .badValue

def findSpec (id : Ident) : List Spec → Option Spec
  | [] => none
  | s :: ss => if s.id = id then some s else findSpec id ss

def findSpecByName (n : String) : List Spec → Option Spec
  | [] => none
  | s :: ss => if s.name = n then some s else findSpecByName n ss

/-- Outcome of `msg::decode` (system or game message with id). -/
inductive MsgDecoded where
  | ok (sys : Bool) (spec : Spec) (v : VL) (ws : List Warning)
  | err (e : Err) (ws : List Warning)
  | panic (site : String)
  deriving Repr

/-- `libtw2_gamenet_common::msg::decode`: id, dispatch (`decode_msg`), members. -/
def decodeMsg (p : ProtoSpec) (inp : List UInt8) : MsgDecoded :=
  match decodeId inp with
  | .panic s => .panic s
  | .err e _ ws => .err e ws
  | .ok (sys, id) rest ws =>
    match findSpec id (if sys then p.system else p.game) with
    | none => .err .unknownId ws
    | some s =>
      match decodeMembers s.members rest with
      | .ok v ws' => .ok sys s v (ws ++ ws')
      | .err e ws' => .err e (ws ++ ws')
      | .panic site => .panic site

/-- `System::encode` / `Game::encode`: id, then the members. -/
def encodeMsg (sys : Bool) (s : Spec) (v : VL) : Enc :=
  -- constructing the value comes first; `encode_id` runs before `encode_msg`
  match encStruct s.members v with
  | .badValue => .badValue
  | body => (encodeId sys s.id).seq body

def findConnless (id : List UInt8) : List ConnlessSpec → Option ConnlessSpec
  | [] => none
  | s :: ss => if s.id = id then some s else findConnless id ss

def findConnlessByName (n : String) : List ConnlessSpec → Option ConnlessSpec
  | [] => none
  | s :: ss => if s.name = n then some s else findConnlessByName n ss

inductive ConnlessDecoded where
  | ok (spec : ConnlessSpec) (v : VL) (ws : List Warning)
  | err (e : Err) (ws : List Warning)
  | panic (site : String)
  deriving Repr

/-- `Connless::decode`: `read_raw(8)`, dispatch, members. -/
def decodeConnless (p : ProtoSpec) (inp : List UInt8) : ConnlessDecoded :=
  if inp.length < 8 then .err .unexpectedEnd []
  else
    match findConnless (inp.take 8) p.connless with
    | none => .err .unknownId []
    | some s =>
      match decodeMembers s.members (inp.drop 8) with
      | .ok v ws => .ok s v ws
      | .err e ws => .err e ws
      | .panic site => .panic site

/-- `Connless::encode` -/
def encodeConnless (s : ConnlessSpec) (v : VL) : Enc :=
  match encStruct s.members v with
  | .badValue => .badValue
  | body => (Enc.ok s.id).seq body

/-! ### Snapshot objects (integer encoding) -/

inductive ORes (α : Type) where
  | ok (v : α) (rest : List Int)
  | err (e : Err)
  deriving Repr, DecidableEq

def orep (f : List Int → ORes Val) : Nat → List Int → ORes VL
  | 0, inp => .ok .nil inp
  | n + 1, inp =>
    match f inp with
    | .err e => .err e
    | .ok v r =>
      match orep f n r with
      | .err e => .err e
      | .ok vs r' => .ok (.cons v vs) r'

/-- `_p.read_int()?` followed by a check -/
def readIntO (inp : List Int) (k : Int → Option Val) : ORes Val :=
  match inp with
  | [] => .err .unexpectedEnd
  | v :: rest =>
    match k v with
    | some x => .ok x rest
    | none => .err .intOutOfRange

mutual
/-- One member in integer encoding (`decode_int_expr`). -/
def decO : MT → List Int → ORes Val
  | .int32 min max, inp => readIntO inp fun v => if checkRange min max v then some (.int v) else none
  | .boolean, inp => readIntO inp fun v => if checkRange (some 0) (some 1) v then some (.bool (v != 0)) else none
  | .enum _ lo n, inp => readIntO inp fun v => if inEnum lo n v then some (.int v) else none
  | .flags _ _, inp => readIntO inp fun v => some (.int v)
  | .tick, inp => readIntO inp fun v => some (.int v)
  | .twString count, inp =>
    match orep (fun i => readIntO i fun v => some (.int v)) count inp with
    | .ok vs r => .ok (.list vs) r
    | .err e => .err e
  | .array n t, inp =>
    match orep (decO t) n inp with
    | .ok vs r => .ok (.list vs) r
    | .err e => .err e
  | .object ms, inp =>
    match decOs ms inp with
    | .ok vs r => .ok (.list vs) r
    | .err e => .err e
  -- the generator has no integer encoding for the remaining kinds (excluded by `wfObj`)
  | _, _ => .err .unknownId

def decOs : ML → List Int → ORes VL
  | .nil, inp => .ok .nil inp
  | .cons t ms, inp =>
    match decO t inp with
    | .err e => .err e
    | .ok v r =>
      match decOs ms r with
      | .err e => .err e
      | .ok vs r' => .ok (.cons v vs) r'
end

inductive ObjDecoded where
  | ok (v : VL) (excess : Bool)
  | err (e : Err)
  deriving Repr, DecidableEq

/-- `T::decode(warn, p)`: `decode_inner(p)?`, then `p.finish(warn)`. -/
def decodeObjMembers (ms : ML) (inp : List Int) : ObjDecoded :=
  match decOs ms inp with
  | .ok vs r => .ok vs (!r.isEmpty)
  | .err e => .err e

def findObjSpec (id : Ident) (p : ProtoSpec) : Option Spec := findSpec id p.objects

/-- `SnapObj::decode_obj(warn, type_id, p)` -/
def decodeObj (p : ProtoSpec) (id : Ident) (inp : List Int) : Option Spec × ObjDecoded :=
  match findObjSpec id p with
  | none => (none, .err .unknownId)
  | some s => (some s, decodeObjMembers s.members inp)

/-- number of integers a member occupies (`int_size`) -/
def intSizeM : MT → Nat
  | .array n t => n * intSizeM t
  | .twString n => n
  | .object _ => 0
  | _ => 1

def intSize : ML → Nat
  | .nil => 0
  | .cons t ms => intSizeM t + intSize ms

/-- `obj_size(type_)` as generated (the extracted arms) -/
def objSize (p : ProtoSpec) (ty : Nat) : Option Nat :=
  (p.objSizes.find? (fun e => e.1 == ty)).map (·.2)

/-! #### `encode(&self) -> &[i32]`: the asserts, then the `#[repr(C)]` struct viewed as words.

Memory cells of the struct: a known byte, or a padding byte (unspecified content). -/

inductive Cell where
  | byte (b : UInt8)
  | pad
  deriving Repr, DecidableEq

def le32 (v : Int) : List Cell :=
  let n := (v % 4294967296).toNat
  [.byte (UInt8.ofNat n), .byte (UInt8.ofNat (n / 256)), .byte (UInt8.ofNat (n / 65536)), .byte (UInt8.ofNat (n / 16777216))]

/-- alignment of the Rust field type: `bool` (and arrays of it) 1, everything else 4 -/
def alignM : MT → Nat
  | .boolean => 1
  | .array _ t => alignM t
  | _ => 4

inductive OEnc where
  | ok (cells : List Cell)
  | panic (site : String)
  | badValue
  deriving Repr, DecidableEq

def OEnc.seq : OEnc → OEnc → OEnc
  | .badValue, _ => .badValue
  | _, .badValue => .badValue
  | .ok a, .ok b => .ok (a ++ b)
  | .ok _, e => e
  | e, _ => e

def cellsList (f : Val → OEnc) : VL → OEnc
  | .nil => .ok []
  | .cons v vs => (f v).seq (cellsList f vs)

def cellInt (v : Int) : OEnc := if decide (inI32 v) then .ok (le32 v) else .badValue

/-- the bytes of one field (no padding inside scalar fields and arrays) -/
def cellsM : MT → Val → OEnc
  | .int32 min max, .int v =>
    if ¬ inI32 v then .badValue
    else if checkRange min max v then .ok (le32 v) else .panic "assert range"
  | .boolean, .bool b => .ok [.byte (if b then 1 else 0)]
  | .enum _ lo n, .int v => if inI32 v ∧ inEnum lo n v then .ok (le32 v) else .badValue
  | .flags _ _, .int v => cellInt v
  | .tick, .int v => cellInt v
  | .twString count, .list vs => if vs.length = count then cellsList (fun | .int v => cellInt v | _ => .badValue) vs else .badValue
  | .array n t, .list vs => if vs.length = n then cellsList (cellsM t) vs else .badValue
  | _, _ => .badValue

/-- struct layout: every field at the next multiple of its alignment -/
def cellsMs : ML → VL → Nat → OEnc
  | .nil, .nil, _ => .ok []
  | .cons t ms, .cons v vs, off =>
    let a := alignM t
    let padN := (a - off % a) % a
    match cellsM t v with
    | .ok cs => (OEnc.ok (List.replicate padN Cell.pad ++ cs)).seq (cellsMs ms vs (off + padN + cs.length))
    | e => e.seq (cellsMs ms vs off)
  | _, _, _ => .badValue

def structAlign : ML → Nat
  | .nil => 1
  | .cons t ms => max (alignM t) (structAlign ms)

/-- a word of the result: its value if all four bytes are field bytes -/
def wordOf : List Cell → Option Int
  | [.byte a, .byte b, .byte c, .byte d] =>
    some (Tw.Packer.toI32 (a.toNat + b.toNat * 256 + c.toNat * 65536 + d.toNat * 16777216))
  | _ => none

def words : Nat → List Cell → List (Option Int)
  | 0, _ => []
  | _ + 1, [] => []
  | f + 1, cs => wordOf (cs.take 4) :: words f (cs.drop 4)

inductive ObjEncoded where
  /-- the returned words; `none` = the word contains padding bytes -/
  | ok (ws : List (Option Int))
  | panic (site : String)
  | badValue
  deriving Repr, DecidableEq

/-- `encode(&self)`: asserts; `slice::transmute(from_ref(self))` asserts that the struct is
4-aligned and a whole number of words (flattened layout: a `super` struct is laid out as part of
the object, which is exact as long as the inherited part is itself a whole number of words). -/
def encodeObj (ms : ML) (v : VL) : ObjEncoded :=
  match cellsMs ms v 0 with
  | .badValue => .badValue
  | .panic s => .panic s
  | .ok cs =>
    let a := structAlign ms
    let size := cs.length + (a - cs.length % a) % a
    if a % 4 ≠ 0 then .panic "transmute: align"
    else if size % 4 ≠ 0 then .panic "transmute: size"
    else .ok (words (size / 4) (cs ++ List.replicate (size - cs.length) Cell.pad))

end Tw.Gamenet
