import Tw.Model.Conn

/-!
# 0.6 / DDNet connection (`net/src/connection.rs`)

Handshake state machine (`Unconnected / Connecting / Pending / Online / Disconnected`), the optional
DDNet token, control packets, `feed` on a *parsed* packet.  `feed` takes the result of
`Packet::read` as a function of the token hint the connection passes to the reader
(`read : Option Bool → Option Packet`, `none` = read error): the byte level belongs to the packet
model, `feedBytes s bytes = feed s (fun h => Packet.read bytes h)`.
-/
namespace Tw.Conn6
open Tw.Conn Tw.Time
open Tw.Gen.Conn

/-- a token is the big-endian value of its four bytes -/
def tokenOfBytes (l : List Nat) : Nat := l.foldl (fun a b => a * 256 + b) 0

def TOKEN_NONE : Nat := tokenOfBytes P6.TOKEN_NONE
def TOKEN_RESERVED : Nat := tokenOfBytes P6.TOKEN_RESERVED

def cfg : Cfg := { chunkLim := 2 ^ P6.CHUNK_SIZE_BITS, sendChecksLim := true }

inductive Control where
  | keepAlive | connect | connectAccept | accept
  | close (reason : Bytes)
deriving Repr, DecidableEq

/-- `protocol::Packet`, with the chunk payload already split into chunks -/
inductive Packet where
  | connless (data : Bytes)
  | control (ack : Nat) (token : Option Nat) (c : Control)
  | chunks (ack : Nat) (token : Option Nat) (requestResend : Bool) (numChunks : Nat) (chunks : List Chunk)
deriving Repr, DecidableEq

/-- size of the datagram `Packet::write` produces when it does not compress (an upper bound
otherwise: compression is only chosen when it is shorter) -/
def Packet.wireSize : Packet → Nat
  | .connless d => P6.HEADER_SIZE + P6.PADDING_SIZE_CONNLESS + d.length
  | .control _ tok c =>
    P6.HEADER_SIZE + 1
      + (match c with
         | .connect | .connectAccept => if tok.isSome then 4 else 0
         | .close r => r.length + 1
         | _ => 0)
      + (if tok.isSome then P6.TOKEN_SIZE else 0)
  | .chunks _ tok _ _ cs => P6.HEADER_SIZE + chunksSize cs + (if tok.isSome then P6.TOKEN_SIZE else 0)

inductive State where
  | unconnected
  | connecting
  | pending (token : Option Nat)
  | online (token : Option Nat) (o : Online)
  | disconnected
deriving Repr, DecidableEq

structure Conn where
  state : State
  send : Timeout
deriving Repr, DecidableEq

inductive Warn where
  | read | tokenMismatch
deriving Repr, DecidableEq

/-- what a call hands to the outside: datagrams to the `send` callback (in order), drained events,
connection-level warnings -/
structure Out where
  sent : List Packet := []
  events : List Event := []
  warns : List Warn := []
deriving Repr, DecidableEq

/-- the callback: clock value and the upcoming results of `secure_random` (4 bytes each) -/
structure Env where
  now : Nat
  draws : List Nat := []

abbrev Res := Except Fail (Conn × Out)

/-- `State::token` -/
def State.token? : State → Option (Option Nat)
  | .pending t => some t
  | .online t _ => some t
  | _ => none

/-- `Token::random`: redraw until the value is neither `TOKEN_NONE` nor `TOKEN_RESERVED`; `none` when
the source is exhausted (the harness callback panics then, as the repository's test callback does) -/
def tokenRandom : List Nat → Option Nat
  | [] => none
  | t :: rest => if t ≠ TOKEN_NONE ∧ t ≠ TOKEN_RESERVED then some t else tokenRandom rest

def Conn.new : Conn := ⟨.unconnected, .inactive⟩

/-- `Connection::new_accept_token` -/
def Conn.newAcceptToken (env : Env) (token : Nat) : Conn :=
  ⟨.online (some token) .new, Timeout.after env.now sendUs⟩

/-- `Connection::needs_tick` -/
def Conn.needsTick (c : Conn) : Timeout :=
  match c.state with
  | .unconnected | .disconnected => .inactive
  | .online _ o => Timeout.min c.send o.resendDeadline
  | _ => Timeout.min c.send .inactive

/-- `PacketBuilder::send`: a packet that does not fit the `MAX_PACKETSIZE` buffer hits
`unreachable!("too short buffer provided")` -/
def emit (ps : List Packet) : Except Fail (List Packet) :=
  if ps.all (fun p => decide (p.wireSize ≤ maxPacketSize)) then .ok ps
  else .error (.panic "PacketBuilder::send: too short buffer provided")

def ofFlushed (tok : Option Nat) (f : Flushed) : Packet :=
  .chunks f.ack tok f.requestResend f.numChunks f.chunks

/-- `Connection::send_control` (the packet it builds) -/
def controlPacket (st : State) (ctl : Control) : Except Fail Packet :=
  let ack := match st with
    | .online _ o => o.ack
    | _ => 0
  match st with
  | .unconnected => .ok (.control ack none ctl)
  | .connecting => .ok (.control ack (some TOKEN_NONE) ctl)
  | .pending t => .ok (.control ack t ctl)
  | .online t _ => .ok (.control ack t ctl)
  | .disconnected => .error (.panic "send_control: unreachable (Disconnected)")

def sendControl (st : State) (ctl : Control) : Except Fail (List Packet) :=
  match controlPacket st ctl with
  | .error e => .error e
  | .ok p => emit [p]

/-- `Connection::tick_action` -/
def tickAction (env : Env) (c : Conn) : Res :=
  match c.state with
  | .connecting | .pending _ =>
    let ctl := match c.state with
      | .connecting => Control.connect
      | _ => Control.connectAccept
    match sendControl c.state ctl with
    | .error e => .error e
    | .ok ps => .ok ({ c with send := Timeout.after env.now sendUs }, { sent := ps })
  | .online t o =>
    if o.canSend then
      let (o1, fl) := o.flush
      match emit (fl.map (ofFlushed t)) with
      | .error e => .error e
      | .ok ps => .ok (⟨.online t o1, Timeout.after env.now sendUs⟩, { sent := ps })
    else
      match sendControl c.state .keepAlive with
      | .error e => .error e
      | .ok ps => .ok ({ c with send := Timeout.after env.now sendUs }, { sent := ps })
  | _ => .ok (c, {})

/-- `Connection::connect` -/
def connect (env : Env) (c : Conn) : Res :=
  match c.state with
  | .unconnected => tickAction env { c with state := .connecting }
  | _ => .error (.panic "connect: assert Unconnected")

/-- `Connection::disconnect` -/
def disconnect (_env : Env) (c : Conn) (reason : Bytes) : Res :=
  match c.state with
  | .disconnected => .error (.panic "disconnect: already disconnected")
  | _ =>
    if reason.any (· == 0) then .error (.panic "disconnect: reason must not contain NULs")
    else
      match sendControl c.state (.close reason) with
      | .error e => .error e
      | .ok ps => .ok ({ c with state := .disconnected }, { sent := ps })

/-- `Connection::flush` -/
def flush (env : Env) (c : Conn) : Res :=
  match c.state with
  | .online t o =>
    let (o1, fl) := o.flush
    match emit (fl.map (ofFlushed t)) with
    | .error e => .error e
    | .ok ps => .ok (⟨.online t o1, Timeout.after env.now sendUs⟩, { sent := ps })
  | _ => .error (.panic "state not online")

/-- `Connection::send` -/
def send (env : Env) (c : Conn) (data : Bytes) (vital : Bool) : Except Fail (Conn × SendRes × Out) :=
  match c.state with
  | .online t o =>
    match o.send cfg env.now data vital with
    | .error e => .error e
    | .ok (o1, r, fl) =>
      match emit (fl.map (ofFlushed t)) with
      | .error e => .error e
      | .ok ps => .ok ({ c with state := .online t o1 }, r, { sent := ps })
  | _ => .error (.panic "state not online")

/-- `Connection::send_connless` -/
def sendConnless (env : Env) (c : Conn) (data : Bytes) : Except Fail (Conn × SendRes × Out) :=
  match c.state with
  | .online _ _ =>
    let c1 := { c with send := Timeout.after env.now sendUs }
    if data.length > P6.connlessMax then .ok (c1, .tooLongData, {})
    else
      match emit [.connless data] with
      | .error e => .error e
      | .ok ps => .ok (c1, .ok, { sent := ps })
  | _ => .error (.panic "state not online")

/-- `Connection::resend` on an online connection -/
def resendConn (env : Env) (t : Option Nat) (o : Online) (send : Timeout) : Res :=
  match o.resend cfg env.now send with
  | .error e => .error e
  | .ok (o1, send1, fl) =>
    match emit (fl.map (ofFlushed t)) with
    | .error e => .error e
    | .ok ps => .ok (⟨.online t o1, send1⟩, { sent := ps })

/-- `Connection::tick` -/
def tick (env : Env) (c : Conn) : Res :=
  let doResend := match c.state with
    | .online _ o => o.resendDeadline.triggered env.now
    | _ => false
  if doResend then
    match c.state with
    | .online t o => resendConn env t o c.send
    | _ => .ok (c, {})
  else if c.send.triggered env.now then tickAction env { c with send := .inactive }
  else .ok (c, {})

/-- `feed`, after the token check and `ack_chunks` -/
def feedBody (env : Env) (c : Conn) (token : Option Nat) : Packet → Res
  | .connless d => .ok (c, { events := [.connless d] })
  | .chunks _ _ rr _ chunks =>
    -- the first chunk packet completes the handshake on the accepting side
    let st : Option (Option Nat × Online) := match c.state with
      | .online t o => some (t, o)
      | .pending t => some (t, .new)
      | _ => none
    match st with
    | none => .ok (c, {})
    | some (t, o) =>
      match o.receive cfg env.now c.send rr chunks with
      | .error e => .error e
      | .ok (o1, send1, fl, evs) =>
        match emit (fl.map (ofFlushed t)) with
        | .error e => .error e
        | .ok ps => .ok (⟨.online t o1, send1⟩, { sent := ps, events := evs })
  | .control _ _ ctl =>
    match ctl with
    | .keepAlive => .ok (c, {})
    | .connect =>
      match c.state with
      | .unconnected =>
        match token with
        | none => tickAction env { c with state := .pending none }
        | some tk =>
          if tk = TOKEN_NONE then
            match tokenRandom env.draws with
            | none => .error (.panic "secure_random: source exhausted")
            | some nt => tickAction env { c with state := .pending (some nt) }
          else .ok (c, {})
      | _ => .ok (c, {})
    | .connectAccept =>
      match c.state with
      | .connecting =>
        let st := State.online token .new
        match sendControl st .accept with
        | .error e => .error e
        | .ok ps => .ok ({ c with state := st }, { sent := ps, events := [.ready] })
      | _ => .ok (c, {})
    | .accept => .ok (c, {})
    | .close reason => .ok ({ c with state := .disconnected }, { events := [.disconnect reason] })

/-- token and ack of a connected packet -/
def Packet.tokenAck? : Packet → Option (Option Nat × Nat)
  | .connless _ => none
  | .control ack t _ => some (t, ack)
  | .chunks ack t _ _ _ => some (t, ack)

/-- the token hint `feed` passes to `Packet::read` -/
def Conn.hint (c : Conn) : Option Bool := c.state.token?.map Option.isSome

/-- `Connection::feed` on the result of `Packet::read` (a function of the token hint) -/
def feed (env : Env) (c : Conn) (read : Option Bool → Option Packet) : Res :=
  match read c.hint with
  | none => .ok (c, { warns := [.read] })
  | some p =>
    match p.tokenAck? with
    | none => feedBody env c none p
    | some (token, ack) =>
      if c.state.token?.any (fun e => e != token) then .ok (c, { warns := [.tokenMismatch] })
      else
        match c.state with
        | .online t o =>
          match o.feedAck ack with
          | .error e => .error e
          | .ok o1 => feedBody env { c with state := .online t o1 } token p
        | _ => feedBody env c token p

/-! ## Operation sequences (the quantifier of C01–C04) -/

/-- one call into the connection -/
inductive Op where
  | connect
  | disconnect (reason : Bytes)
  | flush
  | send (data : Bytes) (vital : Bool)
  | sendConnless (data : Bytes)
  | tick
  | feed (read : Option Bool → Option Packet)

/-- executes one call (the `Result` of `send` is dropped: both `Ok` and `TooLongData` return) -/
def step (env : Env) (c : Conn) : Op → Res
  | .connect => connect env c
  | .disconnect r => disconnect env c r
  | .flush => flush env c
  | .send d v =>
    match send env c d v with
    | .error e => .error e
    | .ok (c1, _, out) => .ok (c1, out)
  | .sendConnless d =>
    match sendConnless env c d with
    | .error e => .error e
    | .ok (c1, _, out) => .ok (c1, out)
  | .tick => tick env c
  | .feed rd => feed env c rd

/-- runs a sequence of calls, each with its own clock value / random draws; collects the outputs -/
def run : Conn → List (Env × Op) → Except Fail (Conn × List Out)
  | c, [] => .ok (c, [])
  | c, (env, op) :: rest =>
    match step env c op with
    | .error e => .error e
    | .ok (c1, out) =>
      match run c1 rest with
      | .error e => .error e
      | .ok (c2, outs) => .ok (c2, out :: outs)

/-- what `Packet::read` guarantees about its result: 10-bit ack and sequence numbers -/
def Packet.wf : Packet → Bool
  | .connless _ => true
  | .control ack _ _ => decide (ack < seqMod)
  | .chunks ack _ _ _ cs => decide (ack < seqMod) && chunksSeqOk cs

def State.isOnline : State → Bool
  | .online _ _ => true
  | _ => false

/-- the API's preconditions: `connect` on a fresh connection, nothing on a disconnected one,
`send`/`flush` online, a NUL-free close reason of at most `CTRLMSG_CLOSE_REASON_LENGTH` bytes, fed
packets as the reader produces them, a random source that yields a usable token -/
def permitted (env : Env) (c : Conn) : Op → Bool
  | .connect => c.state == .unconnected
  | .disconnect r => c.state != .disconnected && r.all (· != 0) && decide (r.length ≤ P6.CTRLMSG_CLOSE_REASON_LENGTH)
  | .flush => c.state.isOnline
  | .send _ _ => c.state.isOnline
  | .sendConnless _ => c.state.isOnline
  | .tick => true
  | .feed rd =>
    [none, some false, some true].all (fun h => (rd h).all Packet.wf) && (tokenRandom env.draws).isSome

/-- every call of the schedule is permitted in the state it is made in (a call that fails ends the
run; whether that can happen is what the C04 theorem decides, not this predicate) -/
def runPermitted : Conn → List (Env × Op) → Bool
  | _, [] => true
  | c, (env, op) :: rest =>
    permitted env c op &&
      match step env c op with
      | .error _ => true
      | .ok (c1, _) => runPermitted c1 rest

/-- what C04 demands of a datagram handed to the send callback -/
def Packet.valid : Packet → Bool
  | .connless d => decide (d.length ≤ P6.connlessMax)
  | .control ack tok c => decide ((Packet.control ack tok c).wireSize ≤ maxPacketSize)
  | .chunks ack tok rr n cs =>
    decide ((Packet.chunks ack tok rr n cs).wireSize ≤ maxPacketSize) && decide (n = cs.length) &&
      decide (cs.length ≤ maxNumChunks) && cs.all (fun c => cfg.accepts c.data.length) &&
      (decide (n ≠ 0) || rr)

end Tw.Conn6
