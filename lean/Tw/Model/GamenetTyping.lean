/-
Decidable predicates over descriptions and values that the C14 theorems are stated with:
which descriptions the generator can turn into a codec (`wfMsg`, `wfObj`), which values a
description admits (`wtM`, `wtMs`: every described constraint), which values have every optional
member present (`presentV`).
-/
import Tw.Model.Gamenet

namespace Tw.Gamenet
open Tw.Packer (inI32)

/-- members that consume the whole remaining input -/
def greedy : MT → Bool
  | .rest => true
  | .packedAddresses => true
  | .serverinfoClient => true
  | .object _ => true
  | _ => false

/-- inner types of `optional` for which the generator's `<expr without ?>.ok()` is "any error of
the read makes the member absent" (a single fallible read, nothing greedy) -/
def optInnerOk : MT → Bool
  | .int32 none none => true
  | .flags _ _ => true
  | .string false => true
  | .data => true
  | _ => false

def isOptional : MT → Bool
  | .optional _ => true
  | _ => false

def ML.isNil : ML → Bool
  | .nil => true
  | _ => false

mutual
/-- The member type has a message encoding in the generator, and the interpreter's reading of it
is the generator's (see the comments in `decM`). -/
def wfM : MT → Bool
  | .int32 none (some _) => false   -- `deserialize` of a `max` without `min` fails
  | .twString _ => false            -- no `decode_expr`
  | .optional t => optInnerOk t
  | .array _ t => wfM t && !greedy t && !isOptional t
  | .object ms => wfMs ms
  | _ => true
/-- … and a greedy member comes last. -/
def wfMs : ML → Bool
  | .nil => true
  | .cons t ms => wfM t && (ms.isNil || !greedy t) && wfMs ms
end

/-- member types with an integer encoding (`decode_int_expr`) -/
def wfO : MT → Bool
  | .int32 none (some _) => false
  | .int32 _ _ => true
  | .boolean => true
  | .enum _ _ _ => true
  | .flags _ _ => true
  | .tick => true
  | .twString _ => true
  | .array _ t => wfO t
  | _ => false

def wfOs : ML → Bool
  | .nil => true
  | .cons t ms => wfO t && wfOs ms

def VL.all (p : Val → Bool) : VL → Bool
  | .nil => true
  | .cons v vs => p v && VL.all p vs

def isI32 : Val → Bool
  | .int v => decide (inI32 v)
  | _ => false

mutual
/-- The value is one the description admits for the member type: the Rust field type can hold it
and every described constraint holds (range, enum membership, control characters, string
termination = no NUL inside, sizes). -/
def wtM : MT → Val → Bool
  | .int32 min max, .int v => decide (inI32 v) && checkRange min max v
  | .boolean, .bool _ => true
  | .enum _ lo n, .int v => decide (inI32 v) && inEnum lo n v
  -- the description language does not constrain `flags` to the defined bits (the generator
  -- emits no check; DESIGN.md Appendix C)
  | .flags _ _, .int v => decide (inI32 v)
  | .tick, .int v => decide (inI32 v)
  | .tuneParam, .int v => decide (inI32 v)
  | .string strict, .bytes s => !hasNul s && !(strict && hasControl s)
  | .int32String, .int v => decide (inI32 v)
  | .data, .bytes d => decide (d.length < 2 ^ 31)
  | .rest, .bytes _ => true
  | .raw len, .bytes d => decide (d.length = len)
  | .beUint16, .int v => decide (0 ≤ v) && decide (v < 65536)
  | .uint8, .int v => decide (0 ≤ v) && decide (v < 256)
  | .packedAddresses, .bytes d => decide (d.length % 18 = 0)
  | .serverinfoClient, .bytes _ => true
  | .twString count, .list vs => decide (vs.length = count) && VL.all isI32 vs
  | .optional _, .none => true
  | .optional t, .some v => wtM t v
  | .array n t, .list vs => decide (vs.length = n) && VL.all (wtM t) vs
  | .object ms, .list vs => wtMs ms vs
  | _, _ => false
def wtMs : ML → VL → Bool
  | .nil, .nil => true
  | .cons t ms, .cons v vs => wtM t v && wtMs ms vs
  | _, _ => false
end

mutual
/-- no optional member is absent -/
def presentV : Val → Bool
  | .none => false
  | .some v => presentV v
  | .list vs => presentL vs
  | _ => true
def presentL : VL → Bool
  | .nil => true
  | .cons v vs => presentV v && presentL vs
end

def allNone : VL → Bool
  | .nil => true
  | .cons .none vs => allNone vs
  | .cons _ _ => false

/-- The optional members that are absent are the trailing ones: after an absent member every
member is absent (what a decoder can produce, and what can be written back). -/
def absentOk : VL → Bool
  | .nil => true
  | .cons .none vs => allNone vs
  | .cons v vs => presentV v && absentOk vs

/-- the words `encode` returns for the object decoded from `inp` (`none` inside: a word that
contains padding bytes) -/
def encodedWords (ms : ML) (inp : List Int) : Option (List (Option Int)) :=
  match decodeObjMembers ms inp with
  | .ok v _ =>
    match encodeObj ms v with
    | .ok ws => some ws
    | _ => none
  | _ => none

/-- no `bool` field (the Rust field types are all 4 bytes wide) -/
def noBoolM : MT → Bool
  | .boolean => false
  | .array _ t => noBoolM t
  | _ => true

def noBool : ML → Bool
  | .nil => true
  | .cons t ms => noBoolM t && noBool ms

mutual
/-- no `optional` anywhere inside -/
def noOptM : MT → Bool
  | .optional _ => false
  | .array _ t => noOptM t
  | .object ms => noOptMs ms
  | _ => true
def noOptMs : ML → Bool
  | .nil => true
  | .cons t ms => noOptM t && noOptMs ms
end

def allOptional : ML → Bool
  | .nil => true
  | .cons (.optional _) ms => allOptional ms
  | .cons _ _ => false

/-- optional members are the trailing members of the struct -/
def optsLast : ML → Bool
  | .nil => true
  | .cons (.optional _) ms => allOptional ms
  | .cons t ms => noOptM t && optsLast ms

mutual
/-- no `int32_string` (whose decoder accepts non-canonical decimal strings silently) and no
`int32_twstring` anywhere inside -/
def noIntStrM : MT → Bool
  | .int32String => false
  | .twString _ => false
  | .optional t => noIntStrM t
  | .array _ t => noIntStrM t
  | .object ms => noIntStrMs ms
  | _ => true
def noIntStrMs : ML → Bool
  | .nil => true
  | .cons t ms => noIntStrM t && noIntStrMs ms
end

/-- `SvKillMsg` and `sv_kill_msg` name the same thing -/
def normVariant (s : String) : List Char := s.toList.map Char.toLower
def normSnake (s : String) : List Char := s.toList.filter (· != '_')

/-- The arms of a generated dispatch function (`decode_msg`, `decode_obj`; extracted from the Rust
in source order: the identifier the arm's constant stands for, and the variant / struct it
decodes) are the descriptions, in order, each with its identifier. -/
def dispatchOk (rust : List (Ident × String)) (specs : List Spec) : Bool :=
  rust.map (fun x => (x.1, normVariant x.2)) == specs.map (fun s => (s.id, normSnake s.name))

def connlessDispatchOk (rust : List (List UInt8 × String)) (specs : List ConnlessSpec) : Bool :=
  rust.map (fun x => (x.1, normVariant x.2)) == specs.map (fun s => (s.id, normSnake s.name))

/-- identifiers `encode_id` accepts and `decode_id` gives back -/
def idOk : Ident → Bool
  | .ordinal i => decide (0 < i) && decide (i < 2 ^ 30)
  | .uuid u => decide (u.length = 16)

/-- identifiers are ones `encode_id` accepts, and the dispatch on an identifier finds exactly the
description that carries it -/
def idsOk (p : ProtoSpec) : Bool :=
  p.system.all (fun s => idOk s.id && decide (findSpec s.id p.system = some s)) &&
  p.game.all (fun s => idOk s.id && decide (findSpec s.id p.game = some s)) &&
  p.connless.all (fun s => decide (s.id.length = 8) && decide (findConnless s.id p.connless = some s)) &&
  p.objects.all (fun s => decide (findSpec s.id p.objects = some s) && !s.members.isNil)

/-- the messages of a protocol for which "decodes without warning" means "is canonical" -/
def cleanCanonCount (p : ProtoSpec) : Nat × Nat :=
  let f := fun (ms : ML) => noOptMs ms && noIntStrMs ms
  ((p.system.filter fun s => f s.members).length + (p.game.filter fun s => f s.members).length +
    (p.connless.filter fun s => f s.members).length,
   p.system.length + p.game.length + p.connless.length)

def optsLastProto (p : ProtoSpec) : Bool :=
  p.system.all (fun s => optsLast s.members) && p.game.all (fun s => optsLast s.members) &&
  p.connless.all (fun s => optsLast s.members)

/-- Every message / object description of a protocol is one the generator can emit. -/
def wfProto (p : ProtoSpec) : Bool :=
  p.system.all (fun s => wfMs s.members) && p.game.all (fun s => wfMs s.members) &&
  p.connless.all (fun s => wfMs s.members) && p.objects.all (fun s => wfOs s.members)

/-- every `enum` / `flags` reference of a member type agrees with the protocol's tables -/
def refsOkM (p : ProtoSpec) : MT → Bool
  | .enum name lo n => p.enums.any fun e => e.name == name && e.values == (List.range n).map (fun (i : Nat) => lo + (i : Int))
  | .flags name mask => p.flags.any fun e => e.name == name && e.values == ((List.range e.values.length).map fun i => ((2 ^ i : Nat) : Int)) && (2 ^ e.values.length : Nat) == mask + 1
  | .optional t => refsOkM p t
  | .array _ t => refsOkM p t
  | .object ms => refsOkMs p ms
  | _ => true
where
  refsOkMs (p : ProtoSpec) : ML → Bool
    | .nil => true
    | .cons t ms => refsOkM p t && refsOkMs p ms

def refsOk (p : ProtoSpec) : Bool :=
  let f := fun (ms : ML) => refsOkM.refsOkMs p ms
  p.system.all (fun s => f s.members) && p.game.all (fun s => f s.members) &&
  p.connless.all (fun s => f s.members) && p.objects.all (fun s => f s.members)

/-- the generated `obj_size` has exactly one arm per ordinal object, with the number of integers
its members occupy -/
def objSizesOk (p : ProtoSpec) : Bool :=
  p.objSizes == p.objects.filterMap fun s =>
    match s.id with
    | .ordinal n => some (n.toNat, intSize s.members)
    | .uuid _ => none

end Tw.Gamenet
