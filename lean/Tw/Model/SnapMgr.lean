/-
Model of the snapshot exchange between a sender and a receiver (property C13):

* `snapshot/src/storage.rs` `Storage` in its two roles — sender (`add_snap`, `set_delta_tick`,
  `delta_tick`) and receiver (`add_delta`, `ack_tick`, `reset`);
* the glue of `server/src/main.rs::send_snapshots` (`delta_tick().unwrap_or(-1)`, `add_snap`,
  `delta.write(obj_size, …).unwrap()`, `delta_chunks(tick, delta_tick, bytes, crc)`);
* `snapshot/src/manager.rs` `Manager` (= `DeltaReceiver` of `Model/SnapXfer` + `Delta::read` +
  `Storage::add_delta`).

The snapshot / delta layer (`snap.rs`, properties C09–C11) enters as a parameter `Ops S D`: the
operations the protocol layer calls, over abstract snapshots `S` and deltas `D`.  The free list
(`Storage::free`, `new_builder`, `recycle`) only decides how the *builder* numbers UUID types; the
snapshot the sender built is an input here.

Panic sites of the modelled code: `Delta::create` (size mismatch, D15/D25) and the `unwrap` of the
glue on the write result are `Ops.create = none` / `Ops.write = none`; `delta_chunks` is
`Outcome.panic` of `Model/SnapXfer`; the `unwrap`s inside `Storage` (`back()` after `push_front`,
`free.pop()` after the emptiness test) cannot fail and have no counterpart.
-/
import Tw.Model.SnapXfer
import Tw.Gen.SnapMgr

namespace Tw.SnapMgr
open Tw.SnapXfer

/-- The snapshot/delta operations used by `Storage`, `Manager` and the sender glue. -/
structure Ops (S D : Type) where
  /-- `Snap::empty()` -/
  empty : S
  /-- `Delta::create(from, to)`; `none` = panic (item sizes differ) -/
  create : S → S → Option D
  /-- `delta.write(obj_size, packer)` into the 64 KiB buffer; `none` = the glue's `unwrap` panics -/
  write : D → Option (List UInt8)
  /-- `Delta::clear()`: the delta of a `SnapEmpty` message -/
  clear : D
  /-- `Delta::read(obj_size, bytes)`; error = `Error::Snap(_)` -/
  read : List UInt8 → Except String D
  /-- `Snap::read_with_delta(from, delta)`; error = `storage::Error::Unpack(_)` -/
  apply : S → D → Except String S
  /-- `Snap::crc()` -/
  crc : S → Int
  /-- do two snapshots have the same content? (only used by the protocol-conforming glue below) -/
  same : S → S → Bool
  /-- Which sender glue: `false` = `server/src/main.rs` as it is (it always writes the delta, which
  is never zero bytes long, so it never sends `SnapEmpty`); `true` = a sender that, like the
  reference server, hands `delta_chunks` empty data when the new snapshot equals the base
  ("same as base": `SnapEmpty`, no payload, no checksum). -/
  emptyWhenSame : Bool

/-- `MAX_STORED_SNAPSHOT` -/
def maxStored : Nat := Tw.Gen.SnapMgr.MAX_STORED_SNAPSHOT

structure Stored (S : Type) where
  tick : Int
  snap : S

/-- `Storage` without its free list; `snaps` newest first. -/
structure Storage (S : Type) where
  snaps : List (Stored S) := []
  ackTick : Option Int := none
  deltaTick : Option Int := none

/-- `snaps.drain(i..)` for the first `i` with `snaps[i].tick < tick`: what is kept -/
def keepFrom {S : Type} (snaps : List (Stored S)) (tick : Int) : List (Stored S) :=
  snaps.takeWhile fun s => ¬ s.tick < tick

/-- `Storage::reset` -/
def Storage.reset {S : Type} (st : Storage S) : Storage S := { st with snaps := [], ackTick := none }

/-! ### sender side -/

inductive SetDeltaResult where
  | ok
  | unknownSnap
  deriving DecidableEq, Repr

/-- `Storage::set_delta_tick`: new state, result, whether `WeirdNegativeDeltaTick` was warned -/
def Storage.setDeltaTick {S : Type} (st : Storage S) (tick : Int) : Storage S × SetDeltaResult × Bool :=
  if tick < 0 then ({ st with deltaTick := none }, .ok, decide (tick ≠ -1))
  else
    let kept := keepFrom st.snaps tick
    match kept.getLast? with
    | some d =>
      if d.tick = tick then ({ st with snaps := kept, deltaTick := some tick }, .ok, false)
      else ({ st with snaps := kept, deltaTick := none }, .unknownSnap, false)
    | none => ({ st with snaps := kept, deltaTick := none }, .unknownSnap, false)

/-- the snapshot `add_snap` diffs against, after the new one has been pushed -/
def Storage.baseOf {S D : Type} (ops : Ops S D) (st : Storage S) (snaps : List (Stored S)) : S :=
  match st.deltaTick, snaps.getLast? with
  | some _, some d => d.snap
  | _, _ => ops.empty

/-- `Storage::add_snap`; `none` = `Delta::create` panics -/
def Storage.addSnap {S D : Type} (ops : Ops S D) (st : Storage S) (tick : Int) (snap : S) :
    Option (Storage S × D) :=
  let snaps := { tick := tick, snap := snap } :: st.snaps
  match ops.create (st.baseOf ops snaps) snap with
  | none => none
  | some d => some ({ st with snaps := snaps }, d)

/-- what the glue hands to `delta_chunks` -/
structure Xfer where
  tick : Int
  base : Int
  bytes : List UInt8
  crc : Int
  deriving DecidableEq, Repr

/-- The glue of `send_snapshots` for one peer once the snapshot is built: new sender state, the
arguments of `delta_chunks`, and the messages handed to the network. -/
def sendSnap {S D : Type} (ops : Ops S D) (st : Storage S) (tick : Int) (snap : S) :
    Outcome (Storage S × Xfer × List Msg) :=
  let deltaTick := st.deltaTick.getD (-1)
  match st.addSnap ops tick snap with
  | none => .panic "Delta::create"
  | some (st', d) =>
    if ops.emptyWhenSame && ops.same (st.baseOf ops ({ tick := tick, snap := snap } :: st.snaps)) snap then
      match deltaChunks tick deltaTick [] (ops.crc snap) with
      | .panic s => .panic s
      | .ok ms => .ok (st', { tick := tick, base := deltaTick, bytes := [], crc := ops.crc snap }, ms)
    else
    match ops.write d with
    | none => .panic "with_packer(..).unwrap()"
    | some bytes =>
      match deltaChunks tick deltaTick bytes (ops.crc snap) with
      | .panic s => .panic s
      | .ok ms => .ok (st', { tick := tick, base := deltaTick, bytes := bytes, crc := ops.crc snap }, ms)

/-! ### receiver side -/

inductive StorageError where
  | oldDelta
  | unknownSnap
  | invalidCrc
  | unpack (e : String)
  deriving DecidableEq, Repr

def StorageError.name : StorageError → String
  | .oldDelta => "OldDelta"
  | .unknownSnap => "UnknownSnap"
  | .invalidCrc => "InvalidCrc"
  | .unpack e => s!"Unpack({e})"

/-- the second half of `add_delta`, once the base snapshot is known: apply, compare the checksum,
store, acknowledge -/
def Storage.finishDelta {S D : Type} (ops : Ops S D) (st : Storage S) (crc : Option Int) (tick : Int)
    (base : S) (delta : D) (w : Bool) : Storage S × Except StorageError S × Bool :=
  match ops.apply base delta with
  | .error e => (st, .error (.unpack e), w)
  | .ok new =>
    if (match crc with | some c => decide (c ≠ ops.crc new) | none => false) then
      ({ st with ackTick := none }, .error .invalidCrc, w)
    else
      let snaps := { tick := tick, snap := new } :: st.snaps
      let snaps := if snaps.length > maxStored then snaps.dropLast else snaps
      ({ st with snaps := snaps, ackTick := some tick }, .ok new, w)

/-- `self.snaps.front().map(|s| s.tick).unwrap_or(-1)` -/
def Storage.newestTick {S : Type} (st : Storage S) : Int :=
  match st.snaps.head? with
  | some s => s.tick
  | none => -1

/-- `Storage::add_delta`: new state, result, whether `WeirdNegativeDeltaTick` was warned -/
def Storage.addDelta {S D : Type} (ops : Ops S D) (st : Storage S) (crc : Option Int)
    (deltaTick tick : Int) (delta : D) : Storage S × Except StorageError S × Bool :=
  if st.newestTick ≥ tick then (st, .error .oldDelta, false)
  else if deltaTick ≥ 0 then
    let kept := keepFrom st.snaps deltaTick
    match kept.getLast? with
    | some d =>
      if d.tick = deltaTick then
        Storage.finishDelta ops { st with snaps := kept } crc tick d.snap delta false
      else ({ st with snaps := kept, ackTick := none }, .error .unknownSnap, false)
    | none => ({ st with snaps := kept, ackTick := none }, .error .unknownSnap, false)
  else Storage.finishDelta ops st crc tick ops.empty delta (decide (deltaTick ≠ -1))

inductive MgrError where
  | receiver (e : Error)
  | snap (e : String)
  | storage (e : StorageError)
  deriving DecidableEq, Repr

def MgrError.name : MgrError → String
  | .receiver e => s!"Receiver({e.name})"
  | .snap e => s!"Snap({e})"
  | .storage e => s!"Storage({e.name})"

inductive MgrWarning where
  | receiver (w : Warning)
  | weirdNegativeDeltaTick
  deriving DecidableEq, Repr

def MgrWarning.name : MgrWarning → String
  | .receiver w => w.name
  | .weirdNegativeDeltaTick => "WeirdNegativeDeltaTick"

/-- `Manager` -/
structure Manager (S : Type) where
  receiver : Receiver := {}
  storage : Storage S := {}

def Manager.ackTick {S : Type} (m : Manager S) : Option Int := m.storage.ackTick

/-- `Manager::reset` -/
def Manager.reset {S : Type} (m : Manager S) : Manager S :=
  { receiver := m.receiver.reset, storage := m.storage.reset }

/-- `ManagerInner::add_delta` -/
def Manager.addDelta {S D : Type} (ops : Ops S D) (st : Storage S) (d : Received) :
    Storage S × Except MgrError S × Bool :=
  let delta : Except String D :=
    match d.dataCrc with
    | some (data, _) => ops.read data
    | none => .ok ops.clear
  match delta with
  | .error e => (st, .error (.snap e), false)
  | .ok delta =>
    match st.addDelta ops (d.dataCrc.map Prod.snd) d.deltaTick d.tick delta with
    | (st', .error e, w) => (st', .error (.storage e), w)
    | (st', .ok s, w) => (st', .ok s, w)

/-- `Manager::snap` / `snap_single` / `snap_empty` on a message -/
def Manager.step {S D : Type} (ops : Ops S D) (m : Manager S) (msg : Msg) :
    Manager S × Except MgrError (Option S) × List MgrWarning :=
  match m.receiver.step msg with
  | (r', .error e, ws) => ({ m with receiver := r' }, .error (.receiver e), ws.map .receiver)
  | (r', .ok none, ws) => ({ m with receiver := r' }, .ok none, ws.map .receiver)
  | (r', .ok (some d), ws) =>
    match Manager.addDelta ops m.storage d with
    | (st', .error e, w) =>
      ({ receiver := r', storage := st' }, .error e,
        ws.map .receiver ++ if w then [.weirdNegativeDeltaTick] else [])
    | (st', .ok s, w) =>
      ({ receiver := r', storage := st' }, .ok (some s),
        ws.map .receiver ++ if w then [.weirdNegativeDeltaTick] else [])

/-! ### the two sides and the channel between them -/

/-- Sender, receiver and everything that was ever put on the two channels. `sent` and `xfers` are
history (ghost) variables: they influence nothing. -/
structure Sys (S : Type) where
  sender : Storage S := {}
  client : Manager S := {}
  /-- every snapshot message handed to the network so far (the channel may deliver any of them,
  any number of times, in any order) -/
  msgs : List Msg := []
  /-- every acknowledgement value the client has put into an input message so far -/
  acks : List Int := []
  /-- history: `(tick, snapshot)` for every snapshot the sender built, newest first -/
  sent : List (Int × S) := []
  /-- history: the arguments of every `delta_chunks` call -/
  xfers : List Xfer := []

inductive Ev (S : Type) where
  /-- the server builds `snap` for `tick` and sends it -/
  | send (tick : Int) (snap : S)
  /-- the network delivers message number `i` to the client -/
  | deliver (i : Nat)
  /-- the client sends an input message carrying `ack_tick().unwrap_or(-1)` -/
  | ack
  /-- the network delivers acknowledgement number `j` to the server -/
  | deliverAck (j : Nat)
  /-- an acknowledgement value that no client message carried -/
  | forgedAck (v : Int)
  /-- `Manager::reset` -/
  | clientReset

/-- what an event shows: for a delivery the message's tick, the `Manager`'s result and `ack_tick()`
before and after -/
inductive Obs (S : Type) where
  | quiet
  | delivered (tick : Int) (res : Except MgrError (Option S)) (ackBefore ackAfter : Option Int)

def Sys.step {S D : Type} (ops : Ops S D) (y : Sys S) : Ev S → Outcome (Sys S × Obs S)
  | .send tick snap =>
    match sendSnap ops y.sender tick snap with
    | .panic s => .panic s
    | .ok (st', x, ms) =>
      .ok ({ y with sender := st', msgs := y.msgs ++ ms, sent := (tick, snap) :: y.sent,
                    xfers := x :: y.xfers }, .quiet)
  | .deliver i =>
    match y.msgs[i]? with
    | none => .ok (y, .quiet)
    | some m =>
      let r := y.client.step ops m
      .ok ({ y with client := r.1 }, .delivered m.tick r.2.1 y.client.ackTick r.1.ackTick)
  | .ack => .ok ({ y with acks := y.acks ++ [y.client.ackTick.getD (-1)] }, .quiet)
  | .deliverAck j =>
    match y.acks[j]? with
    | none => .ok (y, .quiet)
    | some v => .ok ({ y with sender := (y.sender.setDeltaTick v).1 }, .quiet)
  | .forgedAck v => .ok ({ y with sender := (y.sender.setDeltaTick v).1 }, .quiet)
  | .clientReset => .ok ({ y with client := y.client.reset }, .quiet)

/-- a whole history; the observations are listed in order -/
def Sys.run {S D : Type} (ops : Ops S D) (y : Sys S) : List (Ev S) → Outcome (Sys S × List (Obs S))
  | [] => .ok (y, [])
  | e :: es =>
    match y.step ops e with
    | .panic s => .panic s
    | .ok (y', o) =>
      match Sys.run ops y' es with
      | .panic s => .panic s
      | .ok (y'', os) => .ok (y'', o :: os)

/-- The sender follows the storage API: the ticks of its snapshots are `i32`s and strictly
increasing (`last` = the newest tick used before this history). -/
def sendsOk {S : Type} : Option Int → List (Ev S) → Prop
  | _, [] => True
  | last, .send t _ :: rest => inI32 t ∧ (∀ l, last = some l → l < t) ∧ sendsOk (some t) rest
  | last, _ :: rest => sendsOk last rest

/-- The C13 verdict on one observation, relative to the history `sent` of the sender's snapshots. -/
def Obs.ok {S : Type} (sent : List (Int × S)) : Obs S → Prop
  | .quiet => True
  | .delivered t (.ok (some s)) _ after => (t, s) ∈ sent ∧ after = some t
  | .delivered _ (.ok none) before after => after = before
  | .delivered _ (.error _) before after => after = before ∨ after = none

/-! ### the sender's builder and free list

`Storage::new_builder` (since the repair of D25): pop a snapshot from the free list (or take
`Snap::default()`), overwrite it with a copy of the newest stored snapshot if there is one, and
`recycle` it.  `set_delta_tick` moves the snapshots it drains to the free list.  The receiving
`Storage` also has a free list, but every snapshot it takes from there is overwritten completely
(`read_with_delta` and `build_from_raw` clear first), so it has no observable effect and is not
modelled. -/

/-- what the application does with the builder: `I` is what it adds between `new_builder()` and
`finish()` -/
structure BuildOps (S I : Type) where
  /-- `Snap::default()` -/
  default : S
  /-- `seed.recycle()`, the application's `add_item` calls, `finish()`. `panic` = `recycle` or
  `add_item` panics; `error` = a `BuilderError` (the server would not send anything) -/
  build : S → I → Outcome (Except String S)

/-- the snapshots `set_delta_tick(v)` drains, in the order they are pushed to the free list -/
def Storage.drainedBy {S : Type} (st : Storage S) (v : Int) : List S :=
  if v < 0 then [] else (st.snaps.drop (keepFrom st.snaps v).length).map (·.snap)

/-- both sides, the channels, and the sender's free list (last element = top of the stack) -/
structure SysB (S : Type) where
  sys : Sys S := {}
  free : List S := []

inductive EvB (S I : Type) where
  /-- the server builds a snapshot from `items` with `new_builder()` and sends it -/
  | sendItems (tick : Int) (items : I)
  /-- any other event (a `send` of a ready-made snapshot is not used here) -/
  | other (e : Ev S)

/-- the snapshot `new_builder()` recycles -/
def SysB.seed {S I : Type} (b : BuildOps S I) (y : SysB S) : S :=
  match y.sys.sender.snaps.head? with
  | some newest => newest.snap
  | none => y.free.getLast?.getD b.default

inductive ObsB (S : Type) where
  | obs (o : Obs S)
  /-- the builder refused an item: nothing was sent -/
  | builderError (e : String)

def SysB.step {S D I : Type} (ops : Ops S D) (b : BuildOps S I) (y : SysB S) :
    EvB S I → Outcome (SysB S × ObsB S)
  | .sendItems tick items =>
    match b.build (y.seed b) items with
    | .panic s => .panic s
    | .ok (.error e) => .ok ({ y with free := y.free.dropLast }, .builderError e)
    | .ok (.ok snap) =>
      match y.sys.step ops (.send tick snap) with
      | .panic s => .panic s
      | .ok (sys', o) => .ok ({ sys := sys', free := y.free.dropLast }, .obs o)
  | .other e =>
    let drained : List S :=
      match e with
      | .deliverAck j =>
        match y.sys.acks[j]? with
        | some v => y.sys.sender.drainedBy v
        | none => []
      | .forgedAck v => y.sys.sender.drainedBy v
      | _ => []
    match y.sys.step ops e with
    | .panic s => .panic s
    | .ok (sys', o) => .ok ({ sys := sys', free := y.free ++ drained }, .obs o)

def SysB.run {S D I : Type} (ops : Ops S D) (b : BuildOps S I) (y : SysB S) :
    List (EvB S I) → Outcome (SysB S × List (ObsB S))
  | [] => .ok (y, [])
  | e :: es =>
    match y.step ops b e with
    | .panic s => .panic s
    | .ok (y', o) =>
      match SysB.run ops b y' es with
      | .panic s => .panic s
      | .ok (y'', os) => .ok (y'', o :: os)

/-- `sendsOk` for histories with builder events: the ticks of all snapshots the sender builds (or
tries to build) are `i32`s and strictly increasing -/
def sendsOkB {S I : Type} : Option Int → List (EvB S I) → Prop
  | _, [] => True
  | last, .sendItems t _ :: rest => inI32 t ∧ (∀ l, last = some l → l < t) ∧ sendsOkB (some t) rest
  | last, .other (.send t _) :: rest => inI32 t ∧ (∀ l, last = some l → l < t) ∧ sendsOkB (some t) rest
  | last, .other _ :: rest => sendsOkB last rest

/-- the C13 verdict on an observation of `SysB` -/
def ObsB.ok {S : Type} (sent : List (Int × S)) : ObsB S → Prop
  | .obs o => o.ok sent
  | .builderError _ => True

end Tw.SnapMgr
