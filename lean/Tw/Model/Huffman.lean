/-
Model of `huffman/src/lib.rs`: symbol representation, compressor (spec form: concatenated code
bits, LSB-first packing), decompressor (bit-serial tree walk with zero extension after the input and
an output capacity).  The table is a parameter; the built-in one is `Tw.Gen.Huffman.table`
(regenerated from `huffman/src/instances/teeworlds.rs` on every run).
-/
namespace Tw.Huffman

abbrev Table := Array (Nat × Nat)

def EOF : Nat := 256
def NUM_SYMBOLS : Nat := 257
def NUM_NODES : Nat := 513
def ROOT_IDX : Nat := 512

def node (t : Table) (i : Nat) : Nat × Nat := t.getD i (65535, 65535)

/-- `Node::to_symbol_repr().bits` -/
def symBits (t : Table) (s : Nat) : Nat := ((node t s).1 % 256) * 65536 + (node t s).2
/-- `Node::to_symbol_repr().num_bits` -/
def symLen (t : Table) (s : Nat) : Nat := (node t s).1 / 256

/-- the code of symbol `s`, first transmitted bit first (`SymbolRepr::bit(0)`, …) -/
def codeBits (t : Table) (s : Nat) : List Bool :=
  (List.range (symLen t s)).map fun i => (symBits t s / 2 ^ i) % 2 = 1

/-- the bit stream of an input: codes of all bytes, then of EOF -/
def streamBits (t : Table) (xs : List UInt8) : List Bool :=
  (xs.map (·.toNat) ++ [EOF]).flatMap (codeBits t)

def bitsToByte (bs : List Bool) : UInt8 :=
  UInt8.ofNat ((bs.zipIdx.map fun (b, i) => if b then 2 ^ i else 0).sum)

/-- pack bits into bytes, least significant bit first, zero padding in the last byte -/
def packBits : List Bool → List UInt8
  | [] => []
  | b :: bs =>
    let chunk := (b :: bs).take 8
    bitsToByte chunk :: packBits ((b :: bs).drop 8)
termination_by l => l.length
decreasing_by simp [List.length_drop]; omega

/-- `compress` (`bug = false`) and `compress_bug` (`bug = true`, the reference-compatible form
that emits an extra zero byte when the stream ends on a byte boundary), without capacity limit. -/
def compress (t : Table) (bug : Bool) (xs : List UInt8) : List UInt8 :=
  let bits := streamBits t xs
  packBits bits ++ (if bug ∧ bits.length % 8 = 0 then [0] else [])

def compressedBitLen (t : Table) (xs : List UInt8) : Nat :=
  (xs.map fun b => symLen t b.toNat).sum + symLen t EOF

def compressedLen (t : Table) (xs : List UInt8) : Nat := (compressedBitLen t xs + 7) / 8
def compressedLenBug (t : Table) (xs : List UInt8) : Nat := compressedBitLen t xs / 8 + 1

/-- Compression into a buffer of capacity `cap`: `none` = `CapacityError` (nothing committed). -/
def compressInto (t : Table) (bug : Bool) (xs : List UInt8) (cap : Nat) : Option (List UInt8) :=
  let out := compress t bug xs
  if out.length ≤ cap then some out else none

inductive DecResult where
  | ok (out : List UInt8)
  | capacity
  | diverge            -- fuel exhausted: shown impossible for well-formed tables
  deriving Repr, DecidableEq

inductive StepResult where
  | cont (node : Nat) (out : List UInt8)     -- `out` is reversed
  | done (out : List UInt8)
  | capacity

/-- one bit of `decompress_unsafe` -/
def decStep (t : Table) (cap : Nat) (nd : Nat) (out : List UInt8) (bit : Bool) : StepResult :=
  let idx := if bit then (node t nd).2 else (node t nd).1
  if idx ≥ NUM_SYMBOLS then .cont idx out
  else if idx = EOF then .done out
  else if out.length ≥ cap then .capacity
  else .cont ROOT_IDX (UInt8.ofNat idx :: out)

inductive BitsResult where
  | more (node : Nat) (out : List UInt8)
  | fin (r : DecResult)

/-- the explicit input bits -/
def decBits (t : Table) (cap : Nat) : Nat → List UInt8 → List Bool → BitsResult
  | nd, out, [] => .more nd out
  | nd, out, b :: bs =>
    match decStep t cap nd out b with
    | .cont nd' out' => decBits t cap nd' out' bs
    | .done out' => .fin (.ok out'.reverse)
    | .capacity => .fin .capacity

/-- the implicit zero bits after the input (`input.next().unwrap_or(&0)`) -/
def decZeros (t : Table) (cap : Nat) : Nat → Nat → List UInt8 → DecResult
  | 0, _, _ => .diverge
  | fuel + 1, nd, out =>
    match decStep t cap nd out false with
    | .cont nd' out' => decZeros t cap fuel nd' out'
    | .done out' => .ok out'.reverse
    | .capacity => .capacity

def byteBits (b : UInt8) : List Bool := (List.range 8).map fun i => (b.toNat / 2 ^ i) % 2 = 1

/-- fuel for the zero tail: every `NUM_NODES` steps at least one byte is output -/
def zeroFuel (cap : Nat) : Nat := (cap + 2) * (NUM_NODES + 1)

/-- `Huffman::decompress` into a buffer of capacity `cap` -/
def decompress (t : Table) (input : List UInt8) (cap : Nat) : DecResult :=
  match decBits t cap ROOT_IDX [] (input.flatMap byteBits) with
  | .fin r => r
  | .more nd out => decZeros t cap (zeroFuel cap) nd out

end Tw.Huffman
