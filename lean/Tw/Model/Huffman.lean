/-
Model of `huffman/src/lib.rs`: symbol representation, compressor (spec form: concatenated code
bits, LSB-first packing), decompressor (bit-serial tree walk with zero extension after the input and
an output capacity).  The table is a parameter; the built-in one is `Tw.Gen.Huffman.table`
(regenerated from `huffman/src/instances/teeworlds.rs` on every run).

Other models import `compress`, `compressInto`, `decompress`, `DecResult` from here.
The streaming form of the Rust compressor (`compress_impl_unsafe`) is `Tw.Model.HuffmanStream`,
`from_frequencies` is `Tw.Model.HuffmanFreq`, the C++ reference is `Tw.Model.HuffmanRef`.
-/
namespace Tw.Huffman

abbrev Table := Array (Nat × Nat)

def EOF : Nat := 256
def NUM_SYMBOLS : Nat := 257
def NUM_NODES : Nat := 513
def ROOT_IDX : Nat := 512

/-- `self.nodes[i]`; the default is `NODE_SENTINEL` (an out-of-range index panics in the Rust; it
is excluded by `WellFormed`). -/
def node (t : Table) (i : Nat) : Nat × Nat := t.getD i (65535, 65535)

/-- table lookup as a function; everything that `WellFormed` evaluates is defined over a `Look` so
that the kernel can check the built-in table through a cheap arithmetic lookup -/
abbrev Look := Nat → Nat × Nat

/-- `Node::to_symbol_repr().bits` -/
def symBitsF (look : Look) (s : Nat) : Nat := ((look s).1 % 256) * 65536 + (look s).2
/-- `Node::to_symbol_repr().num_bits` -/
def symLenF (look : Look) (s : Nat) : Nat := (look s).1 / 256

def symBits (t : Table) (s : Nat) : Nat := symBitsF (node t) s
def symLen (t : Table) (s : Nat) : Nat := symLenF (node t) s

/-- the `k` low bits of `n`, least significant first -/
def natBits : Nat → Nat → List Bool
  | 0, _ => []
  | k + 1, n => (n % 2 == 1) :: natBits k (n / 2)

/-- value of a bit list, least significant first -/
def bitsToNat : List Bool → Nat
  | [] => 0
  | b :: bs => (if b then 1 else 0) + 2 * bitsToNat bs

def codeBitsF (look : Look) (s : Nat) : List Bool := natBits (symLenF look s) (symBitsF look s)

/-- the code of symbol `s`, first transmitted bit first (`SymbolRepr::bit(0)`, …) -/
def codeBits (t : Table) (s : Nat) : List Bool := codeBitsF (node t) s

/-- the bit stream of an input: codes of all bytes, then of EOF -/
def streamBits (t : Table) (xs : List UInt8) : List Bool :=
  (xs.map (·.toNat) ++ [EOF]).flatMap (codeBits t)

/-- pack bits into bytes, least significant bit first, zero padding in the last byte;
`k` bits with value `acc` are pending for the current byte -/
def packGo : List Bool → Nat → Nat → List UInt8
  | [], k, acc => if k = 0 then [] else [UInt8.ofNat acc]
  | b :: bs, k, acc =>
    let acc' := acc + (if b then 2 ^ k else 0)
    if k ≥ 7 then UInt8.ofNat acc' :: packGo bs 0 0 else packGo bs (k + 1) acc'

def packBits (bs : List Bool) : List UInt8 := packGo bs 0 0

/-- `compress` (`bug = false`) and `compress_bug` (`bug = true`, the reference-compatible form
that emits an extra zero byte when the stream ends on a byte boundary), without capacity limit. -/
def compress (t : Table) (bug : Bool) (xs : List UInt8) : List UInt8 :=
  let bits := streamBits t xs
  packBits bits ++ (if bug ∧ bits.length % 8 = 0 then [0] else [])

def compressedBitLen (t : Table) (xs : List UInt8) : Nat :=
  (xs.map fun b => symLen t b.toNat).sum + symLen t EOF

def compressedLen (t : Table) (xs : List UInt8) : Nat := (compressedBitLen t xs + 7) / 8
def compressedLenBug (t : Table) (xs : List UInt8) : Nat := compressedBitLen t xs / 8 + 1

/-- Compression into a buffer of capacity `cap`: `none` = `CapacityError` (nothing committed). -/
def compressInto (t : Table) (bug : Bool) (xs : List UInt8) (cap : Nat) : Option (List UInt8) :=
  let out := compress t bug xs
  if out.length ≤ cap then some out else none

inductive DecResult where
  | ok (out : List UInt8)
  | capacity
  | diverge            -- fuel exhausted: shown impossible for well-formed tables
  deriving Repr, DecidableEq

inductive StepResult where
  | cont (node : Nat) (out : List UInt8)     -- `out` is reversed
  | done (out : List UInt8)
  | capacity

/-- `node.children[bit as usize]` -/
def childF (look : Look) (nd : Nat) (bit : Bool) : Nat := if bit then (look nd).2 else (look nd).1
def child (t : Table) (nd : Nat) (bit : Bool) : Nat := childF (node t) nd bit

/-- one bit of `decompress_unsafe` -/
def decStep (t : Table) (cap : Nat) (nd : Nat) (out : List UInt8) (bit : Bool) : StepResult :=
  let idx := child t nd bit
  if idx ≥ NUM_SYMBOLS then .cont idx out
  else if idx = EOF then .done out
  else if out.length ≥ cap then .capacity
  else .cont ROOT_IDX (UInt8.ofNat idx :: out)

inductive BitsResult where
  | more (node : Nat) (out : List UInt8)
  | fin (r : DecResult)

/-- the explicit input bits -/
def decBits (t : Table) (cap : Nat) : Nat → List UInt8 → List Bool → BitsResult
  | nd, out, [] => .more nd out
  | nd, out, b :: bs =>
    match decStep t cap nd out b with
    | .cont nd' out' => decBits t cap nd' out' bs
    | .done out' => .fin (.ok out'.reverse)
    | .capacity => .fin .capacity

/-- the implicit zero bits after the input (`input.next().unwrap_or(&0)`) -/
def decZeros (t : Table) (cap : Nat) : Nat → Nat → List UInt8 → DecResult
  | 0, _, _ => .diverge
  | fuel + 1, nd, out =>
    match decStep t cap nd out false with
    | .cont nd' out' => decZeros t cap fuel nd' out'
    | .done out' => .ok out'.reverse
    | .capacity => .capacity

def byteBits (b : UInt8) : List Bool := natBits 8 b.toNat

/-- fuel for the zero tail: every `NUM_NODES` steps at least one byte is output -/
def zeroFuel (cap : Nat) : Nat := (cap + 2) * (NUM_NODES + 1)

/-- `Huffman::decompress` into a buffer of capacity `cap` -/
def decompress (t : Table) (input : List UInt8) (cap : Nat) : DecResult :=
  match decBits t cap ROOT_IDX [] (input.flatMap byteBits) with
  | .fin r => r
  | .more nd out => decZeros t cap (zeroFuel cap) nd out

/-- `Huffman::decompress_into_vec`: capacity `8 * input.len()`, both errors are `InvalidInput` -/
def decompressVec (t : Table) (input : List UInt8) : Option (List UInt8) :=
  match decompress t input (8 * input.length) with
  | .ok out => some out
  | _ => none

/-! ### Well-formed tables (decidable) -/

/-- follow `bits` from inner node `nd`; `some s` iff the last bit, and no earlier one, lands on
leaf `s` -/
def walkF (look : Look) : Nat → List Bool → Option Nat
  | _, [] => none
  | nd, b :: bs =>
    let idx := childF look nd b
    if idx ≥ NUM_SYMBOLS then walkF look idx bs
    else if bs.isEmpty then some idx else none

/-- inner node: both children have smaller indices and differ -/
def innerOkF (look : Look) (i : Nat) : Bool :=
  decide ((look i).1 < i) && decide ((look i).2 < i) && decide ((look i).1 ≠ (look i).2)

/-- symbol entry: `0 < len ≤ 24`, the stored bits fit in `len` bits, and walking them from the root
reaches exactly this leaf -/
def leafOkF (look : Look) (s : Nat) : Bool :=
  decide (0 < symLenF look s) && decide (symLenF look s ≤ 24)
    && decide (symBitsF look s < 2 ^ symLenF look s)
    && (walkF look ROOT_IDX (codeBitsF look s) == some s)

def okAtF (look : Look) (i : Nat) : Bool := if i < NUM_SYMBOLS then leafOkF look i else innerOkF look i

def walk (t : Table) : Nat → List Bool → Option Nat := walkF (node t)
def okAt (t : Table) (i : Nat) : Bool := okAtF (node t) i

def WellFormed (t : Table) : Prop := t.size = NUM_NODES ∧ ∀ i, i < NUM_NODES → okAt t i = true

instance (t : Table) : Decidable (WellFormed t) := by unfold WellFormed; exact inferInstance

/-- range form used to split the kernel evaluation for the built-in table -/
def okRangeF (look : Look) (lo n : Nat) : Bool := (List.range' lo n).all (okAtF look)

end Tw.Huffman
