import Tw.Model.Conn6
import Tw.Model.Conn7

/-!
# Two endpoints and an adversarial network (the quantifier of C01)

A `World` is two endpoints `a`, `b` of one protocol variant and a clock.  Each endpoint carries, next
to its connection object, three monotone logs:

* `out`: every datagram it ever handed to the `send` callback, in order (the *history* of its
  direction of the network; it never shrinks), each stamped with the endpoint's two absolute
  counters at the start of the call that emitted it (`nStamp`: vital chunks submitted so far,
  `dStamp`: vital chunks delivered to its application so far — the ghost, non-wrapping versions of
  `OnlineState.sequence` and `OnlineState.ack`);
* `submitted`: the chunks `send` accepted (returned `Ok`), in order;
* `events`: everything its delivery iterators yielded (the application drains every iterator: the
  model's `feed` returns the drained list — assumption H3 is built in).

Moves: an application call on either side (`connect`, `send`, `send_connless`, `flush`, `tick`,
`disconnect`), `deliver to i` of datagram `i` of the *peer's* history (any datagram ever sent, any
number of times, in any order: duplication, reordering, delay; loss = never delivering), clock
advance.  A call that panics (API misuse, see C04) or a `deliver` of a datagram that does not exist
ends the run: `step` returns `none`.

The protocol variants plug in through `Proto`: `proto6 false` (0.6 with the DDNet token),
`proto6 true` (0.6 towards a peer that does not use the token: the wire strips the token of the
connecting side's handshake datagrams, everything else is token-less by itself), `proto7`.
-/
namespace Tw.NetSim
open Tw.Conn

inductive Side where
  | a | b
deriving Repr, DecidableEq

def Side.other : Side → Side
  | .a => .b
  | .b => .a

/-- application calls -/
inductive Call where
  | connect
  | send (data : Bytes) (vital : Bool)
  | sendConnless (data : Bytes)
  | flush
  | tick
  | disconnect (reason : Bytes)
deriving Repr, DecidableEq

/-- what a call or a delivery hands back to the simulator -/
structure Ret (C P : Type) where
  conn : C
  sent : List P := []
  events : List Event := []
  /-- `send` returned `Ok`: the chunk counts as submitted -/
  accepted : Bool := false

/-- a protocol variant -/
structure Proto where
  Conn : Type
  Packet : Type
  /-- the adversary's choice where the byte level is ambiguous (0.6 close messages) -/
  Alt : Type
  init : Conn
  call : (now : Nat) → (draws : List Nat) → Conn → Call → Except Fail (Ret Conn Packet)
  recv : (now : Nat) → (draws : List Nat) → Conn → Packet → Alt → Except Fail (Ret Conn Packet)
  /-- the online state, if the connection is online (H1 looks at its resend queue) -/
  online : Conn → Option Online
  /-- the sequence counters a datagram mentions: its ack and its chunks (`none`: connless) -/
  view : Packet → Option (Nat × List Chunk)
  /-- the accepting side's answer the connecting side waits for (0.6 `ConnectAccept`, 0.7 `Accept`) -/
  isAccept : Packet → Bool

/-- a datagram of the history with the sender's absolute counters at the start of the emitting call -/
structure Sent (P : Type) where
  pkt : P
  nStamp : Nat
  dStamp : Nat

structure End (P : Proto) where
  conn : P.Conn
  out : List (Sent P.Packet) := []
  submitted : List (Bytes × Bool) := []
  events : List Event := []

structure World (P : Proto) where
  a : End P
  b : End P
  now : Nat := 0

def World.init (P : Proto) : World P := { a := { conn := P.init }, b := { conn := P.init } }

def World.get {P : Proto} (w : World P) : Side → End P
  | .a => w.a
  | .b => w.b

def World.set {P : Proto} (w : World P) : Side → End P → World P
  | .a, e => { w with a := e }
  | .b, e => { w with b := e }

/-! ## Logs -/

def vitalOf : List (Bytes × Bool) → List Bytes
  | [] => []
  | (d, true) :: r => d :: vitalOf r
  | (_, false) :: r => vitalOf r

def nonvitalOf : List (Bytes × Bool) → List Bytes
  | [] => []
  | (d, false) :: r => d :: nonvitalOf r
  | (_, true) :: r => nonvitalOf r

/-- payloads of the vital / non-vital `Chunk` events, in order -/
def vitalPayloads : List Event → List Bytes
  | [] => []
  | .chunk d true :: es => d :: vitalPayloads es
  | _ :: es => vitalPayloads es

def nonvitalPayloads : List Event → List Bytes
  | [] => []
  | .chunk d false :: es => d :: nonvitalPayloads es
  | _ :: es => nonvitalPayloads es

def readyCount : List Event → Nat
  | [] => 0
  | .ready :: r => readyCount r + 1
  | _ :: r => readyCount r

/-- the vital chunks the application submitted (payload bytes, in order) -/
def End.submittedVital {P : Proto} (e : End P) : List Bytes := vitalOf e.submitted
def End.submittedNonvital {P : Proto} (e : End P) : List Bytes := nonvitalOf e.submitted
/-- the vital chunks handed to the application (payload bytes, in order) -/
def End.deliveredVital {P : Proto} (e : End P) : List Bytes := vitalPayloads e.events
def End.deliveredNonvital {P : Proto} (e : End P) : List Bytes := nonvitalPayloads e.events
/-- ghost absolute `sequence`: number of vital chunks submitted -/
def End.nAbs {P : Proto} (e : End P) : Nat := e.submittedVital.length
/-- ghost absolute `ack`: number of vital chunks delivered -/
def End.dAbs {P : Proto} (e : End P) : Nat := e.deliveredVital.length

/-! ## Moves -/

inductive Move (P : Proto) where
  | call (s : Side) (draws : List Nat) (c : Call)
  | deliver (to : Side) (i : Nat) (draws : List Nat) (alt : P.Alt)
  | advance (dt : Nat)

/-- books a returned call: new connection object, datagrams appended to the history with the
counters of the start of the call, events appended -/
def End.book {P : Proto} (e : End P) (r : Ret P.Conn P.Packet) (sub : List (Bytes × Bool)) : End P :=
  { conn := r.conn
    out := e.out ++ r.sent.map (fun p => ⟨p, e.nAbs, e.dAbs⟩)
    submitted := e.submitted ++ sub
    events := e.events ++ r.events }

def step {P : Proto} (w : World P) : Move P → Option (World P)
  | .call s draws c =>
    let e := w.get s
    match P.call w.now draws e.conn c with
    | .error _ => none
    | .ok r =>
      let sub := match c with
        | .send d v => if r.accepted then [(d, v)] else []
        | _ => []
      some (w.set s (e.book r sub))
  | .deliver to i draws alt =>
    let e := w.get to
    match (w.get to.other).out[i]? with
    | none => none
    | some dg =>
      match P.recv w.now draws e.conn dg.pkt alt with
      | .error _ => none
      | .ok r => some (w.set to (e.book r []))
  | .advance dt => some { w with now := w.now + dt }

def run {P : Proto} : World P → List (Move P) → Option (World P)
  | w, [] => some w
  | w, m :: ms =>
    match step w m with
    | none => none
    | some w1 => run w1 ms

/-! ## The assumptions of C01 as predicates on a move in a world -/

/-- the absolute value a 10-bit counter value `s` refers to, seen from the absolute counter `c` of
its sender at send time: the latest value `≤ c` congruent to `s` -/
def unwrap (c s : Nat) : Nat := c - (c + seqMod - s % seqMod) % seqMod

/-- H1: fewer than 512 vital chunks are unacknowledged whenever a vital chunk is submitted -/
def h1 {P : Proto} (w : World P) : Move P → Bool
  | .call s _ (.send _ true) =>
    match P.online (w.get s).conn with
    | some o => decide (o.resendQueue.length < seqMod / 2)
    | none => true
  | _ => true

/-- H2: a datagram is delivered only while every sequence counter it mentions is fewer than 1024
behind the live counter it is compared with: its ack against the receiver's `sequence`, its vital
chunk sequence numbers against the sequence number the receiver waits for (`ack + 1`) -/
def h2 {P : Proto} (w : World P) : Move P → Bool
  | .deliver to i _ _ =>
    match (w.get to.other).out[i]? with
    | none => true
    | some dg =>
      match P.view dg.pkt with
      | none => true
      | some (ack, chunks) =>
        decide ((w.get to).nAbs < unwrap dg.dStamp ack + seqMod) &&
          chunks.all fun c => match c.vital with
            | some (s, _) => decide ((w.get to).dAbs + 1 < unwrap dg.nStamp s + seqMod)
            | none => true
  | _ => true

/-- every move of the schedule returns, and is made while H1 and H2 hold -/
def admissible {P : Proto} : World P → List (Move P) → Bool
  | _, [] => true
  | w, m :: ms =>
    h1 w m && h2 w m &&
      match step w m with
      | none => false
      | some w1 => admissible w1 ms

/-! ## The statement of C01 on a world -/

structure Safe {P : Proto} (w : World P) : Prop where
  /-- (1) vital chunks: delivered is a prefix of submitted, both directions -/
  vital_ab : w.b.deliveredVital <+: w.a.submittedVital
  vital_ba : w.a.deliveredVital <+: w.b.submittedVital
  /-- (2) non-vital chunks delivered were submitted (non-vital) by the peer -/
  nonvital_ab : ∀ x ∈ w.b.deliveredNonvital, x ∈ w.a.submittedNonvital
  nonvital_ba : ∀ x ∈ w.a.deliveredNonvital, x ∈ w.b.submittedNonvital
  /-- (3) `Ready` at most once, and only after the peer emitted its accept datagram -/
  ready_once_a : readyCount w.a.events ≤ 1
  ready_once_b : readyCount w.b.events ≤ 1
  ready_after_a : Event.ready ∈ w.a.events → ∃ dg ∈ w.b.out, P.isAccept dg.pkt = true
  ready_after_b : Event.ready ∈ w.b.events → ∃ dg ∈ w.a.out, P.isAccept dg.pkt = true

/-! ## 0.6 -/

namespace P6
open Tw.Conn6

/-- how the reader may misread a close message when the hint does not pin the token down -/
inductive Alt where
  | exact
  | error
  | close (token : Option Nat) (reason : Bytes)
deriving Repr, DecidableEq

def strip : Packet → Packet
  | .connless d => .connless d
  | .control ack _ c => .control ack none c
  | .chunks ack _ rr n cs => .chunks ack none rr n cs

def hasToken : Packet → Bool
  | .connless _ => false
  | .control _ t _ => t.isSome
  | .chunks _ t _ _ _ => t.isSome

/-- `Packet::read` applied to the bytes `Packet::write` produced for `p`, as a function of the token
hint.  With the matching hint, or without a hint for everything but a close message, the reader
returns what was written (C05).  A close message read without a hint or against it is ambiguous at
the byte level (`has_token_heuristic`; the last four bytes of the reason taken for a token): the
adversary picks the outcome — what was written, a read error, or a close message with any token and
reason (the header, hence the ack, is not affected).  Any other packet read against the hint is a
read error here; this case does not occur (`misread`, `Tw.Props.C01.wire_hint_consistent`).  `tokenless`: the
peer does not use the token (its datagrams are read as written without one). -/
def wireRead (tokenless : Bool) (p : Packet) (alt : Alt) (h : Option Bool) : Option Packet :=
  let q := if tokenless then strip p else p
  match q with
  | .connless _ => some q
  | .control ack tok (.close _) =>
    if h = some tok.isSome then some q
    else match alt with
      | .exact => some q
      | .error => none
      | .close tok' r' => some (.control ack tok' (.close r'))
  | _ => if h = none ∨ h = some (hasToken q) then some q else none

/-- the case `wireRead` turns into a read error without the code doing so: a packet other than a
close message read against the hint (`Tw.Props.C01.wire_hint_consistent`: never happens) -/
def misread (tokenless : Bool) (p : Packet) (h : Option Bool) : Bool :=
  let q := if tokenless then strip p else p
  match q with
  | .connless _ => false
  | .control _ _ (.close _) => false
  | _ => !(h == none || h == some (hasToken q))

def call (now : Nat) (draws : List Nat) (c : Conn) : Call → Except Fail (Ret Conn Packet)
  | .connect =>
    match connect ⟨now, draws⟩ c with
    | .error e => .error e
    | .ok (c1, out) => .ok { conn := c1, sent := out.sent, events := out.events }
  | .send d v =>
    match send ⟨now, draws⟩ c d v with
    | .error e => .error e
    | .ok (c1, r, out) => .ok { conn := c1, sent := out.sent, events := out.events, accepted := r == .ok }
  | .sendConnless d =>
    match sendConnless ⟨now, draws⟩ c d with
    | .error e => .error e
    | .ok (c1, _, out) => .ok { conn := c1, sent := out.sent, events := out.events }
  | .flush =>
    match flush ⟨now, draws⟩ c with
    | .error e => .error e
    | .ok (c1, out) => .ok { conn := c1, sent := out.sent, events := out.events }
  | .tick =>
    match tick ⟨now, draws⟩ c with
    | .error e => .error e
    | .ok (c1, out) => .ok { conn := c1, sent := out.sent, events := out.events }
  | .disconnect r =>
    match disconnect ⟨now, draws⟩ c r with
    | .error e => .error e
    | .ok (c1, out) => .ok { conn := c1, sent := out.sent, events := out.events }

def recv (tokenless : Bool) (now : Nat) (draws : List Nat) (c : Conn) (p : Packet) (alt : Alt) :
    Except Fail (Ret Conn Packet) :=
  match feed ⟨now, draws⟩ c (wireRead tokenless p alt) with
  | .error e => .error e
  | .ok (c1, out) => .ok { conn := c1, sent := out.sent, events := out.events }

def online (c : Conn) : Option Online :=
  match c.state with
  | .online _ o => some o
  | _ => none

def view : Packet → Option (Nat × List Chunk)
  | .connless _ => none
  | .control ack _ _ => some (ack, [])
  | .chunks ack _ _ _ cs => some (ack, cs)

def isAccept : Packet → Bool
  | .control _ _ .connectAccept => true
  | _ => false

end P6

def proto6 (tokenless : Bool) : Proto where
  Conn := Conn6.Conn
  Packet := Conn6.Packet
  Alt := P6.Alt
  init := Conn6.Conn.new
  call := P6.call
  recv := P6.recv tokenless
  online := P6.online
  view := P6.view
  isAccept := P6.isAccept

/-! ## 0.7 -/

namespace P7
open Tw.Conn7

def call (now : Nat) (draws : List Nat) (c : Conn) : Call → Except Fail (Ret Conn Packet)
  | .connect =>
    match connect ⟨now, draws⟩ c with
    | .error e => .error e
    | .ok (c1, out) => .ok { conn := c1, sent := out.sent, events := out.events }
  | .send d v =>
    match send ⟨now, draws⟩ c d v with
    | .error e => .error e
    | .ok (c1, r, out) => .ok { conn := c1, sent := out.sent, events := out.events, accepted := r == .ok }
  | .sendConnless d =>
    match sendConnless ⟨now, draws⟩ c d with
    | .error e => .error e
    | .ok (c1, _, out) => .ok { conn := c1, sent := out.sent, events := out.events }
  | .flush =>
    match flush ⟨now, draws⟩ c with
    | .error e => .error e
    | .ok (c1, out) => .ok { conn := c1, sent := out.sent, events := out.events }
  | .tick =>
    match tick ⟨now, draws⟩ c with
    | .error e => .error e
    | .ok (c1, out) => .ok { conn := c1, sent := out.sent, events := out.events }
  | .disconnect r =>
    match disconnect ⟨now, draws⟩ c r with
    | .error e => .error e
    | .ok (c1, out) => .ok { conn := c1, sent := out.sent, events := out.events }

/-- the 0.7 reader needs no hint: a written packet reads back as written (C05) -/
def recv (now : Nat) (draws : List Nat) (c : Conn) (p : Packet) (_alt : Unit) :
    Except Fail (Ret Conn Packet) :=
  match feed ⟨now, draws⟩ c (some p) with
  | .error e => .error e
  | .ok (c1, out) => .ok { conn := c1, sent := out.sent, events := out.events }

def online (c : Conn) : Option Online :=
  match c.state with
  | .online _ _ o => some o
  | _ => none

def view : Packet → Option (Nat × List Chunk)
  | .connless _ _ _ => none
  | .control ack _ _ => some (ack, [])
  | .chunks ack _ _ _ cs => some (ack, cs)

def isAccept : Packet → Bool
  | .control _ _ .accept => true
  | _ => false

end P7

def proto7 : Proto where
  Conn := Conn7.Conn
  Packet := Conn7.Packet
  Alt := Unit
  init := Conn7.Conn.new
  call := P7.call
  recv := P7.recv
  online := P7.online
  view := P7.view
  isAccept := P7.isAccept


/-! ## A timed fair suffix (C02 c over two full connections)

One round: the clock advances by one retransmission interval and both sides tick, it advances by one
send interval and both sides tick again (every tick happens at or after the deadline `needs_tick`
reported — a tick before its deadline does nothing); then the datagrams `a` emitted by its two ticks
are delivered to `b` once, in order, then those `b` emitted by its two ticks to `a`.  Datagrams emitted
*while a delivery is processed* (the resend answering a resend request) are not delivered. -/

def deliverRange {P : Proto} (to : Side) (lo hi : Nat) (alt : P.Alt) : List (Move P) :=
  (List.range' lo (hi - lo)).map fun i => .deliver to i [] alt

def tickMoves {P : Proto} : List (Move P) :=
  [.advance resendUs, .call .a [] .tick, .call .b [] .tick, .advance sendUs, .call .a [] .tick, .call .b [] .tick]

def timedRound {P : Proto} (alt : P.Alt) (w : World P) : Option (World P) :=
  match run w tickMoves with
  | none => none
  | some w1 =>
    match run w1 (deliverRange .b w.a.out.length w1.a.out.length alt) with
    | none => none
    | some w2 => run w2 (deliverRange .a w.b.out.length w1.b.out.length alt)

def timedRounds {P : Proto} (alt : P.Alt) : Nat → World P → Option (World P)
  | 0, w => some w
  | k + 1, w =>
    match timedRound alt w with
    | none => none
    | some w1 => timedRounds alt k w1

/-! ## The fair suffix that delivers every datagram (C02 c)

State: the world and, per direction, how much of the sender's history has been delivered in the
suffix (`ca`: into `a`'s history, `cb`: into `b`'s).  One round: the ticks of `tickMoves`; then
everything `a` has sent and `b` has not been handed yet (what is left over from the previous round —
`a`'s answers while it processed deliveries — and the datagrams of `a`'s ticks) is delivered to `b`, in
order; then everything `b` has sent (its tick datagrams and its answers of this round) to `a`, in
order.  So every datagram sent in the suffix is delivered exactly once, in sending order. -/

structure FairState (P : Proto) where
  w : World P
  ca : Nat
  cb : Nat

/-- the suffix starts now: what was sent before is not delivered any more -/
def FairState.start {P : Proto} (w : World P) : FairState P := ⟨w, w.a.out.length, w.b.out.length⟩

def deliverRangeD {P : Proto} (to : Side) (lo hi : Nat) (draws : List Nat) (alt : P.Alt) : List (Move P) :=
  (List.range' lo (hi - lo)).map fun i => .deliver to i draws alt

def fairRoundT {P : Proto} (draws : List Nat) (alt : P.Alt) (s : FairState P) : Option (FairState P) :=
  match run s.w tickMoves with
  | none => none
  | some w1 =>
    match run w1 (deliverRangeD .b s.ca w1.a.out.length draws alt) with
    | none => none
    | some w2 =>
      match run w2 (deliverRangeD .a s.cb w2.b.out.length draws alt) with
      | none => none
      | some w3 => some ⟨w3, w1.a.out.length, w2.b.out.length⟩

def fairRoundsT {P : Proto} (draws : List Nat) (alt : P.Alt) : Nat → FairState P → Option (FairState P)
  | 0, s => some s
  | k + 1, s =>
    match fairRoundT draws alt s with
    | none => none
    | some s1 => fairRoundsT draws alt k s1

/-- both sides online; everything submitted has been handed over, nothing is unacknowledged or queued
and no resend is requested -/
def World.quiescent {P : Proto} (w : World P) : Prop :=
  w.b.deliveredVital = w.a.submittedVital ∧ w.a.deliveredVital = w.b.submittedVital ∧
  ∀ s, ∃ o, P.online (w.get s).conn = some o ∧ o.resendQueue = [] ∧ o.packet.chunks = [] ∧
    o.requestResend = false

/-! ## 0.6: an accepting side created by `Connection::new_accept_token`

The handshake was answered by a stateless listener: the accepting connection object `b` starts
online with the agreed token, and the history of its direction already holds the `ConnectAccept`
datagram(s) the listener sent (`k` copies, stamped with the counters 0 / 0). -/

def World.initAccept6 (now token k : Nat) : World (proto6 false) :=
  { a := { conn := Conn6.Conn.new }
    b := { conn := Conn6.Conn.newAcceptToken ⟨now, []⟩ token
           out := List.replicate k ⟨.control 0 (some token) .connectAccept, 0, 0⟩ }
    now := now }

/-! ## Example schedules (non-vacuity of the C01 theorems) -/

/-- after the handshake: three vital chunks and a non-vital one in two datagrams; the second
datagram arrives first (twice), the receiver asks for a resend, the resent chunks arrive, then the
delayed first datagram -/
def traffic (P : Proto) (alt : P.Alt) (first fb : Nat) : List (Move P) :=
  [.call .a [] (.send [1] true), .call .a [] (.send [2] true), .call .a [] .flush,
   .call .a [] (.send [3] true), .call .a [] (.send [9] false), .call .a [] .flush,
   .deliver .b (first + 1) [] alt, .deliver .b (first + 1) [] alt,
   .call .b [] .flush,
   .deliver .a fb [] alt,
   .call .a [] .flush,
   .deliver .b (first + 2) [] alt,
   .deliver .b first [] alt,
   .advance 600000, .call .b [] .tick, .deliver .a (fb + 1) [] alt,
   .call .b [] (.send [7] true), .call .b [] .flush, .deliver .a (fb + 2) [] alt]

def demo6 (tokenless : Bool) : List (Move (proto6 tokenless)) :=
  [.call .a [] .connect, .deliver .b 0 [12345] .exact, .deliver .a 0 [] .exact, .deliver .b 0 [] .exact] ++
  traffic (proto6 tokenless) .exact 2 1

def demo7 : List (Move proto7) :=
  [.call .a [111] .connect, .deliver .b 0 [222] (), .deliver .a 0 [] (), .deliver .b 1 [] (),
   .deliver .a 1 [] ()] ++ traffic proto7 () 2 2

/-- submitted by a / handed to b (vital, non-vital) / handed to a; `Ready` events of a -/
def summary {P : Proto} (w : World P) : List (List Bytes) × Nat :=
  ([w.a.submittedVital, w.b.deliveredVital, w.b.deliveredNonvital, w.a.deliveredVital], readyCount w.a.events)

/-- `new_accept_token`: the client connects, the listener's `ConnectAccept` reaches it, then traffic -/
def demoAccept6 : List (Move (proto6 false)) :=
  [.call .a [] .connect, .deliver .a 0 [] .exact] ++ traffic (proto6 false) .exact 2 1

/-- `quiescent` when a side may still be in its handshake: everything submitted has been handed over;
a side that is online has nothing unacknowledged or queued and requests no resend -/
def World.quiescentH {P : Proto} (w : World P) : Prop :=
  w.b.deliveredVital = w.a.submittedVital ∧ w.a.deliveredVital = w.b.submittedVital ∧
  ∀ s o, P.online (w.get s).conn = some o → o.resendQueue = [] ∧ o.packet.chunks = [] ∧
    o.requestResend = false

/-- `World.quiescent` as a computable check -/
def World.settled {P : Proto} (w : World P) : Bool :=
  w.b.deliveredVital == w.a.submittedVital && w.a.deliveredVital == w.b.submittedVital &&
  [Side.a, Side.b].all fun s => match P.online (w.get s).conn with
    | some o => o.resendQueue.isEmpty && o.packet.chunks.isEmpty && !o.requestResend
    | none => false

/-- the demo traffic plus one more vital chunk each way, not yet flushed: both sides online, not settled -/
def busy6 (tokenless : Bool) : List (Move (proto6 tokenless)) :=
  demo6 tokenless ++ [.call .a [] (.send [5] true), .call .b [] (.send [6] true)]

def busy7 : List (Move proto7) := demo7 ++ [.call .a [] (.send [5] true), .call .b [] (.send [6] true)]

/-! ## The online cores alone (first stage of the development, kept as a self-contained result)

`Core.Sys` is two `Online` states (indexed by `Bool`) without handshake and tokens; the moves use the
model functions `Online.send`, `flush`, `resend`, `feedAck`, `receive` directly, with clock 0 and an
inactive send timer.  H1 is a guard of `step`; H2 here is the cruder stamp-based condition "each side
has submitted fewer than 256 vital chunks since the datagram was sent". -/
namespace Core
open Tw.Time

structure Stamped where
  pkt : Flushed
  /-- vital chunks submitted by the sender / by its peer when the datagram was sent -/
  nSelf : Nat
  nPeer : Nat
  /-- vital chunks the sender had been handed when the datagram was sent -/
  dSelf : Nat
deriving Repr, DecidableEq

structure Sys where
  ep : Bool → Online
  /-- `net x`: everything endpoint `x` ever sent, oldest first -/
  net : Bool → List Stamped
  /-- vital payloads submitted by `x` / handed to `x`, in order -/
  sub : Bool → List Bytes
  del : Bool → List Bytes
  /-- non-vital payloads submitted by `x` / handed to `x` -/
  nvSub : Bool → List Bytes
  nvDel : Bool → List Bytes

def Sys.init : Sys := ⟨fun _ => .new, fun _ => [], fun _ => [], fun _ => [], fun _ => [], fun _ => []⟩

def upd {α : Type} (f : Bool → α) (x : Bool) (v : α) : Bool → α := fun y => if y = x then v else f y

inductive Move where
  | send (x : Bool) (data : Bytes) (vital : Bool)
  | flush (x : Bool)
  | resend (x : Bool)
  /-- endpoint `x` receives datagram `i` of its peer's history -/
  | deliver (x : Bool) (i : Nat)
deriving Repr, DecidableEq

def h1Limit : Nat := 512
def h2Limit : Nat := 256

/-- stamp the datagrams `x` sends now -/
def stamp (s : Sys) (x : Bool) (fl : List Flushed) : List Stamped :=
  fl.map fun f => ⟨f, (s.sub x).length, (s.sub (!x)).length, (s.del x).length⟩

def step (cfg : Cfg) (s : Sys) : Move → Option Sys
  | .send x data vital =>
    if vital && decide ((s.ep x).resendQueue.length ≥ h1Limit) then none
    else
      match (s.ep x).send cfg 0 data vital with
      | .error _ => none
      | .ok (_, .tooLongData, _) => some s
      | .ok (o, .ok, fl) =>
        some { s with
          ep := upd s.ep x o
          net := upd s.net x (s.net x ++ stamp s x fl)
          sub := if vital then upd s.sub x (s.sub x ++ [data]) else s.sub
          nvSub := if vital then s.nvSub else upd s.nvSub x (s.nvSub x ++ [data]) }
  | .flush x =>
    some { s with ep := upd s.ep x (s.ep x).flush.1, net := upd s.net x (s.net x ++ stamp s x (s.ep x).flush.2) }
  | .resend x =>
    match (s.ep x).resend cfg 0 .inactive with
    | .error _ => none
    | .ok (o, _, fl) => some { s with ep := upd s.ep x o, net := upd s.net x (s.net x ++ stamp s x fl) }
  | .deliver x i =>
    match (s.net (!x))[i]? with
    | none => none
    | some p =>
      if (s.sub (!x)).length - p.nSelf ≥ h2Limit ∨ (s.sub x).length - p.nPeer ≥ h2Limit then none
      else
        match (s.ep x).feedAck p.pkt.ack with
        | .error _ => none
        | .ok o1 =>
          match o1.receive cfg 0 .inactive p.pkt.requestResend p.pkt.chunks with
          | .error _ => none
          | .ok (o2, _, fl, evs) =>
            some { s with
              ep := upd s.ep x o2
              net := upd s.net x (s.net x ++ stamp s x fl)
              del := upd s.del x (s.del x ++ vitalPayloads evs)
              nvDel := upd s.nvDel x (s.nvDel x ++ nonvitalPayloads evs) }

def run (cfg : Cfg) : Sys → List Move → Option Sys
  | s, [] => some s
  | s, m :: ms =>
    match step cfg s m with
    | none => none
    | some s1 => run cfg s1 ms

end Core

end Tw.NetSim
