import Tw.Model.Conn

/-!
# Two online endpoints and an adversarial network (C01, online phase)

`Sys` is two `Online` states (indexed by `Bool`) plus, per endpoint, the **history** of every chunk
packet it ever handed to the network (monotone: delivering does not remove, so duplication,
reordering and delay are "deliver any index at any time", loss is "never deliver").  Ghost fields
record what the applications submitted and what they were handed.  Every datagram is stamped at
send time with the submission counters of both sides and the sender's delivered count; the stamps
are only used to state the delay assumption.

Moves use the real model functions (`Online.send`, `flush`, `resend`, `feedAck`, `receive`), with
clock 0 and an inactive send timer: timers only decide *when* the connection layer flushes or
resends, and here those are moves the adversary may make at any time.

Assumptions of C01 as guards of `step` (an inadmissible move yields `none`):
* H1 — a vital chunk is submitted only while fewer than 512 are unacknowledged (`resendQueue.length < 512`);
* H2 — a datagram is delivered only while each side has submitted fewer than 256 vital chunks since
  it was sent (then no sequence number it mentions is 1024 behind: at most 512 unacknowledged plus
  at most 255 chunks queued behind it in a packet, plus 255 in flight);
* H3 (the application drains every iterator) is built in: `deliver` hands over all events.
-/
namespace Tw.NetSim
open Tw.Conn Tw.Time

structure Stamped where
  pkt : Flushed
  /-- vital chunks submitted by the sender / by its peer when the datagram was sent -/
  nSelf : Nat
  nPeer : Nat
  /-- vital chunks the sender had been handed when the datagram was sent -/
  dSelf : Nat
deriving Repr, DecidableEq

structure Sys where
  ep : Bool → Online
  /-- `net x`: everything endpoint `x` ever sent, oldest first -/
  net : Bool → List Stamped
  /-- vital payloads submitted by `x` / handed to `x`, in order -/
  sub : Bool → List Bytes
  del : Bool → List Bytes
  /-- non-vital payloads submitted by `x` / handed to `x` -/
  nvSub : Bool → List Bytes
  nvDel : Bool → List Bytes

def Sys.init : Sys := ⟨fun _ => .new, fun _ => [], fun _ => [], fun _ => [], fun _ => [], fun _ => []⟩

def upd {α : Type} (f : Bool → α) (x : Bool) (v : α) : Bool → α := fun y => if y = x then v else f y

inductive Move where
  | send (x : Bool) (data : Bytes) (vital : Bool)
  | flush (x : Bool)
  | resend (x : Bool)
  /-- endpoint `x` receives datagram `i` of its peer's history -/
  | deliver (x : Bool) (i : Nat)
deriving Repr, DecidableEq

def h1Limit : Nat := 512
def h2Limit : Nat := 256

/-- stamp the datagrams `x` sends now -/
def stamp (s : Sys) (x : Bool) (fl : List Flushed) : List Stamped :=
  fl.map fun f => ⟨f, (s.sub x).length, (s.sub (!x)).length, (s.del x).length⟩

def vitalPayloads : List Event → List Bytes
  | [] => []
  | .chunk d true :: es => d :: vitalPayloads es
  | _ :: es => vitalPayloads es

def nonvitalPayloads : List Event → List Bytes
  | [] => []
  | .chunk d false :: es => d :: nonvitalPayloads es
  | _ :: es => nonvitalPayloads es

def step (cfg : Cfg) (s : Sys) : Move → Option Sys
  | .send x data vital =>
    if vital && decide ((s.ep x).resendQueue.length ≥ h1Limit) then none
    else
      match (s.ep x).send cfg 0 data vital with
      | .error _ => none
      | .ok (_, .tooLongData, _) => some s
      | .ok (o, .ok, fl) =>
        some { s with
          ep := upd s.ep x o
          net := upd s.net x (s.net x ++ stamp s x fl)
          sub := if vital then upd s.sub x (s.sub x ++ [data]) else s.sub
          nvSub := if vital then s.nvSub else upd s.nvSub x (s.nvSub x ++ [data]) }
  | .flush x =>
    some { s with ep := upd s.ep x (s.ep x).flush.1, net := upd s.net x (s.net x ++ stamp s x (s.ep x).flush.2) }
  | .resend x =>
    match (s.ep x).resend cfg 0 .inactive with
    | .error _ => none
    | .ok (o, _, fl) => some { s with ep := upd s.ep x o, net := upd s.net x (s.net x ++ stamp s x fl) }
  | .deliver x i =>
    match (s.net (!x))[i]? with
    | none => none
    | some p =>
      if (s.sub (!x)).length - p.nSelf ≥ h2Limit ∨ (s.sub x).length - p.nPeer ≥ h2Limit then none
      else
        match (s.ep x).feedAck p.pkt.ack with
        | .error _ => none
        | .ok o1 =>
          match o1.receive cfg 0 .inactive p.pkt.requestResend p.pkt.chunks with
          | .error _ => none
          | .ok (o2, _, fl, evs) =>
            some { s with
              ep := upd s.ep x o2
              net := upd s.net x (s.net x ++ stamp s x fl)
              del := upd s.del x (s.del x ++ vitalPayloads evs)
              nvDel := upd s.nvDel x (s.nvDel x ++ nonvitalPayloads evs) }

def run (cfg : Cfg) : Sys → List Move → Option Sys
  | s, [] => some s
  | s, m :: ms =>
    match step cfg s m with
    | none => none
    | some s1 => run cfg s1 ms

end Tw.NetSim
