/-
Pieces shared by the models of `net/src/protocol.rs` (0.6, `Tw.Packet6`) and `net/src/protocol7.rs`
(0.7, `Tw.Packet7`): warnings, slice provenance, tokens, the sequential bounded buffer, the UTF-8
validity test used by `has_token_heuristic`, and the chunk iterator (`ChunksIter`, textually identical
in both files) parametrised by the protocol's `read_chunk_header`.

No Mathlib; executable; total.  Rust panics are explicit outcomes.
-/
namespace Tw.Packet

/-- union of `protocol::Warning` and `protocol7::Warning` (same names; 0.7 has `ConnlessFlags` and
lacks the three marked 0.6-only) -/
inductive Warning where
  | chunkHeaderPadding
  | chunkHeaderSequence               -- 0.6 only
  | chunksNoChunks
  | chunksNumChunks
  | chunksUnknownData
  | connlessPadding                   -- 0.6 only
  | controlConnectMissingTokenMagic   -- 0.6 only
  | controlExcessData
  | controlFlags
  | controlNulTermination
  | controlNumChunks
  | packetHeaderPadding
  | connlessFlags                     -- 0.7 only
  deriving Repr, DecidableEq, BEq

def Warning.name : Warning → String
  | .chunkHeaderPadding => "ChunkHeaderPadding"
  | .chunkHeaderSequence => "ChunkHeaderSequence"
  | .chunksNoChunks => "ChunksNoChunks"
  | .chunksNumChunks => "ChunksNumChunks"
  | .chunksUnknownData => "ChunksUnknownData"
  | .connlessPadding => "ConnlessPadding"
  | .controlConnectMissingTokenMagic => "ControlConnectMissingTokenMagic"
  | .controlExcessData => "ControlExcessData"
  | .controlFlags => "ControlFlags"
  | .controlNulTermination => "ControlNulTermination"
  | .controlNumChunks => "ControlNumChunks"
  | .packetHeaderPadding => "PacketHeaderPadding"
  | .connlessFlags => "ConnlessFlags"

/-- which caller-supplied buffer a returned slice points into -/
inductive Src where
  | input      -- the datagram passed to `read`
  | scratch    -- the decompression buffer passed to `read`
  deriving Repr, DecidableEq, BEq

def Src.name : Src → String
  | .input => "in"
  | .scratch => "scratch"

/-- a four-byte token (`Token(pub [u8; 4])`) -/
structure Token where
  b0 : UInt8
  b1 : UInt8
  b2 : UInt8
  b3 : UInt8
  deriving Repr, DecidableEq, BEq

def Token.toList (t : Token) : List UInt8 := [t.b0, t.b1, t.b2, t.b3]

/-- `BufferRef::write` on a buffer of capacity `cap` holding `acc`: `none` = `CapacityError`
(the partially written bytes are not part of any result the callers return). -/
def bufWrite (cap : Nat) (acc bytes : List UInt8) : Option (List UInt8) :=
  if acc.length + bytes.length ≤ cap then some (acc ++ bytes) else none

/-- position of the first NUL byte, or the length (`iter().position(|&b| b == 0).unwrap_or(len)`) -/
def nulPos : List UInt8 → Nat
  | [] => 0
  | b :: bs => if b = 0 then 0 else nulPos bs + 1

/-- `bytes.iter().all(|&b| b == v)` -/
def allEq (v : UInt8) (bs : List UInt8) : Bool := bs.all (· = v)

/-! ### UTF-8 validity (`str::from_utf8(..).is_ok()`): Unicode table 3-7 -/

def isCont (b : UInt8) : Bool := 0x80 ≤ b ∧ b ≤ 0xBF

def validUtf8 : List UInt8 → Bool
  | [] => true
  | b0 :: rest =>
    if b0 ≤ 0x7F then validUtf8 rest
    else if 0xC2 ≤ b0 ∧ b0 ≤ 0xDF then
      match rest with
      | b1 :: r => isCont b1 && validUtf8 r
      | _ => false
    else if 0xE0 ≤ b0 ∧ b0 ≤ 0xEF then
      match rest with
      | b1 :: b2 :: r =>
        (if b0 = 0xE0 then decide (0xA0 ≤ b1 ∧ b1 ≤ 0xBF)
         else if b0 = 0xED then decide (0x80 ≤ b1 ∧ b1 ≤ 0x9F)
         else isCont b1) && isCont b2 && validUtf8 r
      | _ => false
    else if 0xF0 ≤ b0 ∧ b0 ≤ 0xF4 then
      match rest with
      | b1 :: b2 :: b3 :: r =>
        (if b0 = 0xF0 then decide (0x90 ≤ b1 ∧ b1 ≤ 0xBF)
         else if b0 = 0xF4 then decide (0x80 ≤ b1 ∧ b1 ≤ 0x8F)
         else isCont b1) && isCont b2 && isCont b3 && validUtf8 r
      | _ => false
    else false

/-! ### Chunk headers and the chunk iterator -/

structure ChunkHeader where
  flags : Nat   -- u8 (2 bits used)
  size : Nat    -- u16 (10 bits in 0.6, 12 bits in 0.7)
  deriving Repr, DecidableEq, BEq

structure ChunkHeaderVital where
  h : ChunkHeader
  sequence : Nat  -- u16 (10 bits)
  deriving Repr, DecidableEq, BEq

/-- what differs between the two protocols for `ChunksIter` -/
structure ChunkCodec where
  /-- `read_chunk_header`: `none` = too short (no warning was emitted);
  `some (header, sequence, warnings)` -/
  readHeader : List UInt8 → Option (ChunkHeader × Option Nat × List Warning)
  headerSize : Nat        -- CHUNK_HEADER_SIZE
  headerSizeVital : Nat   -- CHUNK_HEADER_SIZE_VITAL
  resendFlag : Nat        -- CHUNKFLAG_RESEND

/-- `Chunk` plus the offset of `data` inside the payload the iterator was created on -/
structure Chunk where
  data : List UInt8
  vital : Option (Nat × Bool)   -- (sequence, resend)
  off : Nat
  deriving Repr, DecidableEq, BEq

/-- `ChunksIter` -/
structure Iter where
  data : List UInt8
  initialLen : Nat
  numRemaining : Int        -- i32; starts ≤ 255 and is decremented at most once per two bytes
  checked : Bool
  deriving Repr, DecidableEq

def Iter.new (data : List UInt8) (numChunks : Nat) : Iter :=
  { data := data, initialLen := data.length, numRemaining := numChunks, checked := false }

/-- `ChunksIter::pos` -/
def Iter.pos (it : Iter) : Nat := it.initialLen - it.data.length

def ChunkCodec.hdrLen (c : ChunkCodec) (vital : Bool) : Nat :=
  if vital then c.headerSizeVital else c.headerSize

/-- `ChunksIter::next_warn`: the chunk (if any), the warnings emitted by this call in order, the
new iterator state. -/
def Iter.next (c : ChunkCodec) (it : Iter) : Option Chunk × List Warning × Iter :=
  match it.data with
  | [] =>
    if it.checked then (none, [], it)
    else (none, if it.numRemaining ≠ 0 then [.chunksNumChunks] else [], { it with checked := true })
  | _ :: _ =>
    match c.readHeader it.data with
    | none => (none, [.chunksUnknownData], { it with data := [] })
    | some (h, seq, ws) =>
      let hl := c.hdrLen seq.isSome
      let rest := it.data.drop hl
      if rest.length < h.size then (none, ws ++ [.chunksUnknownData], { it with data := [] })
      else
        (some { data := rest.take h.size,
                vital := seq.map fun s => (s, h.flags &&& c.resendFlag ≠ 0),
                off := it.pos + hl },
         ws,
         { it with data := rest.drop h.size, numRemaining := it.numRemaining - 1 })

/-- `while let Some(c) = it.next_warn(w)` with `fuel` iterations allowed; the final `none` call is
included (so its `ChunksNumChunks` / `ChunksUnknownData` warning is collected).
`fuelOut = true` iff the fuel ran out before `next_warn` returned `None`. -/
def Iter.drainFuel (c : ChunkCodec) : Nat → Iter → List Chunk × List Warning × Iter × Bool
  | 0, it => ([], [], it, true)
  | fuel + 1, it =>
    match it.next c with
    | (none, ws, it') => ([], ws, it', false)
    | (some ch, ws, it') =>
      let (chs, ws', it'', out) := Iter.drainFuel c fuel it'
      (ch :: chs, ws ++ ws', it'', out)

/-- all chunks of the iterator: each `Some` shortens `data` by at least the header size, so
`data.length + 1` calls suffice (theorem `drain_fuel_suffices`). -/
def Iter.drain (c : ChunkCodec) (it : Iter) : List Chunk × List Warning × Iter × Bool :=
  Iter.drainFuel c (it.data.length + 1) it

/-- `for _ in 0..n { if it.next_warn(&mut Ignore).is_none() { return false } }` -/
def Iter.skip (c : ChunkCodec) : Nat → Iter → Option Iter
  | 0, it => some it
  | n + 1, it =>
    match it.next c with
    | (none, _, _) => none
    | (some _, _, it') => Iter.skip c n it'

/-- where the single byte-slice field of a parsed packet lives -/
structure Loc where
  src : Src
  off : Nat
  deriving Repr, DecidableEq, BEq

/-- the bytes a `(loc, len)` pair denotes -/
def Loc.resolve (l : Loc) (len : Nat) (input scratch : List UInt8) : List UInt8 :=
  ((match l.src with | .input => input | .scratch => scratch).drop l.off).take len

end Tw.Packet
