/-
Model of `snapshot/src/snap.rs` + `snapshot/src/format.rs` (+ `read_int.rs`): raw snapshots,
snapshot deltas, their integer and byte wire forms, snapshots with extended (UUID) item types,
the builder and `recycle`.  Also a model of what the bundled C++ reference
(`snapshot/reference/sys/src/ddnet/snapshot.cpp`) produces for `CreateDelta` and its builder.

Conventions (as in `Model/Packer`): an `i32` is an `Int` in `[-2^31, 2^31)`; `u16` values are
`Nat`s `< 65536`.  A `BTreeMap<i32, _>` is an association list sorted strictly ascending by the
*signed* key (keys whose type is `>= 0x8000` are negative and come first).  `RawSnap.buf` is not
represented: only the per-item data is observable (`crc` is a commutative sum, the limit checks
use `buf.len()` = the sum of the item lengths).  A `Uuid` is the integer `0 ≤ u < 2^128` whose
big-endian bytes are the UUID's bytes (so `BTreeMap<Uuid, _>` order = integer order).

Every reachable Rust panic site is an explicit `panic` outcome.
-/
import Tw.Model.Packer
import Tw.Gen.Snap

namespace Tw.Snap

/-! ### constants (regenerated from the sources) -/

def maxSize : Nat := Tw.Gen.Snap.MAX_SNAPSHOT_SIZE
def maxItems : Nat := Tw.Gen.Snap.MAX_SNAPSHOT_ITEMS
def typeIdEx : Nat := Tw.Gen.Snap.TYPE_ID_EX
def offsetExt : Nat := Tw.Gen.Snap.OFFSET_EXTENDED_TYPE_ID

/-! ### errors, warnings, outcomes -/

inductive Error where
  | unexpectedEnd | intOutOfRange | deletedItemsUnpacking | itemDiffsUnpacking | typeIdRange
  | idRange | negativeSize | tooLongDiff | tooLongSnap | tooManyItems | deltaDifferingSizes
  | offsetsUnpacking | invalidOffset | itemsUnpacking | duplicateKey | duplicateUuidType
  | invalidUuidType | missingUuidType
  deriving DecidableEq, Repr, Inhabited

def Error.name : Error → String
  | .unexpectedEnd => "UnexpectedEnd" | .intOutOfRange => "IntOutOfRange"
  | .deletedItemsUnpacking => "DeletedItemsUnpacking" | .itemDiffsUnpacking => "ItemDiffsUnpacking"
  | .typeIdRange => "TypeIdRange" | .idRange => "IdRange" | .negativeSize => "NegativeSize"
  | .tooLongDiff => "TooLongDiff" | .tooLongSnap => "TooLongSnap" | .tooManyItems => "TooManyItems"
  | .deltaDifferingSizes => "DeltaDifferingSizes" | .offsetsUnpacking => "OffsetsUnpacking"
  | .invalidOffset => "InvalidOffset" | .itemsUnpacking => "ItemsUnpacking"
  | .duplicateKey => "DuplicateKey" | .duplicateUuidType => "DuplicateUuidType"
  | .invalidUuidType => "InvalidUuidType" | .missingUuidType => "MissingUuidType"

inductive BuilderError where
  | duplicateKey | tooLongSnap | tooManyItems
  deriving DecidableEq, Repr, Inhabited

def BuilderError.name : BuilderError → String
  | .duplicateKey => "DuplicateKey" | .tooLongSnap => "TooLongSnap" | .tooManyItems => "TooManyItems"

/-- `impl From<BuilderError> for Error` -/
def BuilderError.toError : BuilderError → Error
  | .duplicateKey => .duplicateKey | .tooLongSnap => .tooLongSnap | .tooManyItems => .tooManyItems

inductive Warning where
  | packer (w : Tw.Packer.Warning)
  | nonZeroPadding | duplicateDelete | duplicateUpdate | unknownDelete | deleteUpdate
  | numUpdatedItems | excessSnapData | excessUuidItemData
  deriving DecidableEq, Repr, Inhabited

def Warning.name : Warning → String
  | .packer w => "Packer:" ++ w.name
  | .nonZeroPadding => "NonZeroPadding" | .duplicateDelete => "DuplicateDelete"
  | .duplicateUpdate => "DuplicateUpdate" | .unknownDelete => "UnknownDelete"
  | .deleteUpdate => "DeleteUpdate" | .numUpdatedItems => "NumUpdatedItems"
  | .excessSnapData => "ExcessSnapData" | .excessUuidItemData => "ExcessUuidItemData"

/-- Outcome of a fallible operation: a value, an error value, or a Rust panic (with its site). -/
inductive Res (α : Type) where
  | ok (a : α)
  | err (e : Error)
  | panic (site : String)
  deriving DecidableEq, Repr

def Res.isPanic {α : Type} : Res α → Bool
  | .panic _ => true
  | _ => false

/-! ### 32-bit arithmetic and keys -/

/-- reduce an integer to the `i32` with the same low 32 bits (`as i32`) -/
def wrap (v : Int) : Int :=
  if v % 4294967296 < 2147483648 then v % 4294967296 else v % 4294967296 - 4294967296

def wrapAdd (a b : Int) : Int := wrap (a + b)
def wrapSub (a b : Int) : Int := wrap (a - b)

/-- the value is an `i32` -/
def I32 (v : Int) : Prop := -2147483648 ≤ v ∧ v < 2147483648
instance (v : Int) : Decidable (I32 v) := by unfold I32; infer_instance

/-- `format::key(raw_type_id, id)` for `u16` arguments -/
def keyOf (t id : Nat) : Int := wrap ((t : Int) * 65536 + (id : Int))
/-- `format::key_to_raw_type_id` -/
def keyType (k : Int) : Nat := ((k % 4294967296) / 65536).toNat
/-- `format::key_to_id` -/
def keyId (k : Int) : Nat := ((k % 4294967296) % 65536).toNat

/-! ### sorted association lists (`BTreeMap<i32, V>`, `BTreeSet<i32>`) -/

/-- `BTreeMap::insert`: the new binding replaces an old one -/
def minsert {α : Type} (k : Int) (v : α) : List (Int × α) → List (Int × α)
  | [] => [(k, v)]
  | (k', v') :: m =>
    if k < k' then (k, v) :: (k', v') :: m
    else if k = k' then (k, v) :: m
    else (k', v') :: minsert k v m

/-- `BTreeMap::get` -/
def mfind {α : Type} (k : Int) : List (Int × α) → Option α
  | [] => none
  | (k', v) :: m => if k = k' then some v else mfind k m

/-- `BTreeSet::insert` -/
def sinsert (k : Int) : List Int → List Int
  | [] => [k]
  | k' :: m =>
    if k < k' then k :: k' :: m
    else if k = k' then k' :: m
    else k' :: sinsert k m

/-- strictly ascending keys -/
def Sorted {α : Type} (m : List (Int × α)) : Prop := (m.map Prod.fst).Pairwise (· < ·)
instance {α : Type} (m : List (Int × α)) : Decidable (Sorted m) := by unfold Sorted; infer_instance

def SortedSet (m : List Int) : Prop := m.Pairwise (· < ·)
instance (m : List Int) : Decidable (SortedSet m) := by unfold SortedSet; infer_instance

/-! ### `RawSnap` -/

abbrev Items := List (Int × List Int)

structure RawSnap where
  /-- `(key, data)` in ascending signed key order -/
  items : Items
  deriving DecidableEq, Repr, Inhabited

def RawSnap.empty : RawSnap := ⟨[]⟩

/-- `buf.len()` -/
def dataLen (m : Items) : Nat := (m.map (fun p => p.2.length)).sum

/-- `RawSnap::serialized_ints_size` (bytes) -/
def serializedSize (numItems numData : Nat) : Nat := 4 * (2 + numItems + numItems + numData)

def RawSnap.size (s : RawSnap) : Nat := serializedSize s.items.length (dataLen s.items)

/-- `RawSnap::item` -/
def RawSnap.item (s : RawSnap) (t id : Nat) : Option (List Int) := mfind (keyOf t id) s.items

/-- The limit checks of `prepare_item_vacant` for a new item of `size` integers. -/
def vacantCheck (m : Items) (size : Nat) : Option BuilderError :=
  if m.length + 1 > maxItems then some .tooManyItems
  else if serializedSize (m.length + 1) (dataLen m + size) > maxSize then some .tooLongSnap
  else none

/-- `RawSnap::add_item` (= `RawBuilder::add_item`), keyed by the combined key -/
def RawSnap.addItem (s : RawSnap) (k : Int) (data : List Int) : Except BuilderError RawSnap :=
  match mfind k s.items with
  | some _ => .error .duplicateKey
  | none =>
    match vacantCheck s.items data.length with
    | some e => .error e
    | none => .ok ⟨minsert k data s.items⟩

/-- `RawSnap::crc`: wrapping sum of all data words -/
def RawSnap.crc (s : RawSnap) : Int := wrap ((s.items.map (fun p => p.2.sum)).sum)

/-- well-formed raw snapshot: what every `RawSnap` value the API hands out satisfies -/
def RawSnap.WF (s : RawSnap) : Prop :=
  Sorted s.items ∧ (∀ p ∈ s.items, I32 p.1 ∧ ∀ v ∈ p.2, I32 v) ∧
  s.items.length ≤ maxItems ∧ s.size ≤ maxSize

instance (s : RawSnap) : Decidable s.WF := by unfold RawSnap.WF; infer_instance

/-! #### integer wire form -/

/-- The order `write_impl` emits the items in: `sort_unstable_by_key(|&k| k as u32)`.  On a list
sorted by signed key this is: the non-negative keys, then the negative ones. -/
def unsignedOrder (m : Items) : Items :=
  m.filter (fun p => decide (0 ≤ p.1)) ++ m.filter (fun p => decide (p.1 < 0))

/-- the offset table: cumulative `4 * (len + 1)` -/
def offsetsOf : Nat → Items → List Int
  | _, [] => []
  | off, (_, d) :: r => (off : Int) :: offsetsOf (off + 4 * (d.length + 1)) r

def flatItems (m : Items) : List Int := m.flatMap (fun p => p.1 :: p.2)

/-- All integers `RawSnap::write_impl` passes to `write_int`; `none` = one of its assertions
fails (`offsets.len() <= MAX_SNAPSHOT_ITEMS`, `written <= MAX_SNAPSHOT_SIZE`). -/
def RawSnap.writeInts (s : RawSnap) : Option (List Int) :=
  if s.items.length > maxItems then none
  else
    let ord := unsignedOrder s.items
    let out := (((dataLen s.items + s.items.length) * 4 : Nat) : Int) :: (s.items.length : Int) ::
      (offsetsOf 0 ord ++ flatItems ord)
    if 4 * out.length > maxSize then none else some out

inductive WriteRes (α : Type) where
  | ok (a : α)
  | capacity
  | panic
  deriving DecidableEq, Repr

/-- `RawSnap::write_to_ints` into a buffer of `cap` integers -/
def RawSnap.writeToInts (s : RawSnap) (cap : Nat) : WriteRes (List Int) :=
  if s.items.length > maxItems then .panic
  else
    let ord := unsignedOrder s.items
    let out := (((dataLen s.items + s.items.length) * 4 : Nat) : Int) :: (s.items.length : Int) ::
      (offsetsOf 0 ord ++ flatItems ord)
    if out.length > cap then .capacity
    else if 4 * out.length > maxSize then .panic else .ok out

def packInts (xs : List Int) : List UInt8 := xs.flatMap Tw.Packer.writeInt

/-- `RawSnap::write` into a packer with `cap` bytes -/
def RawSnap.writeBytes (s : RawSnap) (cap : Nat) : WriteRes (List UInt8) :=
  if s.items.length > maxItems then .panic
  else
    let ord := unsignedOrder s.items
    let out := (((dataLen s.items + s.items.length) * 4 : Nat) : Int) :: (s.items.length : Int) ::
      (offsetsOf 0 ord ++ flatItems ord)
    let bs := packInts out
    if bs.length > cap then .capacity
    else if 4 * out.length > maxSize then .panic else .ok bs

/-- `self.add_item(raw_type_id, id, &item_data[prev + 1..offset])` of `read_from_ints`, with the
slice indexing made explicit (`prev < off ≤ itemData.length` always holds at the call). -/
def addAt (itemData : List Int) (prev off : Nat) (s : RawSnap) : Res RawSnap :=
  match itemData[prev]? with
  | none => .panic "read_from_ints:index"
  | some k =>
    if off > itemData.length ∨ off < prev + 1 then .panic "read_from_ints:slice"
    else
      match s.addItem k ((itemData.drop (prev + 1)).take (off - (prev + 1))) with
      | .error e => .err e.toError
      | .ok s' => .ok s'

/-- The `loop` of `read_from_ints` after the first offset: `prev` = `prev_offset`. -/
def readItemsLoop (itemData : List Int) (itemsLen : Nat) : List Int → Nat → RawSnap → Res RawSnap
  | [], prev, s =>
    -- `finished`: `offset = items_len`
    if itemsLen ≤ prev then .err .invalidOffset
    else addAt itemData prev itemsLen s
  | o :: os, prev, s =>
    if o < 0 then .err .invalidOffset
    else if o % 4 ≠ 0 then .err .invalidOffset
    else
      let off := o.toNat / 4
      if off ≤ prev then .err .invalidOffset
      else if off > itemsLen then .err .invalidOffset
      else
        match addAt itemData prev off s with
        | .ok s' => readItemsLoop itemData itemsLen os off s'
        | .err e => .err e
        | .panic p => .panic p

/-- `RawSnap::read_from_ints` -/
def RawSnap.readFromInts (data : List Int) : Res (RawSnap × List Warning) :=
  match data with
  | [] => .err .unexpectedEnd
  | ds :: rest =>
    if ds < 0 then .err .intOutOfRange
    else
      match rest with
      | [] => .err .unexpectedEnd
      | n :: body =>
        if n < 0 then .err .intOutOfRange
        else if body.length < n.toNat then .err .offsetsUnpacking
        else if ds % 4 ≠ 0 then .err .invalidOffset
        else
          let itemsLen := ds.toNat / 4
          if n.toNat + itemsLen > body.length then .err .itemsUnpacking
          else
            let ws := if n.toNat + itemsLen < body.length then [Warning.excessSnapData] else []
            let offsets := body.take n.toNat
            let itemData := (body.drop n.toNat).take itemsLen
            match offsets with
            | [] => if itemsLen ≠ 0 then .err .invalidOffset else .ok (RawSnap.empty, ws)
            | o :: os =>
              if o < 0 then .err .invalidOffset
              else if o % 4 ≠ 0 then .err .invalidOffset
              else if o.toNat / 4 ≠ 0 then .err .invalidOffset
              else
                match readItemsLoop itemData itemsLen os 0 RawSnap.empty with
                | .ok s => .ok (s, ws)
                | .err e => .err e
                | .panic p => .panic p

/-- The `while !unpacker.is_empty()` loop of `RawSnap::read`; `fuel` ≥ number of bytes suffices
(every successful `read_int` consumes at least one byte). -/
def decodeInts : Nat → List UInt8 → List Int × List Warning
  | 0, _ => ([], [])
  | f + 1, bs =>
    match bs with
    | [] => ([], [])
    | _ :: _ =>
      match Tw.Packer.readInt bs with
      | none => ([], [Warning.excessSnapData])
      | some (v, rest, w) =>
        let r := decodeInts f rest
        (v :: r.1, w.map Warning.packer ++ r.2)

/-- `RawSnap::read` -/
def RawSnap.readBytes (bs : List UInt8) : Res (RawSnap × List Warning) :=
  let r := decodeInts bs.length bs
  match RawSnap.readFromInts r.1 with
  | .ok (s, ws) => .ok (s, r.2 ++ ws)
  | .err e => .err e
  | .panic p => .panic p

/-! ### `Delta` -/

structure Delta where
  /-- `deleted_items: BTreeSet<i32>` -/
  deleted : List Int
  /-- `updated_items` with the ranges of `buf` resolved -/
  updated : Items
  deriving DecidableEq, Repr, Inhabited

def Delta.empty : Delta := ⟨[], []⟩

/-- `format::create_item_delta`; `none` = `Err(DeltaDifferingSizes)` -/
def createItemDelta (from_ : Option (List Int)) (to : List Int) : Option (List Int) :=
  match from_ with
  | none => some to
  | some f => if f.length ≠ to.length then none else some (List.zipWith wrapSub to f)

/-- second loop of `Delta::create_raw`; `none` = the `unwrap_or_else(|_| panic!(…))` fires -/
def createUpdates (from_ : Items) : Items → Option Items
  | [] => some []
  | (k, d) :: r =>
    match createItemDelta (mfind k from_) d with
    | none => none
    | some x =>
      match createUpdates from_ r with
      | none => none
      | some xs => some ((k, x) :: xs)

/-- `Delta::create_raw`; `none` = panic (item sizes differ) -/
def createDelta (a b : RawSnap) : Option Delta :=
  match createUpdates a.items b.items with
  | none => none
  | some u => some ⟨(a.items.filter (fun p => (mfind p.1 b.items).isNone)).map Prod.fst, u⟩

/-- `od` is absent or has length `n` -/
def lenAgree (od : Option (List Int)) (n : Nat) : Bool :=
  match od with
  | some d => d.length == n
  | none => true

/-- every key present in both snapshots has the same length in both -/
def SizesAgree (a b : RawSnap) : Prop :=
  ∀ p ∈ b.items, lenAgree (mfind p.1 a.items) p.2.length = true

instance (a b : RawSnap) : Decidable (SizesAgree a b) := by unfold SizesAgree; infer_instance

/-- `format::apply_item_delta` for `delta.len() == out.len()`: `none` = `DeltaDifferingSizes` -/
def applyItemDelta (in_ : Option (List Int)) (delta : List Int) : Option (List Int) :=
  match in_ with
  | none => some delta
  | some i => if i.length ≠ delta.length then none else some (List.zipWith wrapAdd i delta)

/-- first loop of `RawSnap::read_with_delta`: copy the undeleted items of `from`, counting the
deletions.  (`prepare_item` always finds a vacant entry here because the keys of a map are
distinct; the occupied case is still modelled: `copy_from_slice` panics on a length mismatch.) -/
def copyUndeleted (deleted : List Int) : Items → Items → Nat → Res (Items × Nat)
  | [], out, n => .ok (out, n)
  | (k, d) :: r, out, n =>
    if deleted.contains k then copyUndeleted deleted r out (n + 1)
    else
      match mfind k out with
      | some old =>
        if old.length ≠ d.length then .panic "read_with_delta:copy_from_slice"
        else copyUndeleted deleted r (minsert k d out) n
      | none =>
        match vacantCheck out d.length with
        | some e => .err e.toError
        | none => copyUndeleted deleted r (minsert k d out) n

/-- second loop of `RawSnap::read_with_delta` (`prepare_item` + `apply_item_delta`). -/
def applyUpdates (from_ : Items) : Items → Items → Res Items
  | [], out => .ok out
  | (k, diff) :: r, out =>
    match mfind k out with
    | some old =>
      -- occupied entry: `prepare_item` hands out the *old* slot; a size mismatch is an error
      -- (since the fix of D19; it used to trip `assert!(delta.len() == out.len())`)
      if diff.length ≠ old.length then .err .deltaDifferingSizes
      else
        match applyItemDelta (mfind k from_) diff with
        | none => .err .deltaDifferingSizes
        | some v => applyUpdates from_ r (minsert k v out)
    | none =>
      match vacantCheck out diff.length with
      | some e => .err e.toError
      | none =>
        match applyItemDelta (mfind k from_) diff with
        | none => .err .deltaDifferingSizes
        | some v => applyUpdates from_ r (minsert k v out)

/-- `RawSnap::read_with_delta` -/
def applyDelta (a : RawSnap) (d : Delta) : Res (RawSnap × List Warning) :=
  match copyUndeleted d.deleted a.items [] 0 with
  | .err e => .err e
  | .panic p => .panic p
  | .ok (out, n) =>
    let ws := if n ≠ d.deleted.length then [Warning.unknownDelete] else []
    match applyUpdates a.items d.updated out with
    | .err e => .err e
    | .panic p => .panic p
    | .ok out' => .ok (⟨out'⟩, ws)

/-! #### delta wire forms -/

/-- per-item part of `Delta::write_impl`; `none` = `assert!(size.usize() == data.len())` fails -/
def writeUpdates (objSize : Nat → Option Nat) : Items → Option (List Int)
  | [] => some []
  | (k, d) :: r =>
    match writeUpdates objSize r with
    | none => none
    | some rest =>
      match objSize (keyType k) with
      | some sz =>
        if sz ≠ d.length then none
        else some ((keyType k : Int) :: (keyId k : Int) :: (d ++ rest))
      | none => some ((keyType k : Int) :: (keyId k : Int) :: (d.length : Int) :: (d ++ rest))

/-- `Delta::write_impl`: all integers written; `none` = assertion panic -/
def Delta.writeInts (objSize : Nat → Option Nat) (d : Delta) : Option (List Int) :=
  match writeUpdates objSize d.updated with
  | none => none
  | some u => some ((d.deleted.length : Int) :: (d.updated.length : Int) :: 0 :: (d.deleted ++ u))

/-- the object-size table agrees with the items' lengths -/
def szOk (osz : Option Nat) (n : Nat) : Bool :=
  match osz with
  | some sz => sz == n
  | none => true

def SizesOk (objSize : Nat → Option Nat) (m : Items) : Prop :=
  ∀ p ∈ m, szOk (objSize (keyType p.1)) p.2.length = true

instance (objSize : Nat → Option Nat) (m : Items) : Decidable (SizesOk objSize m) := by
  unfold SizesOk; infer_instance

/-- well-formed delta: what `Delta::create` produces and what `Delta::read` accepts without a
warning (sorted sets/maps of `i32` data, no key both deleted and updated, sizes that fit) -/
def Delta.WF (d : Delta) : Prop :=
  SortedSet d.deleted ∧ (∀ k ∈ d.deleted, I32 k) ∧ Sorted d.updated ∧
  (∀ p ∈ d.updated, I32 p.1 ∧ (∀ x ∈ p.2, I32 x) ∧ p.1 ∉ d.deleted) ∧
  d.deleted.length < 2147483648 ∧ d.updated.length < 2147483648 ∧ dataLen d.updated < 2147483648

instance (d : Delta) : Decidable d.WF := by unfold Delta.WF; infer_instance

/-- `trait ReadInt`: the two kinds of input a delta is read from -/
inductive Src where
  | ints (l : List Int)
  | bytes (l : List UInt8)
  deriving Repr, DecidableEq

def Src.size : Src → Nat
  | .ints l => l.length
  | .bytes l => l.length

def Src.isEmpty : Src → Bool
  | .ints l => l.isEmpty
  | .bytes l => l.isEmpty

/-- `ReadInt::read_int`; `none` = `UnexpectedEnd` -/
def Src.readInt : Src → Option (Int × Src × List Warning)
  | .ints [] => none
  | .ints (x :: r) => some (x, .ints r, [])
  | .bytes b =>
    match Tw.Packer.readInt b with
    | none => none
    | some (v, rest, ws) => some (v, .bytes rest, ws.map Warning.packer)

/-- `for _ in 0..num_deleted_items { deleted_items.insert(read_int?) }` -/
def readKeys : Nat → Src → List Int → List Warning → Option (List Int × Src × List Warning)
  | 0, src, acc, ws => some (acc, src, ws)
  | n + 1, src, acc, ws =>
    match src.readInt with
    | none => none
    | some (v, src', w) => readKeys n src' (sinsert v acc) (ws ++ w)

/-- `for _ in 0..size { buf.push(read_int?) }` -/
def readData : Nat → Src → Option (List Int × Src × List Warning)
  | 0, src => some ([], src, [])
  | n + 1, src =>
    match src.readInt with
    | none => none
    | some (v, src', w) =>
      match readData n src' with
      | none => none
      | some (vs, src'', w') => some (v :: vs, src'', w ++ w')

/-- The `while !p.is_empty()` loop of `Delta::read_impl`.  State: the updated map, `buf.len()`,
`num_updates`, the warnings so far.  `fuel` ≥ the size of the input suffices (each iteration
consumes at least two integers); running out of fuel is reported as a panic and proved
impossible. -/
def readUpdates (objSize : Nat → Option Nat) (deleted : List Int) :
    Nat → Src → Items → Nat → Nat → List Warning → Res (Items × Nat × List Warning)
  | 0, src, upd, _, num, ws => if src.isEmpty then .ok (upd, num, ws) else .panic "fuel"
  | f + 1, src, upd, bufLen, num, ws =>
    if src.isEmpty then .ok (upd, num, ws)
    else
      match src.readInt with
      | none => .err .itemDiffsUnpacking
      | some (t, s1, w1) =>
        match s1.readInt with
        | none => .err .itemDiffsUnpacking
        | some (id, s2, w2) =>
          if t < 0 ∨ t ≥ 65536 then .err .typeIdRange
          else if id < 0 ∨ id ≥ 65536 then .err .idRange
          else
            let sizeRes : Res (Nat × Src × List Warning) :=
              match objSize t.toNat with
              | some sz => .ok (sz, s2, [])
              | none =>
                match s2.readInt with
                | none => .err .itemDiffsUnpacking
                | some (sz, s3, w3) => if sz < 0 then .err .negativeSize else .ok (sz.toNat, s3, w3)
            match sizeRes with
            | .err e => .err e
            | .panic p => .panic p
            | .ok (size, s3, w3) =>
              if bufLen ≥ 4294967296 then .err .tooLongDiff
              else if bufLen + size ≥ 4294967296 then .err .tooLongDiff
              else
                match readData size s3 with
                | none => .err .itemDiffsUnpacking
                | some (data, s4, w4) =>
                  let k := keyOf t.toNat id.toNat
                  let dupW := if (mfind k upd).isSome then [Warning.duplicateUpdate] else []
                  let delW := if deleted.contains k then [Warning.deleteUpdate] else []
                  readUpdates objSize deleted f s4 (minsert k data upd) (bufLen + size) (num + 1)
                    (ws ++ w1 ++ w2 ++ w3 ++ w4 ++ dupW ++ delW)

/-- `Delta::read_impl` (`Delta::read` on `Src.bytes`, `Delta::read_from_ints` on `Src.ints`) -/
def readDelta (objSize : Nat → Option Nat) (src : Src) : Res (Delta × List Warning) :=
  match src.readInt with
  | none => .err .unexpectedEnd
  | some (nd, s1, w1) =>
    if nd < 0 then .err .intOutOfRange
    else
      match s1.readInt with
      | none => .err .unexpectedEnd
      | some (nu, s2, w2) =>
        if nu < 0 then .err .intOutOfRange
        else
          match s2.readInt with
          | none => .err .unexpectedEnd
          | some (z, s3, w3) =>
            let wz := if z ≠ 0 then [Warning.nonZeroPadding] else []
            match readKeys nd.toNat s3 [] [] with
            | none => .err .deletedItemsUnpacking
            | some (deleted, s4, w4) =>
              let wd := if nd.toNat ≠ deleted.length then [Warning.duplicateDelete] else []
              match readUpdates objSize deleted s4.size s4 [] 0 0 [] with
              | .err e => .err e
              | .panic p => .panic p
              | .ok (upd, num, w5) =>
                let wn := if (num : Int) ≠ nu then [Warning.numUpdatedItems] else []
                .ok (⟨deleted, upd⟩, w1 ++ w2 ++ w3 ++ wz ++ w4 ++ wd ++ w5 ++ wn)

/-! ### `Snap`: extended (UUID) item types -/

inductive TypeId where
  | ordinal (n : Nat)
  | uuid (u : Int)
  deriving DecidableEq, Repr, Inhabited

/-- `format::uuid_to_item_data` -/
def uuidToData (u : Int) : List Int :=
  [wrap (u / 79228162514264337593543950336), wrap (u / 18446744073709551616), wrap (u / 4294967296), wrap u]

/-- `format::item_data_to_uuid`: `none` if fewer than four integers; the flag says whether
`ExcessUuidItemData` is warned -/
def dataToUuid (data : List Int) : Option (Int × Bool) :=
  match data with
  | a :: b :: c :: d :: rest =>
    some ((a % 4294967296) * 79228162514264337593543950336 + (b % 4294967296) * 18446744073709551616
      + (c % 4294967296) * 4294967296 + d % 4294967296, !rest.isEmpty)
  | _ => none

def IsUuid (u : Int) : Prop := 0 ≤ u ∧ u < 340282366920938463463374607431768211456
instance (u : Int) : Decidable (IsUuid u) := by unfold IsUuid; infer_instance

structure Snap where
  raw : RawSnap
  /-- `extended_types: BTreeMap<Uuid, u16>` in ascending UUID order -/
  ext : List (Int × Nat)
  deriving DecidableEq, Repr, Inhabited

def Snap.empty : Snap := ⟨RawSnap.empty, []⟩

/-- The loop of `Snap::build_from_raw` over the remaining items `m` (`all` = the whole map). -/
def buildExt (all : Items) : Items → List (Int × Nat) → List Warning → Res (List (Int × Nat) × List Warning)
  | [], ext, ws => .ok (ext, ws)
  | (k, d) :: r, ext, ws =>
    if keyType k = typeIdEx then
      match dataToUuid d with
      | none => .err .invalidUuidType
      | some (u, excess) =>
        if (mfind u ext).isSome then .err .duplicateUuidType
        else
          -- the item's id is the type number (since the fix of D6)
          buildExt all r (minsert u (keyId k) ext)
            (ws ++ if excess then [Warning.excessUuidItemData] else [])
    else if keyType k ≥ offsetExt then
      if (mfind (keyOf typeIdEx (keyType k)) all).isNone then .err .missingUuidType
      else buildExt all r ext ws
    else buildExt all r ext ws

/-- `Snap::build_from_raw` -/
def buildFromRaw (raw : RawSnap) : Res (Snap × List Warning) :=
  match buildExt raw.items raw.items [] [] with
  | .ok (ext, ws) => .ok (⟨raw, ext⟩, ws)
  | .err e => .err e
  | .panic p => .panic p

/-- `Snap::read_from_ints` -/
def Snap.readFromInts (data : List Int) : Res (Snap × List Warning) :=
  match RawSnap.readFromInts data with
  | .err e => .err e
  | .panic p => .panic p
  | .ok (raw, ws) =>
    match buildFromRaw raw with
    | .ok (s, ws') => .ok (s, ws ++ ws')
    | .err e => .err e
    | .panic p => .panic p

/-- `Snap::read` -/
def Snap.readBytes (bs : List UInt8) : Res (Snap × List Warning) :=
  match RawSnap.readBytes bs with
  | .err e => .err e
  | .panic p => .panic p
  | .ok (raw, ws) =>
    match buildFromRaw raw with
    | .ok (s, ws') => .ok (s, ws ++ ws')
    | .err e => .err e
    | .panic p => .panic p

/-- `Snap::read_with_delta` -/
def Snap.readWithDelta (a : Snap) (d : Delta) : Res (Snap × List Warning) :=
  match applyDelta a.raw d with
  | .err e => .err e
  | .panic p => .panic p
  | .ok (raw, ws) =>
    match buildFromRaw raw with
    | .ok (s, ws') => .ok (s, ws ++ ws')
    | .err e => .err e
    | .panic p => .panic p

/-- The three readers as the Rust API has them, writing into a target `&mut self` that may have
held another snapshot: `RawSnap::read*` start with `self.clear()` and `build_from_raw` starts with
`self.extended_types.clear()`, so nothing of the target survives — the model functions above take no
target at all.  These wrappers make the target explicit (the harness checks the implementation
against exactly this: `C10+C11/target-reuse-differs`). -/
def Snap.readWithDeltaInto (_target : Snap) (a : Snap) (d : Delta) : Res (Snap × List Warning) :=
  a.readWithDelta d
def Snap.readFromIntsInto (_target : Snap) (data : List Int) : Res (Snap × List Warning) :=
  Snap.readFromInts data
def Snap.readBytesInto (_target : Snap) (bs : List UInt8) : Res (Snap × List Warning) :=
  Snap.readBytes bs

def Snap.crc (s : Snap) : Int := s.raw.crc

/-- `Snap::raw_type_id`; `none` = assertion panic for an ordinal outside `1..0x3fff` -/
def Snap.rawTypeId (s : Snap) : TypeId → Option (Option Nat)
  | .ordinal o => if 0 < o ∧ o < offsetExt then some (some o) else none
  | .uuid u => some (mfind u s.ext)

/-- `Snap::item`; outer `none` = panic -/
def Snap.item (s : Snap) (tid : TypeId) (id : Nat) : Option (Option (List Int)) :=
  match s.rawTypeId tid with
  | none => none
  | some none => some none
  | some (some t) => some (s.raw.item t id)

/-- `Snap::type_id`; outer `none` = the `unwrap()` of the registry lookup panics -/
def Snap.typeId (s : Snap) (t : Nat) : Option (Option TypeId) :=
  if t = typeIdEx then some none
  else if t < offsetExt then some (some (.ordinal t))
  else
    match s.raw.item typeIdEx t with
    | none => none
    | some d =>
      match dataToUuid d with
      | none => some none
      | some (u, _) => some (some (.uuid u))

/-- the iteration of `Items::next` over the remaining raw items; `remaining` is the counter the
iterator decrements (`usize` underflow = panic) -/
def itemsLoop (s : Snap) : Items → Nat → Option (List (TypeId × Nat × List Int))
  | [], _ => some []
  | (k, d) :: r, remaining =>
    match s.typeId (keyType k) with
    | none => none
    | some none => itemsLoop s r remaining
    | some (some tid) =>
      if remaining = 0 then none
      else
        match itemsLoop s r (remaining - 1) with
        | none => none
        | some l => some ((tid, keyId k, d) :: l)

/-- `Snap::items().collect()`; `none` = panic -/
def Snap.items (s : Snap) : Option (List (TypeId × Nat × List Int)) :=
  if s.ext.length > s.raw.items.length then none
  else itemsLoop s s.raw.items (s.raw.items.length - s.ext.length)

/-! #### builder -/

structure Builder where
  snap : Snap
  nextTypeId : Nat
  deriving DecidableEq, Repr, Inhabited

def Builder.new : Builder := ⟨Snap.empty, offsetExt⟩

/-- `Builder::add_item`: the new builder state (it changes even when the second insertion
fails) and the result; `none` = assertion panic -/
def Builder.addItem (b : Builder) (tid : TypeId) (id : Nat) (data : List Int) :
    Option (Builder × Option BuilderError) :=
  match tid with
  | .ordinal o =>
    if ¬ (0 < o ∧ o < offsetExt) then none
    else
      match b.snap.raw.addItem (keyOf o id) data with
      | .error e => some (b, some e)
      | .ok raw => some ({ b with snap := { b.snap with raw := raw } }, none)
  | .uuid u =>
    match mfind u b.snap.ext with
    | some t =>
      match b.snap.raw.addItem (keyOf t id) data with
      | .error e => some (b, some e)
      | .ok raw => some ({ b with snap := { b.snap with raw := raw } }, none)
    | none =>
      let t := b.nextTypeId
      if ¬ (offsetExt ≤ t) then none
      else if ¬ (t < 32768) then some (b, some .tooManyItems)   -- type ids used up (fix of D20)
      else
        match b.snap.raw.addItem (keyOf typeIdEx t) (uuidToData u) with
        | .error e => some (b, some e)
        | .ok raw1 =>
          let b1 : Builder := ⟨⟨raw1, minsert u t b.snap.ext⟩, t + 1⟩
          match raw1.addItem (keyOf t id) data with
          | .error e => some (b1, some e)
          | .ok raw2 => some ({ b1 with snap := { b1.snap with raw := raw2 } }, none)

/-- the `next_type_id` loop of `Snap::recycle` (`u16` arithmetic; `none` = overflow panic) -/
def recycleNext : Items → Nat → Option Nat
  | [], n => some n
  | (k, _) :: r, n =>
    if keyType k ≠ typeIdEx then some n
    else if offsetExt ≤ keyId k ∧ keyId k < 32768 then
      -- only ids in `OFFSET_EXTENDED_TYPE_ID..0x8000` count (fix of D20)
      if n + 256 ≥ 65536 then none
      else if keyId k < n + 256 then recycleNext r (keyId k + 1)
      else recycleNext r n
    else recycleNext r n

/-- the re-insertion loop of `Snap::recycle`; `none` = the `unwrap()` panics -/
def recycleAdd : List (Int × Nat) → RawSnap → Option RawSnap
  | [], raw => some raw
  | (u, t) :: r, raw =>
    match raw.addItem (keyOf typeIdEx t) (uuidToData u) with
    | .error _ => none
    | .ok raw' => recycleAdd r raw'

/-- `Snap::recycle`; `none` = panic -/
def Snap.recycle (s : Snap) : Option Builder :=
  match recycleNext s.raw.items offsetExt with
  | none => none
  | some n =>
    match recycleAdd s.ext RawSnap.empty with
    | none => none
    | some raw => some ⟨⟨raw, s.ext⟩, n⟩

/-! ### the bundled C++ reference (`CSnapshotBuilder`, `CSnapshotDelta::CreateDelta`)

Modelled on its domain of definition only: types `≤ 0x7fff` (a larger type aborts in
`NewItemRaw`), equal item sizes for keys present in both snapshots (otherwise it reads out of
bounds), at most 64 keys per hash bucket, static sizes only for types `< 64`.  Items are given in
insertion order. -/

/-- `CSnapshotBuilder::Finish` after `NewItem` for each `(key, data)` in order -/
def refSnapInts (m : Items) : List Int :=
  (((dataLen m + m.length) * 4 : Nat) : Int) :: (m.length : Int) :: (offsetsOf 0 m ++ flatItems m)

def refUpdates (objSize : Nat → Option Nat) (from_ : Items) : Items → List Int × Nat
  | [] => ([], 0)
  | (k, d) :: r =>
    let rest := refUpdates objSize from_ r
    let hdr : List Int := (keyType k : Int) :: (keyId k : Int) ::
      (if (objSize (keyType k)).isSome then [] else [(d.length : Int)])
    match mfind k from_ with
    | none => (hdr ++ d ++ rest.1, rest.2 + 1)
    | some f =>
      let diff := List.zipWith wrapSub d f
      if diff.all (· == 0) then rest else (hdr ++ diff ++ rest.1, rest.2 + 1)

/-- `CSnapshotDelta::CreateDelta(from, to)`: the integers written (empty when nothing changed) -/
def refCreateDelta (objSize : Nat → Option Nat) (from_ to : Items) : List Int :=
  let del := (from_.filter (fun p => (mfind p.1 to).isNone)).map Prod.fst
  let u := refUpdates objSize from_ to
  if del.isEmpty ∧ u.2 = 0 then []
  else (del.length : Int) :: (u.2 : Int) :: 0 :: (del ++ u.1)

/-- A delta as the reference would produce it for `a → b`: the deleted keys are exactly those of
`a` missing in `b`; every listed update is the difference (or the data, for a new key) of an
item of `b`; an item of `b` that is not listed is unchanged. -/
def RefDelta (a b : RawSnap) (d : Delta) : Prop :=
  d.deleted = (a.items.filter (fun p => (mfind p.1 b.items).isNone)).map Prod.fst ∧
  Sorted d.updated ∧
  (∀ p ∈ d.updated, ∃ v, mfind p.1 b.items = some v ∧ createItemDelta (mfind p.1 a.items) v = some p.2) ∧
  (∀ p ∈ b.items, mfind p.1 d.updated = none → mfind p.1 a.items = some p.2)

/-- executable check of `RefDelta` (used by the driver) -/
def refDeltaB (a b : RawSnap) (d : Delta) : Bool :=
  decide (d.deleted = (a.items.filter (fun p => (mfind p.1 b.items).isNone)).map Prod.fst) &&
  decide (Sorted d.updated) &&
  d.updated.all (fun p => match mfind p.1 b.items with
    | none => false
    | some v => decide (createItemDelta (mfind p.1 a.items) v = some p.2)) &&
  b.items.all (fun p => (mfind p.1 d.updated).isSome || decide (mfind p.1 a.items = some p.2))

end Tw.Snap
