/-
Executable twins of the hot list functions of `Tw/Model/Snap.lean`, backed by `Std.TreeMap` /
`Std.TreeSet` (O(n log n) instead of O(n²) on 1024-item snapshots).  Used by the driver only;
`Tw/Proofs/SnapFast.lean` proves each twin equal to the list model (`buildFast_eq`,
`applyDeltaFast_eq`), so the driver still runs "the model".
-/
import Std.Data.TreeMap
import Std.Data.TreeSet
import Tw.Model.Snap

namespace Tw.Snap.Fast
open Tw.Snap

abbrev Tree := Std.TreeMap Int (List Int) compare

/-- a raw snapshot under construction: the map and the cached `buf.len()` -/
structure FSnap where
  map : Tree
  dlen : Nat

def FSnap.empty : FSnap := ⟨∅, 0⟩

def vacantCheckF (f : FSnap) (size : Nat) : Option BuilderError :=
  if f.map.size + 1 > maxItems then some .tooManyItems
  else if serializedSize (f.map.size + 1) (f.dlen + size) > maxSize then some .tooLongSnap
  else none

/-- twin of `RawSnap.addItem` -/
def FSnap.addItem (f : FSnap) (k : Int) (data : List Int) : Except BuilderError FSnap :=
  match f.map[k]? with
  | some _ => .error .duplicateKey
  | none =>
    match vacantCheckF f data.length with
    | some e => .error e
    | none => .ok ⟨f.map.insert k data, f.dlen + data.length⟩

def FSnap.toRaw (f : FSnap) : RawSnap := ⟨f.map.toList⟩

/-! ### building a snapshot item by item (`RawBuilder`) -/

/-- list model: add the items in order; the error carries the index of the offending item -/
def buildList : List (Int × List Int) → Nat → RawSnap → Except (Nat × BuilderError) RawSnap
  | [], _, s => .ok s
  | (k, d) :: r, i, s =>
    match s.addItem k d with
    | .error e => .error (i, e)
    | .ok s' => buildList r (i + 1) s'

def buildFastLoop : List (Int × List Int) → Nat → FSnap → Except (Nat × BuilderError) FSnap
  | [], _, f => .ok f
  | (k, d) :: r, i, f =>
    match f.addItem k d with
    | .error e => .error (i, e)
    | .ok f' => buildFastLoop r (i + 1) f'

/-- twin of `buildList its 0 RawSnap.empty` -/
def buildFast (its : List (Int × List Int)) : Except (Nat × BuilderError) RawSnap :=
  match buildFastLoop its 0 FSnap.empty with
  | .error e => .error e
  | .ok f => .ok f.toRaw

/-! ### `read_with_delta` -/

/-- the old snapshot as a lookup structure (first binding of a key wins, like `mfind`) -/
def toTree (m : Items) : Tree := m.foldl (fun t p => t.insertIfNew p.1 p.2) ∅

def copyUndeletedF (deleted : Std.TreeSet Int compare) : Items → FSnap → Nat → Res (FSnap × Nat)
  | [], out, n => .ok (out, n)
  | (k, d) :: r, out, n =>
    if deleted.contains k then copyUndeletedF deleted r out (n + 1)
    else
      match out.map[k]? with
      | some old =>
        if old.length ≠ d.length then .panic "read_with_delta:copy_from_slice"
        else copyUndeletedF deleted r ⟨out.map.insert k d, out.dlen⟩ n
      | none =>
        match vacantCheckF out d.length with
        | some e => .err e.toError
        | none => copyUndeletedF deleted r ⟨out.map.insert k d, out.dlen + d.length⟩ n

def applyUpdatesF (from_ : Tree) : Items → FSnap → Res FSnap
  | [], out => .ok out
  | (k, diff) :: r, out =>
    match out.map[k]? with
    | some old =>
      if diff.length ≠ old.length then .err .deltaDifferingSizes
      else
        match applyItemDelta from_[k]? diff with
        | none => .err .deltaDifferingSizes
        | some v => applyUpdatesF from_ r ⟨out.map.insert k v, out.dlen⟩
    | none =>
      match vacantCheckF out diff.length with
      | some e => .err e.toError
      | none =>
        match applyItemDelta from_[k]? diff with
        | none => .err .deltaDifferingSizes
        | some v => applyUpdatesF from_ r ⟨out.map.insert k v, out.dlen + diff.length⟩

/-- twin of `applyDelta` -/
def applyDeltaFast (a : RawSnap) (d : Delta) : Res (RawSnap × List Warning) :=
  match copyUndeletedF (Std.TreeSet.ofList d.deleted compare) a.items FSnap.empty 0 with
  | .err e => .err e
  | .panic p => .panic p
  | .ok (out, n) =>
    let ws := if n ≠ d.deleted.length then [Warning.unknownDelete] else []
    match applyUpdatesF (toTree a.items) d.updated out with
    | .err e => .err e
    | .panic p => .panic p
    | .ok out' => .ok (out'.toRaw, ws)

/-- twin of `Snap.readWithDelta` -/
def readWithDeltaFast (a : Snap) (d : Delta) : Res (Snap × List Warning) :=
  match applyDeltaFast a.raw d with
  | .err e => .err e
  | .panic p => .panic p
  | .ok (raw, ws) =>
    match buildFromRaw raw with
    | .ok (s, ws') => .ok (s, ws ++ ws')
    | .err e => .err e
    | .panic p => .panic p

end Tw.Snap.Fast
