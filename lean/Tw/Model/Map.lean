import Tw.Model.Datafile
import Tw.Gen.MapItems

/-
Model of the map layer: `map/src/format.rs` (`MapItemExt::from_slice(_rest)` driven by the
extracted layout table `Tw.Gen.MapItems`, `MapItemLayerV1TilemapExtraRace`, `i32s_to_bytes`) and
`map/src/reader.rs` (`get_index(_opt)`, every `*::from_raw`, the `Reader` accessors, `game_layers`,
string / settings / tile accessors, `SettingsIter`).

Errors are carried as the text of their `Debug` form without spaces (`Group(3,TooShort(1))`), which
is what the correspondence compares; panic sites (`assert!`, slice indexes) are explicit.
-/
namespace Tw.Map
open Tw.Datafile Tw.Gen.MapItems

inductive Res (α : Type) where
  | ok (a : α)
  | err (msg : String)
  | panic (site : String)
  deriving Repr

def Res.isPanic {α : Type} : Res α → Bool
  | .panic _ => true
  | _ => false

/-- result of `MapItemExt::from_slice_rest` -/
inductive FromSlice where
  | tooShort
  | lowVersion (v0 : Int)
  | found (item rest : List Int)
  | panic (site : String)
  deriving Repr

/-- `MapItemExt::from_slice_rest` for the item type described by `sp` -/
def fromSliceRest (sp : Spec) (slice : List Int) : FromSlice :=
  let versionGate : Option FromSlice :=
    if sp.ignoreVersion then none
    else
      match slice with
      | [] => some .tooShort
      | v0 :: _ => if v0 < sp.version then some (.lowVersion v0) else none
  match versionGate with
  | some r => r
  | none =>
    if slice.length < sp.offset + sp.len then .tooShort
    else if sp.offset > slice.length then .panic "from_slice_rest: slice[offset..]"
    else
      let result := slice.drop sp.offset
      if sp.len > result.length then .panic "from_slice_rest: split_at"
      else .found (result.take sp.len) (result.drop sp.len)

/-- `mandatory(_rest)`: `Err(too_short(len))`, `Err(invalid_version(slice[0]))` or the item -/
def mandatory (sp : Spec) (slice : List Int) (tooShort : String) : Res (List Int × List Int) :=
  match fromSliceRest sp slice with
  | .tooShort => .err s!"{tooShort}({slice.length})"
  | .lowVersion v0 => .err s!"InvalidVersion({v0})"
  | .found item rest => .ok (item, rest)
  | .panic s => .panic s

/-- `optional`: `Err(too_short(len))`, `None` or the item -/
def optional (sp : Spec) (slice : List Int) (tooShort : String) : Res (Option (List Int)) :=
  match fromSliceRest sp slice with
  | .tooShort => .err s!"{tooShort}({slice.length})"
  | .lowVersion _ => .ok none
  | .found item _ => .ok (some item)
  | .panic s => .panic s

/-- `get_index_impl(index, start..end)` -/
def getIndexImpl (index : Int) (a b : Nat) : Option Nat :=
  if index < 0 then none
  else if index.toNat + a < b then some (index.toNat + a) else none

def getIndex (index : Int) (a b : Nat) (invalid : String) : Res Nat :=
  match getIndexImpl index a b with
  | some i => .ok i
  | none => .err s!"{invalid}({index})"

def getIndexOpt (index : Int) (a b : Nat) (invalid : String) : Res (Option Nat) :=
  if index = -1 then .ok none
  else
    match getIndexImpl index a b with
    | some i => .ok (some i)
    | none => .err s!"{invalid}({index})"

/-- `x as u32` of an `i32` -/
def asU32 (v : Int) : Nat := (v % 4294967296).toNat

/-- one word of `i32s_to_bytes` -/
def wordNameBytes (w : Int) : List UInt8 :=
  let u := asU32 w
  [UInt8.ofNat (u / 16777216 % 256 + 128), UInt8.ofNat (u / 65536 % 256 + 128),
   UInt8.ofNat (u / 256 % 256 + 128), UInt8.ofNat (u % 256 + 128)]

/-- `name_get`: the bytes of the words, last byte forced to 0 -/
def nameGet (ws : List Int) : List UInt8 :=
  let bs := ws.flatMap wordNameBytes
  bs.take (bs.length - 1) ++ [0]

def zeroName : List UInt8 := List.replicate 12 0

/-! ## `*::from_raw` -/

structure Group where
  offsetX : Int
  offsetY : Int
  parallaxX : Int
  parallaxY : Int
  layersStart : Nat
  layersEnd : Nat
  clipping : Option (Int × Int × Int × Int)
  name : List UInt8
  deriving Repr

def w (item : List Int) (k : Nat) : Int := item.getD k 0

def Group.fromRaw (raw : List Int) (la lb : Nat) : Res Group :=
  match mandatory MapItemGroupV1 raw "TooShort" with
  | .err e => .err e
  | .panic s => .panic s
  | .ok (v1, _) =>
    match optional MapItemGroupV2 raw "TooShort" with
    | .err e => .err e
    | .panic s => .panic s
    | .ok v2 =>
      match optional MapItemGroupV3 raw "TooShort" with
      | .err e => .err e
      | .panic s => .panic s
      | .ok v3 =>
        let startLayer := w v1 4
        let numLayers := w v1 5
        let sl := s!"InvalidStartLayerIndex({startLayer},{numLayers})"
        let nl := s!"InvalidNumLayers({startLayer},{numLayers})"
        if startLayer < 0 then .err sl
        else
          let layersStart := la + startLayer.toNat
          if layersStart > lb then .err sl
          else if numLayers < 0 then .err nl
          else
            let layersEnd := layersStart + numLayers.toNat
            if layersEnd > lb then .err nl
            else
              let clipping := match v2 with
                | some v2 => if w v2 0 ≠ 0 then some (w v2 1, w v2 2, w v2 3, w v2 4) else none
                | none => none
              let name := match v3 with
                | some v3 => nameGet v3
                | none => zeroName
              .ok { offsetX := w v1 0, offsetY := w v1 1, parallaxX := w v1 2, parallaxY := w v1 3,
                    layersStart := layersStart, layersEnd := layersEnd, clipping := clipping,
                    name := name }

structure Sounds where
  numSources : Nat
  data : Nat
  sound : Option Nat
  legacy : Bool
  name : List UInt8
  deriving Repr

/-- `if !legacy { MapItemLayerV1DdraceSoundsV2::mandatory(raw, TooShortV2, InvalidVersion)?; }` -/
def soundsV2Gate (raw : List Int) (legacy : Bool) : Res (List Int × List Int) :=
  if legacy then .ok ([], []) else mandatory MapItemLayerV1DdraceSoundsV2 raw "TooShortV2"

def Sounds.fromRaw (raw : List Int) (da db sa sb : Nat) (legacy : Bool) : Res Sounds :=
  match mandatory MapItemLayerV1DdraceSoundsV1 raw "TooShort" with
  | .err e => .err e
  | .panic s => .panic s
  | .ok (v1, _) =>
    match soundsV2Gate raw legacy with
    | .err e => .err e
    | .panic s => .panic s
    | .ok _ =>
      if w v1 0 < 0 then .err s!"InvalidNumSources({w v1 0})"
      else
        match getIndex (w v1 1) da db "InvalidDataIndex" with
        | .err e => .err e
        | .panic s => .panic s
        | .ok data =>
          match getIndexOpt (w v1 2) sa sb "InvalidSoundIndex" with
          | .err e => .err e
          | .panic s => .panic s
          | .ok sound =>
            .ok { numSources := (w v1 0).toNat, data := data, sound := sound, legacy := legacy,
                  name := nameGet (v1.drop 3) }

structure Quads where
  numQuads : Nat
  data : Nat
  image : Option Nat
  name : List UInt8
  deriving Repr

def Quads.fromRaw (raw : List Int) (da db ia ib : Nat) : Res Quads :=
  match mandatory MapItemLayerV1QuadsV1 raw "TooShort" with
  | .err e => .err e
  | .panic s => .panic s
  | .ok (v1, _) =>
    match optional MapItemLayerV1QuadsV2 raw "TooShortV2" with
    | .err e => .err e
    | .panic s => .panic s
    | .ok v2 =>
      let name := match v2 with
        | some v2 => nameGet v2
        | none => zeroName
      if w v1 0 < 0 then .err s!"InvalidNumQuads({w v1 0})"
      else
        match getIndex (w v1 1) da db "InvalidDataIndex" with
        | .err e => .err e
        | .panic s => .panic s
        | .ok data =>
          match getIndexOpt (w v1 2) ia ib "InvalidImageIndex" with
          | .err e => .err e
          | .panic s => .panic s
          | .ok image => .ok { numQuads := (w v1 0).toNat, data := data, image := image, name := name }

inductive TilemapType where
  | normal (color : Nat × Nat × Nat × Nat) (colorEnv : Option (Nat × Int)) (image : Option Nat) (data : Nat)
  | game (data : Nat)
  | teleport (data zeroes : Nat)
  | speedup (data zeroes : Nat)
  | front (data zeroes : Nat)
  | switch (data zeroes : Nat)
  | tune (data zeroes : Nat)
  deriving Repr

structure Tilemap where
  width : Nat
  height : Nat
  type : TilemapType
  name : List UInt8
  deriving Repr

/-- `MapItemLayerV1TilemapExtraRace::from_slice(raw, version, flags)`: the data index word -/
def extraRace (raw : List Int) (version : Int) (flags : Nat) : Option Int :=
  let base : Option Nat :=
    if version = 2 then some (MapItemLayerV1TilemapV2.offset + MapItemLayerV1TilemapV2.len)
    else if version = 3 then some (MapItemLayerV1TilemapV3.offset + MapItemLayerV1TilemapV3.len)
    else none
  let idx : Option Nat :=
    if flags = TILELAYERFLAG_TELEPORT then some 0
    else if flags = TILELAYERFLAG_SPEEDUP then some 1
    else if flags = TILELAYERFLAG_FRONT then some 2
    else if flags = TILELAYERFLAG_SWITCH then some 3
    else if flags = TILELAYERFLAG_TUNE then some 4
    else none
  match base, idx with
  | some b, some k => if raw.length ≤ b + k then none else raw[b + k]?
  | _, _ => none

def tryU8 (v : Int) : Option Nat := if 0 ≤ v ∧ v ≤ 255 then some v.toNat else none

/-- the extra data index of a race/ddrace tile layer -/
def extraIndex (raw : List Int) (version : Int) (flags : Nat) (da db : Nat) (tooShort invalid : String) :
    Res Nat :=
  match extraRace raw version flags with
  | none => .err s!"{tooShort}({raw.length})"
  | some v => getIndex v da db invalid

/-- the four colour components, `try_u8` each -/
def tilemapColor (v2 : List Int) : Res (Nat × Nat × Nat × Nat) :=
  match tryU8 (w v2 3), tryU8 (w v2 4), tryU8 (w v2 5), tryU8 (w v2 6) with
  | none, _, _, _ => .err s!"InvalidColor(Red,{w v2 3})"
  | some _, none, _, _ => .err s!"InvalidColor(Green,{w v2 4})"
  | some _, some _, none, _ => .err s!"InvalidColor(Blue,{w v2 5})"
  | some _, some _, some _, none => .err s!"InvalidColor(Alpha,{w v2 6})"
  | some cr, some cg, some cb, some ca => .ok (cr, cg, cb, ca)

/-- `color_env_and_offset` -/
def tilemapColorEnv (v2 : List Int) (ea eb : Nat) : Res (Option (Nat × Int)) :=
  if w v2 7 = -1 then .ok none
  else
    match getIndex (w v2 7) ea eb "InvalidColorEnvelopeIndex" with
    | .ok i => .ok (some (i, w v2 8))
    | .err e => .err e
    | .panic s => .panic s

/-- the `match flags { … }` of `LayerTilemap::from_raw` -/
def tilemapType (raw : List Int) (version : Int) (flags : Nat) (flagsField : Int)
    (color : Nat × Nat × Nat × Nat) (colorEnv : Option (Nat × Int)) (image : Option Nat) (data : Nat)
    (da db : Nat) : Res TilemapType :=
  if flags = 0 then .ok (.normal color colorEnv image data)
  else if flags = TILELAYERFLAG_GAME then .ok (.game data)
  else if flags = TILELAYERFLAG_TELEPORT then
    match extraIndex raw version flags da db "TooShortRaceTeleport" "InvalidRaceTeleportDataIndex" with
    | .ok d => .ok (.teleport d data) | .err e => .err e | .panic s => .panic s
  else if flags = TILELAYERFLAG_SPEEDUP then
    match extraIndex raw version flags da db "TooShortRaceSpeedup" "InvalidRaceSpeedupDataIndex" with
    | .ok d => .ok (.speedup d data) | .err e => .err e | .panic s => .panic s
  else if flags = TILELAYERFLAG_FRONT then
    match extraIndex raw version flags da db "TooShortDdraceFront" "InvalidDdraceFrontDataIndex" with
    | .ok d => .ok (.front d data) | .err e => .err e | .panic s => .panic s
  else if flags = TILELAYERFLAG_SWITCH then
    match extraIndex raw version flags da db "TooShortDdraceSwitch" "InvalidDdraceSwitchDataIndex" with
    | .ok d => .ok (.switch d data) | .err e => .err e | .panic s => .panic s
  else if flags = TILELAYERFLAG_TUNE then
    match extraIndex raw version flags da db "TooShortDdraceTune" "InvalidDdraceTuneDataIndex" with
    | .ok d => .ok (.tune d data) | .err e => .err e | .panic s => .panic s
  else .err s!"InvalidFlags({flagsField})"

/-- `try_u32` of width and height, then the two zero tests -/
def tilemapDims (v2 : List Int) : Res (Nat × Nat) :=
  if w v2 0 < 0 then .err s!"InvalidWidth({w v2 0})"
  else if w v2 1 < 0 then .err s!"InvalidHeight({w v2 1})"
  else if w v2 0 = 0 then .err s!"InvalidWidth({w v2 0})"
  else if w v2 1 = 0 then .err s!"InvalidHeight({w v2 1})"
  else .ok ((w v2 0).toNat, (w v2 1).toNat)

def Tilemap.fromRaw (raw : List Int) (da db ea eb ia ib : Nat) : Res Tilemap :=
  match mandatory MapItemLayerV1CommonV0 raw "TooShort" with
  | .err e => .err e
  | .panic s => .panic s
  | .ok (v0, _) =>
    match mandatory MapItemLayerV1TilemapV2 raw "TooShortV2" with
    | .err e => .err e
    | .panic s => .panic s
    | .ok (v2, _) =>
      match optional MapItemLayerV1TilemapV3 raw "TooShortV3" with
      | .err e => .err e
      | .panic s => .panic s
      | .ok v3 =>
        match tilemapColor v2 with
        | .err e => .err e
        | .panic s => .panic s
        | .ok color =>
          match tilemapColorEnv v2 ea eb with
          | .err e => .err e
          | .panic s => .panic s
          | .ok colorEnv =>
            match getIndexOpt (w v2 9) ia ib "InvalidImageIndex" with
            | .err e => .err e
            | .panic s => .panic s
            | .ok image =>
              match getIndex (w v2 10) da db "InvalidDataIndex" with
              | .err e => .err e
              | .panic s => .panic s
              | .ok data =>
                match tilemapType raw (w v0 0) (asU32 (w v2 2)) (w v2 2) color colorEnv image data da db with
                | .err e => .err e
                | .panic s => .panic s
                | .ok ty =>
                  match tilemapDims v2 with
                  | .err e => .err e
                  | .panic s => .panic s
                  | .ok (width, height) =>
                    .ok { width := width, height := height, type := ty,
                          name := match v3 with
                            | some v3 => nameGet v3
                            | none => zeroName }

inductive LayerType where
  | quads (q : Quads)
  | tilemap (t : Tilemap)
  | sounds (s : Sounds)
  deriving Repr

structure Layer where
  detail : Bool
  t : LayerType
  deriving Repr

def wrapErr {α : Type} (pre : String) : Res α → Res α
  | .err e => .err s!"{pre}({e})"
  | r => r

/-- the `match v1.type_ { … }` of `Layer::from_raw` -/
def layerDispatch (ty : Int) (detail : Bool) (rest : List Int) (da db ea eb ia ib sa sb : Nat) :
    Res Layer :=
  if ty = MAP_ITEMTYPE_LAYER_V1_TILEMAP then
    match wrapErr "Tilemap" (Tilemap.fromRaw rest da db ea eb ia ib) with
    | .ok t => .ok { detail := detail, t := .tilemap t } | .err e => .err e | .panic s => .panic s
  else if ty = MAP_ITEMTYPE_LAYER_V1_QUADS then
    match wrapErr "Quads" (Quads.fromRaw rest da db ia ib) with
    | .ok q => .ok { detail := detail, t := .quads q } | .err e => .err e | .panic s => .panic s
  else if ty = MAP_ITEMTYPE_LAYER_V1_DDRACE_SOUNDS ∨ ty = MAP_ITEMTYPE_LAYER_V1_DDRACE_SOUNDS_LEGACY then
    match wrapErr "DdraceSounds" (Sounds.fromRaw rest da db sa sb
        (decide (ty ≠ MAP_ITEMTYPE_LAYER_V1_DDRACE_SOUNDS))) with
    | .ok s => .ok { detail := detail, t := .sounds s } | .err e => .err e | .panic s => .panic s
  else .err s!"InvalidType({ty})"

def Layer.fromRaw (raw : List Int) (da db ea eb ia ib sa sb : Nat) : Res Layer :=
  match fromSliceRest MapItemLayerV1 raw with
  | .tooShort => .err s!"TooShort({raw.length})"
  | .lowVersion _ => .panic "Layer::from_raw: unreachable!() (MapItemLayerV1 ignores the version)"
  | .panic s => .panic s
  | .found v1 rest =>
    if Nat.land (asU32 (w v1 1)) (4294967295 - LAYERFLAGS_ALL) ≠ 0 then .err s!"InvalidFlags({w v1 1})"
    else
      layerDispatch (w v1 0) (decide (Nat.land (asU32 (w v1 1)) LAYERFLAG_DETAIL ≠ 0)) rest
        da db ea eb ia ib sa sb

structure Image where
  width : Nat
  height : Nat
  name : Nat
  data : Option Nat
  deriving Repr

/-- `data`: `None` for an external image, else the checked data index -/
def imageData (v1 : List Int) (da db : Nat) : Res (Option Nat) :=
  if w v1 2 ≠ 0 then .ok none
  else
    match getIndex (w v1 4) da db "InvalidDataIndex" with
    | .ok i => .ok (some i)
    | .err e => .err e
    | .panic s => .panic s

def Image.fromRaw (raw : List Int) (da db : Nat) : Res Image :=
  match mandatory MapItemImageV1 raw "TooShort" with
  | .err e => .err e
  | .panic s => .panic s
  | .ok (v1, _) =>
    match imageData v1 da db with
    | .err e => .err e
    | .panic s => .panic s
    | .ok data =>
      if w v1 0 < 0 then .err s!"InvalidWidth({w v1 0})"
      else if w v1 1 < 0 then .err s!"InvalidHeight({w v1 1})"
      else
        match getIndex (w v1 3) da db "InvalidNameIndex" with
        | .err e => .err e
        | .panic s => .panic s
        | .ok name => .ok { width := (w v1 0).toNat, height := (w v1 1).toNat, name := name, data := data }

structure Info where
  author : Option Nat
  version : Option Nat
  credits : Option Nat
  license : Option Nat
  settings : Option Nat
  deriving Repr

/-- the settings index of a version-2 info item -/
def infoSettings (v2 : Option (List Int)) (da db : Nat) : Res (Option Nat) :=
  match v2 with
  | some v2 => getIndexOpt (w v2 0) da db "InvalidSettingsIndex"
  | none => .ok none

def Info.fromRaw (raw : List Int) (da db : Nat) : Res Info :=
  match mandatory MapItemInfoV1 raw "TooShort" with
  | .err e => .err e
  | .panic s => .panic s
  | .ok (v1, _) =>
    let v2 : Option (List Int) := match fromSliceRest MapItemInfoV2 raw with
      | .found item _ => some item
      | _ => none
    match getIndexOpt (w v1 0) da db "InvalidAuthorIndex" with
    | .err e => .err e
    | .panic s => .panic s
    | .ok author =>
      match getIndexOpt (w v1 1) da db "InvalidVersionIndex" with
      | .err e => .err e
      | .panic s => .panic s
      | .ok version =>
        match getIndexOpt (w v1 2) da db "InvalidCreditsIndex" with
        | .err e => .err e
        | .panic s => .panic s
        | .ok credits =>
          match getIndexOpt (w v1 3) da db "InvalidLicenseIndex" with
          | .err e => .err e
          | .panic s => .panic s
          | .ok license =>
            match infoSettings v2 da db with
            | .err e => .err e
            | .panic s => .panic s
            | .ok settings =>
              .ok { author := author, version := version, credits := credits, license := license,
                    settings := settings }

/-! ## `map::Reader` -/

/-- lifting of a datafile accessor outcome: datafile errors cannot occur in these accessors -/
def liftDf {α : Type} : Outcome α → Res α
  | .ok a => .ok a
  | .err e => .err s!"Df({e.name})"
  | .panic s => .panic s

/-- `Reader::version()` -/
def version (r : Reader) : Res Int :=
  match liftDf (r.findItem MAP_ITEMTYPE_VERSION 0) with
  | .err e => .err e
  | .panic s => .panic s
  | .ok none => .err "MissingVersion"
  | .ok (some v) =>
    match fromSliceRest MapItemCommonV0 v.data with
    | .tooShort => .err "EmptyVersion"
    | .lowVersion _ => .panic "version: unreachable!()"
    | .panic s => .panic s
    | .found item _ => .ok (w item 0)

def checkVersion (r : Reader) : Res Unit :=
  match version r with
  | .err e => .err e
  | .panic s => .panic s
  | .ok v => if v ≠ 1 then .err s!"InvalidVersion({v})" else .ok ()

def numData (r : Reader) : Res Nat := liftDf r.numDataU

def info (r : Reader) : Res Info :=
  match liftDf (r.findItem MAP_ITEMTYPE_INFO 0) with
  | .err e => .err e
  | .panic s => .panic s
  | .ok none => .err "MissingInfo"
  | .ok (some v) =>
    match numData r with
    | .err e => .err e
    | .panic s => .panic s
    | .ok nd => wrapErr "Info" (Info.fromRaw v.data 0 nd)

def typeRange (r : Reader) (t : Nat) : Res (Nat × Nat) := liftDf (r.itemTypeIndices t)

/-- `Reader::group(index)` -/
def group (r : Reader) (index : Nat) : Res Group :=
  match liftDf (r.item index) with
  | .err e => .err e
  | .panic s => .panic s
  | .ok v =>
    if v.typeId ≠ MAP_ITEMTYPE_GROUP then .panic "group: assert!(raw.type_id == MAP_ITEMTYPE_GROUP)"
    else
      match typeRange r MAP_ITEMTYPE_LAYER with
      | .err e => .err e
      | .panic s => .panic s
      | .ok (la, lb) =>
        match Group.fromRaw v.data la lb with
        | .err e => .err s!"Group({index},{e})"
        | r => r

/-- `Reader::layer(index)` -/
def layer (r : Reader) (index : Nat) : Res Layer :=
  match liftDf (r.item index) with
  | .err e => .err e
  | .panic s => .panic s
  | .ok v =>
    if v.typeId ≠ MAP_ITEMTYPE_LAYER then .panic "layer: assert!(raw.type_id == MAP_ITEMTYPE_LAYER)"
    else
      match numData r, typeRange r MAP_ITEMTYPE_ENVELOPE, typeRange r MAP_ITEMTYPE_IMAGE,
            typeRange r MAP_ITEMTYPE_DDRACE_SOUND with
      | .ok nd, .ok (ea, eb), .ok (ia, ib), .ok (sa, sb) =>
        match Layer.fromRaw v.data 0 nd ea eb ia ib sa sb with
        | .err e => .err s!"Layer({index},{e})"
        | r => r
      | .panic s, _, _, _ => .panic s
      | _, .panic s, _, _ => .panic s
      | _, _, .panic s, _ => .panic s
      | _, _, _, .panic s => .panic s
      | _, _, _, _ => .err "Df"

/-- `Reader::image(index)` -/
def image (r : Reader) (index : Nat) : Res Image :=
  match liftDf (r.item index) with
  | .err e => .err e
  | .panic s => .panic s
  | .ok v =>
    match numData r with
    | .err e => .err e
    | .panic s => .panic s
    | .ok nd =>
      match Image.fromRaw v.data 0 nd with
      | .err e => .err s!"Image({index},{e})"
      | r => r

structure GameLayers where
  group : Group
  groupIndex : Nat
  width : Nat
  height : Nat
  game : Nat
  teleport : Option Nat
  speedup : Option Nat
  front : Option Nat
  switch : Option Nat
  tune : Option Nat
  deriving Repr

/-- accumulator of the `game_layers` loops -/
structure GlAcc where
  gwh : Option (Nat × Nat × Nat) := none
  gameGroup : Option Group := none
  game : Option Nat := none
  teleport : Option Nat := none
  speedup : Option Nat := none
  front : Option Nat := none
  switch : Option Nat := none
  tune : Option Nat := none

/-- `put(&mut slot, d)?` for the slot selected by the tile layer type; `none` =
`TooManyGameLayers`, `some none` = a normal layer (`continue`) -/
def glPut (acc : GlAcc) : TilemapType → Option (Option GlAcc)
  | .normal .. => some none
  | .game d => match acc.game with
    | none => some (some { acc with game := some d }) | some _ => none
  | .teleport d _ => match acc.teleport with
    | none => some (some { acc with teleport := some d }) | some _ => none
  | .speedup d _ => match acc.speedup with
    | none => some (some { acc with speedup := some d }) | some _ => none
  | .front d _ => match acc.front with
    | none => some (some { acc with front := some d }) | some _ => none
  | .switch d _ => match acc.switch with
    | none => some (some { acc with switch := some d }) | some _ => none
  | .tune d _ => match acc.tune with
    | none => some (some { acc with tune := some d }) | some _ => none

/-- the `match group_index_width_height { … }` of `game_layers` -/
def glDims (i : Nat) (g : Group) (tm : Tilemap) (acc : GlAcc) : Res GlAcc :=
  match acc.gwh with
  | some (gi, gw, gh) =>
    if i ≠ gi then .err "TooManyGameGroups"
    else if gw ≠ tm.width ∨ gh ≠ tm.height then .err "InconsistentGameLayerDimensions"
    else .ok acc
  | none => .ok { acc with gameGroup := some g, gwh := some (i, tm.width, tm.height) }

/-- one layer of group `i` in `game_layers` -/
def glLayer (r : Reader) (i : Nat) (g : Group) (k : Nat) (acc : GlAcc) : Res GlAcc :=
  match layer r k with
  | .err e => .err e
  | .panic s => .panic s
  | .ok l =>
    match l.t with
    | .tilemap tm =>
      match glPut acc tm.type with
      | none => .err "TooManyGameLayers"
      | some none => .ok acc
      | some (some acc) => glDims i g tm acc
    | .quads _ => .ok acc
    | .sounds _ => .ok acc

def glLayers (r : Reader) (i : Nat) (g : Group) : Nat → Nat → GlAcc → Res GlAcc
  | 0, _, acc => .ok acc
  | n + 1, k, acc =>
    match glLayer r i g k acc with
    | .ok acc => glLayers r i g n (k + 1) acc
    | .err e => .err e
    | .panic s => .panic s

def glGroups (r : Reader) : Nat → Nat → GlAcc → Res GlAcc
  | 0, _, acc => .ok acc
  | n + 1, i, acc =>
    match group r i with
    | .err e => .err e
    | .panic s => .panic s
    | .ok g =>
      match glLayers r i g (g.layersEnd - g.layersStart) g.layersStart acc with
      | .ok acc => glGroups r n (i + 1) acc
      | .err e => .err e
      | .panic s => .panic s

/-- `Reader::game_layers()` -/
def gameLayers (r : Reader) : Res GameLayers :=
  match typeRange r MAP_ITEMTYPE_GROUP with
  | .err e => .err e
  | .panic s => .panic s
  | .ok (ga, gb) =>
    match glGroups r (gb - ga) ga {} with
    | .err e => .err e
    | .panic s => .panic s
    | .ok acc =>
      match acc.game with
      | none => .err "NoGameLayer"
      | some game =>
        match acc.gwh, acc.gameGroup with
        | some (gi, gw, gh), some g =>
          .ok { group := g, groupIndex := gi, width := gw, height := gh, game := game,
                teleport := acc.teleport, speedup := acc.speedup, front := acc.front,
                switch := acc.switch, tune := acc.tune }
        | _, _ => .panic "game_layers: group_index_width_height.unwrap()"

/-! ## data accessors -/

abbrev Zlib := Nat → List UInt8 → Option (List UInt8)

/-- `df::Reader::read_data` as seen through the map reader: `Df(<error>)` -/
def readData (r : Reader) (z : Zlib) (d : Nat) : Res (List UInt8) := liftDf (r.readData z d)

/-- `Reader::string(data_index)` -/
def string (r : Reader) (z : Zlib) (d : Nat) : Res (List UInt8) :=
  match readData r z d with
  | .err e => .err e
  | .panic s => .panic s
  | .ok raw =>
    match raw.getLast? with
    | some 0 =>
      let body := raw.take (raw.length - 1)
      if body.any (· == 0) then .err "InvalidStringNullTermination" else .ok body
    | _ => .err "InvalidStringMissingNullTermination"

/-- `Reader::image_name(data_index)` -/
def imageName (r : Reader) (z : Zlib) (d : Nat) : Res (List UInt8) :=
  match readData r z d with
  | .err e => .err e
  | .panic s => .panic s
  | .ok raw =>
    match raw.getLast? with
    | some 0 =>
      let body := raw.take (raw.length - 1)
      if body.any (fun c => c == 47 || c == 92 || c == 0) then .err s!"MalformedImageName({d})"
      else .ok body
    | _ => .err s!"MalformedImageName({d})"

/-- `Reader::settings(data_index)` -/
def settings (r : Reader) (z : Zlib) (d : Nat) : Res (List UInt8) :=
  match readData r z d with
  | .err e => .err e
  | .panic s => .panic s
  | .ok raw =>
    match raw.getLast? with
    | some 0 => .ok raw
    | _ => .err "InvalidSettingsMissingNullTermination"

/-- `SettingsIter::next`: `(item, new pos)`; the slice `settings[pos..]` is a panic site -/
def settingsNext (s : List UInt8) (pos : Nat) : Res (Option (List UInt8 × Nat)) :=
  if pos > s.length then .panic "SettingsIter::next: settings[pos..]"
  else
    match (s.drop pos).idxOf? 0 with
    | none => .ok none
    | some len => .ok (some ((s.drop pos).take len, pos + len + 1))

/-- the whole iteration with fuel; `none` = fuel exhausted -/
def settingsAll (s : List UInt8) : Nat → Nat → Option (Res (List (List UInt8)))
  | 0, _ => none
  | fuel + 1, pos =>
    match settingsNext s pos with
    | .panic p => some (.panic p)
    | .err e => some (.err e)
    | .ok none => some (.ok [])
    | .ok (some (item, pos')) =>
      match settingsAll s fuel pos' with
      | some (.ok rest) => some (.ok (item :: rest))
      | o => o

/-- `*_layer_tiles_raw(data_index)` for a tile struct of `size` bytes: the raw bytes, whose
length must be a multiple of the struct size -/
def tilesRaw (r : Reader) (z : Zlib) (d : Nat) (size : Nat) (err : String) : Res (List UInt8) :=
  match readData r z d with
  | .err e => .err e
  | .panic s => .panic s
  | .ok raw => if raw.length % size ≠ 0 then .err s!"{err}({raw.length})" else .ok raw

/-- `*_layer_tiles(LayerTilesIndex { data_index, width, height })`: `Array2::from_shape_vec` -/
def tiles (r : Reader) (z : Zlib) (d width height : Nat) (size : Nat) (err : String) :
    Res (List UInt8) :=
  match tilesRaw r z d size err with
  | .ok raw =>
    let n := raw.length / size
    if height * width ≠ n then .err s!"InvalidTilesDimensions({n},{height},{width})" else .ok raw
  | e => e

end Tw.Map
