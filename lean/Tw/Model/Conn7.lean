import Tw.Model.Conn

/-!
# 0.7 connection (`net/src/connection7.rs`)

Handshake `Unconnected / Token / PendingConnect / Connecting / Pending / Online / Disconnected` with
a mandatory token pair (`own_token` expected on incoming, `their_token` attached to outgoing
packets).  As in `Conn6`, `feed` takes the result of `Packet::read` (`none` = read error); the 0.7
reader needs no hint.
-/
namespace Tw.Conn7
open Tw.Conn Tw.Time
open Tw.Gen.Conn

def tokenOfBytes (l : List Nat) : Nat := l.foldl (fun a b => a * 256 + b) 0

def TOKEN_NONE : Nat := tokenOfBytes P7.TOKEN_NONE

def cfg : Cfg := { chunkLim := 2 ^ P7.CHUNK_SIZE_BITS, sendChecksLim := false }

inductive Control where
  | keepAlive
  | connect (responseToken : Nat)
  | accept
  | close (reason : Bytes)
  | token (responseToken : Nat)
deriving Repr, DecidableEq

inductive Packet where
  | connless (token responseToken : Nat) (payload : Bytes)
  | control (ack : Nat) (token : Nat) (c : Control)
  | chunks (ack : Nat) (token : Nat) (requestResend : Bool) (numChunks : Nat) (chunks : List Chunk)
deriving Repr, DecidableEq

/-- uncompressed datagram size of `Packet::write` (upper bound when compression is chosen) -/
def Packet.wireSize : Packet → Nat
  | .connless _ _ d => P7.HEADER_SIZE_CONNLESS + d.length
  | .control _ tok c =>
    P7.HEADER_SIZE + 1
      + (match c with
         | .connect _ => 4
         | .token _ => 4 + (if tok = TOKEN_NONE then P7.TOKEN_REQUEST_PACKET_SIZE - P7.HEADER_SIZE - 1 - 4 else 0)
         | .close r => r.length + 1
         | _ => 0)
  | .chunks _ _ _ _ cs => P7.HEADER_SIZE + chunksSize cs

inductive State where
  | unconnected
  | token (own : Nat)
  | pendingConnect (own : Nat)
  | connecting (own their : Nat)
  | pending (own their : Nat)
  | online (own their : Nat) (o : Online)
  | disconnected
deriving Repr, DecidableEq

structure Conn where
  state : State
  send : Timeout
deriving Repr, DecidableEq

inductive Warn where
  | read | tokenMismatch | connlessTokenMismatch | connlessResponseTokenMismatch
deriving Repr, DecidableEq

structure Out where
  sent : List Packet := []
  events : List Event := []
  warns : List Warn := []
deriving Repr, DecidableEq

structure Env where
  now : Nat
  draws : List Nat := []

abbrev Res := Except Fail (Conn × Out)

def State.ownToken? : State → Option Nat
  | .token o | .pendingConnect o | .connecting o _ | .pending o _ | .online o _ _ => some o
  | _ => none

def State.theirToken? : State → Option Nat
  | .connecting _ t | .pending _ t | .online _ t _ => some t
  | _ => none

/-- `Token::random` of `protocol7.rs`: redraw until different from `TOKEN_NONE` -/
def tokenRandom : List Nat → Option Nat
  | [] => none
  | t :: rest => if t ≠ TOKEN_NONE then some t else tokenRandom rest

def Conn.new : Conn := ⟨.unconnected, .inactive⟩

/-- `Connection::needs_tick` -/
def Conn.needsTick (c : Conn) : Timeout :=
  match c.state with
  | .unconnected | .disconnected => .inactive
  | .online _ _ o => Timeout.min c.send o.resendDeadline
  | _ => Timeout.min c.send .inactive

/-- `ControlPacket::write` asserts that a response token is not `TOKEN_NONE` -/
def Packet.writeOk : Packet → Bool
  | .control _ _ (.connect rt) => rt != TOKEN_NONE
  | .control _ _ (.token rt) => rt != TOKEN_NONE
  | _ => true

/-- `PacketBuilder::send` -/
def emit (ps : List Packet) : Except Fail (List Packet) :=
  if !ps.all Packet.writeOk then .error (.panic "ControlPacket::write: response_token != TOKEN_NONE")
  else if ps.all (fun p => decide (p.wireSize ≤ maxPacketSize)) then .ok ps
  else .error (.panic "PacketBuilder::send: too short buffer provided")

def ofFlushed (tok : Nat) (f : Flushed) : Packet :=
  .chunks f.ack tok f.requestResend f.numChunks f.chunks

/-- `Connection::send_control_with_token` -/
def sendControlWith (st : State) (ctl : Control) (tok : Nat) : Except Fail (List Packet) :=
  let ack := match st with
    | .online _ _ o => o.ack
    | _ => 0
  emit [.control ack tok ctl]

/-- `Connection::send_control` -/
def sendControl (st : State) (ctl : Control) : Except Fail (List Packet) :=
  sendControlWith st ctl (st.theirToken?.getD TOKEN_NONE)

/-- `Connection::tick_action` -/
def tickAction (env : Env) (c : Conn) : Res :=
  let ctl? : Option Control := match c.state with
    | .token own => some (.token own)
    | .connecting own _ => some (.connect own)
    | .pending _ _ => some .accept
    | _ => none
  match c.state with
  | .online own their o =>
    if o.canSend then
      let (o1, fl) := o.flush
      match emit (fl.map (ofFlushed their)) with
      | .error e => .error e
      | .ok ps => .ok (⟨.online own their o1, Timeout.after env.now sendUs⟩, { sent := ps })
    else
      match sendControl c.state .keepAlive with
      | .error e => .error e
      | .ok ps => .ok ({ c with send := Timeout.after env.now sendUs }, { sent := ps })
  | _ =>
    match ctl? with
    | none => .ok (c, {})
    | some ctl =>
      match sendControl c.state ctl with
      | .error e => .error e
      | .ok ps => .ok ({ c with send := Timeout.after env.now sendUs }, { sent := ps })

/-- `Connection::connect` -/
def connect (env : Env) (c : Conn) : Res :=
  match c.state with
  | .unconnected =>
    match tokenRandom env.draws with
    | none => .error (.panic "secure_random: source exhausted")
    | some t => tickAction env { c with state := .token t }
  | _ => .error (.panic "connect: assert Unconnected")

/-- `Connection::disconnect` -/
def disconnect (_env : Env) (c : Conn) (reason : Bytes) : Res :=
  match c.state with
  | .disconnected => .error (.panic "disconnect: already disconnected")
  | _ =>
    if reason.any (· == 0) then .error (.panic "disconnect: reason must not contain NULs")
    else
      match sendControl c.state (.close reason) with
      | .error e => .error e
      | .ok ps => .ok ({ c with state := .disconnected }, { sent := ps })

/-- `Connection::flush` -/
def flush (env : Env) (c : Conn) : Res :=
  match c.state with
  | .online own their o =>
    let (o1, fl) := o.flush
    match emit (fl.map (ofFlushed their)) with
    | .error e => .error e
    | .ok ps => .ok (⟨.online own their o1, Timeout.after env.now sendUs⟩, { sent := ps })
  | _ => .error (.panic "state not online")

/-- `Connection::send` -/
def send (env : Env) (c : Conn) (data : Bytes) (vital : Bool) : Except Fail (Conn × SendRes × Out) :=
  match c.state with
  | .online own their o =>
    match o.send cfg env.now data vital with
    | .error e => .error e
    | .ok (o1, r, fl) =>
      match emit (fl.map (ofFlushed their)) with
      | .error e => .error e
      | .ok ps => .ok ({ c with state := .online own their o1 }, r, { sent := ps })
  | _ => .error (.panic "state not online")

/-- `Connection::send_connless` -/
def sendConnless (env : Env) (c : Conn) (data : Bytes) : Except Fail (Conn × SendRes × Out) :=
  match c.state with
  | .online own their _ =>
    let c1 := { c with send := Timeout.after env.now sendUs }
    if data.length > P7.connlessMax then .ok (c1, .tooLongData, {})
    else
      match emit [.connless their own data] with
      | .error e => .error e
      | .ok ps => .ok (c1, .ok, { sent := ps })
  | _ => .error (.panic "state not online")

def resendConn (env : Env) (own their : Nat) (o : Online) (send : Timeout) : Res :=
  match o.resend cfg env.now send with
  | .error e => .error e
  | .ok (o1, send1, fl) =>
    match emit (fl.map (ofFlushed their)) with
    | .error e => .error e
    | .ok ps => .ok (⟨.online own their o1, send1⟩, { sent := ps })

/-- `Connection::tick` -/
def tick (env : Env) (c : Conn) : Res :=
  let doResend := match c.state with
    | .online _ _ o => o.resendDeadline.triggered env.now
    | _ => false
  if doResend then
    match c.state with
    | .online own their o => resendConn env own their o c.send
    | _ => .ok (c, {})
  else if c.send.triggered env.now then tickAction env { c with send := .inactive }
  else .ok (c, {})

/-- `feed` for a connected packet, after the token check and `ack_chunks` -/
def feedBody (env : Env) (c : Conn) : Packet → Res
  | .connless _ _ _ => .ok (c, {})
  | .chunks _ _ rr _ chunks =>
    let st : Option (Nat × Nat × Online) := match c.state with
      | .online own their o => some (own, their, o)
      | .pending own their => some (own, their, .new)
      | _ => none
    match st with
    | none => .ok (c, {})
    | some (own, their, o) =>
      match o.receive cfg env.now c.send rr chunks with
      | .error e => .error e
      | .ok (o1, send1, fl, evs) =>
        match emit (fl.map (ofFlushed their)) with
        | .error e => .error e
        | .ok ps => .ok (⟨.online own their o1, send1⟩, { sent := ps, events := evs })
  | .control _ _ ctl =>
    match ctl with
    | .keepAlive => .ok (c, {})
    | .token their =>
      let r : Except Fail Conn := match c.state with
        | .unconnected =>
          match tokenRandom env.draws with
          | none => .error (.panic "secure_random: source exhausted")
          | some t => .ok { c with state := .pendingConnect t }
        | _ => .ok c
      match r with
      | .error e => .error e
      | .ok c1 =>
        match c1.state with
        | .pendingConnect own =>
          match sendControlWith c1.state (.token own) their with
          | .error e => .error e
          | .ok ps => .ok (c1, { sent := ps })
        | .token own => tickAction env { c1 with state := .connecting own their }
        | _ => .ok (c1, {})
    | .connect their =>
      match c.state with
      | .pendingConnect own => tickAction env { c with state := .pending own their }
      | _ => .ok (c, {})
    | .accept =>
      match c.state with
      | .connecting own their => .ok ({ c with state := .online own their .new }, { events := [.ready] })
      | _ => .ok (c, {})
    | .close reason => .ok ({ c with state := .disconnected }, { events := [.disconnect reason] })

/-- the token `feed` expects on a connected packet: `own_token` (or `TOKEN_NONE` without one), except
for the unauthenticated token request while `PendingConnect` -/
def expectedToken (st : State) (p : Packet) : Nat :=
  match st, p with
  | .pendingConnect own, .control _ tok (.token _) => if tok = TOKEN_NONE then TOKEN_NONE else own
  | st, _ => st.ownToken?.getD TOKEN_NONE

/-- `Connection::feed` on the result of `Packet::read` -/
def feed (env : Env) (c : Conn) (read : Option Packet) : Res :=
  match read with
  | none => .ok (c, { warns := [.read] })
  | some (.connless tok rtok payload) =>
    if some tok != c.state.ownToken? then .ok (c, { warns := [.connlessTokenMismatch] })
    else if some rtok != c.state.theirToken? then .ok (c, { warns := [.connlessResponseTokenMismatch] })
    else .ok (c, { events := [.connless payload] })
  | some p =>
    let (tok, ack) := match p with
      | .control ack tok _ => (tok, ack)
      | .chunks ack tok _ _ _ => (tok, ack)
      | .connless _ _ _ => (0, 0)
    if tok != expectedToken c.state p then .ok (c, { warns := [.tokenMismatch] })
    else
      match c.state with
      | .online own their o =>
        match o.feedAck ack with
        | .error e => .error e
        | .ok o1 => feedBody env { c with state := .online own their o1 } p
      | _ => feedBody env c p

/-! ## Operation sequences (the quantifier of C01–C04) -/

inductive Op where
  | connect
  | disconnect (reason : Bytes)
  | flush
  | send (data : Bytes) (vital : Bool)
  | sendConnless (data : Bytes)
  | tick
  | feed (read : Option Packet)

def step (env : Env) (c : Conn) : Op → Res
  | .connect => connect env c
  | .disconnect r => disconnect env c r
  | .flush => flush env c
  | .send d v =>
    match send env c d v with
    | .error e => .error e
    | .ok (c1, _, out) => .ok (c1, out)
  | .sendConnless d =>
    match sendConnless env c d with
    | .error e => .error e
    | .ok (c1, _, out) => .ok (c1, out)
  | .tick => tick env c
  | .feed rd => feed env c rd

def run : Conn → List (Env × Op) → Except Fail (Conn × List Out)
  | c, [] => .ok (c, [])
  | c, (env, op) :: rest =>
    match step env c op with
    | .error e => .error e
    | .ok (c1, out) =>
      match run c1 rest with
      | .error e => .error e
      | .ok (c2, outs) => .ok (c2, out :: outs)

/-- what `Packet::read` guarantees about its result: 10-bit ack and sequence numbers -/
def Packet.wf : Packet → Bool
  | .connless _ _ _ => true
  | .control ack _ _ => decide (ack < seqMod)
  | .chunks ack _ _ _ cs => decide (ack < seqMod) && chunksSeqOk cs

def State.isOnline : State → Bool
  | .online _ _ _ => true
  | _ => false

/-- the API's preconditions (see `Conn6.permitted`) -/
def permitted (env : Env) (c : Conn) : Op → Bool
  | .connect => c.state == .unconnected && (tokenRandom env.draws).isSome
  | .disconnect r => c.state != .disconnected && r.all (· != 0) && decide (r.length ≤ P7.CTRLMSG_CLOSE_REASON_LENGTH)
  | .flush => c.state.isOnline
  | .send _ _ => c.state.isOnline
  | .sendConnless _ => c.state.isOnline
  | .tick => true
  | .feed rd => rd.all Packet.wf && (tokenRandom env.draws).isSome

def runPermitted : Conn → List (Env × Op) → Bool
  | _, [] => true
  | c, (env, op) :: rest =>
    permitted env c op &&
      match step env c op with
      | .error _ => true
      | .ok (c1, _) => runPermitted c1 rest

/-- what C04 demands of a datagram handed to the send callback -/
def Packet.valid : Packet → Bool
  | .connless _ _ d => decide (d.length ≤ P7.connlessMax)
  | .control ack tok c => decide ((Packet.control ack tok c).wireSize ≤ maxPacketSize) && (Packet.control ack tok c).writeOk
  | .chunks ack tok rr n cs =>
    decide ((Packet.chunks ack tok rr n cs).wireSize ≤ maxPacketSize) && decide (n = cs.length) &&
      decide (cs.length ≤ maxNumChunks) && cs.all (fun c => cfg.accepts c.data.length) &&
      (decide (n ≠ 0) || rr)

end Tw.Conn7
