/-
Model of the teehistorian reader: `teehistorian/src/format/item.rs` (item kinds, `decode`,
`decode_rest`, extension items by UUID), `teehistorian/src/raw.rs` (`Buffer` with offset, refill,
compaction and growth; `Reader::new`/`Reader::read` with tick, prev_player_cid, in_tick,
next_item_kind, player and input tables), `bitmagic.rs` (`read_buffer` = append what the callback
delivered).

Conventions: an `i32` is an `Int` in range; `wrapping_add` is `wrap32 (a + b)`; the reachable
panic sites are discussed where they would occur; loops take fuel and `Tw.Props.C17` shows that the fuel
supplied suffices.  The JSON header (serde/chrono/uuid) is outside the model: a stream starts with
a fixed valid header of `hl` bytes whose parse completes exactly when all `hl` bytes are buffered.
-/
import Tw.Model.Packer
import Tw.Gen.Teehistorian

namespace Tw.Teehistorian
open Tw.Packer

/-! ### Errors -/

/-- `format::item::Error` -/
inductive ItemErr where
  | unknownType (v : Int)
  | negativeDt
  | negativeNumArgs
  | numArgsTooLarge
  deriving DecidableEq, Repr

/-- `format::HeaderError`: the magic check of the framing, or one of the `Malformed*` results of
the external JSON/field parsers (identified by an opaque code). -/
inductive HeaderErr where
  | wrongMagic
  | malformed (code : Nat)
  deriving DecidableEq, Repr

/-- `format::Error` -/
inductive Err where
  | header (e : HeaderErr)
  | unknownVersion
  | item (e : ItemErr)
  | tickOverflow
  | unexpectedEnd
  | invalidClientId
  | playerNewDuplicate
  | playerDiffWithoutNew
  | playerOldWithoutNew
  | inputDiffWithoutNew
  deriving DecidableEq, Repr

/-! ### Parsers: `List UInt8 → needMore | err e | ok x rest` -/

/-- Result of one parse attempt on the bytes buffered so far.  `needMore` is
`MaybeEnd::UnexpectedEnd`; `rest` is what the unpacker has not consumed
(`consumed = input.length - rest.length` is `Unpacker::num_bytes_read`). -/
inductive PR (α : Type) where
  | needMore
  | err (e : ItemErr)
  | ok (x : α) (rest : List UInt8)
  deriving Repr, DecidableEq

abbrev Parser (α : Type) := List UInt8 → PR α

def PR.bind {α β : Type} (r : PR α) (f : α → Parser β) : PR β :=
  match r with
  | .needMore => .needMore
  | .err e => .err e
  | .ok x rest => f x rest

def Parser.andThen {α β : Type} (p : Parser α) (f : α → Parser β) : Parser β :=
  fun inp => (p inp).bind f

def Parser.pure {α : Type} (x : α) : Parser α := fun inp => .ok x inp

def Parser.fail {α : Type} (e : ItemErr) : Parser α := fun _ => .err e

/-- `Unpacker::read_int(&mut Ignore)` -/
def pInt : Parser Int := fun inp =>
  match readInt inp with
  | none => .needMore
  | some (v, rest, _) => .ok v rest

/-- `Unpacker::read_string` -/
def pStr : Parser (List UInt8) := fun inp =>
  match readString inp with
  | none => .needMore
  | some (s, rest) => .ok s rest

/-- `Unpacker::read_raw(n)` -/
def pRaw (n : Nat) : Parser (List UInt8) := fun inp =>
  if inp.length < n then .needMore else .ok (inp.take n) (inp.drop n)

/-- `Unpacker::read_data(&mut Ignore)`: a negative length is reported as `UnexpectedEnd` too. -/
def pData : Parser (List UInt8) := fun inp =>
  match readInt inp with
  | none => .needMore
  | some (v, rest, _) =>
    if v < 0 then .needMore
    else if v.toNat > rest.length then .needMore
    else .ok (rest.take v.toNat) (rest.drop v.toNat)

/-- `Unpacker::read_rest` -/
def pRest : Parser (List UInt8) := fun inp => .ok inp []

/-- `n` consecutive `read_int`s (the `[i32; INPUT_LEN]` literals) -/
def pInts : Nat → Parser (List Int)
  | 0 => Parser.pure []
  | n + 1 => pInt.andThen fun v => (pInts n).andThen fun vs => Parser.pure (v :: vs)

/-! ### Items -/

/-- `format::item::Kind` -/
inductive Kind where
  | playerDiff (cid : Int)
  | finish
  | tickSkip
  | playerNew (cid : Int)
  | playerOld (cid : Int)
  | inputDiff
  | inputNew
  | message
  | join
  | drop
  | consoleCommand
  | ex
  deriving DecidableEq, Repr

/-- `Kind::player_cid` -/
def Kind.playerCid : Kind → Option Int
  | .playerDiff c => some c
  | .playerNew c => some c
  | .playerOld c => some c
  | _ => none

inductive Val where
  | int (v : Int)
  | bytes (b : List UInt8)
  deriving DecidableEq, Repr

/-- An item the reader passes through unchanged (`Message`, `Join`, `Drop`, `ConsoleCommand`,
every extension item, `UnknownEx`): variant name, `Item::cid()`, field values in declaration
order. -/
structure Other where
  name : String
  cid : Option Int
  vals : List Val
  deriving DecidableEq, Repr

/-- `format::Item` -/
inductive FItem where
  | playerDiff (cid dx dy : Int)
  | finish
  | tickSkip (dt : Int)
  | playerNew (cid x y : Int)
  | playerOld (cid : Int)
  | inputDiff (cid : Int) (diff : List Int)
  | inputNew (cid : Int) (new : List Int)
  | other (o : Other)
  deriving DecidableEq, Repr

/-- `format::Item::cid` -/
def FItem.cid : FItem → Option Int
  | .playerDiff c _ _ => some c
  | .finish => none
  | .tickSkip _ => none
  | .playerNew c _ _ => some c
  | .playerOld c => some c
  | .inputDiff c _ => some c
  | .inputNew c _ => some c
  | .other o => o.cid

/-- `Kind::decode` after the item id `i` has been read -/
def kindOfId (hasEx : Bool) (i : Int) : Parser Kind :=
  if i ≥ 0 then Parser.pure (.playerDiff i)
  else if i = Gen.Teehistorian.FINISH then Parser.pure .finish
  else if i = Gen.Teehistorian.TICK_SKIP then Parser.pure .tickSkip
  else if i = Gen.Teehistorian.PLAYER_NEW then pInt.andThen fun c => Parser.pure (.playerNew c)
  else if i = Gen.Teehistorian.PLAYER_OLD then pInt.andThen fun c => Parser.pure (.playerOld c)
  else if i = Gen.Teehistorian.INPUT_DIFF then Parser.pure .inputDiff
  else if i = Gen.Teehistorian.INPUT_NEW then Parser.pure .inputNew
  else if i = Gen.Teehistorian.MESSAGE then Parser.pure .message
  else if i = Gen.Teehistorian.JOIN then Parser.pure .join
  else if i = Gen.Teehistorian.DROP then Parser.pure .drop
  else if i = Gen.Teehistorian.CONSOLE_COMMAND then Parser.pure .consoleCommand
  else if i = Gen.Teehistorian.EX ∧ hasEx then Parser.pure .ex
  else Parser.fail (.unknownType i)

/-- `Kind::decode` -/
def parseKind (hasEx : Bool) : Parser Kind := pInt.andThen (kindOfId hasEx)

/-- Field kinds of the generated `decodeReads` table. -/
inductive FieldK where
  | int | str | data | uuid | rest
  deriving DecidableEq, Repr

def FieldK.ofCode : Nat → FieldK
  | 0 => .int
  | 1 => .str
  | 2 => .data
  | 3 => .uuid
  | _ => .rest

def pField : FieldK → Parser Val
  | .int => pInt.andThen fun v => Parser.pure (.int v)
  | .str => pStr.andThen fun s => Parser.pure (.bytes s)
  | .data => pData.andThen fun s => Parser.pure (.bytes s)
  | .uuid => (pRaw 16).andThen fun s => Parser.pure (.bytes s)
  | .rest => pRest.andThen fun s => Parser.pure (.bytes s)

def pFields : List FieldK → Parser (List Val)
  | [] => Parser.pure []
  | k :: ks => (pField k).andThen fun v => (pFields ks).andThen fun vs => Parser.pure (v :: vs)

/-- One row of the extension table: UUID, variant name, fields of its `decode`, whether
`Item::cid` returns the first field. -/
structure ExRow where
  uuid : List UInt8
  name : String
  fields : List FieldK
  hasCid : Bool
  deriving Repr

/-- The `decode_ex` dispatch table, assembled from the generated tables (UUID constants, match
arms, per-struct read sequences, `cid()` arms). -/
def exTable : List ExRow :=
  Gen.Teehistorian.exArms.filterMap fun (u, name) =>
    match Gen.Teehistorian.uuids.lookup u, Gen.Teehistorian.decodeReads.lookup name with
    | some bytes, some (reads, _) =>
      some { uuid := bytes.map UInt8.ofNat, name := name, fields := reads.map FieldK.ofCode,
             hasCid := Gen.Teehistorian.cidSome.contains name }
    | _, _ => none

def firstInt : List Val → Option Int
  | .int v :: _ => some v
  | _ => none

/-- The part of `Item::decode_ex` after `uuid` and `data` have been read: the payload is decoded
by a *fresh* unpacker; its `UnexpectedEnd` propagates as `UnexpectedEnd` of the whole item. -/
def decodeExPayload (uuid data : List UInt8) : Parser FItem := fun rest =>
  match exTable.find? (fun r => r.uuid == uuid) with
  | some row =>
    match pFields row.fields data with
    | .ok vals _ =>
      .ok (.other { name := row.name, cid := if row.hasCid then firstInt vals else none, vals := vals }) rest
    | .needMore => .needMore
    | .err e => .err e
  | none => .ok (.other { name := "UnknownEx", cid := none, vals := [.bytes uuid, .bytes data] }) rest

/-- The argument loop of `ConsoleCommand::decode`: `n` strings into an `ArrayVec` of capacity
`CONSOLE_COMMAND_MAX_ARGS`; the string is read before the push is attempted. -/
def pArgs : Nat → List (List UInt8) → Parser (List (List UInt8))
  | 0, acc => Parser.pure acc
  | n + 1, acc => pStr.andThen fun s =>
      if acc.length ≥ Gen.Teehistorian.CONSOLE_COMMAND_MAX_ARGS then Parser.fail .numArgsTooLarge
      else pArgs n (acc ++ [s])

/-- `Kind::decode_rest` -/
def parseRest : Kind → Parser FItem
  | .playerDiff cid => pInt.andThen fun dx => pInt.andThen fun dy => Parser.pure (.playerDiff cid dx dy)
  | .finish => Parser.pure .finish
  | .tickSkip => pInt.andThen fun dt =>
      if dt < 0 then Parser.fail .negativeDt else Parser.pure (.tickSkip dt)
  | .playerNew cid => pInt.andThen fun x => pInt.andThen fun y => Parser.pure (.playerNew cid x y)
  | .playerOld cid => Parser.pure (.playerOld cid)
  | .inputDiff => pInt.andThen fun cid => (pInts Gen.Teehistorian.INPUT_LEN).andThen fun d =>
      Parser.pure (.inputDiff cid d)
  | .inputNew => pInt.andThen fun cid => (pInts Gen.Teehistorian.INPUT_LEN).andThen fun d =>
      Parser.pure (.inputNew cid d)
  | .message => pInt.andThen fun cid => pData.andThen fun msg =>
      Parser.pure (.other { name := "Message", cid := some cid, vals := [.int cid, .bytes msg] })
  | .join => pInt.andThen fun cid =>
      Parser.pure (.other { name := "Join", cid := some cid, vals := [.int cid] })
  | .drop => pInt.andThen fun cid => pStr.andThen fun reason =>
      Parser.pure (.other { name := "Drop", cid := some cid, vals := [.int cid, .bytes reason] })
  | .consoleCommand => pInt.andThen fun cid => pInt.andThen fun flags => pStr.andThen fun cmd =>
      pInt.andThen fun n =>
        if n < 0 then Parser.fail .negativeNumArgs
        else (pArgs n.toNat []).andThen fun args =>
          -- `flag_mask` is the `u32` bit pattern of the integer
          let vals : List Val := [.int cid, .int (flags % 4294967296), .bytes cmd] ++ args.map Val.bytes
          Parser.pure (.other { name := "ConsoleCommand", cid := some cid, vals := vals })
  | .ex => (pRaw 16).andThen fun uuid => pData.andThen fun data => decodeExPayload uuid data

/-! ### `raw::Item`: what `Reader::read` returns -/

inductive Item where
  | tickStart (t : Int)
  | tickEnd (t : Int)
  | playerNew (cid x y : Int)
  | playerChange (cid x y oldX oldY : Int)
  | playerOld (cid x y : Int)
  | input (cid : Int) (vals : List Int)
  | other (o : Other)
  deriving DecidableEq, Repr

/-! ### Tables (`BTreeMap<usize, _>`, modelled as an association list; before the repair of finding
D18 they were `VecMap`s — arrays of options indexed by the client id, see `Legacy` below) -/

def tGet {β : Type} : List (Nat × β) → Nat → Option β
  | [], _ => none
  | (k', v) :: t, k => if k' = k then some v else tGet t k

def tErase {β : Type} : List (Nat × β) → Nat → List (Nat × β)
  | [], _ => []
  | (k', v) :: t, k => if k' = k then tErase t k else (k', v) :: tErase t k

def tSet {β : Type} (t : List (Nat × β)) (k : Nat) (v : β) : List (Nat × β) := (k, v) :: tErase t k

/-- `i32::wrapping_add` result for the mathematical sum `v` -/
def wrap32 (v : Int) : Int := (v + 2147483648) % 4294967296 - 2147483648

def i32Max : Int := 2147483647

def zipAdd : List Int → List Int → List Int
  | a :: as, b :: bs => wrap32 (a + b) :: zipAdd as bs
  | _, _ => []

/-! ### Reader state -/

/-- What the reader knows from the header: the format version (`has_ex`).  (Before the repair of
finding D18 the model also needed the number of `VecMap` slots the machine can allocate; the tables
are sparse maps now and an insertion costs one node whatever the client id is.) -/
structure Cfg where
  hasEx : Bool
  deriving Repr

structure Reader where
  tick : Int
  players : List (Nat × (Int × Int))
  inputs : List (Nat × List Int)
  maxCid : Int
  prevCid : Option Int
  nextKind : Option Kind
  inTick : Bool
  deriving Repr

/-- `Reader::empty` -/
def Reader.empty : Reader :=
  { tick := 0, players := [], inputs := [], maxCid := -1, prevCid := none, nextKind := none, inTick := false }

/-- `Reader::cids().end` = `max_cid.saturating_add(1)` -/
def Reader.cidsEnd (rd : Reader) : Int := if rd.maxCid + 1 > i32Max then i32Max else rd.maxCid + 1

/-- The part of `Reader::read` between obtaining the item kind and `read_item`: either a
synthesised `TickStart`/`TickEnd` is returned (and the kind is kept in `next_item_kind`), or the
call goes on to read the item. -/
inductive Pre where
  | emit (it : Item) (rd : Reader)
  | err (e : Err)
  | proceed

def prevGe (prev : Option Int) (cid : Int) : Bool :=
  match prev with
  | some p => decide (p ≥ cid)
  | none => false

def Reader.pre (rd : Reader) (k : Kind) : Pre :=
  if k ≠ .tickSkip ∧ k ≠ .finish ∧ rd.inTick = false then
    .emit (.tickStart rd.tick) { rd with nextKind := some k, inTick := true }
  else
    match k.playerCid with
    | some cid =>
      if prevGe rd.prevCid cid then
        if rd.tick + 1 > i32Max then .err .tickOverflow
        else .emit (.tickEnd rd.tick)
          { rd with tick := rd.tick + 1, prevCid := none, nextKind := some k, inTick := false }
      else .proceed
    | none =>
      if k = .finish ∧ rd.inTick = true then
        .emit (.tickEnd rd.tick) { rd with nextKind := some k, inTick := false }
      else .proceed

/-- Result of the part of `Reader::read` after `read_item`. -/
inductive Post where
  | item (it : Item) (rd : Reader)
  | finished (rd : Reader)
  | err (e : Err) (rd : Reader)

def maxInt (a b : Int) : Int := if a ≥ b then a else b

def Reader.post (rd0 : Reader) (it : FItem) : Post :=
  let rd : Reader := match it.cid with
    | some c => { rd0 with maxCid := maxInt rd0.maxCid c }
    | none => rd0
  match it with
  | .tickSkip dt =>
    -- `prev_player_cid` is cleared as in the documentation's pseudo-code (repaired defect D11)
    -- `dt.try_i32()` cannot fail: `dt` came from a non-negative `i32`
    if rd.tick + 1 > i32Max ∨ rd.tick + 1 + dt > i32Max then .err .tickOverflow rd
    else if rd.inTick then
      .item (.tickEnd rd.tick) { rd with tick := rd.tick + 1 + dt, prevCid := none, inTick := false }
    else
      .item (.tickStart (rd.tick + 1 + dt)) { rd with tick := rd.tick + 1 + dt, prevCid := none, inTick := true }
  | .other o => .item (.other o) rd
  | .playerDiff cid dx dy =>
    let rd := { rd with prevCid := some cid }
    if cid < 0 then .err .invalidClientId rd
    else match tGet rd.players cid.toNat with
      | none => .err .playerDiffWithoutNew rd
      | some (x, y) =>
        let nx := wrap32 (x + dx)
        let ny := wrap32 (y + dy)
        .item (.playerChange cid nx ny x y) { rd with players := tSet rd.players cid.toNat (nx, ny) }
  | .playerNew cid x y =>
    let rd := { rd with prevCid := some cid }
    if cid < 0 then .err .invalidClientId rd
    else match tGet rd.players cid.toNat with
      -- `insert` has already replaced the value when the duplicate is noticed
      | some _ => .err .playerNewDuplicate { rd with players := tSet rd.players cid.toNat (x, y) }
      | none => .item (.playerNew cid x y) { rd with players := tSet rd.players cid.toNat (x, y) }
  | .playerOld cid =>
    let rd := { rd with prevCid := some cid }
    if cid < 0 then .err .invalidClientId rd
    else match tGet rd.players cid.toNat with
      | none => .err .playerOldWithoutNew rd
      | some (x, y) => .item (.playerOld cid x y) { rd with players := tErase rd.players cid.toNat }
  | .inputDiff cid diff =>
    if cid < 0 then .err .invalidClientId rd
    else match tGet rd.inputs cid.toNat with
      | none => .err .inputDiffWithoutNew rd
      | some inp =>
        let n := zipAdd inp diff
        .item (.input cid n) { rd with inputs := tSet rd.inputs cid.toNat n }
  | .inputNew cid new =>
    if cid < 0 then .err .invalidClientId rd
    else .item (.input cid new) { rd with inputs := tSet rd.inputs cid.toNat new }
  | .finish => .finished rd

/-! ### Buffer and callback -/

/-- `raw::Buffer`.  The bytes before `offset` have been consumed and are never looked at again,
so the model keeps only their number: the `Vec` holds `offset` consumed bytes followed by
`unread`; `cap` is its capacity.  (`offset ≤ len` therefore holds by construction; in the Rust it
holds because `offset` only ever grows by `num_bytes_read` of an unpacker over
`buffer[offset..]`, so the slice expression `&self.buffer[self.offset..]` cannot panic.) -/
structure Buffer where
  offset : Nat
  unread : List UInt8
  cap : Nat
  deriving Repr

def Buffer.empty : Buffer := { offset := 0, unread := [], cap := 0 }

/-- `self.buffer.len()` -/
def Buffer.len (b : Buffer) : Nat := b.offset + b.unread.length

/-- What the read callback does at one invocation: return (up to) `d` bytes, or fail
(`Err(e)` of `Callback::read_at_most`, an I/O error in `file.rs`). -/
inductive CbEv where
  | size (d : Nat)
  | fail
  deriving DecidableEq, Repr

/-- The read callback: the bytes it has not delivered yet and what it is going to do at its next
invocations.  `size d` delivers `min d space remaining` bytes (possibly `Some(0)`); when the list
is exhausted the callback delivers as much as fits, and `None` (EOF) once nothing is left.  Every
callback behaviour whose read results concatenate to the stream is of this form (see
`Cb.ofChunks`).

`strictEof` models `file.rs`, where the callback is `File::read`: a read that returns `Ok(0)` is
EOF, so once nothing is left a *data* read (`d ≠ 0`) reports `None` at once, while `d = 0` stands for
`ErrorKind::Interrupted`, which is passed on as `Some(0)`. -/
structure Cb where
  rem : List UInt8
  ds : List CbEv
  strictEof : Bool := false
  deriving Repr

inductive CbRes where
  | data (bytes : List UInt8) (c : Cb)
  | eof
  | fail

def Cb.read (c : Cb) (space : Nat) : CbRes :=
  match c.ds with
  | .fail :: _ => .fail
  | .size d :: ds' =>
    if c.strictEof = true ∧ d ≠ 0 ∧ c.rem.isEmpty = true then .eof
    else
      let n := min d (min space c.rem.length)
      .data (c.rem.take n) { c with rem := c.rem.drop n, ds := ds' }
  | [] =>
    if c.rem.isEmpty then .eof
    else
      let n := min space c.rem.length
      .data (c.rem.take n) { c with rem := c.rem.drop n, ds := [] }

/-- A fragmentation given explicitly: the list of read results (empty ones allowed) whose
concatenation is the stream; after the last one the callback reports EOF. -/
def Cb.ofChunks (cs : List (List UInt8)) : Cb :=
  { rem := cs.flatten, ds := cs.map fun ch => .size ch.length }

/-- The callback never fails. -/
def Cb.noFail (c : Cb) : Prop := CbEv.fail ∉ c.ds

instance (c : Cb) : Decidable c.noFail := by unfold Cb.noFail; infer_instance

/-- The first step of `Buffer::read_more` when the vector is full: compaction
(`drain(0..offset)`) if something has been consumed, else growth (`reserve` of `BUFFER_SIZE`, or
of the current length once that is larger).  Afterwards `len < cap`, so the recursive call takes
the reading branch. -/
def Buffer.makeRoom (b : Buffer) : Buffer :=
  if b.len ≠ b.cap then b
  else if b.offset ≠ 0 then { b with offset := 0 }
  else
    { b with cap := b.len + (if b.len < Gen.Teehistorian.BUFFER_SIZE then Gen.Teehistorian.BUFFER_SIZE else b.len) }

inductive More where
  | more (b : Buffer) (c : Cb)
  /-- the callback reported EOF: `Err(UnexpectedEnd)` -/
  | eof
  /-- the callback failed: `Err(Error::Cb(e))` -/
  | fail

/-- `Buffer::read_more` -/
def readMore (b : Buffer) (c : Cb) : More :=
  let b' := b.makeRoom
  match c.read (b'.cap - b'.len) with
  | .eof => .eof
  | .fail => .fail
  | .data bytes c' => .more { b' with unread := b'.unread ++ bytes } c'

inductive LoopRes (α : Type) where
  | ok (x : α) (b : Buffer) (c : Cb)
  | err (e : Err)
  | cbErr
  | outOfFuel

/-- `Buffer::read_kind` / `Buffer::read_item` / the loop of `Reader::new_impl`: parse from the
saved offset, commit the offset on success, refill and retry on `UnexpectedEnd`. -/
def parseLoop {α : Type} (p : Parser α) : Nat → Buffer → Cb → LoopRes α
  | 0, _, _ => .outOfFuel
  | fuel + 1, b, c =>
    match p b.unread with
    | .ok x rest => .ok x { b with offset := b.offset + (b.unread.length - rest.length), unread := rest } c
    | .err e => .err (.item e)
    | .needMore =>
      match readMore b c with
      | .eof => .err .unexpectedEnd
      | .fail => .cbErr
      | .more b' c' => parseLoop p fuel b' c'

/-- Number of callback invocations that can still succeed. -/
def Cb.measure (c : Cb) : Nat := c.ds.length + c.rem.length

/-- What reading the header yields once its framing is complete. -/
inductive HeaderRes where
  | version (v : Int)
  | bad (e : HeaderErr)
  deriving DecidableEq, Repr

/-- The magic bytes (`format::UUID`, generated). -/
def magic : List UInt8 := Gen.Teehistorian.MAGIC.map UInt8.ofNat

/-- `raw::read_header`: the framing of the header — 16 magic bytes (`read_magic`; a wrong magic is
an error as soon as 16 bytes are there), then a NUL-terminated string (`read_string`) — with the
content parsers (serde_json, chrono, uuid, `str::parse`) as the parameter `json`, which maps the
header text to the `version` field or to a `Malformed*` code. -/
def pHeader (json : List UInt8 → Except Nat Int) : Parser HeaderRes :=
  (pRaw Gen.Teehistorian.MAGIC_LEN).andThen fun m =>
    if m ≠ magic then Parser.pure (.bad .wrongMagic)
    else pStr.andThen fun text =>
      Parser.pure (match json text with
        | .ok v => .version v
        | .error code => .bad (.malformed code))

inductive ReadRes where
  | item (it : Item) (rd : Reader) (b : Buffer) (c : Cb)
  | finished (rd : Reader)
  | err (e : Err) (rd : Reader)
  | cbErr (rd : Reader)
  | outOfFuel

/-- `Reader::read` from the point where the item kind is known (`rd.nextKind` has been taken). -/
def Reader.readWithKind (_cfg : Cfg) (rd : Reader) (k : Kind) (b : Buffer) (c : Cb) : ReadRes :=
  match rd.pre k with
  | .emit it rd' => .item it rd' b c
  | .err e => .err e rd
  | .proceed =>
    match parseLoop (parseRest k) (c.measure + 1) b c with
    | .err e => .err e rd
    | .cbErr => .cbErr rd
    | .outOfFuel => .outOfFuel
    | .ok fit b c =>
      match rd.post fit with
      | .item it rd' => .item it rd' b c
      | .finished rd' => .finished rd'
      | .err e rd' => .err e rd'

/-- `Reader::read` -/
def Reader.read (cfg : Cfg) (rd : Reader) (b : Buffer) (c : Cb) : ReadRes :=
  match rd.nextKind with
  | some k => Reader.readWithKind cfg { rd with nextKind := none } k b c
  | none =>
    match parseLoop (parseKind cfg.hasEx) (c.measure + 1) b c with
    | .err e => .err e { rd with nextKind := none }
    | .cbErr => .cbErr { rd with nextKind := none }
    | .outOfFuel => .outOfFuel
    | .ok k b c => Reader.readWithKind cfg { rd with nextKind := none } k b c

/-! ### Running a whole stream -/

inductive Final where
  | finished
  | err (e : Err)
  /-- the read callback failed: `Error::Cb(e)` / `Error::Io(e)` -/
  | cbErr
  | outOfFuel
  deriving DecidableEq, Repr

/-- What the accessors of the reader return after the last `read` call: `cids().end`, and the two
tables behind `player_pos(cid)` / `input(cid)`. -/
structure Access where
  cidsEnd : Int
  players : List (Nat × (Int × Int))
  inputs : List (Nat × List Int)
  deriving DecidableEq, Repr

/-- `Reader::new` failed: there is no reader to ask. -/
def Access.none : Access := ⟨0, [], []⟩

def Reader.access (rd : Reader) : Access := ⟨rd.cidsEnd, rd.players, rd.inputs⟩

/-- `Reader::player_pos(cid)` for a non-negative `cid` (a negative one panics: `assert_usize`) -/
def Access.playerPos (a : Access) (cid : Nat) : Option (Int × Int) := tGet a.players cid

/-- `Reader::input(cid)` for a non-negative `cid` -/
def Access.input (a : Access) (cid : Nat) : Option (List Int) := tGet a.inputs cid

structure Output where
  items : List Item
  final : Final
  /-- the accessors after the last call -/
  access : Access
  deriving DecidableEq, Repr

/-- `Reader::cids().end` after the last call -/
def Output.cidsEnd (o : Output) : Int := o.access.cidsEnd

def Output.cons (it : Item) (o : Output) : Output := { o with items := it :: o.items }

/-- Call `Reader::read` until it returns `Ok(None)` or an error. -/
def runItems (cfg : Cfg) : Nat → Reader → Buffer → Cb → Output
  | 0, rd, _, _ => ⟨[], .outOfFuel, rd.access⟩
  | fuel + 1, rd, b, c =>
    match rd.read cfg b c with
    | .item it rd' b' c' => (runItems cfg fuel rd' b' c').cons it
    | .finished rd' => ⟨[], .finished, rd'.access⟩
    | .err e rd' => ⟨[], .err e, rd'.access⟩
    | .cbErr rd' => ⟨[], .cbErr, rd'.access⟩
    | .outOfFuel => ⟨[], .outOfFuel, rd.access⟩

/-- Enough `Reader::read` calls for a stream of `n` bytes: every item kind costs at least one
byte and leads to at most four calls. -/
def readFuel (n : Nat) : Nat := 4 * n + 8

/-- The environment of a whole reading: the external header-content parser. -/
structure Env where
  json : List UInt8 → Except Nat Int

/-- `Reader::from_header` -/
def Env.cfgOf (_env : Env) (v : Int) : Option Cfg :=
  if v = 1 then some { hasEx := false }
  else if v = 2 then some { hasEx := true }
  else none

/-- `Reader::new` followed by `read` until the end, for a given callback. -/
def runCb (env : Env) (c : Cb) : Output :=
  match parseLoop (pHeader env.json) (c.measure + 1) Buffer.empty c with
  | .err e => ⟨[], .err e, Access.none⟩
  | .cbErr => ⟨[], .cbErr, Access.none⟩
  | .outOfFuel => ⟨[], .outOfFuel, Access.none⟩
  | .ok (.bad e) _ _ => ⟨[], .err (.header e), Access.none⟩
  | .ok (.version v) b c' =>
    match env.cfgOf v with
    | none => ⟨[], .err .unknownVersion, Access.none⟩
    | some cfg => runItems cfg (readFuel c.rem.length) Reader.empty b c'

/-- … the callback returning the read sizes `ds`.  `total` is the whole file, header included. -/
def run (env : Env) (total : List UInt8) (ds : List Nat) : Output :=
  runCb env { rem := total, ds := ds.map CbEv.size }

/-- One `read(2)` on the file as `file.rs` issues it (`count` = free buffer space > 0): the kernel
returns between 1 and `n` bytes — never 0 unless the file is at its end, which is why `n` is
positive by construction —, or fails with `EINTR`, or fails with another error. -/
inductive OsRead where
  | data (n : Nat) (pos : 0 < n)
  | eintr
  | eio

def OsRead.ev : OsRead → CbEv
  | .data n _ => .size n
  | .eintr => .size 0
  | .eio => .fail

/-- `file.rs`: `CallbackData::read_at_most` over a file that behaves as `evs` says: `Ok(0)` is
EOF, `Ok(n)` is `Some(n)`, `ErrorKind::Interrupted` is `Some(0)`, any other error is passed on. -/
def fileCb (total : List UInt8) (evs : List OsRead) : Cb :=
  { rem := total, ds := evs.map OsRead.ev, strictEof := true }

/-- The public `Reader` (`file.rs`): `Reader::new`/`open`, then `read` until `Ok(None)`/`Err`. -/
def runFile (env : Env) (total : List UInt8) (evs : List OsRead) : Output :=
  runCb env (fileCb total evs)

/-! ### Reference semantics without buffer: the stream as a list of records -/

/-- One complete record of the stream. -/
structure Rec where
  kind : Kind
  item : FItem
  deriving DecidableEq, Repr

/-- How the record list ends. -/
inductive Tail where
  /-- a `Finish` record was read (it is the last element of the list) -/
  | afterFinish
  /-- the stream ends inside (or before) an item id -/
  | kindEnd
  | kindErr (e : ItemErr)
  /-- the item id `k` is complete but the rest of the record is cut off -/
  | restEnd (k : Kind)
  | restErr (k : Kind) (e : ItemErr)
  | outOfFuel
  deriving DecidableEq, Repr

/-- Split a stream (after the header) into records. -/
def parseAll (hasEx : Bool) : Nat → List UInt8 → List Rec × Tail
  | 0, _ => ([], .outOfFuel)
  | fuel + 1, s =>
    match parseKind hasEx s with
    | .needMore => ([], .kindEnd)
    | .err e => ([], .kindErr e)
    | .ok k rest =>
      match parseRest k rest with
      | .needMore => ([], .restEnd k)
      | .err e => ([], .restErr k e)
      | .ok it rest' =>
        if k = .finish then ([⟨k, it⟩], .afterFinish)
        else
          let r := parseAll hasEx fuel rest'
          (⟨k, it⟩ :: r.1, r.2)

/-- The records of a stream whose first item id `k` has already been read. -/
def parseAfterKind (hasEx : Bool) (fuel : Nat) (k : Kind) (s : List UInt8) : List Rec × Tail :=
  match parseRest k s with
  | .needMore => ([], .restEnd k)
  | .err e => ([], .restErr k e)
  | .ok it rest' =>
    if k = .finish then ([⟨k, it⟩], .afterFinish)
    else
      let r := parseAll hasEx fuel rest'
      (⟨k, it⟩ :: r.1, r.2)

/-- Result of repeating `Reader.pre` for one item id. -/
inductive PreEnd where
  | ready (rd : Reader)
  | err (e : Err) (rd : Reader)
  | stuck

/-- Repeat `Reader.pre` until it says `proceed` (at most three synthesised items). -/
def preAll : Nat → Reader → Kind → List Item × PreEnd
  | 0, _, _ => ([], .stuck)
  | n + 1, rd, k =>
    match rd.pre k with
    | .proceed => ([], .ready rd)
    | .err e => ([], .err e rd)
    | .emit it rd' =>
      let (its, e) := preAll n { rd' with nextKind := none } k
      (it :: its, e)

/-- The reader's output for a list of records: reference semantics of `Reader::read`. -/
def interp (cfg : Cfg) (rd : Reader) : List Rec → Tail → Output
  | [], tail =>
    match tail with
    | .afterFinish => ⟨[], .outOfFuel, rd.access⟩   -- not reached: the `Finish` record ends `interp` below
    | .kindEnd => ⟨[], .err .unexpectedEnd, rd.access⟩
    | .kindErr e => ⟨[], .err (.item e), rd.access⟩
    | .outOfFuel => ⟨[], .outOfFuel, rd.access⟩
    | .restEnd k =>
      match preAll 4 rd k with
      | (its, .ready rd') => ⟨its, .err .unexpectedEnd, rd'.access⟩
      | (its, .err e rd') => ⟨its, .err e, rd'.access⟩
      | (its, .stuck) => ⟨its, .outOfFuel, rd.access⟩
    | .restErr k e =>
      match preAll 4 rd k with
      | (its, .ready rd') => ⟨its, .err (.item e), rd'.access⟩
      | (its, .err e' rd') => ⟨its, .err e', rd'.access⟩
      | (its, .stuck) => ⟨its, .outOfFuel, rd.access⟩
  | r :: rs, tail =>
    match preAll 4 rd r.kind with
    | (its, .stuck) => ⟨its, .outOfFuel, rd.access⟩
    | (its, .err e rd') => ⟨its, .err e, rd'.access⟩
    | (its, .ready rd') =>
      match rd'.post r.item with
      | .item it rd'' =>
        let o := interp cfg rd'' rs tail
        { o with items := its ++ it :: o.items }
      | .finished rd'' => ⟨its, .finished, rd''.access⟩
      | .err e rd'' => ⟨its, .err e, rd''.access⟩

/-- What reading the stream `s` (the bytes after the header) yields, independent of any buffer. -/
def runWhole (cfg : Cfg) (s : List UInt8) : Output :=
  let r := parseAll cfg.hasEx (s.length + 1) s
  interp cfg Reader.empty r.1 r.2

/-- What reading the whole file `total` (header included) yields, independent of any buffer:
the header framing is parsed on the complete byte string. -/
def reference (env : Env) (total : List UInt8) : Output :=
  match pHeader env.json total with
  | .needMore => ⟨[], .err .unexpectedEnd, Access.none⟩
  | .err e => ⟨[], .err (.item e), Access.none⟩   -- not reached: the header parser has no `err` result
  | .ok (.bad e) _ => ⟨[], .err (.header e), Access.none⟩
  | .ok (.version v) rest =>
    match env.cfgOf v with
    | none => ⟨[], .err .unknownVersion, Access.none⟩
    | some cfg => runWhole cfg rest

/-! ### The reader before the repair of finding D18 (kept so that the history stays visible)

Until the repair (`fix: teehistorian: Reader keeps player and input state in sparse maps`) the tables
`players`/`inputs` were `vec_map::VecMap`s: arrays of options indexed by the client id.
`VecMap::insert(cid, _)` resizes the backing vector to `cid + 1` entries, so one five-byte
`PLAYER_NEW`/`INPUT_NEW` record with a large client id asked for up to 24 GiB + 88 GiB.  The legacy
semantics below are the reference semantics of that reader on a machine that can allocate `slots`
table entries; `none` stands for the failed allocation (process abort — or, observed, a machine
that swaps itself to a halt).  Everything else is shared with the current model. -/
namespace Legacy

/-- The table slot the old `Reader::read` calls `VecMap::insert` with. -/
def slotOf : FItem → Option Nat
  | .playerNew cid _ _ => if cid < 0 then none else some cid.toNat
  | .inputNew cid _ => if cid < 0 then none else some cid.toNat
  | _ => none

/-- The part of the old `Reader::read` after `read_item`; `none` = the table cannot be resized. -/
def post (slots : Nat) (rd : Reader) (it : FItem) : Option Post :=
  match slotOf it with
  | some c => if c ≥ slots then none else some (rd.post it)
  | none => some (rd.post it)

/-- `interp` with the old tables. -/
def interp (slots : Nat) (cfg : Cfg) (rd : Reader) : List Rec → Tail → Option Output
  | [], tail => some (Teehistorian.interp cfg rd [] tail)
  | r :: rs, tail =>
    match preAll 4 rd r.kind with
    | (its, .stuck) => some ⟨its, .outOfFuel, rd.access⟩
    | (its, .err e rd') => some ⟨its, .err e, rd'.access⟩
    | (its, .ready rd') =>
      match post slots rd' r.item with
      | none => none
      | some (.item it rd'') =>
        match interp slots cfg rd'' rs tail with
        | none => none
        | some o => some { o with items := its ++ it :: o.items }
      | some (.finished rd'') => some ⟨its, .finished, rd''.access⟩
      | some (.err e rd'') => some ⟨its, .err e, rd''.access⟩

def runWhole (slots : Nat) (cfg : Cfg) (s : List UInt8) : Option Output :=
  let r := parseAll cfg.hasEx (s.length + 1) s
  interp slots cfg Reader.empty r.1 r.2

/-- What the old reader made of the whole file `total` (header included). -/
def reference (slots : Nat) (env : Env) (total : List UInt8) : Option Output :=
  match pHeader env.json total with
  | .ok (.version v) rest =>
    match env.cfgOf v with
    | some cfg => runWhole slots cfg rest
    | none => some (Teehistorian.reference env total)
  | _ => some (Teehistorian.reference env total)

end Legacy

end Tw.Teehistorian
