/-
Model of `packer/src/lib.rs` (variable-length integers, packer, unpacker) and of the
write semantics of `buffer::BufferRef` that the packer relies on.

Conventions: bytes are `UInt8`; a Rust `i32` is an `Int` in `[-2^31, 2^31)`; a `u32` bit
pattern is a `Nat < 2^32`.  Every Rust `assert!`/overflow site that can be reached is an
explicit `panic` outcome in the operations that have one.
-/
namespace Tw.Packer

inductive Warning where
  | overlongIntEncoding
  | nonZeroIntPadding
  | excessData
  deriving DecidableEq, Repr, Inhabited

def Warning.name : Warning → String
  | .overlongIntEncoding => "OverlongIntEncoding"
  | .nonZeroIntPadding => "NonZeroIntPadding"
  | .excessData => "ExcessData"

/-- Interpretation of a `u32` bit pattern as an `i32`. -/
def toI32 (r : Nat) : Int :=
  if r % 2 ^ 32 < 2 ^ 31 then ((r % 2 ^ 32 : Nat) : Int) else ((r % 2 ^ 32 : Nat) : Int) - 2 ^ 32

def inI32 (v : Int) : Prop := -(2 : Int) ^ 31 ≤ v ∧ v < (2 : Int) ^ 31

instance (v : Int) : Decidable (inI32 v) := by unfold inI32; infer_instance

/-- The result of the `for i in 0..4` loop of `read_int`:
`(accumulator, last byte read, number of bytes read, remaining input, warnings)`. -/
abbrev TailResult := Nat × UInt8 × Nat × List UInt8 × List Warning

/-- The `for i in 0..4` loop of `read_int`, with `n = 4 - i` iterations left.
`acc` is the `u32` bit pattern of `result`, `src` the last byte read. -/
def readTail : (n : Nat) → (acc : Nat) → (src : UInt8) → (len : Nat) → List UInt8 →
    List Warning → Option TailResult
  | 0, acc, src, len, rest, ws => some (acc, src, len, rest, ws)
  | n + 1, acc, src, len, rest, ws =>
    if src.toNat < 128 then some (acc, src, len, rest, ws)
    else
      match rest with
      | [] => none
      | b :: rest' =>
        let i := 3 - n
        let ws' := if i = 3 ∧ b.toNat / 16 ≠ 0 then ws ++ [Warning.nonZeroIntPadding] else ws
        -- `result |= ((src & 0x7f) as i32) << (6 + 7 * i)`: the bit ranges are disjoint, the
        -- shift discards bits above 31
        let acc' := (acc + (b.toNat % 128) * 2 ^ (6 + 7 * i)) % 2 ^ 32
        readTail n acc' b (len + 1) rest' ws'

/-- `read_int`: `none` is `Err(UnexpectedEnd)`. Returns value, remaining input, warnings. -/
def readInt (bs : List UInt8) : Option (Int × List UInt8 × List Warning) :=
  match bs with
  | [] => none
  | b0 :: rest =>
    let sign := (b0.toNat / 64) % 2
    match readTail 4 (b0.toNat % 64) b0 1 rest [] with
    | none => none
    | some (acc, src, len, rest', ws) =>
      let ws' := if len > 1 ∧ src.toNat = 0 then ws ++ [Warning.overlongIntEncoding] else ws
      -- `result ^= -sign`
      let r := if sign = 1 then 2 ^ 32 - 1 - acc else acc
      some (toI32 r, rest', ws')

/-- The `while int != 0` loop of `write_int` (`fuel` = free slots of the 5-byte `ArrayVec`). -/
def writeTail : (fuel : Nat) → (u : Nat) → List UInt8
  | 0, _ => []
  | f + 1, u =>
    if u = 0 then []
    else
      let next := u % 128
      let u' := u / 128
      UInt8.ofNat ((if u' ≠ 0 then 128 else 0) + next) :: writeTail f u'

/-- `(int ^ -sign) as u32` for an `i32` value. -/
def foldSign (v : Int) : Nat := (if v < 0 then -v - 1 else v).toNat

/-- `write_int` for an `i32` value. -/
def writeInt (v : Int) : List UInt8 :=
  let sign := if v < 0 then 1 else 0
  let u := foldSign v
  let first := u % 64
  let u' := u / 64
  UInt8.ofNat ((if u' ≠ 0 then 128 else 0) + sign * 64 + first) :: writeTail 4 u'

/-! ### Buffer write semantics (`BufferRef::write` = `extend`): on overflow the fitting prefix
is committed and `CapacityError` is returned. -/

structure Buf where
  cap : Nat
  data : List UInt8
  deriving Repr, DecidableEq

def Buf.remaining (b : Buf) : Nat := b.cap - b.data.length

/-- returns the new buffer and `true` on success, `false` on `CapacityError` -/
def Buf.write (b : Buf) (bs : List UInt8) : Buf × Bool :=
  if bs.length ≤ b.remaining then ({ b with data := b.data ++ bs }, true)
  else ({ b with data := b.data ++ bs.take b.remaining }, false)

/-! ### Packer -/

inductive Field where
  | int (v : Int)
  | str (s : List UInt8)      -- NUL-free (asserted by the writer)
  | data (d : List UInt8)
  | raw (d : List UInt8)
  deriving Repr, DecidableEq

inductive PackResult where
  | ok
  | capacity
  | panic (site : String)
  deriving Repr, DecidableEq

def packField (b : Buf) : Field → Buf × PackResult
  | .int v =>
    let (b', ok) := b.write (writeInt v)
    (b', if ok then .ok else .capacity)
  | .str s =>
    if s.any (· == 0) then (b, .panic "write_string:nul")
    else
      let (b1, ok1) := b.write s
      if !ok1 then (b1, .capacity)
      else
        let (b2, ok2) := b1.write [0]
        (b2, if ok2 then .ok else .capacity)
  | .data d =>
    if d.length ≥ 2 ^ 31 then (b, .capacity)
    else
      let (b1, ok1) := b.write (writeInt d.length)
      if !ok1 then (b1, .capacity)
      else
        let (b2, ok2) := b1.write d
        (b2, if ok2 then .ok else .capacity)
  | .raw d =>
    let (b', ok) := b.write d
    (b', if ok then .ok else .capacity)

/-- Packs fields until the first failure. -/
def packAll (b : Buf) : List Field → Buf × PackResult
  | [] => (b, .ok)
  | f :: fs =>
    match packField b f with
    | (b', .ok) => packAll b' fs
    | r => r

/-- Number of bytes `packField` writes for a field when it fits. -/
def Field.encodedLength : Field → Nat
  | .int v => (writeInt v).length
  | .str s => s.length + 1
  | .data d => (writeInt d.length).length + d.length
  | .raw d => d.length

/-! ### Unpacker.  State = the remaining input (`iter.as_slice()`); an error poisons the
unpacker by using up the input, where the Rust does so. -/

inductive Kind where
  | int | str | data | raw (len : Nat) | rest
  deriving Repr, DecidableEq

/-- `read_string` on the raw iterator: on a missing NUL the iterator has been run to its end. -/
def readString : List UInt8 → Option (List UInt8 × List UInt8)
  | [] => none
  | b :: bs =>
    if b = 0 then some ([], bs)
    else match readString bs with
      | none => none
      | some (s, rest) => some (b :: s, rest)

inductive Value where
  | int (v : Int)
  | bytes (s : List UInt8)
  deriving Repr, DecidableEq

/-- One unpacker read: `(result or UnexpectedEnd, remaining input, warnings)`. -/
def unpackOne (inp : List UInt8) : Kind → Option Value × List UInt8 × List Warning
  | .int =>
    -- note: `Unpacker::read_int` does *not* call `use_up` on error, but the iterator has
    -- been advanced over everything it looked at, which in the error case is all of it
    match readInt inp with
    | none => (none, [], [])
    | some (v, rest, ws) => (some (.int v), rest, ws)
  | .str =>
    match readString inp with
    | none => (none, [], [])
    | some (s, rest) => (some (.bytes s), rest, [])
  | .data =>
    match readInt inp with
    | none => (none, [], [])
    | some (v, rest, ws) =>
      if v < 0 then (none, [], ws)
      else if v.toNat > rest.length then (none, [], ws)
      else (some (.bytes (rest.take v.toNat)), rest.drop v.toNat, ws)
  | .raw len =>
    if inp.length < len then (none, [], [])
    else (some (.bytes (inp.take len)), inp.drop len, [])
  | .rest => (some (.bytes inp), [], [])

/-- Reads a sequence of fields, stopping at the first error. Returns the values read so far,
whether an error occurred, the remaining input and all warnings. -/
def unpackAll (inp : List UInt8) : List Kind → List Value × Bool × List UInt8 × List Warning
  | [] => ([], true, inp, [])
  | k :: ks =>
    match unpackOne inp k with
    | (none, rest, ws) => ([], false, rest, ws)
    | (some v, rest, ws) =>
      let (vs, ok, rest', ws') := unpackAll rest ks
      (v :: vs, ok, rest', ws ++ ws')

/-- `Unpacker::finish`: does it warn `ExcessData`? -/
def finishWarns (demo : Bool) (rest : List UInt8) : Bool :=
  if !demo then !rest.isEmpty
  else rest.length ≥ 4 || rest.any (· != 0)

def Field.kind : Field → Kind
  | .int _ => .int
  | .str _ => .str
  | .data _ => .data
  | .raw d => .raw d.length

def Field.value : Field → Value
  | .int v => .int v
  | .str s => .bytes s
  | .data d => .bytes d
  | .raw d => .bytes d

/-! ### `string_to_ints` / `bytes_to_string` -/

/-- `string_to_ints` into `n` integers; `none` = assertion panic. -/
def stringToInts (n : Nat) (s : List UInt8) : Option (List Int) :=
  if s.any (· == 0) then none
  else if ¬ (s.length < n * 4) then none
  else
    let get (i : Nat) (dflt : Nat) : Nat := ((match s[i]? with | some b => b.toNat | none => dflt) + 128) % 256
    some ((List.range n).map fun k =>
      let v0 := get (4 * k) 0
      let v1 := get (4 * k + 1) 0
      let v2 := get (4 * k + 2) 0
      let v3 := get (4 * k + 3) (if k + 1 < n then 0 else 128)
      toI32 (v0 * 2 ^ 24 + v1 * 2 ^ 16 + v2 * 2 ^ 8 + v3))

/-- `bytes_to_string`: returns the string and whether `WeirdStringTermination` was warned. -/
def bytesToString (bs : List UInt8) : List UInt8 × Bool :=
  if bs.isEmpty then (bs, true)
  else
    let e := match bs.findIdx? (· == 0) with
      | some i => i
      | none => bs.length - 1
    (bs.take e, (bs.drop e).any (· != 0))

/-! ### Specification vocabulary for field sequences -/

/-- well-formed field: what the writer's API accepts (`i32`, NUL-free string, `len` fits `i32`) -/
def Field.wf : Field → Prop
  | .int v => inI32 v
  | .str s => ∀ b ∈ s, b ≠ 0
  | .data d => d.length < 2 ^ 31
  | .raw _ => True

/-- the bytes a field is encoded to -/
def Field.encode : Field → List UInt8
  | .int v => writeInt v
  | .str s => s ++ [0]
  | .data d => writeInt d.length ++ d
  | .raw d => d

def totalLen (fs : List Field) : Nat := (fs.map Field.encodedLength).sum
def encodeAll (fs : List Field) : List UInt8 := fs.flatMap Field.encode

/-! ### The value `doc/int.md` prescribes (independent of `readInt`) -/

/-- digits of the continuation bytes, little endian, 7 bits each (`doc/int.md`) -/
def tailMag : List UInt8 → Nat
  | [] => 0
  | b :: tl => b.toNat % 128 + 128 * tailMag tl

/-- the magnitude `doc/int.md` assigns to an encoded integer: 6 bits of the first byte, then
7 bits of each following byte, little endian -/
def docMag : List UInt8 → Nat
  | [] => 0
  | b0 :: tl => b0.toNat % 64 + 64 * tailMag tl

/-- the value `doc/int.md` assigns: the sign flag flips all bits of the magnitude -/
def docValue (c : List UInt8) : Int :=
  match c with
  | [] => 0
  | b0 :: _ => if (b0.toNat / 64) % 2 = 1 then -(docMag c : Int) - 1 else (docMag c : Int)

end Tw.Packer
